package brontide

// C11 monitor: the brontide transport delivers exactly the bytes sent, in
// order, or fails; no (key, nonce) pair is used to encrypt twice.
//
// An independent BOLT-8 reference (own HKDF over HMAC-SHA256, own handshake
// transcript and rotation bookkeeping, ChaCha20-Poly1305 from x/crypto, raw
// secp256k1 scalar multiplication) is stepped alongside pairs of REAL
// Machines / Conns that talk over a deterministic in-memory faulty pipe. The
// reference is first checked against the BOLT-8 appendix vectors; a failure
// there is a harness defect (t.Fatalf => inconclusive), never a verdict.
//
// Verdict-bearing oracles (statement sentence in brackets):
//
//   - handshake_completes / handshake_wrong_key / handshake_corruption [the
//     handshake completes exactly when the initiator targets the responder's
//     real static key]; handshake_keys [each side's send keys equal the
//     other's receive keys];
//   - ciphertext_reference: every act and every header/body byte put on the
//     wire equals the reference ciphertext, i.e. the (key, nonce) used is the
//     BOLT-8 one through all 1000-message rotations [any number of
//     1000-message key rotations; no (key, nonce) pair used twice];
//   - nonce_reuse: the (secretKey, nonce) pairs handed to AEAD.Seal by the two
//     send ciphers of a session contain no duplicate [same sentence];
//   - stream_identity: after any pattern of short writes + Flush retries the
//     bytes on the wire are the reference ciphertext of the message exactly
//     once [across arbitrarily fragmented or interrupted writes];
//   - delivery: the reader returns the plaintexts identical and in order;
//   - tamper: modification / truncation / reordering / replay / reflection /
//     splice of ciphertext makes the read fail and yields no data.
//
// Diagnostics: flush_count (plaintext byte accounting of Flush), not_flushed
// (WriteMessage while a message is pending), after_error_delivery, tcp_env.

import (
	"bytes"
	"crypto/cipher"
	"crypto/hmac"
	"crypto/sha256"
	"encoding/binary"
	"encoding/hex"
	"errors"
	"fmt"
	"io"
	"net"
	"reflect"
	"testing"
	"time"

	"github.com/btcsuite/btcd/btcec/v2"
	"github.com/lightningnetwork/lnd/keychain"
	"github.com/lightningnetwork/lnd/lnwire"
	"golang.org/x/crypto/chacha20poly1305"
)

// ---------------------------------------------------------------- reference

func verifC11HMAC(key, data []byte) []byte {
	m := hmac.New(sha256.New, key)
	m.Write(data)
	return m.Sum(nil)
}

// verifC11HKDF is HKDF-SHA256 (RFC 5869) with empty info, 64 bytes of output.
func verifC11HKDF(salt, ikm []byte) (o1, o2 [32]byte) {
	prk := verifC11HMAC(salt, ikm)
	t1 := verifC11HMAC(prk, []byte{1})
	t2 := verifC11HMAC(prk, append(append([]byte{}, t1...), 2))
	copy(o1[:], t1)
	copy(o2[:], t2)
	return
}

// verifC11ECDH: sha256 of the compressed point priv*pub (BOLT-8 ECDH).
func verifC11ECDH(priv *btcec.PrivateKey, pub *btcec.PublicKey) []byte {
	var p, res btcec.JacobianPoint
	pub.AsJacobian(&p)
	btcec.ScalarMultNonConst(&priv.Key, &p, &res)
	res.ToAffine()
	h := sha256.Sum256(btcec.NewPublicKey(&res.X, &res.Y).SerializeCompressed())
	return h[:]
}

func verifC11Seal(key [32]byte, n uint64, ad, pt []byte) []byte {
	a, err := chacha20poly1305.New(key[:])
	if err != nil {
		panic(err)
	}
	var nonce [12]byte
	binary.LittleEndian.PutUint64(nonce[4:], n)
	return a.Seal(nil, nonce[:], pt, ad)
}

func verifC11Hash(parts ...[]byte) [32]byte {
	h := sha256.New()
	for _, p := range parts {
		h.Write(p)
	}
	var o [32]byte
	copy(o[:], h.Sum(nil))
	return o
}

// verifC11RefCS is one direction's transport cipher state of the reference.
type verifC11RefCS struct {
	k, ck [32]byte
	n     uint64
	rot   int
}

func (c *verifC11RefCS) enc(pt []byte) []byte {
	ct := verifC11Seal(c.k, c.n, nil, pt)
	c.n++
	if c.n == 1000 {
		c.ck, c.k = verifC11HKDF(c.ck[:], c.k[:])
		c.n = 0
		c.rot++
	}
	return ct
}

// message returns header||body of the next message.
func (c *verifC11RefCS) message(p []byte) []byte {
	var l [2]byte
	binary.BigEndian.PutUint16(l[:], uint16(len(p)))
	out := c.enc(l[:])
	return append(out, c.enc(p)...)
}

type verifC11RefHS struct {
	act1, act2, act3 []byte
	sk, rk, ck       [32]byte // initiator send key, initiator recv key, chaining key
}

// verifC11RefHandshake computes the whole BOLT-8 transcript from the four
// private keys. rsTarget is the responder static key the INITIATOR believes in.
func verifC11RefHandshake(ls, le, rs, re *btcec.PrivateKey) verifC11RefHS {
	var out verifC11RefHS
	h := sha256.Sum256([]byte("Noise_XK_secp256k1_ChaChaPoly_SHA256"))
	ck := h
	h = verifC11Hash(h[:], []byte("lightning"))
	h = verifC11Hash(h[:], rs.PubKey().SerializeCompressed())

	// act one
	ePub := le.PubKey().SerializeCompressed()
	h = verifC11Hash(h[:], ePub)
	ck, k1 := verifC11HKDF(ck[:], verifC11ECDH(le, rs.PubKey()))
	c := verifC11Seal(k1, 0, h[:], nil)
	h = verifC11Hash(h[:], c)
	out.act1 = append(append([]byte{0}, ePub...), c...)

	// act two
	rePub := re.PubKey().SerializeCompressed()
	h = verifC11Hash(h[:], rePub)
	ck, k2 := verifC11HKDF(ck[:], verifC11ECDH(re, le.PubKey()))
	c = verifC11Seal(k2, 0, h[:], nil)
	h = verifC11Hash(h[:], c)
	out.act2 = append(append([]byte{0}, rePub...), c...)

	// act three
	c = verifC11Seal(k2, 1, h[:], ls.PubKey().SerializeCompressed())
	h = verifC11Hash(h[:], c)
	ck, k3 := verifC11HKDF(ck[:], verifC11ECDH(ls, re.PubKey()))
	t := verifC11Seal(k3, 0, h[:], nil)
	out.act3 = append(append([]byte{0}, c...), t...)

	out.sk, out.rk = verifC11HKDF(ck[:], nil)
	out.ck = ck
	return out
}

func verifC11Unhex(s string) []byte {
	b, err := hex.DecodeString(s)
	if err != nil {
		panic(err)
	}
	return b
}

// verifC11SelfCheck validates the reference against the BOLT-8 appendix.
func verifC11SelfCheck() error {
	rep := func(b byte) *btcec.PrivateKey {
		k, _ := btcec.PrivKeyFromBytes(bytes.Repeat([]byte{b}, 32))
		return k
	}
	hs := verifC11RefHandshake(rep(0x11), rep(0x12), rep(0x21), rep(0x22))
	want1 := "00036360e856310ce5d294e8be33fc807077dc56ac80d95d9cd4ddbd21325eff73f70df6086551151f58b8afe6c195782c6a"
	want2 := "0002466d7fcae563e5cb09a0d1870bb580344804617879a14949cf22285f1bae3f276e2470b93aac583c9ef6eafca3f730ae"
	want3 := "00b9e3a702e93e3a9948c2ed6e5fd7590a6e1c3a0344cfc9d5b57357049aa22355361aa02e55a8fc28fef5bd6d71ad0c38228dc68b1c466263b47fdf31e560e139ba"
	if hex.EncodeToString(hs.act1) != want1 || hex.EncodeToString(hs.act2) != want2 ||
		hex.EncodeToString(hs.act3) != want3 {

		return fmt.Errorf("reference acts do not match BOLT-8: %x %x %x", hs.act1, hs.act2, hs.act3)
	}
	if hex.EncodeToString(hs.sk[:]) != "969ab31b4d288cedf6218839b27a3e2140827047f2c0f01bf5c04435d43511a9" ||
		hex.EncodeToString(hs.rk[:]) != "bb9020b8965f4df047e07f955f3c4b88418984aadc5cdb35096b9ea8fa5c3442" ||
		hex.EncodeToString(hs.ck[:]) != "919219dbb2920afa8db80f9a51787a840bcf111ed8d588caf9ab4be716e42b01" {

		return fmt.Errorf("reference keys do not match BOLT-8")
	}
	cs := &verifC11RefCS{k: hs.sk, ck: hs.ck}
	want := map[int]string{
		0:    "cf2b30ddf0cf3f80e7c35a6e6730b59fe802473180f396d88a8fb0db8cbcf25d2f214cf9ea1d95",
		1:    "72887022101f0b6753e0c7de21657d35a4cb2a1f5cde2650528bbc8f837d0f0d7ad833b1a256a1",
		500:  "178cb9d7387190fa34db9c2d50027d21793c9bc2d40b1e14dcf30ebeeeb220f48364f7a4c68bf8",
		501:  "1b186c57d44eb6de4c057c49940d79bb838a145cb528d6e8fd26dbe50a60ca2c104b56b60e45bd",
		1000: "4a2f3cc3b5e78ddb83dcb426d9863d9d9a723b0337c89dd0b005d89f8d3c05c52b76b29b740f09",
		1001: "2ecd8c8a5629d0d02ab457a0fdd0f7b90a192cd46be5ecb6ca570bfc5e268338b1a16cf4ef2d36",
	}
	for i := 0; i <= 1001; i++ {
		m := cs.message([]byte("hello"))
		if w, ok := want[i]; ok && hex.EncodeToString(m) != w {
			return fmt.Errorf("reference message %d does not match BOLT-8: %x", i, m)
		}
	}
	return nil
}

// ---------------------------------------------------------------- faulty pipe

type verifC11Timeout struct{}

func (verifC11Timeout) Error() string   { return "verif: injected write timeout" }
func (verifC11Timeout) Timeout() bool   { return true }
func (verifC11Timeout) Temporary() bool { return true }

var _ net.Error = verifC11Timeout{}

// verifC11Pipe is one direction of an in-memory connection. The writer side
// accepts a PRNG-chosen prefix of each Write and then reports a timeout; the
// reader side fragments arbitrarily. Single-goroutine by construction.
type verifC11Pipe struct {
	r        *verifRng
	buf      []byte // written, not yet read
	faultNum int    // a Write is cut short with probability faultNum/faultDen
	faultDen int
	stall    int // consecutive zero-byte writes so far (bounded)
	wrote    []byte
	nWrites  int
	nShort   int
}

func (p *verifC11Pipe) Write(b []byte) (int, error) {
	p.nWrites++
	if p.faultDen > 0 && len(b) > 0 && p.r.Chance(p.faultNum, p.faultDen) {
		var k int
		switch p.r.Intn(5) {
		case 0:
			k = 0
		case 1:
			k = 1
		case 2:
			k = len(b) - 1
		default:
			k = p.r.Intn(len(b))
		}
		if k == 0 {
			p.stall++
			if p.stall > 3 {
				k = 1
			}
		}
		if k > 0 {
			p.stall = 0
		}
		p.buf = append(p.buf, b[:k]...)
		p.wrote = append(p.wrote, b[:k]...)
		p.nShort++
		return k, verifC11Timeout{}
	}
	p.stall = 0
	p.buf = append(p.buf, b...)
	p.wrote = append(p.wrote, b...)
	return len(b), nil
}

func (p *verifC11Pipe) Read(b []byte) (int, error) {
	if len(p.buf) == 0 {
		return 0, io.EOF
	}
	if len(b) == 0 {
		return 0, nil
	}
	n := len(b)
	if n > len(p.buf) {
		n = len(p.buf)
	}
	if p.r.Chance(2, 3) {
		n = 1 + p.r.Intn(n)
	}
	copy(b, p.buf[:n])
	p.buf = p.buf[n:]
	return n, nil
}

// verifC11End is a net.Conn made of two pipes.
type verifC11End struct {
	in, out *verifC11Pipe
}

func (e *verifC11End) Read(b []byte) (int, error)       { return e.in.Read(b) }
func (e *verifC11End) Write(b []byte) (int, error)      { return e.out.Write(b) }
func (e *verifC11End) Close() error                     { return nil }
func (e *verifC11End) LocalAddr() net.Addr              { return &net.TCPAddr{} }
func (e *verifC11End) RemoteAddr() net.Addr             { return &net.TCPAddr{} }
func (e *verifC11End) SetDeadline(time.Time) error      { return nil }
func (e *verifC11End) SetReadDeadline(time.Time) error  { return nil }
func (e *verifC11End) SetWriteDeadline(time.Time) error { return nil }

// verifC11FragReader feeds a fixed byte string in PRNG fragments, then EOF.
type verifC11FragReader struct {
	r   *verifRng
	buf []byte
}

func (f *verifC11FragReader) Read(b []byte) (int, error) {
	if len(f.buf) == 0 {
		return 0, io.EOF
	}
	n := len(b)
	if n > len(f.buf) {
		n = len(f.buf)
	}
	if n > 1 && f.r.Bool() {
		n = 1 + f.r.Intn(n)
	}
	copy(b, f.buf[:n])
	f.buf = f.buf[n:]
	return n, nil
}

// ---------------------------------------------------------------- nonce monitor

type verifC11NonceMon struct {
	seen     map[string]struct{}
	dup      string
	n        int
	reported bool
}

type verifC11AEAD struct {
	inner cipher.AEAD
	cs    *cipherState
	mon   *verifC11NonceMon
}

func (a *verifC11AEAD) NonceSize() int { return a.inner.NonceSize() }
func (a *verifC11AEAD) Overhead() int  { return a.inner.Overhead() }
func (a *verifC11AEAD) Open(dst, nonce, ct, ad []byte) ([]byte, error) {
	return a.inner.Open(dst, nonce, ct, ad)
}
func (a *verifC11AEAD) Seal(dst, nonce, pt, ad []byte) []byte {
	key := string(verifC11Bytes(a.cs.secretKey)) + string(nonce)
	if _, ok := a.mon.seen[key]; ok && a.mon.dup == "" {
		a.mon.dup = fmt.Sprintf("key=%x nonce=%x", verifC11Bytes(a.cs.secretKey)[:4], nonce)
	}
	a.mon.seen[key] = struct{}{}
	a.mon.n++
	return a.inner.Seal(dst, nonce, pt, ad)
}

// verifC11Watch (re)installs the recording AEAD on a machine's send cipher
// (key rotation replaces the AEAD object, so this is called before every
// WriteMessage; every Seal of the send cipher is therefore observed).
func verifC11Watch(m *Machine, mon *verifC11NonceMon) {
	if _, ok := m.sendCipher.cipher.(*verifC11AEAD); !ok && m.sendCipher.cipher != nil {
		m.sendCipher.cipher = &verifC11AEAD{inner: m.sendCipher.cipher,
			cs: &m.sendCipher, mon: mon}
	}
}

// ---------------------------------------------------------------- session

type verifC11Keys struct {
	ls, le, rs, re, wrong *btcec.PrivateKey
}

func verifC11GenKey(r *verifRng) *btcec.PrivateKey {
	for {
		b := r.Bytes(32)
		var s btcec.ModNScalar
		if overflow := s.SetByteSlice(b); overflow || s.IsZero() {
			continue
		}
		k, _ := btcec.PrivKeyFromBytes(b)
		return k
	}
}

func verifC11NewMachines(k verifC11Keys, target *btcec.PublicKey) (*Machine, *Machine) {
	a := NewBrontideMachine(true, &keychain.PrivKeyECDH{PrivKey: k.ls}, target,
		EphemeralGenerator(func() (*btcec.PrivateKey, error) { return k.le, nil }))
	b := NewBrontideMachine(false, &keychain.PrivKeyECDH{PrivKey: k.rs}, nil,
		EphemeralGenerator(func() (*btcec.PrivateKey, error) { return k.re, nil }))
	return a, b
}

type verifC11S struct {
	vc   *verifCtx
	r    *verifRng
	idx  int
	keys verifC11Keys
	wit  map[string]any
	by   *verifC11By
}

// verifC11By is a second, independent connection of the same process (own
// keys, own Machines). The pooled write buffers of brontide are shared by all
// connections of a node, so what one connection does between two Flush
// attempts of another must not disturb either stream. It has its own PRNG
// stream (derived from seed and session index; the session's stream is not
// consumed).
type verifC11By struct {
	r    *verifRng
	a, b *Machine
	wire bytes.Buffer
	dead bool
	n    int
}

func (s *verifC11S) bystanderTraffic(where string) {
	if s.by == nil {
		br := &verifRng{s: verifMix(s.vc.Seed ^ verifMix(verifHashStr("c11-bystander")^uint64(s.idx)*0x9e3779b97f4a7c15))}
		by := &verifC11By{r: br}
		s.by = by
		k := verifC11Keys{ls: verifC11GenKey(br), le: verifC11GenKey(br), rs: verifC11GenKey(br), re: verifC11GenKey(br)}
		by.a, by.b = verifC11NewMachines(k, k.rs.PubKey())
		act1, err := by.a.GenActOne()
		if err == nil {
			err = by.b.RecvActOne(act1)
		}
		var act2 [ActTwoSize]byte
		if err == nil {
			act2, err = by.b.GenActTwo()
		}
		if err == nil {
			err = by.a.RecvActTwo(act2)
		}
		var act3 [ActThreeSize]byte
		if err == nil {
			act3, err = by.a.GenActThree()
		}
		if err == nil {
			err = by.b.RecvActThree(act3)
		}
		if err != nil {
			by.dead = true
			s.viol("handshake_completes", "bystander", fmt.Sprintf("handshake of the second connection failed: %v", err))
		}
	}
	by := s.by
	if by.dead {
		return
	}
	// one or two small messages, each written, flushed and read back
	for k := 1 + by.r.Intn(2); k > 0; k-- {
		from, to := by.a, by.b
		if by.r.Bool() {
			from, to = by.b, by.a
		}
		p := by.r.Bytes(by.r.Intn(48))
		by.wire.Reset()
		if err := from.WriteMessage(p); err != nil {
			by.dead = true
			s.viol("stream_identity", "bystander|write-message", fmt.Sprintf("WriteMessage on the second connection failed (%s): %v", where, err))
			return
		}
		if _, err := from.Flush(&by.wire); err != nil {
			by.dead = true
			s.viol("stream_identity", "bystander|flush", fmt.Sprintf("Flush on the second connection failed (%s): %v", where, err))
			return
		}
		got, err := to.ReadMessage(&by.wire)
		s.vc.Count("bystander_messages", 1)
		s.vc.Count("delivery_evals", 1)
		if err != nil || !bytes.Equal(got, p) {
			by.dead = true
			s.viol("delivery", "bystander", fmt.Sprintf(
				"message %d of the second connection (%d bytes, sent %s) was read back as err=%v, equal=%v", by.n, len(p), where, err, bytes.Equal(got, p)))
			return
		}
		by.n++
	}
}

func (s *verifC11S) viol(oracle, key, detail string) {
	s.vc.Violation(oracle, key, detail, s.wit)
}

func verifC11Corrupt(r *verifRng, act []byte, pos int) []byte {
	c := append([]byte{}, act...)
	if r.Bool() {
		c[pos] ^= 1 << uint(r.Intn(8))
	} else {
		c[pos] ^= byte(1 + r.Intn(255))
	}
	return c
}

// handshake runs oracle 1 and returns the two real machines after a good
// handshake plus the reference transcript.
func (s *verifC11S) handshake(allBytes bool) (*Machine, *Machine, verifC11RefHS, bool) {
	vc, r, k := s.vc, s.r, s.keys
	ref := verifC11RefHandshake(k.ls, k.le, k.rs, k.re)

	// (a) wrong static key => act one is rejected by the real responder.
	wrongs := []*btcec.PublicKey{k.wrong.PubKey()}
	{
		// same x, other parity
		neg := *k.rs.PubKey()
		ser := neg.SerializeCompressed()
		ser[0] ^= 1
		if p, err := btcec.ParsePubKey(ser); err == nil {
			wrongs = append(wrongs, p)
		}
		// the initiator's own key
		wrongs = append(wrongs, k.ls.PubKey())
	}
	for _, w := range wrongs {
		a, b := verifC11NewMachines(k, w)
		act1, err := a.GenActOne()
		if err != nil {
			vc.Diag("gen_act_one_failed", err.Error())
			continue
		}
		vc.Count("handshake_wrong_key_evals", 1)
		if err := b.RecvActOne(act1); err == nil {
			s.viol("handshake_wrong_key", "act1-accepted",
				"responder accepted act one from an initiator that targets a different static key")
		}
	}

	// (b) good handshake, stepped with the reference.
	a, b := verifC11NewMachines(k, k.rs.PubKey())
	fail := func(step string, err error) (*Machine, *Machine, verifC11RefHS, bool) {
		s.viol("handshake_completes", step, fmt.Sprintf("%s failed with the right static key: %v", step, err))
		return nil, nil, ref, false
	}
	act1, err := a.GenActOne()
	if err != nil {
		return fail("GenActOne", err)
	}
	aAfter1 := *a // template: initiator waiting for act two
	bFresh := *b  // template: responder waiting for act one
	if err := b.RecvActOne(act1); err != nil {
		return fail("RecvActOne", err)
	}
	act2, err := b.GenActTwo()
	if err != nil {
		return fail("GenActTwo", err)
	}
	bAfter2 := *b // template: responder waiting for act three
	if err := a.RecvActTwo(act2); err != nil {
		return fail("RecvActTwo", err)
	}
	act3, err := a.GenActThree()
	if err != nil {
		return fail("GenActThree", err)
	}
	if err := b.RecvActThree(act3); err != nil {
		return fail("RecvActThree", err)
	}
	vc.Count("handshakes_completed", 1)
	vc.Count("ciphertext_reference_evals", 3)
	if !bytes.Equal(act1[:], ref.act1) || !bytes.Equal(act2[:], ref.act2) ||
		!bytes.Equal(act3[:], ref.act3) {

		s.viol("ciphertext_reference", "handshake-acts", fmt.Sprintf(
			"acts differ from the BOLT-8 reference:\n1 %x\n  %x\n2 %x\n  %x\n3 %x\n  %x",
			act1, ref.act1, act2, ref.act2, act3, ref.act3))
	}
	vc.Count("handshake_keys_evals", 1)
	// private fields are read through verifC11Bytes (reflection) so that a
	// representation change (array <-> slice) in lnd does not stop the
	// harness from building.
	vb := verifC11Bytes
	if !bytes.Equal(vb(a.sendCipher.secretKey), vb(b.recvCipher.secretKey)) ||
		!bytes.Equal(vb(a.recvCipher.secretKey), vb(b.sendCipher.secretKey)) ||
		!bytes.Equal(vb(a.sendCipher.salt), vb(b.recvCipher.salt)) ||
		!bytes.Equal(vb(a.recvCipher.salt), vb(b.sendCipher.salt)) {

		s.viol("handshake_keys", "send!=recv", "after a completed handshake one side's send key/salt differs from the other's receive key/salt")
	}
	if !bytes.Equal(vb(a.sendCipher.secretKey), ref.sk[:]) || !bytes.Equal(vb(a.recvCipher.secretKey), ref.rk[:]) ||
		!bytes.Equal(vb(a.sendCipher.salt), ref.ck[:]) || !bytes.Equal(vb(a.recvCipher.salt), ref.ck[:]) ||
		a.sendCipher.nonce != 0 || a.recvCipher.nonce != 0 {

		s.viol("ciphertext_reference", "session-keys", "session keys / salt differ from the BOLT-8 reference")
	}
	if b.remoteStatic == nil || !b.remoteStatic.IsEqual(k.ls.PubKey()) {
		s.viol("handshake_keys", "remote-static", "responder learned a different initiator static key")
	}

	// (c) single-byte corruption of each act must make the receiving side
	// fail; the uncorrupted act on the same cloned state must succeed
	// (control against a vacuous template).
	type trial struct {
		name string
		act  []byte
		run  func(c []byte) error
	}
	trials := []trial{
		{"act1", act1[:], func(c []byte) error {
			m := bFresh
			var x [ActOneSize]byte
			copy(x[:], c)
			return m.RecvActOne(x)
		}},
		{"act2", act2[:], func(c []byte) error {
			m := aAfter1
			var x [ActTwoSize]byte
			copy(x[:], c)
			return m.RecvActTwo(x)
		}},
		{"act3", act3[:], func(c []byte) error {
			m := bAfter2
			var x [ActThreeSize]byte
			copy(x[:], c)
			return m.RecvActThree(x)
		}},
	}
	for _, tr := range trials {
		if err := tr.run(tr.act); err != nil {
			s.viol("handshake_completes", tr.name+"-control", fmt.Sprintf(
				"uncorrupted %s rejected on a cloned state: %v", tr.name, err))
			continue
		}
		var positions []int
		if allBytes {
			for p := range tr.act {
				positions = append(positions, p)
			}
		} else {
			positions = []int{0, 1, 1 + r.Intn(33), 34 + r.Intn(len(tr.act)-34), len(tr.act) - 1}
		}
		for _, p := range positions {
			c := verifC11Corrupt(r, tr.act, p)
			vc.Count("handshake_corruption_evals", 1)
			if err := tr.run(c); err == nil {
				s.viol("handshake_corruption", fmt.Sprintf("%s-byte%d", tr.name, p), fmt.Sprintf(
					"%s with byte %d corrupted (%x -> %x) was accepted", tr.name, p, tr.act[p], c[p]))
			}
		}
	}
	return a, b, ref, true
}

var verifC11Counts = []int{0, 1, 2, 3, 7, 499, 500, 501, 502, 999, 1000, 1001, 1499, 1500, 1501,
	1502, 1600}

func verifC11Size(r *verifRng, small bool) int {
	switch r.Intn(40) {
	case 0:
		return 65535
	case 1:
		return 65534
	case 2:
		return []int{65519, 65520, 65521, 32768, 16384}[r.Intn(5)]
	case 3:
		if small {
			return r.Intn(300)
		}
		return r.Intn(65536)
	case 4, 5, 6:
		return 0
	case 7, 8, 9:
		return 1
	case 10, 11:
		return 2 + r.Intn(30)
	default:
		return r.Intn(120)
	}
}

type verifC11Dir struct {
	name     string
	from, to *Machine
	cFrom    *Conn
	cTo      *Conn
	pipe     *verifC11Pipe
	ref      *verifC11RefCS
	sent     int
	prevWire []byte // wire bytes of the previous message of this direction
	lastWire []byte // wire bytes of the most recent message of this direction
}

// send writes message p through one of the real write APIs under the pipe's
// fault schedule and checks stream identity against the reference.
func (s *verifC11S) send(d *verifC11Dir, p []byte, mon *verifC11NonceMon) (wire []byte, ok bool) {
	vc, r := s.vc, s.r
	verifC11Watch(d.from, mon)
	expected := d.ref.message(p)
	d.pipe.wrote = d.pipe.wrote[:0]
	api := r.Intn(3)
	var (
		err     error
		flushed int
	)
	switch api {
	case 0:
		err = d.from.WriteMessage(p)
	case 1:
		err = d.cFrom.WriteMessage(p)
	default:
		// Conn.Write = WriteMessage + one Flush.
		flushed, err = d.cFrom.Write(p)
		var ne net.Error
		if err != nil && !(errors.As(err, &ne) && ne.Timeout()) {
			s.viol("stream_identity", d.name+"|conn-write", fmt.Sprintf("Conn.Write(%d bytes) failed: %v", len(p), err))
			return nil, false
		}
		err = nil
	}
	if err != nil {
		s.viol("stream_identity", d.name+"|write-message", fmt.Sprintf("WriteMessage(%d bytes) failed: %v", len(p), err))
		return nil, false
	}
	// Flush until done; only timeouts are retried (as the API documents).
	for tries := 0; ; tries++ {
		if tries > 400000 {
			s.vc.t.Fatalf("verif C11: flush does not terminate (harness fault schedule)")
		}
		if len(d.from.nextHeaderSend) == 0 && len(d.from.nextBodySend) == 0 && (api == 2 || tries > 0) {
			break
		}
		// A caller retrying the write while a message is pending must
		// not disturb the stream.
		if tries > 0 && r.Chance(1, 6) {
			vc.Count("write_while_pending", 1)
			if err := d.from.WriteMessage(p); err == nil {
				vc.Diag("not_flushed", "WriteMessage accepted a message while the previous one was not fully flushed")
			}
		}
		var n int
		if r.Bool() {
			n, err = d.from.Flush(d.pipe)
		} else {
			n, err = d.cFrom.Flush()
		}
		flushed += n
		if err != nil {
			var ne net.Error
			if !(errors.As(err, &ne) && ne.Timeout()) {
				s.viol("stream_identity", d.name+"|flush", fmt.Sprintf("Flush failed: %v", err))
				return nil, false
			}
			// The write timed out with part of this message on the
			// wire: another connection of the node is served before
			// the flush is resumed.
			if s.by == nil || s.by.r.Chance(1, 3) {
				where := "body"
				if len(d.from.nextHeaderSend) > 0 {
					where = "header"
					s.vc.Count("bystander_inside_partial_header", 1)
				}
				s.bystanderTraffic("inside a partially flushed " + where + " of " + d.name)
			}
		}
	}
	if mon.dup != "" && !mon.reported {
		mon.reported = true
		s.viol("nonce_reuse", "duplicate", "a (key, nonce) pair was passed to AEAD.Seal twice: "+mon.dup)
	}
	vc.Count("stream_identity_evals", 1)
	vc.Count("ciphertext_reference_evals", 1)
	wire = append([]byte{}, d.pipe.wrote...)
	if !bytes.Equal(wire, expected) {
		oracle := "ciphertext_reference"
		key := d.name + fmt.Sprintf("|msg%d", d.sent)
		if d.pipe.nShort > 0 && len(wire) != len(expected) {
			oracle = "stream_identity"
		}
		diff := 0
		for diff < len(wire) && diff < len(expected) && wire[diff] == expected[diff] {
			diff++
		}
		s.viol(oracle, key, fmt.Sprintf(
			"wire bytes of message %d (%d plaintext bytes, %s) differ from the reference: got %d bytes want %d, first difference at %d",
			d.sent, len(p), d.name, len(wire), len(expected), diff))
		return nil, false
	}
	if flushed != len(p) {
		vc.Diag("flush_count", fmt.Sprintf("Flush reported %d plaintext bytes for a %d-byte message", flushed, len(p)))
	}
	d.sent++
	d.prevWire, d.lastWire = d.lastWire, wire
	return wire, true
}

// recv reads the next message through one of the real read APIs.
func (s *verifC11S) recv(d *verifC11Dir, want []byte) bool {
	vc, r := s.vc, s.r
	var (
		got []byte
		err error
	)
	api := r.Intn(4)
	if api == 3 && len(want) == 0 {
		api = 0
	}
	switch api {
	case 0:
		got, err = d.to.ReadMessage(d.pipe)
	case 1:
		got, err = d.cTo.ReadNextMessage()
	case 2:
		var l uint32
		l, err = d.cTo.ReadNextHeader()
		if err == nil {
			got, err = d.cTo.ReadNextBody(make([]byte, l))
		}
	default:
		// stream API with small buffers
		for len(got) < len(want) && err == nil {
			buf := make([]byte, 1+r.Intn(len(want)+8))
			var n int
			n, err = d.cTo.Read(buf)
			got = append(got, buf[:n]...)
		}
		if d.cTo.readBuf.Len() != 0 && err == nil {
			err = fmt.Errorf("%d surplus bytes in the read buffer", d.cTo.readBuf.Len())
		}
	}
	vc.Count("delivery_evals", 1)
	if err != nil || !bytes.Equal(got, want) {
		s.viol("delivery", d.name, fmt.Sprintf(
			"message %d (%s, %d bytes): read returned err=%v, %d bytes, equal=%v",
			d.sent-1, d.name, len(want), err, len(got), bytes.Equal(got, want)))
		return false
	}
	if len(d.pipe.buf) != 0 {
		s.viol("delivery", d.name+"|residue", fmt.Sprintf("%d wire bytes left unread after the message", len(d.pipe.buf)))
		return false
	}
	return true
}

// tamperTrials feeds hostile variants of the pending wire bytes to the
// receiver on a snapshot of its receive cipher; each must fail and yield no
// data.
func (s *verifC11S) tamperTrials(d, rev *verifC11Dir, wire []byte, n int) {
	vc, r := s.vc, s.r
	for t := 0; t < n; t++ {
		var (
			evil []byte
			kind string
		)
		hdr := encHeaderSize
		switch r.Intn(9) {
		case 0:
			kind = "flip-header"
			evil = append([]byte{}, wire...)
			evil[r.Intn(hdr)] ^= 1 << uint(r.Intn(8))
		case 1:
			kind = "flip-body"
			evil = append([]byte{}, wire...)
			evil[hdr+r.Intn(len(wire)-hdr)] ^= 1 << uint(r.Intn(8))
		case 2:
			kind = "truncate"
			evil = append([]byte{}, wire[:r.Intn(len(wire))]...)
		case 3:
			kind = "replay"
			if d.prevWire == nil {
				continue
			}
			evil = d.prevWire
		case 4:
			kind = "reorder"
			// the message after the pending one, delivered first
			cp := *d.ref
			evil = cp.message(r.Bytes(r.Intn(40)))
		case 5:
			kind = "reflect"
			if rev.lastWire == nil {
				continue
			}
			evil = rev.lastWire
		case 6:
			kind = "splice"
			if d.prevWire == nil {
				continue
			}
			evil = append(append([]byte{}, wire[:hdr]...), d.prevWire[hdr:]...)
			if bytes.Equal(evil, wire) {
				continue
			}
		case 7:
			kind = "multi-flip"
			evil = append([]byte{}, wire...)
			for j := 0; j < 2+r.Intn(6); j++ {
				evil[r.Intn(len(evil))] ^= byte(1 + r.Intn(255))
			}
			if bytes.Equal(evil, wire) {
				continue
			}
		default:
			kind = "swap-header-body"
			// body bytes where the header is expected
			evil = append(append([]byte{}, wire[hdr:]...), wire[:hdr]...)
			if bytes.Equal(evil, wire) {
				continue
			}
		}
		save := d.to.recvCipher
		got, err := d.to.ReadMessage(&verifC11FragReader{r: r, buf: evil})
		d.to.recvCipher = save
		vc.Count("tamper_evals", 1)
		vc.Sig("tamper|" + kind)
		if err == nil || len(got) != 0 {
			s.viol("tamper", kind, fmt.Sprintf(
				"%s of message %d (%s): ReadMessage returned err=%v and %d bytes",
				kind, d.sent-1, d.name, err, len(got)))
		}
	}
}

func (s *verifC11S) run() {
	vc, r := s.vc, s.r
	allBytes := vc.Thorough() || s.idx%4 == 0
	a, b, ref, ok := s.handshake(allBytes)
	if !ok {
		return
	}
	faultDen := []int{0, 1, 2, 4, 10}[r.Intn(5)]
	pAB := &verifC11Pipe{r: r.Fork("pab"), faultNum: 1, faultDen: faultDen}
	pBA := &verifC11Pipe{r: r.Fork("pba"), faultNum: 1, faultDen: faultDen}
	endA := &verifC11End{in: pBA, out: pAB}
	endB := &verifC11End{in: pAB, out: pBA}
	cA := &Conn{conn: endA, noise: a}
	cB := &Conn{conn: endB, noise: b}
	ab := &verifC11Dir{name: "A->B", from: a, to: b, cFrom: cA, cTo: cB, pipe: pAB,
		ref: &verifC11RefCS{k: ref.sk, ck: ref.ck}}
	ba := &verifC11Dir{name: "B->A", from: b, to: a, cFrom: cB, cTo: cA, pipe: pBA,
		ref: &verifC11RefCS{k: ref.rk, ck: ref.ck}}
	mon := &verifC11NonceMon{seen: map[string]struct{}{}}

	nAB := verifC11Counts[r.Intn(len(verifC11Counts))] + r.Intn(3)
	nBA := verifC11Counts[r.Intn(len(verifC11Counts))] + r.Intn(3)
	long := nAB+nBA > 1200
	s.wit["messages"] = []int{nAB, nBA}
	s.wit["fault_den"] = faultDen
	tamperEvery := 40
	for nAB > 0 || nBA > 0 {
		d, rev := ab, ba
		if nAB == 0 || (nBA > 0 && r.Bool()) {
			d, rev = ba, ab
			nBA--
		} else {
			nAB--
		}
		p := r.Bytes(verifC11Size(r, long))
		wire, ok := s.send(d, p, mon)
		if !ok {
			return
		}
		// tamper forks around rotation boundaries and at PRNG points
		k := d.sent - 1
		near := k%500 <= 1 || k%500 >= 498
		if near || r.Chance(1, tamperEvery) {
			s.tamperTrials(d, rev, wire, 3)
		}
		if !s.recv(d, p) {
			return
		}
		vc.Count("messages", 1)
	}
	// Chunked Conn.Write of more than 65535 bytes (no faults), stream read.
	if r.Chance(1, 3) {
		d := ab
		if r.Bool() {
			d = ba
		}
		save := d.pipe.faultDen
		d.pipe.faultDen = 0
		big := r.Bytes(65536 + r.Intn(70000))
		verifC11Watch(d.from, mon)
		d.pipe.wrote = d.pipe.wrote[:0]
		n, err := d.cFrom.Write(big)
		var expected []byte
		for off := 0; off < len(big); off += 65535 {
			end := off + 65535
			if end > len(big) {
				end = len(big)
			}
			expected = append(expected, d.ref.message(big[off:end])...)
			d.sent++
		}
		vc.Count("chunked_writes", 1)
		if err != nil || n != len(big) || !bytes.Equal(d.pipe.wrote, expected) {
			s.viol("ciphertext_reference", d.name+"|chunked", fmt.Sprintf(
				"Conn.Write(%d bytes) n=%d err=%v wire-equal=%v", len(big), n, err,
				bytes.Equal(d.pipe.wrote, expected)))
			return
		}
		got := make([]byte, 0, len(big))
		for len(got) < len(big) {
			buf := make([]byte, 1+r.Intn(100000))
			m, err := d.cTo.Read(buf)
			got = append(got, buf[:m]...)
			if err != nil {
				break
			}
		}
		if !bytes.Equal(got, big) {
			s.viol("delivery", d.name+"|chunked", "chunked Conn.Write was not read back identically")
			return
		}
		d.pipe.faultDen = save
		d.prevWire, d.lastWire = nil, nil
	}
	vc.Count("nonce_reuse_evals", int64(mon.n))
	if mon.dup != "" && !mon.reported {
		s.viol("nonce_reuse", "duplicate", "a (key, nonce) pair was passed to AEAD.Seal twice: "+mon.dup)
	}
	// Terminal tamper without restoring the receiver: afterwards a genuine
	// message is not expected to be delivered (diagnostic only).
	if ab.sent > 0 && r.Chance(1, 2) {
		p := r.Bytes(10)
		wire, ok := s.send(ab, p, mon)
		if ok {
			evil := append([]byte{}, wire...)
			evil[r.Intn(len(evil))] ^= 0x40
			ab.pipe.buf = ab.pipe.buf[:0]
			if got, err := b.ReadMessage(&verifC11FragReader{r: r, buf: evil}); err == nil || len(got) != 0 {
				s.viol("tamper", "terminal-flip", fmt.Sprintf("tampered message accepted: err=%v len=%d", err, len(got)))
			}
			vc.Count("tamper_evals", 1)
			wire2, ok := s.send(ab, p, mon)
			ab.pipe.buf = ab.pipe.buf[:0]
			if ok {
				if got, err := b.ReadMessage(&verifC11FragReader{r: r, buf: wire2}); err == nil {
					vc.Diag("after_error_delivery", fmt.Sprintf("a message was delivered after a failed read (%d bytes)", len(got)))
				}
			}
		}
	}
	rot := ab.ref.rot + ba.ref.rot
	vc.Max("rotations_in_one_session", int64(rot))
	vc.Count("rotations", int64(rot))
	vc.Count("short_writes", int64(pAB.nShort+pBA.nShort))
	rb := func(n int) int {
		if n > 3 {
			return 3
		}
		return n
	}
	vc.Sig(verifJoin("sess", rb(ab.ref.rot), rb(ba.ref.rot), faultDen, pAB.nShort+pBA.nShort > 0))
}

// ---------------------------------------------------------------- TCP slice

// verifC11TCP runs the real Listener + Dial over loopback: right key =>
// both ends get a connection that carries messages exactly; wrong key =>
// Dial fails. Environment trouble (no loopback, timeouts) is a diagnostic.
func verifC11TCP(vc *verifCtx, r *verifRng) {
	ls, rs, wrong := verifC11GenKey(r), verifC11GenKey(r), verifC11GenKey(r)
	l, err := NewListener(&keychain.PrivKeyECDH{PrivKey: rs}, "127.0.0.1:0",
		func(*btcec.PublicKey) (bool, error) { return true, nil })
	if err != nil {
		vc.Diag("tcp_env", "listen: "+err.Error())
		return
	}
	defer l.Close()
	type acc struct {
		c   net.Conn
		err error
	}
	accCh := make(chan acc, 4)
	go func() {
		for i := 0; i < 2; i++ {
			c, err := l.Accept()
			accCh <- acc{c, err}
		}
	}()
	dialer := func(network, addr string, timeout time.Duration) (net.Conn, error) {
		return net.DialTimeout(network, addr, timeout)
	}
	addr := &lnwire.NetAddress{IdentityKey: wrong.PubKey(), Address: l.Addr()}
	vc.Count("tcp_sessions", 1)
	if c, err := Dial(&keychain.PrivKeyECDH{PrivKey: ls}, addr, 20*time.Second, dialer); err == nil {
		c.Close()
		vc.Violation("handshake_wrong_key", "tcp-dial", "Dial succeeded against a listener whose static key is not the targeted one", nil)
	}
	select {
	case a := <-accCh:
		if a.err == nil {
			vc.Violation("handshake_wrong_key", "tcp-accept", "Accept returned a connection for an initiator that targeted a different static key", nil)
		}
	case <-time.After(60 * time.Second):
		vc.Diag("tcp_env", "accept (wrong key) timed out")
		return
	}
	addr.IdentityKey = rs.PubKey()
	c, err := Dial(&keychain.PrivKeyECDH{PrivKey: ls}, addr, 20*time.Second, dialer)
	if err != nil {
		var ne net.Error
		if errors.As(err, &ne) && ne.Timeout() {
			vc.Diag("tcp_env", "dial timed out: "+err.Error())
			return
		}
		vc.Violation("handshake_completes", "tcp-dial", "Dial with the right static key failed: "+err.Error(), nil)
		return
	}
	defer c.Close()
	var srv net.Conn
	select {
	case a := <-accCh:
		if a.err != nil {
			vc.Violation("handshake_completes", "tcp-accept", "Accept failed for the right static key: "+a.err.Error(), nil)
			return
		}
		srv = a.c
	case <-time.After(60 * time.Second):
		vc.Diag("tcp_env", "accept timed out")
		return
	}
	defer srv.Close()
	sc := srv.(*Conn)
	if !sc.RemotePub().IsEqual(ls.PubKey()) {
		vc.Violation("handshake_keys", "tcp-remote-static", "listener learned a different initiator key", nil)
	}
	for i := 0; i < 6; i++ {
		p := r.Bytes([]int{0, 1, 100, 65535, 3000, 17}[i])
		from, to := c, sc
		if i%2 == 1 {
			from, to = sc, c
		}
		done := make(chan error, 1)
		go func() {
			if err := from.WriteMessage(p); err != nil {
				done <- err
				return
			}
			_, err := from.Flush()
			done <- err
		}()
		to.SetReadDeadline(time.Now().Add(60 * time.Second))
		got, err := to.ReadNextMessage()
		werr := <-done
		if err != nil || werr != nil {
			var ne net.Error
			if errors.As(err, &ne) && ne.Timeout() {
				vc.Diag("tcp_env", "read timed out")
				return
			}
			vc.Violation("delivery", "tcp", fmt.Sprintf("write err=%v read err=%v", werr, err), nil)
			return
		}
		vc.Count("delivery_evals", 1)
		if !bytes.Equal(got, p) {
			vc.Violation("delivery", "tcp", "message altered over the real TCP connection", nil)
		}
	}
}

func TestVerifC11(t *testing.T) {
	vc := verifStart(t, "C11", "transport")
	defer vc.Finish()
	verifC11Run(t, vc, vc.N(200, 30000), 100)
}

// TestVerifC11Race is the same workload at a smaller volume for the -race /
// checkptr build (pooled send buffers, listener goroutines).
func TestVerifC11Race(t *testing.T) {
	vc := verifStart(t, "C11", "transport_race")
	defer vc.Finish()
	verifC11Run(t, vc, vc.N(32, 640), 16)
}

func verifC11Run(t *testing.T, vc *verifCtx, total, tcpEvery int) {
	if err := verifC11SelfCheck(); err != nil {
		t.Fatalf("verif C11: reference self-check against the BOLT-8 vectors failed: %v", err)
	}
	for i := 0; i < total; i++ {
		if !vc.Mine(i) {
			continue
		}
		r := vc.Rng(i)
		keys := verifC11Keys{ls: verifC11GenKey(r), le: verifC11GenKey(r),
			rs: verifC11GenKey(r), re: verifC11GenKey(r), wrong: verifC11GenKey(r)}
		wit := map[string]any{
			"ls": verifHex(keys.ls.Serialize()), "le": verifHex(keys.le.Serialize()),
			"rs": verifHex(keys.rs.Serialize()), "re": verifHex(keys.re.Serialize()),
			"wrong": verifHex(keys.wrong.Serialize()),
			"note":  "the whole session regenerates deterministically from (seed, case)",
		}
		vc.Case(i, wit)
		s := &verifC11S{vc: vc, r: r, idx: i, keys: keys, wit: wit}
		vc.Guard("no_panic", "session", wit, s.run)
		if i%tcpEvery == 0 {
			verifC11TCP(vc, r.Fork("tcp"))
		}
		if i < 40 && i%10 == 0 {
			vc.Sample(wit)
		}
		vc.CaseDone(i)
	}
}

// verifC11Bytes returns the bytes of a byte array or byte slice value.
func verifC11Bytes(v any) []byte {
	rv := reflect.ValueOf(v)
	switch rv.Kind() {
	case reflect.Slice:
		return append([]byte(nil), rv.Bytes()...)
	case reflect.Array:
		out := make([]byte, rv.Len())
		reflect.Copy(reflect.ValueOf(out), rv)
		return out
	}
	return nil
}
