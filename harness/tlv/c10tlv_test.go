package tlv

// C10 (TLV part) monitor. Runs inside the tlv module (cwd=/repo/tlv) so the
// working tree is what is compiled.
//
// Oracles (each traced to the C10 statement, sentence 3: "A TLV stream is
// accepted exactly when it is canonical (strictly increasing types, minimal
// BigSize encodings, lengths within bounds) and decode-then-encode reproduces
// the input."):
//
//   - tlv_accept_iff_canonical: the four real entry points Decode, DecodeP2P,
//     DecodeWithParsedTypes, DecodeWithParsedTypesP2P accept x  <=>  an
//     independent reference recogniser (written from BOLT-1 in this file,
//     shares no code with tlv) accepts x.
//   - tlv_roundtrip: on acceptance Encode(Decode(x)) == x byte for byte.
//   - tlv_no_panic: no panic on any input.
//   - tlv_varint: WriteVarInt == reference minimal BigSize; ReadVarInt accepts
//     exactly the minimal form.
//   - tlv_alloc_p2p (verdict only when grossly exceeded, > 64 MiB, on the P2P
//     entry points; otherwise the measured maximum is reported).

import (
	"bytes"
	"fmt"
	"io"
	"runtime/metrics"
	"sort"
	"testing"
)

// ---------------------------------------------------------------- reference

// verifC10RefBigSize parses one minimal BigSize from b. ok=false when b is
// too short or the encoding is not minimal.
func verifC10RefBigSize(b []byte) (v uint64, n int, ok bool) {
	if len(b) == 0 {
		return 0, 0, false
	}
	be := func(p []byte) uint64 {
		var x uint64
		for _, c := range p {
			x = x<<8 | uint64(c)
		}
		return x
	}
	switch d := b[0]; {
	case d < 0xfd:
		return uint64(d), 1, true
	case d == 0xfd:
		if len(b) < 3 {
			return 0, 0, false
		}
		v = be(b[1:3])
		return v, 3, v >= 0xfd
	case d == 0xfe:
		if len(b) < 5 {
			return 0, 0, false
		}
		v = be(b[1:5])
		return v, 5, v >= 0x10000
	default:
		if len(b) < 9 {
			return 0, 0, false
		}
		v = be(b[1:9])
		return v, 9, v >= 0x100000000
	}
}

// verifC10PutBigSize is the reference encoder. width 0 = minimal, otherwise
// the forced total width (3, 5 or 9), which is non-minimal for small values.
func verifC10PutBigSize(v uint64, width int) []byte {
	if width == 0 {
		switch {
		case v < 0xfd:
			width = 1
		case v <= 0xffff:
			width = 3
		case v <= 0xffffffff:
			width = 5
		default:
			width = 9
		}
	}
	switch width {
	case 1:
		return []byte{byte(v)}
	case 3:
		return []byte{0xfd, byte(v >> 8), byte(v)}
	case 5:
		return []byte{0xfe, byte(v >> 24), byte(v >> 16), byte(v >> 8), byte(v)}
	default:
		return []byte{0xff, byte(v >> 56), byte(v >> 48), byte(v >> 40), byte(v >> 32),
			byte(v >> 24), byte(v >> 16), byte(v >> 8), byte(v)}
	}
}

type verifC10Kind int

const (
	verifKU8 verifC10Kind = iota
	verifKU16
	verifKU32
	verifKU64
	verifKBool
	verifKB32
	verifKB33
	verifKB64
	verifKVar
	verifKTU16
	verifKTU32
	verifKTU64
	verifKBig32
	verifKBig64
	verifNKinds
)

var verifC10KindNames = []string{"u8", "u16", "u32", "u64", "bool", "b32", "b33",
	"b64", "var", "tu16", "tu32", "tu64", "big32", "big64"}

// verifC10RefValueOK: is val a well-formed value of a known record of the
// given kind (exact sizes of the fixed-size primitives, minimal truncated
// integers of BOLT-4, one minimal BigSize filling the record exactly).
func verifC10RefValueOK(k verifC10Kind, val []byte) bool {
	fixed := map[verifC10Kind]int{verifKU8: 1, verifKU16: 2, verifKU32: 4, verifKU64: 8,
		verifKB32: 32, verifKB33: 33, verifKB64: 64}
	if n, ok := fixed[k]; ok {
		return len(val) == n
	}
	switch k {
	case verifKBool:
		return len(val) == 1 && val[0] <= 1
	case verifKVar:
		return true
	case verifKTU16, verifKTU32, verifKTU64:
		max := map[verifC10Kind]int{verifKTU16: 2, verifKTU32: 4, verifKTU64: 8}[k]
		if len(val) > max {
			return false
		}
		return len(val) == 0 || val[0] != 0
	case verifKBig32, verifKBig64:
		v, n, ok := verifC10RefBigSize(val)
		if !ok || n != len(val) {
			return false
		}
		if k == verifKBig32 && v > 0xffffffff {
			return false
		}
		return true
	}
	return false
}

type verifC10Rec struct {
	T uint64
	V []byte
}

// verifC10RefParse is the reference recogniser: strictly increasing types,
// minimal BigSize type and length, length within the remaining bytes (and
// <= 65535 on the p2p path), known records well-formed.
//
// lenient selects, for ATTRIBUTION of a mismatch only (never for the verdict),
// a model of two deviations observed in the unchanged tree:
//
//	1: a known BigSize record consumes exactly one minimal varint, whatever
//	   its declared length says (tlv.DBigSize ignores l);
//	2: on the non-p2p path an unknown record with declared length >= 2^63
//	   consumes no bytes (int64 overflow in io.CopyN);
//	3: both in the same stream.
func verifC10RefParse(x []byte, known map[uint64]verifC10Kind, p2p bool,
	lenient int) ([]verifC10Rec, bool, string) {

	var (
		recs  []verifC10Rec
		pos   int
		last  uint64
		first = true
	)
	for pos < len(x) {
		t, n, ok := verifC10RefBigSize(x[pos:])
		if !ok {
			return nil, false, "type-bigsize"
		}
		if !first && t <= last {
			return nil, false, "order"
		}
		pos += n
		l, n, ok := verifC10RefBigSize(x[pos:])
		if !ok {
			return nil, false, "len-bigsize"
		}
		pos += n
		if p2p && l > 65535 {
			return nil, false, "too-large"
		}
		if k, isKnown := known[t]; lenient&1 != 0 && isKnown &&
			(k == verifKBig32 || k == verifKBig64) {

			_, n, ok := verifC10RefBigSize(x[pos:])
			if !ok {
				return nil, false, "lenient-bigsize"
			}
			pos += n
			last, first = t, false
			continue
		}
		if _, isKnown := known[t]; lenient&2 != 0 && !isKnown && !p2p && l >= 1<<63 {
			last, first = t, false
			continue
		}
		if l > uint64(len(x)-pos) {
			return nil, false, "len-beyond-end"
		}
		val := x[pos : pos+int(l)]
		if k, isKnown := known[t]; isKnown && !verifC10RefValueOK(k, val) {
			return nil, false, "known-value-" + verifC10KindNames[k]
		}
		recs = append(recs, verifC10Rec{T: t, V: val})
		pos += int(l)
		last = t
		first = false
	}
	return recs, true, ""
}

// ---------------------------------------------------------------- real side

type verifC10Known struct {
	T uint64
	K verifC10Kind
}

// verifC10MakeRecord builds a real tlv.Record with a fresh value holder.
func verifC10MakeRecord(t uint64, k verifC10Kind) Record {
	typ := Type(t)
	switch k {
	case verifKU8:
		return MakePrimitiveRecord(typ, new(uint8))
	case verifKU16:
		return MakePrimitiveRecord(typ, new(uint16))
	case verifKU32:
		return MakePrimitiveRecord(typ, new(uint32))
	case verifKU64:
		return MakePrimitiveRecord(typ, new(uint64))
	case verifKBool:
		return MakePrimitiveRecord(typ, new(bool))
	case verifKB32:
		return MakePrimitiveRecord(typ, new([32]byte))
	case verifKB33:
		return MakePrimitiveRecord(typ, new([33]byte))
	case verifKB64:
		return MakePrimitiveRecord(typ, new([64]byte))
	case verifKVar:
		return MakePrimitiveRecord(typ, new([]byte))
	case verifKTU16:
		v := new(uint16)
		return MakeDynamicRecord(typ, v, func() uint64 { return SizeTUint16(*v) },
			ETUint16, DTUint16)
	case verifKTU32:
		v := new(uint32)
		return MakeDynamicRecord(typ, v, func() uint64 { return SizeTUint32(*v) },
			ETUint32, DTUint32)
	case verifKTU64:
		v := new(uint64)
		return MakeDynamicRecord(typ, v, func() uint64 { return SizeTUint64(*v) },
			ETUint64, DTUint64)
	case verifKBig32:
		v := new(uint32)
		return MakeDynamicRecord(typ, v, func() uint64 { return VarIntSize(uint64(*v)) },
			EBigSize, DBigSize)
	default:
		v := new(uint64)
		return MakeDynamicRecord(typ, v, func() uint64 { return VarIntSize(*v) },
			EBigSize, DBigSize)
	}
}

var verifC10AllocSample = []metrics.Sample{{Name: "/gc/heap/allocs:bytes"}}

func verifC10Alloc() uint64 {
	metrics.Read(verifC10AllocSample)
	return verifC10AllocSample[0].Value.Uint64()
}

var verifC10ModeNames = []string{"Decode", "DecodeP2P", "DecodeWithParsedTypes",
	"DecodeWithParsedTypesP2P"}

// verifC10Real runs one real entry point on x. When the stream is accepted
// through a ...WithParsedTypes entry point it also re-encodes what was
// decoded (known records from their holders, unknown records from the
// returned TypeMap).
func verifC10Real(x []byte, known []verifC10Known, mode int) (accepted bool,
	err error, reenc []byte, reencErr error, alloc uint64) {

	recs := make([]Record, len(known))
	isKnown := make(map[Type]int, len(known))
	for i, k := range known {
		recs[i] = verifC10MakeRecord(k.T, k.K)
		isKnown[Type(k.T)] = i
	}
	s, err := NewStream(recs...)
	if err != nil {
		return false, fmt.Errorf("harness: NewStream: %w", err), nil, nil, 0
	}
	var tm TypeMap
	a0 := verifC10Alloc()
	switch mode {
	case 0:
		err = s.Decode(bytes.NewReader(x))
	case 1:
		err = s.DecodeP2P(bytes.NewReader(x))
	case 2:
		tm, err = s.DecodeWithParsedTypes(bytes.NewReader(x))
	default:
		tm, err = s.DecodeWithParsedTypesP2P(bytes.NewReader(x))
	}
	alloc = verifC10Alloc() - a0
	if err != nil {
		return false, err, nil, nil, alloc
	}
	if mode < 2 {
		return true, nil, nil, nil, alloc
	}
	types := make([]uint64, 0, len(tm))
	for t := range tm {
		types = append(types, uint64(t))
	}
	sort.Slice(types, func(i, j int) bool { return types[i] < types[j] })
	out := make([]Record, 0, len(types))
	for _, t := range types {
		if i, ok := isKnown[Type(t)]; ok {
			out = append(out, recs[i])
			continue
		}
		v := tm[Type(t)]
		out = append(out, MakeStaticRecord(Type(t), nil, uint64(len(v)),
			StubEncoder(v), nil))
	}
	es, err := NewStream(out...)
	if err != nil {
		return true, nil, nil, err, alloc
	}
	var buf bytes.Buffer
	if err := es.Encode(&buf); err != nil {
		return true, nil, nil, err, alloc
	}
	return true, nil, buf.Bytes(), nil, alloc
}

// ---------------------------------------------------------------- generator

var verifC10TypeBoundaries = []uint64{0, 1, 2, 3, 0xfc, 0xfd, 0xfe, 0xff, 0x100, 0xffff,
	0x10000, 0x10001, 0xffffffff, 0x100000000, 1<<63 - 1, 1 << 63, 1<<64 - 2, 1<<64 - 1}

func verifC10GenType(r *verifRng) uint64 {
	switch r.Intn(6) {
	case 0:
		return verifC10TypeBoundaries[r.Intn(len(verifC10TypeBoundaries))]
	case 1:
		return r.U64()
	case 2:
		return 65536 + r.U64n(1000)
	default:
		return r.U64n(40)
	}
}

func verifC10GenValidValue(r *verifRng, k verifC10Kind) []byte {
	trunc := func(max int) []byte {
		n := r.Intn(max + 1)
		b := r.Bytes(n)
		if n > 0 && b[0] == 0 {
			b[0] = 1 + byte(r.Intn(255))
		}
		return b
	}
	switch k {
	case verifKU8:
		return r.Bytes(1)
	case verifKU16:
		return r.Bytes(2)
	case verifKU32:
		return r.Bytes(4)
	case verifKU64:
		return r.Bytes(8)
	case verifKBool:
		return []byte{byte(r.Intn(2))}
	case verifKB32:
		return r.Bytes(32)
	case verifKB33:
		return r.Bytes(33)
	case verifKB64:
		return r.Bytes(64)
	case verifKVar:
		return r.Bytes(verifC10GenLen(r))
	case verifKTU16:
		return trunc(2)
	case verifKTU32:
		return trunc(4)
	case verifKTU64:
		return trunc(8)
	case verifKBig32:
		vals := []uint64{0, 1, 0xfc, 0xfd, 0xffff, 0x10000, 0xffffffff, r.U64n(1 << 32)}
		return verifC10PutBigSize(vals[r.Intn(len(vals))], 0)
	default:
		vals := []uint64{0, 0xfc, 0xfd, 0xffff, 0x10000, 0xffffffff, 0x100000000,
			1<<64 - 1, r.U64()}
		return verifC10PutBigSize(vals[r.Intn(len(vals))], 0)
	}
}

func verifC10GenLen(r *verifRng) int {
	switch r.Intn(12) {
	case 0:
		return []int{0xfc, 0xfd, 0xfe, 0xff, 0x100}[r.Intn(5)]
	case 1:
		return r.Intn(600)
	default:
		return r.Intn(12)
	}
}

// verifC10Invalidate returns a malformed value for a known kind.
func verifC10Invalidate(r *verifRng, k verifC10Kind) []byte {
	switch k {
	case verifKBool:
		if r.Bool() {
			return []byte{2 + byte(r.Intn(254))}
		}
		return r.Bytes(2 * r.Intn(2))
	case verifKVar:
		return r.Bytes(3)
	case verifKTU16, verifKTU32, verifKTU64:
		max := map[verifC10Kind]int{verifKTU16: 2, verifKTU32: 4, verifKTU64: 8}[k]
		if r.Bool() {
			b := r.Bytes(1 + r.Intn(max))
			b[0] = 0
			return b
		}
		return r.Bytes(max + 1 + r.Intn(3))
	case verifKBig32, verifKBig64:
		switch r.Intn(4) {
		case 0: // non-minimal
			return verifC10PutBigSize(r.U64n(0xfd), []int{3, 5, 9}[r.Intn(3)])
		case 1: // trailing bytes inside the record
			return append(verifC10PutBigSize(r.U64n(0xfd), 0), r.Bytes(1+r.Intn(4))...)
		case 2: // value too wide for the holder
			return verifC10PutBigSize(1<<32+r.U64n(1<<40), 0)
		default: // truncated
			b := verifC10PutBigSize(0xfd+r.U64(), 0)
			return b[:1+r.Intn(len(b)-1)]
		}
	default:
		v := verifC10GenValidValue(r, k)
		switch r.Intn(3) {
		case 0:
			return v[:len(v)-1]
		case 1:
			return append(v, byte(r.Intn(256)))
		default:
			return nil
		}
	}
}

type verifC10GenRec struct {
	T      uint64
	V      []byte
	TWidth int    // forced BigSize width of the type (0 = minimal)
	LWidth int    // forced BigSize width of the length
	LOver  bool   // declare LDecl instead of len(V)
	LDecl  uint64 // declared length when LOver
}

func verifC10Serialize(recs []verifC10GenRec) []byte {
	var out []byte
	for _, rc := range recs {
		out = append(out, verifC10PutBigSize(rc.T, rc.TWidth)...)
		l := uint64(len(rc.V))
		if rc.LOver {
			l = rc.LDecl
		}
		out = append(out, verifC10PutBigSize(l, rc.LWidth)...)
		out = append(out, rc.V...)
	}
	return out
}

func verifC10WiderWidth(r *verifRng, v uint64) int {
	var opts []int
	if v < 0xfd {
		opts = []int{3, 5, 9}
	} else if v <= 0xffff {
		opts = []int{5, 9}
	} else if v <= 0xffffffff {
		opts = []int{9}
	} else {
		return 0
	}
	return opts[r.Intn(len(opts))]
}

var verifC10MutNames = []string{"canonical", "swap", "dup", "wide-type", "wide-len",
	"len-off", "len-huge", "truncate", "append", "flip", "bad-known", "after-max-type",
	"big-value", "raw"}

// verifC10GenCase builds the known-record set, a canonical stream and one
// mutant of it. Returns the bytes and the mutation class.
func verifC10GenCase(r *verifRng) (known []verifC10Known, x []byte, mut int) {
	// Known records.
	nk := r.Intn(6)
	seen := map[uint64]bool{}
	for i := 0; i < nk; i++ {
		t := verifC10GenType(r)
		if seen[t] {
			continue
		}
		seen[t] = true
		known = append(known, verifC10Known{T: t, K: verifC10Kind(r.Intn(int(verifNKinds)))})
	}
	sort.Slice(known, func(i, j int) bool { return known[i].T < known[j].T })
	kindOf := map[uint64]verifC10Kind{}
	for _, k := range known {
		kindOf[k.T] = k.K
	}

	// Canonical record list: a PRNG subset of the known types plus unknown
	// ones.
	tset := map[uint64]bool{}
	for _, k := range known {
		if r.Chance(3, 4) {
			tset[k.T] = true
		}
	}
	nu := r.Intn(6)
	for i := 0; i < nu; i++ {
		tset[verifC10GenType(r)] = true
	}
	var ts []uint64
	for t := range tset {
		ts = append(ts, t)
	}
	sort.Slice(ts, func(i, j int) bool { return ts[i] < ts[j] })
	recs := make([]verifC10GenRec, 0, len(ts))
	for _, t := range ts {
		var v []byte
		if k, ok := kindOf[t]; ok {
			v = verifC10GenValidValue(r, k)
		} else {
			v = r.Bytes(verifC10GenLen(r))
		}
		recs = append(recs, verifC10GenRec{T: t, V: v})
	}

	mut = r.Intn(len(verifC10MutNames))
	if r.Chance(1, 5) {
		mut = 0
	}
	pick := func() int { return r.Intn(len(recs)) }
	switch verifC10MutNames[mut] {
	case "swap":
		if len(recs) >= 2 {
			i := r.Intn(len(recs) - 1)
			recs[i], recs[i+1] = recs[i+1], recs[i]
		}
	case "dup":
		if len(recs) >= 1 {
			i := pick()
			d := recs[i]
			if r.Bool() {
				d.V = r.Bytes(len(d.V))
			}
			recs = append(recs[:i+1], append([]verifC10GenRec{d}, recs[i+1:]...)...)
		}
	case "wide-type":
		if len(recs) >= 1 {
			i := pick()
			recs[i].TWidth = verifC10WiderWidth(r, recs[i].T)
		}
	case "wide-len":
		if len(recs) >= 1 {
			i := pick()
			recs[i].LWidth = verifC10WiderWidth(r, uint64(len(recs[i].V)))
		}
	case "len-off":
		if len(recs) >= 1 {
			i := pick()
			recs[i].LOver = true
			d := uint64(1 + r.Intn(3))
			if r.Bool() && uint64(len(recs[i].V)) >= d {
				recs[i].LDecl = uint64(len(recs[i].V)) - d
			} else {
				recs[i].LDecl = uint64(len(recs[i].V)) + d
			}
		}
	case "len-huge":
		if len(recs) >= 1 {
			i := pick()
			recs[i].LOver = true
			huge := []uint64{65535, 65536, 1 << 20, 1<<31 - 1, 1 << 31, 1<<32 - 1, 1 << 32,
				1 << 40, 1<<63 - 1, 1 << 63, 1<<64 - 1}
			recs[i].LDecl = huge[r.Intn(len(huge))]
			if r.Bool() {
				recs = recs[:i+1]
			}
		}
	case "bad-known":
		var idx []int
		for i, rc := range recs {
			if _, ok := kindOf[rc.T]; ok {
				idx = append(idx, i)
			}
		}
		if len(idx) > 0 {
			i := idx[r.Intn(len(idx))]
			recs[i].V = verifC10Invalidate(r, kindOf[recs[i].T])
		}
	case "after-max-type":
		recs = append(recs, verifC10GenRec{T: 1<<64 - 1, V: r.Bytes(r.Intn(3))})
		if r.Bool() {
			recs = append(recs, verifC10GenRec{T: []uint64{0, 1, 1<<64 - 1}[r.Intn(3)],
				V: r.Bytes(r.Intn(3))})
		}
	case "big-value":
		// Exercise the 65535 p2p record-size boundary with real data.
		sz := []int{65534, 65535, 65536, 65537, 70000}[r.Intn(5)]
		t := verifC10GenType(r)
		if _, isK := kindOf[t]; !isK || kindOf[t] == verifKVar {
			recs = append(recs, verifC10GenRec{T: t, V: r.Bytes(sz)})
			sort.SliceStable(recs, func(i, j int) bool { return recs[i].T < recs[j].T })
		}
	}
	x = verifC10Serialize(recs)
	switch verifC10MutNames[mut] {
	case "truncate":
		if len(x) > 0 {
			x = x[:r.Intn(len(x))]
		}
	case "append":
		switch r.Intn(3) {
		case 0:
			x = append(x, r.Bytes(1)...)
		case 1:
			x = append(x, r.Bytes(1+r.Intn(12))...)
		default:
			x = append(x, []byte{0xfd, 0xfe, 0xff}[r.Intn(3)])
		}
	case "flip":
		n := 1 + r.Intn(3)
		for i := 0; i < n && len(x) > 0; i++ {
			p := r.Intn(len(x))
			if r.Bool() {
				x[p] ^= 1 << uint(r.Intn(8))
			} else {
				x[p] = []byte{0, 1, 0xfc, 0xfd, 0xfe, 0xff}[r.Intn(6)]
			}
		}
	case "raw":
		x = r.Bytes(r.Intn(40))
		if r.Bool() {
			// bias to small types/lengths so that parsing gets deep
			for i := range x {
				if r.Chance(2, 3) {
					x[i] &= 0x07
				}
			}
		}
	}
	return known, x, mut
}

// ---------------------------------------------------------------- the test

// verifC10DangerousLen reports whether any offset of x holds a BigSize whose
// value lies in [2^24, 2^48): handed to a non-p2p entry point as a record
// length it would make the decoder allocate that much for real (larger values
// fail fast inside make).
func verifC10DangerousLen(x []byte) bool {
	for i, c := range x {
		var v uint64
		switch {
		case c == 0xfe && i+4 < len(x):
			v = uint64(x[i+1])<<24 | uint64(x[i+2])<<16 | uint64(x[i+3])<<8 | uint64(x[i+4])
		case c == 0xff && i+8 < len(x):
			for _, d := range x[i+1 : i+9] {
				v = v<<8 | uint64(d)
			}
		default:
			continue
		}
		if v >= 1<<24 && v < 1<<48 {
			return true
		}
	}
	return false
}

func verifC10Witness(known []verifC10Known, x []byte, mut int, mode int) map[string]any {
	ks := make([]string, len(known))
	for i, k := range known {
		ks[i] = fmt.Sprintf("%d:%s", k.T, verifC10KindNames[k.K])
	}
	h := verifHex(x)
	if len(h) > 4096 {
		h = h[:4096] + fmt.Sprintf("...(%d bytes)", len(x))
	}
	return map[string]any{"known": ks, "stream": h, "mutation": verifC10MutNames[mut],
		"entry": verifC10ModeNames[mode]}
}

func verifC10VarintChecks(vc *verifCtx, r *verifRng) {
	vals := append([]uint64{}, verifC10TypeBoundaries...)
	for i := 0; i < 8; i++ {
		vals = append(vals, r.U64()>>uint(r.Intn(64)))
	}
	for _, v := range vals {
		var buf [8]byte
		var w bytes.Buffer
		want := verifC10PutBigSize(v, 0)
		if err := WriteVarInt(&w, v, &buf); err != nil || !bytes.Equal(w.Bytes(), want) {
			vc.Violation("tlv_varint", "write", fmt.Sprintf("WriteVarInt(%d)=%x err=%v want %x",
				v, w.Bytes(), err, want), nil)
		}
		if uint64(len(want)) != VarIntSize(v) {
			vc.Violation("tlv_varint", "size", fmt.Sprintf("VarIntSize(%d)=%d want %d",
				v, VarIntSize(v), len(want)), nil)
		}
		for _, width := range []int{1, 3, 5, 9} {
			if width == 1 && v >= 0xfd {
				continue
			}
			if width == 3 && v > 0xffff || width == 5 && v > 0xffffffff {
				continue
			}
			enc := verifC10PutBigSize(v, width)
			got, err := ReadVarInt(bytes.NewReader(enc), &buf)
			minimal := width == len(want)
			vc.Count("varint_evals", 1)
			if minimal && (err != nil || got != v) {
				vc.Violation("tlv_varint", "read-minimal", fmt.Sprintf(
					"ReadVarInt(%x)=%d,%v want %d", enc, got, err, v), nil)
			}
			if !minimal && err == nil {
				vc.Violation("tlv_varint", "read-nonminimal-accepted", fmt.Sprintf(
					"ReadVarInt(%x)=%d accepted a non-minimal encoding of %d", enc, got, v), nil)
			}
			// every strict prefix must fail (and a clean EOF only on 0 bytes)
			for cut := 0; cut < len(enc); cut++ {
				_, err := ReadVarInt(bytes.NewReader(enc[:cut]), &buf)
				if err == nil || (cut > 0 && err == io.EOF) {
					vc.Violation("tlv_varint", "read-truncated", fmt.Sprintf(
						"ReadVarInt(%x) err=%v", enc[:cut], err), nil)
				}
			}
		}
	}
}

func TestVerifC10TLV(t *testing.T) {
	vc := verifStart(t, "C10", "tlv")
	defer vc.Finish()

	const batch = 256
	attribEmitted := map[string]int{}
	total := vc.N(1200, 120000) // batches over all shards
	for i := 0; i < total; i++ {
		if !vc.Mine(i) {
			continue
		}
		r := vc.Rng(i)
		vc.Case(i, map[string]any{"batch": batch,
			"regen": "streams regenerate deterministically from (seed, case)"})
		if i%16 == 0 {
			verifC10VarintChecks(vc, r.Fork("varint"))
		}
		for j := 0; j < batch; j++ {
			known, x, mut := verifC10GenCase(r.Fork("s"))
			kindOf := map[uint64]verifC10Kind{}
			for _, k := range known {
				kindOf[k.T] = k.K
			}
			_, refNon, whyNon := verifC10RefParse(x, kindOf, false, 0)
			_, refP2P, whyP2P := verifC10RefParse(x, kindOf, true, 0)
			dangerous := verifC10DangerousLen(x)
			for mode := 0; mode < 4; mode++ {
				p2p := mode == 1 || mode == 3
				ref, why := refNon, whyNon
				if p2p {
					ref, why = refP2P, whyP2P
				}
				if !p2p && dangerous {
					// Machine protection: the non-p2p entry points
					// allocate the declared length up front.
					vc.Count("nonp2p_skipped_dangerous_len", 1)
					continue
				}
				if vc.Only >= 0 {
					vc.emit(map[string]any{"t": "case", "i": i,
						"input": verifC10Witness(known, x, mut, mode)})
				}
				var (
					acc      bool
					err      error
					reenc    []byte
					reencErr error
					alloc    uint64
				)
				var panicked bool
				if p2p {
					panicked = vc.Guard("tlv_no_panic", verifC10ModeNames[mode],
						verifC10Witness(known, x, mut, mode), func() {
							acc, err, reenc, reencErr, alloc = verifC10Real(x, known, mode)
						})
				} else {
					// The non-p2p entry points are documented as
					// uncapped (trusted input); a panic there is
					// recorded as a diagnostic.
					func() {
						defer func() {
							if rc := recover(); rc != nil {
								panicked = true
								vc.Diag("nonp2p_panic", fmt.Sprintf("%s: %v on %s",
									verifC10ModeNames[mode], rc, verifHex(x)))
							}
						}()
						acc, err, reenc, reencErr, alloc = verifC10Real(x, known, mode)
					}()
				}
				vc.Count("decodes", 1)
				if panicked {
					continue
				}
				if p2p {
					vc.Max("alloc_per_decode_p2p", int64(alloc))
					if alloc > 64<<20 {
						vc.Violation("tlv_alloc_p2p", verifC10ModeNames[mode], fmt.Sprintf(
							"%d bytes allocated decoding a %d-byte stream", alloc, len(x)),
							verifC10Witness(known, x, mut, mode))
					}
				} else {
					vc.Max("alloc_per_decode_nonp2p", int64(alloc))
					if alloc > 64<<20 {
						vc.Diag("alloc_nonp2p", fmt.Sprintf("%s: %d bytes for a %d-byte stream (%s)",
							verifC10ModeNames[mode], alloc, len(x), verifC10MutNames[mut]))
					}
				}
				vc.Count("accept_iff_canonical_evals", 1)
				if acc != ref {
					key := verifC10ModeNames[mode] + "|"
					if acc {
						key += "accepted-noncanonical:" + why
					} else {
						key += "rejected-canonical"
					}
					// Attribution to an already understood deviation
					// (the verdict above does not depend on it).
					attributed := false
					for _, lv := range []int{1, 2, 3} {
						if _, lok, _ := verifC10RefParse(x, kindOf, p2p, lv); lok == acc {
							attributed = true
							key = []string{"", "DBigSize-ignores-record-length",
								"nonp2p-length>=2^63-consumes-nothing",
								"DBigSize-ignores-record-length+nonp2p-length>=2^63-consumes-nothing"}[lv]
							break
						}
					}
					// The shared runtime keeps only the first 50
					// violations of a shard: report an already
					// attributed deviation a few times only so that
					// it cannot crowd out a new one.
					if attributed {
						vc.Count("attributed:"+key, 1)
						attribEmitted[key]++
						if attribEmitted[key] > 2 {
							continue
						}
					}
					vc.Violation("tlv_accept_iff_canonical", key, fmt.Sprintf(
						"real accepted=%v (err=%v) reference canonical=%v (%s)", acc, err, ref, why),
						verifC10Witness(known, x, mut, mode))
					continue
				}
				if acc {
					vc.Count("accepted", 1)
				} else {
					vc.Count("rejected", 1)
				}
				if acc && mode >= 2 {
					vc.Count("roundtrip_evals", 1)
					if reencErr != nil || !bytes.Equal(reenc, x) {
						vc.Violation("tlv_roundtrip", verifC10ModeNames[mode], fmt.Sprintf(
							"Encode(Decode(x)) != x: err=%v got %x", reencErr, reenc),
							verifC10Witness(known, x, mut, mode))
					}
				}
			}
			hasKnown := len(known) > 0
			vc.Sig(verifJoin(verifC10MutNames[mut], refNon, refP2P, whyNon, hasKnown))
			if j == 0 && i < 64 {
				vc.Sample(map[string]any{"case": i, "mutation": verifC10MutNames[mut],
					"len": len(x), "canonical_nonp2p": refNon, "canonical_p2p": refP2P})
			}
		}
		vc.CaseDone(i)
	}
}
