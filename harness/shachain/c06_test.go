package shachain

// C06 (store part): the real RevocationStore / RevocationProducer are run
// against a BOLT-3 reference written here (generate_from_seed, insert_secret,
// derive_old_secret), including hostile insertions.

import (
	"bytes"
	"crypto/sha256"
	"fmt"
	"testing"

	"github.com/btcsuite/btcd/chainhash/v2"
)

// --- BOLT-3 reference -------------------------------------------------------

func verifC06Gen(seed [32]byte, I uint64) [32]byte {
	p := seed
	for b := 47; b >= 0; b-- {
		if I&(1<<uint(b)) != 0 {
			p[b/8] ^= 1 << uint(b%8)
			p = sha256.Sum256(p[:])
		}
	}
	return p
}

func verifC06Derive(base [32]byte, bits int, I uint64) [32]byte {
	p := base
	for b := bits - 1; b >= 0; b-- {
		if I&(1<<uint(b)) != 0 {
			p[b/8] ^= 1 << uint(b%8)
			p = sha256.Sum256(p[:])
		}
	}
	return p
}

type verifC06Ref struct {
	known [49]struct {
		ok     bool
		index  uint64
		secret [32]byte
	}
	next uint64 // next BOLT-3 index expected (counts down from 2^48-1)
}

func verifC06NewRef() *verifC06Ref { return &verifC06Ref{next: 1<<48 - 1} }

func verifC06TZ(I uint64) int {
	for b := 0; b < 48; b++ {
		if I&(1<<uint(b)) != 0 {
			return b
		}
	}
	return 48
}

// insert implements BOLT-3 insert_secret for the next index.
func (r *verifC06Ref) insert(secret [32]byte) bool {
	I := r.next
	B := verifC06TZ(I)
	for b := 0; b < B; b++ {
		if !r.known[b].ok {
			continue
		}
		if verifC06Derive(secret, B, r.known[b].index) != r.known[b].secret {
			return false
		}
	}
	r.known[B].ok = true
	r.known[B].index = I
	r.known[B].secret = secret
	r.next--
	return true
}

// lookup implements derive_old_secret.
func (r *verifC06Ref) lookup(I uint64) ([32]byte, bool) {
	for b := 0; b < 49; b++ {
		if !r.known[b].ok {
			continue
		}
		mask := ^((uint64(1) << uint(b)) - 1)
		if I&mask == r.known[b].index {
			return verifC06Derive(r.known[b].secret, b, I), true
		}
	}
	return [32]byte{}, false
}

// --- monitor ----------------------------------------------------------------

func verifC06CheckStore(vc *verifCtx, st *RevocationStore, ref *verifC06Ref,
	k uint64, r *verifRng, exhaustive bool, what string) bool {

	check := func(i uint64) bool {
		vc.Count("oracle_lookup", 1)
		want, ok := ref.lookup((1<<48 - 1) - i)
		got, err := st.LookUp(i)
		if ok != (err == nil) {
			vc.Violation("lookup_agrees", what+":derivability",
				fmt.Sprintf("k=%d LookUp(%d): reference derivable=%v, store err=%v", k, i, ok, err), nil)
			return false
		}
		if ok && [32]byte(*got) != want {
			vc.Violation("lookup_agrees", what+":value",
				fmt.Sprintf("k=%d LookUp(%d) returned a wrong secret", k, i), nil)
			return false
		}
		return true
	}
	if exhaustive {
		for i := uint64(0); i <= k+1; i++ {
			if !check(i) {
				return false
			}
		}
	} else {
		idxs := []uint64{0, 1, k - 1, k, k + 1, k / 2}
		for j := 0; j < 24; j++ {
			idxs = append(idxs, r.U64n(k+2))
		}
		for b := uint(0); b < 48 && (uint64(1)<<b) <= k; b++ {
			idxs = append(idxs, (uint64(1)<<b)-1, uint64(1)<<b, k-(uint64(1)<<b))
		}
		for _, i := range idxs {
			if i > k+1 {
				continue
			}
			if !check(i) {
				return false
			}
		}
	}
	// compactness
	vc.Count("oracle_compact", 1)
	if st.lenBuckets > 49 {
		vc.Violation("at_most_49", "lenBuckets", fmt.Sprintf("k=%d store holds %d buckets", k, st.lenBuckets), nil)
		return false
	}
	var buf bytes.Buffer
	if err := st.Encode(&buf); err != nil {
		vc.Violation("serialisation", "encode", err.Error(), nil)
		return false
	}
	if buf.Len() > 1+49*40+8 {
		vc.Violation("at_most_49", "encoded-size", fmt.Sprintf("k=%d encoded store is %d bytes", k, buf.Len()), nil)
		return false
	}
	vc.Max("encoded_bytes", int64(buf.Len()))
	vc.Max("buckets", int64(st.lenBuckets))
	return true
}

func verifC06Case(vc *verifCtx, ci int) {
	r := vc.Rng(ci)
	var seed [32]byte
	copy(seed[:], r.Bytes(32))
	// number of secrets
	var k uint64
	switch r.Intn(6) {
	case 0:
		k = uint64(1 + r.Intn(64))
	case 1:
		k = uint64(1) << uint(1+r.Intn(12))
	case 2:
		k = (uint64(1) << uint(1+r.Intn(12))) + uint64(r.Intn(3)) - 1
	default:
		k = uint64(1 + r.Intn(4096))
	}
	if vc.Thorough() && ci%97 == 0 {
		k = uint64(1) << uint(14+r.Intn(7)) // up to 2^20
		k += uint64(r.Intn(5))
	}
	hostileAt := uint64(r.U64n(k + 1))
	hostileKind := r.Intn(5)
	vc.Case(ci, map[string]any{"seed": verifHex(seed[:]), "k": k, "hostileAt": hostileAt, "kind": hostileKind})

	prod := NewRevocationProducer(chainhash.Hash(seed))
	st := NewRevocationStore()
	ref := verifC06NewRef()
	exhaustiveUpTo := uint64(200)
	checkEvery := uint64(1)
	if k > 600 {
		checkEvery = k / 40
	}
	for i := uint64(0); i < k; i++ {
		want := verifC06Gen(seed, (1<<48-1)-i)
		h, err := prod.AtIndex(i)
		vc.Count("oracle_producer", 1)
		if err != nil || [32]byte(*h) != want {
			vc.Violation("producer_follows_chain", "AtIndex",
				fmt.Sprintf("producer.AtIndex(%d) err=%v differs from BOLT-3 generate_from_seed", i, err), nil)
			return
		}
		if i == hostileAt {
			// hostile secret first; both stores are offered the same
			// value and must agree on acceptance.
			bad := want
			switch hostileKind {
			case 0:
				bad[r.Intn(32)] ^= 1 << uint(r.Intn(8))
			case 1:
				bad = verifC06Gen(seed, (1<<48-1)-(i+1))
			case 2:
				if i > 0 {
					bad = verifC06Gen(seed, (1<<48-1)-(i-1))
				} else {
					bad[0] ^= 1
				}
			case 3:
				copy(bad[:], r.Bytes(32))
			default:
				// secret from a different seed
				var other [32]byte
				copy(other[:], r.Bytes(32))
				bad = verifC06Gen(other, (1<<48-1)-i)
			}
			// Work on copies so the honest flow can continue.
			var buf bytes.Buffer
			st.Encode(&buf)
			stCopy, err := NewRevocationStoreFromBytes(bytes.NewReader(buf.Bytes()))
			if err != nil {
				vc.Violation("serialisation", "decode", err.Error(), nil)
				return
			}
			refCopy := *ref
			hb := chainhash.Hash(bad)
			gotErr := stCopy.AddNextEntry(&hb)
			wantOK := refCopy.insert(bad)
			vc.Count("oracle_hostile", 1)
			if wantOK != (gotErr == nil) {
				vc.Violation("rejects_inconsistent", fmt.Sprintf("kind%d:tz%d", hostileKind, verifC06TZ((1<<48-1)-i)),
					fmt.Sprintf("index %d (BOLT-3 trailing zeros %d): reference accept=%v, store err=%v",
						i, verifC06TZ((1<<48-1)-i), wantOK, gotErr), nil)
				return
			}
			if gotErr != nil {
				vc.Count("hostile_rejected", 1)
				// a rejected secret must leave earlier answers intact
				if !verifC06CheckStore(vc, stCopy, ref, i, r, i <= exhaustiveUpTo, "after-reject") {
					return
				}
				// ... and must not have consumed anything: the store
				// serialises as before and keeps accepting the honest
				// continuation (BOLT-3 insert_secret has no effect
				// when it fails).
				var after bytes.Buffer
				stCopy.Encode(&after)
				vc.Count("oracle_reject_no_effect", 1)
				if !bytes.Equal(after.Bytes(), buf.Bytes()) {
					vc.Violation("rejects_inconsistent", "rejected-secret-changed-store",
						fmt.Sprintf("index %d: a rejected secret changed the serialised store", i), nil)
					return
				}
				refCont := *ref
				for c := uint64(0); c < 4; c++ {
					hs := verifC06Gen(seed, (1<<48-1)-(i+c))
					hh := chainhash.Hash(hs)
					if err := stCopy.AddNextEntry(&hh); err != nil {
						vc.Violation("accepts_honest", "after-rejection",
							fmt.Sprintf("after rejecting a bad secret at %d the store rejects the honest secret %d: %v", i, i+c, err), nil)
						return
					}
					refCont.insert(hs)
					if !verifC06CheckStore(vc, stCopy, &refCont, i+c+1, r, i <= exhaustiveUpTo, "continue-after-reject") {
						return
					}
				}
			} else {
				vc.Count("hostile_undetectable", 1)
				if !verifC06CheckStore(vc, stCopy, &refCopy, i+1, r, i <= exhaustiveUpTo, "after-accepted-bad") {
					return
				}
			}
		}
		hh := chainhash.Hash(want)
		if err := st.AddNextEntry(&hh); err != nil {
			vc.Violation("accepts_honest", "AddNextEntry",
				fmt.Sprintf("store rejected the honest secret %d: %v", i, err), nil)
			return
		}
		if !ref.insert(want) {
			vc.t.Fatalf("reference store rejected an honest secret (harness bug)")
		}
		n := i + 1
		if n <= exhaustiveUpTo || n%checkEvery == 0 || n == k {
			if !verifC06CheckStore(vc, st, ref, n, r, n <= exhaustiveUpTo, "honest") {
				return
			}
		}
	}
	// serialisation round trip keeps every answer
	var buf bytes.Buffer
	st.Encode(&buf)
	st2, err := NewRevocationStoreFromBytes(bytes.NewReader(buf.Bytes()))
	if err != nil {
		vc.Violation("serialisation", "decode", err.Error(), nil)
		return
	}
	vc.Count("oracle_roundtrip", 1)
	if !verifC06CheckStore(vc, st2, ref, k, r, k <= exhaustiveUpTo, "after-roundtrip") {
		return
	}
	var buf2 bytes.Buffer
	st2.Encode(&buf2)
	if !bytes.Equal(buf.Bytes(), buf2.Bytes()) {
		vc.Violation("serialisation", "re-encode", "re-encoding a decoded store differs", nil)
		return
	}
	// the decoded store must keep accepting the honest continuation
	next := verifC06Gen(seed, (1<<48-1)-k)
	nh := chainhash.Hash(next)
	if err := st2.AddNextEntry(&nh); err != nil {
		vc.Violation("serialisation", "continue-after-decode",
			fmt.Sprintf("decoded store rejected the next honest secret %d: %v", k, err), nil)
		return
	}
	vc.Sig(verifJoin(verifC06TZ(k), k > 300, k > 5000, hostileKind, verifC06TZ((1<<48-1)-hostileAt) > 0))
	if ci%200 == 0 {
		vc.Sample(map[string]any{"case": ci, "k": k, "hostileAt": hostileAt, "kind": hostileKind,
			"buckets": st.lenBuckets, "encoded": buf.Len()})
	}
	vc.CaseDone(ci)
}

func TestVerifC06Store(t *testing.T) {
	vc := verifStart(t, "C06", "store")
	defer vc.Finish()
	total := vc.N(1200, 60000)
	for i := 0; i < total; i++ {
		if !vc.Mine(i) {
			continue
		}
		verifC06Case(vc, i)
	}
}
