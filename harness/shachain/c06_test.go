package shachain

// C06 (store part): the real RevocationStore / RevocationProducer are run
// against a BOLT-3 reference written here (generate_from_seed, insert_secret,
// derive_old_secret), including hostile insertions.

import (
	"bytes"
	"crypto/sha256"
	"fmt"
	"testing"

	"github.com/btcsuite/btcd/chainhash/v2"
)

// --- BOLT-3 reference -------------------------------------------------------

func verifC06Gen(seed [32]byte, I uint64) [32]byte {
	p := seed
	for b := 47; b >= 0; b-- {
		if I&(1<<uint(b)) != 0 {
			p[b/8] ^= 1 << uint(b%8)
			p = sha256.Sum256(p[:])
		}
	}
	return p
}

func verifC06Derive(base [32]byte, bits int, I uint64) [32]byte {
	p := base
	for b := bits - 1; b >= 0; b-- {
		if I&(1<<uint(b)) != 0 {
			p[b/8] ^= 1 << uint(b%8)
			p = sha256.Sum256(p[:])
		}
	}
	return p
}

type verifC06Ref struct {
	known [49]struct {
		ok     bool
		index  uint64
		secret [32]byte
	}
	next uint64 // next BOLT-3 index expected (counts down from 2^48-1)
}

func verifC06NewRef() *verifC06Ref { return &verifC06Ref{next: 1<<48 - 1} }

func verifC06TZ(I uint64) int {
	for b := 0; b < 48; b++ {
		if I&(1<<uint(b)) != 0 {
			return b
		}
	}
	return 48
}

// insert implements BOLT-3 insert_secret for the next index.
func (r *verifC06Ref) insert(secret [32]byte) bool {
	I := r.next
	B := verifC06TZ(I)
	for b := 0; b < B; b++ {
		if !r.known[b].ok {
			continue
		}
		if verifC06Derive(secret, B, r.known[b].index) != r.known[b].secret {
			return false
		}
	}
	r.known[B].ok = true
	r.known[B].index = I
	r.known[B].secret = secret
	r.next--
	return true
}

// lookup implements derive_old_secret.
func (r *verifC06Ref) lookup(I uint64) ([32]byte, bool) {
	for b := 0; b < 49; b++ {
		if !r.known[b].ok {
			continue
		}
		mask := ^((uint64(1) << uint(b)) - 1)
		if I&mask == r.known[b].index {
			return verifC06Derive(r.known[b].secret, b, I), true
		}
	}
	return [32]byte{}, false
}

// --- monitor ----------------------------------------------------------------

func verifC06CheckStore(vc *verifCtx, st *RevocationStore, ref *verifC06Ref,
	k uint64, r *verifRng, exhaustive bool, what string) bool {

	check := func(i uint64) bool {
		vc.Count("oracle_lookup", 1)
		want, ok := ref.lookup((1<<48 - 1) - i)
		got, err := st.LookUp(i)
		if ok != (err == nil) {
			vc.Violation("lookup_agrees", what+":derivability",
				fmt.Sprintf("k=%d LookUp(%d): reference derivable=%v, store err=%v", k, i, ok, err), nil)
			return false
		}
		if ok && [32]byte(*got) != want {
			vc.Violation("lookup_agrees", what+":value",
				fmt.Sprintf("k=%d LookUp(%d) returned a wrong secret", k, i), nil)
			return false
		}
		return true
	}
	if exhaustive {
		for i := uint64(0); i <= k+1; i++ {
			if !check(i) {
				return false
			}
		}
	} else {
		idxs := []uint64{0, 1, k - 1, k, k + 1, k / 2}
		for j := 0; j < 24; j++ {
			idxs = append(idxs, r.U64n(k+2))
		}
		for b := uint(0); b < 48 && (uint64(1)<<b) <= k; b++ {
			idxs = append(idxs, (uint64(1)<<b)-1, uint64(1)<<b, k-(uint64(1)<<b))
		}
		for _, i := range idxs {
			if i > k+1 {
				continue
			}
			if !check(i) {
				return false
			}
		}
	}
	// compactness
	vc.Count("oracle_compact", 1)
	if st.lenBuckets > 49 {
		vc.Violation("at_most_49", "lenBuckets", fmt.Sprintf("k=%d store holds %d buckets", k, st.lenBuckets), nil)
		return false
	}
	var buf bytes.Buffer
	if err := st.Encode(&buf); err != nil {
		vc.Violation("serialisation", "encode", err.Error(), nil)
		return false
	}
	if buf.Len() > 1+49*40+8 {
		vc.Violation("at_most_49", "encoded-size", fmt.Sprintf("k=%d encoded store is %d bytes", k, buf.Len()), nil)
		return false
	}
	vc.Max("encoded_bytes", int64(buf.Len()))
	vc.Max("buckets", int64(st.lenBuckets))
	return true
}

func verifC06Case(vc *verifCtx, ci int) {
	r := vc.Rng(ci)
	var seed [32]byte
	copy(seed[:], r.Bytes(32))
	// number of secrets
	var k uint64
	switch r.Intn(6) {
	case 0:
		k = uint64(1 + r.Intn(64))
	case 1:
		k = uint64(1) << uint(1+r.Intn(12))
	case 2:
		k = (uint64(1) << uint(1+r.Intn(12))) + uint64(r.Intn(3)) - 1
	default:
		k = uint64(1 + r.Intn(4096))
	}
	if vc.Thorough() && ci%97 == 0 {
		k = uint64(1) << uint(14+r.Intn(7)) // up to 2^20
		k += uint64(r.Intn(5))
	}
	hostileAt := uint64(r.U64n(k + 1))
	hostileKind := r.Intn(5)
	vc.Case(ci, map[string]any{"seed": verifHex(seed[:]), "k": k, "hostileAt": hostileAt, "kind": hostileKind})

	prod := NewRevocationProducer(chainhash.Hash(seed))
	st := NewRevocationStore()
	ref := verifC06NewRef()
	exhaustiveUpTo := uint64(200)
	checkEvery := uint64(1)
	if k > 600 {
		checkEvery = k / 40
	}
	for i := uint64(0); i < k; i++ {
		want := verifC06Gen(seed, (1<<48-1)-i)
		h, err := prod.AtIndex(i)
		vc.Count("oracle_producer", 1)
		if err != nil || [32]byte(*h) != want {
			vc.Violation("producer_follows_chain", "AtIndex",
				fmt.Sprintf("producer.AtIndex(%d) err=%v differs from BOLT-3 generate_from_seed", i, err), nil)
			return
		}
		if i == hostileAt {
			// hostile secret first; both stores are offered the same
			// value and must agree on acceptance.
			bad := want
			switch hostileKind {
			case 0:
				bad[r.Intn(32)] ^= 1 << uint(r.Intn(8))
			case 1:
				bad = verifC06Gen(seed, (1<<48-1)-(i+1))
			case 2:
				if i > 0 {
					bad = verifC06Gen(seed, (1<<48-1)-(i-1))
				} else {
					bad[0] ^= 1
				}
			case 3:
				copy(bad[:], r.Bytes(32))
			default:
				// secret from a different seed
				var other [32]byte
				copy(other[:], r.Bytes(32))
				bad = verifC06Gen(other, (1<<48-1)-i)
			}
			// Work on copies so the honest flow can continue.
			var buf bytes.Buffer
			st.Encode(&buf)
			stCopy, err := NewRevocationStoreFromBytes(bytes.NewReader(buf.Bytes()))
			if err != nil {
				vc.Violation("serialisation", "decode", err.Error(), nil)
				return
			}
			refCopy := *ref
			hb := chainhash.Hash(bad)
			gotErr := stCopy.AddNextEntry(&hb)
			wantOK := refCopy.insert(bad)
			vc.Count("oracle_hostile", 1)
			if wantOK != (gotErr == nil) {
				vc.Violation("rejects_inconsistent", fmt.Sprintf("kind%d:tz%d", hostileKind, verifC06TZ((1<<48-1)-i)),
					fmt.Sprintf("index %d (BOLT-3 trailing zeros %d): reference accept=%v, store err=%v",
						i, verifC06TZ((1<<48-1)-i), wantOK, gotErr), nil)
				return
			}
			if gotErr != nil {
				vc.Count("hostile_rejected", 1)
				// a rejected secret must leave earlier answers intact
				if !verifC06CheckStore(vc, stCopy, ref, i, r, i <= exhaustiveUpTo, "after-reject") {
					return
				}
				// ... and must not have consumed anything: the store
				// serialises as before and keeps accepting the honest
				// continuation (BOLT-3 insert_secret has no effect
				// when it fails).
				var after bytes.Buffer
				stCopy.Encode(&after)
				vc.Count("oracle_reject_no_effect", 1)
				if !bytes.Equal(after.Bytes(), buf.Bytes()) {
					vc.Violation("rejects_inconsistent", "rejected-secret-changed-store",
						fmt.Sprintf("index %d: a rejected secret changed the serialised store", i), nil)
					return
				}
				refCont := *ref
				for c := uint64(0); c < 4; c++ {
					hs := verifC06Gen(seed, (1<<48-1)-(i+c))
					hh := chainhash.Hash(hs)
					if err := stCopy.AddNextEntry(&hh); err != nil {
						vc.Violation("accepts_honest", "after-rejection",
							fmt.Sprintf("after rejecting a bad secret at %d the store rejects the honest secret %d: %v", i, i+c, err), nil)
						return
					}
					refCont.insert(hs)
					if !verifC06CheckStore(vc, stCopy, &refCont, i+c+1, r, i <= exhaustiveUpTo, "continue-after-reject") {
						return
					}
				}
			} else {
				vc.Count("hostile_undetectable", 1)
				if !verifC06CheckStore(vc, stCopy, &refCopy, i+1, r, i <= exhaustiveUpTo, "after-accepted-bad") {
					return
				}
			}
		}
		hh := chainhash.Hash(want)
		if err := st.AddNextEntry(&hh); err != nil {
			vc.Violation("accepts_honest", "AddNextEntry",
				fmt.Sprintf("store rejected the honest secret %d: %v", i, err), nil)
			return
		}
		if !ref.insert(want) {
			vc.t.Fatalf("reference store rejected an honest secret (harness bug)")
		}
		n := i + 1
		if n <= exhaustiveUpTo || n%checkEvery == 0 || n == k {
			if !verifC06CheckStore(vc, st, ref, n, r, n <= exhaustiveUpTo, "honest") {
				return
			}
		}
	}
	// serialisation round trip keeps every answer
	var buf bytes.Buffer
	st.Encode(&buf)
	st2, err := NewRevocationStoreFromBytes(bytes.NewReader(buf.Bytes()))
	if err != nil {
		vc.Violation("serialisation", "decode", err.Error(), nil)
		return
	}
	vc.Count("oracle_roundtrip", 1)
	if !verifC06CheckStore(vc, st2, ref, k, r, k <= exhaustiveUpTo, "after-roundtrip") {
		return
	}
	var buf2 bytes.Buffer
	st2.Encode(&buf2)
	if !bytes.Equal(buf.Bytes(), buf2.Bytes()) {
		vc.Violation("serialisation", "re-encode", "re-encoding a decoded store differs", nil)
		return
	}
	// the decoded store must keep accepting the honest continuation
	next := verifC06Gen(seed, (1<<48-1)-k)
	nh := chainhash.Hash(next)
	if err := st2.AddNextEntry(&nh); err != nil {
		vc.Violation("serialisation", "continue-after-decode",
			fmt.Sprintf("decoded store rejected the next honest secret %d: %v", k, err), nil)
		return
	}
	vc.Sig(verifJoin(verifC06TZ(k), k > 300, k > 5000, hostileKind, verifC06TZ((1<<48-1)-hostileAt) > 0))
	if ci%200 == 0 {
		vc.Sample(map[string]any{"case": ci, "k": k, "hostileAt": hostileAt, "kind": hostileKind,
			"buckets": st.lenBuckets, "encoded": buf.Len()})
	}
	vc.CaseDone(ci)
}

// --- deep stores -------------------------------------------------------------
//
// Honest sequential insertion reaches k ~ 2^20 at most in a test run, i.e. 21
// of the 49 possible buckets. The statement quantifies over "the first k
// secrets of any counterparty chain" for every k of the 2^48 index space, so
// stores for deep k are built STRUCTURALLY: after the first k secrets
// (BOLT-3 indexes 2^48-1 down to L = 2^48-k) bucket b holds the last inserted
// index with exactly b trailing zeros, i.e. the smallest I >= L with tz(I)==b.
// The real store gets lnd's own producer output for those indexes (through its
// unexported fields: this harness lives in package shachain), the reference
// gets generate_from_seed. The construction is validated against real
// sequential insertion for small k (counter deep_construction_selfcheck).

// verifC06BucketIndex returns the BOLT-3 index held by bucket b after the
// first k secrets, and whether the bucket is occupied.
func verifC06BucketIndex(k uint64, b int) (uint64, bool) {
	const top = uint64(1)<<48 - 1
	L := top + 1 - k
	step := uint64(1) << uint(b)
	c := (L + step - 1) / step * step
	if (c>>uint(b))&1 == 0 {
		c += step
	}
	if c > top || c < L {
		return 0, false
	}
	return c, true
}

// verifC06BuildDeep builds the real store and the reference for the first k
// secrets of the chain with the given seed.
func verifC06BuildDeep(vc *verifCtx, seed [32]byte, k uint64) (*RevocationStore, *verifC06Ref, bool) {
	const top = uint64(1)<<48 - 1
	prod := NewRevocationProducer(chainhash.Hash(seed))
	st := NewRevocationStore()
	ref := verifC06NewRef()
	for b := 0; b < 48; b++ {
		I, ok := verifC06BucketIndex(k, b)
		if !ok {
			continue
		}
		want := verifC06Gen(seed, I)
		h, err := prod.AtIndex(top - I)
		vc.Count("oracle_producer", 1)
		if err != nil || [32]byte(*h) != want {
			vc.Violation("producer_follows_chain", "AtIndex-deep",
				fmt.Sprintf("producer.AtIndex(%d) err=%v differs from BOLT-3 generate_from_seed", top-I, err), nil)
			return nil, nil, false
		}
		st.buckets[b] = element{index: newIndex(top - I), hash: *h}
		if uint8(b)+1 > st.lenBuckets {
			st.lenBuckets = uint8(b) + 1
		}
		ref.known[b].ok = true
		ref.known[b].index = I
		ref.known[b].secret = want
	}
	st.index = newIndex(k)
	ref.next = top - k
	return st, ref, true
}

// verifC06DeepK draws a k from the structured deep classes.
func verifC06DeepK(r *verifRng) (uint64, string) {
	const top = uint64(1)<<48 - 1
	j := uint(13 + r.Intn(35)) // 13..47
	switch r.Intn(9) {
	case 0:
		return uint64(1) << j, "pow2"
	case 1:
		return (uint64(1) << j) - 1, "pow2-1"
	case 2:
		return (uint64(1) << j) + 1, "pow2+1"
	case 3:
		return (uint64(1) << j) + (uint64(1) << uint(r.Intn(int(j)))), "two-bits"
	case 4:
		return top - uint64(r.Intn(6)) - 1, "near-end"
	case 5:
		return 0xAAAAAAAAAAAA >> uint(r.Intn(8)), "alt-a"
	case 6:
		return 0x555555555555 >> uint(r.Intn(8)), "alt-5"
	case 7:
		// the deepest buckets: k with 47 or 46 significant bits
		return (uint64(1) << uint(46+r.Intn(2))) + r.U64n(1<<20) - (1 << 19), "deepest"
	default:
		return 1 + r.U64n(top-8), "random48"
	}
}

func verifC06DeepCase(vc *verifCtx, ci int) {
	const top = uint64(1)<<48 - 1
	r := vc.Rng(ci)
	var seed [32]byte
	copy(seed[:], r.Bytes(32))

	// construction self-check against real sequential insertion (small k)
	{
		ks := uint64(1 + r.Intn(3000))
		stS := NewRevocationStore()
		for i := uint64(0); i < ks; i++ {
			h := chainhash.Hash(verifC06Gen(seed, top-i))
			if err := stS.AddNextEntry(&h); err != nil {
				vc.Violation("accepts_honest", "AddNextEntry",
					fmt.Sprintf("store rejected the honest secret %d: %v", i, err), nil)
				return
			}
		}
		stD, _, ok := verifC06BuildDeep(vc, seed, ks)
		if !ok {
			return
		}
		var a, b bytes.Buffer
		stS.Encode(&a)
		stD.Encode(&b)
		vc.Count("deep_construction_selfcheck", 1)
		if !bytes.Equal(a.Bytes(), b.Bytes()) {
			vc.t.Fatalf("deep-store construction differs from sequential insertion at k=%d (harness bug)", ks)
		}
	}

	k, class := verifC06DeepK(r)
	if k < 1 {
		k = 1
	}
	if k > top-8 {
		k = top - 8
	}
	hostileKind := r.Intn(5)
	vc.Case(ci, map[string]any{"seed": verifHex(seed[:]), "deep_k": k, "class": class, "kind": hostileKind})
	st, ref, ok := verifC06BuildDeep(vc, seed, k)
	if !ok {
		return
	}
	vc.Count("deep_cases", 1)
	vc.Max("deep_buckets", int64(st.lenBuckets))
	if !verifC06CheckStore(vc, st, ref, k, r, false, "deep") {
		return
	}

	// serialisation round trip keeps every answer
	var buf bytes.Buffer
	if err := st.Encode(&buf); err != nil {
		vc.Violation("serialisation", "encode", err.Error(), nil)
		return
	}
	vc.Count("oracle_roundtrip", 1)
	vc.Count("oracle_roundtrip_deep", 1)
	st2, err := NewRevocationStoreFromBytes(bytes.NewReader(buf.Bytes()))
	if err != nil {
		vc.Violation("serialisation", "decode-deep",
			fmt.Sprintf("k=%d (%d buckets): a store holding the first k secrets does not decode: %v", k, st.lenBuckets, err), nil)
		return
	}
	if !verifC06CheckStore(vc, st2, ref, k, r, false, "deep-after-roundtrip") {
		return
	}
	var buf2 bytes.Buffer
	st2.Encode(&buf2)
	if !bytes.Equal(buf.Bytes(), buf2.Bytes()) {
		vc.Violation("serialisation", "re-encode", "re-encoding a decoded deep store differs", nil)
		return
	}

	// hostile secret at position k, on a copy of the in-memory store
	{
		want := verifC06Gen(seed, top-k)
		bad := want
		switch hostileKind {
		case 0:
			bad[r.Intn(32)] ^= 1 << uint(r.Intn(8))
		case 1:
			bad = verifC06Gen(seed, top-(k+1))
		case 2:
			bad = verifC06Gen(seed, top-(k-1))
		case 3:
			copy(bad[:], r.Bytes(32))
		default:
			var other [32]byte
			copy(other[:], r.Bytes(32))
			bad = verifC06Gen(other, top-k)
		}
		stCopy := *st2
		refCopy := *ref
		hb := chainhash.Hash(bad)
		gotErr := stCopy.AddNextEntry(&hb)
		wantOK := refCopy.insert(bad)
		vc.Count("oracle_hostile", 1)
		vc.Count("oracle_hostile_deep", 1)
		if wantOK != (gotErr == nil) {
			vc.Violation("rejects_inconsistent", fmt.Sprintf("deep:kind%d:tz%d", hostileKind, verifC06TZ(top-k)),
				fmt.Sprintf("deep k=%d (BOLT-3 trailing zeros %d): reference accept=%v, store err=%v",
					k, verifC06TZ(top-k), wantOK, gotErr), nil)
			return
		}
		if gotErr != nil {
			vc.Count("hostile_rejected", 1)
			var after bytes.Buffer
			stCopy.Encode(&after)
			if !bytes.Equal(after.Bytes(), buf.Bytes()) {
				vc.Violation("rejects_inconsistent", "rejected-secret-changed-store",
					fmt.Sprintf("deep k=%d: a rejected secret changed the serialised store", k), nil)
				return
			}
		}
	}

	// the decoded store keeps accepting the honest continuation (this can
	// open a new, deeper bucket, e.g. k = 2^47-1 -> bucket 47)
	for c := uint64(0); c < 5; c++ {
		hs := verifC06Gen(seed, top-(k+c))
		hh := chainhash.Hash(hs)
		if err := st2.AddNextEntry(&hh); err != nil {
			vc.Violation("accepts_honest", "deep-continuation",
				fmt.Sprintf("deep store k=%d rejects the honest secret %d: %v", k, k+c, err), nil)
			return
		}
		ref.insert(hs)
		if !verifC06CheckStore(vc, st2, ref, k+c+1, r, false, "deep-continue") {
			return
		}
		var b3 bytes.Buffer
		st2.Encode(&b3)
		st3, err := NewRevocationStoreFromBytes(bytes.NewReader(b3.Bytes()))
		vc.Count("oracle_roundtrip_deep", 1)
		if err != nil {
			vc.Violation("serialisation", "decode-deep",
				fmt.Sprintf("k=%d (%d buckets): store does not decode: %v", k+c+1, st2.lenBuckets, err), nil)
			return
		}
		if !verifC06CheckStore(vc, st3, ref, k+c+1, r, false, "deep-continue-roundtrip") {
			return
		}
	}
	vc.Sig(verifJoin("deep", class, st.lenBuckets, hostileKind))
	if ci%200 == 1 {
		vc.Sample(map[string]any{"case": ci, "deep_k": k, "class": class, "buckets": st.lenBuckets, "encoded": buf.Len()})
	}
	vc.CaseDone(ci)
}

func TestVerifC06Store(t *testing.T) {
	vc := verifStart(t, "C06", "store")
	defer vc.Finish()
	total := vc.N(1600, 80000)
	for i := 0; i < total; i++ {
		if !vc.Mine(i) {
			continue
		}
		if i%4 == 3 {
			verifC06DeepCase(vc, i)
			continue
		}
		verifC06Case(vc, i)
	}
}
