package lnwallet

// E1: two-party channel schedule driver (see /verif/DESIGN.md §2 E1).
//
// Two real LightningChannel state machines over two real bbolt-backed
// channeldb instances, connected by two in-order FIFO queues of real lnwire
// messages (each message is serialised and re-parsed on delivery). The driver
// only performs actions an honest peer performs.

import (
	"github.com/btcsuite/btcwallet/walletdb"
	"bytes"
	"context"
	"crypto/sha256"
	"errors"
	"fmt"
	"os"
	"path/filepath"
	"strings"

	"github.com/btcsuite/btcd/btcec/v2"
	"github.com/btcsuite/btcd/btcutil/v2"
	"github.com/btcsuite/btcd/chainhash/v2"
	"github.com/btcsuite/btcd/wire/v2"
	"github.com/lightningnetwork/lnd/channeldb"
	"github.com/lightningnetwork/lnd/chanstate"
	"github.com/lightningnetwork/lnd/fn/v2"
	"github.com/lightningnetwork/lnd/graph/db/models"
	"github.com/lightningnetwork/lnd/input"
	"github.com/lightningnetwork/lnd/keychain"
	"github.com/lightningnetwork/lnd/kvdb"
	"github.com/lightningnetwork/lnd/lnwallet/chainfee"
	"github.com/lightningnetwork/lnd/lnwire"
	"github.com/lightningnetwork/lnd/shachain"
	"github.com/lightningnetwork/lnd/tlv"
)

// ---------------------------------------------------------------------------
// parameters

type verifE1Params struct {
	TypeName    string
	ChanType    channeldb.ChannelType
	AliceOpener bool
	CapacitySat int64
	PushPct     int // percentage of capacity on the non-opener side
	DustA       int64
	DustB       int64
	ReservePct  int // reserve in 1/1000 of capacity
	FeePerKw    int64
	MaxHtlcs    uint16
	TapRoot     bool // custom tapscript root (taproot only)
}

var verifE1Types = []struct {
	Name string
	T    channeldb.ChannelType
}{
	{"legacy", channeldb.SingleFunderBit},
	{"tweakless", channeldb.SingleFunderTweaklessBit},
	{"anchors", channeldb.SingleFunderTweaklessBit | channeldb.AnchorOutputsBit},
	{"zerofee-anchors", channeldb.SingleFunderTweaklessBit |
		channeldb.AnchorOutputsBit | channeldb.ZeroHtlcTxFeeBit},
	{"lease", channeldb.SingleFunderTweaklessBit | channeldb.AnchorOutputsBit |
		channeldb.ZeroHtlcTxFeeBit | channeldb.LeaseExpirationBit},
	{"taproot-staging", channeldb.SingleFunderTweaklessBit |
		channeldb.AnchorOutputsBit | channeldb.ZeroHtlcTxFeeBit |
		channeldb.SimpleTaprootFeatureBit},
	{"taproot-final", channeldb.SingleFunderTweaklessBit |
		channeldb.AnchorOutputsBit | channeldb.ZeroHtlcTxFeeBit |
		channeldb.SimpleTaprootFeatureBit | channeldb.TaprootFinalBit},
}

func verifE1GenParams(r *verifRng) verifE1Params {
	ti := r.Intn(len(verifE1Types))
	p := verifE1Params{
		TypeName:    verifE1Types[ti].Name,
		ChanType:    verifE1Types[ti].T,
		AliceOpener: r.Bool(),
		ReservePct:  10,
		MaxHtlcs:    uint16(input.MaxHTLCNumber / 2),
	}
	switch r.Intn(4) {
	case 0:
		p.CapacitySat = 1000000000 // 10 BTC as the stock fixture
	case 1:
		p.CapacitySat = 1000000
	case 2:
		p.CapacitySat = 200000
	default:
		p.CapacitySat = 5000000
	}
	p.PushPct = []int{50, 50, 10, 90, 30, 0}[r.Intn(6)]
	dusts := []int64{200, 1300, 546, 354, 330, 1000}
	p.DustA = dusts[r.Intn(len(dusts))]
	p.DustB = dusts[r.Intn(len(dusts))]
	p.FeePerKw = []int64{253, 6000, 6000, 2500, 12500, 50000}[r.Intn(6)]
	if r.Chance(1, 6) {
		p.MaxHtlcs = uint16(2 + r.Intn(6))
	}
	if p.ChanType.IsTaproot() && r.Chance(1, 4) {
		p.TapRoot = true
		p.ChanType |= channeldb.TapscriptRootBit
	}
	return p
}

// ---------------------------------------------------------------------------
// parties

type verifE1Released struct {
	Height uint64 // height of the commitment whose secret was released
	Secret [32]byte
	Next   *btcec.PublicKey
	Via    string // "revoke" or "sync"
}

type verifE1Party struct {
	Name     string
	Idx      int
	ch       *LightningChannel
	signer   *input.MockSigner
	pool     *SigPool
	db       *channeldb.DB
	backend  kvdb.Backend
	dbDir    string
	// reopenKind != 0: the next reload of this party is a process restart
	// that also closes and reopens its database backend (sqlite unit).
	reopenKind int
	idPub    *btcec.PublicKey
	root     chainhash.Hash // shachain root of the revocation producer
	released []verifE1Released
	// commitments ever fully held (signed by the peer) per height
	// (recorded before they can be revoked); used by C04/C05.
	heldTx map[uint64]*wire.MsgTx
	// stale: an OpenChannel instance of this party's channel loaded when
	// the node started and never refreshed - what the funding manager /
	// chain watcher / arbitrator hold while the link advances the state
	// through its own instance (see actForeign).
	stale *channeldb.OpenChannel
}

type verifE1Htlc struct {
	Offerer  int
	ID       uint64
	Amt      lnwire.MilliSatoshi
	Expiry   uint32
	Preimage [32]byte
	Hash     [32]byte
	Fate     int // 0 settle, 1 fail, 2 malformed, 3 leave pending
	Dead     bool
	// optional TLV payload of the update_add_htlc as sent (canonical text)
	BP string
	CR string
	// observed life cycle
	EverLocked   bool // seen in both tails of the receiver
	ResolveSent  int  // number of times a resolution was issued (re-issues after drops)
	SeenInCommit bool
}

const (
	verifFateSettle = iota
	verifFateFail
	verifFateMalformed
	verifFatePending
)

type verifE1Msg struct {
	Seq  int
	Msg  lnwire.Message
	Kind string
}

// verifE1SigRec remembers the last commitment_signed of one direction and the
// update messages it covers, and whether the peer has durably processed it.
type verifE1SigRec struct {
	Seq       int
	Covered   []lnwire.Message
	Sig       *lnwire.CommitSig
	Processed bool // peer executed RevokeCurrentCommitment for it
}

type verifE1RevRec struct {
	Seq       int
	Rev       *lnwire.RevokeAndAck
	Processed bool // peer executed ReceiveRevocation for it
}

type verifE1 struct {
	vc      *verifCtx
	r       *verifRng
	p       verifE1Params
	dir     string
	parties [2]*verifE1Party
	q       [2][]verifE1Msg // q[i]: messages sent by party i, not yet delivered
	seq     int
	htlcs   []*verifE1Htlc
	trace   []string
	chanID  lnwire.ChannelID

	// bookkeeping for the retransmission oracle (C03)
	unsigned [2][]lnwire.Message // updates sent by i since its last signature
	lastSig  [2]*verifE1SigRec
	lastRev  [2]*verifE1RevRec

	// probeLiveSync: at a mid-handler crash point, first process a
	// channel_reestablish on the live object (C06).
	probeLiveSync bool

	// richAdds: some update_add_htlc carry a blinding point / custom
	// records.
	richAdds bool

	// foreignWriters: other subsystems write channel markers through
	// their own, stale OpenChannel instance between actions (actForeign).
	foreignWriters bool
	nForeign       int

	// when set, every HTLC eventually gets resolved (C17 needs HTLC-free
	// states with arbitrary msat balances).
	noPendingFate bool
	// forceAmt, when non-zero, makes the next actAdd offer exactly this
	// amount with fate settle (balance shaping, see shapeNonOpener).
	forceAmt lnwire.MilliSatoshi
	// failOnlyFate turns every settle fate into a fail (the balances stay
	// where they started; shaping cases of C17).
	failOnlyFate bool

	// terminal conditions
	ended        bool
	endReason    string
	constraintTm bool

	// monitors
	oracles map[string]bool
	hooks   verifE1Hooks

	// statistics of the schedule (for signatures)
	nAdds, nSettles, nFails, nMalformed, nFees, nSigns, nDelivers int
	nRestarts, nDisconnects, nMidCrash                            int
	maxInFlight                                                   int
	sawAsyncSign                                                  bool
	sawDustBoundary                                               bool
	sawDuplicate                                                  bool
	everLocked                                                    int

	fwdPkgs [2][]verifFwdPkgRec // forwarding packages returned by ReceiveRevocation
	// addRefs[i][id]: where party i's forwarding packages hold the incoming
	// add with that HTLC id (the link passes this as the SourceRef of its
	// settle/fail so that the add is acked atomically with the signature)
	addRefs [2]map[uint64]channeldb.AddRef
	// midCommitForks: fork + reload after EVERY committed write transaction
	midCommitForks bool
	noSourceRefs   bool

	capacityMsat lnwire.MilliSatoshi
	anchorsSat   int64
	initOwned    [2]lnwire.MilliSatoshi // initial msat owned (balance + fee/anchors for opener)
	commitHist   map[string]*verifCommitSnap

	fundingPkScript []byte
}

type verifFwdPkgRec struct {
	Height      uint64
	Adds        int
	SettleFails int
}

type verifE1Hooks struct {
	// afterAction is called after every action with a short label.
	afterAction func(e *verifE1, label string)
	// onRelease is called whenever the API hands out a RevokeAndAck.
	onRelease func(e *verifE1, party int, rel verifE1Released)
	// onSync is called with the result of ProcessChanSyncMsg of party i.
	onSync func(e *verifE1, party int, msgs []lnwire.Message, err error)
}

func (e *verifE1) on(oracle string) bool { return e.oracles == nil || e.oracles[oracle] }

func (e *verifE1) viol(oracle, key, detail string) {
	e.debugDump(oracle + " " + key)
	e.vc.Violation(oracle, key, detail, e.witness())
	e.ended = true
	e.endReason = "violation:" + oracle
}

func (e *verifE1) witness() map[string]any {
	tr := e.trace
	if len(tr) > 400 {
		tr = tr[len(tr)-400:]
	}
	return map[string]any{"params": e.p, "trace": tr}
}

func (e *verifE1) logf(format string, a ...any) {
	e.trace = append(e.trace, fmt.Sprintf(format, a...))
}

// ---------------------------------------------------------------------------
// construction (parameterised clone of CreateTestChannels)

func verifE1Keys(seedByte byte, base []byte) []*btcec.PrivateKey {
	var keys []*btcec.PrivateKey
	for i := 0; i < 5; i++ {
		key := make([]byte, len(base))
		copy(key, base)
		key[0] ^= byte(i + 1)
		key[31] ^= seedByte
		k, _ := btcec.PrivKeyFromBytes(key)
		keys = append(keys, k)
	}
	return keys
}

// verifE1DB wraps the kvdb backend (bbolt, or the sqlite kvdb backend when
// verifUseSqlite is set) of one party: after every committed write
// transaction hook (if set) runs, i.e. at every instant at which a crash
// would leave a different database behind (C02 crash points between the
// durable writes of ONE handler). Both backends return nil from Update exactly
// once per committed transaction (sqlbase retries serialization failures
// inside Update), and channeldb's channel-state writes all go through
// kvdb.Update / kvdb.Batch (which falls back to Update on this wrapper).
type verifE1DB struct {
	kvdb.Backend
	hook    func()
	commits int64
	inHook  bool
}

func (d *verifE1DB) Update(f func(tx walletdb.ReadWriteTx) error, reset func()) error {
	err := d.Backend.Update(f, reset)
	if err == nil {
		d.commits++
		if d.hook != nil && !d.inHook {
			d.inHook = true
			d.hook()
			d.inHook = false
		}
	}
	return err
}

// Second kvdb backend family (SQL: kvdb/sqlbase + kvdb/sqlite). The functions
// are assigned by e1_sqlite_test.go, which only exists in a kvdb_sqlite build
// and is only listed by the units that need it; every other unit leaves them
// nil and verifUseSqlite false.
var (
	verifUseSqlite bool
	// verifOpenSqlite opens (creating if needed) the sqlite kvdb backend
	// whose database file lives in dir.
	verifOpenSqlite func(dir string) (kvdb.Backend, error)
	// verifSqliteImage writes into dstDir the database party i's process
	// would leave behind if it stopped right now.
	verifSqliteImage func(e *verifE1, i int, dstDir string) error
	// verifSqliteReopen restarts party i's backend (p.reopenKind).
	verifSqliteReopen func(e *verifE1, i int) error
)

func verifOpenDB(dir string, dbMods ...channeldb.OptionModifier) (*channeldb.DB, kvdb.Backend, error) {
	var (
		bolt kvdb.Backend
		err  error
	)
	if verifUseSqlite {
		if !kvdb.SqliteBackend || verifOpenSqlite == nil {
			return nil, nil, errors.New("sqlite kvdb backend requested but not compiled in (tag kvdb_sqlite)")
		}
		bolt, err = verifOpenSqlite(dir)
	} else {
		bolt, err = kvdb.GetBoltBackend(&kvdb.BoltBackendConfig{
			DBPath:            dir,
			DBFileName:        "channel.db",
			NoFreelistSync:    true,
			AutoCompact:       false,
			AutoCompactMinAge: kvdb.DefaultBoltAutoCompactMinAge,
			DBTimeout:         kvdb.DefaultDBTimeout,
		})
	}
	if err != nil {
		return nil, nil, err
	}
	backend := &verifE1DB{Backend: bolt}
	db, err := channeldb.CreateWithBackend(backend, dbMods...)
	if err != nil {
		backend.Close()
		return nil, nil, err
	}
	return db, backend, nil
}

func verifE1New(vc *verifCtx, r *verifRng, p verifE1Params,
	dbMods ...channeldb.OptionModifier) (*verifE1, error) {

	e := &verifE1{vc: vc, r: r, p: p, commitHist: map[string]*verifCommitSnap{}}
	dir, err := os.MkdirTemp(os.Getenv("VERIF_SCRATCH"), "e1-")
	if err != nil {
		return nil, err
	}
	e.dir = dir

	chanType := p.ChanType
	capacity := btcutil.Amount(p.CapacitySat)
	e.capacityMsat = lnwire.NewMSatFromSatoshis(capacity)

	aliceKeys := verifE1Keys(byte(r.Intn(200)), testWalletPrivKey)
	bobKeys := verifE1Keys(byte(r.Intn(200)), bobsPrivKey)

	var prevHash chainhash.Hash
	copy(prevHash[:], r.Bytes(32))
	prevOut := &wire.OutPoint{Hash: prevHash, Index: uint32(r.Intn(4))}
	fundingTxIn := wire.NewTxIn(prevOut, nil, nil)

	reserve := capacity * btcutil.Amount(p.ReservePct) / 1000
	mkCfg := func(keys []*btcec.PrivateKey, dust int64, csv uint16) channeldb.ChannelConfig {
		return channeldb.ChannelConfig{
			ChannelStateBounds: channeldb.ChannelStateBounds{
				MaxPendingAmount: lnwire.NewMSatFromSatoshis(capacity),
				ChanReserve:      reserve,
				MinHTLC:          0,
				MaxAcceptedHtlcs: p.MaxHtlcs,
			},
			CommitmentParams: channeldb.CommitmentParams{
				DustLimit: btcutil.Amount(dust),
				CsvDelay:  csv,
			},
			MultiSigKey:         keychain.KeyDescriptor{PubKey: keys[0].PubKey()},
			RevocationBasePoint: keychain.KeyDescriptor{PubKey: keys[1].PubKey()},
			PaymentBasePoint:    keychain.KeyDescriptor{PubKey: keys[2].PubKey()},
			DelayBasePoint:      keychain.KeyDescriptor{PubKey: keys[3].PubKey()},
			HtlcBasePoint:       keychain.KeyDescriptor{PubKey: keys[4].PubKey()},
		}
	}
	aliceCfg := mkCfg(aliceKeys, p.DustA, 5)
	bobCfg := mkCfg(bobKeys, p.DustB, 4)

	bobRoot, _ := chainhash.NewHash(bobKeys[0].Serialize())
	bobProducer := shachain.NewRevocationProducer(*bobRoot)
	bobFirst, err := bobProducer.AtIndex(0)
	if err != nil {
		return nil, err
	}
	bobCommitPoint := input.ComputeCommitmentPoint(bobFirst[:])
	aliceRoot, _ := chainhash.NewHash(aliceKeys[0].Serialize())
	aliceProducer := shachain.NewRevocationProducer(*aliceRoot)
	aliceFirst, err := aliceProducer.AtIndex(0)
	if err != nil {
		return nil, err
	}
	aliceCommitPoint := input.ComputeCommitmentPoint(aliceFirst[:])

	feePerKw := chainfee.SatPerKWeight(p.FeePerKw)
	commitWeight := verifCommitBaseWeight(chanType)
	commitFee := feePerKw.FeeForWeight(commitWeight)
	var anchorAmt btcutil.Amount
	if chanType.HasAnchors() {
		anchorAmt = 2 * AnchorSize
	}
	e.anchorsSat = int64(anchorAmt)

	nonOpenerBal := capacity * btcutil.Amount(p.PushPct) / 100
	openerOwned := capacity - nonOpenerBal
	openerBal := openerOwned - commitFee - anchorAmt
	if openerBal < reserve+btcutil.Amount(p.DustA+p.DustB) {
		return nil, fmt.Errorf("params: opener cannot afford")
	}
	var aliceBal, bobBal btcutil.Amount
	if p.AliceOpener {
		aliceBal, bobBal = openerBal, nonOpenerBal
		e.initOwned[0] = lnwire.NewMSatFromSatoshis(openerOwned)
		e.initOwned[1] = lnwire.NewMSatFromSatoshis(nonOpenerBal)
	} else {
		aliceBal, bobBal = nonOpenerBal, openerBal
		e.initOwned[0] = lnwire.NewMSatFromSatoshis(nonOpenerBal)
		e.initOwned[1] = lnwire.NewMSatFromSatoshis(openerOwned)
	}

	var leaseExpiry uint32
	if chanType.HasLeaseExpiration() {
		leaseExpiry = 1000
	}

	aliceCommitTx, bobCommitTx, err := CreateCommitmentTxns(
		aliceBal, bobBal, &aliceCfg, &bobCfg, aliceCommitPoint,
		bobCommitPoint, *fundingTxIn, chanType, p.AliceOpener, leaseExpiry,
	)
	if err != nil {
		return nil, fmt.Errorf("create commit txns: %w", err)
	}

	aliceDir := filepath.Join(dir, "alice")
	bobDir := filepath.Join(dir, "bob")
	os.MkdirAll(aliceDir, 0o755)
	os.MkdirAll(bobDir, 0o755)
	dbAlice, beAlice, err := verifOpenDB(aliceDir, dbMods...)
	if err != nil {
		return nil, err
	}
	dbBob, beBob, err := verifOpenDB(bobDir, dbMods...)
	if err != nil {
		return nil, err
	}

	aMsat := lnwire.NewMSatFromSatoshis(aliceBal)
	bMsat := lnwire.NewMSatFromSatoshis(bobBal)
	mkCommit := func(local, remote lnwire.MilliSatoshi, tx *wire.MsgTx) channeldb.ChannelCommitment {
		return channeldb.ChannelCommitment{
			CommitHeight:  0,
			LocalBalance:  local,
			RemoteBalance: remote,
			CommitFee:     commitFee,
			FeePerKw:      btcutil.Amount(feePerKw),
			CommitTx:      tx,
			CommitSig:     testSigBytes,
		}
	}

	shortChanID := lnwire.NewShortChanIDFromInt(r.U64())
	aliceState := &chanstate.OpenChannel{
		LocalChanCfg:            aliceCfg,
		RemoteChanCfg:           bobCfg,
		IdentityPub:             aliceKeys[0].PubKey(),
		FundingOutpoint:         *prevOut,
		ShortChannelID:          shortChanID,
		ChanType:                chanType,
		IsInitiator:             p.AliceOpener,
		Capacity:                capacity,
		RemoteCurrentRevocation: bobCommitPoint,
		RevocationProducer:      aliceProducer,
		RevocationStore:         shachain.NewRevocationStore(),
		LocalCommitment:         mkCommit(aMsat, bMsat, aliceCommitTx),
		RemoteCommitment:        mkCommit(aMsat, bMsat, bobCommitTx),
		Db:                      dbAlice.ChannelStateDB(),
		FundingTxn:              testTx,
		ThawHeight:              leaseExpiry,
	}
	bobState := &chanstate.OpenChannel{
		LocalChanCfg:            bobCfg,
		RemoteChanCfg:           aliceCfg,
		IdentityPub:             bobKeys[0].PubKey(),
		FundingOutpoint:         *prevOut,
		ShortChannelID:          shortChanID,
		ChanType:                chanType,
		IsInitiator:             !p.AliceOpener,
		Capacity:                capacity,
		RemoteCurrentRevocation: aliceCommitPoint,
		RevocationProducer:      bobProducer,
		RevocationStore:         shachain.NewRevocationStore(),
		LocalCommitment:         mkCommit(bMsat, aMsat, bobCommitTx),
		RemoteCommitment:        mkCommit(bMsat, aMsat, aliceCommitTx),
		Db:                      dbBob.ChannelStateDB(),
		FundingTxn:              testTx,
		ThawHeight:              leaseExpiry,
	}
	if chanType.HasTapscriptRoot() {
		var root chainhash.Hash
		copy(root[:], r.Bytes(32))
		aliceState.TapscriptRoot = fn.Some(root)
		bobState.TapscriptRoot = fn.Some(root)
	}

	aliceSigner := input.NewMockSigner(aliceKeys, nil)
	bobSigner := input.NewMockSigner(bobKeys, nil)
	alicePool := NewSigPool(1, aliceSigner)
	bobPool := NewSigPool(1, bobSigner)

	chA, err := NewLightningChannel(aliceSigner, aliceState, alicePool)
	if err != nil {
		return nil, fmt.Errorf("new channel alice: %w", err)
	}
	alicePool.Start()
	chB, err := NewLightningChannel(bobSigner, bobState, bobPool)
	if err != nil {
		return nil, fmt.Errorf("new channel bob: %w", err)
	}
	bobPool.Start()

	obfuscator := createStateHintObfuscator(aliceState)
	if err := SetStateNumHint(aliceCommitTx, 0, obfuscator); err != nil {
		return nil, err
	}
	if err := SetStateNumHint(bobCommitTx, 0, obfuscator); err != nil {
		return nil, err
	}

	addr := verifAddr(18556)
	if err := chA.channelState.SyncPending(addr, 101); err != nil {
		return nil, err
	}
	if err := chB.channelState.SyncPending(verifAddr(18555), 101); err != nil {
		return nil, err
	}
	if err := initRevocationWindows(chA, chB); err != nil {
		return nil, err
	}

	e.parties[0] = &verifE1Party{Name: "A", Idx: 0, ch: chA, signer: aliceSigner,
		pool: alicePool, db: dbAlice, backend: beAlice, dbDir: aliceDir,
		idPub: aliceKeys[0].PubKey(), root: *aliceRoot, heldTx: map[uint64]*wire.MsgTx{}}
	e.parties[1] = &verifE1Party{Name: "B", Idx: 1, ch: chB, signer: bobSigner,
		pool: bobPool, db: dbBob, backend: beBob, dbDir: bobDir,
		idPub: bobKeys[0].PubKey(), root: *bobRoot, heldTx: map[uint64]*wire.MsgTx{}}
	e.chanID = lnwire.NewChanIDFromOutPoint(*prevOut)
	e.fundingPkScript = chA.fundingOutput.PkScript
	return e, nil
}

func (e *verifE1) Close() {
	for _, p := range e.parties {
		if p == nil {
			continue
		}
		if p.pool != nil {
			p.pool.Stop()
		}
		if p.db != nil {
			p.db.Close()
		}
	}
	os.RemoveAll(e.dir)
}

func (e *verifE1) openerIdx() int {
	if e.p.AliceOpener {
		return 0
	}
	return 1
}

// ---------------------------------------------------------------------------
// message plumbing

func verifReencode(m lnwire.Message) (lnwire.Message, error) {
	var b bytes.Buffer
	if _, err := lnwire.WriteMessage(&b, m, 0); err != nil {
		return nil, fmt.Errorf("encode %T: %w", m, err)
	}
	out, err := lnwire.ReadMessage(bytes.NewReader(b.Bytes()), 0)
	if err != nil {
		return nil, fmt.Errorf("decode %T: %w", m, err)
	}
	return out, nil
}

func verifMsgBytes(m lnwire.Message) []byte {
	var b bytes.Buffer
	lnwire.WriteMessage(&b, m, 0)
	return b.Bytes()
}

func (e *verifE1) send(from int, m lnwire.Message, kind string) int {
	e.seq++
	e.q[from] = append(e.q[from], verifE1Msg{Seq: e.seq, Msg: m, Kind: kind})
	return e.seq
}

// isConstraint classifies an error as a channel-constraint outcome (not a
// disagreement between the peers).
func verifIsConstraint(err error) bool {
	if err == nil {
		return false
	}
	for _, c := range []error{ErrBelowChanReserve, ErrMaxHTLCNumber,
		ErrMaxPendingAmount, ErrBelowMinHTLC, ErrInvalidHTLCAmt,
		ErrFeeBufferNotInitiator, ErrMaxWeightCost} {

		if errors.Is(err, c) {
			return true
		}
	}
	s := err.Error()
	return strings.Contains(s, "below fee floor") ||
		strings.Contains(s, "cannot apply fee_update") ||
		strings.Contains(s, "insufficient") && strings.Contains(s, "balance")
}

func (e *verifE1) errClass(err error) string {
	var ce *InvalidCommitSigError
	var he *InvalidHtlcSigError
	var pe *InvalidPartialCommitSigError
	switch {
	case errors.As(err, &ce):
		return "InvalidCommitSigError"
	case errors.As(err, &he):
		return "InvalidHtlcSigError"
	case errors.As(err, &pe):
		return "InvalidPartialCommitSigError"
	}
	s := err.Error()
	if len(s) > 60 {
		s = s[:60]
	}
	return s
}

// ---------------------------------------------------------------------------
// observation helpers

func verifHasHtlc(htlcs []channeldb.HTLC, incoming bool, id uint64) bool {
	for i := range htlcs {
		if htlcs[i].Incoming == incoming && htlcs[i].HtlcIndex == id {
			return true
		}
	}
	return false
}

func (e *verifE1) liveHtlc(offerer int, id uint64) *verifE1Htlc {
	for i := len(e.htlcs) - 1; i >= 0; i-- {
		h := e.htlcs[i]
		if !h.Dead && h.Offerer == offerer && h.ID == id {
			return h
		}
	}
	return nil
}

// lockedIn: the HTLC is in both persisted tail commitments of the receiver,
// i.e. both sides have revoked every commitment without it.
func (e *verifE1) lockedIn(h *verifE1Htlc) bool {
	recv := e.parties[1-h.Offerer].ch.channelState
	return verifHasHtlc(recv.LocalCommitment.Htlcs, true, h.ID) &&
		verifHasHtlc(recv.RemoteCommitment.Htlcs, true, h.ID)
}

// resolvable: locked in, still in the receiver's remote log without a
// pending modification.
func (e *verifE1) resolvable(h *verifE1Htlc) bool {
	if h.Dead || h.Fate == verifFatePending || !e.lockedIn(h) {
		return false
	}
	recv := e.parties[1-h.Offerer].ch
	if recv.updateLogs.Remote.lookupHtlc(h.ID) == nil {
		return false
	}
	if recv.updateLogs.Remote.htlcHasModification(h.ID) {
		return false
	}
	return true
}

func (e *verifE1) inAnyCommit(h *verifE1Htlc) bool {
	for pi, p := range e.parties {
		incoming := pi != h.Offerer
		for _, c := range e.liveCommits(p) {
			for _, sh := range c.Htlcs {
				if sh.Offerer == h.Offerer && sh.ID == h.ID {
					_ = incoming
					return true
				}
			}
		}
	}
	return false
}

// refreshLedger updates observed life-cycle flags and marks HTLCs that were
// dropped by a reload (never signed) as dead so their ids can be reused.
func (e *verifE1) refreshLedger(afterReload bool) {
	inflight := 0
	for _, h := range e.htlcs {
		if h.Dead {
			continue
		}
		if e.lockedIn(h) {
			if !h.EverLocked {
				h.EverLocked = true
				e.everLocked++
			}
		}
		in := e.inAnyCommit(h)
		if in {
			h.SeenInCommit = true
			inflight++
		}
		if afterReload && !in {
			off := e.parties[h.Offerer].ch
			if off.updateLogs.Local.lookupHtlc(h.ID) == nil && !h.SeenInCommit {
				h.Dead = true
			}
		}
	}
	if inflight > e.maxInFlight {
		e.maxInFlight = inflight
	}
}

// ---------------------------------------------------------------------------
// actions

var verifOnion = func() [lnwire.OnionPacketSize]byte {
	var b [lnwire.OnionPacketSize]byte
	copy(b[:], bytes.Repeat([]byte{5}, lnwire.OnionPacketSize))
	return b
}()

// dustThresholds returns interesting sat amounts around both sides' trim
// thresholds for the current fee rate.
func (e *verifE1) dustThresholds() []int64 {
	var out []int64
	feeRate := int64(e.parties[0].ch.commitChains.Local.tip().feePerKw)
	for _, d := range []int64{e.p.DustA, e.p.DustB} {
		out = append(out, d)
		if !e.p.ChanType.ZeroHtlcTxFee() {
			tw, sw := int64(663), int64(703)
			if e.p.ChanType.HasAnchors() {
				tw, sw = 666, 706
			}
			out = append(out, d+tw*feeRate/1000, d+sw*feeRate/1000)
		}
	}
	return out
}

func (e *verifE1) genAmount(from int) lnwire.MilliSatoshi {
	r := e.r
	avail := e.parties[from].ch.AvailableBalance()
	switch r.Intn(10) {
	case 0:
		return 1
	case 1:
		return lnwire.MilliSatoshi(1 + r.Intn(999))
	case 2, 3, 4, 5:
		th := e.dustThresholds()
		t := th[r.Intn(len(th))]
		d := int64(r.Intn(3)) - 1
		amt := (t+d)*1000 + int64([]int{0, 0, 1, 999, 500}[r.Intn(5)])
		if amt <= 0 {
			amt = 1
		}
		e.sawDustBoundary = true
		return lnwire.MilliSatoshi(amt)
	case 6:
		if avail > 2000 {
			return avail - lnwire.MilliSatoshi(r.Intn(2000))
		}
		return 1000
	case 7:
		if avail > 10 {
			return lnwire.MilliSatoshi(r.U64n(uint64(avail))) + 1
		}
		return 1000
	default:
		return lnwire.MilliSatoshi(1000 * (1000 + r.Intn(100000)))
	}
}

func (e *verifE1) actAdd(from int) bool {
	r := e.r
	p := e.parties[from]
	h := &verifE1Htlc{Offerer: from}
	// exact duplicates of (hash, amount, expiry)
	var live []*verifE1Htlc
	for _, x := range e.htlcs {
		if !x.Dead {
			live = append(live, x)
		}
	}
	if e.forceAmt != 0 {
		h.Amt = e.forceAmt
		h.Expiry = uint32(400 + r.Intn(6))
		copy(h.Preimage[:], r.Bytes(32))
		h.Hash = sha256.Sum256(h.Preimage[:])
	} else if len(live) > 0 && r.Chance(1, 5) {
		src := live[r.Intn(len(live))]
		h.Amt, h.Expiry, h.Preimage, h.Hash = src.Amt, src.Expiry, src.Preimage, src.Hash
		// same hash and amount with a different expiry: the outputs tie
		// on value and script and are ordered by CLTV only (BOLT 3).
		if r.Bool() {
			h.Expiry = uint32(400 + r.Intn(6))
		}
		e.sawDuplicate = true
	} else {
		h.Amt = e.genAmount(from)
		h.Expiry = uint32(400 + r.Intn(6))
		copy(h.Preimage[:], r.Bytes(32))
		h.Hash = sha256.Sum256(h.Preimage[:])
	}
	h.Fate = []int{verifFateSettle, verifFateSettle, verifFateSettle, verifFateFail,
		verifFateFail, verifFateMalformed, verifFatePending}[r.Intn(7)]
	if e.noPendingFate && h.Fate == verifFatePending {
		h.Fate = verifFateSettle
	}
	if e.failOnlyFate && h.Fate == verifFateSettle {
		h.Fate = verifFateFail
	}
	if e.forceAmt != 0 {
		h.Fate = verifFateSettle
	}
	msg := &lnwire.UpdateAddHTLC{
		ChanID:      e.chanID,
		Amount:      h.Amt,
		Expiry:      h.Expiry,
		PaymentHash: h.Hash,
		OnionBlob:   verifOnion,
	}
	// optional TLV payload of update_add_htlc: blinding point and custom
	// records must survive the wire, the update log, the commit diff and
	// the commitment codec (C02 compares them after reload).
	if e.richAdds && r.Chance(1, 4) {
		_, pub := btcec.PrivKeyFromBytes(r.Bytes(32))
		msg.BlindingPoint = tlv.SomeRecordT(
			tlv.NewPrimitiveRecord[lnwire.BlindingPointTlvType](pub),
		)
	}
	if e.richAdds && r.Chance(1, 4) {
		msg.CustomRecords = lnwire.CustomRecords{
			uint64(lnwire.MinCustomRecordsTlvType + r.Intn(5)): r.Bytes(1 + r.Intn(40)),
		}
	}
	h.BP, h.CR = verifAddPayload(msg.BlindingPoint, msg.CustomRecords)
	var openKey *models.CircuitKey
	if r.Bool() {
		openKey = &models.CircuitKey{ChanID: lnwire.NewShortChanIDFromInt(uint64(7 + from)), HtlcID: uint64(len(e.htlcs))}
	}
	idx, err := p.ch.AddHTLC(msg, openKey)
	if err != nil {
		if verifIsConstraint(err) {
			e.vc.Count("add_rejected_constraint", 1)
			return false
		}
		e.viol("honest_call_error", "AddHTLC:"+e.errClass(err),
			fmt.Sprintf("AddHTLC(%s, amt=%d) failed: %v", p.Name, h.Amt, err))
		return false
	}
	msg.ID = idx
	h.ID = idx
	if old := e.liveHtlc(from, idx); old != nil {
		e.viol("htlc_id_reuse", "live-id-reused",
			fmt.Sprintf("AddHTLC(%s) returned id %d which is still live in the ledger", p.Name, idx))
		return false
	}
	e.htlcs = append(e.htlcs, h)
	e.send(from, msg, "add")
	e.unsigned[from] = append(e.unsigned[from], msg)
	e.nAdds++
	e.logf("add %s id=%d amt=%d exp=%d fate=%d", p.Name, idx, h.Amt, h.Expiry, h.Fate)
	return true
}

// shapeNonOpener lifts the non-opener's settled balance to exactly want msat
// with one HTLC from the opener that is settled and drained (the honest way to
// reach a chosen balance; only upwards: a party cannot pay itself below its
// reserve). Used by C17 to reach balances at a dust threshold +-1. Returns
// false when the balance could not be reached (constraint, already above).
func (e *verifE1) shapeNonOpener(want lnwire.MilliSatoshi) bool {
	oi := e.openerIdx()
	t := 1 - oi
	cur := e.parties[t].ch.channelState.LocalCommitment.LocalBalance
	if e.ended || want <= cur {
		return false
	}
	e.forceAmt = want - cur
	ok := e.actAdd(oi)
	e.forceAmt = 0
	if !ok {
		return false
	}
	for round := 0; round < 4 && !e.ended; round++ {
		if !e.drain(true, func(string) { e.checkStep() }) {
			break
		}
	}
	return !e.ended &&
		e.parties[t].ch.channelState.LocalCommitment.LocalBalance == want
}

// actResolve issues the fated resolution of h from its receiver.
func (e *verifE1) actResolve(h *verifE1Htlc) bool {
	recvIdx := 1 - h.Offerer
	p := e.parties[recvIdx]
	var (
		msg  lnwire.Message
		err  error
		kind string
	)
	// As the link does, name the forwarding-package slot of the add being
	// answered (known once the add was locked in by a revocation).
	var srcRef *channeldb.AddRef
	if ref, ok := e.addRefs[recvIdx][h.ID]; ok && !e.noSourceRefs {
		r := ref
		srcRef = &r
	}
	switch h.Fate {
	case verifFateSettle:
		err = p.ch.SettleHTLC(h.Preimage, h.ID, srcRef, nil, nil)
		msg = &lnwire.UpdateFulfillHTLC{ChanID: e.chanID, ID: h.ID, PaymentPreimage: h.Preimage}
		kind = "settle"
		e.nSettles++
	case verifFateFail:
		reason := []byte("verif-fail-reason")
		err = p.ch.FailHTLC(h.ID, reason, srcRef, nil, nil)
		msg = &lnwire.UpdateFailHTLC{ChanID: e.chanID, ID: h.ID, Reason: reason}
		kind = "fail"
		e.nFails++
	case verifFateMalformed:
		sha := sha256.Sum256(verifOnion[:])
		err = p.ch.MalformedFailHTLC(h.ID, lnwire.CodeInvalidOnionKey, sha, srcRef)
		msg = &lnwire.UpdateFailMalformedHTLC{ChanID: e.chanID, ID: h.ID,
			ShaOnionBlob: sha, FailureCode: lnwire.CodeInvalidOnionKey}
		kind = "malformed"
		e.nMalformed++
	default:
		return false
	}
	if err != nil {
		e.viol("honest_call_error", kind+":"+e.errClass(err),
			fmt.Sprintf("%s of locked-in htlc %d by %s failed: %v", kind, h.ID, p.Name, err))
		return false
	}
	h.ResolveSent++
	e.send(recvIdx, msg, kind)
	e.unsigned[recvIdx] = append(e.unsigned[recvIdx], msg)
	e.logf("%s %s htlc=%d(offerer %d)", kind, p.Name, h.ID, h.Offerer)
	return true
}

func (e *verifE1) actFee() bool {
	oi := e.openerIdx()
	p := e.parties[oi]
	cur := int64(p.ch.commitChains.Local.tip().feePerKw)
	cands := []int64{253, 500, 2500, 6000, 12500, 25000, cur + 1, cur * 2, cur / 2}
	rate := cands[e.r.Intn(len(cands))]
	if rate < 253 {
		rate = 253
	}
	if rate == cur {
		rate++
	}
	// The link validates affordability before sending an update_fee; an
	// honest opener never proposes a fee it cannot pay. Mirror that using
	// the channel's own dry-run API; a rejection is a constraint outcome.
	err := p.ch.UpdateFee(chainfee.SatPerKWeight(rate))
	if err != nil {
		if verifIsConstraint(err) {
			e.vc.Count("fee_rejected_constraint", 1)
			return false
		}
		e.viol("honest_call_error", "UpdateFee:"+e.errClass(err),
			fmt.Sprintf("UpdateFee(%d) failed: %v", rate, err))
		return false
	}
	msg := &lnwire.UpdateFee{ChanID: e.chanID, FeePerKw: uint32(rate)}
	e.send(oi, msg, "fee")
	e.unsigned[oi] = append(e.unsigned[oi], msg)
	e.nFees++
	e.logf("fee %s rate=%d", p.Name, rate)
	return true
}

func (e *verifE1) canSign(i int) bool {
	ch := e.parties[i].ch
	return ch.OweCommitment() && !ch.commitChains.Remote.hasUnackedCommitment()
}

func (e *verifE1) actSign(i int) bool {
	p := e.parties[i]
	if len(e.q[1-i]) > 0 {
		for _, m := range e.q[1-i] {
			if m.Kind == "sig" {
				e.sawAsyncSign = true
			}
		}
	}
	nc, err := p.ch.SignNextCommitment(context.Background())
	if err != nil {
		if err == ErrNoWindow {
			return false
		}
		if verifIsConstraint(err) {
			e.constraintTm = true
			e.ended = true
			e.endReason = "constraint at sign: " + err.Error()
			return false
		}
		e.viol("honest_call_error", "SignNextCommitment:"+e.errClass(err),
			fmt.Sprintf("SignNextCommitment(%s) failed: %v", p.Name, err))
		return false
	}
	cr, err := lnwire.ParseCustomRecords(nc.AuxSigBlob)
	if err != nil {
		e.viol("honest_call_error", "ParseCustomRecords", err.Error())
		return false
	}
	msg := &lnwire.CommitSig{ChanID: e.chanID, CommitSig: nc.CommitSig,
		HtlcSigs: nc.HtlcSigs, PartialSig: nc.PartialSig, CustomRecords: cr}
	seq := e.send(i, msg, "sig")
	e.lastSig[i] = &verifE1SigRec{Seq: seq, Covered: e.unsigned[i], Sig: msg}
	e.unsigned[i] = nil
	e.nSigns++
	e.logf("sign %s -> remote height %d (%d htlc sigs)", p.Name,
		p.ch.commitChains.Remote.tip().height, len(nc.HtlcSigs))
	return true
}

// deliver pops the head of q[from] and hands it to the peer. crashAfterRecv
// makes a commitment_signed be received but the process "dies" before
// RevokeCurrentCommitment (the caller restarts the receiver).
func (e *verifE1) actDeliver(from int, crashAfterRecv bool) (needRestart bool) {
	if len(e.q[from]) == 0 {
		return false
	}
	wm := e.q[from][0]
	e.q[from] = e.q[from][1:]
	to := 1 - from
	p := e.parties[to]
	m, err := verifReencode(wm.Msg)
	if err != nil {
		e.viol("honest_call_error", "wire-roundtrip:"+wm.Kind, err.Error())
		return false
	}
	e.nDelivers++
	fail := func(call string, err error) {
		if verifIsConstraint(err) {
			e.constraintTm = true
			e.ended = true
			e.endReason = "constraint at receiver " + call + ": " + err.Error()
			e.logf("constraint-terminated at %s: %v", call, err)
			return
		}
		e.viol("honest_msg_rejected", call+":"+e.errClass(err),
			fmt.Sprintf("%s.%s rejected an honestly produced message: %v", p.Name, call, err))
	}
	switch msg := m.(type) {
	case *lnwire.UpdateAddHTLC:
		if _, err := p.ch.ReceiveHTLC(msg); err != nil {
			fail("ReceiveHTLC", err)
		}
		e.logf("deliver add ->%s id=%d", p.Name, msg.ID)
	case *lnwire.UpdateFulfillHTLC:
		if err := p.ch.ReceiveHTLCSettle(msg.PaymentPreimage, msg.ID); err != nil {
			fail("ReceiveHTLCSettle", err)
		}
		e.logf("deliver settle ->%s id=%d", p.Name, msg.ID)
	case *lnwire.UpdateFailHTLC:
		if err := p.ch.ReceiveFailHTLC(msg.ID, msg.Reason); err != nil {
			fail("ReceiveFailHTLC", err)
		}
		e.logf("deliver fail ->%s id=%d", p.Name, msg.ID)
	case *lnwire.UpdateFailMalformedHTLC:
		// as the link does: convert into an encrypted-failure blob.
		if err := p.ch.ReceiveFailHTLC(msg.ID, []byte("malformed-converted")); err != nil {
			fail("ReceiveFailHTLC(malformed)", err)
		}
		e.logf("deliver malformed ->%s id=%d", p.Name, msg.ID)
	case *lnwire.UpdateFee:
		if err := p.ch.ReceiveUpdateFee(chainfee.SatPerKWeight(msg.FeePerKw)); err != nil {
			fail("ReceiveUpdateFee", err)
		}
		e.logf("deliver fee ->%s %d", p.Name, msg.FeePerKw)
	case *lnwire.CommitSig:
		blob, err := msg.CustomRecords.Serialize()
		if err != nil {
			e.viol("honest_call_error", "CustomRecords.Serialize", err.Error())
			return false
		}
		err = p.ch.ReceiveNewCommitment(&CommitSigs{CommitSig: msg.CommitSig,
			HtlcSigs: msg.HtlcSigs, PartialSig: msg.PartialSig, AuxSigBlob: blob})
		if err != nil {
			fail("ReceiveNewCommitment", err)
			return false
		}
		e.logf("deliver sig ->%s local height %d", p.Name, p.ch.commitChains.Local.tip().height)
		if crashAfterRecv {
			e.logf("crash %s between ReceiveNewCommitment and RevokeCurrentCommitment", p.Name)
			e.nMidCrash++
			if e.probeLiveSync {
				e.liveSyncProbe(to)
			}
			return true
		}
		rev, _, _, err := p.ch.RevokeCurrentCommitment()
		if err != nil {
			e.viol("honest_call_error", "RevokeCurrentCommitment:"+e.errClass(err),
				fmt.Sprintf("RevokeCurrentCommitment(%s) failed: %v", p.Name, err))
			return false
		}
		if e.lastSig[from] != nil && e.lastSig[from].Seq <= wm.Seq {
			e.lastSig[from].Processed = true
		}
		e.noteRelease(to, rev, "revoke")
		seq := e.send(to, rev, "rev")
		e.lastRev[to] = &verifE1RevRec{Seq: seq, Rev: rev}
		e.recordHeld(to)
	case *lnwire.RevokeAndAck:
		fwdPkg, _, err := p.ch.ReceiveRevocation(msg)
		if err != nil {
			fail("ReceiveRevocation", err)
			return false
		}
		if fwdPkg != nil {
			e.fwdPkgs[to] = append(e.fwdPkgs[to], verifFwdPkgRec{Height: fwdPkg.Height,
				Adds: len(fwdPkg.Adds), SettleFails: len(fwdPkg.SettleFails)})
			if e.addRefs[to] == nil {
				e.addRefs[to] = map[uint64]channeldb.AddRef{}
			}
			for idx, lu := range fwdPkg.Adds {
				if add, ok := lu.UpdateMsg.(*lnwire.UpdateAddHTLC); ok {
					e.addRefs[to][add.ID] = channeldb.AddRef{Height: fwdPkg.Height, Index: uint16(idx)}
				}
			}
		}
		if e.lastRev[from] != nil {
			e.lastRev[from].Processed = true
		}
		e.logf("deliver rev ->%s remote tail %d", p.Name, p.ch.commitChains.Remote.tail().height)
	default:
		e.viol("honest_call_error", "unknown-msg", fmt.Sprintf("%T", m))
	}
	return false
}

// liveSyncProbe: party i has received (not yet revoked for) a new commitment,
// which therefore exists in memory only. A channel_reestablish of the peer is
// processed on this LIVE object (the object is discarded right afterwards):
// whatever revoke_and_ack it hands out must be for a commitment older than
// the one a reload from disk would broadcast (C06 release rule, "on
// reconnect").
func (e *verifE1) liveSyncProbe(i int) {
	p := e.parties[i]
	peer := e.parties[1-i]
	sync, err := peer.ch.channelState.ChanSyncMsg()
	if err != nil {
		return
	}
	msgs, _, _, err := p.ch.ProcessChanSyncMsg(context.Background(), sync)
	e.vc.Count("live_sync_probes", 1)
	if err != nil {
		// an error on a live, half-updated object is not judged.
		e.vc.Count("live_sync_probe_errors", 1)
		return
	}
	durable := p.ch.channelState.LocalCommitment.CommitHeight
	for _, m := range msgs {
		rev, ok := m.(*lnwire.RevokeAndAck)
		if !ok {
			continue
		}
		e.vc.Count("oracle_live_sync_release", 1)
		for h := int64(durable) + 2; h >= 0 && h >= int64(durable)-3; h-- {
			if verifShaDerive(p.root, uint64(h)) == rev.Revocation {
				if uint64(h) >= durable {
					e.viol("release_only_when_durable", "live-reconnect-mid-handler",
						fmt.Sprintf("%s, holding a received but not yet revoked-for commitment, released the secret of height %d on reconnect while its durable commitment is still height %d",
							p.Name, h, durable))
				}
				break
			}
		}
	}
}

// noteRelease records a revocation handed out by the API. The height it
// revokes is identified through the harness's own shachain derivation.
func (e *verifE1) noteRelease(i int, rev *lnwire.RevokeAndAck, via string) {
	p := e.parties[i]
	rel := verifE1Released{Secret: rev.Revocation, Next: rev.NextRevocationKey, Via: via, Height: ^uint64(0)}
	// the local height is at most a few above; search downwards from it.
	cur := p.ch.channelState.LocalCommitment.CommitHeight
	for h := int64(cur) + 1; h >= 0 && h >= int64(cur)-3; h-- {
		s := verifShaDerive(p.root, uint64(h))
		if s == rel.Secret {
			rel.Height = uint64(h)
			break
		}
	}
	p.released = append(p.released, rel)
	if e.hooks.onRelease != nil {
		e.hooks.onRelease(e, i, rel)
	}
}

// recordHeld stores the fully signed commitment the party now holds as its
// current one (used by the breach/force-close monitors).
func (e *verifE1) recordHeld(i int) {
	p := e.parties[i]
	h := p.ch.channelState.LocalCommitment.CommitHeight
	if _, ok := p.heldTx[h]; ok {
		return
	}
	tx, err := p.ch.getSignedCommitTx()
	if err != nil {
		return
	}
	p.heldTx[h] = tx
}

// ---------------------------------------------------------------------------
// reload / reconnect

func (e *verifE1) reload(i int) bool {
	p := e.parties[i]
	reopened := p.reopenKind != 0
	if p.reopenKind != 0 && verifSqliteReopen != nil {
		if err := verifSqliteReopen(e, i); err != nil {
			e.vc.t.Fatalf("backend restart of %s: %v", p.Name, err)
		}
	}
	chans, err := p.db.ChannelStateDB().FetchOpenChannels(p.idPub)
	if err != nil || len(chans) != 1 {
		e.viol("reload_error", "FetchOpenChannels",
			fmt.Sprintf("FetchOpenChannels(%s): n=%d err=%v", p.Name, len(chans), err))
		return false
	}
	var nc *LightningChannel
	panicked := e.vc.Guard("reload_error", "NewLightningChannel-panic", e.witness(), func() {
		nc, err = NewLightningChannel(p.signer, chans[0], p.pool)
	})
	if panicked {
		e.ended = true
		return false
	}
	if err != nil {
		e.viol("reload_error", "NewLightningChannel:"+e.errClass(err),
			fmt.Sprintf("NewLightningChannel(%s) after reload failed: %v", p.Name, err))
		return false
	}
	p.ch = nc
	if e.foreignWriters && (p.stale == nil || reopened) {
		e.loadStale(i)
	}
	return true
}

// enableForeign switches on the foreign-writer actions and loads each party's
// stale instance now (i.e. at "node start").
func (e *verifE1) enableForeign() {
	e.foreignWriters = true
	for i := range e.parties {
		e.loadStale(i)
	}
}

func (e *verifE1) loadStale(i int) {
	p := e.parties[i]
	chans, err := p.db.ChannelStateDB().FetchOpenChannels(p.idPub)
	if err != nil || len(chans) != 1 {
		e.vc.t.Fatalf("loadStale(%s): n=%d err=%v", p.Name, len(chans), err)
	}
	p.stale = chans[0]
}

// actForeign: a subsystem other than the link (funding manager on the first
// confirmation of a zero-conf channel, chain watcher, ...) records a channel
// marker through ITS OWN OpenChannel instance, which was loaded when the node
// started and has not seen the commitment updates made since. The write must
// not disturb anything the commitment state machine has made durable: the
// caller follows it with a reload fork (durable equality, released-secret
// safety), see checkForeign.
func (e *verifE1) actForeign(i int) bool {
	p := e.parties[i]
	if p.stale == nil {
		return false
	}
	var err error
	var what string
	switch e.r.Intn(4) {
	case 0:
		h := uint32(100 + e.r.Intn(1000))
		what = fmt.Sprintf("MarkConfirmationHeight(%d)", h)
		err = p.stale.MarkConfirmationHeight(h)
	case 1:
		scid := lnwire.NewShortChanIDFromInt(uint64(100+e.r.Intn(1000))<<40 | 1<<16)
		what = "MarkRealScid"
		err = p.stale.MarkRealScid(scid)
	case 2:
		what = "MarkAsOpen"
		err = p.stale.MarkAsOpen(p.stale.ShortChannelID)
	default:
		what = "MarkCloseConfirmationHeight(none)"
		err = p.stale.MarkCloseConfirmationHeight(fn.None[uint32]())
	}
	e.nForeign++
	e.vc.Count("foreign_marker_writes", 1)
	e.logf("foreign %s %s (stale instance at local height %d, live at %d)", p.Name, what,
		p.stale.LocalCommitment.CommitHeight, p.ch.channelState.LocalCommitment.CommitHeight)
	if err != nil {
		e.viol("honest_call_error", "foreign:"+what[:4]+":"+e.errClass(err),
			fmt.Sprintf("%s on %s's stale instance: %v", what, p.Name, err))
		return true
	}
	if p.stale.LocalCommitment.CommitHeight != p.ch.channelState.LocalCommitment.CommitHeight ||
		p.stale.RemoteCommitment.CommitHeight != p.ch.channelState.RemoteCommitment.CommitHeight {

		e.vc.Count("foreign_writes_on_really_stale_instance", 1)
	}
	e.checkFork(i)
	return true
}

// reconnect: drop both queues, reload both sides, exchange channel_reestablish
// and enqueue what each side retransmits (as link.syncChanStates does).
func (e *verifE1) reconnect(label string, stripDLP bool) bool {
	e.logf("%s: dropping %d+%d in-flight messages", label, len(e.q[0]), len(e.q[1]))
	e.q[0], e.q[1] = nil, nil
	e.unsigned[0], e.unsigned[1] = nil, nil
	for i := 0; i < 2; i++ {
		if !e.reload(i) {
			return false
		}
	}
	e.refreshLedger(true)

	var sync [2]*lnwire.ChannelReestablish
	for i := 0; i < 2; i++ {
		m, err := e.parties[i].ch.channelState.ChanSyncMsg()
		if err != nil {
			e.viol("sync_error", "ChanSyncMsg:"+e.errClass(err),
				fmt.Sprintf("ChanSyncMsg(%s): %v", e.parties[i].Name, err))
			return false
		}
		rm, err := verifReencode(m)
		if err != nil {
			e.viol("honest_call_error", "wire-roundtrip:reestablish", err.Error())
			return false
		}
		sync[i] = rm.(*lnwire.ChannelReestablish)
		if stripDLP {
			sync[i].LocalUnrevokedCommitPoint = nil
			sync[i].LastRemoteCommitSecret = [32]byte{}
		}
	}
	var resend [2][]lnwire.Message
	for i := 0; i < 2; i++ {
		p := e.parties[i]
		msgs, _, _, err := p.ch.ProcessChanSyncMsg(context.Background(), sync[1-i])
		if e.hooks.onSync != nil {
			e.hooks.onSync(e, i, msgs, err)
		}
		if err != nil && verifIsConstraint(err) {
			// ProcessChanSyncMsg signs a fresh commitment when it owes
			// one; a constraint rejection there is the same
			// simultaneous-update hazard as at an ordinary sign.
			e.constraintTm = true
			e.ended = true
			e.endReason = "constraint inside ProcessChanSyncMsg: " + err.Error()
			return false
		}
		if err != nil {
			e.viol("sync_error", "ProcessChanSyncMsg:"+e.errClass(err),
				fmt.Sprintf("ProcessChanSyncMsg(%s) on an honest reestablish failed: %v (msg=%+v)",
					p.Name, err, *sync[1-i]))
			return false
		}
		resend[i] = msgs
	}
	for i := 0; i < 2; i++ {
		if e.on("retransmit_exact") {
			e.checkRetransmission(i, resend[i])
		}
		var covered []lnwire.Message
		for _, m := range resend[i] {
			switch mm := m.(type) {
			case *lnwire.CommitSig:
				seq := e.send(i, mm, "sig")
				if e.lastSig[i] != nil && !e.lastSig[i].Processed {
					e.lastSig[i].Seq = seq
					e.lastSig[i].Sig = mm
				} else {
					// fresh signature issued together with a retransmitted revocation
					e.lastSig[i] = &verifE1SigRec{Seq: seq, Covered: covered, Sig: mm}
				}
				covered = nil
			case *lnwire.RevokeAndAck:
				e.noteRelease(i, mm, "sync")
				seq := e.send(i, mm, "rev")
				if e.lastRev[i] != nil {
					e.lastRev[i].Seq = seq
				} else {
					e.lastRev[i] = &verifE1RevRec{Seq: seq, Rev: mm}
				}
			default:
				e.send(i, m, "upd")
				covered = append(covered, m)
			}
		}
	}
	return !e.ended
}

// checkRetransmission: C03 oracle 2 — exactly the missing messages, updates
// before their signature, and signature/revocation in original relative
// order.
func (e *verifE1) checkRetransmission(i int, got []lnwire.Message) {
	p := e.parties[i]
	e.vc.Count("retransmit_checks", 1)
	var expect []lnwire.Message
	sig := e.lastSig[i]
	rev := e.lastRev[i]
	needSig := sig != nil && !sig.Processed
	needRev := rev != nil && !rev.Processed
	var sigPart []lnwire.Message
	if needSig {
		// lnd keeps at most one not-yet-committed update_fee in its log:
		// a newer one replaces the rate of the pending entry (same
		// position, same log index). The retransmitted update stream
		// therefore carries one update_fee at the first one's position
		// with the last one's rate; the peer forgot every unsigned
		// update, so this is exactly what it is missing.
		first := -1
		var cov []lnwire.Message
		for _, m := range sig.Covered {
			if f, ok := m.(*lnwire.UpdateFee); ok {
				if first < 0 {
					first = len(cov)
					cp := *f
					cov = append(cov, &cp)
				} else {
					cov[first].(*lnwire.UpdateFee).FeePerKw = f.FeePerKw
				}
				continue
			}
			cov = append(cov, m)
		}
		sigPart = append(sigPart, cov...)
		sigPart = append(sigPart, sig.Sig)
	}
	switch {
	case needSig && needRev && rev.Seq < sig.Seq:
		expect = append(expect, rev.Rev)
		expect = append(expect, sigPart...)
	case needSig && needRev:
		expect = append(expect, sigPart...)
		expect = append(expect, rev.Rev)
	case needSig:
		expect = sigPart
	case needRev:
		expect = []lnwire.Message{rev.Rev}
	}
	desc := func(ms []lnwire.Message) string {
		var s []string
		for _, m := range ms {
			s = append(s, fmt.Sprintf("%T", m))
		}
		return strings.Join(s, ",")
	}
	// Allowed extra: a fresh signature (with nothing the peer had seen
	// signed before) when a revocation is retransmitted and we owed one.
	g := got
	if needRev && !needSig && len(g) >= 2 {
		if _, ok := g[len(g)-1].(*lnwire.CommitSig); ok {
			e.vc.Count("retransmit_fresh_sig", 1)
			g = g[:1]
			// ... and only when something was owed: the freshly
			// signed commitment (now the persisted remote tip) must
			// cover updates of ours or differ from the peer's
			// current commitment; a signature over an unchanged
			// commitment is not something the peer was missing.
			st := p.ch.channelState
			if diff, err := st.RemoteCommitChainTip(); err == nil && diff != nil {
				tail, tip := &st.RemoteCommitment, &diff.Commitment
				// (an update may leave the transaction unchanged, e.g.
				// an update_fee repeating the current rate, so what is
				// compared is how far into either update log the two
				// commitments reach)
				same := len(diff.LogUpdates) == 0 &&
					tail.LocalLogIndex == tip.LocalLogIndex &&
					tail.RemoteLogIndex == tip.RemoteLogIndex
				if same {
					e.viol("retransmit_exact", "fresh-sig-over-unchanged-commitment",
						fmt.Sprintf("%s sent a fresh commitment_signed together with its retransmitted "+
							"revocation although nothing was owed: the new remote commitment h=%d covers no update "+
							"beyond h=%d (log indexes %d/%d) (got [%s])", p.Name, tip.CommitHeight, tail.CommitHeight,
							tip.LocalLogIndex, tip.RemoteLogIndex, desc(got)))
					return
				}
			}
		}
	}
	if len(g) != len(expect) {
		e.viol("retransmit_exact", fmt.Sprintf("count:%d!=%d", len(g), len(expect)),
			fmt.Sprintf("%s retransmitted [%s], expected [%s]", p.Name, desc(got), desc(expect)))
		return
	}
	if len(expect) > 0 {
		e.vc.Count("retransmit_nonempty", 1)
	}
	for k := range expect {
		if !verifSameWire(e.p.ChanType, expect[k], g[k]) {
			e.viol("retransmit_exact", fmt.Sprintf("mismatch:%T", expect[k]),
				fmt.Sprintf("%s retransmission #%d differs: got %T %x want %T %x (all got [%s] want [%s])",
					p.Name, k, g[k], verifMsgBytes(g[k]), expect[k], verifMsgBytes(expect[k]),
					desc(got), desc(expect)))
			return
		}
	}
}

func verifSameWire(ct channeldb.ChannelType, a, b lnwire.Message) bool {
	switch x := a.(type) {
	case *lnwire.CommitSig:
		y, ok := b.(*lnwire.CommitSig)
		if !ok {
			return false
		}
		if ct.IsTaproot() {
			// musig2 partial signature is re-made with fresh nonces.
			if len(x.HtlcSigs) != len(y.HtlcSigs) {
				return false
			}
			for i := range x.HtlcSigs {
				if !bytes.Equal(x.HtlcSigs[i].RawBytes(), y.HtlcSigs[i].RawBytes()) {
					return false
				}
			}
			return true
		}
	case *lnwire.RevokeAndAck:
		y, ok := b.(*lnwire.RevokeAndAck)
		if !ok {
			return false
		}
		return x.Revocation == y.Revocation && x.NextRevocationKey.IsEqual(y.NextRevocationKey)
	}
	return bytes.Equal(verifMsgBytes(a), verifMsgBytes(b))
}

// ---------------------------------------------------------------------------
// drain to quiescence

func (e *verifE1) quiescent() bool {
	if len(e.q[0]) > 0 || len(e.q[1]) > 0 {
		return false
	}
	for i := 0; i < 2; i++ {
		ch := e.parties[i].ch
		if ch.OweCommitment() || ch.commitChains.Remote.hasUnackedCommitment() {
			return false
		}
	}
	return true
}

// drain delivers and signs until nothing is in flight. When resolve is set,
// fated resolutions of locked-in HTLCs are issued as well.
func (e *verifE1) drain(resolve bool, after func(label string)) bool {
	for step := 0; step < 400 && !e.ended; step++ {
		progressed := false
		for i := 0; i < 2 && !e.ended; i++ {
			for len(e.q[i]) > 0 && !e.ended {
				e.actDeliver(i, false)
				progressed = true
				if after != nil {
					after("drain-deliver")
				}
			}
		}
		if e.ended {
			return false
		}
		e.refreshLedger(false)
		if resolve {
			for _, h := range e.htlcs {
				if e.resolvable(h) {
					if e.actResolve(h) {
						progressed = true
					}
					if e.ended {
						return false
					}
				}
			}
		}
		for i := 0; i < 2 && !e.ended; i++ {
			if e.canSign(i) {
				if e.actSign(i) {
					progressed = true
					if after != nil {
						after("drain-sign")
					}
				}
			}
		}
		if !progressed {
			break
		}
	}
	if e.ended {
		return false
	}
	if !e.quiescent() {
		e.viol("bounded_progress", "drain-stuck",
			fmt.Sprintf("drain did not reach quiescence: q=%d/%d oweA=%v oweB=%v",
				len(e.q[0]), len(e.q[1]), e.parties[0].ch.OweCommitment(), e.parties[1].ch.OweCommitment()))
		return false
	}
	return true
}

// ---------------------------------------------------------------------------
// random schedule step

// burst adds up to n HTLCs in a row from one side (large commitments).
func (e *verifE1) burst(from, n int) {
	for k := 0; k < n && !e.ended; k++ {
		if !e.actAdd(from) {
			break
		}
	}
}

// step performs one PRNG-chosen enabled action; returns its label.
func (e *verifE1) step(allowFee bool) string {
	r := e.r
	e.refreshLedger(false)
	if e.foreignWriters && r.Chance(1, 10) {
		if e.actForeign(r.Intn(2)) {
			return "foreign"
		}
	}
	for try := 0; try < 8; try++ {
		switch r.Intn(12) {
		case 0, 1, 2:
			i := r.Intn(2)
			if e.actAdd(i) {
				return "add"
			}
		case 3, 4:
			var cands []*verifE1Htlc
			for _, h := range e.htlcs {
				if e.resolvable(h) {
					cands = append(cands, h)
				}
			}
			if len(cands) > 0 {
				if e.actResolve(cands[r.Intn(len(cands))]) {
					return "resolve"
				}
			}
		case 5:
			if allowFee && r.Chance(1, 3) {
				if e.actFee() {
					return "fee"
				}
			}
		case 6, 7:
			i := r.Intn(2)
			if e.canSign(i) {
				if e.actSign(i) {
					return "sign"
				}
			} else if e.canSign(1 - i) {
				if e.actSign(1 - i) {
					return "sign"
				}
			}
		default:
			i := r.Intn(2)
			if len(e.q[i]) == 0 {
				i = 1 - i
			}
			if len(e.q[i]) > 0 {
				e.actDeliver(i, false)
				return "deliver"
			}
		}
		if e.ended {
			return "ended"
		}
	}
	return "noop"
}

func (e *verifE1) signature() string {
	return verifJoin(e.p.TypeName, e.p.AliceOpener,
		verifBucket(e.nAdds), verifBucket(e.nSettles), verifBucket(e.nFails+e.nMalformed),
		verifBucket(e.nFees), verifBucket(e.maxInFlight), e.sawDustBoundary, e.sawDuplicate,
		e.sawAsyncSign, verifBucket(e.nRestarts), verifBucket(e.nDisconnects), verifBucket(e.nMidCrash))
}

func verifBucket(n int) int {
	switch {
	case n == 0:
		return 0
	case n <= 2:
		return 1
	case n <= 6:
		return 2
	case n <= 15:
		return 3
	}
	return 4
}

// verifShaDerive re-implements the BOLT-3 per-commitment secret derivation
// (independent of lnd's shachain package). lnd's index i corresponds to the
// BOLT-3 index 2^48-1-i.
func verifShaDerive(seed chainhash.Hash, index uint64) [32]byte {
	I := (uint64(1)<<48 - 1) - index
	p := [32]byte(seed)
	for b := 47; b >= 0; b-- {
		if I&(1<<uint(b)) != 0 {
			p[b/8] ^= 1 << uint(b%8)
			p = sha256.Sum256(p[:])
		}
	}
	return p
}
