package lnwallet

// Exported facade of the shared C05 parts (c05_shared_test.go, overlaid as a
// non-test file) for the contractcourt unit of C05. Only compiled into builds
// that list it under "exports".

import (
	"github.com/btcsuite/btcd/wire/v2"
	"github.com/lightningnetwork/lnd/channeldb"
	"github.com/lightningnetwork/lnd/input"
)

const VerifC05Height = verifC05Height

type VerifC05SpendOpt = verifC05SpendOpt

// VerifC05Spend: see verifC05SpendX.
func VerifC05Spend(signer input.Signer, inp input.Input, realPrev *wire.TxOut,
	opt VerifC05SpendOpt) (*wire.MsgTx, error, error) {

	return verifC05SpendX(signer, inp, realPrev, opt)
}

func VerifC05TxHex(tx *wire.MsgTx) string { return verifC05TxHex(tx) }

// VerifC05Schedule: see verifC05Schedule.
func VerifC05Schedule(vc *VerifCtx, i int,
	fn func(e *VerifE1, who int, fk *VerifForkHandle, afterReload bool)) {

	verifC05Schedule(vc, i, func(e *verifE1, who int, fk *verifFork, afterReload bool) {
		fn(e, who, &VerifForkHandle{f: fk}, afterReload)
	})
}

// VerifC05Ledger returns the ledger entry of an HTLC of a commitment held by
// party i.
func (e *verifE1) VerifC05Ledger(i int, h *channeldb.HTLC) (VerifHtlcInfo, bool) {
	lh := e.verifC05Ledger(i, h)
	if lh == nil {
		return VerifHtlcInfo{}, false
	}
	return VerifHtlcInfo{Offerer: lh.Offerer, ID: lh.ID, Amt: lh.Amt, Expiry: lh.Expiry,
		Preimage: lh.Preimage, Hash: lh.Hash, Fate: lh.Fate, Dead: lh.Dead,
		EverLocked: lh.EverLocked}, true
}

// VerifC05Faults: number of restarts + disconnects so far.
func (e *verifE1) VerifC05Faults() int { return e.nRestarts + e.nDisconnects }

// VerifC05TraceTail returns the last n trace lines.
func (e *verifE1) VerifC05TraceTail(n int) []string {
	tr := e.trace
	if len(tr) > n {
		tr = tr[len(tr)-n:]
	}
	return tr
}

func VerifBucket(n int) int { return verifBucket(n) }
func VerifJoin(parts ...any) string { return verifJoin(parts...) }

// VerifC05SetOnLoad installs the hook called whenever both parties of a C05
// schedule have just been loaded from disk (creation, restart, disconnect).
func VerifC05SetOnLoad(f func(e *VerifE1)) {
	if f == nil {
		verifC05OnLoad = nil
		return
	}
	verifC05OnLoad = func(e *verifE1) { f(e) }
}
