package lnwallet

// C05, parts shared by the lnwallet unit (c05_test.go) and - through
// c05_export.go - by the contractcourt unit (c05cc_test.go): constants, the
// sweep-transaction builder + interpreter call, and the schedule driver that
// decides at which states a fork of which party is closed.

import (
	"bytes"
	"crypto/sha256"
	"encoding/hex"
	"fmt"

	"github.com/btcsuite/btcd/chainhash/v2"
	"github.com/btcsuite/btcd/txscript/v2"
	"github.com/btcsuite/btcd/wire/v2"
	"github.com/lightningnetwork/lnd/channeldb"
	"github.com/lightningnetwork/lnd/input"
)

// to_self_delay of party 0 / party 1 as fixed by the engine's constructor
// (mkCfg(aliceKeys, ..., 5), mkCfg(bobKeys, ..., 4)). Used for the negative
// controls so that they do not depend on any value lnd reports.
var verifC05Csv = [2]uint32{5, 4}

const verifC05Height = 500 // "confirmation height" handed to lnd

// ---------------------------------------------------------------------------
// transaction construction (mirror of sweep/txgenerator.go createSweepTx)

var verifC05WalletOut = &wire.TxOut{
	Value: 250000,
	PkScript: append([]byte{txscript.OP_0, 20},
		bytes.Repeat([]byte{0x42}, 20)...),
}

var verifC05WalletOp = wire.OutPoint{
	Hash:  chainhash.Hash{0x77, 0x01, 0x02, 0x03},
	Index: 3,
}

func verifC05TxHex(tx *wire.MsgTx) string {
	var b bytes.Buffer
	if err := tx.Serialize(&b); err != nil {
		return "?"
	}
	s := hex.EncodeToString(b.Bytes())
	if len(s) > 1600 {
		s = s[:1600] + "..."
	}
	return s
}

// verifC05SpendOpt: Wallet adds a second (wallet) input and a change output,
// as the sweeper does for SINGLE|ANYONECANPAY second-level inputs; Seq / Lock
// override the input's own BlocksToMaturity / RequiredLockTime (negative
// controls only).
type verifC05SpendOpt struct {
	Wallet bool
	Seq    *uint32
	Lock   *uint32
}

// verifC05SpendX builds the sweep transaction for one input the way the
// sweeper does (version 2, sequence = BlocksToMaturity, locktime =
// RequiredLockTime or a current height, RequiredTxOut at the input's index,
// signing prevout fetcher from the inputs' own SignDesc outputs), lets lnd
// craft the input script and runs input 0 through the interpreter against
// realPrev (the output of the really confirmed transaction).
// Returns (tx, craft error, interpreter error).
func verifC05SpendX(signer input.Signer, inp input.Input, realPrev *wire.TxOut,
	opt verifC05SpendOpt) (*wire.MsgTx, error, error) {

	tx := wire.NewMsgTx(2)
	seq := inp.BlocksToMaturity()
	if opt.Seq != nil {
		seq = *opt.Seq
	}
	tx.AddTxIn(&wire.TxIn{PreviousOutPoint: inp.OutPoint(), Sequence: seq})
	if req := inp.RequiredTxOut(); req != nil {
		tx.AddTxOut(req)
	}
	if inp.SignDesc() == nil || inp.SignDesc().Output == nil {
		return tx, fmt.Errorf("input carries no sign descriptor output"), nil
	}
	signFetcher := txscript.NewMultiPrevOutFetcher(nil)
	signFetcher.AddPrevOut(inp.OutPoint(), inp.SignDesc().Output)
	realFetcher := txscript.NewMultiPrevOutFetcher(nil)
	realFetcher.AddPrevOut(inp.OutPoint(), realPrev)
	if opt.Wallet {
		tx.AddTxIn(&wire.TxIn{PreviousOutPoint: verifC05WalletOp})
		signFetcher.AddPrevOut(verifC05WalletOp, verifC05WalletOut)
		realFetcher.AddPrevOut(verifC05WalletOp, verifC05WalletOut)
	}
	change := realPrev.Value
	if inp.RequiredTxOut() != nil || opt.Wallet {
		change = verifC05WalletOut.Value - 1000
	}
	tx.AddTxOut(&wire.TxOut{Value: change, PkScript: verifC05WalletOut.PkScript})
	tx.LockTime = verifC05Height + 20
	if lt, ok := inp.RequiredLockTime(); ok {
		tx.LockTime = lt
	}
	if opt.Lock != nil {
		tx.LockTime = *opt.Lock
	}
	hc := txscript.NewTxSigHashes(tx, signFetcher)
	script, err := inp.CraftInputScript(signer, tx, hc, signFetcher, 0)
	if err != nil {
		return tx, fmt.Errorf("CraftInputScript: %w", err), nil
	}
	tx.TxIn[0].Witness = script.Witness
	if len(script.SigScript) != 0 {
		tx.TxIn[0].SignatureScript = script.SigScript
	}
	return tx, nil, verifExec(realPrev.PkScript, realPrev.Value, tx, 0, realFetcher)
}

func verifC05Spend(signer input.Signer, inp input.Input, realPrev *wire.TxOut,
	withWallet bool) (*wire.MsgTx, error, error) {

	return verifC05SpendX(signer, inp, realPrev, verifC05SpendOpt{Wallet: withWallet})
}

// ---------------------------------------------------------------------------
// ledger

// verifC05Ledger finds the ledger entry (preimage, expiry) of an HTLC of a
// commitment held by party i; nil when the ledger cannot vouch for it.
func (e *verifE1) verifC05Ledger(i int, h *channeldb.HTLC) *verifE1Htlc {
	off := i
	if h.Incoming {
		off = 1 - i
	}
	lh := e.findHtlc(off, h.HtlcIndex, h.Amt)
	if lh == nil {
		return nil
	}
	if lh.Hash != h.RHash || sha256.Sum256(lh.Preimage[:]) != lh.Hash {
		return nil
	}
	return lh
}

// ---------------------------------------------------------------------------
// schedule driver

// verifC05PendingWindow: party i signed a remote commitment that is not yet
// revoked and the peer already holds it fully signed.
func (e *verifE1) verifC05PendingWindow(i int) bool {
	rc := e.parties[i].ch.commitChains.Remote
	if !rc.hasUnackedCommitment() {
		return false
	}
	return e.parties[1-i].heldTx[rc.tip().height] != nil
}

// verifC05Checker is called at every check point with a fresh fork of party
// who; the schedule continues on the live objects afterwards.
type verifC05Checker func(e *verifE1, who int, fk *verifFork, afterReload bool)

// verifC05Schedule runs case i: an E1 schedule with PRNG restarts (also
// between ReceiveNewCommitment and RevokeCurrentCommitment) and disconnects;
// check points are chosen by an independent PRNG stream: boosted while a
// pending-remote window is open, right after a reconnect/reload, with a base
// probability after every other action, and both parties at the final
// quiescent state.
// verifC05OnLoad, if set, is called when both parties have just been loaded
// from disk: after the channel pair has been created and after every
// restart/disconnect of the schedule (the contractcourt unit loads the chain
// watchers' own channel state instances there).
var verifC05OnLoad func(e *verifE1)

func verifC05Loaded(e *verifE1) {
	if verifC05OnLoad != nil && !e.ended {
		verifC05OnLoad(e)
	}
}

func verifC05Schedule(vc *verifCtx, i int, fn verifC05Checker) {
	r := vc.Rng(i)
	p := verifE1GenParams(r)
	nActions := 30 + r.Intn(45)
	cr := r.Fork("c05")
	restartPct := 2 + cr.Intn(6)
	checkPct := 8 + cr.Intn(10)
	vc.Case(i, map[string]any{"params": p, "actions": nActions,
		"restartPct": restartPct, "checkPct": checkPct})
	e, err := verifE1New(vc, r, p)
	if err != nil {
		vc.Count("setup_skipped", 1)
		vc.CaseDone(i)
		return
	}
	defer e.Close()
	e.oracles = map[string]bool{"tx_exact": false}
	verifC05Loaded(e)
	const maxChecks = 7
	checks := 0
	force := false
	check := func(who int, reload bool) {
		if e.ended || (checks >= maxChecks && !force) {
			return
		}
		checks++
		vc.Count("forks", 1)
		fk := e.fork(who, "fork_reload_error")
		if fk == nil {
			return
		}
		defer fk.Close()
		fn(e, who, fk, reload)
	}
	for a := 0; a < nActions && !e.ended; a++ {
		if cr.Intn(100) < restartPct {
			who := cr.Intn(2)
			done := false
			if cr.Chance(1, 3) {
				for d := 0; d < 2 && !done; d++ {
					from := (who + d) % 2
					if len(e.q[from]) > 0 && e.q[from][0].Kind == "sig" {
						if e.actDeliver(from, true) {
							e.nRestarts++
							e.reconnect(fmt.Sprintf("restart %s (mid-handler)", e.parties[1-from].Name), false)
							verifC05Loaded(e)
							done = true
						}
					}
				}
			}
			if !done && !e.ended {
				if cr.Bool() {
					e.nRestarts++
					e.reconnect(fmt.Sprintf("restart %s", e.parties[who].Name), false)
				} else {
					e.nDisconnects++
					e.reconnect("disconnect", false)
				}
				verifC05Loaded(e)
			}
			if cr.Chance(2, 3) {
				check(cr.Intn(2), true)
			}
			continue
		}
		if e.step(true) == "noop" {
			continue
		}
		w0, w1 := e.verifC05PendingWindow(0), e.verifC05PendingWindow(1)
		switch {
		case (w0 || w1) && cr.Chance(2, 5):
			who := 0
			if w1 && (!w0 || cr.Bool()) {
				who = 1
			}
			if checks < maxChecks {
				vc.Count("checks_in_pending_window", 1)
			}
			check(who, false)
		case cr.Intn(100) < checkPct:
			check(cr.Intn(2), false)
		}
	}
	if !e.ended {
		// leave every fated resolution pending half of the time so that the
		// quiescent state still carries HTLCs.
		if e.drain(cr.Bool(), nil) {
			force = true
			check(0, false)
			check(1, false)
		}
	}
	if e.constraintTm {
		vc.Count("constraint_terminated", 1)
	}
	vc.Count("checks", int64(checks))
	if i%40 == 0 {
		tr := e.trace
		if len(tr) > 60 {
			tr = tr[:60]
		}
		vc.Sample(map[string]any{"case": i, "params": p, "trace_head": tr,
			"checks": checks, "restarts": e.nRestarts, "disconnects": e.nDisconnects,
			"end": e.endReason})
	}
	vc.CaseDone(i)
}
