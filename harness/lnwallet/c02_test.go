package lnwallet

// C02 monitor: the channel reloaded after a crash is complete, consistent and
// safe. Crash points: (i) a read-only fork (DB copy + fresh reload) after
// every action, compared with the live object; (ii) real restarts (continue
// with the reloaded objects) at PRNG points, including between
// ReceiveNewCommitment and RevokeCurrentCommitment.

import (
	"fmt"
	"testing"
)

func verifC02Case(vc *verifCtx, i int, sysCrashAt int, schedSeedIdx int) {
	r := vc.Rng(schedSeedIdx)
	p := verifE1GenParams(r)
	nActions := 25 + r.Intn(40)
	forkEvery := []int{1, 1, 2, 4}[r.Intn(4)]
	restartPct := 4 + r.Intn(8)
	// faults come from an independent stream so that the schedule itself
	// (r) is identical between a run and its systematic crash replays.
	fr := r.Fork("faults")
	vc.Case(i, map[string]any{"params": p, "actions": nActions, "forkEvery": forkEvery,
		"restartPct": restartPct, "sysCrashAt": sysCrashAt, "sched": schedSeedIdx})
	e, err := verifE1New(vc, r, p)
	if err != nil {
		vc.Count("setup_skipped", 1)
		vc.CaseDone(i)
		return
	}
	defer e.Close()
	e.richAdds = true
	e.oracles = map[string]bool{"tx_exact": false}
	// crash points between the durable writes of one handler: in a third of
	// the cases every committed write transaction is followed by a fork.
	if fr.Chance(1, 3) {
		e.midCommitForks = true
		e.armCommitHooks()
	}
	check := func(label string) {
		if e.ended {
			return
		}
		e.checkStep()
	}
	forks := func(a int) {
		if e.ended || a%forkEvery != 0 {
			return
		}
		for pi := 0; pi < 2 && !e.ended; pi++ {
			e.checkFork(pi)
		}
	}
	for a := 0; a < nActions && !e.ended; a++ {
		crashNow := false
		if sysCrashAt >= 0 {
			crashNow = a == sysCrashAt
		} else {
			crashNow = fr.Intn(100) < restartPct
		}
		if crashNow {
			who := fr.Intn(2)
			mid := fr.Chance(1, 3)
			done := false
			if mid {
				// crash the receiver between ReceiveNewCommitment and
				// RevokeCurrentCommitment if a signature is at the head.
				for d := 0; d < 2 && !done; d++ {
					from := (who + d) % 2
					if len(e.q[from]) > 0 && e.q[from][0].Kind == "sig" {
						if e.actDeliver(from, true) {
							forks(0)
							e.nRestarts++
							e.reconnect(fmt.Sprintf("restart %s (mid-handler)", e.parties[1-from].Name), false)
							done = true
						}
					}
				}
			}
			if !done && !e.ended {
				e.nRestarts++
				e.reconnect(fmt.Sprintf("restart %s", e.parties[who].Name), false)
			}
			check("restart")
			forks(0)
			continue
		}
		lbl := e.step(true)
		if lbl == "noop" {
			continue
		}
		check(lbl)
		forks(a)
	}
	if !e.ended {
		// oracle 5: the (possibly restarted) channel can continue: full
		// drain with fated resolutions, then quiescence oracles.
		if e.drain(true, func(l string) { check(l) }) {
			e.checkQuiescent()
			forks(0)
		}
	}
	if !e.ended {
		if e.drain(true, func(l string) { check(l) }) {
			e.checkQuiescent()
		}
	}
	if e.constraintTm {
		vc.Count("constraint_terminated", 1)
	}
	vc.Count("restarts", int64(e.nRestarts))
	vc.Count("mid_handler_crashes", int64(e.nMidCrash))
	if e.everLocked > 0 && e.nRestarts > 0 && !e.constraintTm {
		vc.Count("nontrivial", 1)
		vc.Sig(e.signature())
	}
	if i%40 == 0 {
		tr := e.trace
		if len(tr) > 70 {
			tr = tr[:70]
		}
		vc.Sample(map[string]any{"case": i, "params": p, "trace_head": tr,
			"restarts": e.nRestarts, "mid": e.nMidCrash, "end": e.endReason})
	}
	vc.CaseDone(i)
}

func TestVerifC02(t *testing.T) {
	vc := verifStart(t, "C02", "crashpoints")
	defer vc.Finish()
	verifE1SelfCheck(t)
	total := vc.N(500, 4000)
	for i := 0; i < total; i++ {
		if !vc.Mine(i) {
			continue
		}
		verifC02Case(vc, i, -1, i)
	}
	// systematic: replay the same schedule once per crash index (O(L^2)).
	nSys := vc.N(5, 60)
	base := 1 << 20
	idx := base
	for s := 0; s < nSys; s++ {
		L := 40
		for k := 0; k < L; k++ {
			if vc.Mine(idx) {
				verifC02Case(vc, idx, k, base+s)
				vc.Count("systematic_replays", 1)
			}
			idx++
		}
	}
}
