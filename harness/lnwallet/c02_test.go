package lnwallet

// C02 monitor: the channel reloaded after a crash is complete, consistent and
// safe. Crash points: (i) a read-only fork (DB copy + fresh reload) after
// every action, compared with the live object; (ii) real restarts (continue
// with the reloaded objects) at PRNG points, including between
// ReceiveNewCommitment and RevokeCurrentCommitment.
//
// Two units run the same logic: `crashpoints` on the bbolt kvdb backend and
// `crashpoints_sqlite` (TestVerifC02Sqlite, build tag kvdb_sqlite) on the
// sqlite kvdb backend (kvdb/sqlbase + kvdb/sqlite): there the forks are
// file-level crash images (database file + WAL, see e1_sqlite_test.go) and the
// restarting party of a real restart closes and reopens its backend.

import (
	"fmt"
	"testing"

	"github.com/lightningnetwork/lnd/kvdb"
)

func verifC02Backend() string {
	if verifUseSqlite {
		return "sqlite"
	}
	return "bbolt"
}

// verifC02MarkRestart: party i's process restarts at the next reconnect. On
// the sqlite backend this closes and reopens its database: alternately an
// orderly shutdown and a kill (file image + WAL recovery).
func (e *verifE1) verifC02MarkRestart(i, salt int) {
	if verifUseSqlite {
		e.parties[i].reopenKind = 1 + (e.nRestarts+salt)%2
	}
}

func verifC02Case(vc *verifCtx, i int, sysCrashAt int, schedSeedIdx int) {
	r := vc.Rng(schedSeedIdx)
	p := verifE1GenParams(r)
	nActions := 25 + r.Intn(40)
	forkEvery := []int{1, 1, 2, 4}[r.Intn(4)]
	restartPct := 4 + r.Intn(8)
	// faults come from an independent stream so that the schedule itself
	// (r) is identical between a run and its systematic crash replays.
	fr := r.Fork("faults")
	vc.Case(i, map[string]any{"params": p, "actions": nActions, "forkEvery": forkEvery,
		"restartPct": restartPct, "sysCrashAt": sysCrashAt, "sched": schedSeedIdx,
		"backend": verifC02Backend()})
	e, err := verifE1New(vc, r, p)
	if err != nil {
		vc.Count("setup_skipped", 1)
		vc.CaseDone(i)
		return
	}
	defer e.Close()
	e.richAdds = true
	e.oracles = map[string]bool{"tx_exact": false}
	// crash points between the durable writes of one handler: in a third of
	// the cases every committed write transaction is followed by a fork.
	if fr.Chance(1, 3) {
		e.midCommitForks = true
		e.armCommitHooks()
	}
	// other subsystems writing channel markers through their own stale
	// OpenChannel instance (half of the cases).
	if fr.Chance(1, 2) {
		e.enableForeign()
		vc.Count("foreign_writer_cases", 1)
	}
	check := func(label string) {
		if e.ended {
			return
		}
		e.checkStep()
	}
	forks := func(a int) {
		if e.ended || a%forkEvery != 0 {
			return
		}
		for pi := 0; pi < 2 && !e.ended; pi++ {
			e.checkFork(pi)
		}
	}
	for a := 0; a < nActions && !e.ended; a++ {
		crashNow := false
		if sysCrashAt >= 0 {
			crashNow = a == sysCrashAt
		} else {
			crashNow = fr.Intn(100) < restartPct
		}
		if crashNow {
			who := fr.Intn(2)
			mid := fr.Chance(1, 3)
			done := false
			if mid {
				// crash the receiver between ReceiveNewCommitment and
				// RevokeCurrentCommitment if a signature is at the head.
				for d := 0; d < 2 && !done; d++ {
					from := (who + d) % 2
					if len(e.q[from]) > 0 && e.q[from][0].Kind == "sig" {
						if e.actDeliver(from, true) {
							forks(0)
							e.nRestarts++
							e.verifC02MarkRestart(1-from, i)
							e.reconnect(fmt.Sprintf("restart %s (mid-handler)", e.parties[1-from].Name), false)
							done = true
						}
					}
				}
			}
			if !done && !e.ended {
				e.nRestarts++
				e.verifC02MarkRestart(who, i)
				e.reconnect(fmt.Sprintf("restart %s", e.parties[who].Name), false)
			}
			check("restart")
			forks(0)
			continue
		}
		lbl := e.step(true)
		if lbl == "noop" {
			continue
		}
		check(lbl)
		forks(a)
	}
	if !e.ended {
		// oracle 5: the (possibly restarted) channel can continue: full
		// drain with fated resolutions, then quiescence oracles.
		if e.drain(true, func(l string) { check(l) }) {
			e.checkQuiescent()
			forks(0)
		}
	}
	if !e.ended {
		if e.drain(true, func(l string) { check(l) }) {
			e.checkQuiescent()
		}
	}
	if e.constraintTm {
		vc.Count("constraint_terminated", 1)
	}
	vc.Count("backend_"+verifC02Backend()+"_cases", 1)
	vc.Count("restarts", int64(e.nRestarts))
	vc.Count("mid_handler_crashes", int64(e.nMidCrash))
	if e.everLocked > 0 && e.nRestarts > 0 && !e.constraintTm {
		vc.Count("nontrivial", 1)
		vc.Sig(e.signature() + "|be=" + verifC02Backend())
	}
	if i%40 == 0 {
		tr := e.trace
		if len(tr) > 70 {
			tr = tr[:70]
		}
		vc.Sample(map[string]any{"case": i, "params": p, "trace_head": tr,
			"restarts": e.nRestarts, "mid": e.nMidCrash, "end": e.endReason})
	}
	vc.CaseDone(i)
}

func TestVerifC02(t *testing.T) {
	verifC02Run(t, "crashpoints", 500, 4000, 5, 60)
}

// TestVerifC02Sqlite: the same cases on the sqlite kvdb backend (smaller
// volume: a sqlite kvdb transaction costs several times a bbolt one).
func TestVerifC02Sqlite(t *testing.T) {
	if !kvdb.SqliteBackend || verifOpenSqlite == nil {
		t.Fatalf("crashpoints_sqlite needs a kvdb_sqlite build with e1_sqlite_test.go")
	}
	verifUseSqlite = true
	defer func() { verifUseSqlite = false }()
	verifC02Run(t, "crashpoints_sqlite", 110, 1600, 1, 20)
}

func verifC02Run(t *testing.T, unit string, nQuick, nThorough, sysQuick, sysThorough int) {
	vc := verifStart(t, "C02", unit)
	defer vc.Finish()
	verifE1SelfCheck(t)
	total := vc.N(nQuick, nThorough)
	for i := 0; i < total; i++ {
		if !vc.Mine(i) {
			continue
		}
		verifC02Case(vc, i, -1, i)
	}
	// systematic: replay the same schedule once per crash index (O(L^2)).
	nSys := vc.N(sysQuick, sysThorough)
	base := 1 << 20
	idx := base
	for s := 0; s < nSys; s++ {
		L := 40
		for k := 0; k < L; k++ {
			if vc.Mine(idx) {
				verifC02Case(vc, idx, k, base+s)
				vc.Count("systematic_replays", 1)
			}
			idx++
		}
	}
}
