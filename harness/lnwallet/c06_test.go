package lnwallet

// C06 (release rule): every RevokeAndAck the API hands out (from
// RevokeCurrentCommitment and from ProcessChanSyncMsg) is checked at the
// moment it is returned: a reload from a copy of that side's database must
// already be at a newer commitment that carries a valid peer signature; the
// secrets and next points follow the node's own BOLT-3 chain without gaps or
// repeats; corrupted / replayed revocations are rejected by the receiver.

import (
	"fmt"
	"testing"

	"github.com/btcsuite/btcd/btcec/v2"
	"github.com/lightningnetwork/lnd/lnwire"
)

func verifCommitPoint(secret [32]byte) *btcec.PublicKey {
	_, pub := btcec.PrivKeyFromBytes(secret[:])
	return pub
}

func verifC06ReleaseHook(lastRel *[2]int64) func(e *verifE1, party int, rel verifE1Released) {
	return func(e *verifE1, party int, rel verifE1Released) {
		p := e.parties[party]
		e.vc.Count("oracle_release", 1)
		if rel.Height == ^uint64(0) {
			e.viol("release_follows_chain", "unknown-secret",
				fmt.Sprintf("%s handed out a value that is not one of its recent per-commitment secrets (via %s)", p.Name, rel.Via))
			return
		}
		h := int64(rel.Height)
		switch {
		case h == lastRel[party]+1:
			if rel.Via == "sync" {
				e.vc.Count("first_release_via_sync", 1)
			}
		case h == lastRel[party] && rel.Via == "sync":
			e.vc.Count("retransmitted_releases", 1)
		default:
			e.viol("release_follows_chain", fmt.Sprintf("gap-or-repeat:via-%s", rel.Via),
				fmt.Sprintf("%s released secret of height %d after height %d (via %s)", p.Name, h, lastRel[party], rel.Via))
			return
		}
		lastRel[party] = h
		want := verifCommitPoint(verifShaDerive(p.root, rel.Height+2))
		if rel.Next == nil || !rel.Next.IsEqual(want) {
			e.viol("release_follows_chain", "next-point",
				fmt.Sprintf("%s revoke_and_ack for height %d carries a next point that is not its chain's point %d", p.Name, h, h+2))
			return
		}
		// release only when a newer signed commitment is durable
		fk := e.fork(party, "release_reload_error")
		if fk == nil {
			return
		}
		defer fk.Close()
		H := fk.state.LocalCommitment.CommitHeight
		if H < rel.Height+1 {
			e.viol("release_only_when_durable", "via-"+rel.Via,
				fmt.Sprintf("%s released the secret of height %d (via %s) while its database still holds height %d as the current commitment",
					p.Name, h, rel.Via, H))
			return
		}
		if _, err := e.checkSignedCommit(fk.ch); err != nil {
			e.viol("release_only_when_durable", "newer-commit-invalid",
				fmt.Sprintf("%s released height %d; durable newer commitment %d: %v", p.Name, h, H, err))
			return
		}
	}
}

func verifC06Case(vc *verifCtx, i int) {
	r := vc.Rng(i)
	p := verifE1GenParams(r)
	nActions := 30 + r.Intn(50)
	faultPct := 3 + r.Intn(8)
	hostilePct := 10 + r.Intn(30)
	fr := r.Fork("faults")
	vc.Case(i, map[string]any{"params": p, "actions": nActions, "faultPct": faultPct, "hostilePct": hostilePct})
	e, err := verifE1New(vc, r, p)
	if err != nil {
		vc.Count("setup_skipped", 1)
		vc.CaseDone(i)
		return
	}
	defer e.Close()
	e.oracles = map[string]bool{"tx_exact": false}
	lastRel := [2]int64{-1, -1}
	e.hooks.onRelease = verifC06ReleaseHook(&lastRel)
	e.probeLiveSync = true
	hostile := 0
	for a := 0; a < nActions && !e.ended; a++ {
		// hostile revocation: when a revoke_and_ack is at the head of a
		// queue, first offer the receiver a corrupted / replayed one.
		for dir := 0; dir < 2 && !e.ended; dir++ {
			if len(e.q[dir]) == 0 || e.q[dir][0].Kind != "rev" || fr.Intn(100) >= hostilePct {
				continue
			}
			orig := e.q[dir][0].Msg.(*lnwire.RevokeAndAck)
			bad := *orig
			kind := fr.Intn(3)
			switch kind {
			case 0:
				bad.Revocation[fr.Intn(32)] ^= 1 << uint(fr.Intn(8))
			case 1:
				// secret of a different height of the same chain
				cur := e.parties[dir].released[len(e.parties[dir].released)-1].Height
				other := cur + 1 + uint64(fr.Intn(3))
				if cur > 0 && fr.Bool() {
					other = cur - 1
				}
				bad.Revocation = verifShaDerive(e.parties[dir].root, other)
			default:
				copy(bad.Revocation[:], fr.Bytes(32))
			}
			recv := e.parties[1-dir]
			_, _, err := recv.ch.ReceiveRevocation(&bad)
			vc.Count("oracle_hostile_revocation", 1)
			hostile++
			if err == nil {
				e.viol("rejects_bad_revocation", fmt.Sprintf("kind%d", kind),
					fmt.Sprintf("%s accepted a revoke_and_ack whose secret is not the peer's current per-commitment secret (kind %d)",
						recv.Name, kind))
				break
			}
			e.logf("hostile rev kind %d rejected by %s: %v", kind, recv.Name, err)
			// the link fails the channel object on such an error; both
			// sides reconnect from disk and the honest revocation is
			// retransmitted.
			e.nDisconnects++
			e.reconnect("reconnect-after-hostile-revocation", false)
			e.checkStep()
		}
		if e.ended {
			break
		}
		if fr.Intn(100) < faultPct {
			// mid-handler crash with a reconnect attempt on the live
			// object first
			midDone := false
			if fr.Chance(1, 2) {
				for d := 0; d < 2 && !midDone; d++ {
					if len(e.q[d]) > 0 && e.q[d][0].Kind == "sig" {
						if e.actDeliver(d, true) {
							e.nRestarts++
							e.reconnect("restart (mid-handler)", false)
							midDone = true
						}
					}
				}
			}
			if midDone {
				e.checkStep()
				continue
			}
			if fr.Bool() {
				e.nRestarts++
				e.reconnect("restart", false)
			} else {
				e.nDisconnects++
				e.reconnect("disconnect", false)
			}
			e.checkStep()
			continue
		}
		if e.step(true) != "noop" {
			e.checkStep()
		}
	}
	for round := 0; round < 2 && !e.ended; round++ {
		if e.drain(true, func(string) { e.checkStep() }) {
			e.checkQuiescent()
		}
	}
	// store side of the live channels: each party reproduces every secret
	// the peer released.
	if !e.ended {
		for pi, p := range e.parties {
			peer := e.parties[1-pi]
			for _, rel := range peer.released {
				s, err := p.ch.channelState.RevocationStore.LookUp(rel.Height)
				vc.Count("oracle_store_reproduces", 1)
				if err != nil || [32]byte(*s) != rel.Secret {
					e.viol("store_reproduces", "channel-store",
						fmt.Sprintf("%s cannot reproduce the peer's released secret %d: err=%v", p.Name, rel.Height, err))
					break
				}
			}
		}
	}
	if e.constraintTm {
		vc.Count("constraint_terminated", 1)
	}
	nrel := len(e.parties[0].released) + len(e.parties[1].released)
	vc.Count("releases", int64(nrel))
	if nrel >= 4 && !e.constraintTm {
		vc.Count("nontrivial", 1)
		vc.Sig(e.signature() + verifJoin("", verifBucket(hostile)))
	}
	if i%40 == 0 {
		tr := e.trace
		if len(tr) > 60 {
			tr = tr[:60]
		}
		vc.Sample(map[string]any{"case": i, "params": p, "trace_head": tr, "releases": nrel,
			"hostile": hostile, "end": e.endReason})
	}
	vc.CaseDone(i)
}

func TestVerifC06Release(t *testing.T) {
	vc := verifStart(t, "C06", "release")
	defer vc.Finish()
	verifE1SelfCheck(t)
	total := vc.N(500, 5000)
	for i := 0; i < total; i++ {
		if !vc.Mine(i) {
			continue
		}
		verifC06Case(vc, i)
	}
}
