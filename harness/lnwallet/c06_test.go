package lnwallet

// C06 (release rule): every RevokeAndAck the API hands out (from
// RevokeCurrentCommitment and from ProcessChanSyncMsg) is checked at the
// moment it is returned: a reload from a copy of that side's database must
// already be at a newer commitment that carries a valid peer signature; the
// secrets and next points follow the node's own BOLT-3 chain without gaps or
// repeats; corrupted / replayed revocations are rejected by the receiver.

import (
	"context"
	"crypto/sha256"
	"fmt"
	"math/bits"
	"testing"

	"github.com/btcsuite/btcd/chainhash/v2"
	"github.com/lightningnetwork/lnd/input"

	"github.com/btcsuite/btcd/btcec/v2"
	"github.com/lightningnetwork/lnd/lnwire"
)

func verifCommitPoint(secret [32]byte) *btcec.PublicKey {
	_, pub := btcec.PrivKeyFromBytes(secret[:])
	return pub
}

func verifC06ReleaseHook(lastRel *[2]int64) func(e *verifE1, party int, rel verifE1Released) {
	return func(e *verifE1, party int, rel verifE1Released) {
		p := e.parties[party]
		e.vc.Count("oracle_release", 1)
		if rel.Height == ^uint64(0) {
			e.viol("release_follows_chain", "unknown-secret",
				fmt.Sprintf("%s handed out a value that is not one of its recent per-commitment secrets (via %s)", p.Name, rel.Via))
			return
		}
		h := int64(rel.Height)
		switch {
		case h == lastRel[party]+1:
			if rel.Via == "sync" {
				e.vc.Count("first_release_via_sync", 1)
			}
		case h == lastRel[party] && rel.Via == "sync":
			e.vc.Count("retransmitted_releases", 1)
		default:
			e.viol("release_follows_chain", fmt.Sprintf("gap-or-repeat:via-%s", rel.Via),
				fmt.Sprintf("%s released secret of height %d after height %d (via %s)", p.Name, h, lastRel[party], rel.Via))
			return
		}
		lastRel[party] = h
		want := verifCommitPoint(verifShaDerive(p.root, rel.Height+2))
		if rel.Next == nil || !rel.Next.IsEqual(want) {
			e.viol("release_follows_chain", "next-point",
				fmt.Sprintf("%s revoke_and_ack for height %d carries a next point that is not its chain's point %d", p.Name, h, h+2))
			return
		}
		// release only when a newer signed commitment is durable
		fk := e.fork(party, "release_reload_error")
		if fk == nil {
			return
		}
		defer fk.Close()
		H := fk.state.LocalCommitment.CommitHeight
		if H < rel.Height+1 {
			e.viol("release_only_when_durable", "via-"+rel.Via,
				fmt.Sprintf("%s released the secret of height %d (via %s) while its database still holds height %d as the current commitment",
					p.Name, h, rel.Via, H))
			return
		}
		if _, err := e.checkSignedCommit(fk.ch); err != nil {
			e.viol("release_only_when_durable", "newer-commit-invalid",
				fmt.Sprintf("%s released height %d; durable newer commitment %d: %v", p.Name, h, H, err))
			return
		}
	}
}

func verifC06Case(vc *verifCtx, i int) {
	r := vc.Rng(i)
	p := verifE1GenParams(r)
	nActions := 30 + r.Intn(50)
	faultPct := 3 + r.Intn(8)
	hostilePct := 10 + r.Intn(30)
	fr := r.Fork("faults")
	vc.Case(i, map[string]any{"params": p, "actions": nActions, "faultPct": faultPct, "hostilePct": hostilePct})
	e, err := verifE1New(vc, r, p)
	if err != nil {
		vc.Count("setup_skipped", 1)
		vc.CaseDone(i)
		return
	}
	defer e.Close()
	e.oracles = map[string]bool{"tx_exact": false}
	lastRel := [2]int64{-1, -1}
	e.hooks.onRelease = verifC06ReleaseHook(&lastRel)
	e.probeLiveSync = true
	if fr.Chance(1, 2) {
		e.enableForeign()
		vc.Count("foreign_writer_cases", 1)
	}
	hostile := 0
	for a := 0; a < nActions && !e.ended; a++ {
		// hostile revocation: when a revoke_and_ack is at the head of a
		// queue, first offer the receiver a corrupted / replayed one.
		for dir := 0; dir < 2 && !e.ended; dir++ {
			if len(e.q[dir]) == 0 || e.q[dir][0].Kind != "rev" || fr.Intn(100) >= hostilePct {
				continue
			}
			orig := e.q[dir][0].Msg.(*lnwire.RevokeAndAck)
			bad := *orig
			kind := fr.Intn(3)
			switch kind {
			case 0:
				bad.Revocation[fr.Intn(32)] ^= 1 << uint(fr.Intn(8))
			case 1:
				// secret of a different height of the same chain
				cur := e.parties[dir].released[len(e.parties[dir].released)-1].Height
				other := cur + 1 + uint64(fr.Intn(3))
				if cur > 0 && fr.Bool() {
					other = cur - 1
				}
				bad.Revocation = verifShaDerive(e.parties[dir].root, other)
			default:
				copy(bad.Revocation[:], fr.Bytes(32))
			}
			recv := e.parties[1-dir]
			_, _, err := recv.ch.ReceiveRevocation(&bad)
			vc.Count("oracle_hostile_revocation", 1)
			hostile++
			if err == nil {
				e.viol("rejects_bad_revocation", fmt.Sprintf("kind%d", kind),
					fmt.Sprintf("%s accepted a revoke_and_ack whose secret is not the peer's current per-commitment secret (kind %d)",
						recv.Name, kind))
				break
			}
			e.logf("hostile rev kind %d rejected by %s: %v", kind, recv.Name, err)
			// the link fails the channel object on such an error; both
			// sides reconnect from disk and the honest revocation is
			// retransmitted.
			e.nDisconnects++
			e.reconnect("reconnect-after-hostile-revocation", false)
			e.checkStep()
		}
		if e.ended {
			break
		}
		if fr.Intn(100) < hostilePct/10 {
			e.probeSplicedChain(fr.Intn(2), fr)
		}
		if fr.Intn(100) < faultPct {
			// mid-handler crash with a reconnect attempt on the live
			// object first
			midDone := false
			if fr.Chance(1, 2) {
				for d := 0; d < 2 && !midDone; d++ {
					if len(e.q[d]) > 0 && e.q[d][0].Kind == "sig" {
						if e.actDeliver(d, true) {
							e.nRestarts++
							e.reconnect("restart (mid-handler)", false)
							midDone = true
						}
					}
				}
			}
			if midDone {
				e.checkStep()
				continue
			}
			if fr.Bool() {
				e.nRestarts++
				e.reconnect("restart", false)
			} else {
				e.nDisconnects++
				e.reconnect("disconnect", false)
			}
			e.checkStep()
			continue
		}
		if e.step(true) != "noop" {
			e.checkStep()
		}
	}
	for round := 0; round < 2 && !e.ended; round++ {
		if e.drain(true, func(string) { e.checkStep() }) {
			e.checkQuiescent()
		}
	}
	// store side of the live channels: each party reproduces every secret
	// the peer released.
	if !e.ended {
		for pi, p := range e.parties {
			peer := e.parties[1-pi]
			for _, rel := range peer.released {
				s, err := p.ch.channelState.RevocationStore.LookUp(rel.Height)
				vc.Count("oracle_store_reproduces", 1)
				if err != nil || [32]byte(*s) != rel.Secret {
					e.viol("store_reproduces", "channel-store",
						fmt.Sprintf("%s cannot reproduce the peer's released secret %d: err=%v", p.Name, rel.Height, err))
					break
				}
			}
		}
	}
	if e.constraintTm {
		vc.Count("constraint_terminated", 1)
	}
	nrel := len(e.parties[0].released) + len(e.parties[1].released)
	vc.Count("releases", int64(nrel))
	if nrel >= 4 && !e.constraintTm {
		vc.Count("nontrivial", 1)
		vc.Sig(e.signature() + verifJoin("", verifBucket(hostile)))
	}
	if i%40 == 0 {
		tr := e.trace
		if len(tr) > 60 {
			tr = tr[:60]
		}
		vc.Sample(map[string]any{"case": i, "params": p, "trace_head": tr, "releases": nrel,
			"hostile": hostile, "end": e.endReason})
	}
	vc.CaseDone(i)
}

func TestVerifC06Release(t *testing.T) {
	vc := verifStart(t, "C06", "release")
	defer vc.Finish()
	verifE1SelfCheck(t)
	total := vc.N(500, 5000)
	for i := 0; i < total; i++ {
		if !vc.Mine(i) {
			continue
		}
		verifC06Case(vc, i)
	}
}

// ---------------------------------------------------------------------------
// spliced-chain probe

// verifC06RefStore is the BOLT-3 insert_secret consistency rule (lnd's index i
// is the BOLT-3 index 2^48-1-i).
type verifC06RefStore struct {
	known map[int]verifC06RefEl
}

type verifC06RefEl struct {
	I uint64
	S [32]byte
}

func verifC06Tz(I uint64) int {
	if I == 0 {
		return 48
	}
	return bits.TrailingZeros64(I)
}

func (st *verifC06RefStore) insert(height uint64, s [32]byte) bool {
	I := (uint64(1)<<48 - 1) - height
	b := verifC06Tz(I)
	for b2 := 0; b2 < b; b2++ {
		k, ok := st.known[b2]
		if !ok {
			continue
		}
		p := s
		for bit := b - 1; bit >= 0; bit-- {
			if k.I&(1<<uint(bit)) != 0 {
				p[bit/8] ^= 1 << uint(bit%8)
				p = sha256.Sum256(p[:])
			}
		}
		if p != k.S {
			return false
		}
	}
	st.known[b] = verifC06RefEl{I: I, S: s}
	return true
}

// probeSplicedChain plays a hostile peer against a FORK of party i: every
// secret it reveals matches the commitment point it announced two
// revocations earlier (so the point check passes), but from some height on
// the points and secrets come from a second seed, i.e. the secrets do not
// form one chain. The node must reject the first secret that the BOLT-3
// consistency rule can tell apart (reference: verifC06RefStore); accepting
// it means storing a chain it can no longer reproduce.
func (e *verifE1) probeSplicedChain(i int, r *verifRng) {
	if e.p.ChanType.IsTaproot() {
		return // revoke_and_ack of taproot channels also carries nonces
	}
	fk := e.fork(i, "reload_error")
	if fk == nil {
		return
	}
	defer fk.Close()
	R := fk.ch
	peerRoot := e.parties[1-i].root
	var root2 chainhash.Hash
	copy(root2[:], r.Bytes(32))

	// what R's store holds: the peer's real secrets of all revoked heights
	ref := &verifC06RefStore{known: map[int]verifC06RefEl{}}
	tail0 := R.commitChains.Remote.tail().height
	for h := uint64(0); h < tail0; h++ {
		ref.insert(h, verifShaDerive(peerRoot, h))
	}
	spliceFrom := tail0 + 2 // first height whose point the hostile peer still has to announce
	e.vc.Count("spliced_chain_probes", 1)
	for round := 0; round < 8; round++ {
		if !R.commitChains.Remote.hasUnackedCommitment() {
			var pre [32]byte
			copy(pre[:], r.Bytes(32))
			msg := &lnwire.UpdateAddHTLC{ChanID: e.chanID, Amount: lnwire.MilliSatoshi(1000 + r.Intn(5000)),
				Expiry: 420, PaymentHash: sha256.Sum256(pre[:]), OnionBlob: verifOnion}
			if _, err := R.AddHTLC(msg, nil); err != nil {
				e.vc.Count("spliced_chain_probe_skipped", 1)
				return
			}
			if _, err := R.SignNextCommitment(context.Background()); err != nil {
				e.vc.Count("spliced_chain_probe_skipped", 1)
				return
			}
		}
		h := R.commitChains.Remote.tail().height // the commitment being revoked
		root := peerRoot
		if h >= spliceFrom {
			root = root2
		}
		secret := verifShaDerive(root, h)
		next := verifShaDerive(root2, h+2)
		rev := &lnwire.RevokeAndAck{ChanID: e.chanID, Revocation: secret,
			NextRevocationKey: input.ComputeCommitmentPoint(next[:])}
		consistent := ref.insert(h, secret)
		_, _, err := R.ReceiveRevocation(rev)
		if h >= spliceFrom {
			e.vc.Count("oracle_spliced_secret", 1)
		}
		switch {
		case !consistent && err == nil:
			e.viol("rejects_bad_revocation", "spliced-chain",
				fmt.Sprintf("%s accepted the per-commitment secret of height %d, which matches the commitment point the peer "+
					"announced but is not consistent with the secrets received before (heights < %d come from another seed): "+
					"the stored chain can no longer reproduce the earlier secrets", e.parties[i].Name, h, spliceFrom))
			return
		case !consistent:
			e.vc.Count("spliced_secret_rejected", 1)
			return
		case err != nil:
			// consistent by the BOLT-3 rule, refused for another
			// reason (not part of this oracle)
			e.vc.Diag("spliced_probe_consistent_secret_refused", err.Error())
			return
		}
	}
}
