package lnwallet

// Oracles over E1 executions: commitment snapshots, msat conservation,
// cross-party identity, transaction-level exactness (BOLT-3 trimming rule
// re-implemented here), balance deltas and mirror at quiescence.

import (
	"fmt"
	"net"
	"sort"

	"github.com/btcsuite/btcd/chainhash/v2"
	"github.com/btcsuite/btcd/wire/v2"
	"github.com/lightningnetwork/lnd/channeldb"
	"github.com/lightningnetwork/lnd/lntypes"
	"github.com/lightningnetwork/lnd/lnwire"
)

func verifAddr(port int) *net.TCPAddr {
	return &net.TCPAddr{IP: net.ParseIP("127.0.0.1"), Port: port}
}

// verifCommitBaseWeight: BOLT-3 base commitment weight (724 / 1124 with
// anchors); taproot uses lnd's own constant (no BOLT value yet).
func verifCommitBaseWeight(t channeldb.ChannelType) lntypes.WeightUnit {
	switch {
	case t.IsTaproot():
		return 968
	case t.HasAnchors():
		return 1124
	}
	return 724
}

type verifSnapHtlc struct {
	Offerer int
	ID      uint64
	Amt     lnwire.MilliSatoshi
	Hash    [32]byte
	Expiry  uint32
	OutIdx  int32 // output index on this commitment, -1 if trimmed
}

type verifCommitSnap struct {
	Holder   int    // whose object holds this commitment
	Chain    string // "local" (holder's own tx) or "remote" (peer's tx)
	Owner    int    // whose transaction it is
	Height   uint64
	Bal      [2]lnwire.MilliSatoshi // balance of A, B
	FeeSat   int64
	FeePerKw int64
	TxID     chainhash.Hash
	Tx       *wire.MsgTx
	Htlcs    []verifSnapHtlc
}

func (s *verifCommitSnap) key() string {
	return fmt.Sprintf("%d/%s/%d", s.Holder, s.Chain, s.Height)
}

func verifSnapOf(holder int, chain string, c *commitment) *verifCommitSnap {
	s := &verifCommitSnap{Holder: holder, Chain: chain, Height: c.height,
		FeeSat: int64(c.fee), FeePerKw: int64(c.feePerKw), Tx: c.txn}
	if chain == "local" {
		s.Owner = holder
	} else {
		s.Owner = 1 - holder
	}
	s.Bal[holder] = c.ourBalance
	s.Bal[1-holder] = c.theirBalance
	if c.txn != nil {
		s.TxID = c.txn.TxHash()
	}
	for i := range c.outgoingHTLCs {
		pd := &c.outgoingHTLCs[i]
		oi := pd.localOutputIndex
		if chain == "remote" {
			oi = pd.remoteOutputIndex
		}
		s.Htlcs = append(s.Htlcs, verifSnapHtlc{Offerer: holder, ID: pd.HtlcIndex,
			Amt: pd.Amount, Hash: pd.RHash, Expiry: pd.Timeout, OutIdx: oi})
	}
	for i := range c.incomingHTLCs {
		pd := &c.incomingHTLCs[i]
		oi := pd.localOutputIndex
		if chain == "remote" {
			oi = pd.remoteOutputIndex
		}
		s.Htlcs = append(s.Htlcs, verifSnapHtlc{Offerer: 1 - holder, ID: pd.HtlcIndex,
			Amt: pd.Amount, Hash: pd.RHash, Expiry: pd.Timeout, OutIdx: oi})
	}
	sort.Slice(s.Htlcs, func(i, j int) bool {
		if s.Htlcs[i].Offerer != s.Htlcs[j].Offerer {
			return s.Htlcs[i].Offerer < s.Htlcs[j].Offerer
		}
		return s.Htlcs[i].ID < s.Htlcs[j].ID
	})
	return s
}

// liveCommits returns every commitment the party currently holds in memory
// (at most two per chain).
func (e *verifE1) liveCommits(p *verifE1Party) []*verifCommitSnap {
	var out []*verifCommitSnap
	lc := p.ch.commitChains.Local
	out = append(out, verifSnapOf(p.Idx, "local", lc.tail()))
	if lc.tip() != lc.tail() {
		out = append(out, verifSnapOf(p.Idx, "local", lc.tip()))
	}
	rc := p.ch.commitChains.Remote
	out = append(out, verifSnapOf(p.Idx, "remote", rc.tail()))
	if rc.tip() != rc.tail() {
		out = append(out, verifSnapOf(p.Idx, "remote", rc.tip()))
	}
	return out
}

func (e *verifE1) dustLimit(owner int) int64 {
	if owner == 0 {
		return e.p.DustA
	}
	return e.p.DustB
}

// trimmed: BOLT-3 rule. An HTLC offered by the commitment owner is trimmed
// when amount_sat < dust_limit + htlc_timeout_fee; one received by the owner
// when amount_sat < dust_limit + htlc_success_fee. The second-level fee is
// zero for zero-fee-htlc (and taproot) channels.
func (e *verifE1) trimmed(s *verifCommitSnap, h verifSnapHtlc) bool {
	dust := e.dustLimit(s.Owner)
	var w int64
	offeredByOwner := h.Offerer == s.Owner
	switch {
	case e.p.ChanType.ZeroHtlcTxFee() || e.p.ChanType.IsTaproot():
		w = 0
	case e.p.ChanType.HasAnchors():
		if offeredByOwner {
			w = 666
		} else {
			w = 706
		}
	default:
		if offeredByOwner {
			w = 663
		} else {
			w = 703
		}
	}
	fee := w * s.FeePerKw / 1000
	return int64(h.Amt/1000) < dust+fee
}

// checkCommit runs the per-commitment oracles (conservation identity and
// transaction-level exactness).
func (e *verifE1) checkCommit(s *verifCommitSnap) {
	e.vc.Count("oracle_conservation", 1)
	var sumHtlc lnwire.MilliSatoshi
	for _, h := range s.Htlcs {
		sumHtlc += h.Amt
	}
	total := s.Bal[0] + s.Bal[1] + sumHtlc +
		lnwire.MilliSatoshi(1000*(s.FeeSat+e.anchorsSat))
	if total != e.capacityMsat {
		e.viol("conservation_msat", fmt.Sprintf("%s-chain-diff", s.Chain),
			fmt.Sprintf("commitment %s: balA %d + balB %d + htlcs %d + 1000*(fee %d + anchors %d) = %d != capacity %d (diff %d)",
				s.key(), s.Bal[0], s.Bal[1], sumHtlc, s.FeeSat, e.anchorsSat, total, e.capacityMsat,
				int64(total)-int64(e.capacityMsat)))
		return
	}
	if s.Tx == nil {
		return
	}
	if s.Height == 0 {
		// fixture-made height-0 commitment; not produced by the state machine.
		return
	}
	var sumOut int64
	for _, o := range s.Tx.TxOut {
		sumOut += o.Value
	}
	if sumOut+s.FeeSat > e.p.CapacitySat {
		e.viol("outputs_exceed_capacity", s.Chain,
			fmt.Sprintf("commitment %s: outputs %d + fee %d > capacity %d", s.key(), sumOut, s.FeeSat, e.p.CapacitySat))
		return
	}
	if !e.on("tx_exact") {
		return
	}
	e.vc.Count("oracle_tx_exact", 1)
	// expected multiset of output values
	dust := e.dustLimit(s.Owner)
	var want []int64
	ownerBal := int64(s.Bal[s.Owner] / 1000)
	otherBal := int64(s.Bal[1-s.Owner] / 1000)
	untrimmed := 0
	for _, h := range s.Htlcs {
		if e.trimmed(s, h) {
			if h.OutIdx >= 0 {
				e.viol("tx_exact", "trimmed-htlc-has-output",
					fmt.Sprintf("commitment %s: htlc %d/%d amt %d is below the trim threshold (dust %d, rate %d) but has output %d",
						s.key(), h.Offerer, h.ID, h.Amt, dust, s.FeePerKw, h.OutIdx))
				return
			}
			continue
		}
		untrimmed++
		want = append(want, int64(h.Amt/1000))
		if h.OutIdx < 0 || int(h.OutIdx) >= len(s.Tx.TxOut) {
			e.viol("tx_exact", "untrimmed-htlc-no-output",
				fmt.Sprintf("commitment %s: htlc %d/%d amt %d is above the trim threshold (dust %d, rate %d) but has output index %d",
					s.key(), h.Offerer, h.ID, h.Amt, dust, s.FeePerKw, h.OutIdx))
			return
		}
		if s.Tx.TxOut[h.OutIdx].Value != int64(h.Amt/1000) {
			e.viol("tx_exact", "htlc-output-value",
				fmt.Sprintf("commitment %s: htlc %d/%d amt %d output %d has value %d",
					s.key(), h.Offerer, h.ID, h.Amt, h.OutIdx, s.Tx.TxOut[h.OutIdx].Value))
			return
		}
	}
	hasOwner := ownerBal >= dust
	hasOther := otherBal >= dust
	if hasOwner {
		want = append(want, ownerBal)
	}
	if hasOther {
		want = append(want, otherBal)
	}
	if e.p.ChanType.HasAnchors() {
		if hasOwner || untrimmed > 0 {
			want = append(want, 330)
		}
		if hasOther || untrimmed > 0 {
			want = append(want, 330)
		}
	}
	var got []int64
	for _, o := range s.Tx.TxOut {
		got = append(got, o.Value)
	}
	sort.Slice(want, func(i, j int) bool { return want[i] < want[j] })
	sort.Slice(got, func(i, j int) bool { return got[i] < got[j] })
	if fmt.Sprint(want) != fmt.Sprint(got) {
		e.viol("tx_exact", "output-multiset",
			fmt.Sprintf("commitment %s (owner %d dust %d rate %d): output values %v, expected %v (balances %v, htlcs %+v)",
				s.key(), s.Owner, dust, s.FeePerKw, got, want, s.Bal, s.Htlcs))
		return
	}
	// htlc output indexes must be a bijection onto distinct outputs.
	seen := map[int32]bool{}
	for _, h := range s.Htlcs {
		if h.OutIdx < 0 {
			continue
		}
		if seen[h.OutIdx] {
			e.viol("tx_exact", "htlc-output-index-shared",
				fmt.Sprintf("commitment %s: two htlcs map to output %d", s.key(), h.OutIdx))
			return
		}
		seen[h.OutIdx] = true
	}
	// fee vs weight formula: diagnostic only.
	wantFee := int64(verifCommitBaseWeight(e.p.ChanType)+lntypes.WeightUnit(172*untrimmed)) * s.FeePerKw / 1000
	if wantFee != s.FeeSat {
		e.vc.Diag("commit_fee_formula", fmt.Sprintf("%s fee %d want %d", s.key(), s.FeeSat, wantFee))
	}
}

func verifSameHtlcs(a, b []verifSnapHtlc, cmpIdx bool) bool {
	if len(a) != len(b) {
		return false
	}
	for i := range a {
		x, y := a[i], b[i]
		if !cmpIdx {
			x.OutIdx, y.OutIdx = 0, 0
		}
		if x != y {
			return false
		}
	}
	return true
}

// checkCross compares, for every height both parties know, X's own
// commitment with the peer's view of it.
func (e *verifE1) checkCross() {
	var snaps [2][]*verifCommitSnap
	for i, p := range e.parties {
		snaps[i] = e.liveCommits(p)
	}
	for i := 0; i < 2; i++ {
		for _, mine := range snaps[i] {
			if mine.Chain != "local" {
				continue
			}
			for _, theirs := range snaps[1-i] {
				if theirs.Chain != "remote" || theirs.Height != mine.Height {
					continue
				}
				e.vc.Count("oracle_cross_party", 1)
				if mine.Height == 0 {
					continue
				}
				if mine.TxID != theirs.TxID {
					e.viol("cross_party_identity", "txid",
						fmt.Sprintf("height %d of %s's commitment: own txid %v, peer derived %v",
							mine.Height, e.parties[i].Name, mine.TxID, theirs.TxID))
					return
				}
				if mine.Bal != theirs.Bal || mine.FeeSat != theirs.FeeSat ||
					mine.FeePerKw != theirs.FeePerKw ||
					!verifSameHtlcs(mine.Htlcs, theirs.Htlcs, true) {

					e.viol("cross_party_identity", "fields",
						fmt.Sprintf("height %d of %s's commitment: views differ: own %+v peer %+v",
							mine.Height, e.parties[i].Name, *mine, *theirs))
					return
				}
			}
		}
	}
}

// checkDeltas: when a chain shows a new height, the balances may only have
// moved by HTLC amounts (and the fee, borne by the opener).
func (e *verifE1) checkDeltas() {
	oi := e.openerIdx()
	for _, p := range e.parties {
		for _, s := range e.liveCommits(p) {
			k := s.key()
			if _, ok := e.commitHist[k]; ok {
				continue
			}
			e.commitHist[k] = s
			prev, ok := e.commitHist[fmt.Sprintf("%d/%s/%d", s.Holder, s.Chain, s.Height-1)]
			if !ok || s.Height == 0 {
				continue
			}
			e.vc.Count("oracle_balance_delta", 1)
			// owned = balance + (fee+anchors if opener)
			owned := func(c *verifCommitSnap, who int) int64 {
				v := int64(c.Bal[who])
				if who == oi {
					v += 1000 * (c.FeeSat + e.anchorsSat)
				}
				return v
			}
			pm := map[[2]uint64]verifSnapHtlc{}
			for _, h := range prev.Htlcs {
				pm[[2]uint64{uint64(h.Offerer), h.ID}] = h
			}
			cm := map[[2]uint64]verifSnapHtlc{}
			for _, h := range s.Htlcs {
				cm[[2]uint64{uint64(h.Offerer), h.ID}] = h
			}
			var want [2]int64
			unknownFate := false
			for key, h := range cm {
				if _, was := pm[key]; !was {
					want[h.Offerer] -= int64(h.Amt)
				}
			}
			for key, h := range pm {
				if _, still := cm[key]; still {
					continue
				}
				lh := e.findHtlc(h.Offerer, h.ID, h.Amt)
				if lh == nil {
					unknownFate = true
					continue
				}
				if lh.Fate == verifFateSettle {
					want[1-h.Offerer] += int64(h.Amt)
				} else {
					want[h.Offerer] += int64(h.Amt)
				}
			}
			if unknownFate {
				e.viol("balance_delta", "removed-unknown-htlc",
					fmt.Sprintf("commitment %s removed an HTLC the ledger does not know", k))
				return
			}
			for who := 0; who < 2; who++ {
				got := owned(s, who) - owned(prev, who)
				if got != want[who] {
					e.viol("balance_delta", fmt.Sprintf("party%d", who),
						fmt.Sprintf("chain %s height %d->%d: party %d owned value moved by %d msat, HTLC adds/removals explain %d",
							k, prev.Height, s.Height, who, got, want[who]))
					return
				}
			}
		}
	}
}

func (e *verifE1) findHtlc(offerer int, id uint64, amt lnwire.MilliSatoshi) *verifE1Htlc {
	for i := len(e.htlcs) - 1; i >= 0; i-- {
		h := e.htlcs[i]
		if h.Offerer == offerer && h.ID == id && h.Amt == amt && h.SeenInCommit {
			return h
		}
	}
	for i := len(e.htlcs) - 1; i >= 0; i-- {
		h := e.htlcs[i]
		if h.Offerer == offerer && h.ID == id && h.Amt == amt {
			return h
		}
	}
	return nil
}

// checkStep runs the per-step oracles of C01.
func (e *verifE1) checkStep() {
	if e.ended {
		return
	}
	for _, p := range e.parties {
		for _, s := range e.liveCommits(p) {
			e.checkCommit(s)
			if e.ended {
				return
			}
		}
	}
	e.checkCross()
	if e.ended {
		return
	}
	e.refreshLedger(false)
	e.checkDeltas()
}

// checkQuiescent: mirror images and closed-form ledger balances.
func (e *verifE1) checkQuiescent() {
	if e.ended {
		return
	}
	e.vc.Count("oracle_mirror", 1)
	a, b := e.parties[0].ch, e.parties[1].ch
	for _, ch := range []*LightningChannel{a, b} {
		if ch.commitChains.Local.tip() != ch.commitChains.Local.tail() ||
			ch.commitChains.Remote.tip() != ch.commitChains.Remote.tail() {

			e.viol("mirror_at_quiescence", "two-commitments",
				"a chain still holds two commitments at quiescence")
			return
		}
	}
	aL := verifSnapOf(0, "local", a.commitChains.Local.tail())
	aR := verifSnapOf(0, "remote", a.commitChains.Remote.tail())
	bL := verifSnapOf(1, "local", b.commitChains.Local.tail())
	bR := verifSnapOf(1, "remote", b.commitChains.Remote.tail())
	pair := func(x, y *verifCommitSnap, what string) bool {
		if x.Height != y.Height || x.Bal != y.Bal || x.FeeSat != y.FeeSat ||
			x.FeePerKw != y.FeePerKw || !verifSameHtlcs(x.Htlcs, y.Htlcs, true) ||
			(x.Height > 0 && x.TxID != y.TxID) {

			e.viol("mirror_at_quiescence", what,
				fmt.Sprintf("%s: %+v vs %+v", what, *x, *y))
			return false
		}
		return true
	}
	if !pair(aL, bR, "A.local-vs-B.remote") || !pair(bL, aR, "B.local-vs-A.remote") {
		return
	}
	// both commitments carry the same HTLC set and balances up to the fee
	if !verifSameHtlcs(aL.Htlcs, bL.Htlcs, false) {
		e.viol("mirror_at_quiescence", "htlc-sets-differ",
			fmt.Sprintf("HTLC sets of the two commitments differ at quiescence: %+v vs %+v", aL.Htlcs, bL.Htlcs))
		return
	}
	// ledger closed form
	e.vc.Count("oracle_ledger", 1)
	oi := e.openerIdx()
	want := [2]int64{int64(e.initOwned[0]), int64(e.initOwned[1])}
	present := map[[2]uint64]bool{}
	for _, h := range aL.Htlcs {
		present[[2]uint64{uint64(h.Offerer), h.ID}] = true
	}
	cnt := 0
	for _, h := range e.htlcs {
		if h.Dead {
			continue
		}
		in := present[[2]uint64{uint64(h.Offerer), h.ID}]
		switch {
		case in:
			want[h.Offerer] -= int64(h.Amt)
			cnt++
			delete(present, [2]uint64{uint64(h.Offerer), h.ID})
		case h.EverLocked:
			if h.Fate == verifFatePending {
				e.viol("ledger_exactly_once", "pending-htlc-vanished",
					fmt.Sprintf("HTLC %d/%d was irrevocably committed, never resolved, and is gone", h.Offerer, h.ID))
				return
			}
			if h.Fate == verifFateSettle {
				want[h.Offerer] -= int64(h.Amt)
				want[1-h.Offerer] += int64(h.Amt)
			}
		case h.SeenInCommit:
			// was in a commitment, never locked in on both sides, and is
			// gone: impossible for honest peers (nobody may remove it).
			e.viol("ledger_exactly_once", "unlocked-htlc-vanished",
				fmt.Sprintf("HTLC %d/%d was signed into a commitment, never locked in, and is gone", h.Offerer, h.ID))
			return
		}
	}
	if len(present) != 0 {
		e.viol("ledger_exactly_once", "unknown-htlc-present",
			fmt.Sprintf("commitments contain HTLCs the ledger does not know: %v", present))
		return
	}
	for who := 0; who < 2; who++ {
		got := int64(aL.Bal[who])
		if who == oi {
			got += 1000 * (aL.FeeSat + e.anchorsSat)
		}
		if got != want[who] {
			e.viol("ledger_exactly_once", fmt.Sprintf("balance-party%d", who),
				fmt.Sprintf("at quiescence party %d owns %d msat, ledger expects %d (diff %d)", who, got, want[who], got-want[who]))
			return
		}
	}
}
