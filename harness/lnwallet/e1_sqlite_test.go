//go:build kvdb_sqlite

package lnwallet

// E1 on lnd's second kvdb backend family: kvdb/sqlbase + kvdb/sqlite (build
// tag kvdb_sqlite). This file only exists in a kvdb_sqlite build and is only
// listed by the units that run on sqlite; it plugs into the engine through the
// function variables declared next to verifOpenDB.
//
// Crash image. sqlbase.db.Copy is "not implemented", so the image of "the
// process stopped right now" is taken at file level: the database file and
// its write-ahead log (`-wal`) are copied, the shared-memory index (`-shm`) is
// not (it is not part of the durable state: SQLite rebuilds it from the WAL
// whenever the first connection opens the database). Why this is a
// committed-state image:
//   - the backend opens the database with journal_mode=WAL; a transaction is
//     durable exactly when its commit frame is in the WAL, and `COMMIT` has
//     returned before sqlbase's Update returns nil (the only place the engine
//     takes an image: between two actions, or in the commit hook that runs
//     after Update returned nil);
//   - E1 is sequential: nobody else touches either party's database while the
//     image is taken (the sig pool never does), so both files are quiescent;
//     automatic checkpoints run synchronously inside the committing call;
//   - on opening the copy SQLite runs ordinary WAL recovery (no -shm): it
//     replays every frame up to the last valid commit frame and ignores
//     anything after it (frames of a rolled-back transaction, frames left
//     from before a WAL reset carry other salts/checksums).
// This is byte for byte what `kill -9` leaves on disk, and it is verified,
// not only argued: on a sample of the images a second copy is opened and its
// complete bucket tree (every key, value and bucket sequence) is compared
// with the live database read through one read transaction
// (counter sqlite_fork_selfcheck; a difference is a harness failure, not a
// verdict).

import (
	"bytes"
	"context"
	"crypto/sha256"
	"fmt"
	"io"
	"os"
	"path/filepath"
	"time"

	"github.com/btcsuite/btcwallet/walletdb"
	"github.com/lightningnetwork/lnd/kvdb"
	"github.com/lightningnetwork/lnd/kvdb/sqlbase"
	"github.com/lightningnetwork/lnd/kvdb/sqlite"
)

const (
	// as lncfg.SqliteChannelDBName / lncfg.NSChannelDB
	verifSqliteFile   = "channel.sqlite"
	verifSqlitePrefix = "channeldb"
)

func init() {
	verifOpenSqlite = verifSqliteOpen
	verifSqliteImage = verifSqliteForkImage
	verifSqliteReopen = verifSqliteRestart
}

// verifSqliteOpen opens the backend as lncfg.DB.GetBackends does for
// ChanStateDB with db.backend=sqlite and default settings (no query timeout,
// busy timeout 5 s, two connections; pragmas foreign_keys=on, journal_mode=WAL,
// _txlock=immediate are added by sqlite.NewSqliteBackend itself).
func verifSqliteOpen(dir string) (kvdb.Backend, error) {
	sqlbase.Init(2)
	return sqlite.NewSqliteBackend(context.Background(), &sqlite.Config{
		BusyTimeout:    5 * time.Second,
		MaxConnections: 2,
	}, dir, verifSqliteFile, verifSqlitePrefix)
}

func verifCopyFile(src, dst string, mustExist bool) (int64, error) {
	in, err := os.Open(src)
	if err != nil {
		if os.IsNotExist(err) && !mustExist {
			return 0, nil
		}
		return 0, err
	}
	defer in.Close()
	out, err := os.Create(dst)
	if err != nil {
		return 0, err
	}
	n, err := io.Copy(out, in)
	if cerr := out.Close(); err == nil {
		err = cerr
	}
	return n, err
}

// verifSqliteCopy copies database file + WAL from srcDir to dstDir.
func verifSqliteCopy(srcDir, dstDir string) (walBytes int64, err error) {
	if err := os.MkdirAll(dstDir, 0o755); err != nil {
		return 0, err
	}
	if _, err := verifCopyFile(filepath.Join(srcDir, verifSqliteFile),
		filepath.Join(dstDir, verifSqliteFile), true); err != nil {
		return 0, err
	}
	return verifCopyFile(filepath.Join(srcDir, verifSqliteFile+"-wal"),
		filepath.Join(dstDir, verifSqliteFile+"-wal"), false)
}

// verifKVDump reads the whole bucket tree of be in ONE read transaction.
func verifKVDump(be kvdb.Backend) ([]string, error) {
	var lines []string
	var walk func(path string, b walletdb.ReadBucket) error
	walk = func(path string, b walletdb.ReadBucket) error {
		return b.ForEach(func(k, v []byte) error {
			if v != nil {
				lines = append(lines, fmt.Sprintf("%s/%x=%x", path, k, sha256.Sum256(v)))
				return nil
			}
			nb := b.NestedReadBucket(k)
			if nb == nil {
				// sqlbase cursors hand out an EMPTY value as nil
				// (only Get normalises it to []byte{}).
				if gv := b.Get(k); gv == nil || len(gv) != 0 {
					return fmt.Errorf("dump: %s/%x has a nil value but is no bucket", path, k)
				}
				lines = append(lines, fmt.Sprintf("%s/%x=empty", path, k))
				return nil
			}
			seq := uint64(0)
			if s, ok := nb.(interface{ Sequence() uint64 }); ok {
				seq = s.Sequence()
			}
			sub := fmt.Sprintf("%s/%x", path, k)
			lines = append(lines, fmt.Sprintf("%s/ seq=%d", sub, seq))
			return walk(sub, nb)
		})
	}
	err := be.View(func(tx walletdb.ReadTx) error {
		return tx.ForEachBucket(func(k []byte) error {
			b := tx.ReadBucket(k)
			if b == nil {
				return fmt.Errorf("dump: top-level %x is no bucket", k)
			}
			top := fmt.Sprintf("/%x", k)
			lines = append(lines, top+"/")
			return walk(top, b)
		})
	}, func() { lines = nil })
	return lines, err
}

var verifSqliteImageSeq int

// verifSqliteForkImage: see the file comment. The first three images of a
// process (shard) and every eighth after that are self-checked.
func verifSqliteForkImage(e *verifE1, i int, dstDir string) error {
	p := e.parties[i]
	wal, err := verifSqliteCopy(p.dbDir, dstDir)
	if err != nil {
		return err
	}
	e.vc.Count("sqlite_fork_images", 1)
	if wal > 0 {
		// the copy carries committed frames that are not in the main
		// file yet: opening it goes through WAL recovery.
		e.vc.Count("sqlite_fork_images_with_wal", 1)
	}
	verifSqliteImageSeq++
	if verifSqliteImageSeq > 3 && verifSqliteImageSeq%8 != 0 {
		return nil
	}
	return verifSqliteSelfCheck(e, i, dstDir)
}

func verifSqliteSelfCheck(e *verifE1, i int, imgDir string) error {
	p := e.parties[i]
	// a copy of the copy: opening + closing a database checkpoints and
	// removes its WAL, and the fork itself must still find the WAL.
	scDir := imgDir + "-sc"
	if _, err := verifSqliteCopy(imgDir, scDir); err != nil {
		return err
	}
	defer os.RemoveAll(scDir)
	// Only a DIFFERENCE between the two dumps says that the image is not the
	// committed state (harness failure). If a dump cannot be taken or is
	// implausibly small, the read path of the backend itself is broken:
	// that is for the C02 oracles to judge on the reloaded channel, the
	// self-check is merely unavailable (diagnostic; the floor on
	// sqlite_fork_selfcheck keeps a run without self-checks from passing).
	unavailable := func(why string) error {
		e.vc.Count("sqlite_fork_selfcheck_unavailable", 1)
		e.vc.Diag("sqlite_fork_selfcheck_unavailable", why)
		return nil
	}
	be, err := verifSqliteOpen(scDir)
	if err != nil {
		return unavailable(fmt.Sprintf("open: %v", err))
	}
	got, err := verifKVDump(be)
	be.Close()
	if err != nil {
		return unavailable(fmt.Sprintf("dump of the image: %v", err))
	}
	want, err := verifKVDump(p.backend)
	if err != nil {
		return unavailable(fmt.Sprintf("dump of the live db: %v", err))
	}
	if len(want) < 20 {
		return unavailable(fmt.Sprintf("live dump of %s has only %d entries", p.Name, len(want)))
	}
	e.vc.Count("sqlite_fork_selfcheck", 1)
	e.vc.Count("sqlite_fork_selfcheck_keys", int64(len(want)))
	for k := 0; k < len(want) || k < len(got); k++ {
		var w, g string
		if k < len(want) {
			w = want[k]
		}
		if k < len(got) {
			g = got[k]
		}
		if w != g {
			return fmt.Errorf("selfcheck: file-level image of %s differs from the live database "+
				"at entry %d: live %q image %q (live %d entries, image %d)", p.Name, k, w, g,
				len(want), len(got))
		}
	}
	return nil
}

var verifSqliteRestartSeq int

// verifSqliteRestart: a process restart of party i as far as the database is
// concerned. Kind 1 = orderly shutdown (Close: the last connection
// checkpoints and removes the WAL) and start in place; kind 2 = the process
// is killed: the new process finds database file + WAL as they were (the
// image is taken first, the old handle is then released) and recovers.
func verifSqliteRestart(e *verifE1, i int) error {
	p := e.parties[i]
	kind := p.reopenKind
	p.reopenKind = 0
	var hook func()
	if d, ok := p.backend.(*verifE1DB); ok {
		hook = d.hook
		d.hook = nil
	}
	var before []string
	check := verifSqliteRestartSeq%4 == 0
	verifSqliteRestartSeq++
	if check {
		var err error
		if before, err = verifKVDump(p.backend); err != nil {
			check = false // broken read path: for the oracles to judge
		}
	}
	switch kind {
	case 2:
		newDir := fmt.Sprintf("%s-k%d", filepath.Join(e.dir, p.Name), verifSqliteRestartSeq)
		if _, err := verifSqliteCopy(p.dbDir, newDir); err != nil {
			return err
		}
		old := p.dbDir
		p.db.Close()
		os.RemoveAll(old)
		p.dbDir = newDir
		e.vc.Count("sqlite_restart_killed", 1)
	default:
		if err := p.db.Close(); err != nil {
			return fmt.Errorf("close: %w", err)
		}
		if _, err := os.Stat(filepath.Join(p.dbDir, verifSqliteFile+"-wal")); err == nil {
			e.vc.Count("sqlite_wal_left_after_close", 1)
		}
		e.vc.Count("sqlite_restart_clean", 1)
	}
	p.db, p.backend = nil, nil
	db, be, err := verifOpenDB(p.dbDir)
	if err != nil {
		return fmt.Errorf("reopen: %w", err)
	}
	p.db, p.backend = db, be
	if d, ok := be.(*verifE1DB); ok {
		d.hook = hook
	}
	if check {
		after, err := verifKVDump(p.backend)
		if err != nil {
			after = []string{"dump failed: " + err.Error()}
		}
		e.vc.Count("sqlite_restart_selfcheck", 1)
		// diagnostic only: what a restart loses is judged by the C02
		// oracles on the reloaded channel.
		if !bytes.Equal([]byte(fmt.Sprint(before)), []byte(fmt.Sprint(after))) {
			e.vc.Diag("sqlite_restart_changed_db", fmt.Sprintf("restart kind %d of %s changed the "+
				"database content (%d entries before, %d after)", kind, p.Name, len(before), len(after)))
		}
	}
	e.logf("%s: database backend closed and reopened (kind %d)", p.Name, kind)
	return nil
}
