package lnwallet

// C03 monitor: reconnection always resynchronises. Disconnects (each
// direction having delivered an arbitrary in-order prefix) are injected at
// PRNG positions and, in the systematic part, at every index of a schedule;
// repeated disconnects and disconnects during resynchronisation included.

import (
	"testing"
)

func verifC03Case(vc *verifCtx, i int, sysCutAt int, schedIdx int) {
	r := vc.Rng(schedIdx)
	p := verifE1GenParams(r)
	nActions := 25 + r.Intn(45)
	cutPct := 5 + r.Intn(10)
	fr := r.Fork("faults")
	vc.Case(i, map[string]any{"params": p, "actions": nActions, "cutPct": cutPct,
		"sysCutAt": sysCutAt, "sched": schedIdx})
	e, err := verifE1New(vc, r, p)
	if err != nil {
		vc.Count("setup_skipped", 1)
		vc.CaseDone(i)
		return
	}
	defer e.Close()
	e.richAdds = true
	e.oracles = map[string]bool{"retransmit_exact": true, "tx_exact": false}
	stripDLP := p.TypeName == "legacy" && fr.Chance(1, 2)
	cut := func(label string) {
		e.nDisconnects++
		if !e.reconnect(label, stripDLP) {
			return
		}
		// disconnect again during resynchronisation: deliver k of the
		// retransmitted messages, then cut again.
		for rep := 0; rep < 3 && !e.ended && fr.Chance(1, 3); rep++ {
			k := fr.Intn(4)
			for d := 0; d < k && !e.ended; d++ {
				dir := fr.Intn(2)
				if len(e.q[dir]) == 0 {
					dir = 1 - dir
				}
				if len(e.q[dir]) == 0 {
					break
				}
				e.actDeliver(dir, false)
				e.checkStep()
			}
			if e.ended {
				return
			}
			vc.Count("cuts_during_resync", 1)
			e.nDisconnects++
			if !e.reconnect("disconnect-during-resync", stripDLP) {
				return
			}
		}
	}
	for a := 0; a < nActions && !e.ended; a++ {
		cutNow := false
		if sysCutAt >= 0 {
			cutNow = a == sysCutAt
		} else {
			cutNow = fr.Intn(100) < cutPct
		}
		if cutNow {
			cut("disconnect")
			e.checkStep()
			continue
		}
		if e.step(true) != "noop" {
			e.checkStep()
		}
	}
	for round := 0; round < 2 && !e.ended; round++ {
		if e.drain(true, func(string) { e.checkStep() }) {
			e.checkQuiescent()
		}
	}
	if e.constraintTm {
		vc.Count("constraint_terminated", 1)
	}
	vc.Count("disconnects", int64(e.nDisconnects))
	if e.everLocked > 0 && e.nDisconnects > 0 && !e.constraintTm {
		vc.Count("nontrivial", 1)
		if stripDLP {
			vc.Count("without_dlp_fields", 1)
		}
		vc.Sig(e.signature() + verifJoin("", stripDLP))
	}
	if i%40 == 0 {
		tr := e.trace
		if len(tr) > 70 {
			tr = tr[:70]
		}
		vc.Sample(map[string]any{"case": i, "params": p, "trace_head": tr,
			"disconnects": e.nDisconnects, "stripDLP": stripDLP, "end": e.endReason})
	}
	vc.CaseDone(i)
}

func TestVerifC03(t *testing.T) {
	vc := verifStart(t, "C03", "reconnect")
	defer vc.Finish()
	verifE1SelfCheck(t)
	total := vc.N(700, 6000)
	for i := 0; i < total; i++ {
		if !vc.Mine(i) {
			continue
		}
		verifC03Case(vc, i, -1, i)
	}
	nSys := vc.N(8, 80)
	base := 1 << 20
	idx := base
	for s := 0; s < nSys; s++ {
		for k := 0; k < 40; k++ {
			if vc.Mine(idx) {
				verifC03Case(vc, idx, k, base+s)
				vc.Count("systematic_replays", 1)
			}
			idx++
		}
	}
}
