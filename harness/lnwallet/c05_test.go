package lnwallet

// C05 monitor: whichever commitment confirms, the node holds valid spends for
// everything it owns (DESIGN.md §3 C05; engines E1 + E3).
//
// At PRNG-chosen states of E1 schedules (mid-dance states with a pending
// remote commitment, states right after a reconnect/reload, quiescent states)
// a FORK of the closing party (DB copy + fresh reload; the schedule continues
// on the live objects) is asked for
//
//  1. its own force close (ForceClose): the signed commitment, every signed
//     second-level HTLC transaction and every sweep descriptor, and
//  2. the resolutions for the counterparty's current and pending
//     not-yet-revoked commitment (NewUnilateralCloseSummary, fed exactly as
//     contractcourt/chain_watcher.go feeds it),
//
// and every spend is executed by btcd's script interpreter against the REAL
// previous output (funding output / output of the broadcast commitment /
// output of the signed second-level transaction) - never against the output
// copy lnd put into its own SignDescriptor.
//
// Sweep descriptors are turned into transactions the way sweep/txgenerator.go
// does (version 2, sequence = BlocksToMaturity, locktime = RequiredLockTime,
// RequiredTxOut at the input's index, prevout fetcher built from the inputs'
// SignDesc outputs) and signed through input.Input.CraftInputScript with the
// party's MockSigner. The input/witness type of each descriptor is chosen by
// a MIRROR of contractcourt's resolvers (commitSweepResolver.decideWitnessType,
// htlcTimeoutResolver, htlcSuccessResolver, htlcLeaseResolver.makeSweepInput,
// anchorResolver); this unit therefore does not see a wrong arm in those
// resolvers themselves (stated in the evidence).

import (
	"fmt"
	"testing"

	"github.com/btcsuite/btcd/txscript/v2"
	"github.com/btcsuite/btcd/wire/v2"
	"github.com/lightningnetwork/lnd/chainntnfs"
	"github.com/lightningnetwork/lnd/channeldb"
	"github.com/lightningnetwork/lnd/fn/v2"
	"github.com/lightningnetwork/lnd/input"
	"github.com/lightningnetwork/lnd/lntypes"
)

// verifC05ValueIsVerdict: the value/completeness clause (statement: "the value
// claimable equals its balance plus HTLCs due to it up to fees and dust").
const verifC05ValueIsVerdict = true

type verifC05Run struct {
	e  *verifE1
	vc *verifCtx
	t  testing.TB

	afterReload bool // a reconnect/reload happened right before this check
}

// ---------------------------------------------------------------------------
// mirrors of contractcourt's input selection

// verifC05CommitInput mirrors commitSweepResolver.decideWitnessType + the
// input construction of commitSweepResolver.Launch.
func verifC05CommitInput(st *channeldb.OpenChannel, res *CommitOutputResolution,
	maturity uint32) (*input.BaseInput, error) {

	ct := st.ChanType
	var leaseExpiry uint32
	if ct.HasLeaseExpiration() {
		leaseExpiry = st.ThawHeight
	}
	hasCLTV := st.IsInitiator && leaseExpiry > 0

	var isLocalCommitTx bool
	signDesc := res.SelfOutputSignDesc
	switch {
	case ct.IsTaproot():
		delayKey := st.LocalChanCfg.DelayBasePoint.PubKey
		nonDelayKey := st.LocalChanCfg.PaymentBasePoint.PubKey
		signKey := signDesc.KeyDesc.PubKey
		if signKey == nil || (!signKey.IsEqual(delayKey) && !signKey.IsEqual(nonDelayKey)) {
			return nil, fmt.Errorf("unknown sign key")
		}
		isLocalCommitTx = signKey.IsEqual(delayKey)
	default:
		if len(signDesc.WitnessScript) == 0 {
			return nil, fmt.Errorf("empty witness script")
		}
		isLocalCommitTx = signDesc.WitnessScript[0] == txscript.OP_IF
	}
	isDelayedOutput := res.MaturityDelay != 0

	var wt input.StandardWitnessType
	switch {
	case isLocalCommitTx && ct.IsTaprootFinal():
		wt = input.TaprootLocalCommitSpendFinal
	case isLocalCommitTx && ct.IsTaproot():
		wt = input.TaprootLocalCommitSpend
	case !isLocalCommitTx && ct.IsTaprootFinal():
		wt = input.TaprootRemoteCommitSpendFinal
	case !isLocalCommitTx && ct.IsTaproot():
		wt = input.TaprootRemoteCommitSpend
	case isLocalCommitTx && hasCLTV:
		wt = input.LeaseCommitmentTimeLock
	case isLocalCommitTx:
		wt = input.CommitmentTimeLock
	case isDelayedOutput && hasCLTV:
		wt = input.LeaseCommitmentToRemoteConfirmed
	case isDelayedOutput:
		wt = input.CommitmentToRemoteConfirmed
	case signDesc.SingleTweak == nil:
		wt = input.CommitSpendNoDelayTweakless
	default:
		wt = input.CommitmentNoDelay
	}
	if hasCLTV {
		return input.NewCsvInputWithCltv(&res.SelfOutPoint, wt,
			&res.SelfOutputSignDesc, verifC05Height, maturity, leaseExpiry,
			input.WithResolutionBlob(res.ResolutionBlob)), nil
	}
	return input.NewCsvInput(&res.SelfOutPoint, wt, &res.SelfOutputSignDesc,
		verifC05Height, maturity, input.WithResolutionBlob(res.ResolutionBlob)), nil
}

// verifC05SecondLevelOutInput mirrors htlc{Timeout,Success}Resolver's choice
// for the output of a confirmed second-level transaction
// (htlcLeaseResolver.makeSweepInput).
func verifC05SecondLevelOutInput(st *channeldb.OpenChannel, op *wire.OutPoint,
	desc *input.SignDescriptor, csv uint32, success bool) *input.BaseInput {

	ct := st.ChanType
	isTaproot := txscript.IsPayToTaproot(desc.Output.PkScript)
	var wt, cltvWt input.StandardWitnessType
	if success {
		cltvWt = input.LeaseHtlcAcceptedSuccessSecondLevel
		switch {
		case ct.IsTaprootFinal():
			wt = input.TaprootHtlcAcceptedSuccessSecondLevelFinal
		case isTaproot:
			wt = input.TaprootHtlcAcceptedSuccessSecondLevel
		default:
			wt = input.HtlcAcceptedSuccessSecondLevel
		}
	} else {
		cltvWt = input.LeaseHtlcOfferedTimeoutSecondLevel
		switch {
		case ct.IsTaprootFinal():
			wt = input.TaprootHtlcOfferedTimeoutSecondLevelFinal
		case isTaproot:
			wt = input.TaprootHtlcOfferedTimeoutSecondLevel
		default:
			wt = input.HtlcOfferedTimeoutSecondLevel
		}
	}
	var leaseExpiry uint32
	if ct.HasLeaseExpiration() {
		leaseExpiry = st.ThawHeight
	}
	if st.IsInitiator && leaseExpiry > 0 {
		return input.NewCsvInputWithCltv(op, cltvWt, desc, verifC05Height, csv, leaseExpiry)
	}
	return input.NewCsvInput(op, wt, desc, verifC05Height, csv)
}

// verifC05AnchorInput mirrors anchorResolver.Launch.
func verifC05AnchorInput(st *channeldb.OpenChannel, res *AnchorResolution) *input.BaseInput {
	var wt input.StandardWitnessType = input.CommitmentAnchor
	if st.ChanType.IsTaproot() {
		wt = input.TaprootAnchorSweepSpend
	}
	in := input.MakeBaseInput(&res.CommitAnchor, wt, &res.AnchorSignDescriptor,
		verifC05Height, nil)
	return &in
}

// ---------------------------------------------------------------------------
// helpers

func (c *verifC05Run) key(kind string) string {
	return c.e.p.TypeName + ":" + kind
}

// second-level fee of the channel type (BOLT-3 weights; zero for zero-fee
// HTLC transactions, which includes the engine's taproot types).
func (c *verifC05Run) secondLevelFee(timeout bool, feePerKw int64) int64 {
	ct := c.e.p.ChanType
	var w int64
	switch {
	case ct.ZeroHtlcTxFee() || ct.IsTaproot():
		w = 0
	case ct.HasAnchors():
		w = 706
		if timeout {
			w = 666
		}
	default:
		w = 703
		if timeout {
			w = 663
		}
	}
	return w * feePerKw / 1000
}

func (c *verifC05Run) wantHtlcSeq() uint32 {
	if c.e.p.ChanType.HasAnchors() {
		return 1
	}
	return 0
}

func verifC05HtlcByOutput(htlcs []channeldb.HTLC) map[uint32]*channeldb.HTLC {
	m := map[uint32]*channeldb.HTLC{}
	for k := range htlcs {
		if htlcs[k].OutputIndex >= 0 {
			m[uint32(htlcs[k].OutputIndex)] = &htlcs[k]
		}
	}
	return m
}

type verifC05Claims struct {
	claimed map[uint32]bool
	value   int64 // value finally claimable by us
	nOut    int   // offered (outgoing) non-dust HTLC outputs claimed
	nIn     int   // received (incoming) non-dust HTLC outputs claimed
}

// negControl: the control spend MUST be rejected by the interpreter; an
// accepted control means the oracle is vacuous.
func (c *verifC05Run) negControl(name string, craftErr, execErr error, tx *wire.MsgTx) {
	c.vc.Count("negctl_"+name, 1)
	if craftErr != nil {
		c.t.Fatalf("C05 negative control %s: could not be built: %v", name, craftErr)
	}
	if execErr == nil {
		c.t.Fatalf("C05 negative control %s was ACCEPTED by the interpreter (oracle vacuous): tx %s\ntrace tail: %v",
			name, verifC05TxHex(tx), c.traceTail())
	}
}

func (c *verifC05Run) traceTail() []string {
	tr := c.e.trace
	if len(tr) > 12 {
		tr = tr[len(tr)-12:]
	}
	return tr
}

// sweep runs one descriptor-derived spend as a verdict-bearing oracle.
func (c *verifC05Run) sweep(oracle, kind, what string, signer input.Signer,
	inp input.Input, realPrev *wire.TxOut, withWallet bool) bool {

	c.vc.Count("oracle_"+oracle, 1)
	tx, craftErr, execErr := verifC05Spend(signer, inp, realPrev, withWallet)
	if craftErr != nil {
		c.e.viol(oracle, c.key(kind)+":craft",
			fmt.Sprintf("%s: lnd could not produce the input script for %s (witness type %v): %v",
				kind, what, inp.WitnessType(), craftErr))
		return false
	}
	if execErr != nil {
		c.e.viol(oracle, c.key(kind),
			fmt.Sprintf("%s: script interpreter rejects the spend of %s (witness type %v, sequence %d, locktime %d, prevout value %d pkScript %x): %v; tx %s",
				kind, what, inp.WitnessType(), tx.TxIn[0].Sequence, tx.LockTime,
				realPrev.Value, realPrev.PkScript, execErr, verifC05TxHex(tx)))
		return false
	}
	return true
}

// prevOf resolves an outpoint against a real transaction.
func (c *verifC05Run) prevOf(oracle, kind, what string, op wire.OutPoint,
	tx *wire.MsgTx) *wire.TxOut {

	if op.Hash != tx.TxHash() || int(op.Index) >= len(tx.TxOut) {
		c.e.viol(oracle, c.key(kind)+":outpoint",
			fmt.Sprintf("%s: %s points to %v which is not an output of the confirmed transaction %v (%d outputs)",
				kind, what, op, tx.TxHash(), len(tx.TxOut)))
		return nil
	}
	return tx.TxOut[op.Index]
}

// ---------------------------------------------------------------------------
// 1. local force close

func (c *verifC05Run) localClose(i int, fk *verifFork) {
	e := c.e
	p := e.parties[i]
	st := fk.state
	kind := "local"
	H := st.LocalCommitment.CommitHeight
	if H == 0 {
		c.vc.Count("skipped_height0", 1)
		return
	}
	if uint32(st.LocalChanCfg.CsvDelay) != verifC05Csv[i] {
		c.t.Fatalf("C05: engine csv constants changed (party %d has %d)", i, st.LocalChanCfg.CsvDelay)
	}
	c.vc.Count("local_closes", 1)

	var (
		sum *LocalForceCloseSummary
		err error
	)
	if c.vc.Guard("force_close_error", c.key(kind)+":panic", e.witness(), func() {
		sum, err = fk.ch.ForceClose()
	}) {
		e.ended = true
		return
	}
	if err != nil {
		e.viol("force_close_error", c.key(kind),
			fmt.Sprintf("%s.ForceClose() at local height %d failed: %v", p.Name, H, err))
		return
	}
	closeTx := sum.CloseTx

	// (a) own latest commitment fully signed and valid against the funding output.
	c.vc.Count("oracle_local_commit_valid", 1)
	pk, err := e.verifFundingScript()
	if err != nil {
		c.t.Fatalf("funding script: %v", err)
	}
	if err := verifExec(pk, e.p.CapacitySat, closeTx, 0, nil); err != nil {
		e.viol("local_commit_valid", c.key(kind),
			fmt.Sprintf("%s: signed commitment (height %d) from ForceClose is rejected against the funding output: %v; tx %s",
				p.Name, H, err, verifC05TxHex(closeTx)))
		return
	}
	if sum.ContractResolutions.IsNone() {
		e.viol("force_close_error", c.key(kind)+":no-resolutions",
			"ForceClose returned no contract resolutions")
		return
	}
	res := sum.ContractResolutions.UnsafeFromSome()
	byOut := verifC05HtlcByOutput(st.LocalCommitment.Htlcs)
	feeKw := int64(st.LocalCommitment.FeePerKw)
	cl := &verifC05Claims{claimed: map[uint32]bool{}}
	claim := func(what string, idx uint32) bool {
		if cl.claimed[idx] {
			e.viol("claims_distinct", c.key(kind),
				fmt.Sprintf("%s: two resolutions spend output %d of the commitment (%s)", kind, idx, what))
			return false
		}
		cl.claimed[idx] = true
		return true
	}

	// (b) second-level transactions + (c) their outputs.
	if res.HtlcResolutions != nil {
		for k := range res.HtlcResolutions.OutgoingHTLCs {
			if !c.localHtlc(i, fk, kind, closeTx, byOut, feeKw, cl, claim,
				&res.HtlcResolutions.OutgoingHTLCs[k], nil) {
				return
			}
		}
		for k := range res.HtlcResolutions.IncomingHTLCs {
			if !c.localHtlc(i, fk, kind, closeTx, byOut, feeKw, cl, claim,
				nil, &res.HtlcResolutions.IncomingHTLCs[k]) {
				return
			}
		}
	}

	// (c) delayed to-local output.
	if cr := res.CommitResolution; cr != nil {
		prev := c.prevOf("to_local_sweep_valid", kind, "CommitResolution.SelfOutPoint", cr.SelfOutPoint, closeTx)
		if prev == nil || !claim("to-local", cr.SelfOutPoint.Index) {
			return
		}
		inp, err := verifC05CommitInput(st, cr, cr.MaturityDelay)
		if err != nil {
			e.viol("to_local_sweep_valid", c.key(kind)+":witness-type",
				fmt.Sprintf("decideWitnessType mirror fails on the local CommitResolution: %v", err))
			return
		}
		if !c.sweep("to_local_sweep_valid", kind, "the delayed to-local output", p.signer, inp, prev, false) {
			return
		}
		if cr.MaturityDelay != verifC05Csv[i] {
			c.vc.Diag("to_local_maturity_not_csv", fmt.Sprintf("%s MaturityDelay %d csv %d",
				e.p.TypeName, cr.MaturityDelay, verifC05Csv[i]))
		}
		cl.value += prev.Value
		// negative control: one block too early (independent csv constant).
		ninp, _ := verifC05CommitInput(st, cr, verifC05Csv[i]-1)
		ntx, ce, ee := verifC05Spend(p.signer, ninp, prev, false)
		c.negControl("to_local_csv_minus_1", ce, ee, ntx)
	}

	// (c) anchor.
	if ar := res.AnchorResolution; ar != nil {
		prev := c.prevOf("anchor_sweep_valid", kind, "AnchorResolution.CommitAnchor", ar.CommitAnchor, closeTx)
		if prev == nil || !claim("anchor", ar.CommitAnchor.Index) {
			return
		}
		if !c.sweep("anchor_sweep_valid", kind, "our anchor", p.signer,
			verifC05AnchorInput(st, ar), prev, false) {
			return
		}
		cl.value += prev.Value
	}

	c.valueCheck(i, kind, closeTx, cl, &st.LocalCommitment, i, st)
	c.noteClose(i, kind, cl)
}

// localHtlc checks one second-level transaction of our own commitment and the
// sweep of its output. Exactly one of out/in is non-nil.
func (c *verifC05Run) localHtlc(i int, fk *verifFork, kind string, closeTx *wire.MsgTx,
	byOut map[uint32]*channeldb.HTLC, feeKw int64, cl *verifC05Claims,
	claim func(string, uint32) bool, out *OutgoingHtlcResolution,
	in *IncomingHtlcResolution) bool {

	e := c.e
	p := e.parties[i]
	st := fk.state
	timeout := out != nil
	var (
		stx      *wire.MsgTx
		details  *input.SignDetails
		csv      uint32
		claimOp  wire.OutPoint
		sweepDsc *input.SignDescriptor
		oracle   = "local_success_tx_valid"
		name     = "HTLC-success"
	)
	if timeout {
		stx, details, csv, claimOp, sweepDsc = out.SignedTimeoutTx, out.SignDetails,
			out.CsvDelay, out.ClaimOutpoint, &out.SweepSignDesc
		oracle, name = "local_timeout_tx_valid", "HTLC-timeout"
	} else {
		stx, details, csv, claimOp, sweepDsc = in.SignedSuccessTx, in.SignDetails,
			in.CsvDelay, in.ClaimOutpoint, &in.SweepSignDesc
	}
	c.vc.Count("oracle_"+oracle, 1)
	if stx == nil || len(stx.TxIn) != 1 || len(stx.TxOut) != 1 {
		e.viol(oracle, c.key(kind)+":shape",
			fmt.Sprintf("%s: resolution on our own commitment carries no 1-in-1-out signed %s transaction", kind, name))
		return false
	}
	op := stx.TxIn[0].PreviousOutPoint
	prev := c.prevOf(oracle, kind, name+" input", op, closeTx)
	if prev == nil || !claim(name, op.Index) {
		return false
	}
	h := byOut[op.Index]
	if h == nil || h.Incoming == timeout {
		e.viol(oracle, c.key(kind)+":wrong-output",
			fmt.Sprintf("%s: %s transaction spends output %d which is not a matching HTLC output of the commitment", kind, name, op.Index))
		return false
	}
	lh := c.e.verifC05Ledger(i, h)
	if lh == nil {
		c.vc.Diag("ledger_miss", fmt.Sprintf("%s htlc %d incoming=%v", kind, h.HtlcIndex, h.Incoming))
		return true
	}
	tx := stx.Copy()
	isTaproot := txscript.IsPayToTaproot(stx.TxOut[0].PkScript)
	preIdx := 3
	if isTaproot {
		preIdx = 2
	}
	if !timeout {
		// htlcIncomingContestResolver.applyPreimage.
		if len(tx.TxIn[0].Witness) <= preIdx {
			e.viol(oracle, c.key(kind)+":witness-shape",
				fmt.Sprintf("%s: success witness has %d items, preimage slot %d missing", kind, len(tx.TxIn[0].Witness), preIdx))
			return false
		}
		tx.TxIn[0].Witness[preIdx] = lh.Preimage[:]
	}
	if err := verifExec(prev.PkScript, prev.Value, tx, 0, nil); err != nil {
		e.viol(oracle, c.key(kind),
			fmt.Sprintf("%s: %s's signed %s tx for htlc %d (amt %d, output %d of commitment height %d) is rejected by the interpreter: %v; tx %s",
				kind, p.Name, name, h.HtlcIndex, h.Amt, op.Index, st.LocalCommitment.CommitHeight, err, verifC05TxHex(tx)))
		return false
	}
	// BOLT-3 locktime / sequence of second-level transactions.
	c.vc.Count("oracle_htlc_tx_locktime", 1)
	wantLock := uint32(0)
	if timeout {
		wantLock = lh.Expiry
	}
	if tx.LockTime != wantLock {
		e.viol("htlc_tx_locktime", c.key(kind)+":"+name,
			fmt.Sprintf("%s: %s tx of htlc %d has locktime %d, HTLC expiry demands %d", kind, name, h.HtlcIndex, tx.LockTime, wantLock))
		return false
	}
	if timeout && out.Expiry != lh.Expiry {
		e.viol("htlc_tx_locktime", c.key(kind)+":resolution-expiry",
			fmt.Sprintf("%s: OutgoingHtlcResolution.Expiry %d, HTLC expiry %d", kind, out.Expiry, lh.Expiry))
		return false
	}
	c.vc.Count("oracle_htlc_tx_sequence", 1)
	if tx.TxIn[0].Sequence != c.wantHtlcSeq() {
		e.viol("htlc_tx_sequence", c.key(kind)+":"+name,
			fmt.Sprintf("%s: %s tx of htlc %d has input sequence %d, channel type %s requires %d",
				kind, name, h.HtlcIndex, tx.TxIn[0].Sequence, e.p.TypeName, c.wantHtlcSeq()))
		return false
	}
	// negative controls.
	if timeout {
		n := tx.Copy()
		n.LockTime = lh.Expiry - 1
		c.negControl("timeout_tx_locktime_minus_1", nil, verifExec(prev.PkScript, prev.Value, n, 0, nil), n)
	} else {
		n := tx.Copy()
		bad := lh.Preimage
		bad[7] ^= 0x20
		n.TxIn[0].Witness[preIdx] = bad[:]
		c.negControl("success_tx_wrong_preimage", nil, verifExec(prev.PkScript, prev.Value, n, 0, nil), n)
	}

	// re-signed aggregate (what the sweeper really publishes for anchor
	// channel types: SINGLE|ANYONECANPAY + wallet input + change).
	if details != nil {
		var ri input.Input
		switch {
		case timeout && isTaproot:
			ri = verifC05Ptr(input.MakeHtlcSecondLevelTimeoutTaprootInput(stx, details, verifC05Height))
		case timeout:
			ri = verifC05Ptr(input.MakeHtlcSecondLevelTimeoutAnchorInput(stx, details, verifC05Height))
		case isTaproot:
			ri = verifC05Ptr(input.MakeHtlcSecondLevelSuccessTaprootInput(stx, details,
				lntypes.Preimage(lh.Preimage), verifC05Height))
		default:
			ri = verifC05Ptr(input.MakeHtlcSecondLevelSuccessAnchorInput(stx, details,
				lntypes.Preimage(lh.Preimage), verifC05Height))
		}
		if !c.sweep("second_level_resign_valid", kind,
			fmt.Sprintf("htlc %d through the re-signed aggregated %s tx", h.HtlcIndex, name),
			p.signer, ri, prev, true) {
			return false
		}
	} else if e.p.ChanType.HasAnchors() {
		c.vc.Diag("anchor_htlc_without_sign_details", e.p.TypeName)
	}

	// (c) the second-level output after the CSV delay.
	if claimOp.Hash != stx.TxHash() || claimOp.Index != 0 {
		e.viol("second_level_sweep_valid", c.key(kind)+":outpoint",
			fmt.Sprintf("%s: ClaimOutpoint %v is not output 0 of the signed %s tx %v", kind, claimOp, name, stx.TxHash()))
		return false
	}
	out2 := stx.TxOut[0]
	si := verifC05SecondLevelOutInput(st, &claimOp, sweepDsc, csv, !timeout)
	if !c.sweep("second_level_sweep_valid", kind,
		fmt.Sprintf("the %s output of htlc %d", name, h.HtlcIndex), p.signer, si, out2, false) {
		return false
	}
	ni := verifC05SecondLevelOutInput(st, &claimOp, sweepDsc, verifC05Csv[i]-1, !timeout)
	ntx, ce, ee := verifC05Spend(p.signer, ni, out2, false)
	c.negControl("second_level_csv_minus_1", ce, ee, ntx)

	cl.value += out2.Value
	if timeout {
		cl.nOut++
	} else {
		cl.nIn++
	}
	// per-HTLC value: amount minus the second-level fee of the channel type.
	want := int64(h.Amt/1000) - c.secondLevelFee(timeout, feeKw)
	if out2.Value != want {
		c.vc.Diag("second_level_value", fmt.Sprintf("%s %s htlc amt %d: output %d, expected %d",
			e.p.TypeName, name, h.Amt, out2.Value, want))
	}
	return true
}

func verifC05Ptr[T any](v T) *T { return &v }

// ---------------------------------------------------------------------------
// 2. the counterparty's commitment confirms

func (c *verifC05Run) remoteClose(i int, fk *verifFork, pending bool) {
	e := c.e
	p := e.parties[i]
	peer := e.parties[1-i]
	st := fk.state
	kind := "remote-current"
	if pending {
		kind = "remote-pending"
	}

	// as chain_watcher.newChainSet: refresh commitments, pending tip and
	// revocation state from disk.
	_, remoteCommit, err := st.LatestCommitments()
	if err != nil {
		e.viol("remote_close_error", c.key(kind)+":LatestCommitments", err.Error())
		return
	}
	tip, err := st.RemoteCommitChainTip()
	if err != nil && err != channeldb.ErrNoPendingCommit {
		e.viol("remote_close_error", c.key(kind)+":RemoteCommitChainTip", err.Error())
		return
	}
	if _, err := st.RemoteRevocationStore(); err != nil {
		e.viol("remote_close_error", c.key(kind)+":RemoteRevocationStore", err.Error())
		return
	}
	rc := *remoteCommit
	commitPoint := st.RemoteCurrentRevocation
	if pending {
		if tip == nil {
			return
		}
		rc = tip.Commitment
		commitPoint = st.RemoteNextRevocation
	}
	if rc.CommitHeight == 0 {
		c.vc.Count("skipped_height0", 1)
		return
	}
	peerTx := peer.heldTx[rc.CommitHeight]
	if peerTx == nil {
		// the peer never held this commitment fully signed (our signature
		// is still in flight): it cannot broadcast it.
		c.vc.Count("remote_not_held_by_peer", 1)
		return
	}
	if commitPoint == nil {
		e.viol("remote_close_error", c.key(kind)+":no-commit-point",
			fmt.Sprintf("%s has no commitment point for the peer's %s commitment %d", p.Name, kind, rc.CommitHeight))
		return
	}
	txid := peerTx.TxHash()
	if rc.CommitTx == nil || rc.CommitTx.TxHash() != txid {
		// cross-party identity is C01's subject; chain_watcher would not
		// recognise the transaction.
		c.vc.Diag("peer_tx_not_recognised", fmt.Sprintf("%s %s height %d", e.p.TypeName, kind, rc.CommitHeight))
		return
	}
	pk, err := e.verifFundingScript()
	if err != nil {
		c.t.Fatalf("funding script: %v", err)
	}
	if err := verifExec(pk, e.p.CapacitySat, peerTx, 0, nil); err != nil {
		c.vc.Diag("peer_tx_invalid", fmt.Sprintf("%s %s: %v", e.p.TypeName, kind, err))
		return
	}
	c.vc.Count("remote_closes", 1)
	if pending {
		c.vc.Count("remote_pending_closes", 1)
	}

	var sum *UnilateralCloseSummary
	if c.vc.Guard("remote_close_error", c.key(kind)+":panic", e.witness(), func() {
		sum, err = NewUnilateralCloseSummary(st, p.signer, &chainntnfs.SpendDetail{
			SpentOutPoint:  &st.FundingOutpoint,
			SpenderTxHash:  &txid,
			SpendingTx:     peerTx,
			SpendingHeight: verifC05Height,
		}, rc, commitPoint, fn.None[AuxLeafStore](), fn.None[AuxContractResolver]())
	}) {
		e.ended = true
		return
	}
	if err != nil {
		e.viol("remote_close_error", c.key(kind),
			fmt.Sprintf("NewUnilateralCloseSummary(%s, peer's %s commitment %d) failed: %v", p.Name, kind, rc.CommitHeight, err))
		return
	}
	byOut := verifC05HtlcByOutput(rc.Htlcs)
	cl := &verifC05Claims{claimed: map[uint32]bool{}}
	claim := func(what string, idx uint32) bool {
		if cl.claimed[idx] {
			e.viol("claims_distinct", c.key(kind),
				fmt.Sprintf("%s: two resolutions spend output %d of the peer's commitment (%s)", kind, idx, what))
			return false
		}
		cl.claimed[idx] = true
		return true
	}
	isTaprootOut := func(d *input.SignDescriptor) bool {
		return d.Output != nil && txscript.IsPayToTaproot(d.Output.PkScript)
	}

	if sum.HtlcResolutions != nil {
		// received HTLCs: claimed with the preimage straight from the
		// peer's commitment (htlcSuccessResolver.sweepRemoteCommitOutput).
		for k := range sum.HtlcResolutions.IncomingHTLCs {
			r := &sum.HtlcResolutions.IncomingHTLCs[k]
			oracle := "remote_htlc_success_valid"
			if r.SignedSuccessTx != nil {
				e.viol(oracle, c.key(kind)+":shape", "incoming resolution on the peer's commitment carries a second-level tx")
				return
			}
			prev := c.prevOf(oracle, kind, "IncomingHtlcResolution.ClaimOutpoint", r.ClaimOutpoint, peerTx)
			if prev == nil || !claim("incoming htlc", r.ClaimOutpoint.Index) {
				return
			}
			h := byOut[r.ClaimOutpoint.Index]
			if h == nil || !h.Incoming {
				e.viol(oracle, c.key(kind)+":wrong-output",
					fmt.Sprintf("%s: incoming resolution claims output %d which is not a received HTLC of that commitment", kind, r.ClaimOutpoint.Index))
				return
			}
			lh := c.e.verifC05Ledger(i, h)
			if lh == nil {
				c.vc.Diag("ledger_miss", fmt.Sprintf("%s htlc %d incoming", kind, h.HtlcIndex))
				continue
			}
			mk := func(pre []byte) input.Input {
				switch {
				case st.ChanType.IsTaprootFinal():
					return verifC05Ptr(input.MakeTaprootHtlcSucceedInputFinal(&r.ClaimOutpoint,
						&r.SweepSignDesc, pre, verifC05Height, r.CsvDelay,
						input.WithResolutionBlob(r.ResolutionBlob)))
				case isTaprootOut(&r.SweepSignDesc):
					return verifC05Ptr(input.MakeTaprootHtlcSucceedInput(&r.ClaimOutpoint,
						&r.SweepSignDesc, pre, verifC05Height, r.CsvDelay,
						input.WithResolutionBlob(r.ResolutionBlob)))
				}
				return verifC05Ptr(input.MakeHtlcSucceedInput(&r.ClaimOutpoint,
					&r.SweepSignDesc, pre, verifC05Height, r.CsvDelay))
			}
			if !c.sweep(oracle, kind, fmt.Sprintf("received htlc %d with its preimage", h.HtlcIndex),
				p.signer, mk(lh.Preimage[:]), prev, false) {
				return
			}
			bad := lh.Preimage
			bad[11] ^= 0x04
			ntx, ce, ee := verifC05Spend(p.signer, mk(bad[:]), prev, false)
			c.negControl("remote_success_wrong_preimage", ce, ee, ntx)
			cl.value += prev.Value
			cl.nIn++
		}
		// offered HTLCs: timed out straight from the peer's commitment
		// (htlcTimeoutResolver.sweepDirectHtlcOutput).
		for k := range sum.HtlcResolutions.OutgoingHTLCs {
			r := &sum.HtlcResolutions.OutgoingHTLCs[k]
			oracle := "remote_htlc_timeout_valid"
			if r.SignedTimeoutTx != nil {
				e.viol(oracle, c.key(kind)+":shape", "outgoing resolution on the peer's commitment carries a second-level tx")
				return
			}
			prev := c.prevOf(oracle, kind, "OutgoingHtlcResolution.ClaimOutpoint", r.ClaimOutpoint, peerTx)
			if prev == nil || !claim("outgoing htlc", r.ClaimOutpoint.Index) {
				return
			}
			h := byOut[r.ClaimOutpoint.Index]
			if h == nil || h.Incoming {
				e.viol(oracle, c.key(kind)+":wrong-output",
					fmt.Sprintf("%s: outgoing resolution claims output %d which is not an offered HTLC of that commitment", kind, r.ClaimOutpoint.Index))
				return
			}
			lh := c.e.verifC05Ledger(i, h)
			if lh == nil {
				c.vc.Diag("ledger_miss", fmt.Sprintf("%s htlc %d outgoing", kind, h.HtlcIndex))
				continue
			}
			mk := func(expiry uint32) input.Input {
				var wt input.StandardWitnessType
				switch {
				case st.ChanType.IsTaprootFinal():
					wt = input.TaprootHtlcOfferedRemoteTimeoutFinal
				case isTaprootOut(&r.SweepSignDesc):
					wt = input.TaprootHtlcOfferedRemoteTimeout
				default:
					wt = input.HtlcOfferedRemoteTimeout
				}
				return input.NewCsvInputWithCltv(&r.ClaimOutpoint, wt, &r.SweepSignDesc,
					verifC05Height, r.CsvDelay, expiry, input.WithResolutionBlob(r.ResolutionBlob))
			}
			if !c.sweep(oracle, kind, fmt.Sprintf("offered htlc %d after its expiry %d", h.HtlcIndex, r.Expiry),
				p.signer, mk(r.Expiry), prev, false) {
				return
			}
			c.vc.Count("oracle_htlc_tx_locktime", 1)
			if r.Expiry != lh.Expiry {
				e.viol("htlc_tx_locktime", c.key(kind)+":resolution-expiry",
					fmt.Sprintf("%s: OutgoingHtlcResolution.Expiry %d, HTLC expiry %d", kind, r.Expiry, lh.Expiry))
				return
			}
			ntx, ce, ee := verifC05Spend(p.signer, mk(lh.Expiry-1), prev, false)
			c.negControl("remote_timeout_locktime_minus_1", ce, ee, ntx)
			cl.value += prev.Value
			cl.nOut++
		}
	}

	if cr := sum.CommitResolution; cr != nil {
		prev := c.prevOf("to_remote_sweep_valid", kind, "CommitResolution.SelfOutPoint", cr.SelfOutPoint, peerTx)
		if prev == nil || !claim("to-remote", cr.SelfOutPoint.Index) {
			return
		}
		inp, err := verifC05CommitInput(st, cr, cr.MaturityDelay)
		if err != nil {
			e.viol("to_remote_sweep_valid", c.key(kind)+":witness-type",
				fmt.Sprintf("decideWitnessType mirror fails on the remote CommitResolution: %v", err))
			return
		}
		if !c.sweep("to_remote_sweep_valid", kind, "our to-remote output", p.signer, inp, prev, false) {
			return
		}
		cl.value += prev.Value
		if e.p.ChanType.HasAnchors() {
			// 1-block CSV of anchor-type to_remote outputs: sequence 0 must fail.
			ninp, _ := verifC05CommitInput(st, cr, 0)
			ntx, ce, ee := verifC05Spend(p.signer, ninp, prev, false)
			c.negControl("to_remote_csv_0", ce, ee, ntx)
		}
	}

	if ar := sum.AnchorResolution; ar != nil {
		prev := c.prevOf("anchor_sweep_valid", kind, "AnchorResolution.CommitAnchor", ar.CommitAnchor, peerTx)
		if prev == nil || !claim("anchor", ar.CommitAnchor.Index) {
			return
		}
		if !c.sweep("anchor_sweep_valid", kind, "our anchor on the peer's commitment", p.signer,
			verifC05AnchorInput(st, ar), prev, false) {
			return
		}
		cl.value += prev.Value
	}

	c.valueCheck(i, kind, peerTx, cl, &rc, 1-i, st)
	c.noteClose(i, kind, cl)
}

// ---------------------------------------------------------------------------
// 3. value claimable == balance + HTLCs due, up to fees and dust

// valueCheck compares what the validated resolutions claim with an
// independent expectation computed from the commitment record (balances and
// HTLC amounts in msat), the BOLT-3 trimming rule re-implemented by the
// engine (verifE1.trimmed) and the second-level fee of the channel type; and
// checks that every output of the confirmed transaction is either claimed by
// exactly one resolution or is one of the (at most two) outputs of the peer.
func (c *verifC05Run) valueCheck(i int, kind string, tx *wire.MsgTx, cl *verifC05Claims,
	commit *channeldb.ChannelCommitment, owner int, st *channeldb.OpenChannel) {

	e := c.e
	if e.ended {
		return
	}
	c.vc.Count("oracle_value_claimable", 1)
	local := owner == i
	dust := e.dustLimit(owner)
	snap := &verifCommitSnap{Owner: owner, FeePerKw: int64(commit.FeePerKw)}
	ourBal := int64(commit.LocalBalance / 1000)
	theirBal := int64(commit.RemoteBalance / 1000)
	var want int64
	untrimmed := 0
	for k := range commit.Htlcs {
		h := &commit.Htlcs[k]
		off := i
		if h.Incoming {
			off = 1 - i
		}
		if e.trimmed(snap, verifSnapHtlc{Offerer: off, Amt: h.Amt}) {
			continue
		}
		untrimmed++
		v := int64(h.Amt / 1000)
		if local {
			v -= c.secondLevelFee(!h.Incoming, int64(commit.FeePerKw))
		}
		want += v
	}
	hasOurs := ourBal >= dust
	hasTheirs := theirBal >= dust
	if hasOurs {
		want += ourBal
	}
	if e.p.ChanType.HasAnchors() && (hasOurs || untrimmed > 0) {
		want += 330
	}
	bad := ""
	if cl.value != want {
		bad = fmt.Sprintf("claimable %d sat, expected %d sat (balance %d msat, %d untrimmed htlcs)",
			cl.value, want, commit.LocalBalance, untrimmed)
	}
	// unclaimed outputs: only the peer's main output and the peer's anchor.
	var unclaimed []int64
	for idx, o := range tx.TxOut {
		if !cl.claimed[uint32(idx)] {
			unclaimed = append(unclaimed, o.Value)
		}
	}
	var expUn []int64
	if hasTheirs {
		expUn = append(expUn, theirBal)
	}
	if e.p.ChanType.HasAnchors() && (hasTheirs || untrimmed > 0) {
		expUn = append(expUn, 330)
	}
	if !verifC05SameMultiset(unclaimed, expUn) {
		bad += fmt.Sprintf(" unclaimed outputs %v, only the peer's %v may stay unclaimed", unclaimed, expUn)
	}
	if bad != "" {
		detail := fmt.Sprintf("%s (party %d, commitment height %d of party %d, dust %d, rate %d): %s; outputs %v",
			kind, i, commit.CommitHeight, owner, dust, commit.FeePerKw, bad, verifC05Values(tx))
		if verifC05ValueIsVerdict {
			e.viol("value_claimable", c.key(kind), detail)
		} else {
			c.vc.Diag("value_claimable", e.p.TypeName+" "+detail)
		}
	}
}

func verifC05Values(tx *wire.MsgTx) []int64 {
	var v []int64
	for _, o := range tx.TxOut {
		v = append(v, o.Value)
	}
	return v
}

func verifC05SameMultiset(a, b []int64) bool {
	if len(a) != len(b) {
		return false
	}
	m := map[int64]int{}
	for _, x := range a {
		m[x]++
	}
	for _, x := range b {
		m[x]--
	}
	for _, n := range m {
		if n != 0 {
			return false
		}
	}
	return true
}

func (c *verifC05Run) noteClose(i int, kind string, cl *verifC05Claims) {
	e := c.e
	if e.ended {
		return
	}
	c.vc.Count("closes_checked", 1)
	c.vc.Count("htlc_outputs_spent", int64(cl.nIn+cl.nOut))
	if cl.nIn+cl.nOut == 0 {
		return
	}
	c.vc.Count("nontrivial", 1)
	c.vc.Count("nontrivial_"+kind, 1)
	if c.afterReload {
		c.vc.Count("nontrivial_after_reload", 1)
	}
	c.vc.Sig(verifJoin(e.p.TypeName, e.openerIdx() == i, kind, verifBucket(cl.nOut),
		verifBucket(cl.nIn), e.nRestarts+e.nDisconnects > 0))
}

func TestVerifC05(t *testing.T) {
	vc := verifStart(t, "C05", "closes")
	defer vc.Finish()
	verifE1SelfCheck(t)
	vc.Note("witness_type_selection", "mirror of contractcourt resolvers (decideWitnessType, "+
		"htlcTimeoutResolver, htlcSuccessResolver, makeSweepInput, anchorResolver); the real resolvers are not executed in this unit")
	total := vc.N(360, 10000)
	for i := 0; i < total; i++ {
		if !vc.Mine(i) {
			continue
		}
		verifC05Schedule(vc, i, func(e *verifE1, who int, fk *verifFork, afterReload bool) {
			run := &verifC05Run{e: e, vc: vc, t: t, afterReload: afterReload}
			run.remoteClose(who, fk, false)
			if !e.ended && fk.ch.commitChains.Remote.hasUnackedCommitment() {
				vc.Count("forks_with_pending_remote", 1)
				run.remoteClose(who, fk, true)
			}
			if !e.ended {
				run.localClose(who, fk)
			}
		})
	}
}
