package lnwallet

import (
	"fmt"
	"os"
)

// debugDump prints both parties' chains and update logs (VERIF_DEBUG=1).
func (e *verifE1) debugDump(why string) {
	if os.Getenv("VERIF_DEBUG") == "" {
		return
	}
	fmt.Printf("=== DEBUG DUMP: %s\n", why)
	for _, p := range e.parties {
		if p == nil || p.ch == nil {
			continue
		}
		fmt.Printf("--- party %s opener=%v\n", p.Name, p.ch.channelState.IsInitiator)
		for _, s := range e.liveCommits(p) {
			fmt.Printf("  commit %s bal=%v fee=%d kw=%d msgIdx? htlcs=%+v\n", s.key(), s.Bal, s.FeeSat, s.FeePerKw, s.Htlcs)
		}
		for _, c := range []*commitment{p.ch.commitChains.Local.tail(), p.ch.commitChains.Local.tip(),
			p.ch.commitChains.Remote.tail(), p.ch.commitChains.Remote.tip()} {
			fmt.Printf("  chain commit h=%d whose=%v msgIdx=%+v ourHtlcIdx=%d theirHtlcIdx=%d\n",
				c.height, c.whoseCommit, c.messageIndices, c.ourHtlcIndex, c.theirHtlcIndex)
		}
		dump := func(name string, l *updateLog) {
			fmt.Printf("  log %s logIndex=%d htlcCounter=%d\n", name, l.logIndex, l.htlcCounter)
			for el := l.Front(); el != nil; el = el.Next() {
				pd := el.Value
				fmt.Printf("    %v logIdx=%d htlc=%d parent=%d amt=%d add=%+v rem=%+v\n", pd.EntryType,
					pd.LogIndex, pd.HtlcIndex, pd.ParentIndex, pd.Amount, pd.addCommitHeights, pd.removeCommitHeights)
			}
		}
		dump("local", p.ch.updateLogs.Local)
		dump("remote", p.ch.updateLogs.Remote)
		ua, err1 := p.ch.channelState.UnsignedAckedUpdates()
		rl, err2 := p.ch.channelState.RemoteUnsignedLocalUpdates()
		for _, u := range ua {
			fmt.Printf("  disk unsignedAcked: idx=%d %T %+v\n", u.LogIndex, u.UpdateMsg, u.UpdateMsg)
		}
		for _, u := range rl {
			fmt.Printf("  disk remoteUnsignedLocal: idx=%d %T %+v\n", u.LogIndex, u.UpdateMsg, u.UpdateMsg)
		}
		fmt.Printf("  errs %v %v\n", err1, err2)
	}
}
