package chancloser

// C17 (RBF cooperative close): the RBF-coop close state machine
// (rbf_coop_states.go / rbf_coop_transitions.go / rbf_coop_msg_mapper.go) is
// driven for BOTH parties over the two real channels of an E1 schedule,
// without the protofsm runtime: the harness holds each party's current
// RbfState, calls ProcessEvent synchronously, feeds internal events back into
// the same party (as protofsm.applyEvents does: daemon events first, then the
// internal events, then the state update) and translates the daemon events by
// hand: the wire messages of a SendMsgEvent go through an lnwire encode/decode
// round trip and the peer's RbfMsgMapper into the peer's machine, a
// BroadcastTxn is recorded.
//
// Oracles (written from the statement, they never call the lnd code they
// judge): for every (closing_complete, closing_sig) exchange that yields a
// transaction, the closee's broadcast tx and the closer's ClosePending tx are
// byte-identical, pass btcd's interpreter against the harness-derived funding
// script, pay closee = balance, closer = balance - fee (commit fee + anchors
// credited to the opener first), each output omitted iff below its OWNER's
// dust limit, outputs + fee <= capacity; a fee the closer cannot pay never
// yields a transaction.

import (
	"errors"
	"bytes"
	"fmt"
	"io"
	"reflect"
	"sort"
	"testing"

	"github.com/btcsuite/btcd/btcec/v2/schnorr/musig2"
	"github.com/btcsuite/btcd/btcutil/v2"
	"github.com/btcsuite/btcd/chaincfg/v2"
	"github.com/btcsuite/btcd/wire/v2"
	"github.com/lightningnetwork/lnd/channeldb"
	"github.com/lightningnetwork/lnd/fn/v2"
	"github.com/lightningnetwork/lnd/input"
	"github.com/lightningnetwork/lnd/lntypes"
	"github.com/lightningnetwork/lnd/lnwallet"
	"github.com/lightningnetwork/lnd/lnwallet/chainfee"
	"github.com/lightningnetwork/lnd/lnwire"
	"github.com/lightningnetwork/lnd/msgmux"
	"github.com/lightningnetwork/lnd/protofsm"
)

// verifC17RbfEst maps a sat/vbyte "rate" r directly to an absolute fee of r
// satoshis (SatPerVByte.FeePerKWeight() == r*250), so that the harness
// controls the absolute fee of every offer exactly.
type verifC17RbfEst struct{}

func (verifC17RbfEst) EstimateFee(_ channeldb.ChannelType, _, _ *wire.TxOut,
	rate chainfee.SatPerKWeight) btcutil.Amount {

	return btcutil.Amount(rate) / 250
}

// verifC17RbfMusig mirrors peer.MusigChanCloser (which cannot be imported from
// this package); the nonces are drawn from the case PRNG.
type verifC17RbfMusig struct {
	channel     *lnwallet.LightningChannel
	rnd         io.Reader
	session     *lnwallet.MusigSession
	localNonce  *musig2.Nonces
	remoteNonce *musig2.Nonces
}

func (m *verifC17RbfMusig) ProposalClosingOpts() ([]lnwallet.ChanCloseOpt, error) {
	switch {
	case m.localNonce == nil:
		return nil, fmt.Errorf("local nonce not generated")
	case m.remoteNonce == nil:
		return nil, fmt.Errorf("remote nonce not generated")
	}
	localKey, remoteKey := m.channel.MultiSigKeys()
	tweak := fn.MapOption(lnwallet.TapscriptRootToTweak)(m.channel.State().TapscriptRoot)
	m.session = lnwallet.NewPartialMusigSession(*m.remoteNonce, localKey, remoteKey,
		m.channel.Signer, m.channel.FundingTxOut(), lnwallet.RemoteMusigCommit, tweak,
		fn.None[io.Reader]())
	if err := m.session.FinalizeSession(*m.localNonce); err != nil {
		return nil, err
	}
	return []lnwallet.ChanCloseOpt{lnwallet.WithCoopCloseMusigSession(m.session)}, nil
}

func (m *verifC17RbfMusig) CombineClosingOpts(localSig, remoteSig lnwire.PartialSig) (
	input.Signature, input.Signature, []lnwallet.ChanCloseOpt, error) {

	if m.session == nil {
		return nil, nil, nil, fmt.Errorf("musig session not created")
	}
	l := new(lnwallet.MusigPartialSig).FromWireSig(&lnwire.PartialSigWithNonce{
		PartialSig: localSig, Nonce: m.localNonce.PubNonce})
	r := new(lnwallet.MusigPartialSig).FromWireSig(&lnwire.PartialSigWithNonce{
		PartialSig: remoteSig, Nonce: m.remoteNonce.PubNonce})
	return l, r, []lnwallet.ChanCloseOpt{lnwallet.WithCoopCloseMusigSession(m.session)}, nil
}

func (m *verifC17RbfMusig) ClosingNonce() (*musig2.Nonces, error) {
	localKey, _ := m.channel.MultiSigKeys()
	n, err := musig2.GenNonces(musig2.WithPublicKey(localKey.PubKey),
		musig2.WithCustomRand(m.rnd))
	if err != nil {
		return nil, err
	}
	m.localNonce = n
	return n, nil
}

func (m *verifC17RbfMusig) InitRemoteNonce(n *musig2.Nonces) { m.remoteNonce = n }
func (m *verifC17RbfMusig) InvalidateNonce() {
	m.localNonce = nil
	m.session = nil
}

var _ MusigSession = (*verifC17RbfMusig)(nil)

// verifC17RbfObserver is the harness' ChanStateObserver over the real channel
// (peer/chan_observer.go needs a link). link=true models a live link whose
// add-directions are switched off by Disable*Adds (FinalBalances is Some once
// both are off and the channel is clean); link=false is the restart case (no
// link: the balances are final from the start).
type verifC17RbfObserver struct {
	ch       *lnwallet.LightningChannel
	link     bool
	inOff    bool
	outOff   bool
	disabled int
	marked   int
	shutSent int
}

func (o *verifC17RbfObserver) NoDanglingUpdates() bool { return !o.ch.OweCommitment() }
func (o *verifC17RbfObserver) DisableIncomingAdds() error {
	o.inOff = true
	return nil
}
func (o *verifC17RbfObserver) DisableOutgoingAdds() error {
	o.outOff = true
	return nil
}
func (o *verifC17RbfObserver) DisableChannel() error {
	o.disabled++
	return nil
}
func (o *verifC17RbfObserver) MarkCoopBroadcasted(tx *wire.MsgTx, local bool) error {
	o.marked++
	party := lntypes.Remote
	if local {
		party = lntypes.Local
	}
	return o.ch.MarkCoopBroadcasted(tx, party)
}
func (o *verifC17RbfObserver) MarkShutdownSent(addr []byte, isInitiator bool) error {
	o.shutSent++
	return o.ch.MarkShutdownSent(channeldb.NewShutdownInfo(addr, isInitiator))
}
func (o *verifC17RbfObserver) balances() ShutdownBalances {
	s := o.ch.StateSnapshot()
	return ShutdownBalances{LocalBalance: s.LocalBalance, RemoteBalance: s.RemoteBalance}
}
func (o *verifC17RbfObserver) FinalBalances() fn.Option[ShutdownBalances] {
	if !o.link || (o.inOff && o.outOff && o.ch.IsChannelClean()) {
		return fn.Some(o.balances())
	}
	return fn.None[ShutdownBalances]()
}

var _ ChanStateObserver = (*verifC17RbfObserver)(nil)

// verifC17RbfSigner is the CloseSigner handed to the machine: the real channel,
// with the transactions it builds recorded (the statement speaks about "the
// closing transaction the two sides build").
type verifC17RbfSigner struct {
	ch        *lnwallet.LightningChannel
	proposals int
	lastTx    *wire.MsgTx // tx of the latest successful CreateCloseProposal
	lastFee   int64
	// lock != 0: this party, when it is the CLOSER, proposes closing
	// transactions with this lock time. lnd's closer announces
	// Environment.BlockHeight as the lock time of closing_complete but
	// (BlockHeight being zero in production) signs with lock time 0; the
	// wrapper makes the closer sign what it announces, i.e. it turns lnd's
	// closer into a conforming peer that proposes a non-zero lock time. The
	// option is put FIRST, so the explicit lock time a closee passes (the one
	// of the message it received) overrides it.
	lock uint32
}

func (s *verifC17RbfSigner) withLock(opts []lnwallet.ChanCloseOpt) []lnwallet.ChanCloseOpt {
	if s.lock == 0 {
		return opts
	}
	return append([]lnwallet.ChanCloseOpt{lnwallet.WithCustomLockTime(s.lock)}, opts...)
}

func (s *verifC17RbfSigner) CreateCloseProposal(fee btcutil.Amount, local, remote []byte,
	opts ...lnwallet.ChanCloseOpt) (input.Signature, *wire.MsgTx, btcutil.Amount, error) {

	sig, tx, bal, err := s.ch.CreateCloseProposal(fee, local, remote, s.withLock(opts)...)
	if err == nil {
		s.proposals++
		s.lastTx, s.lastFee = tx.Copy(), int64(fee)
	}
	return sig, tx, bal, err
}

func (s *verifC17RbfSigner) CompleteCooperativeClose(localSig, remoteSig input.Signature,
	local, remote []byte, fee btcutil.Amount, opts ...lnwallet.ChanCloseOpt) (*wire.MsgTx,
	btcutil.Amount, error) {

	return s.ch.CompleteCooperativeClose(localSig, remoteSig, local, remote, fee, s.withLock(opts)...)
}

var _ CloseSigner = (*verifC17RbfSigner)(nil)

func verifC17RbfScript(r *lnwallet.VerifRng) []byte {
	switch r.Intn(3) {
	case 0:
		return append([]byte{0x00, 0x14}, r.Bytes(20)...)
	case 1:
		return append([]byte{0x00, 0x20}, r.Bytes(32)...)
	}
	return append([]byte{0x51, 0x20}, r.Bytes(32)...)
}

// verifC17RbfExch is one closing_complete of one closer and what became of it.
type verifC17RbfExch struct {
	closer   int
	iter     int
	fee      int64 // fee_satoshis as decoded by the closee (as sent if never received)
	propTx   *wire.MsgTx // the (unsigned) tx the closer built and signed
	closeeTx *wire.MsgTx
	closerTx *wire.MsgTx
	judged   bool
	// delivery scripts of THIS round, indexed by party: the closer's is the
	// script the harness asked it to use for this offer, the closee's is the
	// latest script of the closee that had been delivered to the closer when
	// it made the offer.
	scripts [2][]byte
	changed bool // the closer announces a new closer script with this offer
}

// verifC17RbfNewScriptOffer is a harness-only item of a party's local event
// queue: before the SendOfferEvent is handed to the party's machine the
// party's own delivery script is replaced by script (BOLT-2 simple close: every
// closing_complete may name a new closer_scriptpubkey). lnd has no public event
// for this, so the harness rewrites the LOCAL script in the close terms of the
// offering party's machine; the receiving side is untouched. The item never
// reaches ProcessEvent.
type verifC17RbfNewScriptOffer struct {
	script []byte
	offer  *SendOfferEvent
}

func (*verifC17RbfNewScriptOffer) protocolSealed() {}

// verifC17RbfSetLocalScript stores s as the local delivery script in every
// CloseChannelTerms reachable from the party's state (however the states share
// or copy the terms); returns the number of terms written.
func verifC17RbfSetLocalScript(st RbfState, s []byte) int {
	n := 0
	seen := map[uintptr]bool{}
	termsT := reflect.TypeOf(CloseChannelTerms{})
	var walk func(v reflect.Value, depth int)
	walk = func(v reflect.Value, depth int) {
		if depth > 8 || !v.IsValid() {
			return
		}
		switch v.Kind() {
		case reflect.Interface:
			if !v.IsNil() {
				walk(v.Elem(), depth+1)
			}
		case reflect.Ptr:
			if v.IsNil() || seen[v.Pointer()] {
				return
			}
			if v.Elem().Kind() == reflect.Struct {
				seen[v.Pointer()] = true
				walk(v.Elem(), depth+1)
			}
		case reflect.Struct:
			if v.Type() == termsT {
				f := v.FieldByName("LocalDeliveryScript")
				if f.IsValid() && f.CanSet() {
					f.Set(reflect.ValueOf(append([]byte(nil), s...)).Convert(f.Type()))
					n++
				}
				return
			}
			if v.Type().PkgPath() != termsT.PkgPath() && v.Type().Name() != "" &&
				v.Type().PkgPath() != "github.com/lightningnetwork/lnd/lntypes" {

				// foreign structs (transactions, keys, ...).
				return
			}
			for i := 0; i < v.NumField(); i++ {
				walk(v.Field(i), depth+1)
			}
		}
	}
	walk(reflect.ValueOf(st), 0)
	return n
}

type verifC17RbfParty struct {
	idx      int
	ch       *lnwallet.LightningChannel
	env      *Environment
	mapper   *RbfMsgMapper
	obs      *verifC17RbfObserver
	signer   *verifC17RbfSigner
	state    RbfState
	dead     error
	wireIn   [][]byte
	localIn  []ProtocolEvent
	sentinel bool // the flush sentinel's ChannelFlushed has been queued
}

type verifC17RbfRun struct {
	vc      *lnwallet.VerifCtx
	e       *lnwallet.VerifE1
	p       lnwallet.VerifE1Params
	parties [2]*verifC17RbfParty
	scripts [2][]byte
	owned   [2]int64 // sat balance, commit fee + anchors credited to the opener
	raw     [2]int64
	dust    [2]int64
	pk      []byte
	capSat  int64
	oi      int
	cur     [2]*verifC17RbfExch // latest closing_complete per closer
	iters   [2]int
	lastFee [2]int64
	done    [2]int // completed (both sides hold the tx) exchanges per closer
	early   bool
	txs     int
	log     []string
	failed  bool
	// known[j]: party (1-j)'s delivery script as last delivered to party j
	// (shutdown, then the closer_scriptpubkey of every closing_complete).
	known [2][]byte
	// changes[k]: new closer scripts party k has announced.
	changes [2]int
}

func (x *verifC17RbfRun) logf(format string, a ...any) {
	if len(x.log) < 300 {
		x.log = append(x.log, fmt.Sprintf(format, a...))
	}
}

func (x *verifC17RbfRun) viol(oracle, key, detail string) {
	x.e.Logf("rbf trace: %v", x.log)
	x.e.Viol(oracle, key, detail)
	x.failed = true
}

func verifC17RbfTxBytes(tx *wire.MsgTx) []byte {
	var b bytes.Buffer
	_ = tx.Serialize(&b)
	return b.Bytes()
}

// judgeTx applies the transaction-level clauses of the statement to a fully
// signed closing transaction of an exchange in which closer pays fee.
func (x *verifC17RbfRun) judgeTx(ex *verifC17RbfExch, tx *wire.MsgTx, holder string) {
	c := ex.closer
	w := x.owned
	w[c] -= ex.fee
	ctx := fmt.Sprintf("type %s opener %d closer %d iter %d fee %d owned %v raw %v dust %v holder %s newCloserScript %v",
		x.p.TypeName, x.oi, c, ex.iter, ex.fee, x.owned, x.raw, x.dust, holder, ex.changed)

	x.vc.Count("oracle_unaffordable_no_tx", 1)
	if w[c] < 0 {
		x.viol("coop_unaffordable_no_tx", fmt.Sprintf("rbf:closerIsOpener=%v", c == x.oi),
			fmt.Sprintf("a closing tx exists although the closer cannot pay the fee: %s tx %x",
				ctx, verifC17RbfTxBytes(tx)))
		return
	}

	type out struct {
		v int64
		s string
	}
	var exp, got []out
	for k := 0; k < 2; k++ {
		if w[k] >= x.dust[k] {
			exp = append(exp, out{w[k], fmt.Sprintf("%x", ex.scripts[k])})
		}
	}
	var sum int64
	for _, o := range tx.TxOut {
		sum += o.Value
		got = append(got, out{o.Value, fmt.Sprintf("%x", o.PkScript)})
	}
	less := func(s []out) func(a, b int) bool {
		return func(a, b int) bool {
			if s[a].v != s[b].v {
				return s[a].v < s[b].v
			}
			return s[a].s < s[b].s
		}
	}
	sort.Slice(exp, less(exp))
	sort.Slice(got, less(got))
	x.vc.Count("oracle_exact_outputs", 1)
	if fmt.Sprint(exp) != fmt.Sprint(got) {
		x.viol("coop_exact_outputs", fmt.Sprintf("rbf:closerIsOpener=%v,nexp=%d,ngot=%d",
			c == x.oi, len(exp), len(got)),
			fmt.Sprintf("closing tx outputs %v, the statement prescribes %v (scripts %x / %x): %s",
				got, exp, ex.scripts[0], ex.scripts[1], ctx))
		return
	}
	x.vc.Count("oracle_capacity", 1)
	if sum+ex.fee > x.capSat || sum > x.capSat {
		x.viol("coop_capacity", "rbf", fmt.Sprintf("outputs %d + fee %d exceed capacity %d: %s",
			sum, ex.fee, x.capSat, ctx))
		return
	}
	x.vc.Count("oracle_interpreter", 1)
	if len(tx.TxIn) != 1 {
		x.viol("coop_tx_valid", "rbf:inputs", fmt.Sprintf("%d inputs: %s", len(tx.TxIn), ctx))
		return
	}
	if err := lnwallet.VerifExec(x.pk, x.capSat, tx, 0, nil); err != nil {
		x.viol("coop_tx_valid", "rbf:"+x.p.TypeName,
			fmt.Sprintf("interpreter rejects the closing tx: %v: %s tx %x", err, ctx,
				verifC17RbfTxBytes(tx)))
		return
	}
	// not in the statement: the RBF flow signals replaceability.
	x.vc.Count("diag_sequence_evals", 1)
	if tx.TxIn[0].Sequence > 0xfffffffd {
		x.vc.Diag("rbf_sequence_not_signalling", fmt.Sprintf("sequence %x: %s", tx.TxIn[0].Sequence, ctx))
	}
	x.txs++
}

// send encodes a wire message of party k and queues it for the peer.
func (x *verifC17RbfRun) send(k int, m lnwire.Message) {
	var buf bytes.Buffer
	if _, err := lnwire.WriteMessage(&buf, m, 0); err != nil {
		x.viol("rbf_wire_roundtrip", fmt.Sprintf("encode:%T", m), err.Error())
		return
	}
	x.parties[1-k].wireIn = append(x.parties[1-k].wireIn, buf.Bytes())
}

// daemon executes one daemon event emitted by party k while it processed ev.
func (x *verifC17RbfRun) daemon(k int, ev ProtocolEvent, d protofsm.DaemonEvent) bool {
	p := x.parties[k]
	switch de := d.(type) {
	case *protofsm.SendMsgEvent[ProtocolEvent]:
		ok := true
		de.SendWhen.WhenSome(func(pred protofsm.SendPredicate) { ok = pred() })
		if !ok {
			// would wait for the link; the schedules end without
			// dangling updates, so this is not expected.
			x.vc.Count("sendwhen_false", 1)
			return false
		}
		for _, m := range de.Msgs {
			switch mm := m.(type) {
			case *lnwire.Shutdown:
				x.logf("%d -> shutdown script %x", k, mm.Address)
			case *lnwire.ClosingComplete:
				x.iters[k]++
				ex := &verifC17RbfExch{closer: k, iter: x.iters[k], fee: int64(mm.FeeSatoshis),
					propTx: p.signer.lastTx}
				ex.scripts[k] = x.scripts[k]
				ex.scripts[1-k] = x.known[k]
				if x.cur[k] != nil && !bytes.Equal(x.cur[k].scripts[k], x.scripts[k]) {
					ex.changed = true
					x.changes[k]++
					x.vc.Count("rbf_script_changes", 1)
					x.logf("%d announces new closer script %x", k, x.scripts[k])
				}
				x.cur[k] = ex
				x.vc.Count("closing_complete_sent", 1)
				if !bytes.Equal(mm.CloserScript, x.scripts[k]) {
					x.viol("rbf_harness", "closer-script-not-the-requested-one", fmt.Sprintf(
						"party %d was given delivery script %x, its closing_complete names %x",
						k, x.scripts[k], mm.CloserScript))
					return false
				}
				// each party's output must go to the script that party
				// asked for: the offer has to pay the peer to the latest
				// script the peer has announced to us.
				x.vc.Count("oracle_peer_script", 1)
				if x.changes[1-k] > 0 {
					x.vc.Count("oracle_peer_script_after_change", 1)
				}
				if !bytes.Equal(mm.CloseeScript, x.known[k]) {
					x.vc.Count("oracle_exact_outputs", 1)
					x.viol("coop_exact_outputs", "rbf:stale-peer-script", fmt.Sprintf(
						"closer %d offer %d (fee %d, type %s, opener %d) pays the peer to %x, the latest script the peer announced to it is %x",
						k, x.iters[k], mm.FeeSatoshis, x.p.TypeName, x.oi, mm.CloseeScript, x.known[k]))
					return false
				}
				if int64(mm.FeeSatoshis) > x.owned[k] {
					x.vc.Count("unaffordable_offer_sent", 1)
				}
				x.logf("%d -> closing_complete fee %d locktime %d", k, mm.FeeSatoshis, mm.LockTime)
			case *lnwire.ClosingSig:
				x.vc.Count("closing_sig_sent", 1)
				x.logf("%d -> closing_sig fee %d", k, mm.FeeSatoshis)
			}
			x.send(k, m)
		}
		de.PostSendEvent.WhenSome(func(e ProtocolEvent) { p.localIn = append(p.localIn, e) })

	case *protofsm.BroadcastTxn:
		x.vc.Count("broadcasts", 1)
		switch t := ev.(type) {
		case *OfferReceivedEvent:
			// party k is the closee of the peer's offer.
			ex := x.cur[1-k]
			if ex == nil {
				x.viol("rbf_harness", "closee-tx-without-offer", "closee broadcast without a recorded offer")
				return false
			}
			ex.fee = int64(t.SigMsg.FeeSatoshis)
			ex.closeeTx = de.Tx
			// the (unsigned) transactions the two sides built.
			x.vc.Count("oracle_built_identical", 1)
			if ex.propTx == nil || p.signer.lastTx == nil ||
				ex.propTx.TxHash() != p.signer.lastTx.TxHash() {

				x.viol("coop_identical_tx", "rbf:built-tx-differs",
					fmt.Sprintf("closer %d and closee %d built different transactions for fee %d (type %s): %v vs %v",
						1-k, k, ex.fee, x.p.TypeName, ex.propTx, p.signer.lastTx))
				return false
			}
			x.logf("%d broadcasts as closee: %x", k, verifC17RbfTxBytes(de.Tx))
			x.judgeTx(ex, de.Tx, "closee")
			ex.judged = true
		case *LocalSigReceived:
			ex := x.cur[k]
			if ex == nil {
				x.viol("rbf_harness", "closer-tx-without-offer", "closer broadcast without a recorded offer")
				return false
			}
			ex.closerTx = de.Tx
			x.logf("%d broadcasts as closer: %x", k, verifC17RbfTxBytes(de.Tx))
		default:
			x.vc.Count("broadcast_other_trigger", 1)
		}
	default:
		x.vc.Count("daemon_event_other", 1)
	}
	return !x.failed
}

// localPeerState returns party k's own (closer side) asymmetric state, nil if
// it is not in ClosingNegotiation.
func (p *verifC17RbfParty) localPeerState() AsymmetricPeerState {
	cn, ok := p.state.(*ClosingNegotiation)
	if !ok {
		return nil
	}
	return cn.PeerState.GetForParty(lntypes.Local)
}

// apply runs one event through party k's machine exactly as
// protofsm.applyEvents does.
func (x *verifC17RbfRun) apply(k int, first ProtocolEvent) {
	p := x.parties[k]
	queue := []ProtocolEvent{first}
	for len(queue) > 0 && !x.failed {
		ev := queue[0]
		queue = queue[1:]
		from := p.state.String()
		if _, ok := ev.(*OfferReceivedEvent); ok {
			switch p.state.(type) {
			case *ShutdownPending, *ChannelFlushing:
				x.early = true
				x.vc.Count("early_offers", 1)
			}
		}
		built := p.signer.proposals
		tr, err := p.state.ProcessEvent(ev, p.env)
		if err != nil {
			// protofsm reports the error and tears the machine down.
			p.dead = err
			x.logf("%d %s <- %T: ERROR %v", k, from, ev, err)
			x.onError(k, ev, err, p.signer.proposals > built)
			return
		}
		cont := true
		tr.NewEvents.WhenSome(func(ne RbfEvent) {
			for _, d := range ne.ExternalEvents {
				if !x.daemon(k, ev, d) {
					cont = false
					return
				}
			}
			queue = append(queue, ne.InternalEvent...)
		})
		p.state = tr.NextState
		x.logf("%d %s <- %T => %s", k, from, ev, p.state)
		if !cont {
			return
		}
		x.after(k, ev)
	}
}

// after inspects the state reached by party k after processing ev.
func (x *verifC17RbfRun) after(k int, ev ProtocolEvent) {
	p := x.parties[k]
	// the flush sentinel of peer/brontide.go sends ChannelFlushed once
	// the machine has entered ChannelFlushing (only when there is a link).
	if p.obs.link && !p.sentinel {
		switch p.state.(type) {
		case *ChannelFlushing, *ClosingNegotiation:
			p.sentinel = true
			p.localIn = append(p.localIn, &ChannelFlushed{ShutdownBalances: p.obs.balances()})
		}
	}
	switch ev.(type) {
	case *LocalSigReceived:
		ex := x.cur[k]
		cp, ok := p.localPeerState().(*ClosePending)
		if ex == nil || !ok {
			return
		}
		x.vc.Count("oracle_identical_tx", 1)
		mine := verifC17RbfTxBytes(cp.CloseTx)
		ctx := fmt.Sprintf("type %s opener %d closer %d iter %d fee %d", x.p.TypeName, x.oi, k, ex.iter, ex.fee)
		if ex.closerTx == nil || !bytes.Equal(mine, verifC17RbfTxBytes(ex.closerTx)) {
			x.viol("coop_identical_tx", "rbf:closer-state-vs-broadcast",
				fmt.Sprintf("closer's ClosePending tx differs from the tx it broadcasts: %s", ctx))
			return
		}
		if ex.closeeTx == nil {
			x.viol("coop_identical_tx", "rbf:closer-tx-without-closee-tx",
				fmt.Sprintf("closer completed a tx the closee never produced: %s tx %x", ctx, mine))
			return
		}
		if theirs := verifC17RbfTxBytes(ex.closeeTx); !bytes.Equal(mine, theirs) {
			x.viol("coop_identical_tx", "rbf:closer-vs-closee",
				fmt.Sprintf("closer holds %x, closee broadcast %x: %s", mine, theirs, ctx))
			return
		}
		if !ex.judged {
			x.judgeTx(ex, cp.CloseTx, "closer")
		}
		x.done[k]++
		x.vc.Count("exchanges_completed", 1)
		if x.done[k] > 1 {
			x.vc.Count("rbf_replacements", 1)
			if ex.fee < x.lastFee[k] {
				x.vc.Diag("rbf_fee_decreased", fmt.Sprintf("%s after fee %d", ctx, x.lastFee[k]))
			}
		}
		x.lastFee[k] = ex.fee
		w := x.owned
		w[k] -= ex.fee
		if w[k] < x.dust[k] {
			x.vc.Count("closer_output_dust", 1)
		}
		if w[1-k] < x.dust[1-k] {
			x.vc.Count("closee_output_dust", 1)
		}
		if ex.fee == 0 {
			x.vc.Count("zero_fee_closes", 1)
		}
		if k == x.oi {
			x.vc.Count("closer_is_opener", 1)
		}
		if ex.changed {
			x.vc.Count("rbf_script_change_closes", 1)
		}
		if x.changes[1-k] > 0 {
			x.vc.Count("closes_after_closee_script_change", 1)
		}
		x.vc.Sig(fmt.Sprint(x.p.TypeName, k == x.oi, ex.iter, w[k] < x.dust[k], w[1-k] < x.dust[1-k],
			x.early, p.obs.link, ex.changed, x.changes[1-k] > 0))

	case *SendOfferEvent:
		if ce, ok := p.localPeerState().(*CloseErr); ok {
			x.vc.Count("close_err_states", 1)
			x.logf("%d CloseErr: %v", k, ce.ErrState)
			if cp, ok := ce.ErrState.(*ErrStateCantPayForFee); ok {
				if int64(cp.attemptedFee) > x.owned[k] {
					// the documented error state, no transaction.
					x.vc.Count("unaffordable_refused", 1)
				} else {
					// stricter than the statement (the gate ignores
					// the commit fee / anchors credited to the
					// opener): no transaction, not judged.
					x.vc.Diag("rbf_affordable_fee_refused", fmt.Sprintf(
						"closer %d (opener %d) refuses fee %d although it owns %d (raw balance %d)",
						k, x.oi, cp.attemptedFee, x.owned[k], x.raw[k]))
				}
			}
		}
	}
}

// onError classifies a ProcessEvent error of party k.
func (x *verifC17RbfRun) onError(k int, ev ProtocolEvent, err error, built bool) {
	x.vc.Count("machine_errors", 1)
	switch t := ev.(type) {
	case *LocalSigReceived:
		// an honest closee answered our offer with a transaction it
		// broadcasts, and we cannot complete it: the two sides did not
		// build the same transaction / a signature does not verify.
		if ex := x.cur[k]; ex != nil && ex.closeeTx != nil {
			x.vc.Count("oracle_identical_tx", 1)
			x.viol("coop_identical_tx", "rbf:closer-rejects-closing_sig",
				fmt.Sprintf("closer %d rejects the closing_sig of the honest closee (fee %d, type %s, opener %d): %v; closee broadcast %x",
					k, ex.fee, x.p.TypeName, x.oi, err, verifC17RbfTxBytes(ex.closeeTx)))
		}
	case *OfferReceivedEvent:
		x.vc.Count("offers_refused", 1)
		if errors.Is(err, ErrWrongLocalScript) {
			if bytes.Equal(t.SigMsg.CloseeScript, x.scripts[k]) {
				// the offer names the very script this closee
				// asked for last.
				x.vc.Count("oracle_identical_tx", 1)
				x.viol("coop_identical_tx", "rbf:closee-refuses-its-own-latest-script",
					fmt.Sprintf("closee %d refuses the honest closer's closing_complete fee %d (type %s opener %d) that pays it to its latest script %x: %v",
						k, t.SigMsg.FeeSatoshis, x.p.TypeName, x.oi, x.scripts[k], err))
				return
			}
			// crossing offers: the closer had not yet seen the closee's
			// new script.
			x.vc.Count("crossing_offer_names_old_script", 1)
		}
		if ex := x.cur[1-k]; built && ex != nil && ex.propTx != nil {
			// the closee passed its own checks, built its version
			// of the transaction and then could not complete it
			// with the honest closer's signature: the two sides did
			// not build the same transaction, or a signature does
			// not verify.
			x.vc.Count("oracle_identical_tx", 1)
			mine := x.parties[k].signer.lastTx
			x.viol("coop_identical_tx", fmt.Sprintf("rbf:closee-rejects-closing_complete,sameTxid=%v",
				mine.TxHash() == ex.propTx.TxHash()),
				fmt.Sprintf("closee %d cannot complete the honest closer's offer (fee %d, type %s, opener %d, owned %v raw %v dust %v): %v; closer built %x, closee built %x",
					k, t.SigMsg.FeeSatoshis, x.p.TypeName, x.oi, x.owned, x.raw, x.dust, err,
					verifC17RbfTxBytes(ex.propTx), verifC17RbfTxBytes(mine)))
			return
		}
		// The closee refused before building anything. When the reason
		// is that it expects a signature over a transaction with other
		// outputs than the one the honest closer signed (which output is
		// dust), the two sides do not build the same transaction.
		if errors.Is(err, ErrCloserNoClosee) || errors.Is(err, ErrCloserAndClosee) {
			x.vc.Count("oracle_identical_tx", 1)
			which := "expects-closer-only"
			if errors.Is(err, ErrCloserAndClosee) {
				which = "expects-both-outputs"
			}
			x.viol("coop_identical_tx", "rbf:closee-"+which,
				fmt.Sprintf("closee %d refuses the honest closer's closing_complete fee %d because it expects a transaction with other outputs (type %s opener %d owned %v raw %v dust %v scripts %x / %x): %v",
					k, t.SigMsg.FeeSatoshis, x.p.TypeName, x.oi, x.owned, x.raw, x.dust, x.scripts[0], x.scripts[1], err))
			return
		}
		x.vc.Diag("rbf_offer_refused", fmt.Sprintf("closee %d refuses closing_complete fee %d (type %s opener %d owned %v raw %v dust %v): %v",
			k, t.SigMsg.FeeSatoshis, x.p.TypeName, x.oi, x.owned, x.raw, x.dust, err))
	case *SendOfferEvent:
		x.vc.Count("send_offer_errors", 1)
	default:
		x.vc.Diag("rbf_machine_error", fmt.Sprintf("party %d %T: %v", k, ev, err))
	}
}

// step delivers one queued item (wire message or local event) of a PRNG-chosen
// queue; false when nothing is queued.
func (x *verifC17RbfRun) step(r *lnwallet.VerifRng) bool {
	type q struct {
		k    int
		wire bool
	}
	var qs []q
	for k := 0; k < 2; k++ {
		p := x.parties[k]
		if p.dead != nil {
			continue
		}
		if len(p.wireIn) > 0 {
			qs = append(qs, q{k, true})
		}
		if len(p.localIn) > 0 {
			qs = append(qs, q{k, false})
		}
	}
	if len(qs) == 0 {
		return false
	}
	c := qs[r.Intn(len(qs))]
	p := x.parties[c.k]
	if !c.wire {
		ev := p.localIn[0]
		p.localIn = p.localIn[1:]
		if ns, ok := ev.(*verifC17RbfNewScriptOffer); ok {
			x.offerNewScript(c.k, ns)
			return true
		}
		x.apply(c.k, ev)
		return true
	}
	raw := p.wireIn[0]
	p.wireIn = p.wireIn[1:]
	m, err := lnwire.ReadMessage(bytes.NewReader(raw), 0)
	if err != nil {
		x.viol("rbf_wire_roundtrip", "decode", fmt.Sprintf("%v: %x", err, raw))
		return true
	}
	switch mm := m.(type) {
	case *lnwire.Shutdown:
		x.known[c.k] = append([]byte(nil), mm.Address...)
	case *lnwire.ClosingComplete:
		x.known[c.k] = append([]byte(nil), mm.CloserScript...)
	}
	evOpt := p.mapper.MapMsg(msgmux.PeerMsg{Message: m, PeerPub: p.env.ChanPeer})
	if evOpt.IsNone() {
		x.viol("rbf_harness", fmt.Sprintf("unmapped:%T", m), "the msg mapper does not map the peer's message")
		return true
	}
	evOpt.WhenSome(func(ev ProtocolEvent) { x.apply(c.k, ev) })
	return true
}

// offerNewScript: party k makes an offer as closer that names a new delivery
// script of its own. When no closing_complete leaves the machine (fee not
// payable, ...) nothing was announced and the old script stays in force.
func (x *verifC17RbfRun) offerNewScript(k int, ns *verifC17RbfNewScriptOffer) {
	p := x.parties[k]
	old := x.scripts[k]
	if _, busy := p.localPeerState().(*LocalOfferSent); busy || p.localPeerState() == nil ||
		p.env.LocalUpfrontShutdown.IsSome() || verifC17RbfSetLocalScript(p.state, ns.script) == 0 {

		x.vc.Count("script_change_not_possible", 1)
		x.apply(k, ns.offer)
		return
	}
	x.scripts[k] = ns.script
	sent := x.iters[k]
	x.apply(k, ns.offer)
	if x.iters[k] == sent && p.dead == nil && !x.failed {
		x.vc.Count("script_change_not_announced", 1)
		verifC17RbfSetLocalScript(p.state, old)
		x.scripts[k] = old
	}
}

func (x *verifC17RbfRun) drain(r *lnwallet.VerifRng) {
	for n := 0; n < 400 && !x.failed; n++ {
		if !x.step(r) {
			return
		}
	}
}

// verifC17RbfFees returns n fees (sat) for closer c from the lattice of the
// statement's quantifier: zero, ordinary, around the closer's dust edge,
// around everything it owns, above what it owns.
func (x *verifC17RbfRun) fees(r *lnwallet.VerifRng, c, n int) []int64 {
	own, raw, dust := x.owned[c], x.raw[c], x.dust[c]
	sd := int64(lnwallet.DustLimitForSize(len(x.scripts[c])))
	lat := []int64{0, 1, 100, 183, 500, 1000, 2500, 10000, 50000,
		raw - 1, raw, raw + 1,
		own - dust - 1, own - dust, own - dust + 1,
		own - sd - 1, own - sd, own - sd + 1,
		own - 1, own, own + 1, own + 1000, 2 * x.capSat,
		own / 2, own / 3, raw / 2}
	var out []int64
	for len(out) < n {
		f := lat[r.Intn(len(lat))]
		if f < 0 {
			continue
		}
		out = append(out, f)
	}
	// RBF: mostly increasing fees.
	if !r.Chance(1, 6) {
		sort.Slice(out, func(a, b int) bool { return out[a] < out[b] })
	}
	return out
}

func verifC17RbfCase(vc *lnwallet.VerifCtx, i int) {
	r := vc.Rng(i)
	p := lnwallet.VerifE1GenParams(r)
	nActions := 8 + r.Intn(28)
	if r.Chance(1, 3) {
		// states in which the non-opener owns nothing or very little
		// (its output is dust / it cannot pay any fee).
		p.PushPct = 0
		if r.Bool() {
			nActions = 2 + r.Intn(8)
		}
	}
	// shaping cases (a quarter): the non-opener starts with nothing, every
	// HTLC of the schedule is failed, then its balance is lifted to a chosen
	// dust boundary (below).
	shape := i%4 == 1
	if shape {
		p.PushPct = 0
		nActions = 2 + r.Intn(20)
	}
	vc.Case(i, map[string]any{"params": p, "actions": nActions, "shape": shape})
	e, err := lnwallet.VerifE1New(vc, r, p)
	if err != nil {
		vc.Count("setup_skipped", 1)
		vc.CaseDone(i)
		return
	}
	defer e.Close()
	defer vc.CaseDone(i)
	e.SetNoPendingFate(true)
	e.SetFailOnlyFate(shape)
	e.SetOracles(map[string]bool{"tx_exact": false})
	for a := 0; a < nActions && !e.Ended(); a++ {
		e.Step(true)
	}
	for round := 0; round < 4 && !e.Ended(); round++ {
		if !e.Drain(true) {
			break
		}
	}
	if e.Ended() {
		if e.ConstraintTerminated() {
			vc.Count("constraint_terminated", 1)
		}
		return
	}
	// delivery scripts first: the RBF flow judges dust by the script's
	// dust threshold, so the balance shaping below needs them.
	scripts := [2][]byte{verifC17RbfScript(r), verifC17RbfScript(r)}
	if r.Chance(1, 8) {
		scripts[1] = scripts[0]
	}
	// balance shaping (shaping cases): lift the non-opener's balance
	// to a dust threshold -1/0/+1 sat (channel dust limits, the dust value
	// of its delivery script and of the peer's), any sub-satoshi remainder.
	if shape {
		dA, dB := e.DustLimits()
		t := 1 - e.OpenerIdx()
		thr := []int64{dA, dB, int64(lnwallet.DustLimitForSize(len(scripts[t]))),
			int64(lnwallet.DustLimitForSize(len(scripts[1-t])))}
		T := thr[r.Intn(len(thr))] + int64(r.Intn(3)) - 1
		rem := []uint64{0, 0, 1, 999, uint64(r.Intn(1000))}[r.Intn(5)]
		if T >= 1 && e.ShapeNonOpener(uint64(T)*1000+rem) {
			vc.Count("shaped_nonopener_balance", 1)
		}
		if e.Ended() {
			if e.ConstraintTerminated() {
				vc.Count("constraint_terminated", 1)
			}
			return
		}
	}
	chans := [2]*lnwallet.LightningChannel{e.Channel(0), e.Channel(1)}
	st := [2]*channeldb.OpenChannel{chans[0].State(), chans[1].State()}
	if len(st[0].LocalCommitment.Htlcs) != 0 || len(st[1].LocalCommitment.Htlcs) != 0 ||
		!chans[0].IsChannelClean() || !chans[1].IsChannelClean() {

		vc.Count("state_not_clean_skipped", 1)
		return
	}
	if st[0].LocalCommitment.RemoteBalance != st[1].LocalCommitment.LocalBalance ||
		st[1].LocalCommitment.RemoteBalance != st[0].LocalCommitment.LocalBalance ||
		st[0].LocalCommitment.CommitFee != st[1].LocalCommitment.CommitFee {

		vc.Count("views_differ_skipped", 1)
		return
	}

	x := &verifC17RbfRun{vc: vc, e: e, p: p, oi: e.OpenerIdx()}
	dustA, dustB := e.DustLimits()
	x.dust = [2]int64{dustA, dustB}
	for k := 0; k < 2; k++ {
		x.raw[k] = int64(st[k].LocalCommitment.LocalBalance / 1000)
	}
	x.owned = x.raw
	x.owned[x.oi] += int64(st[0].LocalCommitment.CommitFee) + e.AnchorsSat()
	x.pk, x.capSat, err = e.FundingScript()
	if err != nil {
		panic(fmt.Sprintf("funding script: %v", err))
	}
	x.scripts = scripts

	// environment of each party, as peer/brontide.go initRbfChanCloser
	// builds it (BlockHeight stays zero there; the msg mapper reports the
	// chain height).
	prodEst := r.Chance(1, 4)
	thaw, err := chans[0].AbsoluteThawHeight()
	if err != nil {
		vc.Count("thaw_height_err_skipped", 1)
		return
	}
	height := thaw + uint32(r.Intn(1000))
	chanPoint := chans[0].ChannelPoint()
	chanID := lnwire.NewChanIDFromOutPoint(chanPoint)
	nonceRng := r.Fork("nonces")
	heightRng := nonceRng.Fork("blockheight")
	for k := 0; k < 2; k++ {
		k := k
		obs := &verifC17RbfObserver{ch: chans[k], link: r.Chance(3, 4)}
		signer := &verifC17RbfSigner{ch: chans[k]}
		env := &Environment{
			ChainParams:    chaincfg.RegressionNetParams,
			ChanPeer:       *st[k].IdentityPub,
			ChanPoint:      chanPoint,
			ChanID:         chanID,
			Scid:           chans[k].ZeroConfRealScid().UnwrapOr(chans[k].ShortChanID()),
			ChanType:       chans[k].ChanType(),
			DefaultFeeRate: 0, // set below
			ThawHeight:     fn.Some(thaw),
			NewDeliveryScript: func() (lnwire.DeliveryAddress, error) {
				return x.scripts[k], nil
			},
			FeeEstimator: verifC17RbfEst{},
			CloseSigner:  signer,
			ChanObserver: obs,
		}
		if prodEst {
			env.FeeEstimator = &SimpleCoopFeeEstimator{}
		}
		// Environment.BlockHeight ("the current block height") is what a
		// closer puts into closing_complete as the transaction's lock
		// time. lnd's peer code leaves it zero; any other configuration
		// (the two parties at the same height, one block apart, only one
		// of them configured) must still make both sides sign one and
		// the same transaction. Own PRNG stream (forked off the nonce
		// stream, the case's main stream is not consumed).
		if heightRng.Chance(1, 2) {
			env.BlockHeight = []uint32{0, height, height - 1, height + 1, 1}[heightRng.Intn(5)]
			signer.lock = env.BlockHeight
			if env.BlockHeight != 0 {
				vc.Count("rbf_parties_with_block_height", 1)
			}
		}
		if up := chans[k].RemoteUpfrontShutdownScript(); len(up) != 0 {
			env.RemoteUpfrontShutdown = fn.Some(up)
		}
		if up := chans[k].LocalUpfrontShutdownScript(); len(up) != 0 {
			env.LocalUpfrontShutdown = fn.Some(up)
			x.scripts[k] = up
		}
		if chans[k].ChanType().IsTaproot() {
			env.LocalMusigSession = &verifC17RbfMusig{channel: chans[k], rnd: nonceRng}
			env.RemoteMusigSession = &verifC17RbfMusig{channel: chans[k], rnd: nonceRng}
		}
		x.parties[k] = &verifC17RbfParty{
			idx: k, ch: chans[k], env: env, obs: obs, signer: signer, state: &ChannelActive{},
			mapper: NewRbfMsgMapper(func() uint32 { return height }, chanID, *st[k].IdentityPub),
		}
	}

	// rate (sat/vbyte) that makes the estimator of this case charge about
	// fee satoshis.
	rate := func(fee int64) chainfee.SatPerVByte {
		if !prodEst {
			return chainfee.SatPerVByte(fee)
		}
		// SimpleCoopFeeEstimator: fee = rate*250*weight/1000, weight
		// about 600..720; realistic rates and a few absurd ones.
		return chainfee.SatPerVByte(fee / 160)
	}

	ci := r.Intn(2) // sends shutdown first
	plan := [2][]int64{x.fees(r, 0, 1+r.Intn(3)), x.fees(r, 1, 1+r.Intn(3))}
	// a third of the trials: one or both parties name a NEW delivery script
	// in (most of) their 2nd/3rd offers as closer. Own PRNG stream, so the
	// other choices of the trial are what they were without this.
	rs := vc.Rng(i).Fork("c17-rbf-script-change")
	var changer [2]bool
	if rs.Chance(1, 3) {
		switch rs.Intn(3) {
		case 0:
			changer[0] = true
		case 1:
			changer[1] = true
		default:
			changer[0], changer[1] = true, true
		}
		// both sides make three offers in these trials, so that there are
		// offers of either side after a change of either side.
		for k := 0; k < 2; k++ {
			if n := 3 - len(plan[k]); n > 0 {
				plan[k] = append(plan[k], x.fees(rs, k, n)...)
			}
		}
	}
	// the first offer of each side is made by the machine itself once
	// the channel is flushed: ideal fee rate of the initiator, default
	// fee rate of the responder.
	x.parties[ci].env.DefaultFeeRate = rate(1000)
	x.parties[1-ci].env.DefaultFeeRate = rate(plan[1-ci][0])
	shut := &SendShutdown{IdealFeeRate: rate(plan[ci][0])}
	if r.Bool() {
		shut.DeliveryAddr = fn.Some(lnwire.DeliveryAddress(x.scripts[ci]))
	}
	x.logf("initiator %d plan %v prodEst %v link %v/%v height %d thaw %d", ci, plan, prodEst,
		x.parties[0].obs.link, x.parties[1].obs.link, height, thaw)
	x.apply(ci, shut)
	x.drain(r)

	for k := 0; k < 2 && !x.failed; k++ {
		if _, ok := x.parties[k].state.(*ClosingNegotiation); !ok && x.parties[k].dead == nil {
			x.vc.Count("not_in_negotiation", 1)
			x.vc.Diag("rbf_not_in_negotiation", fmt.Sprintf("party %d is in %s after the shutdown exchange; trace %v",
				k, x.parties[k].state, x.log))
			return
		}
	}

	// further offers (RBF): each side in PRNG order, sometimes while the
	// other direction's exchange is still in flight.
	next := [2]int{1, 1}
	for !x.failed {
		var cand []int
		for k := 0; k < 2; k++ {
			if next[k] < len(plan[k]) && x.parties[k].dead == nil {
				cand = append(cand, k)
			}
		}
		if len(cand) == 0 {
			break
		}
		k := cand[r.Intn(len(cand))]
		ls := x.parties[k].localPeerState()
		if _, busy := ls.(*LocalOfferSent); busy || ls == nil {
			// brontide waits until the coast is clear.
			if !x.step(r) {
				next[k] = len(plan[k])
			}
			continue
		}
		var offer ProtocolEvent = &SendOfferEvent{TargetFeeRate: rate(plan[k][next[k]])}
		if changer[k] && rs.Chance(3, 4) {
			offer = &verifC17RbfNewScriptOffer{script: verifC17RbfScript(rs),
				offer: offer.(*SendOfferEvent)}
		}
		x.parties[k].localIn = append(x.parties[k].localIn, offer)
		next[k]++
		if r.Chance(2, 3) {
			x.drain(r)
		} else {
			x.step(r)
		}
	}
	x.drain(r)

	for k := 0; k < 2; k++ {
		if x.parties[k].dead != nil {
			vc.Count("machines_dead", 1)
		}
	}
	vc.Count("cases_run", 1)
	if x.txs > 0 {
		vc.Count("nontrivial", 1)
	}
	if x.done[0] > 0 && x.done[1] > 0 {
		vc.Count("both_sides_closed", 1)
	}
	if x.changes[0] > 0 && x.changes[1] > 0 {
		vc.Count("both_parties_changed_script", 1)
	}
	if i%40 == 0 {
		vc.Sample(map[string]any{"case": i, "type": p.TypeName, "opener": x.oi, "initiator": ci, "plan": plan,
			"owned": x.owned, "dust": x.dust, "completed": x.done, "offers": x.iters, "script_changes": x.changes,
			"trace": x.log})
	}
}

func TestVerifC17Rbf(t *testing.T) {
	vc := lnwallet.VerifStart(t, "C17", "rbf")
	defer vc.Finish()
	total := vc.N(400, 28000)
	for i := 0; i < total; i++ {
		if !vc.Mine(i) {
			continue
		}
		verifC17RbfCase(vc, i)
	}
}
