package chancloser

// C17 (legacy negotiation): two real ChanClosers over the two real channels of
// an E1 schedule exchange shutdown / closing_signed in memory for a lattice of
// ideal-fee pairs; the negotiation must finish on both sides within a bounded
// number of messages on a fee both signed for, with identical, valid closing
// transactions paying the exact balances.

import (
	"bytes"
	"fmt"
	"io"
	"sort"
	"testing"

	"github.com/btcsuite/btcd/btcec/v2/schnorr/musig2"
	"github.com/btcsuite/btcd/btcutil/v2"
	"github.com/btcsuite/btcd/chaincfg/v2"
	"github.com/btcsuite/btcd/wire/v2"
	"github.com/lightningnetwork/lnd/channeldb"
	"github.com/lightningnetwork/lnd/fn/v2"
	"github.com/lightningnetwork/lnd/input"
	"github.com/lightningnetwork/lnd/lntypes"
	"github.com/lightningnetwork/lnd/lnwallet"
	"github.com/lightningnetwork/lnd/lnwallet/chainfee"
	"github.com/lightningnetwork/lnd/lnwire"
)

// verifC17Est maps a "rate" directly to a fee in satoshis so that the harness
// controls each side's ideal fee and fee cap exactly.
type verifC17Est struct{}

func (verifC17Est) EstimateFee(_ channeldb.ChannelType, _, _ *wire.TxOut,
	rate chainfee.SatPerKWeight) btcutil.Amount {

	return btcutil.Amount(rate)
}

// verifC17MusigCloser mirrors peer.MusigChanCloser (which cannot be imported
// from this package).
type verifC17MusigCloser struct {
	channel     *lnwallet.LightningChannel
	session     *lnwallet.MusigSession
	localNonce  *musig2.Nonces
	remoteNonce *musig2.Nonces
}

func (m *verifC17MusigCloser) ProposalClosingOpts() ([]lnwallet.ChanCloseOpt, error) {
	if m.localNonce == nil || m.remoteNonce == nil {
		return nil, fmt.Errorf("nonce not generated")
	}
	localKey, remoteKey := m.channel.MultiSigKeys()
	tweak := fn.MapOption(lnwallet.TapscriptRootToTweak)(m.channel.State().TapscriptRoot)
	m.session = lnwallet.NewPartialMusigSession(*m.remoteNonce, localKey, remoteKey,
		m.channel.Signer, m.channel.FundingTxOut(), lnwallet.RemoteMusigCommit, tweak,
		fn.None[io.Reader]())
	if err := m.session.FinalizeSession(*m.localNonce); err != nil {
		return nil, err
	}
	return []lnwallet.ChanCloseOpt{lnwallet.WithCoopCloseMusigSession(m.session)}, nil
}

func (m *verifC17MusigCloser) CombineClosingOpts(localSig, remoteSig lnwire.PartialSig) (
	input.Signature, input.Signature, []lnwallet.ChanCloseOpt, error) {

	if m.session == nil {
		return nil, nil, nil, fmt.Errorf("musig session not created")
	}
	l := new(lnwallet.MusigPartialSig).FromWireSig(&lnwire.PartialSigWithNonce{
		PartialSig: localSig, Nonce: m.localNonce.PubNonce})
	r := new(lnwallet.MusigPartialSig).FromWireSig(&lnwire.PartialSigWithNonce{
		PartialSig: remoteSig, Nonce: m.remoteNonce.PubNonce})
	return l, r, []lnwallet.ChanCloseOpt{lnwallet.WithCoopCloseMusigSession(m.session)}, nil
}

func (m *verifC17MusigCloser) ClosingNonce() (*musig2.Nonces, error) {
	localKey, _ := m.channel.MultiSigKeys()
	n, err := musig2.GenNonces(musig2.WithPublicKey(localKey.PubKey))
	if err != nil {
		return nil, err
	}
	m.localNonce = n
	return n, nil
}

func (m *verifC17MusigCloser) InitRemoteNonce(n *musig2.Nonces) { m.remoteNonce = n }
func (m *verifC17MusigCloser) InvalidateNonce() {
	m.localNonce = nil
	m.session = nil
}

func verifC17NegScript(r *lnwallet.VerifRng) []byte {
	switch r.Intn(3) {
	case 0:
		return append([]byte{0x00, 0x14}, r.Bytes(20)...)
	case 1:
		return append([]byte{0x00, 0x20}, r.Bytes(32)...)
	}
	return append([]byte{0x51, 0x20}, r.Bytes(32)...)
}

func verifC17NegCase(vc *lnwallet.VerifCtx, i int) {
	r := vc.Rng(i)
	p := lnwallet.VerifE1GenParams(r)
	nActions := 10 + r.Intn(30)
	// ideal fees on a lattice of [100 .. 50000] sat
	lattice := []int64{100, 101, 110, 130, 131, 200, 500, 1000, 1300, 1301, 2500, 10000, 25000, 50000}
	ideal := [2]int64{lattice[r.Intn(len(lattice))], lattice[r.Intn(len(lattice))]}
	if r.Chance(1, 4) {
		ideal[1] = ideal[0]
	}
	mx := ideal[0]
	if ideal[1] > mx {
		mx = ideal[1]
	}
	caps := [2]int64{mx + int64(r.Intn(3))*mx, mx + int64(r.Intn(3))*mx}
	if r.Chance(1, 3) {
		caps = [2]int64{0, 0} // default cap: 3x ideal ... only if it contains the other's ideal
		if ideal[0]*3 < mx || ideal[1]*3 < mx {
			caps = [2]int64{mx, mx}
		}
	}
	initiatorOfClose := r.Intn(2)
	vc.Case(i, map[string]any{"params": p, "actions": nActions, "ideal": ideal, "caps": caps,
		"closeInitiator": initiatorOfClose})
	e, err := lnwallet.VerifE1New(vc, r, p)
	if err != nil {
		vc.Count("setup_skipped", 1)
		vc.CaseDone(i)
		return
	}
	defer e.Close()
	e.SetNoPendingFate(true)
	e.SetOracles(map[string]bool{"tx_exact": false})
	for a := 0; a < nActions && !e.Ended(); a++ {
		e.Step(true)
	}
	for round := 0; round < 4 && !e.Ended(); round++ {
		if !e.Drain(true) {
			break
		}
	}
	if e.Ended() {
		if e.ConstraintTerminated() {
			vc.Count("constraint_terminated", 1)
		}
		vc.CaseDone(i)
		return
	}
	chans := [2]*lnwallet.LightningChannel{e.Channel(0), e.Channel(1)}
	if len(chans[0].State().LocalCommitment.Htlcs) != 0 || len(chans[1].State().LocalCommitment.Htlcs) != 0 {
		vc.Count("state_has_htlcs_skipped", 1)
		vc.CaseDone(i)
		return
	}
	oi := e.OpenerIdx()
	dustA, dustB := e.DustLimits()
	dust := [2]int64{dustA, dustB}
	bal := [2]int64{int64(chans[0].State().LocalCommitment.LocalBalance / 1000),
		int64(chans[1].State().LocalCommitment.LocalBalance / 1000)}
	commitFee := int64(chans[0].State().LocalCommitment.CommitFee)
	owned := bal
	owned[oi] += commitFee + e.AnchorsSat()
	if owned[oi] < 2*mx+dust[oi] {
		// the opener could not afford the realistic fee range.
		vc.Count("opener_too_poor_skipped", 1)
		vc.CaseDone(i)
		return
	}
	scripts := [2][]byte{verifC17NegScript(r), verifC17NegScript(r)}
	var closers [2]*ChanCloser
	var broadcast [2]*wire.MsgTx
	for k := 0; k < 2; k++ {
		k := k
		cfg := ChanCloseCfg{
			Channel:        chans[k],
			MusigSession:   &verifC17MusigCloser{channel: chans[k]},
			BroadcastTx:    func(tx *wire.MsgTx, _ string) error { broadcast[k] = tx; return nil },
			DisableChannel: func(wire.OutPoint) error { return nil },
			Disconnect:     func() error { return nil },
			MaxFee:         chainfee.SatPerKWeight(caps[k]),
			ChainParams:    &chaincfg.RegressionNetParams,
			Quit:           make(chan struct{}),
			FeeEstimator:   verifC17Est{},
		}
		who := lntypes.Remote
		if k == initiatorOfClose {
			who = lntypes.Local
		}
		closers[k] = NewChanCloser(cfg, DeliveryAddrWithKey{DeliveryAddress: scripts[k]},
			chainfee.SatPerKWeight(ideal[k]), 2000, nil, who)
	}
	fail := func(oracle, key, detail string) {
		e.Viol(oracle, key, detail)
	}
	ci := initiatorOfClose
	sd, err := closers[ci].ShutdownChan()
	if err != nil {
		fail("negotiation_no_error", "ShutdownChan", err.Error())
		vc.CaseDone(i)
		return
	}
	resp, err := closers[1-ci].ReceiveShutdown(*sd)
	if err != nil || resp.IsNone() {
		fail("negotiation_no_error", "ReceiveShutdown-responder", fmt.Sprintf("err=%v none=%v", err, resp.IsNone()))
		vc.CaseDone(i)
		return
	}
	if _, err := closers[ci].ReceiveShutdown(resp.UnsafeFromSome()); err != nil {
		fail("negotiation_no_error", "ReceiveShutdown-initiator", err.Error())
		vc.CaseDone(i)
		return
	}
	// both sides flushed (no HTLCs): begin negotiation. In-flight queue of
	// closing_signed per direction.
	var q [2][]lnwire.ClosingSigned
	msgs := 0
	for k := 0; k < 2; k++ {
		cs, err := closers[k].BeginNegotiation()
		if err != nil {
			fail("negotiation_no_error", "BeginNegotiation", err.Error())
			vc.CaseDone(i)
			return
		}
		cs.WhenSome(func(m lnwire.ClosingSigned) { q[k] = append(q[k], m) })
	}
	const maxMsgs = 200
	for (len(q[0]) > 0 || len(q[1]) > 0) && msgs < maxMsgs {
		for k := 0; k < 2; k++ {
			if len(q[k]) == 0 {
				continue
			}
			m := q[k][0]
			q[k] = q[k][1:]
			msgs++
			// through the wire codec
			var buf bytes.Buffer
			if _, err := lnwire.WriteMessage(&buf, &m, 0); err != nil {
				vc.Violation("negotiation_no_error", "wire-encode", err.Error(), nil)
				vc.CaseDone(i)
				return
			}
			dm, err := lnwire.ReadMessage(bytes.NewReader(buf.Bytes()), 0)
			if err != nil {
				vc.Violation("negotiation_no_error", "wire-decode", err.Error(), nil)
				vc.CaseDone(i)
				return
			}
			out, err := closers[1-k].ReceiveClosingSigned(*dm.(*lnwire.ClosingSigned))
			if err != nil {
				fail("negotiation_no_error", "ReceiveClosingSigned",
					fmt.Sprintf("party %d rejected closing_signed(fee=%d) of honest peer: %v (ideal %v caps %v)",
						1-k, m.FeeSatoshis, err, ideal, caps))
				vc.CaseDone(i)
				return
			}
			out.WhenSome(func(mm lnwire.ClosingSigned) { q[1-k] = append(q[1-k], mm) })
			if closers[0].state == closeFinished && closers[1].state == closeFinished {
				q[0], q[1] = nil, nil
				break
			}
		}
	}
	vc.Count("oracle_terminates", 1)
	vc.Max("negotiation_messages", int64(msgs))
	if closers[0].state != closeFinished || closers[1].state != closeFinished {
		fail("negotiation_terminates", fmt.Sprintf("states:%v/%v", closers[0].state, closers[1].state),
			fmt.Sprintf("negotiation did not finish on both sides after %d messages (ideal %v caps %v)", msgs, ideal, caps))
		vc.CaseDone(i)
		return
	}
	txA, errA := closers[0].ClosingTx()
	txB, errB := closers[1].ClosingTx()
	if errA != nil || errB != nil {
		fail("negotiation_terminates", "ClosingTx", fmt.Sprintf("%v %v", errA, errB))
		vc.CaseDone(i)
		return
	}
	var ba, bb bytes.Buffer
	txA.Serialize(&ba)
	txB.Serialize(&bb)
	vc.Count("oracle_identical_tx", 1)
	if !bytes.Equal(ba.Bytes(), bb.Bytes()) {
		fail("coop_identical_tx", "negotiated", fmt.Sprintf("closing txs differ: %x vs %x", ba.Bytes(), bb.Bytes()))
		vc.CaseDone(i)
		return
	}
	pk, capSat, err := e.FundingScript()
	if err != nil {
		t := fmt.Sprintf("funding script: %v", err)
		panic(t)
	}
	var sum int64
	for _, o := range txA.TxOut {
		sum += o.Value
	}
	fee := capSat - sum
	vc.Count("oracle_interpreter", 1)
	if err := lnwallet.VerifExec(pk, capSat, txA, 0, nil); err != nil {
		fail("coop_tx_valid", p.TypeName, fmt.Sprintf("interpreter rejects negotiated closing tx: %v", err))
		vc.CaseDone(i)
		return
	}
	// the final fee is one both sides signed for
	_, okA := closers[0].priorFeeOffers[btcutil.Amount(0)]
	_ = okA
	want := owned
	// fee actually charged = what the opener's output lost
	type out struct {
		v int64
		s string
	}
	var got []out
	for _, o := range txA.TxOut {
		got = append(got, out{o.Value, fmt.Sprintf("%x", o.PkScript)})
	}
	// find the agreed fee among the offers both signed
	agreed := int64(-1)
	for f := range closers[0].priorFeeOffers {
		if _, ok := closers[1].priorFeeOffers[f]; ok {
			w := want
			w[oi] -= int64(f)
			var exp []out
			for k := 0; k < 2; k++ {
				if w[k] >= dust[k] {
					exp = append(exp, out{w[k], fmt.Sprintf("%x", scripts[k])})
				}
			}
			less := func(x []out) func(a, b int) bool {
				return func(a, b int) bool {
					if x[a].v != x[b].v {
						return x[a].v < x[b].v
					}
					return x[a].s < x[b].s
				}
			}
			sort.Slice(exp, less(exp))
			g := append([]out(nil), got...)
			sort.Slice(g, less(g))
			if fmt.Sprint(exp) == fmt.Sprint(g) {
				agreed = int64(f)
			}
		}
	}
	vc.Count("oracle_fee_both_signed", 1)
	if agreed < 0 {
		fail("negotiation_fee_both_signed", "no-common-offer-explains-tx",
			fmt.Sprintf("closing tx outputs %v (tx fee %d incl. dust) are not explained by any fee both sides signed for: offers A %v, B %v; owned %v opener %d dust %v",
				got, fee, verifC17Keys(closers[0].priorFeeOffers), verifC17Keys(closers[1].priorFeeOffers), owned, oi, dust))
		vc.CaseDone(i)
		return
	}
	lo, hi := ideal[0], ideal[1]
	if lo > hi {
		lo, hi = hi, lo
	}
	if agreed < lo || agreed > hi {
		vc.Diag("agreed_fee_outside_ideal_range", fmt.Sprintf("agreed %d ideal %v", agreed, ideal))
	}
	vc.Count("nontrivial", 1)
	vc.Sig(fmt.Sprint(p.TypeName, p.AliceOpener, initiatorOfClose, msgs > 4, msgs > 20, ideal[0] == ideal[1],
		ideal[0] < ideal[1], caps[0] == 0, len(got)))
	if i%40 == 0 {
		vc.Sample(map[string]any{"case": i, "type": p.TypeName, "ideal": ideal, "caps": caps,
			"messages": msgs, "agreed_fee": agreed, "outputs": len(got)})
	}
	vc.CaseDone(i)
}

func verifC17Keys(m map[btcutil.Amount]*lnwire.ClosingSigned) []int64 {
	var out []int64
	for k := range m {
		out = append(out, int64(k))
	}
	sort.Slice(out, func(i, j int) bool { return out[i] < out[j] })
	return out
}

func TestVerifC17Negotiation(t *testing.T) {
	vc := lnwallet.VerifStart(t, "C17", "negotiation")
	defer vc.Finish()
	total := vc.N(400, 4000)
	for i := 0; i < total; i++ {
		if !vc.Mine(i) {
			continue
		}
		verifC17NegCase(vc, i)
	}
}
