package lnwallet

// C01 monitor: agreement and msat conservation of commitments over PRNG
// asynchronous schedules of two honest peers (engine E1, no faults).

import (
	"fmt"
	"testing"

	"github.com/btcsuite/btcd/chainhash/v2"
	"github.com/lightningnetwork/lnd/shachain"
)

// verifE1SelfCheck makes sure the harness's own shachain derivation agrees
// with the fixture's producer (otherwise release bookkeeping is meaningless
// and the run is inconclusive, not a violation).
func verifE1SelfCheck(t *testing.T) {
	var root chainhash.Hash
	copy(root[:], []byte("verif-selfcheck-root-0123456789abcdef"))
	prod := shachain.NewRevocationProducer(root)
	for _, k := range []uint64{0, 1, 2, 3, 7, 8, 1000, 65535, 1 << 20} {
		want, err := prod.AtIndex(k)
		if err != nil {
			t.Fatalf("selfcheck: %v", err)
		}
		if got := verifShaDerive(root, k); got != [32]byte(*want) {
			t.Fatalf("selfcheck: harness shachain derivation differs at %d", k)
		}
	}
}

func verifC01Case(vc *verifCtx, i int) {
	r := vc.Rng(i)
	p := verifE1GenParams(r)
	nActions := 30 + r.Intn(51)
	vc.Case(i, map[string]any{"params": p, "actions": nActions})
	e, err := verifE1New(vc, r, p)
	if err != nil {
		vc.Count("setup_skipped", 1)
		vc.CaseDone(i)
		return
	}
	defer e.Close()
	e.richAdds = true
	e.oracles = map[string]bool{"tx_exact": true}
	e.checkStep()
	if r.Chance(1, 15) {
		// large commitments: a burst of adds from one or both sides.
		e.burst(r.Intn(2), 20+r.Intn(200))
		if r.Bool() {
			e.burst(r.Intn(2), 20+r.Intn(100))
		}
		vc.Count("burst_cases", 1)
		e.checkStep()
	}
	for a := 0; a < nActions && !e.ended; a++ {
		lbl := e.step(true)
		if lbl == "noop" {
			continue
		}
		e.checkStep()
		// occasionally run to quiescence in the middle of the schedule
		if !e.ended && r.Chance(1, 25) {
			if e.drain(r.Bool(), func(string) { e.checkStep() }) {
				e.checkQuiescent()
			}
		}
	}
	if !e.ended {
		if e.drain(true, func(string) { e.checkStep() }) {
			e.checkQuiescent()
		}
	}
	if !e.ended {
		// one more full round: resolutions issued by the drain may have
		// unlocked further ones.
		if e.drain(true, func(string) { e.checkStep() }) {
			e.checkQuiescent()
		}
	}
	if e.constraintTm {
		vc.Count("constraint_terminated", 1)
	}
	vc.Count("actions", int64(len(e.trace)))
	if e.everLocked > 0 && e.nSigns > 0 && !e.constraintTm {
		vc.Count("nontrivial", 1)
		if e.sawAsyncSign {
			vc.Count("async_sign_cases", 1)
		}
		vc.Sig(e.signature())
	}
	if i%40 == 0 {
		tr := e.trace
		if len(tr) > 60 {
			tr = tr[:60]
		}
		vc.Sample(map[string]any{"case": i, "params": p, "trace_head": tr,
			"adds": e.nAdds, "settles": e.nSettles, "fails": e.nFails + e.nMalformed,
			"fees": e.nFees, "signs": e.nSigns, "max_in_flight": e.maxInFlight,
			"end": fmt.Sprint(e.endReason)})
	}
	vc.CaseDone(i)
}

func TestVerifC01(t *testing.T) {
	vc := verifStart(t, "C01", "schedules")
	defer vc.Finish()
	verifE1SelfCheck(t)
	total := vc.N(1200, 12000)
	for i := 0; i < total; i++ {
		if !vc.Mine(i) {
			continue
		}
		verifC01Case(vc, i)
	}
}
