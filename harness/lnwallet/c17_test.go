package lnwallet

// C17 (transaction level): for HTLC-free states reached through E1 schedules
// (arbitrary msat balances, moved fees, either opener, every channel type) the
// two sides build the cooperative close for a lattice of fees and delivery
// script pairs; the completed transactions must be byte-identical, valid
// under btcd's script interpreter against the funding output, and pay the
// exact balances the statement prescribes.

import (
	"bytes"
	"fmt"
	"sort"
	"testing"

	"github.com/btcsuite/btcd/btcec/v2/schnorr/musig2"
	"github.com/btcsuite/btcd/btcutil/v2"
	"github.com/btcsuite/btcd/wire/v2"
	"github.com/lightningnetwork/lnd/fn/v2"
	"github.com/lightningnetwork/lnd/input"
	"github.com/lightningnetwork/lnd/lntypes"
	"github.com/lightningnetwork/lnd/lnwire"
	"io"
)

type verifC17Musig struct {
	ch          *LightningChannel
	session     *MusigSession
	localNonce  *musig2.Nonces
	remoteNonce *musig2.Nonces
}

func (m *verifC17Musig) genNonce() (*musig2.Nonces, error) {
	localKey, _ := m.ch.MultiSigKeys()
	n, err := musig2.GenNonces(musig2.WithPublicKey(localKey.PubKey))
	m.localNonce = n
	return n, err
}

func (m *verifC17Musig) opts() ([]ChanCloseOpt, error) {
	localKey, remoteKey := m.ch.MultiSigKeys()
	tweak := fn.MapOption(TapscriptRootToTweak)(m.ch.State().TapscriptRoot)
	m.session = NewPartialMusigSession(*m.remoteNonce, localKey, remoteKey,
		m.ch.Signer, m.ch.FundingTxOut(), RemoteMusigCommit, tweak,
		fn.None[io.Reader]())
	if err := m.session.FinalizeSession(*m.localNonce); err != nil {
		return nil, err
	}
	return []ChanCloseOpt{WithCoopCloseMusigSession(m.session)}, nil
}

func verifC17Script(r *verifRng, kind int) []byte {
	switch kind {
	case 0: // p2wpkh
		return append([]byte{0x00, 0x14}, r.Bytes(20)...)
	case 1: // p2wsh
		return append([]byte{0x00, 0x20}, r.Bytes(32)...)
	default: // p2tr
		return append([]byte{0x51, 0x20}, r.Bytes(32)...)
	}
}

type verifC17Trial struct {
	Fee      int64
	ScriptA  string
	ScriptB  string
	PayerOpt int // 0 default payer (opener), 1 custom payer A, 2 custom payer B
}

// verifC17Expect: the statement's rule evaluated by the harness.
func verifC17Expect(e *verifE1, balA, balB, commitFee, fee int64, payer int) (outA, outB int64, affordable bool) {
	oi := e.openerIdx()
	v := [2]int64{balA, balB}
	v[oi] += commitFee + e.anchorsSat
	v[payer] -= fee
	if v[0] < 0 || v[1] < 0 {
		return 0, 0, false
	}
	return v[0], v[1], true
}

// verifC17Shape lifts the non-opener's balance to a dust boundary.
func verifC17Shape(e *verifE1, r *verifRng) bool {
	thr := []int64{e.p.DustA, e.p.DustB, 294, 330, 354, 546, 540}
	T := thr[r.Intn(len(thr))] + int64(r.Intn(3)) - 1
	rem := []uint64{0, 0, 1, 999, uint64(r.Intn(1000))}[r.Intn(5)]
	if T < 1 {
		return false
	}
	return e.shapeNonOpener(lnwire.MilliSatoshi(uint64(T)*1000 + rem))
}

func verifC17Trials(e *verifE1, i int) {
	vc := e.vc
	r := e.r
	a, b := e.parties[0], e.parties[1]
	if len(a.ch.channelState.LocalCommitment.Htlcs) != 0 ||
		len(b.ch.channelState.LocalCommitment.Htlcs) != 0 {

		vc.Count("state_has_htlcs_skipped", 1)
		return
	}
	balA := int64(a.ch.channelState.LocalCommitment.LocalBalance / 1000)
	balB := int64(b.ch.channelState.LocalCommitment.LocalBalance / 1000)
	commitFee := int64(a.ch.channelState.LocalCommitment.CommitFee)
	if int64(b.ch.channelState.LocalCommitment.CommitFee) != commitFee {
		e.viol("coop_inputs_agree", "commit-fee",
			"the two sides' HTLC-free commitments carry different commit fees")
		return
	}
	oi := e.openerIdx()
	openerOwned := []int64{balA, balB}[oi] + commitFee + e.anchorsSat
	typical := int64(a.ch.CalcFee(6000))
	fees := []int64{0, 1, 100, e.p.DustA, e.p.DustB, typical, typical * 3,
		openerOwned - e.p.DustA - 1, openerOwned - e.p.DustA, openerOwned - e.p.DustB,
		openerOwned - 1, openerOwned, openerOwned + 1, openerOwned + 100000,
		int64(r.U64n(uint64(openerOwned) + 2))}
	nTrials := 6
	for t := 0; t < nTrials && !e.ended; t++ {
		payerOpt := 0
		if r.Chance(1, 5) {
			payerOpt = 1 + r.Intn(2)
		}
		payer := oi
		if payerOpt == 1 {
			payer = 0
		} else if payerOpt == 2 {
			payer = 1
		}
		fee := fees[r.Intn(len(fees))]
		if r.Chance(1, 3) {
			// the payer's output exactly at / one off its dust limit,
			// and the payer owning exactly / one off the fee
			owned := []int64{balA, balB}[payer]
			if payer == oi {
				owned = openerOwned
			}
			pd := []int64{e.p.DustA, e.p.DustB}[payer]
			pf := []int64{owned - pd - 1, owned - pd, owned - pd + 1, owned - 1, owned, owned + 1}
			fee = pf[r.Intn(len(pf))]
			vc.Count("payer_edge_fee_trials", 1)
		}
		if fee < 0 {
			fee = 0
		}
		sa := verifC17Script(r, r.Intn(3))
		sb := verifC17Script(r, r.Intn(3))
		if r.Chance(1, 6) {
			sb = sa
		}
		trial := verifC17Trial{Fee: fee, ScriptA: verifHex(sa), ScriptB: verifHex(sb), PayerOpt: payerOpt}
		vc.Count("trials", 1)

		// fresh reloads of both sides (CompleteCooperativeClose marks the
		// object closed); this also covers "after reload".
		fa := e.fork(0, "reload_error")
		if fa == nil {
			return
		}
		fb := e.fork(1, "reload_error")
		if fb == nil {
			fa.Close()
			return
		}
		func() {
			defer fa.Close()
			defer fb.Close()
			var optsA, optsB []ChanCloseOpt
			if payerOpt != 0 {
				pa, pb := lntypesLocal(), lntypesRemote()
				if payer == 1 {
					pa, pb = lntypesRemote(), lntypesLocal()
				}
				optsA = append(optsA, WithCustomPayer(pa))
				optsB = append(optsB, WithCustomPayer(pb))
			}
			var ma, mb *verifC17Musig
			if e.p.ChanType.IsTaproot() {
				ma = &verifC17Musig{ch: fa.ch}
				mb = &verifC17Musig{ch: fb.ch}
				na, err1 := ma.genNonce()
				nb, err2 := mb.genNonce()
				if err1 != nil || err2 != nil {
					vc.t.Fatalf("nonce gen: %v %v", err1, err2)
				}
				ma.remoteNonce, mb.remoteNonce = nb, na
				oa, err := ma.opts()
				if err != nil {
					e.viol("coop_musig_session", "alice", err.Error())
					return
				}
				ob, err := mb.opts()
				if err != nil {
					e.viol("coop_musig_session", "bob", err.Error())
					return
				}
				optsA = append(optsA, oa...)
				optsB = append(optsB, ob...)
			}
			wantA, wantB, affordable := verifC17Expect(e, balA, balB, commitFee, fee, payer)
			if affordable && wantA < e.p.DustA && wantB < e.p.DustB {
				// both outputs would be omitted: no transaction can
				// exist; both sides must refuse.
				affordable = false
				vc.Count("all_outputs_dust_trials", 1)
			}

			sigA, txA, _, errA := fa.ch.CreateCloseProposal(btcutil.Amount(fee), sa, sb, optsA...)
			sigB, txB, _, errB := fb.ch.CreateCloseProposal(btcutil.Amount(fee), sb, sa, optsB...)
			vc.Count("oracle_affordability", 1)
			if (errA == nil) != affordable || (errB == nil) != affordable {
				e.viol("coop_affordability", fmt.Sprintf("affordable=%v", affordable),
					fmt.Sprintf("fee %d payer %d (owned: A %d B %d, commit fee %d, anchors %d, opener %d): expected affordable=%v, A err=%v, B err=%v",
						fee, payer, balA, balB, commitFee, e.anchorsSat, oi, affordable, errA, errB))
				return
			}
			if !affordable {
				vc.Count("unaffordable_trials", 1)
				return
			}
			var ba, bb bytes.Buffer
			txA.SerializeNoWitness(&ba)
			txB.SerializeNoWitness(&bb)
			vc.Count("oracle_identical_tx", 1)
			if !bytes.Equal(ba.Bytes(), bb.Bytes()) {
				e.viol("coop_identical_tx", "unsigned",
					fmt.Sprintf("the two sides built different closing transactions: %x vs %x (trial %+v)", ba.Bytes(), bb.Bytes(), trial))
				return
			}
			// exchange signatures as the wire would carry them
			var remoteForA, remoteForB input.Signature = sigB, sigA
			if e.p.ChanType.IsTaproot() {
				pa := sigA.(*MusigPartialSig).ToWireSig()
				pb := sigB.(*MusigPartialSig).ToWireSig()
				remoteForA = new(MusigPartialSig).FromWireSig(&lnwire.PartialSigWithNonce{
					PartialSig: pb.PartialSig, Nonce: mb.localNonce.PubNonce})
				remoteForB = new(MusigPartialSig).FromWireSig(&lnwire.PartialSigWithNonce{
					PartialSig: pa.PartialSig, Nonce: ma.localNonce.PubNonce})
			} else {
				// through the wire encoding
				wa, err := lnwire.NewSigFromSignature(sigA)
				if err != nil {
					vc.t.Fatalf("sig to wire: %v", err)
				}
				wb, err := lnwire.NewSigFromSignature(sigB)
				if err != nil {
					vc.t.Fatalf("sig to wire: %v", err)
				}
				ra, err1 := wb.ToSignature()
				rb, err2 := wa.ToSignature()
				if err1 != nil || err2 != nil {
					vc.t.Fatalf("wire to sig: %v %v", err1, err2)
				}
				remoteForA, remoteForB = ra, rb
			}
			doneA, _, errA := fa.ch.CompleteCooperativeClose(sigA, remoteForA, sa, sb, btcutil.Amount(fee), optsA...)
			doneB, _, errB := fb.ch.CompleteCooperativeClose(sigB, remoteForB, sb, sa, btcutil.Amount(fee), optsB...)
			vc.Count("oracle_signatures_verify", 1)
			if errA != nil || errB != nil {
				e.viol("coop_signature_verifies", e.p.TypeName,
					fmt.Sprintf("CompleteCooperativeClose failed: A err=%v, B err=%v (trial %+v)", errA, errB, trial))
				return
			}
			var ca, cb bytes.Buffer
			doneA.Serialize(&ca)
			doneB.Serialize(&cb)
			if !bytes.Equal(ca.Bytes(), cb.Bytes()) {
				e.viol("coop_identical_tx", "completed",
					fmt.Sprintf("completed closing transactions differ: %x vs %x", ca.Bytes(), cb.Bytes()))
				return
			}
			pk, err := e.verifFundingScript()
			if err != nil {
				vc.t.Fatalf("funding script: %v", err)
			}
			vc.Count("oracle_interpreter", 1)
			if err := verifExec(pk, e.p.CapacitySat, doneA, 0, nil); err != nil {
				e.viol("coop_tx_valid", e.p.TypeName,
					fmt.Sprintf("script interpreter rejects the completed closing tx: %v", err))
				return
			}
			// exact outputs
			vc.Count("oracle_exact_outputs", 1)
			type out struct {
				v int64
				s string
			}
			var want []out
			if wantA >= e.p.DustA {
				want = append(want, out{wantA, verifHex(sa)})
			}
			if wantB >= e.p.DustB {
				want = append(want, out{wantB, verifHex(sb)})
			}
			var got []out
			var sum int64
			for _, o := range doneA.TxOut {
				got = append(got, out{o.Value, verifHex(o.PkScript)})
				sum += o.Value
			}
			less := func(x []out) func(i, j int) bool {
				return func(i, j int) bool {
					if x[i].v != x[j].v {
						return x[i].v < x[j].v
					}
					return x[i].s < x[j].s
				}
			}
			sort.Slice(want, less(want))
			sort.Slice(got, less(got))
			if fmt.Sprint(want) != fmt.Sprint(got) {
				e.viol("coop_exact_outputs", fmt.Sprintf("payer%d", payerOpt),
					fmt.Sprintf("closing tx outputs %v, statement prescribes %v (balances A %d B %d, commit fee %d, anchors %d, opener %d, fee %d, payer %d, dust A %d B %d)",
						got, want, balA, balB, commitFee, e.anchorsSat, oi, fee, payer, e.p.DustA, e.p.DustB))
				return
			}
			if sum+fee > e.p.CapacitySat {
				e.viol("coop_exact_outputs", "exceeds-capacity",
					fmt.Sprintf("outputs %d + fee %d exceed capacity %d", sum, fee, e.p.CapacitySat))
				return
			}
			if len(doneA.TxIn) != 1 || doneA.TxIn[0].PreviousOutPoint != a.ch.channelState.FundingOutpoint {
				e.viol("coop_tx_valid", "input", "closing tx does not spend exactly the funding outpoint")
				return
			}
			vc.Sig(verifJoin(e.p.TypeName, e.p.AliceOpener, payerOpt, len(got), wantA < e.p.DustA, wantB < e.p.DustB,
				fee == 0, len(sa), len(sb)))
			_ = wire.MsgTx{}
		}()
	}
}

func verifC17Case(vc *verifCtx, i int) {
	r := vc.Rng(i)
	p := verifE1GenParams(r)
	nActions := 15 + r.Intn(40)
	// shaping cases (a quarter): the non-opener starts with nothing and
	// every HTLC of the schedule is failed, so that its balance can then
	// be lifted to a chosen dust boundary (verifC17Shape).
	shape := i%4 == 1
	if shape {
		p.PushPct = 0
		nActions = 4 + r.Intn(25)
	}
	vc.Case(i, map[string]any{"params": p, "actions": nActions, "shape": shape})
	e, err := verifE1New(vc, r, p)
	if err != nil {
		vc.Count("setup_skipped", 1)
		vc.CaseDone(i)
		return
	}
	defer e.Close()
	e.noPendingFate = true
	e.failOnlyFate = shape
	e.oracles = map[string]bool{"tx_exact": false}
	// trials on the pristine channel as well
	if r.Chance(1, 5) {
		verifC17Trials(e, i)
	}
	for a := 0; a < nActions && !e.ended; a++ {
		if r.Chance(1, 20) {
			e.reconnect("reconnect", false)
			continue
		}
		e.step(true)
	}
	for round := 0; round < 4 && !e.ended; round++ {
		if !e.drain(true, nil) {
			break
		}
	}
	if !e.ended {
		e.checkQuiescent()
	}
	// balance shaping: in the shaping cases lift the non-opener's
	// balance to a dust threshold -1/0/+1 sat (its own dust limit, the
	// peer's, and the standard script dust values), with any sub-satoshi
	// remainder, so that "omitted below the owner's dust limit" is judged
	// at the boundary for the party that does not pay the fee too.
	if !e.ended && shape {
		if verifC17Shape(e, r) {
			vc.Count("shaped_nonopener_balance", 1)
			e.checkQuiescent()
		}
	}
	if !e.ended {
		verifC17Trials(e, i)
	}
	if e.constraintTm {
		vc.Count("constraint_terminated", 1)
	}
	if i%50 == 0 {
		vc.Sample(map[string]any{"case": i, "params": p, "settles": e.nSettles, "fees": e.nFees,
			"balA_msat": e.parties[0].ch.channelState.LocalCommitment.LocalBalance,
			"balB_msat": e.parties[1].ch.channelState.LocalCommitment.LocalBalance, "end": e.endReason})
	}
	vc.CaseDone(i)
}

func TestVerifC17(t *testing.T) {
	vc := verifStart(t, "C17", "closetx")
	defer vc.Finish()
	total := vc.N(500, 5000)
	for i := 0; i < total; i++ {
		if !vc.Mine(i) {
			continue
		}
		verifC17Case(vc, i)
	}
}

func lntypesLocal() lntypes.ChannelParty  { return lntypes.Local }
func lntypesRemote() lntypes.ChannelParty { return lntypes.Remote }
