package lnwallet

// Exported facade of the E1 engine so that harnesses living in other lnd
// packages (contractcourt) can drive it. This file, the engine files and the
// harness runtime are overlaid into package lnwallet as NON-test files for
// those builds (see the unit's "exports" in lib/propdefs).

import (
	"testing"

	"github.com/btcsuite/btcd/wire/v2"
	"github.com/lightningnetwork/lnd/channeldb"
	"github.com/lightningnetwork/lnd/input"
	"github.com/lightningnetwork/lnd/lnwire"
)

type (
	VerifCtx      = verifCtx
	VerifRng      = verifRng
	VerifE1       = verifE1
	VerifE1Params = verifE1Params
)

func VerifStart(t testing.TB, prop, unit string) *VerifCtx { return verifStart(t, prop, unit) }

func VerifE1GenParams(r *VerifRng) VerifE1Params { return verifE1GenParams(r) }

func VerifE1New(vc *VerifCtx, r *VerifRng, p VerifE1Params) (*VerifE1, error) {
	return verifE1New(vc, r, p)
}

// VerifE1NewOpts is VerifE1New with channeldb option modifiers applied to both
// parties' databases (C04: channeldb.OptionNoRevLogAmtData).
func VerifE1NewOpts(vc *VerifCtx, r *VerifRng, p VerifE1Params,
	dbMods ...channeldb.OptionModifier) (*VerifE1, error) {

	return verifE1New(vc, r, p, dbMods...)
}

// VerifHtlcInfo is the ledger view of one HTLC of a schedule.
type VerifHtlcInfo struct {
	Offerer    int // 0 = A, 1 = B
	ID         uint64
	Amt        lnwire.MilliSatoshi
	Expiry     uint32
	Preimage   [32]byte
	Hash       [32]byte
	Fate       int // 0 settle, 1 fail, 2 malformed, 3 leave pending
	Dead       bool
	EverLocked bool
}

func (e *verifE1) Step(allowFee bool) string { return e.step(allowFee) }
func (e *verifE1) CheckStep()                { e.checkStep() }
func (e *verifE1) CheckQuiescent()           { e.checkQuiescent() }
func (e *verifE1) Ended() bool               { return e.ended }
func (e *verifE1) EndReason() string         { return e.endReason }
func (e *verifE1) ConstraintTerminated() bool {
	return e.constraintTm
}
func (e *verifE1) Drain(resolve bool) bool {
	return e.drain(resolve, func(string) { e.checkStep() })
}
func (e *verifE1) Reconnect(label string) bool { return e.reconnect(label, false) }
func (e *verifE1) SetFailOnlyFate(v bool) { e.failOnlyFate = v }
func (e *verifE1) ShapeNonOpener(wantMsat uint64) bool {
	return e.shapeNonOpener(lnwire.MilliSatoshi(wantMsat))
}
func (e *verifE1) Params() VerifE1Params       { return e.p }
func (e *verifE1) Trace() []string             { return e.trace }
func (e *verifE1) Signature() string           { return e.signature() }
func (e *verifE1) EverLocked() int             { return e.everLocked }
func (e *verifE1) SetOracles(m map[string]bool) { e.oracles = m }
func (e *verifE1) Viol(oracle, key, detail string) {
	e.viol(oracle, key, detail)
}
func (e *verifE1) Logf(format string, a ...any) { e.logf(format, a...) }

// Channel returns the live channel object of party i (0 = A, 1 = B).
func (e *verifE1) Channel(i int) *LightningChannel { return e.parties[i].ch }
func (e *verifE1) Signer(i int) *input.MockSigner  { return e.parties[i].signer }
func (e *verifE1) DB(i int) *channeldb.DB          { return e.parties[i].db }
func (e *verifE1) IsOpener(i int) bool             { return e.openerIdx() == i }
func (e *verifE1) CapacitySat() int64              { return e.p.CapacitySat }

// HeldTxs returns, per height, the fully signed commitment transaction party
// i held as its current one (recorded before it was revoked).
func (e *verifE1) HeldTxs(i int) map[uint64]*wire.MsgTx { return e.parties[i].heldTx }

func (e *verifE1) Htlcs() []VerifHtlcInfo {
	var out []VerifHtlcInfo
	for _, h := range e.htlcs {
		out = append(out, VerifHtlcInfo{Offerer: h.Offerer, ID: h.ID, Amt: h.Amt,
			Expiry: h.Expiry, Preimage: h.Preimage, Hash: h.Hash, Fate: h.Fate,
			Dead: h.Dead, EverLocked: h.EverLocked})
	}
	return out
}

// VerifForkHandle is a reloaded copy of one side (DB copy + fresh channel).
type VerifForkHandle struct{ f *verifFork }

func (h *VerifForkHandle) Channel() *LightningChannel      { return h.f.ch }
func (h *VerifForkHandle) State() *channeldb.OpenChannel   { return h.f.state }
func (h *VerifForkHandle) DB() *channeldb.DB               { return h.f.db }
func (h *VerifForkHandle) Close()                          { h.f.Close() }

// Fork copies party i's database and reloads the channel from the copy; nil
// when the reload failed (a violation has then been recorded under oracle).
func (e *verifE1) Fork(i int, oracle string) *VerifForkHandle {
	f := e.fork(i, oracle)
	if f == nil {
		return nil
	}
	return &VerifForkHandle{f: f}
}

// FundingScript returns the funding output script derived by the harness
// (independently of lnd's script helpers) and the channel capacity.
func (e *verifE1) FundingScript() ([]byte, int64, error) {
	pk, err := e.verifFundingScript()
	return pk, e.p.CapacitySat, err
}

// VerifExec runs btcd's script interpreter on input idx of tx.
var VerifExec = verifExec

// SetNoPendingFate makes every HTLC of the schedule eventually resolved.
func (e *verifE1) SetNoPendingFate(v bool) { e.noPendingFate = v }

// DustLimits returns A's and B's dust limits (sat).
func (e *verifE1) DustLimits() (int64, int64) { return e.p.DustA, e.p.DustB }
func (e *verifE1) AnchorsSat() int64          { return e.anchorsSat }
func (e *verifE1) OpenerIdx() int             { return e.openerIdx() }
func (e *verifE1) Rng() *VerifRng             { return e.r }
