package lnwallet

// E2 for the channel engine: read-only forks (a consistent copy of one side's
// database taken between two durable writes, reopened as a fresh node would)
// and the script-interpreter oracle for commitment transactions.

import (
	"bytes"
	"crypto/sha256"
	"fmt"
	"os"
	"path/filepath"
	"sort"

	"github.com/btcsuite/btcd/btcec/v2"
	"github.com/btcsuite/btcd/btcec/v2/schnorr/musig2"
	"github.com/btcsuite/btcd/txscript/v2"
	"github.com/btcsuite/btcd/wire/v2"
	"github.com/lightningnetwork/lnd/channeldb"
	"github.com/lightningnetwork/lnd/lnwire"
	"github.com/lightningnetwork/lnd/tlv"
)

type verifFork struct {
	ch    *LightningChannel
	state *channeldb.OpenChannel
	db    *channeldb.DB
	dir   string
}

func (f *verifFork) Close() {
	if f.db != nil {
		f.db.Close()
	}
	os.RemoveAll(f.dir)
}

var verifForkSeq int

// fork copies party i's database (one read transaction = a consistent image
// of "the node stopped right now") and reloads the channel from the copy.
// A reload failure or panic is reported under the given oracle name.
func (e *verifE1) fork(i int, oracle string) *verifFork {
	p := e.parties[i]
	verifForkSeq++
	dir := filepath.Join(e.dir, fmt.Sprintf("fork-%d", verifForkSeq))
	os.MkdirAll(dir, 0o755)
	if verifUseSqlite {
		// sqlbase has no Copy: the image is taken at file level
		// (e1_sqlite_test.go).
		if err := verifSqliteImage(e, i, dir); err != nil {
			e.vc.t.Fatalf("fork image: %v", err)
		}
	} else {
		f, err := os.Create(filepath.Join(dir, "channel.db"))
		if err != nil {
			e.vc.t.Fatalf("fork: %v", err)
		}
		if err := p.backend.Copy(f); err != nil {
			f.Close()
			e.vc.t.Fatalf("fork copy: %v", err)
		}
		f.Close()
	}
	db, _, err := verifOpenDB(dir)
	if err != nil {
		e.vc.t.Fatalf("fork open: %v", err)
	}
	fk := &verifFork{db: db, dir: dir}
	chans, err := db.ChannelStateDB().FetchOpenChannels(p.idPub)
	if err != nil || len(chans) != 1 {
		e.viol(oracle, "FetchOpenChannels",
			fmt.Sprintf("fork of %s: FetchOpenChannels n=%d err=%v", p.Name, len(chans), err))
		fk.Close()
		return nil
	}
	fk.state = chans[0]
	panicked := e.vc.Guard(oracle, "NewLightningChannel-panic", e.witness(), func() {
		fk.ch, err = NewLightningChannel(p.signer, chans[0], p.pool)
	})
	if panicked {
		e.ended = true
		fk.Close()
		return nil
	}
	if err != nil {
		e.viol(oracle, "NewLightningChannel:"+e.errClass(err),
			fmt.Sprintf("fork of %s: NewLightningChannel failed: %v", p.Name, err))
		fk.Close()
		return nil
	}
	return fk
}

// verifFundingScript derives the funding output script from the two multisig
// keys without going through lnd's script helpers.
func (e *verifE1) verifFundingScript() ([]byte, error) {
	a := e.parties[0].ch.channelState.LocalChanCfg.MultiSigKey.PubKey
	b := e.parties[1].ch.channelState.LocalChanCfg.MultiSigKey.PubKey
	if e.p.ChanType.IsTaproot() {
		var opts []musig2.KeyAggOption
		root := e.parties[0].ch.channelState.TapscriptRoot
		if root.IsSome() {
			h := root.UnsafeFromSome()
			opts = append(opts, musig2.WithTaprootKeyTweak(h[:]))
		} else {
			opts = append(opts, musig2.WithBIP86KeyTweak())
		}
		agg, _, _, err := musig2.AggregateKeys([]*btcec.PublicKey{a, b}, true, opts...)
		if err != nil {
			return nil, err
		}
		xonly := agg.FinalKey.SerializeCompressed()[1:]
		return append([]byte{txscript.OP_1, 32}, xonly...), nil
	}
	ka, kb := a.SerializeCompressed(), b.SerializeCompressed()
	if bytes.Compare(ka, kb) > 0 {
		ka, kb = kb, ka
	}
	var ws []byte
	ws = append(ws, txscript.OP_2, 33)
	ws = append(ws, ka...)
	ws = append(ws, 33)
	ws = append(ws, kb...)
	ws = append(ws, txscript.OP_2, txscript.OP_CHECKMULTISIG)
	h := sha256.Sum256(ws)
	return append([]byte{txscript.OP_0, 32}, h[:]...), nil
}

// verifExec runs btcd's script interpreter on one input.
func verifExec(pkScript []byte, value int64, tx *wire.MsgTx, idx int,
	fetcher txscript.PrevOutputFetcher) error {

	if fetcher == nil {
		fetcher = txscript.NewCannedPrevOutputFetcher(pkScript, value)
	}
	hc := txscript.NewTxSigHashes(tx, fetcher)
	vm, err := txscript.NewEngine(pkScript, tx, idx,
		txscript.StandardVerifyFlags, nil, hc, value, fetcher)
	if err != nil {
		return err
	}
	return vm.Execute()
}

// checkSignedCommit: the fully signed commitment of ch spends the funding
// output validly.
func (e *verifE1) checkSignedCommit(ch *LightningChannel) (*wire.MsgTx, error) {
	tx, err := ch.getSignedCommitTx()
	if err != nil {
		return nil, fmt.Errorf("getSignedCommitTx: %w", err)
	}
	pk, err := e.verifFundingScript()
	if err != nil {
		return nil, fmt.Errorf("funding script: %w", err)
	}
	if err := verifExec(pk, e.p.CapacitySat, tx, 0, nil); err != nil {
		return tx, fmt.Errorf("script interpreter rejects the signed commitment: %w", err)
	}
	return tx, nil
}

// ---------------------------------------------------------------------------
// durable projection

func verifProjCommit(c *channeldb.ChannelCommitment) string {
	var b bytes.Buffer
	fmt.Fprintf(&b, "h=%d lli=%d lhi=%d rli=%d rhi=%d lb=%d rb=%d fee=%d kw=%d sig=%x ",
		c.CommitHeight, c.LocalLogIndex, c.LocalHtlcIndex, c.RemoteLogIndex,
		c.RemoteHtlcIndex, c.LocalBalance, c.RemoteBalance, c.CommitFee, c.FeePerKw, c.CommitSig)
	if c.CommitTx != nil {
		var tb bytes.Buffer
		c.CommitTx.Serialize(&tb)
		fmt.Fprintf(&b, "tx=%x ", sha256.Sum256(tb.Bytes()))
	}
	hs := make([]channeldb.HTLC, len(c.Htlcs))
	copy(hs, c.Htlcs)
	sort.Slice(hs, func(i, j int) bool {
		if hs[i].Incoming != hs[j].Incoming {
			return !hs[i].Incoming
		}
		return hs[i].HtlcIndex < hs[j].HtlcIndex
	})
	for _, h := range hs {
		var bp []byte
		h.BlindingPoint.WhenSome(func(r tlv.RecordT[lnwire.BlindingPointTlvType, *btcec.PublicKey]) {
			if r.Val != nil {
				bp = r.Val.SerializeCompressed()
			}
		})
		var crKeys []uint64
		for k := range h.CustomRecords {
			crKeys = append(crKeys, k)
		}
		sort.Slice(crKeys, func(i, j int) bool { return crKeys[i] < crKeys[j] })
		cr := ""
		for _, k := range crKeys {
			cr += fmt.Sprintf("%d=%x,", k, h.CustomRecords[k])
		}
		fmt.Fprintf(&b, "[in=%v id=%d li=%d amt=%d exp=%d out=%d rh=%x sig=%x onion=%x bp=%x cr=%s] ",
			h.Incoming, h.HtlcIndex, h.LogIndex, h.Amt, h.RefundTimeout, h.OutputIndex,
			h.RHash[:6], h.Signature, sha256.Sum256(h.OnionBlob[:]), bp, cr)
	}
	return b.String()
}

// verifAddPayload renders the optional TLV payload of an HTLC canonically.
func verifAddPayload(bpRec lnwire.BlindingPointRecord, crs lnwire.CustomRecords) (string, string) {
	var bp []byte
	bpRec.WhenSome(func(r tlv.RecordT[lnwire.BlindingPointTlvType, *btcec.PublicKey]) {
		if r.Val != nil {
			bp = r.Val.SerializeCompressed()
		}
	})
	var crKeys []uint64
	for k := range crs {
		crKeys = append(crKeys, k)
	}
	sort.Slice(crKeys, func(i, j int) bool { return crKeys[i] < crKeys[j] })
	cr := ""
	for _, k := range crKeys {
		cr += fmt.Sprintf("%d=%x,", k, crs[k])
	}
	return fmt.Sprintf("%x", bp), cr
}

// checkAckImpliesSigned (durable state of party i, read from a fork): an add
// that the forwarding package marks as answered (AckFilter) has had its
// settle/fail covered by a signature that is itself durable, i.e. the HTLC is
// gone from the newest persisted commitment of the peer. The ack and the
// commit diff are one transaction in AppendRemoteCommitChain; a crash between
// two writes that should have been one leaves an acked add whose response
// was never signed: nothing will ever answer it.
func (e *verifE1) checkAckImpliesSigned(i int, st *channeldb.OpenChannel, where string) {
	pkgs, err := st.LoadFwdPkgs()
	if err != nil {
		e.viol("reload_error", "LoadFwdPkgs", fmt.Sprintf("%s: %v", e.parties[i].Name, err))
		return
	}
	latest := &st.RemoteCommitment
	if diff, err := st.RemoteCommitChainTip(); err == nil && diff != nil {
		latest = &diff.Commitment
	}
	for _, pkg := range pkgs {
		for idx, lu := range pkg.Adds {
			add, ok := lu.UpdateMsg.(*lnwire.UpdateAddHTLC)
			if !ok || pkg.AckFilter == nil || !pkg.AckFilter.Contains(uint16(idx)) {
				continue
			}
			e.vc.Count("oracle_ack_implies_signed", 1)
			for _, h := range latest.Htlcs {
				if h.Incoming && h.HtlcIndex == add.ID {
					e.viol("durable_equal", "acked-add-without-signed-response:"+where,
						fmt.Sprintf("%s (%s): forwarding package h=%d marks add id=%d as answered, but the newest "+
							"persisted commitment of the peer (h=%d) still carries the HTLC: its settle/fail was never "+
							"covered by a durable signature", e.parties[i].Name, where, pkg.Height, add.ID, latest.CommitHeight))
					return
				}
			}
		}
	}
}

// onCommit runs after every committed write transaction of party i when
// midCommitForks is set: the database as a crash at this instant would leave
// it must reload, and its forwarding packages must be consistent with its
// commitments.
func (e *verifE1) onCommit(i int) {
	if e.ended || e.parties[i] == nil || e.parties[i].ch == nil {
		return
	}
	e.vc.Count("mid_commit_forks", 1)
	fk := e.fork(i, "reload_error")
	if fk == nil {
		return
	}
	defer fk.Close()
	e.checkAckImpliesSigned(i, fk.state, "mid-handler")
	e.checkDurablePayload(i, "local", &fk.state.LocalCommitment)
}

// checkDurablePayload: every HTLC of a persisted commitment of party i still
// carries the onion blob, blinding point and custom records of the
// update_add_htlc that created it (the ledger remembers them). A restart
// rebuilds the next commitments from the restored update log, so a field the
// restore drops disappears from disk one commitment later and the
// live-vs-reloaded comparison cannot see it.
func (e *verifE1) checkDurablePayload(i int, which string, c *channeldb.ChannelCommitment) {
	wantOnion := sha256.Sum256(verifOnion[:])
	for _, h := range c.Htlcs {
		off := i
		if h.Incoming {
			off = 1 - i
		}
		var rec *verifE1Htlc
		for k := len(e.htlcs) - 1; k >= 0; k-- {
			x := e.htlcs[k]
			if x.Offerer == off && x.ID == h.HtlcIndex && x.Hash == h.RHash && x.Amt == h.Amt {
				rec = x
				break
			}
		}
		if rec == nil {
			continue
		}
		e.vc.Count("oracle_durable_payload", 1)
		bp, cr := verifAddPayload(h.BlindingPoint, h.CustomRecords)
		if bp != rec.BP || cr != rec.CR || sha256.Sum256(h.OnionBlob[:]) != wantOnion {
			e.viol("durable_equal", "htlc-payload:"+which,
				fmt.Sprintf("%s: persisted %s commitment h=%d htlc id=%d (incoming=%v) lost part of its add payload: "+
					"blinding point %q want %q, custom records %q want %q, onion ok=%v",
					e.parties[i].Name, which, c.CommitHeight, h.HtlcIndex, h.Incoming, bp, rec.BP, cr, rec.CR,
					sha256.Sum256(h.OnionBlob[:]) == wantOnion))
			return
		}
	}
}

func verifProjSnap(s *verifCommitSnap) string {
	return fmt.Sprintf("h=%d bal=%v fee=%d kw=%d tx=%v htlcs=%+v", s.Height, s.Bal, s.FeeSat,
		s.FeePerKw, s.TxID, s.Htlcs)
}

type verifLogEntry struct {
	Log    string
	Type   string
	LogIdx uint64
	Htlc   uint64
	Parent uint64
	Amt    uint64
	Hash   [32]byte
}

func verifLogEntries(name string, l *updateLog) []verifLogEntry {
	var out []verifLogEntry
	for el := l.Front(); el != nil; el = el.Next() {
		pd := el.Value
		out = append(out, verifLogEntry{Log: name, Type: fmt.Sprint(pd.EntryType),
			LogIdx: pd.LogIndex, Htlc: pd.HtlcIndex, Parent: pd.ParentIndex,
			Amt: uint64(pd.Amount), Hash: pd.RHash})
	}
	return out
}

// checkFork compares a freshly reloaded copy of party i with its live object
// (C02 oracles 1, 2, 4 and the log diagnostics).
func (e *verifE1) checkFork(i int) {
	p := e.parties[i]
	e.vc.Count("forks", 1)
	fk := e.fork(i, "reload_error")
	if fk == nil {
		return
	}
	defer fk.Close()
	L, F := p.ch, fk.ch

	// (a,b) persisted commitments reproduce the in-memory records exactly.
	e.vc.Count("oracle_durable_equal", 1)
	if a, b := verifProjCommit(&L.channelState.LocalCommitment), verifProjCommit(&fk.state.LocalCommitment); a != b {
		e.viol("durable_equal", "LocalCommitment",
			fmt.Sprintf("%s: reloaded LocalCommitment differs:\nlive   %s\nreload %s", p.Name, a, b))
		return
	}
	if a, b := verifProjCommit(&L.channelState.RemoteCommitment), verifProjCommit(&fk.state.RemoteCommitment); a != b {
		e.viol("durable_equal", "RemoteCommitment",
			fmt.Sprintf("%s: reloaded RemoteCommitment differs:\nlive   %s\nreload %s", p.Name, a, b))
		return
	}
	e.checkAckImpliesSigned(i, fk.state, "action-boundary")
	e.checkDurablePayload(i, "local", &fk.state.LocalCommitment)
	e.checkDurablePayload(i, "remote", &fk.state.RemoteCommitment)
	if diff, err := fk.state.RemoteCommitChainTip(); err == nil && diff != nil {
		e.checkDurablePayload(i, "remote-tip", &diff.Commitment)
	}
	// (c,d) restored chains equal the live chains for everything durable.
	lt := verifSnapOf(i, "local", L.commitChains.Local.tail())
	ft := verifSnapOf(i, "local", F.commitChains.Local.tail())
	if F.commitChains.Local.tip() != F.commitChains.Local.tail() {
		e.viol("durable_equal", "restored-local-chain-has-two",
			fmt.Sprintf("%s: restored local chain holds two commitments", p.Name))
		return
	}
	if a, b := verifProjSnap(lt), verifProjSnap(ft); a != b {
		e.viol("durable_equal", "local-tail",
			fmt.Sprintf("%s: restored local tail differs:\nlive   %s\nreload %s", p.Name, a, b))
		return
	}
	lrt := verifSnapOf(i, "remote", L.commitChains.Remote.tail())
	frt := verifSnapOf(i, "remote", F.commitChains.Remote.tail())
	if a, b := verifProjSnap(lrt), verifProjSnap(frt); a != b {
		e.viol("durable_equal", "remote-tail",
			fmt.Sprintf("%s: restored remote tail differs:\nlive   %s\nreload %s", p.Name, a, b))
		return
	}
	lHas := L.commitChains.Remote.hasUnackedCommitment()
	fHas := F.commitChains.Remote.hasUnackedCommitment()
	if lHas != fHas {
		e.viol("durable_equal", "pending-remote-presence",
			fmt.Sprintf("%s: live has pending remote commitment=%v, reloaded=%v", p.Name, lHas, fHas))
		return
	}
	if lHas {
		e.vc.Count("forks_with_pending_remote", 1)
		a := verifProjSnap(verifSnapOf(i, "remote", L.commitChains.Remote.tip()))
		b := verifProjSnap(verifSnapOf(i, "remote", F.commitChains.Remote.tip()))
		if a != b {
			e.viol("durable_equal", "remote-tip",
				fmt.Sprintf("%s: restored pending remote commitment differs:\nlive   %s\nreload %s", p.Name, a, b))
			return
		}
	}
	// (e) revocation points / store / lastWasRevoke
	ls, fs := L.channelState, fk.state
	eqPt := func(a, b *btcec.PublicKey) bool {
		if a == nil || b == nil {
			return a == b
		}
		return a.IsEqual(b)
	}
	if !eqPt(ls.RemoteCurrentRevocation, fs.RemoteCurrentRevocation) ||
		!eqPt(ls.RemoteNextRevocation, fs.RemoteNextRevocation) {

		e.viol("durable_equal", "revocation-points",
			fmt.Sprintf("%s: reloaded remote revocation points differ", p.Name))
		return
	}
	// NOTE: LastWasRevoke is only ever read from disk (the in-memory field
	// of a live object is not maintained), so it is not compared here; its
	// effect is judged by the retransmission-order oracle (C03).
	rth := ls.RemoteCommitment.CommitHeight
	peerRoot := e.parties[1-i].root
	for h := uint64(0); h < rth; h++ {
		if h > 3 && h+3 < rth && h%5 != 0 {
			continue
		}
		s, err := fs.RevocationStore.LookUp(h)
		if err != nil {
			e.viol("durable_equal", "revocation-store-lookup",
				fmt.Sprintf("%s: reloaded store cannot reproduce peer secret %d: %v", p.Name, h, err))
			return
		}
		if [32]byte(*s) != verifShaDerive(peerRoot, h) {
			e.viol("durable_equal", "revocation-store-value",
				fmt.Sprintf("%s: reloaded store returns a wrong secret for %d", p.Name, h))
			return
		}
	}
	// (g) forwarding packages
	pkgs, err := fs.LoadFwdPkgs()
	if err != nil {
		e.viol("durable_equal", "LoadFwdPkgs", fmt.Sprintf("%s: %v", p.Name, err))
		return
	}
	want := e.fwdPkgs[i]
	if len(pkgs) != len(want) {
		e.viol("durable_equal", "fwdpkg-count",
			fmt.Sprintf("%s: %d forwarding packages on disk, %d were returned by ReceiveRevocation", p.Name, len(pkgs), len(want)))
		return
	}
	for k := range pkgs {
		if pkgs[k].Height != want[k].Height || len(pkgs[k].Adds) != want[k].Adds ||
			len(pkgs[k].SettleFails) != want[k].SettleFails {

			e.viol("durable_equal", "fwdpkg-content",
				fmt.Sprintf("%s: fwdpkg %d on disk (h=%d adds=%d sf=%d) differs from returned (h=%d adds=%d sf=%d)",
					p.Name, k, pkgs[k].Height, len(pkgs[k].Adds), len(pkgs[k].SettleFails),
					want[k].Height, want[k].Adds, want[k].SettleFails))
			return
		}
	}

	// oracle 4: never broadcastable-after-revoked.
	e.vc.Count("oracle_no_revoked_broadcast", 1)
	H := fs.LocalCommitment.CommitHeight
	for _, rel := range p.released {
		if rel.Height == ^uint64(0) {
			e.viol("released_secret_unknown", "unknown-height",
				fmt.Sprintf("%s handed out a secret that is none of its recent commitment secrets", p.Name))
			return
		}
		if rel.Height >= H {
			e.viol("no_revoked_broadcast", fmt.Sprintf("via-%s", rel.Via),
				fmt.Sprintf("%s released the secret of its commitment %d (via %s) but a reload would still broadcast height %d",
					p.Name, rel.Height, rel.Via, H))
			return
		}
	}
	if H > 0 {
		tx, err := e.checkSignedCommit(F)
		if err != nil {
			e.viol("reloaded_commit_valid", "script",
				fmt.Sprintf("%s: reloaded commitment at height %d: %v", p.Name, H, err))
			return
		}
		obf := createStateHintObfuscator(fs)
		if got := GetStateNumHint(tx, obf); got != H {
			e.viol("reloaded_commit_valid", "state-hint",
				fmt.Sprintf("%s: reloaded commitment carries state hint %d, height is %d", p.Name, got, H))
			return
		}
	}

	// oracle 3 (diagnostic): update logs.
	e.checkForkLogs(i, L, F)
}

// checkForkLogs: restored log entries must exist in the live logs; live
// entries covered by a persisted commitment must survive unless fully
// compactable. Diagnostic only (DESIGN §1.4).
func (e *verifE1) checkForkLogs(i int, L, F *LightningChannel) {
	live := append(verifLogEntries("local", L.updateLogs.Local), verifLogEntries("remote", L.updateLogs.Remote)...)
	rest := append(verifLogEntries("local", F.updateLogs.Local), verifLogEntries("remote", F.updateLogs.Remote)...)
	lm := map[verifLogEntry]bool{}
	for _, x := range live {
		lm[x] = true
	}
	e.vc.Count("diag_log_compares", 1)
	for _, x := range rest {
		if !lm[x] {
			e.vc.Diag("restored_log_entry_not_in_live", fmt.Sprintf("%s %+v", e.parties[i].Name, x))
			return
		}
	}
	if F.updateLogs.Local.logIndex > L.updateLogs.Local.logIndex ||
		F.updateLogs.Remote.logIndex > L.updateLogs.Remote.logIndex ||
		F.updateLogs.Local.htlcCounter > L.updateLogs.Local.htlcCounter ||
		F.updateLogs.Remote.htlcCounter > L.updateLogs.Remote.htlcCounter {

		e.vc.Diag("restored_counters_ahead_of_live", e.parties[i].Name)
	}
}

// armCommitHooks makes every committed write transaction of either party a
// crash point (see onCommit).
func (e *verifE1) armCommitHooks() {
	for i := range e.parties {
		i := i
		if d, ok := e.parties[i].backend.(*verifE1DB); ok {
			d.hook = func() { e.onCommit(i) }
		}
	}
}
