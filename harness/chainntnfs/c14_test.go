package chainntnfs_test

// C14 monitor: the real TxNotifier (with the real channeldb.HeightHintCache on
// bbolt) is driven by a harness that plays the chain backend exactly as the
// btcd/bitcoind notifiers do (ConnectTip then NotifyHeight, DisconnectTip per
// stale block, historical dispatches served from the chain) over PRNG chain
// histories with reorgs. A harness-side chain model (blocks, tx -> block
// index) is the ground truth; every client runs a trace automaton against it
// and the persisted height hints are compared with the true inclusion height
// after every step.
//
// Several clients share a ConfRequest with different options (IncludeBlock
// on/off, different confirmation counts) and join at different times (before
// the confirmation, once the details are cached, while others still wait);
// oracle conf_block_details checks the block attached to every Confirmed
// against the model's block (see confBlockDetails). Historical rescans are
// answered with the block attached, as the real backends do.
//
// One transaction can satisfy several DIFFERENT requests at different output
// (input) indexes: batch transactions pay 2-4 different watched scripts, sweep
// transactions spend 2-4 different watched outpoints (verifC14MakeTx,
// newBatch, registerBatch). Every watched script is still paid at most once on
// any chain (all payers of a script conflict with each other), so this is not
// address reuse. The model and the oracles are per request: a request is
// satisfied by the transaction that carries its script at any output index
// (spends its outpoint at any input index).
//
// External test package because channeldb imports chainntnfs.

import (
	"crypto/sha256"
	"fmt"
	"os"
	"path/filepath"
	"sync"
	"testing"
	"time"

	"github.com/btcsuite/btcd/btcutil/v2"
	"github.com/btcsuite/btcd/chainhash/v2"
	"github.com/btcsuite/btcd/txscript/v2"
	"github.com/btcsuite/btcd/wire/v2"
	"github.com/lightningnetwork/lnd/chainntnfs"
	"github.com/lightningnetwork/lnd/channeldb"
	"github.com/lightningnetwork/lnd/kvdb"
)

// ---------------------------------------------------------------------------
// Universe: conflict groups and transactions.

// verifC14Group is either a "conf group" (a unique watched output script S
// that every member tx pays to; all members spend the same dummy input so at
// most one of them can be on the active chain: no address reuse) or a "spend
// group" (a watched outpoint O with script P; every member tx spends O and
// carries the witness that re-derives P). A transaction can be a member of
// several groups of either kind (it then conflicts with every member of each
// of them).
type verifC14Group struct {
	ID      int
	Spend   bool
	Script  []byte
	FundIn  wire.OutPoint
	Witness wire.TxWitness
	Taproot bool
	Kind    string
}

type verifC14Tx struct {
	ID      int
	Msg     *wire.MsgTx
	Hash    chainhash.Hash
	Groups  []int
	InIdx   map[int]uint32 // group -> index of the input spending FundIn
	OutIdx  map[int]uint32 // conf group -> index of the output paying its script
	NConfG  int            // number of conf groups (watched scripts paid)
	NSpendG int            // number of spend groups (watched outpoints spent)
}

type verifC14Block struct {
	Height uint32
	Hash   chainhash.Hash
	Txs    []*verifC14Tx
	TxIdx  map[int]uint32 // universe tx id -> index inside the block
	Blk    *btcutil.Block
	// Body is the harness-side record of the block's transaction ids, taken
	// when the block was built (the notifier is handed Blk itself, so the
	// oracle must not rely on that object staying untouched).
	Body []chainhash.Hash
	Seq  int // global connect sequence number
}

type verifC14Model struct {
	mu      sync.Mutex
	base    uint32
	blocks  []*verifC14Block
	inChain map[int]*verifC14Block // tx id -> block
	groupIn map[int]*verifC14Tx    // group id -> member on the active chain
	maxTip  uint32
	seq     int
	prev    chainhash.Hash
}

func (m *verifC14Model) tip() uint32 {
	return m.base + uint32(len(m.blocks)) - 1
}

func (m *verifC14Model) tipBlock() *verifC14Block {
	return m.blocks[len(m.blocks)-1]
}

func (m *verifC14Model) at(h uint32) *verifC14Block {
	if h < m.base || h > m.tip() {
		return nil
	}
	return m.blocks[h-m.base]
}

func verifC14RandHash(r *verifRng) chainhash.Hash {
	var h chainhash.Hash
	copy(h[:], r.Bytes(32))
	return h
}

func verifC14JunkScript(r *verifRng) []byte {
	return append([]byte{0x00, 0x14}, r.Bytes(20)...)
}

func verifC14ConfScript(r *verifRng) ([]byte, string) {
	switch r.Intn(5) {
	case 0:
		return append([]byte{0x00, 0x20}, r.Bytes(32)...), "p2wsh"
	case 1:
		return append([]byte{0x00, 0x14}, r.Bytes(20)...), "p2wpkh"
	case 2:
		return append([]byte{0x51, 0x20}, r.Bytes(32)...), "p2tr"
	case 3:
		s := append([]byte{0x76, 0xa9, 0x14}, r.Bytes(20)...)
		return append(s, 0x88, 0xac), "p2pkh"
	default:
		s := append([]byte{0xa9, 0x14}, r.Bytes(20)...)
		return append(s, 0x87), "p2sh"
	}
}

func verifC14NewGroup(r *verifRng, id int, spend bool) *verifC14Group {
	g := &verifC14Group{ID: id, Spend: spend}
	g.FundIn = wire.OutPoint{Hash: verifC14RandHash(r), Index: uint32(r.Intn(3))}
	if !spend {
		g.Script, g.Kind = verifC14ConfScript(r)
		return g
	}
	switch r.Intn(4) {
	case 0:
		// taproot key spend: the script cannot be derived from the
		// witness, the notifier matches on the outpoint alone.
		g.Taproot = true
		g.Kind = "p2tr"
		g.Script = append([]byte{0x51, 0x20}, r.Bytes(32)...)
		g.Witness = wire.TxWitness{r.Bytes(64)}
	case 1:
		g.Kind = "p2wpkh"
		pub := append([]byte{0x02}, r.Bytes(32)...)
		g.Witness = wire.TxWitness{r.Bytes(71), pub}
		pk, err := txscript.ComputePkScript(nil, g.Witness)
		if err != nil {
			panic(err)
		}
		g.Script = pk.Script()
	default:
		g.Kind = "p2wsh"
		// never 33 bytes long: a 2-item witness ending in a 33-byte
		// item is read as P2WPKH by txscript.ComputePkScript.
		ws := r.Bytes(34 + r.Intn(30))
		h := sha256.Sum256(ws)
		g.Script = append([]byte{0x00, 0x20}, h[:]...)
		g.Witness = wire.TxWitness{r.Bytes(71), ws}
	}
	return g
}

// verifC14MakeTx builds a transaction that is a member of every given group:
// it spends the FundIn of each of them (in the given order, unwatched inputs in
// between) and pays the script of every conf group among them, one output
// each, in PRNG order with unwatched outputs before / between / after, so that
// a watched output (input) is not always the first one and one transaction can
// satisfy several DIFFERENT requests at different output (input) indexes.
func verifC14MakeTx(r *verifRng, id int, groups []*verifC14Group) *verifC14Tx {
	tx := wire.NewMsgTx(2)
	vt := &verifC14Tx{ID: id, InIdx: map[int]uint32{}, OutIdx: map[int]uint32{}}
	junkIn := func() {
		op := wire.OutPoint{Hash: verifC14RandHash(r), Index: uint32(r.Intn(2))}
		var wit wire.TxWitness
		if r.Bool() {
			wit = wire.TxWitness{r.Bytes(10), r.Bytes(25)}
		}
		tx.AddTxIn(wire.NewTxIn(&op, nil, wit))
	}
	junkOut := func() {
		tx.AddTxOut(wire.NewTxOut(int64(1000+r.Intn(100000)), verifC14JunkScript(r)))
	}
	if r.Chance(1, 3) {
		junkIn()
	}
	var outs []*verifC14Group
	for _, g := range groups {
		vt.Groups = append(vt.Groups, g.ID)
		vt.InIdx[g.ID] = uint32(len(tx.TxIn))
		op := g.FundIn
		var wit wire.TxWitness
		if g.Spend {
			wit = g.Witness
			vt.NSpendG++
		} else {
			vt.NConfG++
			outs = append(outs, g)
			if r.Bool() {
				wit = wire.TxWitness{r.Bytes(9), r.Bytes(23)}
			}
		}
		tx.AddTxIn(wire.NewTxIn(&op, nil, wit))
		if r.Chance(1, 4) {
			junkIn()
		}
	}
	// output order is independent of the input order.
	for i := len(outs) - 1; i > 0; i-- {
		j := r.Intn(i + 1)
		outs[i], outs[j] = outs[j], outs[i]
	}
	if r.Chance(1, 3) {
		junkOut()
	}
	for k, g := range outs {
		if k > 0 && r.Chance(1, 2) {
			junkOut()
		}
		vt.OutIdx[g.ID] = uint32(len(tx.TxOut))
		tx.AddTxOut(wire.NewTxOut(int64(1000+r.Intn(100000)), g.Script))
	}
	if len(tx.TxOut) == 0 || r.Chance(1, 3) {
		junkOut()
	}
	tx.LockTime = uint32(r.Intn(1000))
	vt.Msg = tx
	vt.Hash = tx.TxHash()
	return vt
}

type verifC14Universe struct {
	Groups map[int]*verifC14Group
	ConfG  []int
	SpendG []int
	Txs    []*verifC14Tx
	// Multi lists the transactions that pay >= 2 different watched scripts
	// and/or spend >= 2 different watched outpoints.
	Multi []*verifC14Tx
	// NDyn counts the groups added mid-history (newBatch), NDynTx the
	// newBatch calls.
	NDyn, NDynTx int
}

// verifC14PickGroups returns k distinct ids of the list in PRNG order.
func verifC14PickGroups(r *verifRng, ids []int, k int) []int {
	cp := append([]int(nil), ids...)
	for i := len(cp) - 1; i > 0; i-- {
		j := r.Intn(i + 1)
		cp[i], cp[j] = cp[j], cp[i]
	}
	if k > len(cp) {
		k = len(cp)
	}
	return cp[:k]
}

func (u *verifC14Universe) add(r *verifRng, gs ...*verifC14Group) *verifC14Tx {
	tx := verifC14MakeTx(r, len(u.Txs), gs)
	u.Txs = append(u.Txs, tx)
	if tx.NConfG >= 2 || tx.NSpendG >= 2 {
		u.Multi = append(u.Multi, tx)
	}
	return tx
}

// addIDs adds a transaction that is a member of the given groups; the input
// order of the members is PRNG order.
func (u *verifC14Universe) addIDs(r *verifRng, ids []int) *verifC14Tx {
	ids = verifC14PickGroups(r, ids, len(ids))
	var gs []*verifC14Group
	for _, id := range ids {
		gs = append(gs, u.Groups[id])
	}
	return u.add(r, gs...)
}

// newBatch extends the universe, mid-history, by 2-4 FRESH groups of one kind
// (new unique watched scripts, or new watched outpoints) and ONE transaction
// that is a member of all of them: a batch funding transaction that was just
// created (conf) or a sweep of several watched outputs (spend). Nothing of it
// can be on any chain yet, so it can be mined on the current tip. Some of the
// fresh groups also get a single-group member and/or a second multi-group
// member over a subset (replacements that a reorg can bring in instead).
func (u *verifC14Universe) newBatch(r *verifRng, spend bool) *verifC14Tx {
	var ids []int
	for k := 2 + r.Intn(3); k > 0; k-- {
		g := verifC14NewGroup(r, 100+u.NDyn, spend)
		u.NDyn++
		u.Groups[g.ID] = g
		if spend {
			u.SpendG = append(u.SpendG, g.ID)
		} else {
			u.ConfG = append(u.ConfG, g.ID)
		}
		ids = append(ids, g.ID)
	}
	all := append([]int(nil), ids...)
	if r.Chance(1, 4) {
		// plus one fresh group of the other kind
		g := verifC14NewGroup(r, 100+u.NDyn, !spend)
		u.NDyn++
		u.Groups[g.ID] = g
		if g.Spend {
			u.SpendG = append(u.SpendG, g.ID)
		} else {
			u.ConfG = append(u.ConfG, g.ID)
		}
		all = append(all, g.ID)
	}
	tx := u.addIDs(r, all)
	for _, id := range ids {
		if r.Chance(1, 3) {
			u.add(r, u.Groups[id])
		}
	}
	if r.Chance(1, 3) {
		u.addIDs(r, verifC14PickGroups(r, ids, 2+r.Intn(len(ids)-1)))
	}
	return tx
}

func verifC14NewUniverse(r *verifRng) *verifC14Universe {
	u := &verifC14Universe{Groups: map[int]*verifC14Group{}}
	nc := 1 + r.Intn(4)
	ns := 1 + r.Intn(4)
	for i := 0; i < nc; i++ {
		g := verifC14NewGroup(r, i, false)
		u.Groups[g.ID] = g
		u.ConfG = append(u.ConfG, g.ID)
	}
	for i := 0; i < ns; i++ {
		g := verifC14NewGroup(r, 10+i, true)
		u.Groups[g.ID] = g
		u.SpendG = append(u.SpendG, g.ID)
	}
	add := func(gs ...*verifC14Group) { u.add(r, gs...) }
	addIDs := func(ids []int) { u.addIDs(r, ids) }
	for _, id := range u.ConfG {
		for v := 0; v < 2; v++ {
			add(u.Groups[id])
		}
	}
	for _, id := range u.SpendG {
		for v := 0; v < 2; v++ {
			add(u.Groups[id])
		}
	}
	// combos: one tx that both confirms a watched script and spends a
	// watched outpoint (conflicts with every member of both groups).
	for k := r.Intn(3); k > 0; k-- {
		cg := u.Groups[u.ConfG[r.Intn(len(u.ConfG))]]
		sg := u.Groups[u.SpendG[r.Intn(len(u.SpendG))]]
		if r.Bool() {
			add(cg, sg)
		} else {
			add(sg, cg)
		}
	}
	// batch transactions: ONE transaction paying 2-4 DIFFERENT watched
	// scripts (a batch funding tx), optionally spending watched outpoints as
	// well. It conflicts with every member of each of its groups, so every
	// watched script is still paid at most once on any chain.
	if nc >= 2 {
		for k := r.Intn(3); k > 0; k-- {
			ids := verifC14PickGroups(r, u.ConfG, 2+r.Intn(3))
			if r.Chance(1, 3) {
				ids = append(ids, verifC14PickGroups(r, u.SpendG, 1+r.Intn(2))...)
			}
			addIDs(ids)
		}
	}
	// sweep transactions: ONE transaction spending 2-4 DIFFERENT watched
	// outpoints (each input carrying its own witness), optionally paying a
	// watched script.
	if ns >= 2 {
		for k := r.Intn(3); k > 0; k-- {
			ids := verifC14PickGroups(r, u.SpendG, 2+r.Intn(3))
			if r.Chance(1, 3) {
				ids = append(ids, verifC14PickGroups(r, u.ConfG, 1)...)
			}
			addIDs(ids)
		}
	}
	return u
}

// eligible lists the universe transactions that can be mined on top of the
// current tip: not on the active chain and conflicting with nothing on it.
func (m *verifC14Model) eligible(u *verifC14Universe) []*verifC14Tx {
	var out []*verifC14Tx
	for _, tx := range u.Txs {
		if _, ok := m.inChain[tx.ID]; ok {
			continue
		}
		free := true
		for _, g := range tx.Groups {
			if _, used := m.groupIn[g]; used {
				free = false
			}
		}
		if free {
			out = append(out, tx)
		}
	}
	return out
}

// mine builds a real block (header chained to the previous block, a
// coinbase-like first transaction, filler transactions around the chosen
// universe transactions) and appends it to the model.
func (m *verifC14Model) mine(r *verifRng, txs []*verifC14Tx) *verifC14Block {
	height := m.base + uint32(len(m.blocks))
	merkle := verifC14RandHash(r)
	hdr := wire.NewBlockHeader(2, &m.prev, &merkle, 0x1d00ffff, uint32(r.U64()))
	hdr.Timestamp = time.Unix(1700000000+int64(height)*600, 0)
	mb := wire.NewMsgBlock(hdr)
	filler := func() {
		tx := wire.NewMsgTx(1)
		op := wire.OutPoint{Hash: verifC14RandHash(r), Index: 0}
		tx.AddTxIn(wire.NewTxIn(&op, nil, wire.TxWitness{r.Bytes(8), r.Bytes(21)}))
		tx.AddTxOut(wire.NewTxOut(int64(r.Intn(50000)), verifC14JunkScript(r)))
		_ = mb.AddTransaction(tx)
	}
	cb := wire.NewMsgTx(1)
	cbOp := wire.OutPoint{Index: 0xffffffff}
	cb.AddTxIn(wire.NewTxIn(&cbOp, append([]byte{0x04}, r.Bytes(4)...), nil))
	cb.AddTxOut(wire.NewTxOut(5000000000, verifC14JunkScript(r)))
	_ = mb.AddTransaction(cb)
	b := &verifC14Block{Height: height, TxIdx: map[int]uint32{}}
	for _, tx := range txs {
		if r.Chance(1, 3) {
			filler()
		}
		b.TxIdx[tx.ID] = uint32(len(mb.Transactions))
		_ = mb.AddTransaction(tx.Msg)
		b.Txs = append(b.Txs, tx)
	}
	if r.Chance(1, 4) {
		filler()
	}
	b.Blk = btcutil.NewBlock(mb)
	b.Blk.SetHeight(int32(height))
	b.Hash = mb.Header.BlockHash()
	for _, mtx := range mb.Transactions {
		b.Body = append(b.Body, mtx.TxHash())
	}
	m.seq++
	b.Seq = m.seq
	m.blocks = append(m.blocks, b)
	m.prev = b.Hash
	for _, tx := range txs {
		m.inChain[tx.ID] = b
		for _, g := range tx.Groups {
			m.groupIn[g] = tx
		}
	}
	if height > m.maxTip {
		m.maxTip = height
	}
	return b
}

func (m *verifC14Model) pop() *verifC14Block {
	b := m.tipBlock()
	m.blocks = m.blocks[:len(m.blocks)-1]
	for _, tx := range b.Txs {
		delete(m.inChain, tx.ID)
		for _, g := range tx.Groups {
			delete(m.groupIn, g)
		}
	}
	if len(m.blocks) > 0 {
		m.prev = m.tipBlock().Hash
	}
	return b
}

// ---------------------------------------------------------------------------
// Requests and clients.

type verifC14Req struct {
	Key     string
	IsSpend bool
	Group   int
	ByID    bool // conf: txid request; spend: outpoint request
	TxID    int  // conf by txid: universe tx
	Conf    chainntnfs.ConfRequest
	SpendR  chainntnfs.SpendRequest

	// per notifier instance
	state     int // 0 none, 1 rescan pending, 2 rescan done
	pendConf  *chainntnfs.HistoricalConfDispatch
	pendSpend *chainntnfs.HistoricalSpendDispatch
	// Known-finding class KF-C14-2, proven harness-side: while the
	// request's historical rescan was pending (state 1) a disconnect left
	// its persisted hint (unchanged since the rescan was requested, and
	// fine back then) above tip+1. staleVal is that hint value; only a
	// later hint violation with exactly this value carries the suffix.
	hintAtPending uint32
	hintOkAtPend  bool
	staleDiag     bool
	staleVal      uint32

	// Known-finding class KF-C14-1, proven harness-side: orphanBlk is the
	// block of found rescan details that were delivered while the request
	// had no live client (all cancelled) and no client has registered
	// since; orphanStale is set once that very block is disconnected in
	// this state (from then on the notifier's cached details and the
	// persisted hint of this request are stale). Only then violation()
	// appends the fingerprint suffix.
	orphanBlk   *verifC14Seen
	orphanStale bool

	// per notifier instance, conf requests only: which IncludeBlock options
	// have been used by the clients registered so far, and the block whose
	// details were (by the model) already known to the notifier when a
	// client WITHOUT IncludeBlock registered (coverage bookkeeping only).
	optIncl, optNoIncl bool
	noBlkCacheReg      *verifC14Seen

	// coverage bookkeeping (noteMulti): the block handed to ConnectTip in
	// which this request was satisfied by a transaction that also satisfied
	// another live request at a lower output (input) index.
	laterBlk chainhash.Hash
	laterSet bool
}

type verifC14Seen struct {
	Height uint32
	Hash   chainhash.Hash
}

type verifC14Client struct {
	ID       int
	Req      *verifC14Req
	NumConfs uint32
	InclBlk  bool
	cev      *chainntnfs.ConfirmationEvent
	sev      *chainntnfs.SpendEvent
	regSeq   int
	seen     *verifC14Seen // confirmed / spent as told to the client
	needNeg  bool
	dead     bool
	done     bool
	lastLeft int64
	reorged  bool

	lostHeight uint32 // height of the told block that was disconnected
}

type verifC14H struct {
	t     *testing.T
	vc    *verifCtx
	r     *verifRng
	u     *verifC14Universe
	m     *verifC14Model
	n     *chainntnfs.TxNotifier
	cache *channeldb.HeightHintCache
	limit uint32

	// mu serialises the harness bookkeeping (model, clients, PRNG) in the
	// concurrent phases; the notifier calls of the backend goroutine are
	// made outside it.
	mu sync.Mutex

	// style is the history's mining style, wanted the multi-request
	// transactions the backend currently tries to mine (see pickBlockTxs).
	style  int
	wanted []*verifC14Tx

	reqs    map[string]*verifC14Req
	reqList []*verifC14Req
	clients []*verifC14Client
	// regNow is the client whose RegisterConf call is being made / drained;
	// inRescan is set while a historical conf rescan result is handed over.
	regNow   *verifC14Client
	inRescan bool
	log      []string
	failed   bool
	stuck    int

	nReorgBlocks, nConfirmed, nSpent, nNeg, nReorgEv, nHist, nRestart int
	maxDepth                                                          int
	deepest                                                           bool
}

func (h *verifC14H) logf(format string, a ...any) {
	h.log = append(h.log, fmt.Sprintf(format, a...))
}

func (h *verifC14H) witness() any {
	l := h.log
	if len(l) > 120 {
		l = l[len(l)-120:]
	}
	return map[string]any{"limit": h.limit, "ops": l}
}

func (h *verifC14H) violation(q *verifC14Req, oracle, key, detail string) {
	h.failed = true
	if q != nil && q.orphanStale {
		key += "+rescan-found-for-clientless-request"
	}
	h.vc.Violation(oracle, key, detail, h.witness())
}

// verifC14Panic is what callTol turns a panic of the notifier into.
type verifC14Panic struct{ msg string }

func (p verifC14Panic) Error() string { return "panic: " + p.msg }

// verifC14Panics counts the recovered notifier panics of this process.
var verifC14Panics int

func verifC14PanicCheck(t *testing.T, vc *verifCtx) {
	if verifC14Panics > 0 {
		vc.Count("notifier_panics_recovered", int64(verifC14Panics))
		t.Fatalf("verif C14: the notifier panicked inside %d API calls (see diag notifier_panic)", verifC14Panics)
	}
}

// call runs one notifier API call. All sends to client channels happen inside
// the call under the notifier's lock; should a (mutated) notifier block on a
// full client channel, the pump below keeps consuming so that the run ends
// with an oracle verdict instead of a hang.
func (h *verifC14H) call(name string, fn func() error) {
	h.callTol(name, false, fn)
}

// callTol: with tolerate set an error return is recorded as a diagnostic
// only (the real backends merely log a failed Update*Details, e.g. for a
// request that matured and was dropped while its rescan was in flight).
func (h *verifC14H) callTol(name string, tolerate bool, fn func() error) {
	done := make(chan error, 1)
	go func() {
		defer func() {
			if p := recover(); p != nil {
				done <- verifC14Panic{fmt.Sprint(p)}
			}
		}()
		done <- fn()
	}()
	timer := time.NewTimer(3 * time.Second)
	defer timer.Stop()
	for {
		select {
		case err := <-done:
			if pe, ok := err.(verifC14Panic); ok {
				// The notifier panicked inside the call (its deferred
				// Unlock has run). That alone is no verdict: the history
				// goes on and the trace oracles judge what the clients
				// are (not) told from here on; the test function ends
				// with t.Fatalf when panics were recovered, so a run
				// with panics can never count as a pass.
				verifC14Panics++
				h.vc.Diag("notifier_panic", name+": "+pe.msg)
				h.logf("PANIC in %s: %s", name, pe.msg)
				return
			}
			if err != nil && tolerate {
				h.vc.Diag("update_details_error", name+": "+err.Error())
				h.logf("err(tolerated) %s: %v", name, err)
			} else if err != nil {
				h.vc.Diag("api_error", name+": "+err.Error())
				h.logf("ERR %s: %v", name, err)
				h.failed = true
			}
			return
		case <-timer.C:
			h.stuck++
			h.logf("call %s blocked; pumping client channels", name)
			h.drain()
			if h.stuck > 40 {
				h.t.Fatalf("verif C14: %s blocked for good; ops=%v", name, h.log)
			}
			timer.Reset(500 * time.Millisecond)
		}
	}
}

// ----- model lookups (the oracle's ground truth) ---------------------------

// confTruth returns where the request's transaction sits on the active chain.
func (h *verifC14H) confTruth(q *verifC14Req) (*verifC14Block, *verifC14Tx) {
	if q.ByID {
		tx := h.u.Txs[q.TxID]
		if b, ok := h.m.inChain[tx.ID]; ok {
			return b, tx
		}
		return nil, nil
	}
	if tx, ok := h.m.groupIn[q.Group]; ok {
		return h.m.inChain[tx.ID], tx
	}
	return nil, nil
}

func (h *verifC14H) spendTruth(q *verifC14Req) (*verifC14Block, *verifC14Tx) {
	if tx, ok := h.m.groupIn[q.Group]; ok {
		return h.m.inChain[tx.ID], tx
	}
	return nil, nil
}

func (h *verifC14H) truth(q *verifC14Req) (*verifC14Block, *verifC14Tx) {
	if q.IsSpend {
		return h.spendTruth(q)
	}
	return h.confTruth(q)
}

// ----- client automaton -----------------------------------------------------

func (h *verifC14H) onConfirmed(c *verifC14Client, d *chainntnfs.TxConfirmation) {
	h.vc.Count("oracle_conf_sound_evals", 1)
	h.nConfirmed++
	tip := h.m.tip()
	b, tx := h.confTruth(c.Req)
	desc := fmt.Sprintf("client %d req %s numConfs=%d got Confirmed(height=%d hash=%v txIndex=%d) tip=%d",
		c.ID, c.Req.Key, c.NumConfs, d.BlockHeight, d.BlockHash, d.TxIndex, tip)
	h.logf("  <- Confirmed c%d h=%d", c.ID, d.BlockHeight)
	switch {
	case b == nil:
		h.violation(c.Req, "conf_sound", "confirmed-not-on-active-chain",
			desc+": the model's active chain does not contain the transaction")
	case d.BlockHash == nil || *d.BlockHash != b.Hash || d.BlockHeight != b.Height:
		h.violation(c.Req, "conf_sound", "confirmed-wrong-block",
			fmt.Sprintf("%s: on the active chain it is in block %v at height %d", desc, b.Hash, b.Height))
	case tip-b.Height+1 < c.NumConfs:
		h.violation(c.Req, "conf_sound", "confirmed-too-early",
			fmt.Sprintf("%s: only %d confirmations on the active chain", desc, tip-b.Height+1))
	case d.Tx == nil || d.Tx.TxHash() != tx.Hash || d.TxIndex != b.TxIdx[tx.ID]:
		h.violation(c.Req, "conf_sound", "confirmed-wrong-tx-details",
			fmt.Sprintf("%s: expected tx %v at index %d", desc, tx.Hash, b.TxIdx[tx.ID]))
	}
	if d.Block != nil && b != nil && d.Block.BlockHash() != b.Hash {
		h.violation(c.Req, "conf_sound", "confirmed-wrong-block-body", desc)
	}
	h.confBlockDetails(c, d, b, tx, desc)
	if tx != nil && tx.NConfG >= 2 {
		h.vc.Count("conf_delivered_for_multi_script_tx", 1)
		if q := c.Req; q.laterSet && d.BlockHash != nil && *d.BlockHash == q.laterBlk {
			h.vc.Count("conf_delivered_later_requested_output", 1)
		}
	}
	h.vc.Count("oracle_conf_once_evals", 1)
	if c.seen != nil {
		h.violation(c.Req, "conf_once", "confirmed-twice-without-reorg",
			desc+fmt.Sprintf(": client was already told it confirmed at height %d and that block is still active", c.seen.Height))
	}
	if c.needNeg {
		h.violation(c.Req, "reorg_before_reconfirm", "confirmed-again-without-negative-conf",
			desc+": the block of the previous confirmation was disconnected and no NegativeConf was delivered before this renewed confirmation")
	}
	s := &verifC14Seen{Height: d.BlockHeight}
	if d.BlockHash != nil {
		s.Hash = *d.BlockHash
	}
	c.seen = s
}

// verifC14CrossOptSuffix marks conf_block_details violations of one class
// whose precondition is established harness-side (see confBlockDetails). The
// unchanged tree produces this class (findings/C14_include_block_cross_client_
// repro_test.go); it does not end the history, and only the first few
// occurrences per process are emitted as violations (the rest are counted) so
// that they cannot crowd out other violations (50 are kept per process).
const verifC14CrossOptSuffix = "+delivered-inside-registration-of-client-with-other-option"

var verifC14CrossOptEmitted int

func (h *verifC14H) blockViolation(q *verifC14Req, key, suffix, detail string) {
	if suffix == "" {
		h.violation(q, "conf_block_details", key, detail)
		return
	}
	h.vc.Count("conf_block_cross_option_class_seen", 1)
	if verifC14CrossOptEmitted >= 3 {
		return
	}
	verifC14CrossOptEmitted++
	h.vc.Violation("conf_block_details", key+suffix, detail, h.witness())
}

// confBlockDetails is the conf_block_details oracle ("with block details from
// that chain"): a client that registered WithIncludeBlock gets, with every
// Confirmed, the block itself: non-nil, its header hash equal to the
// notification's BlockHash, equal to the reference chain's block at
// BlockHeight on the active branch, carrying the transaction at TxIndex (and
// the reference block's transaction list); a client that did not ask for the
// block gets none. b/tx are the model's truth for the request (nil when the
// transaction is not on the active chain; conf_sound reports that).
func (h *verifC14H) confBlockDetails(c *verifC14Client, d *chainntnfs.TxConfirmation,
	b *verifC14Block, tx *verifC14Tx, desc string) {

	h.vc.Count("oracle_conf_block_details_evals", 1)
	q := c.Req
	if q.optIncl && q.optNoIncl {
		h.vc.Count("conf_block_mixed_option_deliveries", 1)
	}
	// Fingerprint suffix of one class, established harness-side: this
	// Confirmed reached the client while ANOTHER client of the same request,
	// registered with the opposite IncludeBlock option, was inside its
	// RegisterConf call (RegisterConf's "rescan complete" branch dispatches
	// the registrant's view of the details to every subscriber of the set).
	suffix := ""
	if o := h.regNow; o != nil && o != c && o.Req == q && o.InclBlk != c.InclBlk {
		suffix = verifC14CrossOptSuffix
		h.vc.Count("conf_delivered_inside_other_option_registration", 1)
		desc += fmt.Sprintf(" [delivered inside the RegisterConf call of client %d (includeBlock=%v) of the same request]",
			o.ID, o.InclBlk)
	}
	if !c.InclBlk {
		h.vc.Count("oracle_conf_block_unrequested_evals", 1)
		if d.Block != nil {
			h.blockViolation(q, "block-included-but-not-requested", suffix,
				desc+": the client registered without IncludeBlock but the notification carries a block")
		}
		return
	}
	h.vc.Count("oracle_conf_block_requested_evals", 1)
	if h.inRescan {
		// dispatched from the details a historical rescan just returned
		h.vc.Count("conf_block_requested_from_rescan", 1)
	}
	if s := q.noBlkCacheReg; s != nil && d.BlockHash != nil && *d.BlockHash == s.Hash {
		h.vc.Count("conf_block_requested_after_noblock_cached_registration", 1)
	}
	if d.Block == nil {
		h.blockViolation(q, "block-missing-for-include-block-client", suffix,
			desc+": the client registered WithIncludeBlock but the notification carries no block")
		return
	}
	got := d.Block.Header.BlockHash()
	ref := h.m.at(d.BlockHeight)
	var want chainhash.Hash
	if tx != nil {
		want = tx.Hash
	} else if d.Tx != nil {
		want = d.Tx.TxHash()
	}
	switch {
	case d.BlockHash == nil || got != *d.BlockHash:
		h.blockViolation(q, "block-hash-differs-from-notified-block-hash", "",
			fmt.Sprintf("%s: attached block is %v", desc, got))
	case ref == nil || got != ref.Hash:
		h.blockViolation(q, "block-not-on-active-chain-at-notified-height", "",
			fmt.Sprintf("%s: attached block is %v, the active chain has %v at that height", desc, got,
				func() any {
					if ref == nil {
						return "no block"
					}
					return ref.Hash
				}()))
	case int(d.TxIndex) >= len(d.Block.Transactions) || d.Block.Transactions[d.TxIndex] == nil ||
		d.Block.Transactions[d.TxIndex].TxHash() != want:

		h.blockViolation(q, "block-lacks-tx-at-tx-index", "",
			fmt.Sprintf("%s: attached block has %d transactions, expected %v at index %d", desc,
				len(d.Block.Transactions), want, d.TxIndex))
	default:
		same := len(d.Block.Transactions) == len(ref.Body)
		for k := 0; same && k < len(ref.Body); k++ {
			same = d.Block.Transactions[k] != nil && d.Block.Transactions[k].TxHash() == ref.Body[k]
		}
		if !same {
			h.blockViolation(q, "block-body-differs-from-chain-block", "",
				fmt.Sprintf("%s: the transactions of the attached block are not those of block %v", desc, ref.Hash))
		}
	}
}

func (h *verifC14H) onSpend(c *verifC14Client, d *chainntnfs.SpendDetail) {
	h.vc.Count("oracle_spend_sound_evals", 1)
	h.nSpent++
	b, tx := h.spendTruth(c.Req)
	g := h.u.Groups[c.Req.Group]
	desc := fmt.Sprintf("client %d req %s got Spend(height=%d spender=%v input=%d) tip=%d",
		c.ID, c.Req.Key, d.SpendingHeight, d.SpenderTxHash, d.SpenderInputIndex, h.m.tip())
	h.logf("  <- Spend c%d h=%d", c.ID, d.SpendingHeight)
	switch {
	case b == nil:
		h.violation(c.Req, "spend_sound", "spend-not-on-active-chain",
			desc+": the watched outpoint is unspent on the model's active chain")
	case d.SpenderTxHash == nil || *d.SpenderTxHash != tx.Hash || uint32(d.SpendingHeight) != b.Height:
		h.violation(c.Req, "spend_sound", "spend-wrong-tx-or-height",
			fmt.Sprintf("%s: on the active chain it is spent by %v at height %d", desc, tx.Hash, b.Height))
	case d.SpentOutPoint == nil || *d.SpentOutPoint != g.FundIn || d.SpenderInputIndex != tx.InIdx[g.ID] ||
		d.SpendingTx == nil || d.SpendingTx.TxHash() != tx.Hash:

		h.violation(c.Req, "spend_sound", "spend-wrong-details",
			fmt.Sprintf("%s: expected outpoint %v input %d", desc, g.FundIn, tx.InIdx[g.ID]))
	}
	if tx != nil && tx.NSpendG >= 2 {
		h.vc.Count("spend_delivered_for_multi_outpoint_spender", 1)
		if q := c.Req; q.laterSet && b != nil && b.Hash == q.laterBlk && uint32(d.SpendingHeight) == b.Height {
			h.vc.Count("spend_delivered_later_requested_input", 1)
		}
	}
	h.vc.Count("oracle_spend_once_evals", 1)
	if c.seen != nil {
		h.violation(c.Req, "spend_once", "spend-twice-without-reorg", desc)
	}
	if c.needNeg {
		h.violation(c.Req, "reorg_before_respend", "spend-again-without-reorg-notice",
			desc+": the spending block told before was disconnected and no Reorg was delivered before this renewed Spend")
	}
	s := &verifC14Seen{Height: uint32(d.SpendingHeight)}
	if b != nil && uint32(d.SpendingHeight) == b.Height {
		s.Hash = b.Hash
	}
	c.seen = s
}

func (h *verifC14H) onUpdate(c *verifC14Client, u chainntnfs.TxUpdateInfo) {
	h.vc.Count("diag_update_evals", 1)
	if !c.reorged && c.lastLeft >= 0 && int64(u.NumConfsLeft) >= c.lastLeft {
		h.vc.Diag("updates_not_decreasing", fmt.Sprintf("client %d: %d after %d", c.ID, u.NumConfsLeft, c.lastLeft))
	}
	c.reorged = false
	c.lastLeft = int64(u.NumConfsLeft)
	if b, _ := h.confTruth(c.Req); b == nil || b.Height != u.BlockHeight {
		h.vc.Diag("update_wrong_height", fmt.Sprintf("client %d update height %d", c.ID, u.BlockHeight))
	}
}

// drainClient consumes everything buffered for one client (prompt consumer).
func (h *verifC14H) drainClient(c *verifC14Client) {
	if c.dead {
		return
	}
	if c.cev != nil {
		for !c.dead {
			select {
			case depth, ok := <-c.cev.NegativeConf:
				if !ok {
					c.dead = true
					continue
				}
				h.nNeg++
				h.vc.Count("negative_conf_events", 1)
				h.logf("  <- NegativeConf c%d depth=%d", c.ID, depth)
				if !c.needNeg && c.seen != nil {
					h.vc.Diag("negative_conf_while_block_active",
						fmt.Sprintf("client %d told reorg but block %d is active", c.ID, c.seen.Height))
				}
				c.needNeg = false
				continue
			default:
			}
			break
		}
		for !c.dead {
			select {
			case d, ok := <-c.cev.Confirmed:
				if !ok {
					c.dead = true
					continue
				}
				if d == nil {
					h.violation(c.Req, "conf_sound", "nil-confirmation", fmt.Sprintf("client %d got nil", c.ID))
					continue
				}
				h.onConfirmed(c, d)
				continue
			default:
			}
			break
		}
		for !c.dead {
			select {
			case u, ok := <-c.cev.Updates:
				if !ok {
					c.dead = true
					continue
				}
				h.onUpdate(c, u)
				continue
			default:
			}
			break
		}
		select {
		case _, ok := <-c.cev.Done:
			if ok {
				c.done = true
				h.vc.Count("done_events", 1)
				if b, _ := h.confTruth(c.Req); b == nil || h.m.tip()-b.Height < h.limit {
					h.vc.Diag("done_before_safety_limit", fmt.Sprintf("client %d", c.ID))
				}
			}
		default:
		}
		return
	}
	for !c.dead {
		select {
		case _, ok := <-c.sev.Reorg:
			if !ok {
				c.dead = true
				continue
			}
			h.nReorgEv++
			h.vc.Count("spend_reorg_events", 1)
			h.logf("  <- Reorg c%d", c.ID)
			if !c.needNeg {
				h.vc.Diag("spend_reorg_while_block_active", fmt.Sprintf("client %d", c.ID))
			}
			c.needNeg = false
			continue
		default:
		}
		break
	}
	for !c.dead {
		select {
		case d, ok := <-c.sev.Spend:
			if !ok {
				c.dead = true
				continue
			}
			if d == nil {
				h.violation(c.Req, "spend_sound", "nil-spend", fmt.Sprintf("client %d got nil", c.ID))
				continue
			}
			h.onSpend(c, d)
			continue
		default:
		}
		break
	}
	if !c.dead {
		select {
		case _, ok := <-c.sev.Done:
			if ok {
				c.done = true
				h.vc.Count("done_events", 1)
			}
		default:
		}
	}
}

func (h *verifC14H) drain() {
	for _, c := range h.clients {
		h.drainClient(c)
	}
}

// quiescent evaluates the completeness half of "exactly when" and the
// reorg-notice obligation, then the hint oracle.
func (h *verifC14H) quiescent(where string) {
	tip := h.m.tip()
	for _, c := range h.clients {
		if c.dead {
			continue
		}
		if c.needNeg {
			h.vc.Count("oracle_reorg_notice_evals", 1)
			what := "NegativeConf"
			oracle := "conf_reorg_notice"
			if c.Req.IsSpend {
				what, oracle = "Reorg", "spend_reorg_notice"
			}
			h.violation(c.Req, oracle, "no-reorg-notice-after-disconnect",
				fmt.Sprintf("%s: client %d req %s was told about block height %d which has been disconnected, but no %s was delivered",
					where, c.ID, c.Req.Key, c.lastSeenHeight(), what))
			c.needNeg = false
			continue
		}
		b, _ := h.truth(c.Req)
		if b == nil {
			continue
		}
		need := uint32(1)
		if !c.Req.IsSpend {
			need = c.NumConfs
		}
		if tip-b.Height+1 < need {
			continue
		}
		// The notifier is answerable once the historical rescan of the
		// request has been completed, or when it was handed the
		// including block itself after the registration.
		if !(c.Req.state == 2 || b.Seq > c.regSeq) {
			h.vc.Count("complete_skipped_rescan_pending", 1)
			continue
		}
		if c.Req.laterSet && c.Req.laterBlk == b.Hash {
			// satisfied at a later output (input) of a transaction whose
			// earlier output (input) satisfied another request.
			if c.Req.IsSpend {
				h.vc.Count("oracle_spend_complete_later_input_evals", 1)
			} else {
				h.vc.Count("oracle_conf_complete_later_output_evals", 1)
			}
		}
		if c.Req.IsSpend {
			h.vc.Count("oracle_spend_complete_evals", 1)
			if c.seen == nil {
				h.violation(c.Req, "spend_complete", "spent-on-chain-client-not-told",
					fmt.Sprintf("%s: client %d req %s: outpoint spent at height %d (tip %d) but the client has no Spend",
						where, c.ID, c.Req.Key, b.Height, tip))
			}
			continue
		}
		h.vc.Count("oracle_conf_complete_evals", 1)
		if c.seen == nil {
			h.violation(c.Req, "conf_complete", "confirmed-on-chain-client-not-told",
				fmt.Sprintf("%s: client %d req %s numConfs=%d: tx in block height %d, tip %d (%d confs) but the client has no Confirmed",
					where, c.ID, c.Req.Key, c.NumConfs, b.Height, tip, tip-b.Height+1))
		}
	}
	h.checkHints(where)
}

func (c *verifC14Client) lastSeenHeight() uint32 {
	if c.seen != nil {
		return c.seen.Height
	}
	return c.lostHeight
}

func (h *verifC14H) checkHints(where string) {
	tip := h.m.tip()
	for _, q := range h.reqList {
		var hint uint32
		var err error
		if q.IsSpend {
			hint, err = h.cache.QuerySpendHint(q.SpendR)
		} else {
			hint, err = h.cache.QueryConfirmHint(q.Conf)
		}
		if err != nil {
			continue
		}
		b, _ := h.truth(q)
		if b != nil {
			h.vc.Count("oracle_hint_evals", 1)
			if hint > b.Height {
				kind := "conf"
				if q.IsSpend {
					kind = "spend"
				}
				key := kind + "-hint-above-inclusion-height"
				if q.staleDiag && hint == q.staleVal {
					key += "+stale-since-disconnect-during-pending-rescan"
				}
				h.violation(q, "hint_le_inclusion", key,
					fmt.Sprintf("%s: persisted %s hint %d for %s exceeds the height %d at which it is included on the active chain (tip %d)",
						where, kind, hint, q.Key, b.Height, tip))
			}
			continue
		}
		h.vc.Count("diag_hint_unincluded_evals", 1)
		if hint > tip+1 {
			if q.state == 1 && q.hintOkAtPend && hint == q.hintAtPending && !q.staleDiag {
				q.staleDiag = true
				q.staleVal = hint
				h.vc.Count("kf_c14_2_precondition_met", 1)
			}
			h.vc.Diag("hint_above_tip_plus_one", fmt.Sprintf("%s: hint %d for %s (rescan state %d) tip %d",
				where, hint, q.Key, q.state, tip))
		}
	}
}

// ----- backend role ---------------------------------------------------------

func (h *verifC14H) pickBlockTxs() []*verifC14Tx {
	var txs []*verifC14Tx
	used := map[int]bool{}
	el := h.m.eligible(h.u)
	// random order
	for i := len(el) - 1; i > 0; i-- {
		j := h.r.Intn(i + 1)
		el[i], el[j] = el[j], el[i]
	}
	// A transaction that is a member of several groups conflicts with every
	// member of each of them; depending on the history's mining style those
	// are considered first (and more eagerly) so that they are not crowded
	// out by the single-group transactions: style 0 treats all transactions
	// alike, style 1 favours them in one block out of three, style 2 always
	// does and mines single-group transactions more slowly. Transactions for
	// which a batch of registrations was just made ("registered, then
	// broadcast") come first in any style.
	isMulti := func(tx *verifC14Tx) bool { return tx.NConfG >= 2 || tx.NSpendG >= 2 }
	favour, singleDen, multiDen := false, 4, 2
	if len(h.u.Multi) > 0 {
		switch h.style {
		case 1:
			favour = h.r.Chance(1, 3)
		case 2:
			favour, singleDen, multiDen = true, 10, 3
		}
	}
	wanted := map[int]bool{}
	for _, tx := range h.wanted {
		wanted[tx.ID] = true
	}
	if favour || len(wanted) > 0 {
		var w, first, rest []*verifC14Tx
		for _, tx := range el {
			switch {
			case wanted[tx.ID]:
				w = append(w, tx)
			case favour && isMulti(tx):
				first = append(first, tx)
			default:
				rest = append(rest, tx)
			}
		}
		el = append(append(w, first...), rest...)
	}
	for _, tx := range el {
		switch {
		case wanted[tx.ID]:
			if !h.r.Chance(1, 2) {
				continue
			}
		case favour && isMulti(tx):
			if !h.r.Chance(1, multiDen) {
				continue
			}
		default:
			if !h.r.Chance(1, singleDen) {
				continue
			}
		}
		ok := true
		for _, g := range tx.Groups {
			if used[g] {
				ok = false
			}
		}
		if !ok {
			continue
		}
		for _, g := range tx.Groups {
			used[g] = true
		}
		txs = append(txs, tx)
		if wanted[tx.ID] {
			h.vc.Count("batch_registered_txs_mined_next", 1)
			var keep []*verifC14Tx
			for _, w := range h.wanted {
				if w != tx {
					keep = append(keep, w)
				}
			}
			h.wanted = keep
		}
	}
	return txs
}

// noteMulti is coverage bookkeeping for a block that is about to be handed to
// ConnectTip: a transaction in it that satisfies, at DIFFERENT outputs
// (inputs), several different requests that are registered with the running
// notifier, have a live client and have no details yet. Every such request
// except the one at the lowest output (input) index is marked with the block,
// so that the deliveries / completeness evaluations for "a later output of a
// transaction whose earlier output matched another request" can be counted.
func (h *verifC14H) noteMulti(b *verifC14Block) {
	for _, tx := range b.Txs {
		if tx.NConfG < 2 && tx.NSpendG < 2 {
			continue
		}
		for _, spend := range []bool{false, true} {
			var qs []*verifC14Req
			groups := map[int]bool{}
			byID, byScript := false, false
			first := uint32(1 << 30)
			pos := func(q *verifC14Req) uint32 {
				if spend {
					return tx.InIdx[q.Group]
				}
				return tx.OutIdx[q.Group]
			}
			for _, q := range h.reqList {
				if q.IsSpend != spend || q.state == 0 || h.liveClients(q) == 0 {
					continue
				}
				if _, ttx := h.truth(q); ttx != tx {
					continue
				}
				qs = append(qs, q)
				groups[q.Group] = true
				if q.ByID {
					byID = true
				} else {
					byScript = true
				}
				if p := pos(q); p < first {
					first = p
				}
			}
			if len(groups) < 2 {
				continue
			}
			name := "multi_request_txs"
			if spend {
				name = "multi_outpoint_spenders"
			}
			h.vc.Count(name, 1)
			if byID && byScript {
				h.vc.Count(name+"_mixed_kinds", 1)
			}
			if len(groups) >= 3 {
				h.vc.Count(name+"_3plus", 1)
			}
			for _, q := range qs {
				if pos(q) != first {
					q.laterBlk = b.Hash
					q.laterSet = true
				}
			}
			h.logf("  multi t%d at height %d satisfies %d %s requests on %d different positions",
				tx.ID, b.Height, len(qs), map[bool]string{false: "conf", true: "spend"}[spend], len(groups))
		}
	}
}

func (h *verifC14H) connect(mid func()) {
	b := h.m.mine(h.r, h.pickBlockTxs())
	ids := []int{}
	for _, tx := range b.Txs {
		ids = append(ids, tx.ID)
	}
	h.logf("connect height=%d txs=%v", b.Height, ids)
	h.noteMulti(b)
	h.call("ConnectTip", func() error { return h.n.ConnectTip(b.Blk, b.Height) })
	h.drain()
	if mid != nil && !h.failed {
		mid()
	}
	h.call("NotifyHeight", func() error { return h.n.NotifyHeight(b.Height) })
	h.drain()
	h.vc.Count("connects", 1)
	h.quiescent(fmt.Sprintf("after connect %d", b.Height))
}

func (h *verifC14H) lowestDisconnectable() uint32 {
	// Blocks at depth <= limit below the highest tip ever reached may be
	// reorganised out ("within the reorg safety limit").
	low := h.m.base + 1
	if h.m.maxTip+1 > h.limit && h.m.maxTip+1-h.limit > low {
		low = h.m.maxTip + 1 - h.limit
	}
	return low
}

func (h *verifC14H) disconnect() {
	b := h.m.pop()
	h.logf("disconnect height=%d", b.Height)
	for _, c := range h.clients {
		c.reorged = true
		if c.seen != nil && c.seen.Hash == b.Hash && c.seen.Height == b.Height {
			c.seen = nil
			c.lostHeight = b.Height
			if !c.dead {
				c.needNeg = true
			}
		}
	}
	for _, q := range h.reqList {
		if q.orphanBlk != nil && q.orphanBlk.Hash == b.Hash {
			q.orphanStale = true
			h.vc.Count("kf_c14_1_precondition_met", 1)
		}
	}
	h.call("DisconnectTip", func() error { return h.n.DisconnectTip(b.Height) })
	h.drain()
	h.nReorgBlocks++
	h.vc.Count("disconnects", 1)
	h.quiescent(fmt.Sprintf("after disconnect %d", b.Height))
}

func (h *verifC14H) pickHint(q *verifC14Req) uint32 {
	tip := h.m.tip()
	max := tip + 1
	if b, _ := h.truth(q); b != nil {
		max = b.Height
	}
	var hint uint32
	switch h.r.Intn(5) {
	case 0:
		hint = max
	case 1:
		hint = 1
	case 2:
		if max > 3 {
			hint = max - uint32(h.r.Intn(3))
		} else {
			hint = max
		}
	default:
		lo := uint32(1)
		if h.m.base > 3 {
			lo = h.m.base - 2
		}
		if max <= lo {
			hint = max
		} else {
			hint = lo + uint32(h.r.Intn(int(max-lo+1)))
		}
	}
	if hint == 0 {
		hint = 1
	}
	return hint
}

func (h *verifC14H) getReq(spend bool) *verifC14Req {
	if spend {
		g := h.u.Groups[h.u.SpendG[h.r.Intn(len(h.u.SpendG))]]
		return h.mkReq(g, g.Taproot || h.r.Bool(), nil)
	}
	g := h.u.Groups[h.u.ConfG[h.r.Intn(len(h.u.ConfG))]]
	if !h.r.Bool() {
		return h.mkReq(g, false, nil)
	}
	var members []*verifC14Tx
	for _, tx := range h.u.Txs {
		for _, gid := range tx.Groups {
			if gid == g.ID {
				members = append(members, tx)
			}
		}
	}
	return h.mkReq(g, true, members[h.r.Intn(len(members))])
}

// mkReq returns the (possibly already known) request watching group g: for a
// conf group by txid of member tx + script (byID) or by script alone; for a
// spend group by outpoint + script (byID) or by script alone.
func (h *verifC14H) mkReq(g *verifC14Group, byID bool, tx *verifC14Tx) *verifC14Req {
	q := &verifC14Req{IsSpend: g.Spend, Group: g.ID, ByID: byID}
	var err error
	switch {
	case g.Spend && byID:
		op := g.FundIn
		q.SpendR, err = chainntnfs.NewSpendRequest(&op, g.Script)
		q.Key = fmt.Sprintf("spend/outpoint/g%d/%s", g.ID, g.Kind)
	case g.Spend:
		q.SpendR, err = chainntnfs.NewSpendRequest(nil, g.Script)
		q.Key = fmt.Sprintf("spend/script/g%d/%s", g.ID, g.Kind)
	case byID:
		q.TxID = tx.ID
		hash := tx.Hash
		q.Conf, err = chainntnfs.NewConfRequest(&hash, g.Script)
		q.Key = fmt.Sprintf("conf/txid/t%d/g%d/%s", tx.ID, g.ID, g.Kind)
	default:
		q.Conf, err = chainntnfs.NewConfRequest(nil, g.Script)
		q.Key = fmt.Sprintf("conf/script/g%d/%s", g.ID, g.Kind)
	}
	if err != nil {
		h.t.Fatalf("verif C14: new request %s: %v", q.Key, err)
	}
	if old, ok := h.reqs[q.Key]; ok {
		return old
	}
	h.reqs[q.Key] = q
	h.reqList = append(h.reqList, q)
	return q
}

// registerBatch registers clients for SEVERAL DIFFERENT requests that one and
// the same transaction satisfies: a transaction of the universe paying >= 2
// watched scripts (conf: txid+script of that transaction and/or script-only
// requests, one per chosen output, independent numConfs / IncludeBlock per
// client) or spending >= 2 watched outpoints (spend: outpoint and/or
// script-only requests, one per chosen input). The transaction may or may not
// be on the active chain already (registration before / after inclusion).
func (h *verifC14H) registerBatch(spend bool) bool {
	var tx *verifC14Tx
	if h.u.NDynTx < 3 && h.r.Chance(1, 2) {
		h.u.NDynTx++
		tx = h.u.newBatch(h.r, spend)
		h.vc.Count("batch_txs_created_mid_history", 1)
	} else {
		var cands, fresh []*verifC14Tx
		for _, mt := range h.u.Multi {
			if (spend && mt.NSpendG < 2) || (!spend && mt.NConfG < 2) {
				continue
			}
			cands = append(cands, mt)
			if _, in := h.m.inChain[mt.ID]; !in {
				fresh = append(fresh, mt)
			}
		}
		if len(cands) == 0 {
			return false
		}
		// mostly a transaction that is still to be mined, and preferably
		// one that can be mined on the current tip.
		if len(fresh) > 0 && h.r.Chance(3, 4) {
			cands = fresh
			var free []*verifC14Tx
			el := map[int]bool{}
			for _, et := range h.m.eligible(h.u) {
				el[et.ID] = true
			}
			for _, ft := range fresh {
				if el[ft.ID] {
					free = append(free, ft)
				}
			}
			if len(free) > 0 {
				cands = free
			}
		}
		tx = cands[h.r.Intn(len(cands))]
	}
	var ids []int
	for _, gid := range tx.Groups {
		if h.u.Groups[gid].Spend == spend {
			ids = append(ids, gid)
		}
	}
	ids = verifC14PickGroups(h.r, ids, 2+h.r.Intn(len(ids)-1))
	h.logf("batch registration on t%d (%d inputs, %d outputs; group->input %v, conf group->output %v) groups=%v",
		tx.ID, len(tx.Msg.TxIn), len(tx.Msg.TxOut), tx.InIdx, tx.OutIdx, ids)
	h.vc.Count("batch_registrations", 1)
	if _, in := h.m.inChain[tx.ID]; !in && h.r.Chance(2, 3) {
		// registered, then broadcast: the backend will try to mine it.
		known := false
		for _, w := range h.wanted {
			known = known || w == tx
		}
		if !known {
			if len(h.wanted) >= 3 {
				h.wanted = h.wanted[1:]
			}
			h.wanted = append(h.wanted, tx)
		}
	}
	for _, gid := range ids {
		if h.failed {
			break
		}
		g := h.u.Groups[gid]
		var q *verifC14Req
		if spend {
			q = h.mkReq(g, g.Taproot || h.r.Bool(), nil)
		} else {
			q = h.mkReq(g, h.r.Bool(), tx)
		}
		h.register(q, h.r.Bool())
	}
	return true
}

// register adds a client for request q. immediate decides whether a returned
// historical dispatch is served at once or left pending.
func (h *verifC14H) register(q *verifC14Req, immediate bool) {
	h.registerOpt(q, immediate, nil)
}

// verifC14ConfOpt fixes the options of a conf registration (joinConf).
type verifC14ConfOpt struct {
	NumConfs uint32
	InclBlk  bool
}

func (h *verifC14H) registerOpt(q *verifC14Req, immediate bool, force *verifC14ConfOpt) {
	c := &verifC14Client{ID: len(h.clients), Req: q, regSeq: h.m.seq, lastLeft: -1}
	hint := h.pickHint(q)
	g := h.u.Groups[q.Group]
	if q.IsSpend {
		var op *wire.OutPoint
		if q.ByID {
			o := g.FundIn
			op = &o
		}
		var reg *chainntnfs.SpendRegistration
		h.call("RegisterSpend", func() error {
			var err error
			reg, err = h.n.RegisterSpend(op, g.Script, hint)
			return err
		})
		if reg == nil {
			return
		}
		c.sev = reg.Event
		h.vc.Count("spend_registrations", 1)
		if reg.HistoricalDispatch != nil {
			q.state = 1
			q.pendSpend = reg.HistoricalDispatch
			h.notePending(q)
			h.nHist++
		} else if q.state == 0 {
			q.state = 2
		}
		h.logf("regSpend c%d %s hint=%d dispatch=%v tip=%d", c.ID, q.Key, hint, reg.HistoricalDispatch != nil, h.m.tip())
	} else {
		c.NumConfs = 1 + uint32(h.r.Intn(int(h.limitCap())))
		if h.r.Chance(1, 3) {
			c.NumConfs = 1
		}
		c.InclBlk = h.r.Chance(1, 2)
		if force != nil {
			c.NumConfs, c.InclBlk = force.NumConfs, force.InclBlk
		}
		var txid *chainhash.Hash
		if q.ByID {
			hh := h.u.Txs[q.TxID].Hash
			txid = &hh
		}
		var opts []chainntnfs.NotifierOption
		if c.InclBlk {
			opts = append(opts, chainntnfs.WithIncludeBlock())
		}
		var reg *chainntnfs.ConfRegistration
		h.regNow = c
		h.call("RegisterConf", func() error {
			var err error
			reg, err = h.n.RegisterConf(txid, g.Script, c.NumConfs, hint, opts...)
			return err
		})
		if reg == nil {
			h.regNow = nil
			return
		}
		c.cev = reg.Event
		h.vc.Count("conf_registrations", 1)
		if c.InclBlk {
			h.vc.Count("conf_registrations_include_block", 1)
			q.optIncl = true
		} else {
			q.optNoIncl = true
			// coverage bookkeeping: by the model the notifier already
			// holds the details of this request (rescan complete, tx on
			// the active chain) while a client that does not want the
			// block registers.
			if b, _ := h.confTruth(q); b != nil && q.state == 2 && reg.HistoricalDispatch == nil {
				q.noBlkCacheReg = &verifC14Seen{Height: b.Height, Hash: b.Hash}
			}
		}
		if reg.HistoricalDispatch != nil {
			q.state = 1
			q.pendConf = reg.HistoricalDispatch
			h.notePending(q)
			h.nHist++
		} else if q.state == 0 {
			q.state = 2
		}
		h.logf("regConf c%d %s n=%d inclBlk=%v hint=%d dispatch=%v tip=%d", c.ID, q.Key, c.NumConfs, c.InclBlk, hint, reg.HistoricalDispatch != nil, h.m.tip())
	}
	h.clients = append(h.clients, c)
	if q.orphanBlk != nil && !q.orphanStale {
		// a client joined while the block is still active: the
		// notifier's per-client dispatch indexes the request now.
		q.orphanBlk = nil
	}
	h.drain()
	h.regNow = nil
	if immediate && q.state == 1 {
		h.deliver(q)
	}
}

// joinConf registers one more client for a conf request that already has a
// live client, with the OPPOSITE IncludeBlock option of one of them, and a
// confirmation count chosen relative to where the transaction stands now:
// already reached (served from the cached details at once), not yet reached
// (queued next to clients that are still waiting), or arbitrary.
func (h *verifC14H) joinConf(immediate bool) bool {
	var cands []*verifC14Req
	for _, q := range h.reqList {
		if !q.IsSpend && h.liveClients(q) > 0 {
			cands = append(cands, q)
		}
	}
	if len(cands) == 0 {
		return false
	}
	q := cands[h.r.Intn(len(cands))]
	var live []*verifC14Client
	for _, c := range h.clients {
		if c.Req == q && !c.dead {
			live = append(live, c)
		}
	}
	opt := &verifC14ConfOpt{InclBlk: !live[h.r.Intn(len(live))].InclBlk}
	lim := h.limitCap()
	opt.NumConfs = 1 + uint32(h.r.Intn(int(lim)))
	if b, _ := h.confTruth(q); b != nil {
		have := h.m.tip() - b.Height + 1
		switch h.r.Intn(3) {
		case 0:
			opt.NumConfs = 1
			if have > 1 && have <= lim && h.r.Bool() {
				opt.NumConfs = have
			}
		case 1:
			opt.NumConfs = have + 1 + uint32(h.r.Intn(2))
		}
		if opt.NumConfs > lim {
			opt.NumConfs = lim
		}
	}
	h.vc.Count("conf_join_registrations", 1)
	h.registerOpt(q, immediate, opt)
	return true
}

func (h *verifC14H) limitCap() uint32 {
	if h.limit > 6 {
		return 6
	}
	return h.limit
}

// deliver plays the backend's historical rescan for a pending request: it
// scans the model's active chain over the requested range, as of now, and
// hands the result to the notifier. Like the real backends it needs every
// height of the range to exist.
func (h *verifC14H) deliver(q *verifC14Req) bool {
	if q.state != 1 {
		return false
	}
	if q.IsSpend {
		d := q.pendSpend
		if d.EndHeight > h.m.tip() {
			return false
		}
		var det *chainntnfs.SpendDetail
		var detHeight uint32
		g := h.u.Groups[q.Group]
	scanS:
		for ht := d.EndHeight; ht >= d.StartHeight && ht > 0; ht-- {
			b := h.m.at(ht)
			if b == nil {
				continue
			}
			for _, mtx := range b.Blk.MsgBlock().Transactions {
				for i, in := range mtx.TxIn {
					if in.PreviousOutPoint != g.FundIn {
						continue
					}
					cp := mtx.Copy()
					hash := cp.TxHash()
					det = &chainntnfs.SpendDetail{
						SpentOutPoint:     &cp.TxIn[i].PreviousOutPoint,
						SpenderTxHash:     &hash,
						SpendingTx:        cp,
						SpenderInputIndex: uint32(i),
						SpendingHeight:    int32(ht),
					}
					detHeight = ht
					break scanS
				}
			}
		}
		h.logf("deliverSpend %s range=[%d,%d] found=%v tip=%d", q.Key, d.StartHeight, d.EndHeight, det != nil, h.m.tip())
		h.noteOrphan(q, det != nil, detHeight)
		h.callTol("UpdateSpendDetails", true, func() error { return h.n.UpdateSpendDetails(d.SpendRequest, det) })
		q.pendSpend = nil
	} else {
		d := q.pendConf
		if d.EndHeight > h.m.tip() {
			return false
		}
		var det *chainntnfs.TxConfirmation
		var detHeight uint32
		g := h.u.Groups[q.Group]
	scanC:
		for ht := d.EndHeight; ht >= d.StartHeight && ht > 0; ht-- {
			b := h.m.at(ht)
			if b == nil {
				continue
			}
			for i, mtx := range b.Blk.MsgBlock().Transactions {
				match := false
				for _, o := range mtx.TxOut {
					if string(o.PkScript) == string(g.Script) {
						match = true
					}
				}
				if match && q.ByID && mtx.TxHash() != h.u.Txs[q.TxID].Hash {
					match = false
				}
				if !match {
					continue
				}
				hash := b.Hash
				det = &chainntnfs.TxConfirmation{
					Tx:          mtx.Copy(),
					BlockHash:   &hash,
					BlockHeight: ht,
					TxIndex:     uint32(i),
					Block:       b.Blk.MsgBlock(),
				}
				detHeight = ht
				break scanC
			}
		}
		h.logf("deliverConf %s range=[%d,%d] found=%v tip=%d", q.Key, d.StartHeight, d.EndHeight, det != nil, h.m.tip())
		h.noteOrphan(q, det != nil, detHeight)
		h.inRescan = true
		h.callTol("UpdateConfDetails", true, func() error { return h.n.UpdateConfDetails(d.ConfRequest, det) })
		q.pendConf = nil
	}
	q.state = 2
	h.vc.Count("historical_delivered", 1)
	h.drain()
	h.inRescan = false
	return true
}

// notePending remembers the persisted hint at the moment a historical rescan
// is requested (precondition bookkeeping of known finding KF-C14-2).
func (h *verifC14H) notePending(q *verifC14Req) {
	var hint uint32
	var err error
	if q.IsSpend {
		hint, err = h.cache.QuerySpendHint(q.SpendR)
	} else {
		hint, err = h.cache.QueryConfirmHint(q.Conf)
	}
	q.hintAtPending, q.hintOkAtPend = 0, false
	if err != nil {
		return
	}
	bound := h.m.tip() + 1
	if b, _ := h.truth(q); b != nil {
		bound = b.Height
	}
	q.hintAtPending = hint
	q.hintOkAtPend = hint <= bound
}

// noteOrphan records the precondition of known finding KF-C14-1.
func (h *verifC14H) noteOrphan(q *verifC14Req, found bool, height uint32) {
	if !found || h.liveClients(q) != 0 || q.orphanStale {
		return
	}
	if b := h.m.at(height); b != nil {
		q.orphanBlk = &verifC14Seen{Height: b.Height, Hash: b.Hash}
		h.vc.Count("rescan_found_for_clientless_request", 1)
	}
}

func (h *verifC14H) liveClients(q *verifC14Req) int {
	n := 0
	for _, c := range h.clients {
		if c.Req == q && !c.dead {
			n++
		}
	}
	return n
}

func (h *verifC14H) pending() []*verifC14Req {
	var out []*verifC14Req
	for _, q := range h.reqList {
		if q.state == 1 {
			out = append(out, q)
		}
	}
	return out
}

func (h *verifC14H) cancel() {
	var live []*verifC14Client
	for _, c := range h.clients {
		if !c.dead {
			live = append(live, c)
		}
	}
	if len(live) == 0 {
		return
	}
	c := live[h.r.Intn(len(live))]
	h.logf("cancel c%d", c.ID)
	h.call("Cancel", func() error {
		if c.cev != nil {
			c.cev.Cancel()
		} else {
			c.sev.Cancel()
		}
		return nil
	})
	h.drainClient(c)
	c.dead = true
	h.vc.Count("cancels", 1)
}

// restart tears the notifier down and starts a new one on the same hint
// cache at the backend's then-current tip (the chain may have grown while the
// node was down, it is not reorganised while down). As lnd does on startup,
// every known request is registered again at once; the historical rescans of
// those registrations complete at arbitrary later points.
func (h *verifC14H) restart() {
	h.nRestart++
	h.n.TearDown()
	for _, c := range h.clients {
		c.dead = true
	}
	for _, q := range h.reqList {
		q.state, q.pendConf, q.pendSpend = 0, nil, nil
		q.optIncl, q.optNoIncl, q.noBlkCacheReg = false, false, nil
		if !q.orphanStale {
			q.orphanBlk = nil
		}
	}
	off := h.r.Intn(3)
	for i := 0; i < off; i++ {
		b := h.m.mine(h.r, h.pickBlockTxs())
		ids := []int{}
		for _, tx := range b.Txs {
			ids = append(ids, tx.ID)
		}
		h.logf("offline block height=%d txs=%v", b.Height, ids)
	}
	h.logf("restart at tip=%d", h.m.tip())
	h.n = chainntnfs.NewTxNotifier(h.m.tip(), h.limit, h.cache, h.cache)
	h.checkHints("after restart")
	for _, q := range h.reqList {
		if h.failed {
			return
		}
		h.register(q, h.r.Bool())
	}
	h.quiescent("after restart registrations")
}

func (h *verifC14H) midOp() {
	switch h.r.Intn(4) {
	case 0:
		if h.r.Chance(1, 4) && h.registerBatch(false) {
			// several requests on different outputs of one tx
		} else if !(h.r.Chance(1, 2) && h.joinConf(h.r.Bool())) {
			h.register(h.getReq(false), h.r.Bool())
		}
	case 1:
		if !(h.r.Chance(1, 4) && h.registerBatch(true)) {
			h.register(h.getReq(true), h.r.Bool())
		}
	case 2:
		if p := h.pending(); len(p) > 0 {
			h.deliver(p[h.r.Intn(len(p))])
		}
	default:
		h.cancel()
	}
}

// ---------------------------------------------------------------------------

type verifC14DB struct {
	kvdb.Backend
}

var verifC14LimitChoices = []uint32{3, 6, 144}

func verifC14OpenCache(t *testing.T, name string, batch bool) (*channeldb.HeightHintCache, func()) {
	// The hint cache is a real bbolt file; it is placed on tmpfs when
	// available because every hint commit fsyncs (durability across power
	// loss is not what C14 is about, and the fsyncs dominate the run time
	// on a shared disk). Falls back to the per-shard scratch directory.
	var dir string
	cleanup := func() {}
	if st, err := os.Stat("/dev/shm"); err == nil && st.IsDir() {
		if d, err := os.MkdirTemp("/dev/shm", "verif-c14-"+name+"-"); err == nil {
			dir = d
			cleanup = func() { os.RemoveAll(d) }
		}
	}
	if dir == "" {
		dir = os.Getenv("VERIF_SCRATCH")
		if dir == "" {
			dir = t.TempDir()
		}
		dir = filepath.Join(dir, name)
		if err := os.MkdirAll(dir, 0o755); err != nil {
			t.Fatalf("verif C14: %v", err)
		}
	}
	db, err := kvdb.GetBoltBackend(&kvdb.BoltBackendConfig{
		DBPath: dir, DBFileName: "hints.db", NoFreelistSync: true,
		DBTimeout: time.Minute,
	})
	if err != nil {
		t.Fatalf("verif C14: open bbolt: %v", err)
	}
	var backend kvdb.Backend = db
	if !batch {
		// Hide bbolt's Batch (10ms coalescing timer per commit) behind
		// the plain kvdb.Backend interface: kvdb.Batch then falls back
		// to one ordinary Update transaction per commit.
		backend = &verifC14DB{db}
	}
	cache, err := channeldb.NewHeightHintCache(channeldb.CacheConfig{}, backend)
	if err != nil {
		t.Fatalf("verif C14: hint cache: %v", err)
	}
	return cache, func() { db.Close(); cleanup() }
}

func (h *verifC14H) seqOp() {
	r := h.r
	{
		x := r.Intn(100)
		switch {
		case x < 40:
			var mid func()
			if r.Chance(1, 6) {
				mid = h.midOp
			}
			h.connect(mid)
		case x < 54:
			low := h.lowestDisconnectable()
			tip := h.m.tip()
			if tip < low {
				h.connect(nil)
				break
			}
			maxd := int(tip - low + 1)
			d := 1 + r.Intn(maxd)
			if r.Chance(1, 2) && maxd > 2 {
				d = 1 + r.Intn(2)
			}
			if d > h.maxDepth {
				h.maxDepth = d
			}
			if uint32(d) == h.limit {
				h.deepest = true
			}
			for k := 0; k < d && !h.failed; k++ {
				h.disconnect()
			}
			// usually the new branch follows immediately.
			if r.Chance(3, 4) {
				nb := d + r.Intn(2)
				for k := 0; k < nb && !h.failed; k++ {
					h.connect(nil)
				}
			}
		case x < 68:
			if r.Chance(1, 4) && h.registerBatch(false) {
				// several requests on different outputs of one tx
			} else if !(r.Chance(1, 2) && h.joinConf(r.Bool())) {
				h.register(h.getReq(false), r.Bool())
			}
			h.quiescent("after RegisterConf")
		case x < 80:
			if !(r.Chance(1, 4) && h.registerBatch(true)) {
				h.register(h.getReq(true), r.Bool())
			}
			h.quiescent("after RegisterSpend")
		case x < 90:
			if p := h.pending(); len(p) > 0 {
				if h.deliver(p[r.Intn(len(p))]) {
					h.quiescent("after historical dispatch")
				}
			} else {
				h.connect(nil)
			}
		case x < 96:
			h.cancel()
			h.quiescent("after cancel")
		default:
			if r.Chance(1, 3) {
				h.restart()
			} else {
				h.connect(nil)
			}
		}
	}
}

type verifC14Input struct {
	Limit  uint32 `json:"limit"`
	Start  uint32 `json:"start"`
	Pre    int    `json:"pre"`
	Ops    int    `json:"ops"`
	NConf  int    `json:"conf_groups"`
	NSpend int    `json:"spend_groups"`
	NTx    int    `json:"txs"`
	NMulti int    `json:"multi_txs"`
	Style  int    `json:"mining_style"`
}

func verifC14Setup(t *testing.T, vc *verifCtx, i int, cache *channeldb.HeightHintCache,
	minOps, spanOps int) (*verifC14H, verifC14Input) {

	r := vc.Rng(i)
	h := &verifC14H{t: t, vc: vc, r: r, cache: cache, reqs: map[string]*verifC14Req{}}
	h.limit = verifC14LimitChoices[r.Intn(len(verifC14LimitChoices))]
	h.u = verifC14NewUniverse(r)
	h.style = r.Intn(3)
	start := uint32(150 + r.Intn(400))
	if r.Chance(1, 10) {
		start = uint32(2 + r.Intn(10))
	}
	pre := r.Intn(6)
	if uint32(pre) >= start {
		pre = int(start) - 1
	}
	nops := minOps + r.Intn(spanOps)
	in := verifC14Input{Limit: h.limit, Start: start, Pre: pre, Ops: nops,
		NConf: len(h.u.ConfG), NSpend: len(h.u.SpendG), NTx: len(h.u.Txs),
		NMulti: len(h.u.Multi), Style: h.style}
	vc.Case(i, in)

	h.m = &verifC14Model{base: start - uint32(pre), inChain: map[int]*verifC14Block{},
		groupIn: map[int]*verifC14Tx{}, prev: verifC14RandHash(r)}
	// pre-history: blocks that exist before the notifier starts.
	h.m.mine(r, nil)
	for k := 0; k < pre; k++ {
		b := h.m.mine(r, h.pickBlockTxs())
		ids := []int{}
		for _, tx := range b.Txs {
			ids = append(ids, tx.ID)
		}
		h.logf("pre-history block height=%d txs=%v", b.Height, ids)
	}
	h.n = chainntnfs.NewTxNotifier(h.m.tip(), h.limit, cache, cache)
	h.logf("notifier started at %d limit=%d", h.m.tip(), h.limit)

	// one early registration so that the history is never empty.
	h.register(h.getReq(r.Bool()), r.Bool())
	return h, in
}

// windDown completes every outstanding rescan, then connects a last block.
func (h *verifC14H) windDown() {
	for guard := 0; guard < 200 && !h.failed; guard++ {
		p := h.pending()
		if len(p) == 0 {
			break
		}
		progressed := false
		for _, q := range p {
			if h.deliver(q) {
				progressed = true
			}
		}
		if !progressed {
			h.connect(nil)
		}
	}
	if !h.failed {
		h.quiescent("after final rescans")
		h.connect(nil)
	}
}

func (h *verifC14H) finish(i int, in verifC14Input) {
	vc := h.vc
	h.n.TearDown()
	if h.nConfirmed+h.nSpent > 0 {
		vc.Count("histories_with_notification", 1)
	}
	if h.nNeg+h.nReorgEv > 0 {
		vc.Count("histories_with_reorg_notice", 1)
	}
	if h.deepest {
		vc.Count("histories_with_limit_depth_reorg", 1)
	}
	if h.nRestart > 0 {
		vc.Count("histories_with_restart", 1)
	}
	if h.nConfirmed+h.nSpent > 0 && h.nReorgBlocks > 0 {
		vc.Sig(fmt.Sprintf("L%d|d%d|c%d|s%d|n%d|r%d|h%d|rs%d", h.limit, verifC14Bucket(h.maxDepth),
			verifC14Bucket(h.nConfirmed), verifC14Bucket(h.nSpent), verifC14Bucket(h.nNeg),
			verifC14Bucket(h.nReorgEv), verifC14Bucket(h.nHist), h.nRestart))
	}
	if i%97 == 0 {
		vc.Sample(map[string]any{"input": in, "ops": h.log})
	}
	if vc.Only >= 0 {
		for _, l := range h.log {
			h.t.Log(l)
		}
	}
	vc.CaseDone(i)
}

func verifC14RunCase(t *testing.T, vc *verifCtx, i int, cache *channeldb.HeightHintCache) {
	h, in := verifC14Setup(t, vc, i, cache, 10, 31)
	for op := 0; op < in.Ops && !h.failed; op++ {
		h.seqOp()
	}
	h.windDown()
	h.finish(i, in)
}

// ---------------------------------------------------------------------------
// Concurrent slice (-race): in the concurrent phases the backend goroutine
// connects blocks (ConnectTip/NotifyHeight outside the harness lock) while
// other goroutines register, cancel and complete historical rescans and a
// consumer goroutine keeps draining every client. The chain only grows inside
// a concurrent phase; reorgs happen in the sequential interludes between them.
// The same trace automaton is used: with a growing chain every soundness
// clause is interleaving-independent (the model tip is advanced before the
// notifier is told), completeness and hints are evaluated at the quiescent
// end of each phase.

func (h *verifC14H) concurrentPhase() {
	var wg sync.WaitGroup
	stop := make(chan struct{})
	nblocks := 2 + h.r.Intn(4)
	nworkers := 2 + h.r.Intn(2)
	opsPer := 1 + h.r.Intn(3)
	h.logf("concurrent phase: %d blocks, %d client goroutines x %d ops", nblocks, nworkers, opsPer)

	// consumer
	consumerDone := make(chan struct{})
	go func() {
		defer close(consumerDone)
		for {
			select {
			case <-stop:
				return
			default:
			}
			h.mu.Lock()
			h.drain()
			h.mu.Unlock()
			time.Sleep(20 * time.Microsecond)
		}
	}()

	// backend
	wg.Add(1)
	go func() {
		defer wg.Done()
		for k := 0; k < nblocks; k++ {
			h.mu.Lock()
			if h.failed {
				h.mu.Unlock()
				return
			}
			b := h.m.mine(h.r, h.pickBlockTxs())
			ids := []int{}
			for _, tx := range b.Txs {
				ids = append(ids, tx.ID)
			}
			h.logf("[backend] connect height=%d txs=%v", b.Height, ids)
			h.noteMulti(b)
			h.mu.Unlock()
			if err := h.n.ConnectTip(b.Blk, b.Height); err != nil {
				h.mu.Lock()
				h.vc.Diag("api_error", "ConnectTip: "+err.Error())
				h.failed = true
				h.mu.Unlock()
				return
			}
			if err := h.n.NotifyHeight(b.Height); err != nil {
				h.mu.Lock()
				h.vc.Diag("api_error", "NotifyHeight: "+err.Error())
				h.failed = true
				h.mu.Unlock()
				return
			}
			h.vc.Count("concurrent_connects", 1)
		}
	}()

	// client-side goroutines
	for w := 0; w < nworkers; w++ {
		wg.Add(1)
		go func() {
			defer wg.Done()
			for k := 0; k < opsPer; k++ {
				h.mu.Lock()
				if !h.failed {
					h.midOp()
					h.vc.Count("concurrent_client_ops", 1)
				}
				h.mu.Unlock()
				time.Sleep(10 * time.Microsecond)
			}
		}()
	}
	wg.Wait()
	close(stop)
	<-consumerDone
	h.drain()
	for _, q := range h.pending() {
		if h.failed {
			break
		}
		h.deliver(q)
	}
	if !h.failed {
		h.quiescent("after concurrent phase")
	}
}

func verifC14RunConcurrentCase(t *testing.T, vc *verifCtx, i int, cache *channeldb.HeightHintCache) {
	h, in := verifC14Setup(t, vc, i, cache, 2, 4)
	for ph := 0; ph < in.Ops && !h.failed; ph++ {
		h.concurrentPhase()
		// sequential interlude (reorgs, restarts, ...).
		for k := h.r.Intn(4); k > 0 && !h.failed; k-- {
			h.seqOp()
		}
	}
	h.windDown()
	vc.Count("concurrent_histories", 1)
	h.finish(i, in)
}

func TestVerifC14Concurrent(t *testing.T) {
	vc := verifStart(t, "C14", "concurrent")
	defer vc.Finish()
	// unwrapped bbolt backend: the hint cache's real Batch path.
	cache, closeDB := verifC14OpenCache(t, "conc", true)
	defer closeDB()
	total := vc.N(160, 12000)
	for i := 0; i < total; i++ {
		if !vc.Mine(i) {
			continue
		}
		verifC14RunConcurrentCase(t, vc, i, cache)
	}
	verifC14PanicCheck(t, vc)
}

func verifC14Bucket(n int) int {
	switch {
	case n <= 2:
		return n
	case n <= 5:
		return 3
	default:
		return 4
	}
}

func TestVerifC14(t *testing.T) {
	vc := verifStart(t, "C14", "histories")
	defer vc.Finish()
	cache, closeDB := verifC14OpenCache(t, "seq", false)
	defer closeDB()
	batchCache, closeBatch := verifC14OpenCache(t, "seqbatch", true)
	defer closeBatch()

	total := vc.N(6000, 200000)
	for i := 0; i < total; i++ {
		if !vc.Mine(i) {
			continue
		}
		// every 64th history runs on the unwrapped bbolt backend (real
		// Batch path of the hint cache).
		if i%64 == 63 {
			verifC14RunCase(t, vc, i, batchCache)
		} else {
			verifC14RunCase(t, vc, i, cache)
		}
	}
	verifC14PanicCheck(t, vc)
}
