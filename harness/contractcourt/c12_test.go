package contractcourt

// C12 monitor.
//
// Part 1 ("arb"): a real ChannelArbitrator on a real bolt arbitrator log is
// driven with generated HTLC sets, block heights, a close trigger and a
// confirmed commitment. ForceCloseChan calls, ResolutionMsgs delivered to the
// switch, final HTLC outcomes and the resolvers the arbitrator launched are
// compared with a dispositions table written from the property statement.
//
// Part 2 ("cells"): the pure classifier constructChainActions is enumerated
// over all multisets of up to three HTLC cells (direction x presence pattern x
// dust per commitment x preimage knowledge x past/before cutoff) for every
// commitment that can confirm.

import (
	"fmt"
	"os"
	"sort"
	"strings"
	"testing"
	"time"

	"github.com/btcsuite/btcd/wire/v2"
	"github.com/lightningnetwork/lnd/channeldb"
	"github.com/lightningnetwork/lnd/clock"
	"github.com/lightningnetwork/lnd/fn/v2"
	"github.com/lightningnetwork/lnd/lntypes"
	"github.com/lightningnetwork/lnd/lnwire"
)

type verifC12Case struct {
	Start       int32         `json:"start"`
	Blocks      int           `json:"blocks"`
	OutDelta    uint32        `json:"outDelta"`
	InDelta     uint32        `json:"inDelta"`
	GraceSec    int           `json:"graceSec"`
	Advance     []int         `json:"advanceSec"`
	WithPending bool          `json:"withPending"`
	InitialSets bool          `json:"initialSets"`
	Anchors     bool          `json:"anchors"`
	Trigger     string        `json:"trigger"` // chain | user | conf
	UserAt      int           `json:"userAt"`
	Conf        string        `json:"conf"` // commitment that confirms
	ConfAfter   string        `json:"confAfterBroadcast"`
	ExtraBlocks int           `json:"extraBlocks"`
	WithCommit  bool          `json:"withCommit"`
	WithAnchor  bool          `json:"withAnchor"`
	Htlcs       []verifCCHtlc `json:"htlcs"`

	// NoInvoicesErr: a registry that holds no invoice at all answers
	// ErrNoInvoicesCreated instead of ErrInvoiceNotFound.
	NoInvoicesErr bool `json:"noInvoicesErr,omitempty"`
}

// verifC12Src is one class of the preimage-knowledge SOURCE: what the witness
// cache and the invoice registry hold for the HTLC's payment hash. The
// reference rule is the statement's "whose preimage it knows": the node knows
// the preimage iff the cache has it or the registry's invoice carries it - for
// open, accepted and settled invoices alike (a settled invoice: we released the
// preimage but the peer never removed the HTLC). Only source a CANCELED invoice
// that still carries the preimage: debatable, neutral.
type verifC12Src struct {
	name  string
	cache bool
	inv   string
	pre   bool
}

var (
	// sources of a KNOWN preimage (weights by repetition)
	verifC12KnownSrcs = []verifC12Src{
		{"cache", true, "none", false},
		{"cache", true, "none", false},
		{"cache", true, "none", false},
		{"reg_open", false, "open", true},
		{"reg_accepted", false, "accepted", true},
		{"reg_settled", false, "settled", true},
		{"reg_settled", false, "settled", true},
		{"both_open", true, "open", true},
		{"both_settled", true, "settled", true},
		{"both_accepted_nopre", true, "accepted", false},
		{"both_canceled", true, "canceled", true},
		// neutral class
		{"reg_canceled_pre", false, "canceled", true},
	}
	// sources that leave the preimage UNKNOWN
	verifC12UnknownSrcs = []verifC12Src{
		{"none", false, "none", false},
		{"none", false, "none", false},
		{"none", false, "none", false},
		{"none", false, "none", false},
		{"reg_accepted_nopre", false, "accepted", false},
		{"reg_accepted_nopre", false, "accepted", false},
		{"reg_open_nopre", false, "open", false},
		{"reg_canceled_nopre", false, "canceled", false},
	}
)

// verifC12AssignSource refines the known/unknown draw of an HTLC into the
// source of the knowledge. Offered HTLCs (we pay one of our own invoices
// through a circular route) get a registry source less often.
func verifC12AssignSource(r *verifRng, h *verifCCHtlc) {
	var src verifC12Src
	switch {
	case h.PreKnown && (h.Incoming || r.Chance(1, 3)):
		src = verifC12KnownSrcs[r.Intn(len(verifC12KnownSrcs))]
	case h.PreKnown:
		src = verifC12KnownSrcs[0]
	case h.Incoming || r.Chance(1, 4):
		src = verifC12UnknownSrcs[r.Intn(len(verifC12UnknownSrcs))]
	default:
		src = verifC12UnknownSrcs[0]
	}
	h.PreSrc, h.PreCache, h.InvState, h.InvPre = src.name, src.cache,
		src.inv, src.pre
	h.PreInvoice = !src.cache && src.inv != "none"

	// Reference verdict, from the statement.
	carried := src.inv != "none" && src.pre
	h.PreKnown = src.cache || (carried && src.inv != "canceled")
	h.PreNeutral = !src.cache && carried && src.inv == "canceled"
}

var verifC12Deltas = []uint32{1, 5, 10, 40}

func verifC12Gen(r *verifRng) verifC12Case {
	c := verifC12Case{
		Start:       int32(1000 + r.Intn(50)),
		Blocks:      3 + r.Intn(6),
		OutDelta:    verifC12Deltas[r.Intn(4)],
		InDelta:     verifC12Deltas[r.Intn(4)],
		WithPending: r.Chance(1, 2),
		InitialSets: r.Chance(1, 2),
		Anchors:     r.Chance(1, 2),
		WithCommit:  r.Chance(2, 3),
		WithAnchor:  r.Chance(1, 2),
		ExtraBlocks: r.Intn(3),
	}
	if r.Chance(1, 2) {
		c.InDelta = c.OutDelta
	}
	if r.Chance(1, 2) {
		c.GraceSec = 3600
	}
	for i := 0; i <= c.Blocks; i++ {
		c.Advance = append(c.Advance,
			[]int{0, 0, 1800, 3599, 3601, 7200}[r.Intn(6)])
	}

	n := []int{0, 1, 1, 2, 2, 3, 3, 4, 5, 6}[r.Intn(10)]
	var nOut, nIn uint64
	for i := 0; i < n; i++ {
		h := verifCCHtlc{Incoming: r.Bool()}
		if h.Incoming {
			h.Idx = nIn
			nIn++
		} else {
			h.Idx = nOut
			nOut++
		}
		verifCCPresence(r, &h, c.WithPending)
		h.DustL = r.Chance(1, 3)
		h.DustR = h.DustL
		if r.Chance(1, 3) {
			h.DustR = r.Bool()
		}
		h.DustP = h.DustR
		if r.Chance(1, 10) {
			h.DustP = r.Bool()
		}
		h.AmtMsat = uint64(10000+r.Intn(90000)) * 1000
		h.PreKnown = r.Bool()
		if h.Incoming && h.PreKnown {
			h.PreInvoice = r.Chance(1, 3)
		}
		h.Forwarded = r.Chance(2, 3)
		delta := c.OutDelta
		if h.Incoming {
			delta = c.InDelta
		}
		// cutoff (= expiry - delta) at one of the delivered heights
		// +-{0,1,2}; a few far in the future.
		j := r.Intn(c.Blocks + 3)
		off := r.Intn(5) - 2
		h.Expiry = uint32(int(c.Start)+j+off) + delta
		if r.Chance(1, 6) {
			h.Expiry += 500
		}
		c.Htlcs = append(c.Htlcs, h)
	}

	switch r.Intn(10) {
	case 0, 1, 2, 3, 4:
		c.Trigger = "chain"
	case 5, 6:
		c.Trigger = "user"
		c.UserAt = 1 + r.Intn(c.Blocks)
	default:
		c.Trigger = "conf"
	}
	confs := []string{"remote", "remote", "remote", "local", "breach"}
	if c.WithPending {
		confs = append(confs, "pending", "pending")
	}
	if n == 0 {
		confs = append(confs, "coop", "coop")
	}
	c.Conf = confs[r.Intn(len(confs))]
	after := []string{"local", "local", "local", "remote", "remote",
		"breach"}
	if c.WithPending {
		after = append(after, "pending", "pending")
	}
	c.ConfAfter = after[r.Intn(len(after))]

	// Knowledge sources: drawn last from a forked stream, so that every
	// other dimension of the case list is independent of this refinement.
	sr := r.Fork("c12-preimage-source")
	for i := range c.Htlcs {
		verifC12AssignSource(sr, &c.Htlcs[i])
	}
	c.NoInvoicesErr = sr.Bool()

	return c
}

type verifC12Obs struct {
	ForceCloses []int32            `json:"forceCloses"`
	Switch      []verifCCSwitchMsg `json:"switch"`
	Finals      []verifCCFinal     `json:"finals"`
	Resolvers   []string           `json:"resolvers"`
	K           string             `json:"K"`
	Broadcast   bool               `json:"broadcast"`
	Via         string             `json:"via"`
	ConfHeight  int32              `json:"confHeight"`
	State       string             `json:"state"`
}

// verifC12Eligible evaluates the statement's go-on-chain rule for the HTLCs on
// our commitment at height h. must: an HTLC obliges us to have decided to
// force close. unclaimableOnly: some HTLC is past its cutoff and every such
// HTLC is a received one we cannot claim. neutral: an HTLC past its cutoff
// about which the statement says nothing (own payment inside the grace
// period, offered HTLC that only exists on the peer's commitments).
func verifC12Eligible(c *verifC12Case, h int32, uptimeSec int) (must bool,
	unclaimableOnly bool, anyPast bool, why string) {

	must, unclaimableOnly, anyPast, why, _ = verifC12EligibleSrc(
		c, h, uptimeSec,
	)

	return must, unclaimableOnly, anyPast, why
}

// verifC12EligibleSrc additionally reports onlySrc: the knowledge source class
// when every HTLC that obliges us to close is a received one of that single
// class ("" otherwise) - the obligation then rests on that source alone.
func verifC12EligibleSrc(c *verifC12Case, h int32, uptimeSec int) (must bool,
	unclaimableOnly bool, anyPast bool, why string, onlySrc string) {

	neutral := false
	unclaimable := 0
	srcs := map[string]bool{}
	for i := range c.Htlcs {
		ht := &c.Htlcs[i]
		delta := c.OutDelta
		if ht.Incoming {
			delta = c.InDelta
		}
		if int64(h) < int64(ht.Expiry)-int64(delta) {
			continue
		}
		anyPast = true
		switch {
		case ht.Incoming && ht.PreNeutral:
			// Only a canceled invoice carries the preimage: the
			// statement does not say whether that counts as
			// knowing it.
			neutral = true

		case ht.Incoming && !ht.PreKnown:
			unclaimable++

		case ht.Incoming:
			// Received HTLCs are on our commitment by protocol.
			must = true
			why = ht.name()
			srcs["in:"+ht.PreSrc] = true

		case !ht.OnL:
			neutral = true

		case ht.Forwarded:
			must = true
			why = ht.name()
			srcs["out"] = true

		case uptimeSec > c.GraceSec:
			must = true
			why = ht.name()
			srcs["out"] = true

		default:
			neutral = true
		}
	}
	unclaimableOnly = unclaimable > 0 && !must && !neutral
	if must && len(srcs) == 1 {
		for s := range srcs {
			onlySrc = s
		}
	}

	return must, unclaimableOnly, anyPast, why, onlySrc
}

func verifC12Run(t *testing.T, vc *verifCtx, dir string, i int,
	c *verifC12Case) {

	kv, err := verifCCOpenKV(verifCCDBPath(dir, i))
	if err != nil {
		t.Fatalf("open db: %v", err)
	}
	defer os.Remove(verifCCDBPath(dir, i))
	defer kv.Close()

	w := verifCCNewWorld(kv, c.Htlcs, c.WithPending, c.Start)
	w.anchors = c.Anchors
	w.noInvoicesCreated = c.NoInvoicesErr
	for hi := range c.Htlcs {
		ht := &c.Htlcs[hi]
		if ht.Incoming {
			vc.Count("src_"+ht.PreSrc, 1)
		} else if ht.InvState != "none" {
			vc.Count("src_offered_registry", 1)
		}
	}
	opts := verifCCArbOpts{
		OutDelta: c.OutDelta, InDelta: c.InDelta,
		Grace:       time.Duration(c.GraceSec) * time.Second,
		InitialSets: c.InitialSets,
	}
	p, err := verifCCStart(t, w, 0, opts)
	if err != nil {
		t.Fatalf("start: %v", err)
	}
	defer p.stop()

	witness := func(obs *verifC12Obs) any {
		return map[string]any{"case": c, "observed": obs}
	}

	uptime := 0
	userAsked := false
	closedAt := func() int { return len(w.forceCloseHeights()) }

	// Deadline rule, evaluated after the arbitrator has processed a
	// height. checkNow is false for heights at which the arbitrator did
	// not yet hold the HTLC sets.
	mustSeen := false
	deadline := func(h int32, checkNow bool) {
		if !checkNow || userAsked {
			return
		}
		must, unclaimOnly, anyPast, why, onlySrc := verifC12EligibleSrc(
			c, h, uptime,
		)
		called := closedAt() > 0
		vc.Count("oracle_deadline_evals", 1)
		if must && !mustSeen {
			mustSeen = true
			if strings.HasPrefix(onlySrc, "in:") {
				// The obligation rests on received HTLCs of one
				// knowledge source only.
				vc.Count("deadline_must_only_src_"+onlySrc[3:], 1)
			}
			if !called {
				obs := &verifC12Obs{
					ForceCloses: w.forceCloseHeights(),
				}
				verifCCViolation(vc, "deadline_must_close",
					"not-closed-at-cutoff",
					fmt.Sprintf("height %d reached the "+
						"broadcast cutoff of %s but "+
						"ForceCloseChan was not called",
						h, why), witness(obs))
			}
		}
		if called && !mustSeen {
			obs := &verifC12Obs{ForceCloses: w.forceCloseHeights()}
			switch {
			case unclaimOnly:
				verifCCViolation(vc, "deadline_no_unclaimable_close",
					"closed-only-for-unclaimable-received",
					fmt.Sprintf("ForceCloseChan called at "+
						"height %d although the only "+
						"HTLCs past their cutoff are "+
						"received ones without a "+
						"known preimage", h),
					witness(obs))
			case !anyPast:
				vc.Diag("closed_without_cause", fmt.Sprintf(
					"case %d: force close at %d with no "+
						"HTLC past its cutoff", i, h))
			}
			// Later heights are judged as already closed.
			mustSeen = true
		}
	}

	deadline(c.Start, c.InitialSets)

	broadcast := false
	via := "conf"
	cause := "conf"
	var (
		bHeight int32
		bUptime int
	)
	for step := 1; step <= c.Blocks && !broadcast; step++ {
		w.clock.SetTime(w.clock.Now().Add(
			time.Duration(c.Advance[step]) * time.Second))
		uptime += c.Advance[step]
		if !w.tick(p) {
			t.Fatalf("case %d: arbitrator stopped listening", i)
		}
		deadline(w.Height(), true)
		if closedAt() > 0 {
			broadcast = true
			via = "chain"
			break
		}
		if c.Trigger == "user" && step == c.UserAt {
			userAsked = true
			ok, ferr := p.userForceClose()
			if !ok || ferr != nil {
				t.Fatalf("case %d: user force close: ok=%v "+
					"err=%v", i, ok, ferr)
			}
			vc.Count("oracle_user_close_evals", 1)
			if closedAt() == 0 {
				verifCCViolation(vc, "user_close",
					"user-request-no-forceclose",
					"user force close request did not "+
						"call ForceCloseChan",
					witness(&verifC12Obs{}))
			}
			broadcast = true
			via = "user"
			cause = "user"
			bHeight = w.Height()
			bUptime = uptime
			break
		}
		if c.Trigger == "conf" && step >= (c.Blocks+1)/2 {
			break
		}
	}

	if !broadcast && closedAt() > 0 {
		// Force close decided at the start height.
		broadcast = true
		via = "chain"
	}
	if via == "chain" {
		bHeight = w.forceCloseHeights()[0]
		// uptime at the broadcast height
		up := 0
		for st := 1; st <= int(bHeight-c.Start); st++ {
			up += c.Advance[st]
		}
		bUptime = up
		if must, _, _, _ := verifC12Eligible(c, bHeight, up); must {
			cause = "local"
		} else {
			cause = "dangling"
		}
	}
	// bview: what the HTLC looked like in the view the arbitrator used
	// when it decided to broadcast (our commitment + dangling remote).
	bview := func(h *verifCCHtlc) (string, bool) {
		if !broadcast {
			// No broadcast-time view. Still fingerprint the one
			// case in which lnd's own classification depends on
			// map iteration order: the HTLC is carried by both
			// remote commitments with different dust-ness.
			if !h.OnL && c.WithPending && h.OnR && h.OnP &&
				h.DustR != h.DustP {

				return "none-remote-mixed", false
			}

			return "none", false
		}
		// past: the HTLC itself was due at the broadcast height.
		past := int64(bHeight) >= int64(h.Expiry)-int64(c.OutDelta) &&
			(h.Forwarded || bUptime > c.GraceSec)
		switch {
		case h.OnL && h.DustL:
			return "local-dust", past
		case h.OnL:
			return "local-output", past
		}
		dr := h.OnR && h.DustR
		dp := c.WithPending && h.OnP && h.DustP
		or := h.OnR && !h.DustR
		op := c.WithPending && h.OnP && !h.DustP
		switch {
		case (dr || dp) && (or || op):
			return "remote-only-mixed", past
		case dr || dp:
			return "remote-only-dust", past
		}

		return "remote-only-output", past
	}

	k := c.Conf
	if broadcast {
		k = c.ConfAfter
		for e := 0; e < c.ExtraBlocks; e++ {
			if !w.tick(p) {
				t.Fatalf("case %d: arbitrator stopped", i)
			}
		}
	}
	if k == "coop" && len(c.Htlcs) > 0 {
		k = "remote"
	}

	// The commitment confirms in the next block.
	w.mu.Lock()
	w.height++
	w.mu.Unlock()
	w.setPhase("closed")
	w.confirm(k, w.Height(), c.WithCommit, c.WithAnchor)
	p.sendClose(k)
	p.block(w.Height())
	w.quiesce(t, p)

	obs := &verifC12Obs{
		ForceCloses: w.forceCloseHeights(), K: k, Broadcast: broadcast,
		Via: via, ConfHeight: w.Height(),
	}
	w.mu.Lock()
	obs.Switch = append(obs.Switch, w.switchMsgs...)
	obs.Finals = append(obs.Finals, w.finals...)
	w.mu.Unlock()
	obs.State = verifCCStateString(p.arb.log.(*boltArbitratorLog))

	type resInfo struct{ name, dir string }
	byOp := map[wire.OutPoint][]resInfo{}
	hasBreach := false
	p.arb.activeResolversLock.RLock()
	for _, r := range p.arb.activeResolvers {
		name, d, op := verifCCResolverName(r)
		obs.Resolvers = append(obs.Resolvers, name)
		if name == "breach" {
			hasBreach = true
		}
		if op != nil {
			byOp[*op] = append(byOp[*op], resInfo{name, d})
		}
	}
	p.arb.activeResolversLock.RUnlock()
	sort.Strings(obs.Resolvers)

	tag := fmt.Sprintf("via=%s:K=%s", via, k)
	fails := map[uint64]int{}
	failsAfter := map[uint64]int{}
	settles := map[uint64]int{}
	for _, m := range obs.Switch {
		if m.Settle {
			settles[m.Idx]++
			continue
		}
		fails[m.Idx]++
		if m.Phase == "closed" {
			failsAfter[m.Idx]++
		}
	}
	fbKey := func(h *verifCCHtlc, onK string) string {
		bv, past := bview(h)
		// Fingerprint only: "known" here is "some source carries the
		// preimage" (incl. the neutral canceled-invoice class), which
		// is what separates the mechanisms of the known findings.
		return fmt.Sprintf("failback-count=%d:onK=%s:bview=%s:cause=%s:"+
			"due=%v:known=%v:%s", verifMin(fails[h.Idx], 2), onK,
			bv, cause, past, h.PreKnown || h.PreNeutral, tag)
	}
	finalFail := map[uint64]int{}
	finalSettle := map[uint64]int{}
	for _, f := range obs.Finals {
		if f.Settled {
			finalSettle[f.Idx]++
		} else {
			finalFail[f.Idx]++
		}
	}

	var sig []string
	commitHash := verifCCCommitHash(k)
	expectedOps := map[wire.OutPoint]bool{}

	switch k {
	case "coop":
		vc.Count("oracle_coop_evals", 1)
		if len(obs.Resolvers) > 0 || len(obs.Switch) > 0 {
			vc.Diag("coop_activity", fmt.Sprintf("case %d: %v", i,
				obs))
		}

	case "breach":
		for pos := range c.Htlcs {
			h := &c.Htlcs[pos]
			if h.Incoming || !(h.OnR || (c.WithPending && h.OnP)) {
				continue
			}
			vc.Count("oracle_breach_failback_evals", 1)
			dustAny := (h.OnR && h.DustR) ||
				(c.WithPending && h.OnP && h.DustP)
			sig = append(sig, fmt.Sprintf("b%v", dustAny))
			if fails[h.Idx] != 1 {
				key := fmt.Sprintf("breach-failback-count=%d",
					verifMin(fails[h.Idx], 2))
				verifCCViolation(vc, "failback_exactly_once", key,
					fmt.Sprintf("breach: offered HTLC %s "+
						"failed back %d times (want 1)",
						h.name(), fails[h.Idx]),
					witness(obs))
			}
		}
		vc.Count("oracle_breach_resolver_evals", 1)
		if !hasBreach || len(byOp) > 0 {
			vc.Diag("breach_resolvers", fmt.Sprintf(
				"case %d: resolvers %v", i, obs.Resolvers))
		}

	default:
		for pos := range c.Htlcs {
			h := &c.Htlcs[pos]
			op := wire.OutPoint{
				Hash:  commitHash,
				Index: uint32(verifCCOutputIndex(c.Htlcs, k, pos)),
			}
			cls := "absent"
			if h.hasOutput(k) {
				cls = "output"
			} else if h.on(k) {
				cls = "dust"
			}
			d := "out"
			if h.Incoming {
				d = "in"
			}
			sig = append(sig, fmt.Sprintf("%s/%s/%v", d, cls,
				h.PreKnown))

			if cls == "output" {
				expectedOps[op] = true
				vc.Count("oracle_resolver_evals", 1)
				rs := byOp[op]
				good := len(rs) == 1 && rs[0].dir == d
				if !good {
					key := fmt.Sprintf("resolver-count=%d:"+
						"dir=%s:%s", verifMin(len(rs), 2),
						d, tag)
					verifCCViolation(vc, "one_resolver_per_output",
						key, fmt.Sprintf("HTLC %s has an "+
							"output on the confirmed %s "+
							"commitment but got "+
							"resolvers %v", h.name(), k,
							rs), witness(obs))
				}
			}

			if h.Incoming {
				if cls != "dust" {
					continue
				}
				vc.Count("oracle_received_dust_evals", 1)
				if finalFail[h.Idx] < 1 ||
					finalSettle[h.Idx] > 0 {

					key := fmt.Sprintf("received-dust-not-"+
						"closed-out:%s", tag)
					verifCCViolation(vc, "received_dust_closed_out",
						key, fmt.Sprintf("received dust "+
							"HTLC %s: final outcome "+
							"records fail=%d settle=%d",
							h.name(), finalFail[h.Idx],
							finalSettle[h.Idx]),
						witness(obs))
				} else if finalFail[h.Idx] > 1 {
					vc.Diag("received_dust_final_twice",
						fmt.Sprintf("case %d %s", i,
							h.name()))
				}

				continue
			}

			// Offered HTLCs: the upstream fail-back.
			switch cls {
			case "output":
				vc.Count("oracle_no_failback_evals", 1)
				if failsAfter[h.Idx] > 0 {
					key := fmt.Sprintf("failback-with-"+
						"output-on-confirmed:%s", tag)
					verifCCViolation(vc, "no_failback_with_output",
						key, fmt.Sprintf("offered HTLC %s "+
							"has an output on the "+
							"confirmed %s commitment "+
							"but was failed back after "+
							"the confirmation",
							h.name(), k), witness(obs))
				} else if fails[h.Idx] > 0 {
					vc.Diag("early_dust_failback_but_"+
						"output_on_confirmed",
						fmt.Sprintf("case %d: %s failed "+
							"back at broadcast time "+
							"(dust on ours) but has an "+
							"output on confirmed %s",
							i, h.name(), k))
				}

			case "dust":
				vc.Count("oracle_failback_evals", 1)
				if fails[h.Idx] != 1 {
					key := fbKey(h, "dust")
					verifCCViolation(vc, "failback_exactly_once",
						key, fmt.Sprintf("offered HTLC %s "+
							"is dust on the confirmed "+
							"%s commitment and was "+
							"failed back %d times "+
							"(want 1)", h.name(), k,
							fails[h.Idx]), witness(obs))
				}

			default:
				if h.PreNeutral {
					// Only a canceled invoice carries the
					// preimage: neither clause applies.
					vc.Count("neutral_canceled_invoice_offered_absent", 1)

					continue
				}
				if h.PreKnown {
					if h.InvState != "none" && !h.PreCache {
						vc.Count("known_not_failed_registry_only_evals", 1)
					}
					// "... unless its preimage is already
					// known": the forward was (or will be)
					// settled upstream with that preimage.
					vc.Count("oracle_known_not_failed_evals", 1)
					if fails[h.Idx] != 0 {
						verifCCViolation(vc, "no_failback_when_preimage_known",
							fbKey(h, "absent"),
							fmt.Sprintf("offered HTLC %s "+
								"exists only on a "+
								"non-confirmed commitment "+
								"(confirmed: %s) and its "+
								"preimage is known, yet "+
								"it was failed back %d "+
								"times", h.name(), k,
								fails[h.Idx]),
							witness(obs))
					}

					continue
				}
				vc.Count("oracle_failback_evals", 1)
				if fails[h.Idx] != 1 {
					key := fbKey(h, "absent")
					verifCCViolation(vc, "failback_exactly_once",
						key, fmt.Sprintf("offered HTLC %s "+
							"exists only on a "+
							"non-confirmed commitment "+
							"(confirmed: %s), preimage "+
							"unknown, failed back %d "+
							"times (want 1)", h.name(),
							k, fails[h.Idx]),
						witness(obs))
				}
			}
		}
		for op, rs := range byOp {
			if !expectedOps[op] {
				vc.Diag("resolver_without_output", fmt.Sprintf(
					"case %d: %v -> %v", i, op, rs))
			}
		}
	}
	for idx, n := range settles {
		vc.Diag("unexpected_settle", fmt.Sprintf("case %d idx %d n %d",
			i, idx, n))
	}

	sort.Strings(sig)
	vc.Sig(fmt.Sprintf("%s|%s|%s", via, k, strings.Join(sig, ",")))
	vc.Count("arb_cases", 1)
	if i%997 == 0 {
		vc.Sample(witness(obs))
	}
}

func verifMin(a, b int) int {
	if a < b {
		return a
	}

	return b
}

func (w *verifCCWorld) forceCloseHeights() []int32 {
	w.mu.Lock()
	defer w.mu.Unlock()

	return append([]int32(nil), w.forceCloses...)
}


// ---------------------------------------------------------------------------
// Part 2: exhaustive enumeration of the classifier cells
// ---------------------------------------------------------------------------

// verifC12Cells lists every HTLC cell the protocol allows.
func verifC12Cells(withPending bool) []verifCCHtlc {
	type pat struct{ l, r, p bool }
	var outPats, inPats []pat
	if withPending {
		outPats = []pat{{false, false, true}, {false, true, false},
			{false, true, true}, {true, true, true}}
		inPats = []pat{{true, false, false}, {true, false, true},
			{true, true, false}, {true, true, true}}
	} else {
		outPats = []pat{{false, true, false}, {true, true, false}}
		inPats = []pat{{true, false, false}, {true, true, false}}
	}
	var cells []verifCCHtlc
	add := func(incoming bool, pt pat) {
		for mask := 0; mask < 8; mask++ {
			dl, dr, dp := mask&1 != 0, mask&2 != 0, mask&4 != 0
			if (dl && !pt.l) || (dr && !pt.r) || (dp && !pt.p) {
				continue
			}
			for known := 0; known < 2; known++ {
				for past := 0; past < 2; past++ {
					h := verifCCHtlc{
						Incoming: incoming,
						OnL:      pt.l, OnR: pt.r, OnP: pt.p,
						DustL: dl, DustR: dr, DustP: dp,
						PreKnown:  known == 1,
						Forwarded: true,
						AmtMsat:   20000000,
						// height is 1000, delta 10
						Expiry: 1010 + 100,
					}
					if past == 1 {
						h.Expiry = 1010
					}
					cells = append(cells, h)
				}
			}
		}
	}
	for _, pt := range outPats {
		add(false, pt)
	}
	for _, pt := range inPats {
		add(true, pt)
	}

	return cells
}

type verifC12CellCase struct {
	WithPending bool          `json:"withPending"`
	K           string        `json:"K"`
	Htlcs       []verifCCHtlc `json:"htlcs"`
	Src         int           `json:"src"`
}

func verifC12EvalCells(vc *verifCtx, arb *ChannelArbitrator, w *verifCCWorld,
	cc *verifC12CellCase) {

	// Source of the known preimages of this cell case: witness cache,
	// settled invoice or open invoice in the registry.
	srcKind := cc.Src % 3

	// number the HTLCs per direction
	var nOut, nIn uint64
	for i := range cc.Htlcs {
		if cc.Htlcs[i].Incoming {
			cc.Htlcs[i].Idx = nIn
			nIn++
		} else {
			cc.Htlcs[i].Idx = nOut
			nOut++
		}
	}
	w.mu.Lock()
	w.htlcs = cc.Htlcs
	w.beacon = map[lntypes.Hash]lntypes.Preimage{}
	w.invoice = map[lntypes.Hash]*verifCCInvoice{}
	for i := range cc.Htlcs {
		h := &cc.Htlcs[i]
		if !h.PreKnown {
			continue
		}
		switch srcKind {
		case 0:
			w.beacon[h.hash()] = h.preimage()
		default:
			h.InvPre, h.InvState = true, "settled"
			if srcKind == 2 {
				h.InvState = "open"
			}
			w.invoice[h.hash()] = verifCCInvoiceFor(h)
		}
	}
	w.mu.Unlock()
	vc.Count(fmt.Sprintf("cell_src_kind_%d", srcKind), 1)
	cs := CommitSet{
		ConfCommitKey: fn.Some(verifCCSetKey(cc.K)),
		HtlcSets:      verifCCSets(cc.Htlcs, cc.WithPending),
	}
	trig := remoteCloseTrigger
	if cc.K == "local" {
		trig = localCloseTrigger
	}
	actions, err := arb.constructChainActions(&cs, 1000, trig)
	vc.Count("cell_evals", 1)
	if err != nil {
		verifCCViolation(vc, "classifier_total", "error:"+cc.K, err.Error(), cc)
		return
	}
	type id struct {
		in  bool
		idx uint64
	}
	resolverActs := map[id]int{}
	failActs := map[id]int{}
	dustFinal := map[id]int{}
	for act, hs := range actions {
		for _, h := range hs {
			k := id{h.Incoming, h.HtlcIndex}
			switch act {
			case HtlcTimeoutAction, HtlcOutgoingWatchAction,
				HtlcClaimAction, HtlcIncomingWatchAction:

				resolverActs[k]++
			case HtlcFailDustAction, HtlcFailDanglingAction:
				failActs[k]++
			case HtlcIncomingDustFinalAction:
				dustFinal[k]++
			}
		}
	}
	for i := range cc.Htlcs {
		h := &cc.Htlcs[i]
		k := id{h.Incoming, h.Idx}
		bad := ""
		switch {
		case h.hasOutput(cc.K):
			if resolverActs[k] != 1 || failActs[k] != 0 ||
				dustFinal[k] != 0 {

				bad = "output"
			}
		case h.Incoming && h.on(cc.K):
			if dustFinal[k] != 1 || resolverActs[k] != 0 {
				bad = "received-dust"
			}
		case h.Incoming:
		case h.on(cc.K):
			if failActs[k] != 1 || resolverActs[k] != 0 {
				bad = "offered-dust"
			}
		case !h.PreKnown:
			if failActs[k] != 1 || resolverActs[k] != 0 {
				bad = "offered-absent"
			}
		default:
			if resolverActs[k] != 0 || failActs[k] != 0 {
				bad = "offered-absent-known"
			}
		}
		if bad != "" {
			verifCCViolation(vc, "classifier_cells", fmt.Sprintf(
				"%s:K=%s:resolver=%d:fail=%d:dustfinal=%d", bad,
				cc.K, resolverActs[k], failActs[k], dustFinal[k]),
				fmt.Sprintf("cell %+v classified %v", *h,
					actions), cc)
		}
	}
}

func TestVerifC12(t *testing.T) {
	vc := verifStart(t, "C12", "arb")
	defer vc.Finish()

	dir := verifCCScratch(t)

	// Part 1: full arbitrator runs.
	total := vc.N(5000, 2000000)
	for i := 0; i < total; i++ {
		if !vc.Mine(i) {
			continue
		}
		r := vc.Rng(i)
		c := verifC12Gen(r)
		vc.Case(i, c)
		verifC12Run(t, vc, dir, i, &c)
		vc.CaseDone(i)
	}

	// Part 2: classifier cells.
	const cellBase = 1000000000
	kvCells, err := verifCCOpenKV(verifCCDBPath(dir, cellBase))
	if err != nil {
		t.Fatalf("open db: %v", err)
	}
	defer kvCells.Close()
	counter := cellBase
	tripleStride := 1
	if !vc.Thorough() {
		tripleStride = 41
	}
	for _, withPending := range []bool{false, true} {
		cells := verifC12Cells(withPending)
		vc.Max("cells_per_htlc", int64(len(cells)))
		ks := []string{"local", "remote"}
		if withPending {
			ks = append(ks, "pending")
		}
		w := verifCCNewWorld(kvCells, nil, withPending, 1000)
		p := w.newProc(0)
		cfg := ChannelArbitratorConfig{
			ChanPoint:   w.chanPoint,
			ShortChanID: w.scid,
			ChainArbitratorConfig: ChainArbitratorConfig{
				OutgoingBroadcastDelta: 10,
				IncomingBroadcastDelta: 10,
				PreimageDB:             p,
				Registry:               p,
				Clock:                  clock.NewTestClock(time.Unix(1, 0)),
				IsForwardedHTLC: func(lnwire.ShortChannelID,
					uint64) bool {

					return true
				},
			},
		}
		arb := NewChannelArbitrator(cfg, map[HtlcSetKey]htlcSet{}, nil)
		n := len(cells)
		for a := 0; a < n; a++ {
			for b := a; b <= n; b++ {
				for c3 := b; c3 <= n; c3++ {
					// index n means "no HTLC in this slot".
					if b == n && c3 != n {
						continue
					}
					isTriple := c3 != n
					for _, k := range ks {
						counter++
						if isTriple &&
							counter%tripleStride != 0 {

							continue
						}
						if !vc.Mine(counter) {
							continue
						}
						cc := verifC12CellCase{
							WithPending: withPending,
							K:           k,
							Src:         counter / 3,
							Htlcs: []verifCCHtlc{
								cells[a],
							},
						}
						if b != n {
							cc.Htlcs = append(cc.Htlcs,
								cells[b])
						}
						if c3 != n {
							cc.Htlcs = append(cc.Htlcs,
								cells[c3])
						}
						if vc.Only >= 0 {
							vc.Case(counter, cc)
						}
						verifC12EvalCells(vc, arb, w, &cc)
					}
				}
			}
		}
	}
	var _ = channeldb.HTLC{}
}
