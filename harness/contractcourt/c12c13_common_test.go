package contractcourt

// Shared environment model for the C12 / C13 monitors.
//
// Nothing in here judges lnd: it is the *world* the real ChannelArbitrator and
// the real contract resolvers run against (chain, notifier, sweeper, switch,
// preimage beacon, invoice registry, the parts of channeldb that lnd writes
// outside the arbitrator log) plus a kvdb interposer that counts durable
// writes and can simulate a process stop right after the k-th one.
//
// World state (chain, switch, what has been made durable) survives a
// simulated stop. Everything a process holds in memory (notifier
// registrations, sweeper requests, subscriptions) lives in a verifCCProc and
// is dropped with it.

import (
	"context"
	"crypto/sha256"
	"encoding/binary"
	"encoding/json"
	"regexp"
	"errors"
	"fmt"
	"io"
	"os"
	"path/filepath"
	"runtime"
	"sort"
	"strings"
	"sync"
	"sync/atomic"
	"testing"
	"time"

	"github.com/btcsuite/btcd/chainhash/v2"
	"github.com/btcsuite/btcd/wire/v2"
	"github.com/btcsuite/btcwallet/walletdb"
	"github.com/lightningnetwork/lnd/chainio"
	"github.com/lightningnetwork/lnd/chainntnfs"
	"github.com/lightningnetwork/lnd/channeldb"
	"github.com/lightningnetwork/lnd/chanstate"
	"github.com/lightningnetwork/lnd/clock"
	"github.com/lightningnetwork/lnd/fn/v2"
	"github.com/lightningnetwork/lnd/graph/db/models"
	"github.com/lightningnetwork/lnd/htlcswitch/hop"
	"github.com/lightningnetwork/lnd/input"
	"github.com/lightningnetwork/lnd/invoices"
	"github.com/lightningnetwork/lnd/kvdb"
	"github.com/lightningnetwork/lnd/lntypes"
	"github.com/lightningnetwork/lnd/lnwallet"
	"github.com/lightningnetwork/lnd/lnwallet/chainfee"
	"github.com/lightningnetwork/lnd/lnwire"
	"github.com/lightningnetwork/lnd/sweep"
)

// ---------------------------------------------------------------------------
// kvdb interposer (engine E2)
// ---------------------------------------------------------------------------

var verifCCErrFrozen = errors.New("verif: database frozen (simulated stop)")

// verifCCKV wraps the real bbolt backend. It deliberately does NOT implement
// walletdb.BatchDB, so kvdb.Batch falls back to a synchronous Update: every
// durable write of the arbitrator log is exactly one committed transaction of
// this wrapper, executed in the calling goroutine (no batch timers).
type verifCCKV struct {
	inner kvdb.Backend

	wmu sync.Mutex // serialises writers; makes the freeze decision atomic

	mu        sync.Mutex
	commits   int
	kinds     []string
	freezeAt  int // 0 = never
	frozen    bool
	onFreeze  func()
	pending   []func() // run when the current Update commits
	failCount int      // writes refused after the freeze
}

func verifCCOpenKV(path string) (*verifCCKV, error) {
	db, err := kvdb.Create(
		kvdb.BoltBackendName, path, true, kvdb.DefaultDBTimeout, false,
	)
	if err != nil {
		return nil, err
	}

	return &verifCCKV{inner: db}, nil
}

func (k *verifCCKV) BeginReadTx() (walletdb.ReadTx, error) {
	return k.inner.BeginReadTx()
}

func (k *verifCCKV) BeginReadWriteTx() (walletdb.ReadWriteTx, error) {
	return nil, errors.New("verif: BeginReadWriteTx not supported by the " +
		"interposer")
}

func (k *verifCCKV) Copy(w io.Writer) error { return k.inner.Copy(w) }
func (k *verifCCKV) Close() error           { return k.inner.Close() }
func (k *verifCCKV) PrintStats() string     { return k.inner.PrintStats() }

func (k *verifCCKV) View(f func(tx walletdb.ReadTx) error,
	reset func()) error {

	return k.inner.View(f, reset)
}

// verifCCWriteKind names the lnd function that issued the current write.
func verifCCWriteKind() string {
	pcs := make([]uintptr, 24)
	n := runtime.Callers(3, pcs)
	frames := runtime.CallersFrames(pcs[:n])
	for {
		fr, more := frames.Next()
		fnName := fr.Function
		if i := strings.LastIndex(fnName, "contractcourt."); i >= 0 {
			name := fnName[i+len("contractcourt."):]
			switch {
			case strings.HasPrefix(name, "(*verifCCKV)"):
			case strings.HasPrefix(name, "(*boltArbitratorLog)."):
				name = strings.TrimPrefix(
					name, "(*boltArbitratorLog).",
				)
				if j := strings.Index(name, "."); j >= 0 {
					name = name[:j]
				}
				return name
			case strings.Contains(name, "verifCC"):
				if j := strings.Index(name, ")."); j >= 0 {
					name = name[j+2:]
				}
				if j := strings.Index(name, "."); j >= 0 {
					name = name[:j]
				}
				return "env:" + name
			}
		}
		if !more {
			break
		}
	}

	return "?"
}

func (k *verifCCKV) Update(f func(tx walletdb.ReadWriteTx) error,
	reset func()) error {

	return k.update(verifCCWriteKind(), f, reset)
}

func (k *verifCCKV) update(kind string,
	f func(tx walletdb.ReadWriteTx) error, reset func()) error {

	k.wmu.Lock()
	defer k.wmu.Unlock()

	k.mu.Lock()
	if k.frozen {
		k.failCount++
		k.mu.Unlock()
		return verifCCErrFrozen
	}
	k.pending = nil
	k.mu.Unlock()

	err := k.inner.Update(f, reset)

	k.mu.Lock()
	pend := k.pending
	k.pending = nil
	if err != nil {
		k.mu.Unlock()
		return err
	}
	k.commits++
	k.kinds = append(k.kinds, kind)
	freeze := k.freezeAt > 0 && k.commits == k.freezeAt
	var cb func()
	if freeze {
		k.frozen = true
		cb = k.onFreeze
	}
	k.mu.Unlock()

	// Effects that became durable with this transaction.
	for _, p := range pend {
		p()
	}
	if cb != nil {
		cb()
	}

	return nil
}

// onCommit registers fn to run iff the transaction that is currently being
// executed commits. Must only be called from inside an Update closure.
func (k *verifCCKV) onCommit(fn func()) {
	k.mu.Lock()
	k.pending = append(k.pending, fn)
	k.mu.Unlock()
}

func (k *verifCCKV) Commits() int {
	k.mu.Lock()
	defer k.mu.Unlock()
	return k.commits
}

func (k *verifCCKV) Kinds() []string {
	k.mu.Lock()
	defer k.mu.Unlock()
	return append([]string(nil), k.kinds...)
}

func (k *verifCCKV) Frozen() bool {
	k.mu.Lock()
	defer k.mu.Unlock()
	return k.frozen
}

// Arm makes the interposer freeze right after the at-th commit counted from
// now (at<=0 disarms) and thaws a previous freeze.
func (k *verifCCKV) Arm(at int, onFreeze func()) {
	k.mu.Lock()
	k.frozen = false
	if at > 0 {
		k.freezeAt = k.commits + at
	} else {
		k.freezeAt = 0
	}
	k.onFreeze = onFreeze
	k.mu.Unlock()
}

// ---------------------------------------------------------------------------
// HTLC model
// ---------------------------------------------------------------------------

// verifCCHtlc is one HTLC of a case. On*/Dust* describe its presence and
// dust-ness on our commitment (L), the peer's current (R) and the peer's
// pending (P) commitment.
type verifCCHtlc struct {
	Idx      uint64 `json:"idx"`
	Incoming bool   `json:"in"`
	OnL      bool   `json:"onL"`
	OnR      bool   `json:"onR"`
	OnP      bool   `json:"onP"`
	DustL    bool   `json:"dustL"`
	DustR    bool   `json:"dustR"`
	DustP    bool   `json:"dustP"`
	Expiry   uint32 `json:"expiry"`
	AmtMsat  uint64 `json:"amt"`

	// PreKnown: we know the preimage from the start. PreInvoice selects
	// the invoice registry instead of the preimage beacon as its source
	// (received HTLCs only).
	PreKnown   bool `json:"pre"`
	PreInvoice bool `json:"preInv"`

	// Knowledge SOURCE model (C12; InvState == "" selects the legacy
	// PreKnown/PreInvoice behaviour above). PreCache: the witness cache
	// (PreimageDB.LookupPreimage) has the preimage. InvState: what the
	// invoice registry holds for the hash: "none" (lookup fails with
	// ErrInvoiceNotFound / ErrNoInvoicesCreated), "open", "accepted",
	// "settled", "canceled"; InvPre: that invoice carries the preimage in
	// its terms (false = hold invoice whose preimage is not known yet).
	// PreKnown stays the reference verdict written from the statement
	// (cache has it, or a not-canceled invoice carries it). PreNeutral:
	// the one debatable class (only source is a CANCELED invoice that
	// carries the preimage) - neither "known" nor "unknown" for any
	// verdict. PreSrc names the class for the counters.
	PreCache   bool   `json:"preCache,omitempty"`
	InvState   string `json:"invState,omitempty"`
	InvPre     bool   `json:"invPre,omitempty"`
	PreNeutral bool   `json:"preNeutral,omitempty"`
	PreSrc     string `json:"preSrc,omitempty"`

	// Forwarded: IsForwardedHTLC answer for an offered HTLC.
	Forwarded bool `json:"fwd"`

	// C13 script: the peer claims our offered HTLC on chain at this
	// height (0 = never); we learn the preimage of a received HTLC
	// through the beacon at this height (0 = never).
	RemoteClaimAt int32 `json:"claimAt,omitempty"`
	LearnAt       int32 `json:"learnAt,omitempty"`
}

func (h *verifCCHtlc) on(k string) bool {
	switch k {
	case "local":
		return h.OnL
	case "remote":
		return h.OnR
	case "pending":
		return h.OnP
	}
	return false
}

func (h *verifCCHtlc) dust(k string) bool {
	switch k {
	case "local":
		return h.DustL
	case "remote":
		return h.DustR
	case "pending":
		return h.DustP
	}
	return false
}

func (h *verifCCHtlc) hasOutput(k string) bool { return h.on(k) && !h.dust(k) }

func (h *verifCCHtlc) preimage() lntypes.Preimage {
	var b [16]byte
	binary.BigEndian.PutUint64(b[:8], h.Idx)
	if h.Incoming {
		b[8] = 1
	}
	return lntypes.Preimage(sha256.Sum256(append([]byte("verif-c12c13"),
		b[:]...)))
}

func (h *verifCCHtlc) hash() lntypes.Hash {
	pre := h.preimage()
	return pre.Hash()
}

func (h *verifCCHtlc) name() string {
	d := "out"
	if h.Incoming {
		d = "in"
	}
	return fmt.Sprintf("%s#%d", d, h.Idx)
}

func verifCCSetKey(k string) HtlcSetKey {
	switch k {
	case "local":
		return LocalHtlcSet
	case "pending":
		return RemotePendingHtlcSet
	default:
		return RemoteHtlcSet
	}
}

var verifCCChanPoint = wire.OutPoint{
	Hash:  chainhash.Hash(sha256.Sum256([]byte("verif-fund"))),
	Index: 1,
}

// verifCCCommitHash is the txid of commitment k in every case. Our own
// commitment is known to the arbitrator by the hash of the close transaction.
func verifCCCommitHash(k string) chainhash.Hash {
	if k == "local" {
		return verifCCLocalCommitTx().TxHash()
	}

	return chainhash.Hash(sha256.Sum256([]byte("verif-commit-" + k)))
}

// verifCCOutputIndex is the output index of htlc number pos (position in the
// case's HTLC list) on commitment k. Output indexes are a property of each
// commitment transaction: the commitments carry different subsets of the HTLCs
// as real outputs and order them differently, so the same index denotes
// different HTLCs on different commitments. Here: outputs 0/1 are the commit
// and anchor outputs, HTLC outputs follow in ascending list order on our
// commitment, in descending order on the peer's current one and rotated by one
// on the peer's pending one.
func verifCCOutputIndex(htlcs []verifCCHtlc, k string, pos int) int32 {
	var with []int
	for i := range htlcs {
		if htlcs[i].hasOutput(k) {
			with = append(with, i)
		}
	}
	rank := -1
	for r, i := range with {
		if i == pos {
			rank = r
		}
	}
	if rank < 0 {
		return -1
	}
	n := len(with)
	switch k {
	case "remote":
		rank = n - 1 - rank
	case "pending":
		rank = (rank + 1) % n
	}

	return int32(2 + rank)
}

func verifCCChanHTLC(htlcs []verifCCHtlc, pos int, k string) channeldb.HTLC {
	h := &htlcs[pos]
	out := channeldb.HTLC{
		RHash:         h.hash(),
		Amt:           lnwire.MilliSatoshi(h.AmtMsat),
		RefundTimeout: h.Expiry,
		OutputIndex:   -1,
		Incoming:      h.Incoming,
		HtlcIndex:     h.Idx,
		LogIndex:      uint64(pos),
	}
	if !h.dust(k) {
		out.OutputIndex = verifCCOutputIndex(htlcs, k, pos)
	}

	return out
}

// verifCCSets builds the three HTLC sets (pending only if withPending).
func verifCCSets(htlcs []verifCCHtlc,
	withPending bool) map[HtlcSetKey][]channeldb.HTLC {

	sets := map[HtlcSetKey][]channeldb.HTLC{
		LocalHtlcSet:  nil,
		RemoteHtlcSet: nil,
	}
	if withPending {
		sets[RemotePendingHtlcSet] = nil
	}
	for pos := range htlcs {
		h := &htlcs[pos]
		for _, k := range []string{"local", "remote", "pending"} {
			if k == "pending" && !withPending {
				continue
			}
			if !h.on(k) {
				continue
			}
			key := verifCCSetKey(k)
			sets[key] = append(sets[key], verifCCChanHTLC(htlcs, pos, k))
		}
	}

	return sets
}

// verifCCPresence draws the presence of an HTLC on the three commitments as
// the update protocol allows. Offered: added to the peer's pending commitment
// first, then current, then ours; removed from ours first. Received: the
// mirror image (ours is the superset).
func verifCCPresence(r *verifRng, h *verifCCHtlc, withPending bool) {
	if !h.Incoming {
		if !withPending {
			h.OnR = true
			h.OnL = r.Chance(2, 3)
			return
		}
		switch r.Intn(6) {
		case 0: // just added by us, only signed to the peer
			h.OnP = true
		case 1: // being removed: gone from ours and the pending one
			h.OnR = true
		case 2: // on both of theirs, not (or no longer) on ours
			h.OnR, h.OnP = true, true
		default:
			h.OnL, h.OnR, h.OnP = true, true, true
		}
		return
	}
	h.OnL = true
	if !withPending {
		h.OnR = r.Chance(2, 3)
		return
	}
	switch r.Intn(6) {
	case 0: // just added by the peer
	case 1: // we acked it, in the pending commitment only
		h.OnP = true
	case 2: // we settled/failed it: gone from the pending one
		h.OnR = true
	default:
		h.OnR, h.OnP = true, true
	}
}


func verifCCResolverName(r ContractResolver) (string, string, *wire.OutPoint) {
	switch t := r.(type) {
	case *htlcTimeoutResolver:
		op := t.HtlcPoint()
		return "timeout", "out", &op
	case *htlcOutgoingContestResolver:
		op := t.HtlcPoint()
		return "outgoingContest", "out", &op
	case *htlcSuccessResolver:
		op := t.HtlcPoint()
		return "success", "in", &op
	case *htlcIncomingContestResolver:
		op := t.HtlcPoint()
		return "incomingContest", "in", &op
	case *commitSweepResolver:
		return "commitSweep", "", nil
	case *anchorResolver:
		return "anchor", "", nil
	case *breachResolver:
		return "breach", "", nil
	}

	return fmt.Sprintf("%T", r), "", nil
}


// ---------------------------------------------------------------------------
// World
// ---------------------------------------------------------------------------

type verifCCSwitchMsg struct {
	Idx      uint64 `json:"idx"`
	Settle   bool   `json:"settle"`
	Preimage string `json:"preimage,omitempty"`
	Height   int32  `json:"height"`
	Inc      int    `json:"inc"`
	Phase    string `json:"phase"`
}

type verifCCFinal struct {
	Idx     uint64 `json:"idx"`
	Settled bool   `json:"settled"`
	Phase   string `json:"phase"`
}

type verifCCReport struct {
	OutPoint string `json:"op"`
	Type     string `json:"type"`
	Outcome  string `json:"outcome"`
	Amount   int64  `json:"amt"`
}

// verifCCWorld is everything outside the lnd process: the chain, the switch
// on the other side of DeliverResolutionMsg, and the durable records lnd keeps
// outside the arbitrator log.
type verifCCWorld struct {
	kv    *verifCCKV
	clock *clock.TestClock

	htlcs       []verifCCHtlc
	withPending bool
	anchors     bool // zero-fee-htlc anchor style local resolutions
	chanPoint   wire.OutPoint
	scid        lnwire.ShortChannelID

	activity atomic.Uint64

	mu          sync.Mutex
	height      int32
	phase       string
	spends      map[wire.OutPoint]*chainntnfs.SpendDetail
	ourTx       map[chainhash.Hash]bool
	published   []string
	switchMsgs  []verifCCSwitchMsg
	finals      []verifCCFinal
	reports     []verifCCReport
	forceCloses []int32 // heights at which ForceCloseChan was called
	resolvedN   int
	resolvedBad []string
	beacon      map[lntypes.Hash]lntypes.Preimage
	invoice     map[lntypes.Hash]*verifCCInvoice
	exitHop     map[lntypes.Hash]bool

	// noInvoicesCreated: a registry without any invoice answers
	// ErrNoInvoicesCreated instead of ErrInvoiceNotFound.
	noInvoicesCreated bool
	closed      *channeldb.ChannelCloseSummary
	closedN     int
	broadcastN  int
	breachDone  bool
	incubated   map[wire.OutPoint]*verifCCIncubate
	confKind    string // which commitment confirmed ("" = none yet)
	confHeight  int32
	closeOpts   [2]bool // withCommit, withAnchor of the confirmed close
	newSpends   []*chainntnfs.SpendDetail
	sweepDone   []verifCCSweepDone
	postMortem  int // env calls made by a dead process (ignored)
	notes       []string

	// outpoint -> role (filled when a commitment confirms)
	roles map[wire.OutPoint]verifCCRole

	// hook evaluated synchronously inside NotifyChannelResolved.
	onResolved func(p *verifCCProc) string
}

type verifCCSweepDone struct {
	req *verifCCSweepReq
	res sweep.Result
}

type verifCCRole struct {
	pos   int    // index into htlcs, -1 for commit/anchor
	kind  string // "htlc", "second", "commit", "anchor"
	local bool   // on our own commitment
}

type verifCCIncubate struct {
	out   *lnwallet.OutgoingHtlcResolution
	in    *lnwallet.IncomingHtlcResolution
	stage int
}

func verifCCNewWorld(kv *verifCCKV, htlcs []verifCCHtlc, withPending bool,
	startHeight int32) *verifCCWorld {

	w := &verifCCWorld{
		kv:          kv,
		clock:       clock.NewTestClock(time.Unix(1700000000, 0)),
		htlcs:       htlcs,
		withPending: withPending,
		height:      startHeight,
		phase:       "open",
		spends:      map[wire.OutPoint]*chainntnfs.SpendDetail{},
		ourTx:       map[chainhash.Hash]bool{},
		beacon:      map[lntypes.Hash]lntypes.Preimage{},
		invoice:     map[lntypes.Hash]*verifCCInvoice{},
		exitHop:     map[lntypes.Hash]bool{},
		incubated:   map[wire.OutPoint]*verifCCIncubate{},
		roles:       map[wire.OutPoint]verifCCRole{},
		chanPoint: verifCCChanPoint,
		scid: lnwire.NewShortChanIDFromInt(0x0001_000002_0003),
	}
	for i := range htlcs {
		h := &htlcs[i]
		if h.InvState != "" {
			// Knowledge source model.
			if h.PreCache {
				w.beacon[h.hash()] = h.preimage()
			}
			if inv := verifCCInvoiceFor(h); inv != nil {
				w.invoice[h.hash()] = inv
				if h.Incoming {
					w.exitHop[h.hash()] = true
				}
			}

			continue
		}
		if !h.PreKnown {
			continue
		}
		if h.Incoming && h.PreInvoice {
			w.invoice[h.hash()] = &verifCCInvoice{
				pre: h.preimage(), hasPre: true,
				state: invoices.ContractOpen,
				amt:   lnwire.MilliSatoshi(h.AmtMsat),
				idx:   h.Idx, expiry: h.Expiry,
			}
			w.exitHop[h.hash()] = true
		} else {
			w.beacon[h.hash()] = h.preimage()
		}
	}

	return w
}

func (w *verifCCWorld) bump() { w.activity.Add(1) }

func (w *verifCCWorld) Height() int32 {
	w.mu.Lock()
	defer w.mu.Unlock()
	return w.height
}

func (w *verifCCWorld) setPhase(p string) {
	w.mu.Lock()
	w.phase = p
	w.mu.Unlock()
}

// envWrite performs one durable write of the environment (something lnd keeps
// in channeldb next to the arbitrator log). then runs iff it committed.
func (w *verifCCWorld) envWrite(key string, val []byte, then func()) error {
	kind := key
	if i := strings.Index(kind, "/"); i >= 0 {
		kind = kind[:i]
	}

	return w.kv.update("env:"+kind, func(tx walletdb.ReadWriteTx) error {
		b, err := tx.CreateTopLevelBucket([]byte("verif-env"))
		if err != nil {
			return err
		}
		if then != nil {
			w.kv.onCommit(then)
		}
		return b.Put([]byte(key), val)
	}, func() {})
}

// ---------------------------------------------------------------------------
// Process incarnation
// ---------------------------------------------------------------------------

type verifCCSweepReq struct {
	inp    input.Input
	params sweep.Params
	result chan sweep.Result
	done   bool
}

// verifCCProc is one run of the lnd process against the world.
type verifCCProc struct {
	w    *verifCCWorld
	inc  int
	dead atomic.Bool

	mu        sync.Mutex
	spendRegs map[wire.OutPoint][]chan *chainntnfs.SpendDetail
	epochRegs []chan *chainntnfs.BlockEpoch
	sweeps    []*verifCCSweepReq
	preSubs   []chan lntypes.Preimage
	breachSub []chan struct{}

	arb     *ChannelArbitrator
	events  *ChainEventSubscription
	stopped bool
}

// ok gates every interaction of the process with the world: once the process
// is dead nothing it does is externally visible any more.
func (p *verifCCProc) ok() bool {
	if p.dead.Load() {
		p.w.mu.Lock()
		p.w.postMortem++
		p.w.mu.Unlock()
		return false
	}
	p.w.bump()
	return true
}

var verifCCErrDead = errors.New("verif: process stopped")

// --- chainntnfs.ChainNotifier

func (p *verifCCProc) RegisterConfirmationsNtfn(txid *chainhash.Hash,
	pkScript []byte, numConfs, heightHint uint32,
	opts ...chainntnfs.NotifierOption) (*chainntnfs.ConfirmationEvent,
	error) {

	if !p.ok() {
		return nil, verifCCErrDead
	}

	return &chainntnfs.ConfirmationEvent{
		Confirmed: make(chan *chainntnfs.TxConfirmation, 1),
		Cancel:    func() {},
	}, nil
}

func (p *verifCCProc) RegisterSpendNtfn(op *wire.OutPoint, pkScript []byte,
	heightHint uint32) (*chainntnfs.SpendEvent, error) {

	if !p.ok() {
		return nil, verifCCErrDead
	}
	ch := make(chan *chainntnfs.SpendDetail, 1)
	p.w.mu.Lock()
	sp := p.w.spends[*op]
	p.w.mu.Unlock()
	if sp != nil {
		ch <- sp
	} else {
		p.mu.Lock()
		p.spendRegs[*op] = append(p.spendRegs[*op], ch)
		p.mu.Unlock()
		// Close the race with a concurrent spend.
		p.w.mu.Lock()
		sp = p.w.spends[*op]
		p.w.mu.Unlock()
		if sp != nil {
			select {
			case ch <- sp:
			default:
			}
		}
	}

	return &chainntnfs.SpendEvent{Spend: ch, Cancel: func() {}}, nil
}

func (p *verifCCProc) RegisterBlockEpochNtfn(
	_ *chainntnfs.BlockEpoch) (*chainntnfs.BlockEpochEvent, error) {

	if !p.ok() {
		return nil, verifCCErrDead
	}
	ch := make(chan *chainntnfs.BlockEpoch, 4096)
	ch <- &chainntnfs.BlockEpoch{Height: p.w.Height()}
	p.mu.Lock()
	p.epochRegs = append(p.epochRegs, ch)
	p.mu.Unlock()

	return &chainntnfs.BlockEpochEvent{Epochs: ch, Cancel: func() {}}, nil
}

func (p *verifCCProc) Start() error  { return nil }
func (p *verifCCProc) Started() bool { return true }
func (p *verifCCProc) Stop() error   { return nil }

// --- lnwallet.BlockChainIO

func (p *verifCCProc) GetBestBlock() (*chainhash.Hash, int32, error) {
	return &chainhash.Hash{}, p.w.Height(), nil
}

func (p *verifCCProc) GetUtxo(*wire.OutPoint, []byte, uint32,
	<-chan struct{}) (*wire.TxOut, error) {

	return nil, nil
}

func (p *verifCCProc) GetBlockHash(int64) (*chainhash.Hash, error) {
	return &chainhash.Hash{}, nil
}

func (p *verifCCProc) GetBlock(*chainhash.Hash) (*wire.MsgBlock, error) {
	return nil, nil
}

func (p *verifCCProc) GetBlockHeader(*chainhash.Hash) (*wire.BlockHeader,
	error) {

	return nil, nil
}

// --- UtxoSweeper

func (p *verifCCProc) SweepInput(inp input.Input,
	params sweep.Params) (chan sweep.Result, error) {

	if !p.ok() {
		return nil, verifCCErrDead
	}
	res := make(chan sweep.Result, 1)
	op := inp.OutPoint()
	p.w.mu.Lock()
	sp := p.w.spends[op]
	ours := sp != nil && p.w.ourTx[*sp.SpenderTxHash]
	p.w.mu.Unlock()
	if sp != nil {
		// Re-offered after it was already swept: the sweeper reports
		// the confirmed spender.
		r := sweep.Result{Tx: sp.SpendingTx}
		if !ours {
			r.Err = sweep.ErrRemoteSpend
		}
		res <- r

		return res, nil
	}
	p.mu.Lock()
	p.sweeps = append(p.sweeps, &verifCCSweepReq{
		inp: inp, params: params, result: res,
	})
	p.mu.Unlock()

	return res, nil
}

func (p *verifCCProc) RelayFeePerKW() chainfee.SatPerKWeight { return 253 }

func (p *verifCCProc) UpdateParams(op wire.OutPoint,
	params sweep.Params) (chan sweep.Result, error) {

	if !p.ok() {
		return nil, verifCCErrDead
	}

	return make(chan sweep.Result, 1), nil
}

// --- WitnessBeacon

func (p *verifCCProc) SubscribeUpdates(chanID lnwire.ShortChannelID,
	htlc *channeldb.HTLC, payload *hop.Payload,
	nextHopOnionBlob []byte) (*WitnessSubscription, error) {

	if !p.ok() {
		return nil, verifCCErrDead
	}
	ch := make(chan lntypes.Preimage, 64)
	p.mu.Lock()
	p.preSubs = append(p.preSubs, ch)
	p.mu.Unlock()

	return &WitnessSubscription{
		WitnessUpdates:     ch,
		CancelSubscription: func() {},
	}, nil
}

func (p *verifCCProc) LookupPreimage(h lntypes.Hash) (lntypes.Preimage,
	bool) {

	p.w.mu.Lock()
	defer p.w.mu.Unlock()
	pre, ok := p.w.beacon[h]

	return pre, ok
}

// AddPreimages is a durable write in lnd (witness cache in channeldb).
func (p *verifCCProc) AddPreimages(pres ...lntypes.Preimage) error {
	if !p.ok() {
		return verifCCErrDead
	}
	var val []byte
	for _, pre := range pres {
		val = append(val, pre[:]...)
	}
	key := fmt.Sprintf("preimage/%x", sha256.Sum256(val))

	return p.w.envWrite(key, val, func() {
		p.w.learnPreimages(p, pres...)
	})
}

func (w *verifCCWorld) learnPreimages(p *verifCCProc,
	pres ...lntypes.Preimage) {

	w.mu.Lock()
	for _, pre := range pres {
		w.beacon[pre.Hash()] = pre
	}
	w.mu.Unlock()
	if p == nil || p.dead.Load() {
		return
	}
	p.mu.Lock()
	subs := append([]chan lntypes.Preimage(nil), p.preSubs...)
	p.mu.Unlock()
	for _, ch := range subs {
		for _, pre := range pres {
			select {
			case ch <- pre:
			default:
			}
		}
	}
}

// --- Registry

// verifCCInvoice is what the registry stub knows about one payment hash; it
// is rendered as the invoices.Invoice the real registry would return from the
// invoice DB for an invoice in that state.
type verifCCInvoice struct {
	pre    lntypes.Preimage
	hasPre bool // false: hold invoice, preimage not known (yet)
	state  invoices.ContractState
	amt    lnwire.MilliSatoshi
	idx    uint64 // HTLC id of the paying HTLC
	expiry uint32
}

// verifCCInvoiceFor translates the knowledge source model of an HTLC into the
// registry's invoice (nil: no invoice for the hash).
func verifCCInvoiceFor(h *verifCCHtlc) *verifCCInvoice {
	inv := &verifCCInvoice{
		pre: h.preimage(), hasPre: h.InvPre,
		amt: lnwire.MilliSatoshi(h.AmtMsat), idx: h.Idx,
		expiry: h.Expiry,
	}
	switch h.InvState {
	case "open":
		inv.state = invoices.ContractOpen
	case "accepted":
		inv.state = invoices.ContractAccepted
	case "settled":
		inv.state = invoices.ContractSettled
	case "canceled":
		inv.state = invoices.ContractCanceled
	default:
		return nil
	}

	return inv
}

func (w *verifCCWorld) renderInvoice(h lntypes.Hash,
	vi *verifCCInvoice) invoices.Invoice {

	created := time.Unix(1699990000, 0)
	inv := invoices.Invoice{
		Memo:         []byte("verif"),
		CreationDate: created,
		State:        vi.state,
		HodlInvoice:  !vi.hasPre || vi.state == invoices.ContractAccepted,
		Terms: invoices.ContractTerm{
			FinalCltvDelta: 1,
			Expiry:         24 * time.Hour,
			Value:          vi.amt,
		},
		Htlcs: map[models.CircuitKey]*invoices.InvoiceHTLC{},
	}
	inv.Terms.PaymentAddr[0] = 1
	copy(inv.Terms.PaymentAddr[1:], h[:])
	if vi.hasPre {
		pre := vi.pre
		inv.Terms.PaymentPreimage = &pre
	}

	// The paying HTLC as the invoice DB records it in that state (an open
	// invoice has not seen it yet).
	htlc := &invoices.InvoiceHTLC{
		Amt:          vi.amt,
		MppTotalAmt:  vi.amt,
		AcceptHeight: 900,
		AcceptTime:   created.Add(time.Minute),
		Expiry:       vi.expiry,
	}
	key := models.CircuitKey{ChanID: w.scid, HtlcID: vi.idx}
	switch vi.state {
	case invoices.ContractAccepted:
		htlc.State = invoices.HtlcStateAccepted
		inv.Htlcs[key] = htlc

	case invoices.ContractSettled:
		htlc.State = invoices.HtlcStateSettled
		htlc.ResolveTime = created.Add(2 * time.Minute)
		inv.Htlcs[key] = htlc
		inv.AmtPaid = vi.amt
		inv.SettleDate = htlc.ResolveTime
		inv.SettleIndex = 1

	case invoices.ContractCanceled:
		htlc.State = invoices.HtlcStateCanceled
		htlc.ResolveTime = created.Add(2 * time.Minute)
		inv.Htlcs[key] = htlc
	}

	return inv
}

func (p *verifCCProc) LookupInvoice(_ context.Context,
	h lntypes.Hash) (invoices.Invoice, error) {

	p.w.mu.Lock()
	vi, ok := p.w.invoice[h]
	empty := len(p.w.invoice) == 0 && p.w.noInvoicesCreated
	p.w.mu.Unlock()
	if !ok {
		if empty {
			return invoices.Invoice{}, invoices.ErrNoInvoicesCreated
		}

		return invoices.Invoice{}, invoices.ErrInvoiceNotFound
	}

	return p.w.renderInvoice(h, vi), nil
}

func (p *verifCCProc) NotifyExitHopHtlc(payHash lntypes.Hash,
	paidAmount lnwire.MilliSatoshi, expiry uint32, currentHeight int32,
	circuitKey models.CircuitKey, hodlChan chan<- interface{},
	wireCustomRecords lnwire.CustomRecords,
	payload invoices.Payload) (invoices.HtlcResolution, error) {

	if !p.ok() {
		return nil, verifCCErrDead
	}
	p.w.mu.Lock()
	vi, ok := p.w.invoice[payHash]
	p.w.mu.Unlock()
	if !ok {
		return invoices.NewFailResolution(
			circuitKey, currentHeight, invoices.ResultInvoiceNotFound,
		), nil
	}

	// What the real registry answers for an invoice in that state.
	switch {
	case vi.state == invoices.ContractCanceled:
		return invoices.NewFailResolution(
			circuitKey, currentHeight,
			invoices.ResultInvoiceAlreadyCanceled,
		), nil

	case !vi.hasPre:
		// Hold invoice without a preimage: the HTLC is held.
		return nil, nil

	case vi.state == invoices.ContractSettled:
		return invoices.NewSettleResolution(
			vi.pre, circuitKey, currentHeight,
			invoices.ResultReplayToSettled,
		), nil
	}

	return invoices.NewSettleResolution(
		vi.pre, circuitKey, currentHeight, invoices.ResultSettled,
	), nil
}

func (p *verifCCProc) HodlUnsubscribeAll(chan<- interface{}) {}

// --- OnionProcessor

type verifCCOnion struct{ w *verifCCWorld }

func (o *verifCCOnion) ReconstructHopIterator(r io.Reader, rHash []byte,
	_ hop.ReconstructBlindingInfo) (hop.Iterator, error) {

	var h lntypes.Hash
	copy(h[:], rHash)
	o.w.mu.Lock()
	exit := o.w.exitHop[h]
	o.w.mu.Unlock()

	// Forward amount 1 msat and CLTV 1 pass the final-hop validation of
	// every generated HTLC.
	return &mockHopIterator{
		isExit: exit, forwardAmount: 1, outgoingCltv: 1,
	}, nil
}

// --- HtlcNotifier (the package's own mock is not safe for the concurrent use
// several resolvers make of it)

type verifCCHtlcNotifier struct{}

func (verifCCHtlcNotifier) NotifyFinalHtlcEvent(models.CircuitKey,
	channeldb.FinalHtlcInfo) {
}

// --- ArbChannel

type verifCCChannel struct{ p *verifCCProc }

func (c *verifCCChannel) NewAnchorResolutions() (*lnwallet.AnchorResolutions,
	error) {

	return &lnwallet.AnchorResolutions{}, nil
}

func (c *verifCCChannel) ForceCloseChan() (*wire.MsgTx, error) {
	if !c.p.ok() {
		return nil, verifCCErrDead
	}
	w := c.p.w
	w.mu.Lock()
	w.forceCloses = append(w.forceCloses, w.height)
	w.mu.Unlock()

	return verifCCLocalCommitTx(), nil
}

// verifCCLocalCommitTx is a transaction whose hash stands for our commitment.
// (The arbitrator only hashes / publishes it.)
func verifCCLocalCommitTx() *wire.MsgTx {
	return &wire.MsgTx{
		Version: 2,
		TxIn: []*wire.TxIn{{
			PreviousOutPoint: verifCCChanPoint,
			Witness:          [][]byte{{0x1}, {0x2}},
		}},
		TxOut: []*wire.TxOut{{Value: 1, PkScript: []byte("verif-local")}},
	}
}

// ---------------------------------------------------------------------------
// Arbitrator construction (as ChainArbitrator does it)
// ---------------------------------------------------------------------------

type verifCCArbOpts struct {
	OutDelta, InDelta uint32
	Grace             time.Duration
	// InitialSets: hand the HTLC sets to NewChannelArbitrator (as
	// newActiveChannelArbitrator does); otherwise they are delivered with
	// notifyContractUpdate after Start.
	InitialSets bool
	// OnProc is called with the new process before it is started.
	OnProc func(*verifCCProc)
}

func (w *verifCCWorld) newProc(inc int) *verifCCProc {
	return &verifCCProc{
		w:         w,
		inc:       inc,
		spendRegs: map[wire.OutPoint][]chan *chainntnfs.SpendDetail{},
	}
}

// verifCCStart creates incarnation inc of the process: a ChannelArbitrator on
// the (persistent) log DB, configured from what the world made durable, and
// starts it at the world's height.
func verifCCStart(t testing.TB, w *verifCCWorld, inc int,
	o verifCCArbOpts) (*verifCCProc, error) {

	p := w.newProc(inc)
	if o.OnProc != nil {
		o.OnProc(p)
	}

	w.mu.Lock()
	closed := w.closed
	confKind := w.confKind
	w.mu.Unlock()

	p.events = &ChainEventSubscription{
		RemoteUnilateralClosure: make(chan *RemoteUnilateralCloseInfo, 1),
		LocalUnilateralClosure:  make(chan *LocalUnilateralCloseInfo, 1),
		CooperativeClosure:      make(chan *CooperativeCloseInfo, 1),
		ContractBreach:          make(chan *BreachCloseInfo, 1),
		Cancel:                  func() {},
	}

	chainCfg := ChainArbitratorConfig{
		ChainIO: p,
		PublishTx: func(tx *wire.MsgTx, label string) error {
			if !p.ok() {
				return verifCCErrDead
			}
			w.mu.Lock()
			w.published = append(w.published, tx.TxHash().String())
			w.mu.Unlock()

			return nil
		},
		DeliverResolutionMsg: func(msgs ...ResolutionMsg) error {
			if !p.ok() {
				return verifCCErrDead
			}
			w.mu.Lock()
			for _, m := range msgs {
				sm := verifCCSwitchMsg{
					Idx: m.HtlcIndex, Settle: m.PreImage != nil,
					Height: w.height, Inc: p.inc, Phase: w.phase,
				}
				if m.PreImage != nil {
					sm.Preimage = fmt.Sprintf("%x", m.PreImage[:])
				}
				w.switchMsgs = append(w.switchMsgs, sm)
			}
			w.mu.Unlock()

			return nil
		},
		OutgoingBroadcastDelta: o.OutDelta,
		IncomingBroadcastDelta: o.InDelta,
		Notifier:               p,
		IncubateOutputs: func(cp wire.OutPoint,
			out fn.Option[lnwallet.OutgoingHtlcResolution],
			in fn.Option[lnwallet.IncomingHtlcResolution],
			height uint32, _ fn.Option[int32],
			_ ...IncubateOption) error {

			return p.incubate(out, in)
		},
		OnionProcessor: &verifCCOnion{w: w},
		IsForwardedHTLC: func(_ lnwire.ShortChannelID,
			idx uint64) bool {

			for i := range w.htlcs {
				if !w.htlcs[i].Incoming && w.htlcs[i].Idx == idx {
					return w.htlcs[i].Forwarded
				}
			}

			return false
		},
		PaymentsExpirationGracePeriod: o.Grace,
		SubscribeBreachComplete: func(op *wire.OutPoint,
			c chan struct{}) (bool, error) {

			if !p.ok() {
				return false, verifCCErrDead
			}
			w.mu.Lock()
			done := w.breachDone
			w.mu.Unlock()
			if done {
				return true, nil
			}
			p.mu.Lock()
			p.breachSub = append(p.breachSub, c)
			p.mu.Unlock()

			return false, nil
		},
		Clock:        w.clock,
		Sweeper:      p,
		HtlcNotifier: verifCCHtlcNotifier{},
		PutFinalHtlcOutcome: func(_ lnwire.ShortChannelID, id uint64,
			settled bool) error {

			if !p.ok() {
				return verifCCErrDead
			}
			w.mu.Lock()
			ph := w.phase
			w.mu.Unlock()
			v := []byte{0}
			if settled {
				v[0] = 1
			}

			return w.envWrite(fmt.Sprintf("final/%d", id), v, func() {
				w.mu.Lock()
				w.finals = append(w.finals, verifCCFinal{
					Idx: id, Settled: settled, Phase: ph,
				})
				w.mu.Unlock()
			})
		},
		Budget:     *DefaultBudgetConfig(),
		PreimageDB: p,
		Registry:   p,
		QueryIncomingCircuit: func(
			models.CircuitKey) *models.CircuitKey {

			return nil
		},
	}

	arbCfg := ChannelArbitratorConfig{
		ChanPoint:   w.chanPoint,
		ShortChanID: w.scid,
		Channel:     &verifCCChannel{p: p},
		NotifyChannelResolved: func() {
			if !p.ok() {
				return
			}
			bad := ""
			if w.onResolved != nil {
				bad = w.onResolved(p)
			}
			w.mu.Lock()
			w.resolvedN++
			if bad != "" {
				w.resolvedBad = append(w.resolvedBad, bad)
			}
			w.mu.Unlock()
		},
		MarkCommitmentBroadcasted: func(_ *wire.MsgTx,
			_ lntypes.ChannelParty) error {

			if !p.ok() {
				return verifCCErrDead
			}

			return w.envWrite("broadcasted", []byte{1}, func() {
				w.mu.Lock()
				w.broadcastN++
				w.mu.Unlock()
			})
		},
		MarkChannelClosed: func(s *channeldb.ChannelCloseSummary,
			_ ...channeldb.ChannelStatus) error {

			if !p.ok() {
				return verifCCErrDead
			}
			cp := *s

			return w.envWrite("closed", []byte{byte(s.CloseType)},
				func() {
					w.mu.Lock()
					w.closed = &cp
					w.closedN++
					w.mu.Unlock()
				})
		},
		ChainArbitratorConfig: chainCfg,
		ChainEvents:           p.events,
		PutResolverReport: func(tx kvdb.RwTx,
			r *channeldb.ResolverReport) error {

			if !p.ok() {
				return verifCCErrDead
			}
			rec := verifCCReport{
				OutPoint: r.OutPoint.String(),
				Type:     fmt.Sprint(r.ResolverType),
				Outcome:  fmt.Sprint(r.ResolverOutcome),
				Amount:   int64(r.Amount),
			}
			key := []byte("report/" + rec.OutPoint + "/" + rec.Type +
				"/" + rec.Outcome)
			then := func() {
				w.mu.Lock()
				w.reports = append(w.reports, rec)
				w.mu.Unlock()
			}
			if tx == nil {
				return w.envWrite(string(key), []byte{1}, then)
			}
			b, err := tx.CreateTopLevelBucket([]byte("verif-env"))
			if err != nil {
				return err
			}
			w.kv.onCommit(then)

			return b.Put(key, []byte{1})
		},
		FetchHistoricalChannel: func() (*chanstate.OpenChannel, error) {
			ct := channeldb.SingleFunderTweaklessBit
			if w.anchors {
				ct |= channeldb.AnchorOutputsBit |
					channeldb.ZeroHtlcTxFeeBit
			}

			return &chanstate.OpenChannel{ChanType: ct}, nil
		},
		FindOutgoingHTLCDeadline: func(
			h channeldb.HTLC) fn.Option[int32] {

			return fn.Some(int32(h.RefundTimeout) + 40)
		},
	}

	// What ChainArbitrator.Start derives from channeldb on a restart.
	sets := map[HtlcSetKey]htlcSet{}
	if closed != nil {
		arbCfg.IsPendingClose = true
		arbCfg.ClosingHeight = closed.CloseHeight
		arbCfg.CloseType = closed.CloseType
		arbCfg.ChainEvents = &ChainEventSubscription{
			Cancel: func() {},
		}
		p.events = nil
	} else if o.InitialSets || inc > 0 {
		for k, v := range verifCCSets(w.htlcs, w.withPending) {
			sets[k] = newHtlcSet(v)
		}
	}

	log, err := newBoltArbitratorLog(
		w.kv, arbCfg, chainhash.Hash{}, w.chanPoint,
	)
	if err != nil {
		return nil, err
	}
	p.arb = NewChannelArbitrator(arbCfg, sets, log)

	beat := newBeatFromHeight(w.Height())
	if err := p.arb.Start(nil, beat); err != nil {
		return nil, err
	}
	p.barrier()
	w.quiesce(t, p)

	if closed == nil && !o.InitialSets && inc == 0 {
		for k, v := range verifCCSets(w.htlcs, w.withPending) {
			p.arb.notifyContractUpdate(&ContractUpdate{
				HtlcKey: k, Htlcs: v,
			})
		}
	}

	// The chain watcher of a restarted node re-detects a close that had
	// not been made durable.
	if closed == nil && inc > 0 && confKind != "" {
		p.sendClose(confKind)
	}

	return p, nil
}

// call runs a synchronous hand-shake with the attendant goroutine. If the
// attendant is no longer listening (it returns for good once the channel is
// fully resolved) the hand-shake can never complete; that is detected by every
// goroutine being parked, and false is returned. The abandoned helper goroutine
// ends with Stop().
func (p *verifCCProc) call(fn func()) bool {
	done := make(chan struct{})
	go func() {
		fn()
		close(done)
	}()
	parked := 0
	for {
		select {
		case <-done:
			return true
		default:
		}
		runtime.Gosched()
		if verifCCAllParked() {
			parked++
		} else {
			parked = 0
		}
		if parked >= 3 {
			select {
			case <-done:
				return true
			default:
				return false
			}
		}
	}
}

// barrier returns once the attendant goroutine has worked off everything that
// was queued before the call (its start-up state advance included).
func (p *verifCCProc) barrier() bool {
	return p.call(func() {
		p.arb.UpdateContractSignals(
			&ContractSignals{ShortChanID: p.w.scid},
		)
	})
}

// block hands the next block to the arbitrator exactly as the blockbeat
// dispatcher does; returns after handleBlockbeat finished.
func (p *verifCCProc) block(height int32) bool {
	beat := chainio.Blockbeat(newBeatFromHeight(height))
	return p.call(func() { _ = p.arb.ProcessBlock(beat) })
}

// userForceClose sends a force close request as ChainArbitrator.
// ForceCloseContract does and returns the error it got.
func (p *verifCCProc) userForceClose() (bool, error) {
	var err error
	ok := p.call(func() {
		errChan := make(chan error, 1)
		respChan := make(chan *wire.MsgTx, 1)
		select {
		case p.arb.forceCloseReqs <- &forceCloseReq{
			errResp: errChan, closeTx: respChan,
		}:
		case <-p.arb.quit:
			return
		}
		select {
		case <-respChan:
		case <-p.arb.quit:
			return
		}
		select {
		case err = <-errChan:
		case <-p.arb.quit:
		}
	})

	return ok, err
}

func (p *verifCCProc) stop() {
	p.mu.Lock()
	if p.stopped {
		p.mu.Unlock()
		return
	}
	p.stopped = true
	p.mu.Unlock()
	_ = p.arb.Stop()
}

// kill marks the process dead: from this instant nothing it does reaches the
// world.
func (p *verifCCProc) kill() { p.dead.Store(true) }

// ---------------------------------------------------------------------------
// Close events (what the chain watcher would deliver)
// ---------------------------------------------------------------------------

var verifCCWitnessScript = []byte{0x63, 0x51, 0x52, 0x53}

func verifCCSignDesc(value int64, tag string) input.SignDescriptor {
	script := append(append([]byte{}, verifCCWitnessScript...),
		[]byte(tag)...)
	if !strings.HasPrefix(tag, "local") {
		// Only outputs of our own commitment start with OP_IF.
		script[0] = 0x76
	}

	return input.SignDescriptor{
		WitnessScript: script,
		Output: &wire.TxOut{
			Value:    value,
			PkScript: append([]byte{0x00, 0x20}, sha256Sum(tag)...),
		},
		HashType: 1,
	}
}

func sha256Sum(s string) []byte {
	h := sha256.Sum256([]byte(s))
	return h[:]
}

// verifCCResolutions builds the contract resolutions lnwallet would produce
// for commitment k: one HTLC resolution per HTLC that has an output there.
func (w *verifCCWorld) resolutions(k string, withCommit,
	withAnchor bool) (*lnwallet.HtlcResolutions,
	*lnwallet.CommitOutputResolution, *lnwallet.AnchorResolution) {

	commitHash := verifCCCommitHash(k)
	local := k == "local"
	hr := &lnwallet.HtlcResolutions{}
	w.mu.Lock()
	defer w.mu.Unlock()
	for pos := range w.htlcs {
		h := &w.htlcs[pos]
		if !h.hasOutput(k) {
			continue
		}
		htlcOp := wire.OutPoint{
			Hash:  commitHash,
			Index: uint32(verifCCOutputIndex(w.htlcs, k, pos)),
		}
		sats := int64(h.AmtMsat / 1000)
		tag := fmt.Sprintf("%s-%s", k, h.name())
		w.roles[htlcOp] = verifCCRole{pos: pos, kind: "htlc", local: local}
		if h.Incoming {
			res := lnwallet.IncomingHtlcResolution{
				ClaimOutpoint: htlcOp,
				SweepSignDesc: verifCCSignDesc(sats, tag),
			}
			if local {
				res.CsvDelay = 4
				second := &wire.MsgTx{
					Version: 2,
					TxIn: []*wire.TxIn{{
						PreviousOutPoint: htlcOp,
						Witness: [][]byte{
							{}, {0x30}, {0x31}, {},
							verifCCWitnessScript,
						},
					}},
					TxOut: []*wire.TxOut{
						res.SweepSignDesc.Output,
					},
				}
				res.SignedSuccessTx = second
				res.ClaimOutpoint = wire.OutPoint{
					Hash: second.TxHash(), Index: 0,
				}
				if w.anchors {
					res.SignDetails = &input.SignDetails{
						SignDesc: verifCCSignDesc(
							sats, tag+"-htlc",
						),
						SigHashType: 0x83,
						PeerSig:     testSig,
					}
				}
				w.roles[res.ClaimOutpoint] = verifCCRole{
					pos: pos, kind: "second", local: true,
				}
			}
			hr.IncomingHTLCs = append(hr.IncomingHTLCs, res)
		} else {
			res := lnwallet.OutgoingHtlcResolution{
				Expiry:        h.Expiry,
				ClaimOutpoint: htlcOp,
				SweepSignDesc: verifCCSignDesc(sats, tag),
			}
			if local {
				res.CsvDelay = 4
				second := &wire.MsgTx{
					Version:  2,
					LockTime: h.Expiry,
					TxIn: []*wire.TxIn{{
						PreviousOutPoint: htlcOp,
						Witness: [][]byte{
							{}, {0x30}, {0x31}, {},
							verifCCWitnessScript,
						},
					}},
					TxOut: []*wire.TxOut{
						res.SweepSignDesc.Output,
					},
				}
				res.SignedTimeoutTx = second
				res.ClaimOutpoint = wire.OutPoint{
					Hash: second.TxHash(), Index: 0,
				}
				if w.anchors {
					res.SignDetails = &input.SignDetails{
						SignDesc: verifCCSignDesc(
							sats, tag+"-htlc",
						),
						SigHashType: 0x83,
						PeerSig:     testSig,
					}
				}
				w.roles[res.ClaimOutpoint] = verifCCRole{
					pos: pos, kind: "second", local: true,
				}
			}
			hr.OutgoingHTLCs = append(hr.OutgoingHTLCs, res)
		}
	}

	var cr *lnwallet.CommitOutputResolution
	if withCommit {
		cr = &lnwallet.CommitOutputResolution{
			SelfOutPoint: wire.OutPoint{Hash: commitHash, Index: 0},
			SelfOutputSignDesc: verifCCSignDesc(
				500000, k+"-commit",
			),
		}
		if local {
			cr.MaturityDelay = 4
		}
		w.roles[cr.SelfOutPoint] = verifCCRole{
			pos: -1, kind: "commit", local: local,
		}
	}
	var ar *lnwallet.AnchorResolution
	if withAnchor {
		ar = &lnwallet.AnchorResolution{
			AnchorSignDescriptor: verifCCSignDesc(330, k+"-anchor"),
			CommitAnchor: wire.OutPoint{
				Hash: commitHash, Index: 1,
			},
		}
		w.roles[ar.CommitAnchor] = verifCCRole{
			pos: -1, kind: "anchor", local: local,
		}
	}

	return hr, cr, ar
}

func (w *verifCCWorld) commitSet(k string) CommitSet {
	key := verifCCSetKey(k)
	if k == "breach" {
		key = RemoteHtlcSet
	}

	return CommitSet{
		ConfCommitKey: fn.Some(key),
		HtlcSets:      verifCCSets(w.htlcs, w.withPending),
	}
}

// confirm records in the world that commitment k is mined at the given height
// (the funding outpoint is spent).
func (w *verifCCWorld) confirm(k string, height int32, withCommit,
	withAnchor bool) {

	w.mu.Lock()
	if w.confKind == "" {
		w.confKind = k
		w.confHeight = height
	}
	w.mu.Unlock()
	w.closeOpts = [2]bool{withCommit, withAnchor}
}

// sendClose queues the close event of the confirmed commitment on the chain
// event subscription of this process.
func (p *verifCCProc) sendClose(k string) {
	w := p.w
	w.mu.Lock()
	height := w.confHeight
	w.mu.Unlock()
	withCommit, withAnchor := w.closeOpts[0], w.closeOpts[1]
	summary := channeldb.ChannelCloseSummary{
		ChanPoint:   w.chanPoint,
		CloseHeight: uint32(height),
		ShortChanID: w.scid,
	}
	commitHash := verifCCCommitHash(k)
	switch k {
	case "coop":
		summary.CloseType = channeldb.CooperativeClose
		p.events.CooperativeClosure <- &CooperativeCloseInfo{
			ChannelCloseSummary: &summary,
		}

	case "local":
		summary.CloseType = channeldb.LocalForceClose
		hr, cr, ar := w.resolutions(k, withCommit, withAnchor)
		closeTx := verifCCLocalCommitTx()
		p.events.LocalUnilateralClosure <- &LocalUnilateralCloseInfo{
			SpendDetail: &chainntnfs.SpendDetail{
				SpendingHeight: height,
			},
			LocalForceCloseSummary: &lnwallet.LocalForceCloseSummary{
				CloseTx: closeTx,
				ContractResolutions: fn.Some(
					lnwallet.ContractResolutions{
						CommitResolution: cr,
						HtlcResolutions:  hr,
						AnchorResolution: ar,
					},
				),
			},
			ChannelCloseSummary: &summary,
			CommitSet:           w.commitSet(k),
		}

	case "remote", "pending":
		summary.CloseType = channeldb.RemoteForceClose
		hr, cr, ar := w.resolutions(k, withCommit, withAnchor)
		p.events.RemoteUnilateralClosure <- &RemoteUnilateralCloseInfo{
			UnilateralCloseSummary: &lnwallet.UnilateralCloseSummary{
				SpendDetail: &chainntnfs.SpendDetail{
					SpenderTxHash:  &commitHash,
					SpendingHeight: height,
				},
				ChannelCloseSummary: summary,
				CommitResolution:    cr,
				HtlcResolutions:     hr,
				AnchorResolution:    ar,
			},
			CommitSet: w.commitSet(k),
		}

	case "breach":
		summary.CloseType = channeldb.BreachClose
		var ar *lnwallet.AnchorResolution
		if withAnchor {
			ar = &lnwallet.AnchorResolution{
				AnchorSignDescriptor: verifCCSignDesc(
					330, k+"-anchor",
				),
				CommitAnchor: wire.OutPoint{
					Hash: commitHash, Index: 1,
				},
			}
			w.mu.Lock()
			w.roles[ar.CommitAnchor] = verifCCRole{
				pos: -1, kind: "anchor",
			}
			w.mu.Unlock()
		}
		p.events.ContractBreach <- &BreachCloseInfo{
			BreachResolution: &BreachResolution{
				FundingOutPoint: w.chanPoint,
			},
			AnchorResolution: ar,
			CommitSet:        w.commitSet(k),
			CommitHash:       commitHash,
			CloseSummary:     summary,
		}
	}
}

// ---------------------------------------------------------------------------
// Chain progress: mining, sweeper, nursery, peer claims
// ---------------------------------------------------------------------------

func (w *verifCCWorld) spend(p *verifCCProc, op wire.OutPoint, tx *wire.MsgTx,
	inIdx uint32, ours bool) {

	txid := tx.TxHash()
	sd := &chainntnfs.SpendDetail{
		SpentOutPoint:     &op,
		SpenderTxHash:     &txid,
		SpendingTx:        tx,
		SpenderInputIndex: inIdx,
	}
	w.mu.Lock()
	if _, dup := w.spends[op]; dup {
		w.mu.Unlock()
		return
	}
	sd.SpendingHeight = w.height
	w.spends[op] = sd
	if ours {
		w.ourTx[txid] = true
	}
	w.newSpends = append(w.newSpends, sd)
	w.mu.Unlock()
	w.bump()
}

// flushSpends notifies the process of every spend mined since the last call.
func (w *verifCCWorld) flushSpends(p *verifCCProc) {
	w.mu.Lock()
	sds := w.newSpends
	w.newSpends = nil
	w.mu.Unlock()
	if p == nil || p.dead.Load() {
		return
	}
	for _, sd := range sds {
		p.mu.Lock()
		regs := p.spendRegs[*sd.SpentOutPoint]
		delete(p.spendRegs, *sd.SpentOutPoint)
		p.mu.Unlock()
		for _, ch := range regs {
			select {
			case ch <- sd:
			default:
			}
		}
	}
}

// witnessFor builds the witness of a spend of op: preimage-revealing where the
// spend is a success path, a timeout-shaped one otherwise.
func (w *verifCCWorld) witnessFor(op wire.OutPoint, byPeer bool,
	script []byte) wire.TxWitness {

	w.mu.Lock()
	role, ok := w.roles[op]
	w.mu.Unlock()
	if script == nil {
		script = verifCCWitnessScript
	}
	if !ok || role.kind != "htlc" {
		return wire.TxWitness{{0x30}, script}
	}
	h := &w.htlcs[role.pos]
	pre := h.preimage()
	switch {
	// Peer claims our offered HTLC.
	case !h.Incoming && byPeer && role.local:
		return wire.TxWitness{{0x30}, pre[:], script}
	case !h.Incoming && byPeer && !role.local:
		return wire.TxWitness{{}, {0x30}, {0x31}, pre[:], script}

	// We time out our offered HTLC.
	case !h.Incoming && role.local:
		return wire.TxWitness{{}, {0x30}, {0x31}, {}, script}
	case !h.Incoming:
		return wire.TxWitness{{0x30}, {}, script}

	// We claim a received HTLC.
	case h.Incoming && !byPeer && role.local:
		return wire.TxWitness{{}, {0x30}, {0x31}, pre[:], script}
	case h.Incoming && !byPeer:
		return wire.TxWitness{{0x30}, pre[:], script}

	// Peer times out a received HTLC.
	default:
		return wire.TxWitness{{0x30}, {}, script}
	}
}

func (p *verifCCProc) incubate(
	out fn.Option[lnwallet.OutgoingHtlcResolution],
	in fn.Option[lnwallet.IncomingHtlcResolution]) error {

	if !p.ok() {
		return verifCCErrDead
	}
	w := p.w
	var (
		op  wire.OutPoint
		inc = &verifCCIncubate{}
	)
	out.WhenSome(func(r lnwallet.OutgoingHtlcResolution) {
		inc.out = &r
		op = r.HtlcPoint()
	})
	in.WhenSome(func(r lnwallet.IncomingHtlcResolution) {
		inc.in = &r
		op = r.HtlcPoint()
	})

	// The nursery store is durable.
	return w.envWrite("nursery/"+op.String(), []byte{1}, func() {
		w.mu.Lock()
		if _, ok := w.incubated[op]; !ok {
			w.incubated[op] = inc
		}
		w.mu.Unlock()
	})
}

// mine advances the chain by one block: scripted peer claims, the nursery and
// the sweeper get their transactions confirmed, epochs are sent, and the
// blockbeat is handed to the arbitrator.
func (w *verifCCWorld) mine(t testing.TB, p *verifCCProc) {
	w.mu.Lock()
	w.height++
	height := w.height
	confKind := w.confKind
	w.mu.Unlock()
	w.bump()

	// Peer claims.
	if confKind == "local" || confKind == "remote" ||
		confKind == "pending" {

		commitHash := verifCCCommitHash(confKind)
		for pos := range w.htlcs {
			h := &w.htlcs[pos]
			if h.Incoming || h.RemoteClaimAt == 0 ||
				height < h.RemoteClaimAt || !h.hasOutput(confKind) {

				continue
			}
			op := wire.OutPoint{
				Hash:  commitHash,
				Index: uint32(verifCCOutputIndex(
					w.htlcs, confKind, pos,
				)),
			}
			tx := &wire.MsgTx{
				Version: 2,
				TxIn: []*wire.TxIn{{
					PreviousOutPoint: op,
					Witness: w.witnessFor(
						op, true, nil,
					),
				}},
				TxOut: []*wire.TxOut{{
					Value:    int64(h.AmtMsat / 1000),
					PkScript: []byte("peer"),
				}},
			}
			w.spend(p, op, tx, 0, false)
		}
	}

	// Preimages we learn off-chain (another channel settled): durable in
	// the witness cache whether or not this process is alive.
	var (
		learned []lntypes.Preimage
		results []verifCCSweepDone
	)
	for pos := range w.htlcs {
		h := &w.htlcs[pos]
		if h.Incoming && h.LearnAt != 0 && height == h.LearnAt {
			learned = append(learned, h.preimage())
			w.learnPreimages(nil, h.preimage())
		}
	}

	// Nursery (legacy second level): publish at expiry, sweep after CSV.
	w.mu.Lock()
	var nurs []wire.OutPoint
	for op := range w.incubated {
		nurs = append(nurs, op)
	}
	w.mu.Unlock()
	sort.Slice(nurs, func(i, j int) bool {
		return nurs[i].String() < nurs[j].String()
	})
	for _, op := range nurs {
		w.mu.Lock()
		inc := w.incubated[op]
		_, spent := w.spends[op]
		w.mu.Unlock()
		switch {
		case inc.out != nil && inc.out.SignedTimeoutTx != nil:
			claim := inc.out.ClaimOutpoint
			w.mu.Lock()
			sp2 := w.spends[claim]
			first := w.spends[op]
			w.mu.Unlock()
			if !spent && uint32(height) > inc.out.Expiry {
				w.spend(p, op, inc.out.SignedTimeoutTx, 0, true)
			} else if spent && sp2 == nil && first != nil &&
				w.ourTx[*first.SpenderTxHash] &&
				height >= first.SpendingHeight+
					int32(inc.out.CsvDelay) {

				w.spend(p, claim, verifCCSweepTx(
					claim, nil, height, wire.TxWitness{
						{0x30}, verifCCWitnessScript,
					},
				), 0, true)
			}

		case inc.in != nil && inc.in.SignedSuccessTx != nil:
			claim := inc.in.ClaimOutpoint
			w.mu.Lock()
			sp2 := w.spends[claim]
			first := w.spends[op]
			w.mu.Unlock()
			if spent && sp2 == nil && first != nil &&
				height >= first.SpendingHeight+
					int32(inc.in.CsvDelay) {

				w.spend(p, claim, verifCCSweepTx(
					claim, nil, height, wire.TxWitness{
						{0x30}, verifCCWitnessScript,
					},
				), 0, true)
			}
		}
	}

	// Legacy success transactions we published get mined.
	// (PublishTx only records the hash; the success tx is known from the
	// incubation request.)
	for _, op := range nurs {
		w.mu.Lock()
		inc := w.incubated[op]
		_, spent := w.spends[op]
		w.mu.Unlock()
		if inc.in != nil && inc.in.SignedSuccessTx != nil && !spent {
			w.spend(p, op, inc.in.SignedSuccessTx, 0, true)
		}
	}

	// Sweeper: every mature pending input is swept in this block.
	if p != nil && !p.dead.Load() {
		p.mu.Lock()
		reqs := append([]*verifCCSweepReq(nil), p.sweeps...)
		p.mu.Unlock()
		for _, r := range reqs {
			if r.done {
				continue
			}
			op := r.inp.OutPoint()
			w.mu.Lock()
			sp := w.spends[op]
			w.mu.Unlock()
			if sp != nil {
				r.done = true
				res := sweep.Result{Tx: sp.SpendingTx}
				if !w.ourTx[*sp.SpenderTxHash] {
					res.Err = sweep.ErrRemoteSpend
				}
				results = append(results, verifCCSweepDone{r, res})

				continue
			}
			if lt, ok := r.inp.RequiredLockTime(); ok &&
				uint32(height) <= lt {

				continue
			}
			if m := r.inp.BlocksToMaturity(); m > 0 &&
				uint32(height) < r.inp.HeightHint()+m {

				continue
			}
			var script []byte
			if sd := r.inp.SignDesc(); sd != nil {
				script = sd.WitnessScript
			}
			tx := verifCCSweepTx(
				op, r.inp.RequiredTxOut(), height,
				w.witnessFor(op, false, script),
			)
			r.done = true
			w.spend(p, op, tx, 0, true)
			results = append(results, verifCCSweepDone{
				r, sweep.Result{Tx: tx},
			})
		}
	}

	// The chain is final for this block: now the process hears about it.
	if p == nil || p.dead.Load() {
		w.flushSpends(nil)
		return
	}
	for _, pre := range learned {
		w.learnPreimages(p, pre)
	}
	w.flushSpends(p)
	for _, d := range results {
		select {
		case d.req.result <- d.res:
		default:
		}
	}

	// Let the resolvers work off the notifications before the epoch and
	// the blockbeat arrive. lnd's launchResolvers (run by the blockbeat
	// handler) reads the active resolver slice without the lock while a
	// resolver goroutine that is swapping contracts writes it
	// (replaceResolver): delivered concurrently, that data race can tear
	// the interface value and crash the process, which has nothing to do
	// with restarts. (Reported separately.)
	w.quiesce(t, p)
	if p.dead.Load() {
		return
	}

	// Block epochs, then the blockbeat.
	p.mu.Lock()
	eps := append([]chan *chainntnfs.BlockEpoch(nil), p.epochRegs...)
	p.mu.Unlock()
	for _, ch := range eps {
		select {
		case ch <- &chainntnfs.BlockEpoch{Height: height}:
		default:
		}
	}
	w.quiesce(t, p)
	if p.dead.Load() {
		return
	}
	p.block(height)
}

// tick delivers a block to the arbitrator without any chain activity of the
// world (C12 only observes decisions).
func (w *verifCCWorld) tick(p *verifCCProc) bool {
	w.mu.Lock()
	w.height++
	height := w.height
	w.mu.Unlock()
	w.bump()

	return p.block(height)
}

func verifCCSweepTx(op wire.OutPoint, required *wire.TxOut, height int32,
	wit wire.TxWitness) *wire.MsgTx {

	out := required
	if out == nil {
		out = &wire.TxOut{
			Value: 1,
			PkScript: []byte(fmt.Sprintf("wallet-%d-%s", height,
				op.String())),
		}
	}

	return &wire.MsgTx{
		Version:  2,
		LockTime: uint32(height),
		TxIn: []*wire.TxIn{{
			PreviousOutPoint: op, Witness: wit,
		}},
		TxOut: []*wire.TxOut{out},
	}
}

// breachComplete lets the breach arbitrator report that justice is served.
func (w *verifCCWorld) breachComplete(p *verifCCProc) {
	w.mu.Lock()
	w.breachDone = true
	w.mu.Unlock()
	w.bump()
	if p == nil || p.dead.Load() {
		return
	}
	p.mu.Lock()
	subs := p.breachSub
	p.breachSub = nil
	p.mu.Unlock()
	for _, c := range subs {
		close(c)
	}
}

// ---------------------------------------------------------------------------
// Quiescence: every goroutine but the caller is parked and nothing touched
// the world in between two looks.
// ---------------------------------------------------------------------------

var verifCCBusyStates = []string{
	"running", "runnable", "syscall", "sleep", "IO wait", "GC ",
	"copystack", "preempted", "trace",
}

var (
	verifCCStackMu  sync.Mutex
	verifCCStackBuf = make([]byte, 4<<20)
)

func verifCCAllParked() bool {
	verifCCStackMu.Lock()
	defer verifCCStackMu.Unlock()
	n := runtime.Stack(verifCCStackBuf, true)
	dump := string(verifCCStackBuf[:n])
	first := true
	for _, g := range strings.Split(dump, "\n\n") {
		if !strings.HasPrefix(g, "goroutine ") {
			continue
		}
		if first {
			// The calling goroutine is always listed first.
			first = false
			continue
		}
		if strings.Contains(g, "os/signal.") ||
			strings.Contains(g, "signal_recv") {

			continue
		}
		i := strings.Index(g, "[")
		j := strings.Index(g, "]")
		if i < 0 || j < i {
			continue
		}
		state := g[i+1 : j]
		if k := strings.Index(state, ","); k >= 0 {
			state = state[:k]
		}
		for _, b := range verifCCBusyStates {
			if strings.HasPrefix(state, b) {
				return false
			}
		}
	}

	return true
}

// quiesce waits until the process has nothing left to do without further
// input from the world. Wall clock is only the watchdog.
func (w *verifCCWorld) quiesce(t testing.TB, p *verifCCProc) {
	deadline := time.Now().Add(120 * time.Second)
	stable := 0
	last := w.activity.Load() + uint64(w.kv.Commits())<<32
	for stable < 3 {
		runtime.Gosched()
		parked := verifCCAllParked()
		cur := w.activity.Load() + uint64(w.kv.Commits())<<32
		if parked && cur == last {
			stable++
		} else {
			stable = 0
		}
		last = cur
		if time.Now().After(deadline) {
			buf := make([]byte, 1<<16)
			n := runtime.Stack(buf, true)
			t.Fatalf("verif: no quiescence within the watchdog\n%s",
				buf[:n])
		}
	}
}

// ---------------------------------------------------------------------------
// Scratch DB location
// ---------------------------------------------------------------------------

func verifCCScratch(t testing.TB) string {
	base := ""
	if st, err := os.Stat("/dev/shm"); err == nil && st.IsDir() {
		base = "/dev/shm"
	} else if s := os.Getenv("VERIF_SCRATCH"); s != "" {
		base = s
	}
	dir, err := os.MkdirTemp(base, "verif-cc-")
	if err != nil {
		t.Fatalf("scratch: %v", err)
	}
	t.Cleanup(func() { os.RemoveAll(dir) })

	return dir
}

func verifCCDBPath(dir string, n int) string {
	return filepath.Join(dir, fmt.Sprintf("arb-%d.db", n))
}

func verifCCStateString(b *boltArbitratorLog) string {
	s, err := b.CurrentState(nil)
	if err != nil {
		return "err:" + err.Error()
	}

	return s.String()
}

// ---------------------------------------------------------------------------
// Violation budget
// ---------------------------------------------------------------------------

// The harness runtime keeps at most 50 violations per process. Findings that
// are already listed in known_findings.json recur in a large share of the
// cases, so without care they would use up that budget and hide anything new.
// Every distinct key is therefore reported once per process, and keys that
// match a known finding are limited to verifCCKnownBudget reports. This only
// decides how often the same fact is written out; no verdict is dropped (the
// first report of every distinct key always goes through while budget is
// left, and suppressed repeats are counted).
const verifCCKnownBudget = 12

type verifCCKnown struct {
	oracle string
	re     *regexp.Regexp
}

var (
	verifCCReportMu    sync.Mutex
	verifCCReported    = map[string]bool{}
	verifCCKnownUsed   int
	verifCCKnownList   []verifCCKnown
	verifCCKnownLoaded bool
)

func verifCCLoadKnown(prop string) {
	verifCCKnownLoaded = true
	dir := os.Getenv("VERIF_DIR")
	if dir == "" {
		return
	}
	raw, err := os.ReadFile(filepath.Join(dir, "known_findings.json"))
	if err != nil {
		return
	}
	var doc struct {
		Findings []struct {
			Status   string `json:"status"`
			Property string `json:"property"`
			Oracle   string `json:"oracle"`
			KeyRegex string `json:"key_regex"`
		} `json:"findings"`
	}
	if json.Unmarshal(raw, &doc) != nil {
		return
	}
	for _, f := range doc.Findings {
		if f.Status != "known" || f.Property != prop ||
			f.KeyRegex == "" {

			continue
		}
		re, err := regexp.Compile(f.KeyRegex)
		if err != nil {
			continue
		}
		verifCCKnownList = append(verifCCKnownList, verifCCKnown{
			oracle: f.Oracle, re: re,
		})
	}
}

func verifCCViolation(vc *verifCtx, oracle, key, detail string, witness any) {
	verifCCReportMu.Lock()
	if !verifCCKnownLoaded {
		verifCCLoadKnown(vc.Prop)
	}
	id := oracle + "|" + key
	if verifCCReported[id] {
		verifCCReportMu.Unlock()
		vc.Count("violation_repeats_not_rereported", 1)
		return
	}
	known := false
	for _, k := range verifCCKnownList {
		if (k.oracle == "" || k.oracle == oracle) &&
			k.re.MatchString(key) {

			known = true
		}
	}
	if known && verifCCKnownUsed >= verifCCKnownBudget {
		verifCCReportMu.Unlock()
		vc.Count("known_finding_keys_not_rereported", 1)
		return
	}
	verifCCReported[id] = true
	if known {
		verifCCKnownUsed++
	}
	verifCCReportMu.Unlock()
	vc.Violation(oracle, key, detail, witness)
}
