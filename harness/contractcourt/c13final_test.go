package contractcourt

// C13, unit "finalstage": the last stage of the on-chain resolution of a
// channel, run by the REAL ChainArbitrator.
//
// The unit "restart" (c13_test.go) plays MarkChannelClosed and
// NotifyChannelResolved itself. Here the real ChainArbitrator owns them: its
// ChannelArbitrators write the arbitrator log and the channel state into the
// SAME kvdb backend (as in production), ChainArbitrator.ResolveContract marks
// the channel fully closed / stops arbitrator and watcher / wipes the log, and
// after a stop ChainArbitrator.Start re-creates the arbitrators from what is
// durable (FetchAllChannels, FetchClosedChannels(pendingOnly)).
//
// Per case: uninterrupted reference run, W = committed read-write
// transactions from the close event to the end; then for every k in 1..W the
// process is cut off right after commit k (database frozen in the same
// instant, the committing goroutine ends on the spot, the zombie is reaped
// with Stop()), a fresh channeldb.DB + ChainArbitrator is started on the same
// backend, the chain re-delivers what a restarted chain watcher would see
// (the close, iff the channel is still open in the database), blocks are
// driven, and the terminal outcome must be the one of the reference run.

import (
	"fmt"
	"io"
	"net"
	"runtime"
	"strings"
	"sync"
	"testing"
	"time"

	"github.com/btcsuite/btcd/chainhash/v2"
	"github.com/btcsuite/btcd/wire/v2"
	"github.com/btcsuite/btcwallet/walletdb"
	"github.com/lightningnetwork/lnd/chainntnfs"
	"github.com/lightningnetwork/lnd/channeldb"
	"github.com/lightningnetwork/lnd/clock"
	"github.com/lightningnetwork/lnd/fn/v2"
	"github.com/lightningnetwork/lnd/graph/db/models"
	"github.com/lightningnetwork/lnd/kvdb"
	"github.com/lightningnetwork/lnd/lntest/mock"
	"github.com/lightningnetwork/lnd/lnwallet"
	"github.com/lightningnetwork/lnd/lnwire"
)

// ---------------------------------------------------------------------------
// kvdb interposer: counts committed RW transactions, names the lnd function
// that committed, cuts the process off right after commit k.
// ---------------------------------------------------------------------------

var verifC13FErrFrozen = fmt.Errorf("verif: database frozen (simulated stop)")

// verifC13FKV deliberately does not implement walletdb.BatchDB: kvdb.Batch
// falls back to a synchronous Update in the calling goroutine.
type verifC13FKV struct {
	inner kvdb.Backend

	wmu sync.Mutex // serialises writers: the freeze decision is atomic

	mu        sync.Mutex
	commits   int
	sites     []string
	freezeAt  int
	frozen    bool
	stopped   chan struct{}
	stopSite  string
	zombieWr  int
}

func (k *verifC13FKV) BeginReadTx() (walletdb.ReadTx, error) {
	return k.inner.BeginReadTx()
}

func (k *verifC13FKV) BeginReadWriteTx() (walletdb.ReadWriteTx, error) {
	return nil, fmt.Errorf("verif: BeginReadWriteTx not supported")
}

func (k *verifC13FKV) Copy(w io.Writer) error { return k.inner.Copy(w) }
func (k *verifC13FKV) Close() error           { return k.inner.Close() }
func (k *verifC13FKV) PrintStats() string     { return k.inner.PrintStats() }

func (k *verifC13FKV) View(f func(tx walletdb.ReadTx) error,
	reset func()) error {

	return k.inner.View(f, reset)
}

// verifC13FSite names the innermost lnd function (outside kvdb and this
// harness) on the stack of the current write.
func verifC13FSite() string {
	pcs := make([]uintptr, 32)
	n := runtime.Callers(3, pcs)
	frames := runtime.CallersFrames(pcs[:n])
	for {
		fr, more := frames.Next()
		fnName := fr.Function
		if strings.Contains(fnName, "lightningnetwork/lnd/") &&
			!strings.Contains(fnName, "/kvdb.") &&
			!strings.Contains(fnName, "/kvdb/") &&
			!strings.Contains(fnName, "verifC13F") {

			name := fnName[strings.LastIndex(fnName, "/")+1:]
			// Strip closure suffixes (.func1, .func2.1, ...).
			if i := strings.Index(name, ".func"); i >= 0 {
				name = name[:i]
			}

			return name
		}
		if !more {
			break
		}
	}

	return "?"
}

func (k *verifC13FKV) Update(f func(tx walletdb.ReadWriteTx) error,
	reset func()) error {

	site := verifC13FSite()

	var stop chan struct{}
	err := func() error {
		k.wmu.Lock()
		defer k.wmu.Unlock()

		k.mu.Lock()
		if k.frozen {
			k.zombieWr++
			k.mu.Unlock()

			return verifC13FErrFrozen
		}
		k.mu.Unlock()

		if err := k.inner.Update(f, reset); err != nil {
			return err
		}

		k.mu.Lock()
		k.commits++
		k.sites = append(k.sites, site)
		if k.freezeAt > 0 && k.commits == k.freezeAt {
			k.frozen = true
			k.stopSite = site
			stop = k.stopped
		}
		k.mu.Unlock()

		return nil
	}()
	if stop != nil {
		// The process is gone: nothing after this commit happens in
		// the committing goroutine; every other goroutine finds the
		// database frozen.
		close(stop)
		runtime.Goexit()
	}

	return err
}

func (k *verifC13FKV) Commits() int {
	k.mu.Lock()
	defer k.mu.Unlock()

	return k.commits
}

// arm makes the interposer stop the process right after the at-th commit
// counted from now (0 = never) and thaws a previous freeze. It returns the
// channel that is closed at the stop.
func (k *verifC13FKV) arm(at int) chan struct{} {
	k.mu.Lock()
	defer k.mu.Unlock()
	k.frozen = false
	k.freezeAt = 0
	if at > 0 {
		k.freezeAt = k.commits + at
	}
	k.stopped = make(chan struct{})
	k.stopSite = ""

	return k.stopped
}

// ---------------------------------------------------------------------------
// Case, world
// ---------------------------------------------------------------------------

type verifC13FCase struct {
	// Kind: remote | pending-remote | local | coop | breach.
	Kind string `json:"kind"`

	CloseHeight uint32 `json:"close_height"`

	// BlocksBefore blocks are processed by the chain arbitrator before the
	// close is delivered.
	BlocksBefore int `json:"blocks_before"`

	// BreachLate: the breach arbitrator reports the justice transaction
	// confirmed only after the first quiescence (else at once).
	BreachLate bool `json:"breach_late"`

	// MarkOpen: the channel was marked open (else still pending open).
	MarkOpen bool `json:"mark_open"`
}

func verifC13FGen(r *verifRng) verifC13FCase {
	kinds := []string{"remote", "local", "coop", "breach", "pending-remote"}

	return verifC13FCase{
		Kind:         kinds[r.Intn(len(kinds))],
		CloseHeight:  uint32(100 + r.Intn(900)),
		BlocksBefore: r.Intn(3),
		BreachLate:   r.Bool(),
		MarkOpen:     r.Chance(3, 4),
	}
}

// verifC13FWorld is what survives a process stop besides the database: the
// state of the breach arbitrator (modelled: done or not).
type verifC13FWorld struct {
	mu         sync.Mutex
	breachDone bool
	breachSubs []chan struct{}
}

func (w *verifC13FWorld) subscribeBreach(_ *wire.OutPoint,
	c chan struct{}) (bool, error) {

	w.mu.Lock()
	defer w.mu.Unlock()
	if w.breachDone {
		return true, nil
	}
	w.breachSubs = append(w.breachSubs, c)

	return false, nil
}

// completeBreach returns false if the breach was complete already.
func (w *verifC13FWorld) completeBreach() bool {
	w.mu.Lock()
	defer w.mu.Unlock()
	if w.breachDone {
		return false
	}
	w.breachDone = true
	for _, c := range w.breachSubs {
		close(c)
	}
	w.breachSubs = nil

	return true
}

func (w *verifC13FWorld) dropSubs() {
	w.mu.Lock()
	w.breachSubs = nil
	w.mu.Unlock()
}

func verifC13FCfg(w *verifC13FWorld) ChainArbitratorConfig {
	return ChainArbitratorConfig{
		ChainIO: &mock.ChainIO{},
		Notifier: &mock.ChainNotifier{
			SpendChan: make(chan *chainntnfs.SpendDetail),
			EpochChan: make(chan *chainntnfs.BlockEpoch),
			ConfChan:  make(chan *chainntnfs.TxConfirmation),
		},
		PublishTx: func(*wire.MsgTx, string) error {
			return nil
		},
		NotifyClosedChannel: func(wire.OutPoint) {},
		Clock:               clock.NewDefaultClock(),
		Budget:              *DefaultBudgetConfig(),
		QueryIncomingCircuit: func(
			models.CircuitKey) *models.CircuitKey {

			return nil
		},
		SubscribeBreachComplete: w.subscribeBreach,
		ContractBreach: func(wire.OutPoint,
			*lnwallet.BreachRetribution) error {

			return nil
		},
	}
}

// ---------------------------------------------------------------------------
// One run
// ---------------------------------------------------------------------------

const (
	// verifC13FRounds bounds the progress that is awaited after the last
	// (re)start: that many rounds of "quiescence, then one more block".
	verifC13FRounds = 30

	verifC13FWatchdog = 120 * time.Second
)

type verifC13FOutcome struct {
	// Terminal outcome (verdict-bearing).
	ClosedRecorded bool   `json:"closed_recorded"`
	PendingClose   bool   `json:"pending_close"`
	FullyClosed    bool   `json:"fully_closed"`
	CloseType      string `json:"close_type"`

	// Diagnostic only.
	StillOpen bool   `json:"still_open"`
	Log       string `json:"arbitrator_log"`

	Writes     int      `json:"writes"`
	Sites      []string `json:"sites"`
	StopSite   string   `json:"stop_site,omitempty"`
	Stopped    bool     `json:"stopped"`
	Rounds     int      `json:"rounds_until_fully_closed"`
	ZombieWr   int      `json:"zombie_writes_refused"`
	Redeliver  bool     `json:"close_redelivered"`
	ArbsAtBoot int      `json:"arbitrators_after_restart"`
	SlowBlocks []string `json:"slow_blocks,omitempty"`
	LateStop   bool     `json:"stop_after_observed_quiescence,omitempty"`

	// ShutdownWrites: writes committed inside ChainArbitrator.Stop.
	ShutdownWrites int `json:"writes_during_shutdown,omitempty"`
}

func (o *verifC13FOutcome) terminal() string {
	return fmt.Sprintf("closed-recorded=%v pending-close=%v fully-closed=%v "+
		"type=%s", o.ClosedRecorded, o.PendingClose, o.FullyClosed,
		o.CloseType)
}

func verifC13FWithin(t testing.TB, what string, fn func()) {
	done := make(chan struct{})
	go func() {
		defer close(done)
		fn()
	}()
	select {
	case <-done:
	case <-time.After(verifC13FWatchdog):
		buf := make([]byte, 1<<18)
		n := runtime.Stack(buf, true)
		t.Fatalf("verif: %s did not return within the watchdog\n%s",
			what, buf[:n])
	}
}

// verifC13FQuiesce waits until every goroutine is parked and nothing was
// committed meanwhile, or until stop is closed (returns true then).
func verifC13FQuiesce(t testing.TB, kv *verifC13FKV,
	stop chan struct{}) bool {

	deadline := time.Now().Add(verifC13FWatchdog)
	stable := 0
	last := kv.Commits()
	for stable < 6 {
		if stop != nil {
			select {
			case <-stop:
				return true
			default:
			}
		}
		runtime.Gosched()
		parked := verifCCAllParked()
		cur := kv.Commits()
		if parked && cur == last {
			stable++
		} else {
			stable = 0
		}
		last = cur
		if time.Now().After(deadline) {
			buf := make([]byte, 1<<18)
			n := runtime.Stack(buf, true)
			t.Fatalf("verif: no quiescence within the watchdog\n%s",
				buf[:n])
		}
	}
	if stop != nil {
		select {
		case <-stop:
			return true
		default:
		}
	}

	return false
}

type verifC13FProc struct {
	db  *channeldb.DB
	arb *ChainArbitrator
}

func verifC13FBoot(t testing.TB, kv *verifC13FKV, w *verifC13FWorld,
	height int32) *verifC13FProc {

	db, err := channeldb.CreateWithBackend(kv)
	if err != nil {
		t.Fatalf("verif: channeldb: %v", err)
	}
	p := &verifC13FProc{db: db}
	p.arb = NewChainArbitrator(verifC13FCfg(w), db)
	verifC13FWithin(t, "ChainArbitrator.Start", func() {
		err = p.arb.Start(newBeatFromHeight(height))
	})
	if err != nil {
		t.Fatalf("verif: ChainArbitrator.Start: %v", err)
	}

	return p
}

func (p *verifC13FProc) block(t testing.TB, height int32) {
	verifC13FWithin(t, "ChainArbitrator.ProcessBlock", func() {
		_ = p.arb.ProcessBlock(newBeatFromHeight(height))
	})
}

func (p *verifC13FProc) stop(t testing.TB) {
	verifC13FWithin(t, "ChainArbitrator.Stop", func() {
		_ = p.arb.Stop()
	})
}

// deliver plays the chain watcher of the (still open) channel: it reports the
// close to the channel arbitrator. Returns false if the process has no
// arbitrator of an open channel for chanPoint.
func (p *verifC13FProc) deliver(t testing.TB, s *verifC13FCase,
	ch *channeldb.OpenChannel) bool {

	chanPoint := ch.FundingOutpoint
	p.arb.Lock()
	arb := p.arb.activeChannels[chanPoint]
	p.arb.Unlock()
	if arb == nil || arb.cfg.IsPendingClose ||
		arb.cfg.ChainEvents == nil ||
		arb.cfg.ChainEvents.RemoteUnilateralClosure == nil {

		return false
	}
	ev := arb.cfg.ChainEvents

	closeTxid := chainhash.Hash{0x01, 0x02, 0x03, byte(len(s.Kind))}
	closeTx := &wire.MsgTx{Version: 2}
	spend := &chainntnfs.SpendDetail{
		SpentOutPoint:  &chanPoint,
		SpenderTxHash:  &closeTxid,
		SpendingTx:     closeTx,
		SpendingHeight: int32(s.CloseHeight),
	}
	summary := channeldb.ChannelCloseSummary{
		ChanPoint:               chanPoint,
		ChainHash:               ch.ChainHash,
		ClosingTXID:             closeTxid,
		CloseHeight:             s.CloseHeight,
		RemotePub:               ch.IdentityPub,
		Capacity:                ch.Capacity,
		SettledBalance:          0,
		IsPending:               true,
		ShortChanID:             ch.ShortChanID(),
		RemoteCurrentRevocation: ch.RemoteCurrentRevocation,
		RemoteNextRevocation:    ch.RemoteNextRevocation,
		LocalChanConfig:         ch.LocalChanCfg,
	}
	commitSet := func(key HtlcSetKey) CommitSet {
		return CommitSet{
			ConfCommitKey: fn.Some(key),
			HtlcSets: map[HtlcSetKey][]channeldb.HTLC{
				key: {},
			},
		}
	}

	var send func() bool
	timeout := time.After(verifC13FWatchdog)
	switch s.Kind {
	case "remote", "pending-remote":
		key := RemoteHtlcSet
		if s.Kind == "pending-remote" {
			key = RemotePendingHtlcSet
		}
		summary.CloseType = channeldb.RemoteForceClose
		info := &RemoteUnilateralCloseInfo{
			UnilateralCloseSummary: &lnwallet.UnilateralCloseSummary{
				SpendDetail:         spend,
				ChannelCloseSummary: summary,
				HtlcResolutions:     &lnwallet.HtlcResolutions{},
			},
			CommitSet: commitSet(key),
		}
		send = func() bool {
			select {
			case ev.RemoteUnilateralClosure <- info:
				return true
			case <-timeout:
				return false
			}
		}

	case "local":
		summary.CloseType = channeldb.LocalForceClose
		info := &LocalUnilateralCloseInfo{
			SpendDetail: spend,
			LocalForceCloseSummary: &lnwallet.LocalForceCloseSummary{
				ChanPoint: chanPoint,
				CloseTx:   closeTx,
				ContractResolutions: fn.Some(
					lnwallet.ContractResolutions{
						HtlcResolutions: &lnwallet.
							HtlcResolutions{},
					},
				),
			},
			ChannelCloseSummary: &summary,
			CommitSet:           commitSet(LocalHtlcSet),
		}
		send = func() bool {
			select {
			case ev.LocalUnilateralClosure <- info:
				return true
			case <-timeout:
				return false
			}
		}

	case "coop":
		summary.CloseType = channeldb.CooperativeClose
		info := &CooperativeCloseInfo{ChannelCloseSummary: &summary}
		send = func() bool {
			select {
			case ev.CooperativeClosure <- info:
				return true
			case <-timeout:
				return false
			}
		}

	case "breach":
		summary.CloseType = channeldb.BreachClose
		info := &BreachCloseInfo{
			BreachResolution: &BreachResolution{
				FundingOutPoint: chanPoint,
			},
			CommitHash:   closeTxid,
			CommitSet:    commitSet(RemoteHtlcSet),
			CloseSummary: summary,
		}
		send = func() bool {
			select {
			case ev.ContractBreach <- info:
				return true
			case <-timeout:
				return false
			}
		}
	}
	if !send() {
		t.Fatalf("verif: close event not consumed")
	}

	return true
}

// verifC13FObserve reads the terminal outcome from the database through a
// fresh channeldb.DB (what the next process would see).
func verifC13FObserve(t testing.TB, kv *verifC13FKV,
	chanPoint wire.OutPoint, o *verifC13FOutcome) {

	db, err := channeldb.CreateWithBackend(kv)
	if err != nil {
		t.Fatalf("verif: channeldb: %v", err)
	}
	cs := db.ChannelStateDB()

	open, err := cs.FetchAllChannels()
	if err != nil {
		t.Fatalf("verif: FetchAllChannels: %v", err)
	}
	o.StillOpen = len(open) > 0

	pending, err := cs.FetchClosedChannels(true)
	if err != nil {
		t.Fatalf("verif: FetchClosedChannels(true): %v", err)
	}
	for _, c := range pending {
		if c.ChanPoint == chanPoint {
			o.PendingClose = true
		}
	}
	all, err := cs.FetchClosedChannels(false)
	if err != nil {
		t.Fatalf("verif: FetchClosedChannels(false): %v", err)
	}
	for _, c := range all {
		if c.ChanPoint == chanPoint {
			o.ClosedRecorded = true
			o.CloseType = fmt.Sprintf("%d", c.CloseType)
			if !c.IsPending {
				o.FullyClosed = true
			}
		}
	}

	// Arbitrator log: scope bucket gone = wiped (or never written).
	bl, err := newBoltArbitratorLog(
		kv, ChannelArbitratorConfig{}, chainhash.Hash{}, chanPoint,
	)
	if err != nil {
		t.Fatalf("verif: arbitrator log: %v", err)
	}
	o.Log = "none"
	_ = kvdb.View(kv, func(tx kvdb.RTx) error {
		b := tx.ReadBucket(bl.scopeKey[:])
		if b == nil {
			return nil
		}
		o.Log = "present"
		if v := b.Get(stateKey[:]); len(v) == 1 {
			o.Log = "present:" + ArbitratorState(v[0]).String()
		}

		return nil
	}, func() {})
}

// verifC13FRun runs one case; stopAt = 0: uninterrupted, else the process is
// stopped right after the stopAt-th committed write counted from the delivery
// of the close, and restarted.
func verifC13FRun(t *testing.T, dbPath string, s *verifC13FCase,
	stopAt int, ch *channeldb.OpenChannel) *verifC13FOutcome {

	inner, err := kvdb.Create(
		kvdb.BoltBackendName, dbPath, true, kvdb.DefaultDBTimeout,
		false,
	)
	if err != nil {
		t.Fatalf("verif: kvdb: %v", err)
	}
	kv := &verifC13FKV{inner: inner, stopped: make(chan struct{})}
	defer kv.Close()

	// Breach already complete when the resolver asks, unless BreachLate.
	w := &verifC13FWorld{breachDone: !s.BreachLate}
	out := &verifC13FOutcome{Rounds: -1}

	// A channel of ours, written to the database.
	setupDB, err := channeldb.CreateWithBackend(kv)
	if err != nil {
		t.Fatalf("verif: channeldb: %v", err)
	}
	ch.Db = setupDB.ChannelStateDB()
	addr := &net.TCPAddr{IP: net.ParseIP("127.0.0.1"), Port: 18556}
	if err := ch.SyncPending(addr, 90); err != nil {
		t.Fatalf("verif: SyncPending: %v", err)
	}
	if s.MarkOpen {
		scid := lnwire.ShortChannelID{BlockHeight: 91, TxIndex: 1}
		if err := ch.MarkAsOpen(scid); err != nil {
			t.Fatalf("verif: MarkAsOpen: %v", err)
		}
	}
	chanPoint := ch.FundingOutpoint

	height := int32(s.CloseHeight) - int32(s.BlocksBefore) - 1
	p := verifC13FBoot(t, kv, w, height)
	for i := 0; i < s.BlocksBefore; i++ {
		height++
		p.block(t, height)
	}
	verifC13FQuiesce(t, kv, nil)

	// From here on writes are counted (and the stop is armed).
	base := kv.Commits()
	stopCh := kv.arm(stopAt)
	if !p.deliver(t, s, ch) {
		t.Fatalf("verif: no arbitrator for the open channel")
	}
	height = int32(s.CloseHeight)

	resolved := func() bool {
		c, err := p.db.ChannelStateDB().FetchClosedChannel(&chanPoint)

		return err == nil && !c.IsPending
	}

	fired := func() bool {
		if stopAt == 0 || out.Stopped {
			return false
		}
		select {
		case <-stopCh:
			return true
		default:
			return false
		}
	}

	// restart: the process is gone. Let the zombie run into the frozen
	// database, reap it, restart on what is durable.
	restart := func() {
		verifC13FQuiesce(t, kv, nil)
		p.stop(t)
		w.dropSubs()

		kv.mu.Lock()
		out.Stopped = true
		out.StopSite = kv.stopSite
		out.ZombieWr = kv.zombieWr
		kv.mu.Unlock()
		kv.arm(0)

		p = verifC13FBoot(t, kv, w, height)
		p.arb.Lock()
		out.ArbsAtBoot = len(p.arb.activeChannels)
		p.arb.Unlock()

		// A restarted chain watcher of a channel that is still open
		// finds the spend of the funding output again.
		out.Redeliver = p.deliver(t, s, ch)
		stopCh = nil
	}

	// Drive: quiescence, then one more block, for a bounded number of
	// rounds or until the channel is fully closed. A stop ends the first
	// process wherever it is.
drive:
	for round := 0; round <= verifC13FRounds; round++ {
		verifC13FQuiesce(t, kv, stopCh)

		done := false
		if !fired() && resolved() {
			// Nothing may be left running when the outcome is
			// read.
			verifC13FQuiesce(t, kv, stopCh)
			done = !fired()
		}
		if done {
			out.Rounds = round

			break
		}

		if !fired() {
			// The breach arbitrator gets its justice transaction
			// confirmed.
			if s.Kind == "breach" && w.completeBreach() {
				// Its consequences are awaited before the
				// next block (a stop must not fall into the
				// dispatch of a block: the dispatcher would
				// wait a minute for the dead consumer).
				continue
			}

			height++
			t0 := time.Now()
			p.block(t, height)
			if d := time.Since(t0); d > 20*time.Second {
				out.SlowBlocks = append(out.SlowBlocks,
					fmt.Sprintf("round=%d height=%d "+
						"stopped=%v site=%s fired=%v %v",
						round, height, out.Stopped,
						out.StopSite, fired(), d))
			}
		}

		if fired() {
			restart()
			round = -1
		}
	}

	// The outcome is read with nothing left running. A stop that falls
	// only now (after quiescence had been observed) is a stop like any
	// other.
	verifC13FQuiesce(t, kv, stopCh)
	if !fired() {
		// Writes that only happen while the process shuts down (seen
		// on the unchanged tree: a second NotifyChannelResolved from
		// the channel arbitrator blocks on the resolveContracts
		// goroutine, which is inside ResolveContract waiting for that
		// very arbitrator to stop; ChainArbitrator.Stop releases
		// both and the log is wiped then) are stop points too.
		before := kv.Commits()
		p.stop(t)
		out.ShutdownWrites += kv.Commits() - before
	}
	if fired() {
		out.LateStop = true
		restart()

		goto drive
	}

	kv.mu.Lock()
	out.Writes = kv.commits - base
	out.Sites = append([]string(nil), kv.sites[base:]...)
	kv.mu.Unlock()

	verifC13FObserve(t, kv, chanPoint, out)

	return out
}

// ---------------------------------------------------------------------------
// Test
// ---------------------------------------------------------------------------

func TestVerifC13Final(t *testing.T) {
	vc := verifStart(t, "C13", "finalstage")
	defer vc.Finish()

	dir := verifCCScratch(t)
	dbn := 0
	nextDB := func() string {
		dbn++

		return fmt.Sprintf("%s/final-%d.db", dir, dbn)
	}

	// One channel state serves every run (it is only the template that is
	// written to each run's database; lnd works on what it reads back).
	lc, _, err := lnwallet.CreateTestChannels(
		t, channeldb.SingleFunderTweaklessBit,
	)
	if err != nil {
		t.Fatalf("verif: CreateTestChannels: %v", err)
	}
	ch := lc.State()
	chPending, chScid := ch.IsPending, ch.ShortChannelID

	total := vc.N(96, 1200)
	for i := 0; i < total; i++ {
		if !vc.Mine(i) {
			continue
		}
		r := vc.Rng(i)
		s := verifC13FGen(r)
		vc.Case(i, s)

		ch.IsPending, ch.ShortChannelID = chPending, chScid
		ref := verifC13FRun(t, nextDB(), &s, 0, ch)
		vc.Count("final_scenarios", 1)
		vc.Count("final_uninterrupted_writes", int64(ref.Writes))
		vc.Max("final_writes_per_scenario", int64(ref.Writes))

		if !ref.FullyClosed || ref.PendingClose {
			// The comparison would be vacuous.
			vc.Count("final_reference_not_resolved", 1)
			vc.Diag("final_reference_not_resolved", fmt.Sprintf(
				"case %d %+v: %+v", i, s, ref))
			vc.CaseDone(i)

			continue
		}
		if ref.ShutdownWrites > 0 {
			vc.Count("final_reference_writes_only_at_shutdown", 1)
			vc.Diag("final_writes_only_at_shutdown", fmt.Sprintf(
				"case %d %s: uninterrupted run parked with %d "+
					"write(s) outstanding until "+
					"ChainArbitrator.Stop (sites %v)", i,
				s.Kind, ref.ShutdownWrites, ref.Sites))
		}
		if ref.Log != "none" {
			vc.Count("final_reference_log_left", 1)
			vc.Diag("final_reference_log_left", fmt.Sprintf(
				"case %d %+v: log=%s", i, s, ref.Log))
		}

		for k := 1; k <= ref.Writes; k++ {
			ch.IsPending, ch.ShortChannelID = chPending, chScid
			got := verifC13FRun(t, nextDB(), &s, k, ch)
			vc.Count("stop_runs", 1)
			vc.Count("final_stop_runs", 1)
			if !got.Stopped {
				vc.Count("final_stop_not_reached", 1)

				continue
			}
			vc.Sig("final|" + s.Kind + "|" + got.StopSite)
			for _, sb := range got.SlowBlocks {
				vc.Count("final_slow_blocks", 1)
				vc.Diag("final_slow_block", fmt.Sprintf(
					"case %d %s k=%d: %s", i, s.Kind, k, sb))
			}
			if got.LateStop {
				vc.Count("final_stop_after_observed_quiescence", 1)
			}
			if got.ZombieWr > 0 {
				vc.Count("final_zombie_writes_refused",
					int64(got.ZombieWr))
			}

			vc.Count("oracle_final_terminal_evals", 1)
			if got.terminal() != ref.terminal() {
				// Bounded progress: the reference must have
				// got there within a tenth of the bound.
				if ref.Rounds < 0 ||
					ref.Rounds > verifC13FRounds/10 {

					t.Fatalf("verif: reference needed %d "+
						"rounds, bound %d: inconclusive",
						ref.Rounds, verifC13FRounds)
				}
				vc.Violation("same_terminal_state", fmt.Sprintf(
					"final-stage:%s:stop-after=%s", s.Kind,
					got.StopSite), fmt.Sprintf(
					"stopped right after write %d (%s) and "+
						"restarted with ChainArbitrator."+
						"Start: terminal {%s} after %d "+
						"rounds of quiescence+block with "+
						"all goroutines parked, "+
						"uninterrupted run: {%s} after %d "+
						"round(s); arbitrator log: %s "+
						"(uninterrupted: %s)", k,
					got.StopSite, got.terminal(),
					verifC13FRounds, ref.terminal(),
					ref.Rounds, got.Log, ref.Log),
					map[string]any{"scenario": s, "stop": k,
						"uninterrupted": ref, "run": got})
			} else if got.Log != ref.Log {
				// Not part of the statement: a log left
				// behind for a fully closed channel.
				vc.Count("final_log_differs", 1)
				vc.Diag("final_log_differs", fmt.Sprintf(
					"%s stop-after=%s: log=%s, "+
						"uninterrupted: %s", s.Kind,
					got.StopSite, got.Log, ref.Log))
			}
		}
		if i%7 == 0 {
			vc.Sample(map[string]any{"scenario": s,
				"uninterrupted": ref})
		}
		vc.CaseDone(i)
	}
}
