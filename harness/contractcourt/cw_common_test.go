package contractcourt

// Shared by the chain-watcher paths of C04 (c04cw_test.go) and C05
// (c05cw_test.go): a REAL, STARTED chainWatcher over a given (stale) instance of
// a party's channel state, delivery of a transaction as the spend of the
// funding outpoint through the notifier channel, and everything the watcher
// did with it (contractBreach callback, the four close event streams, its log).
//
// Synchronisation without sleeping: the spend is put into the notifier's
// buffered channel, then two blockbeats are pushed through the watcher's
// BeatConsumer. closeObserver is a single goroutine, so when the second beat
// has been processed the iteration that consumed the spend - including
// handleCommitSpend and every dispatch - has returned (multi-confirmation mode:
// two beats, the confirmation, two more beats). Only a watcher that does not
// come back (the data-loss wait of handleUnknownRemoteState, recognised through
// its log line, or the generous deadline) is handled by time.

import (
	"fmt"
	"runtime/debug"
	"strings"
	"sync"
	"sync/atomic"
	"testing"
	"time"

	"github.com/btcsuite/btcd/address/v2"
	"github.com/btcsuite/btcd/wire/v2"
	"github.com/btcsuite/btclog/v2"
	"github.com/lightningnetwork/lnd/chainio"
	"github.com/lightningnetwork/lnd/chainntnfs"
	"github.com/lightningnetwork/lnd/channeldb"
	"github.com/lightningnetwork/lnd/fn/v2"
	"github.com/lightningnetwork/lnd/input"
	lnmock "github.com/lightningnetwork/lnd/lntest/mock"
	"github.com/lightningnetwork/lnd/lnwallet"
)

// generous watchdog for one asynchronous dispatch.
const verifCwDeadline = 30 * time.Second

// verifCwLogSink receives the contractcourt ("CNCT") log lines while a spend
// is being delivered; handleCommitSpend's error is only logged by
// closeObserver, this is where it is read.
type verifCwLogSink struct {
	mu    sync.Mutex
	on    bool
	lines []string
}

func (s *verifCwLogSink) Write(p []byte) (int, error) {
	s.mu.Lock()
	if s.on && len(s.lines) < 40 {
		l := strings.TrimSpace(string(p))
		if len(l) > 400 {
			l = l[:400] + "..."
		}
		s.lines = append(s.lines, l)
	}
	s.mu.Unlock()
	return len(p), nil
}

func (s *verifCwLogSink) start() {
	s.mu.Lock()
	s.on, s.lines = true, nil
	s.mu.Unlock()
}

func (s *verifCwLogSink) snapshot() []string {
	s.mu.Lock()
	defer s.mu.Unlock()
	return append([]string(nil), s.lines...)
}

func (s *verifCwLogSink) stop() []string {
	s.mu.Lock()
	defer s.mu.Unlock()
	s.on = false
	return append([]string(nil), s.lines...)
}

var (
	verifCwSink   = &verifCwLogSink{}
	verifCwLogger btclog.Logger
)

// verifCwInstallLog routes the package logger of the chain watcher into
// the sink (level Off outside a delivery window). Returns the restore func.
func verifCwInstallLog() func() {
	old := log
	verifCwLogger = btclog.NewSLogger(btclog.NewDefaultHandler(
		verifCwSink, btclog.WithNoTimestamp(),
	))
	verifCwLogger.SetLevel(btclog.LevelOff)
	log = verifCwLogger
	return func() { log = old }
}

// verifCwWatch is one started chain watcher over one instance of a party's
// channel state, decoded from that party's live database at load time.
type verifCwWatch struct {
	w        *chainWatcher
	ntfr     *lnmock.ChainNotifier
	sub      *ChainEventSubscription
	loadedAt uint64 // RemoteCommitment.CommitHeight of the instance at load
	stopped  bool

	// multiConf: the production mode (confirmations scaled with the
	// capacity): the spend is first tracked as pending and handled when the
	// confirmation notification fires. Otherwise the single-confirmation
	// mode of the package's own tests (handled on spend detection).
	multiConf bool

	mu       sync.Mutex
	breaches []*lnwallet.BreachRetribution
	panicked string // the observer goroutine died with this panic
}

func (wt *verifCwWatch) stop() {
	if wt.stopped {
		return
	}
	wt.stopped = true
	wt.sub.Cancel()
	_ = wt.w.Stop()
}

// verifCwOutcome is everything the watcher did with one spend.
type verifCwOutcome struct {
	breaches []*lnwallet.BreachRetribution // contractBreach callback
	breachEv *BreachCloseInfo
	remote   *RemoteUnilateralCloseInfo
	local    *LocalUnilateralCloseInfo
	coop     *CooperativeCloseInfo
	returned bool   // the closeObserver iteration that took the spend returned
	dlpWait  bool   // the watcher sits in the data-loss commit point wait
	panicked string // the observer goroutine panicked while handling the spend
	logs     []string
	dur      time.Duration
}

func (o *verifCwOutcome) errLines() []string {
	var out []string
	for _, l := range o.logs {
		if strings.Contains(l, "[ERR]") || strings.Contains(l, "[CRT]") {
			out = append(out, l)
		}
	}
	return out
}

func (o *verifCwOutcome) String() string {
	return fmt.Sprintf("breach retributions handed to contractBreach=%d, breach event=%v, "+
		"remote unilateral close event=%v, local unilateral close event=%v, cooperative close "+
		"event=%v, handler returned=%v, data-loss wait=%v, took %v\nwatcher log:\n  %s\n%s",
		len(o.breaches), o.breachEv != nil, o.remote != nil, o.local != nil, o.coop != nil,
		o.returned, o.dlpWait, o.dur, strings.Join(o.logs, "\n  "), o.panicked)
}

// verifCwDeliver delivers tx as the spend of the funding outpoint to the started
// watcher, waits until the watcher is done with it, stops the watcher and
// reports what it dispatched.
func verifCwDeliver(t testing.TB, vc *lnwallet.VerifCtx, wt *verifCwWatch, tx *wire.MsgTx,
	spendHeight int32) *verifCwOutcome {

	out := &verifCwOutcome{}
	txid := tx.TxHash()
	fundingOp := wt.w.cfg.chanState.FundingOutpoint
	spend := &chainntnfs.SpendDetail{
		SpentOutPoint: &fundingOp, SpenderTxHash: &txid, SpendingTx: tx,
		SpenderInputIndex: 0, SpendingHeight: spendHeight,
	}

	verifCwSink.start()
	verifCwLogger.SetLevel(btclog.LevelInfo)
	begin := time.Now()

	select {
	case wt.ntfr.SpendChan <- spend:
	default:
		t.Fatalf("chain watcher harness: spend channel of an unused watcher is full")
	}
	done := make(chan struct{})
	go func() {
		defer close(done)
		height := spendHeight
		beats := func() {
			for k := 0; k < 2; k++ {
				_ = wt.w.ProcessBlock(chainio.NewBeat(chainntnfs.BlockEpoch{
					Height: height,
				}))
				height++
			}
		}
		// after these the spend has been taken: handled (single
		// confirmation) or tracked as pending with a confirmation
		// registration (multi confirmation).
		beats()
		if wt.multiConf {
			select {
			case wt.ntfr.ConfChan <- &chainntnfs.TxConfirmation{
				BlockHeight: uint32(height), Tx: tx,
			}:
			default:
			}
			// after these the confirmation has been handled.
			beats()
		}
	}()

	deadline := time.NewTimer(verifCwDeadline)
	defer deadline.Stop()
	tick := time.NewTicker(2 * time.Millisecond)
	defer tick.Stop()
wait:
	for {
		select {
		case <-done:
			out.returned = true
			break wait
		case <-tick.C:
			wt.mu.Lock()
			out.panicked = wt.panicked
			wt.mu.Unlock()
			if out.panicked != "" {
				break wait
			}
			// handleUnknownRemoteState of a non-tweakless channel
			// never returns: it polls for the data-loss commit
			// point and says so.
			for _, l := range verifCwSink.snapshot() {
				if strings.Contains(l, "Unable to retrieve commitment point") {
					out.dlpWait = true
					break wait
				}
			}
		case <-deadline.C:
			break wait
		}
	}
	out.dur = time.Since(begin)

	// Stop first: it ends a watcher that did not return (quit), and after it
	// nothing is written any more.
	wt.stop()
	<-done
	verifCwLogger.SetLevel(btclog.LevelOff)
	out.logs = verifCwSink.stop()

	wt.mu.Lock()
	out.breaches = append(out.breaches, wt.breaches...)
	wt.mu.Unlock()
	select {
	case out.breachEv = <-wt.sub.ContractBreach:
	default:
	}
	select {
	case out.remote = <-wt.sub.RemoteUnilateralClosure:
	default:
	}
	select {
	case out.local = <-wt.sub.LocalUnilateralClosure:
	default:
	}
	select {
	case out.coop = <-wt.sub.CooperativeClosure:
	default:
	}

	if wt.multiConf {
		vc.Count("cw_multi_conf_deliveries", 1)
	} else {
		vc.Count("cw_single_conf_deliveries", 1)
	}
	if out.returned {
		us := out.dur.Microseconds()
		vc.Max("cw_dispatch_us", us)
		switch {
		case us < 10_000:
			vc.Count("cw_dispatch_lt_10ms", 1)
		case us < 100_000:
			vc.Count("cw_dispatch_lt_100ms", 1)
		case us < 1_000_000:
			vc.Count("cw_dispatch_lt_1s", 1)
		default:
			vc.Count("cw_dispatch_ge_1s", 1)
		}
	}
	return out
}

// verifCwNewWatch creates, subscribes to and starts a real chain watcher over
// the given instance of a party's channel state.
func verifCwNewWatch(t testing.TB, st *channeldb.OpenChannel, signer input.Signer,
	multiConf bool) *verifCwWatch {

	wt := &verifCwWatch{
		ntfr: &lnmock.ChainNotifier{
			SpendChan: make(chan *chainntnfs.SpendDetail, 1),
			EpochChan: make(chan *chainntnfs.BlockEpoch),
			ConfChan:  make(chan *chainntnfs.TxConfirmation, 1),
		},
		loadedAt:  st.RemoteCommitment.CommitHeight,
		multiConf: multiConf,
	}
	confs := fn.Some(uint32(1))
	if multiConf {
		confs = fn.None[uint32]()
	}
	var err error
	wt.w, err = newChainWatcher(chainWatcherConfig{
		chanState:           st,
		notifier:            wt.ntfr,
		signer:              signer,
		extractStateNumHint: lnwallet.GetStateNumHint,
		isOurAddr:           func(address.Address) bool { return false },
		chanCloseConfs:      confs,
		contractBreach: func(r *lnwallet.BreachRetribution) error {
			wt.mu.Lock()
			wt.breaches = append(wt.breaches, r)
			wt.mu.Unlock()
			return nil
		},
	})
	if err != nil {
		t.Fatalf("chain watcher harness: newChainWatcher: %v", err)
	}
	wt.sub = wt.w.SubscribeChannelEvents()

	// chainWatcher.Start() spelled out (started flag, wg, go
	// closeObserver()), with the one difference that a panic of the
	// observer goroutine is recorded as an outcome instead of killing the
	// test process.
	atomic.StoreInt32(&wt.w.started, 1)
	wt.w.wg.Add(1)
	go func() {
		defer func() {
			if r := recover(); r != nil {
				st := string(debug.Stack())
				if len(st) > 3000 {
					st = st[:3000]
				}
				wt.mu.Lock()
				wt.panicked = fmt.Sprintf("panic: %v\n%s", r, st)
				wt.mu.Unlock()
			}
		}()
		wt.w.closeObserver()
	}()
	return wt
}
