package contractcourt

import (
	"testing"

	"github.com/lightningnetwork/lnd/lnwallet"
)

func TestVerifProbeE1Export(t *testing.T) {
	vc := lnwallet.VerifStart(t, "CXX", "probe")
	defer vc.Finish()
	r := vc.Rng(0)
	p := lnwallet.VerifE1GenParams(r)
	e, err := lnwallet.VerifE1New(vc, r, p)
	if err != nil {
		t.Skip(err)
	}
	defer e.Close()
	for i := 0; i < 30 && !e.Ended(); i++ {
		e.Step(true)
		e.CheckStep()
	}
	e.Drain(true)
	t.Logf("held A=%d B=%d htlcs=%d", len(e.HeldTxs(0)), len(e.HeldTxs(1)), len(e.Htlcs()))
}
