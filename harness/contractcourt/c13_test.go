package contractcourt

// C13 monitor: contract resolution survives restarts.
//
// Per generated close scenario the real ChannelArbitrator + real resolvers +
// real bolt arbitrator log are run to their terminal state against the
// restart-robust world model of c12c13_common_test.go, once uninterrupted
// (outcome O, W durable writes) and then once per k in 1..W with the process
// stopped right after durable write k and restarted on the same database (as
// ChainArbitrator.Start would). The outcome of every interrupted run is
// compared with O.
//
// Stop semantics: the kvdb interposer freezes the database right after commit
// k (every later write fails) and, in the same instant and in the committing
// goroutine, marks the process dead: nothing it does afterwards reaches the
// world (switch, chain, sweeper, notifier). That is exactly "the process
// stopped at this instant" for the committing goroutine, with every other
// goroutine stopped wherever it happened to be. The zombie is then reaped with
// Stop() and a new incarnation is started from what is durable.

import (
	"fmt"
	"os"
	"sort"
	"strings"
	"testing"

	"github.com/btcsuite/btcd/wire/v2"
)

type verifC13Scenario struct {
	Kind        string        `json:"kind"` // local|remote|pending|breach|coop
	Via         string        `json:"via"`  // conf | user
	Anchors     bool          `json:"anchors"`
	WithCommit  bool          `json:"withCommit"`
	WithAnchor  bool          `json:"withAnchor"`
	WithPending bool          `json:"withPending"`
	Start       int32         `json:"start"`
	Htlcs       []verifCCHtlc `json:"htlcs"`
}

const verifC13ConfOffset = 3 // the commitment confirms at Start+3

func verifC13Gen(r *verifRng) verifC13Scenario {
	s := verifC13Scenario{
		Start:      int32(1000 + r.Intn(20)),
		Anchors:    r.Chance(2, 3),
		WithCommit: r.Chance(2, 3),
		WithAnchor: r.Chance(1, 2),
	}
	s.Kind = []string{"local", "local", "local", "remote", "remote",
		"remote", "pending", "breach", "coop"}[r.Intn(9)]
	s.WithPending = s.Kind == "pending" || r.Chance(1, 2)
	s.Via = "conf"
	if s.Kind == "local" || r.Chance(1, 4) {
		s.Via = "user"
	}
	if s.Kind == "coop" {
		s.Via = "conf"
		return s
	}

	n := []int{0, 1, 2, 2, 3, 3, 4, 4}[r.Intn(8)]
	var nOut, nIn uint64
	conf := s.Start + verifC13ConfOffset
	for i := 0; i < n; i++ {
		h := verifCCHtlc{
			Incoming:  r.Bool(),
			Forwarded: true,
			// distinct amounts tie reports to HTLCs
			AmtMsat: uint64(20000+1000*i+r.Intn(900)) * 1000,
			Expiry:  uint32(conf) + uint32(10+r.Intn(12)),
		}
		if h.Incoming {
			h.Idx = nIn
			nIn++
		} else {
			h.Idx = nOut
			nOut++
		}
		near := r.Chance(1, 6)
		if near {
			h.Expiry = uint32(conf) + uint32(3+r.Intn(3))
		}
		verifCCPresence(r, &h, s.WithPending)
		// Half of the HTLCs sit on every commitment (that is where the
		// resolvers are); the others keep the protocol-legal presence
		// pattern drawn above (freshly added on one side only, being
		// removed, ...), so the commitments of the persisted commit
		// set differ in content and in output indexes.
		if r.Chance(1, 2) {
			h.OnL, h.OnR = true, true
			if s.WithPending {
				h.OnP = true
			}
		}
		switch r.Intn(10) {
		case 0, 1:
			h.DustL, h.DustR, h.DustP = true, true, true
		case 2:
			// Dust limits / second-level fees differ per side.
			h.DustL = true
		case 3:
			h.DustR, h.DustP = true, true
		}
		if h.Incoming {
			switch r.Intn(4) {
			case 0: // never learned: the peer times it out
			case 1:
				h.PreKnown = true
			case 2:
				h.PreKnown, h.PreInvoice = true, true
			case 3:
				if !near {
					h.LearnAt = conf + int32(2+r.Intn(4))
				}
			}
		} else if r.Chance(1, 2) && !near && !(h.DustL && !h.DustR) {
			// (An HTLC that is dust on ours but an output on theirs
			// is failed back as soon as we broadcast - lnd's
			// documented dust trade-off, a C12 diagnostic. A later
			// on-chain claim by the peer would then contradict that
			// fail-back in every run, restart or not, so such HTLCs
			// are left to time out.)
			h.RemoteClaimAt = conf + int32(2+r.Intn(4))
		}
		s.Htlcs = append(s.Htlcs, h)
	}

	return s
}

// verifC13Outcome is what a run left behind in the world.
type verifC13Outcome struct {
	Resolved    bool                `json:"resolved"`
	State       string              `json:"state"`
	Upstream    map[string][]string `json:"upstream"`
	Finals      map[string][]string `json:"finals"`
	Reports     []string            `json:"reports"`
	AnchorRep   []string            `json:"anchorReports"`
	Published   int                 `json:"published"`
	ForceCloses int                 `json:"forceCloses"`
	ResolvedBad []string            `json:"resolvedBad"`
	Writes      int                 `json:"writes"`
	Kinds       []string            `json:"writeKinds"`
	Restarts    int                 `json:"restarts"`
	RestartIn   []string            `json:"restartInState"`
	StopKinds   []string            `json:"stopAfter"`
	Lost        []string            `json:"lostResolvers"`
	Unresolved  []string            `json:"unresolvedAtEnd"`
	EndHeight   int32               `json:"endHeight"`
	Diags       []string            `json:"diags"`
	PostMortem  int                 `json:"postMortemCalls"`
}

func verifC13Collect(w *verifCCWorld, p *verifCCProc) *verifC13Outcome {
	o := &verifC13Outcome{
		Upstream: map[string][]string{},
		Finals:   map[string][]string{},
	}
	w.mu.Lock()
	o.Resolved = w.resolvedN > 0
	up := map[string]map[string]bool{}
	for _, m := range w.switchMsgs {
		k := fmt.Sprintf("out#%d", m.Idx)
		v := "fail"
		if m.Settle {
			v = "settle:" + m.Preimage
		}
		if up[k] == nil {
			up[k] = map[string]bool{}
		}
		up[k][v] = true
	}
	fin := map[string]map[string]bool{}
	for _, f := range w.finals {
		k := fmt.Sprintf("in#%d", f.Idx)
		if fin[k] == nil {
			fin[k] = map[string]bool{}
		}
		fin[k][fmt.Sprint(f.Settled)] = true
	}
	reps := map[string]bool{}
	anch := map[string]bool{}
	for _, r := range w.reports {
		s := fmt.Sprintf("%s/%s/%d", r.Type, r.Outcome, r.Amount)
		if r.Amount == 330 {
			anch[s] = true
		} else {
			reps[s] = true
		}
	}
	o.Published = len(w.published)
	o.ForceCloses = len(w.forceCloses)
	o.ResolvedBad = append(o.ResolvedBad, w.resolvedBad...)
	o.EndHeight = w.height
	o.PostMortem = w.postMortem
	w.mu.Unlock()
	for k, m := range up {
		for v := range m {
			o.Upstream[k] = append(o.Upstream[k], v)
		}
		sort.Strings(o.Upstream[k])
	}
	for k, m := range fin {
		for v := range m {
			o.Finals[k] = append(o.Finals[k], v)
		}
		sort.Strings(o.Finals[k])
	}
	for s := range reps {
		o.Reports = append(o.Reports, s)
	}
	sort.Strings(o.Reports)
	for s := range anch {
		o.AnchorRep = append(o.AnchorRep, s)
	}
	sort.Strings(o.AnchorRep)
	o.Writes = w.kv.Commits()
	o.Kinds = w.kv.Kinds()
	if p != nil {
		if bl, ok := p.arb.log.(*boltArbitratorLog); ok {
			o.State = verifCCStateString(bl)
			cs, err := bl.FetchUnresolvedContracts()
			if err == nil {
				for _, c := range cs {
					n, _, _ := verifCCResolverName(c)
					o.Unresolved = append(o.Unresolved,
						fmt.Sprintf("%s(resolved=%v)", n,
							c.IsResolved()))
				}
				sort.Strings(o.Unresolved)
			}
		}
	}

	return o
}

// verifC13Run executes one scenario. stops[i] is the number of durable writes
// (counted from the start of incarnation i) after which incarnation i is
// stopped; incarnations beyond len(stops) run to the end.
func verifC13Run(t *testing.T, dbPath string, s *verifC13Scenario,
	stops []int) *verifC13Outcome {

	kv, err := verifCCOpenKV(dbPath)
	if err != nil {
		t.Fatalf("open db: %v", err)
	}
	defer os.Remove(dbPath)
	defer kv.Close()

	w := verifCCNewWorld(kv, s.Htlcs, s.WithPending, s.Start)
	w.anchors = s.Anchors
	opts := verifCCArbOpts{
		OutDelta: 5, InDelta: 5, InitialSets: true,
	}

	var (
		cur      *verifCCProc
		inc      int
		lost     []string
		stopKind []string
		restIn   []string
		diags    []string
	)
	arm := func() {
		if inc < len(stops) && stops[inc] > 0 {
			kv.Arm(stops[inc], func() {
				if cur != nil {
					cur.kill()
				}
			})
		} else {
			kv.Arm(0, nil)
		}
	}

	// "Fully resolved only after all contracts are resolved", evaluated
	// at the instant NotifyChannelResolved is called.
	w.onResolved = func(p *verifCCProc) string {
		var bad []string
		if bl, ok := p.arb.log.(*boltArbitratorLog); ok {
			cs, err := bl.FetchUnresolvedContracts()
			if err == nil && len(cs) > 0 {
				bad = append(bad, fmt.Sprintf(
					"%d-contracts-in-log", len(cs)))
			}
		}
		if s.Kind == "local" || s.Kind == "remote" ||
			s.Kind == "pending" {

			commitHash := verifCCCommitHash(s.Kind)
			w.mu.Lock()
			for pos := range s.Htlcs {
				h := &s.Htlcs[pos]
				if !h.hasOutput(s.Kind) {
					continue
				}
				op := wire.OutPoint{
					Hash:  commitHash,
					Index: uint32(verifCCOutputIndex(
						s.Htlcs, s.Kind, pos,
					)),
				}
				_, spent := w.spends[op]
				expired := uint32(w.height) >= h.Expiry
				if !spent && !(h.Incoming && expired) {
					bad = append(bad, "htlc-output-open:"+
						h.name())
				}
			}
			if w.closeOpts[0] {
				op := wire.OutPoint{Hash: commitHash, Index: 0}
				if _, spent := w.spends[op]; !spent {
					bad = append(bad, "commit-output-open")
				}
			}
			w.mu.Unlock()
		}

		return strings.Join(bad, ",")
	}

	opts.OnProc = func(p *verifCCProc) { cur = p }
	start := func() {
		arm()
		p, err := verifCCStart(t, w, inc, opts)
		if err != nil {
			t.Fatalf("start incarnation %d: %v", inc, err)
		}
		cur = p
		w.quiesce(t, p)
	}

	// restartIfDead reaps a stopped process and starts the next
	// incarnation from what is durable (possibly several times).
	restartIfDead := func() {
		for cur.dead.Load() {
			kinds := kv.Kinds()
			stopKind = append(stopKind, kinds[len(kinds)-1])
			if bl, ok := cur.arb.log.(*boltArbitratorLog); ok {
				restIn = append(restIn, verifCCStateString(bl))
			}
			cur.stop()
			inc++
			if inc > 8 {
				t.Fatalf("too many restarts")
			}
			start()
			if cur.dead.Load() {
				continue
			}

			// No resolver lost: every unresolved contract that is
			// durable has a live resolver in the new process.
			bl := cur.arb.log.(*boltArbitratorLog)
			state, _ := bl.CurrentState(nil)
			cs, err := bl.FetchUnresolvedContracts()
			if err != nil {
				lost = append(lost, "fetch-error:"+err.Error())
				continue
			}
			active := map[string]bool{}
			cur.arb.activeResolversLock.RLock()
			for _, r := range cur.arb.activeResolvers {
				active[string(r.ResolverKey())] = true
			}
			cur.arb.activeResolversLock.RUnlock()
			for _, c := range cs {
				if c.IsResolved() {
					continue
				}
				if !active[string(c.ResolverKey())] {
					n, _, _ := verifCCResolverName(c)
					lost = append(lost, fmt.Sprintf("%s@%s",
						n, state))
				}
			}
		}
	}

	start()
	restartIfDead()

	// Diagnostic only: at quiescence the durable contracts should be the
	// resolvers that are live in memory (same key, same kind), i.e. swaps
	// reached the log.
	typeDiffs := map[string]bool{}
	compareDurable := func() {
		if len(stops) != 0 || cur.dead.Load() {
			return
		}
		bl, ok := cur.arb.log.(*boltArbitratorLog)
		if !ok {
			return
		}
		cs, err := bl.FetchUnresolvedContracts()
		if err != nil {
			return
		}
		durable := map[string]string{}
		for _, c := range cs {
			n, _, _ := verifCCResolverName(c)
			durable[string(c.ResolverKey())] = n
		}
		cur.arb.activeResolversLock.RLock()
		for _, r := range cur.arb.activeResolvers {
			if r.IsResolved() || r.ResolverKey() == nil {
				continue
			}
			n, _, _ := verifCCResolverName(r)
			if d, ok := durable[string(r.ResolverKey())]; ok &&
				d != n {

				typeDiffs[d+"->"+n] = true
			}
		}
		cur.arb.activeResolversLock.RUnlock()
	}

	step := func(fn func()) {
		fn()
		w.quiesce(t, cur)
		compareDurable()
		restartIfDead()
	}

	if s.Via == "user" {
		step(func() {
			w.mu.Lock()
			done := len(w.forceCloses) > 0
			w.mu.Unlock()
			if done || cur.arb.state != StateDefault {
				return
			}
			if ok, _ := cur.userForceClose(); !ok {
				diags = append(diags, "user-close-not-answered")
			}
		})
	}

	conf := s.Start + verifC13ConfOffset
	maxH := conf + 12
	for i := range s.Htlcs {
		if e := int32(s.Htlcs[i].Expiry) + 12; e > maxH {
			maxH = e
		}
	}
	for w.Height() < maxH {
		w.mu.Lock()
		resolved := w.resolvedN > 0
		next := w.height + 1
		w.mu.Unlock()
		if resolved {
			break
		}
		step(func() {
			if next == conf {
				w.setPhase("closed")
				w.confirm(s.Kind, next, s.WithCommit, s.WithAnchor)
				if cur.events != nil {
					cur.sendClose(s.Kind)
				}
			}
			if s.Kind == "breach" && next == conf+4 {
				w.breachComplete(cur)
			}
			w.mine(t, cur)
		})
	}

	out := verifC13Collect(w, cur)
	out.Restarts = inc
	out.StopKinds = stopKind
	out.RestartIn = restIn
	out.Lost = lost
	for d := range typeDiffs {
		diags = append(diags, "durable-kind-differs-from-live:"+d)
	}
	sort.Strings(diags)
	out.Diags = diags
	cur.stop()

	return out
}

// verifC13DueAtClose: some HTLC of the confirmed commitment had reached its
// broadcast cutoff at the closing height (the go-on-chain rule of C12 with the
// deltas this harness configures). Only used to fingerprint violations.
func verifC13DueAtClose(s *verifC13Scenario) bool {
	k := s.Kind
	if k == "breach" {
		k = "remote"
	}
	closeH := int64(s.Start + verifC13ConfOffset)
	for i := range s.Htlcs {
		h := &s.Htlcs[i]
		if !h.on(k) || closeH < int64(h.Expiry)-5 {
			continue
		}
		if !h.Incoming || h.PreKnown {
			return true
		}
	}

	return false
}

func verifC13BadClass(b string) string {
	var cls []string
	seen := map[string]bool{}
	for _, part := range strings.Split(b, ",") {
		c := part
		if i := strings.Index(c, ":"); i >= 0 {
			c = c[:i]
		}
		if !seen[c] {
			seen[c] = true
			cls = append(cls, c)
		}
	}

	return strings.Join(cls, "+")
}

func verifC13Eq(a, b []string) bool {
	return strings.Join(a, "|") == strings.Join(b, "|")
}

func verifC13MapEq(a, b map[string][]string) bool {
	if len(a) != len(b) {
		return false
	}
	for k, v := range a {
		if !verifC13Eq(v, b[k]) {
			return false
		}
	}

	return true
}

// verifC13Judge compares an interrupted run with the uninterrupted outcome.
func verifC13Judge(vc *verifCtx, s *verifC13Scenario, ref,
	got *verifC13Outcome, stops []int) {

	wit := map[string]any{
		"scenario": s, "stops": stops, "uninterrupted": ref,
		"interrupted": got,
	}
	stopAt := strings.Join(got.StopKinds, "+")
	tag := fmt.Sprintf("kind=%s:stop-after=%s:restart-in=%s:due-at-close=%v",
		s.Kind, stopAt, strings.Join(got.RestartIn, "+"),
		verifC13DueAtClose(s))
	if got.ForceCloses > 0 && ref.ForceCloses == 0 {
		// The restarted node broadcast its own commitment although the
		// uninterrupted run never did (it restarted before the close
		// was durable and an HTLC was due).
		tag = "extra-broadcast=true:" + tag
	}

	vc.Count("oracle_terminal_evals", 1)
	if ref.Resolved != got.Resolved {
		why := "state=" + got.State
		if !got.Resolved && len(got.Unresolved) > 0 {
			allDone := true
			for _, u := range got.Unresolved {
				if !strings.Contains(u, "resolved=true") {
					allDone = false
				}
			}
			if allDone {
				why = "resolved-contract-never-removed:" +
					strings.Join(got.Unresolved, "+")
			}
		}
		verifCCViolation(vc, "same_terminal_state", fmt.Sprintf(
			"resolved=%v-want-%v:%s:%s", got.Resolved, ref.Resolved,
			why, tag), fmt.Sprintf("uninterrupted run ended "+
			"resolved=%v (%s), interrupted run resolved=%v (%s), "+
			"contracts left in the log: %v", ref.Resolved, ref.State,
			got.Resolved, got.State, got.Unresolved), wit)
	}

	vc.Count("oracle_upstream_evals", 1)
	for k, v := range got.Upstream {
		if len(v) > 1 {
			verifCCViolation(vc, "upstream_function",
				"contradictory-upstream:"+tag, fmt.Sprintf(
					"%s was resolved upstream as %v", k, v),
				wit)
		}
	}
	if !verifC13MapEq(ref.Upstream, got.Upstream) {
		diffSet := map[string]bool{}
		for k, v := range ref.Upstream {
			g := got.Upstream[k]
			switch {
			case verifC13Eq(v, g):
			case len(g) == 0:
				diffSet["missing"] = true
			default:
				diffSet["changed"] = true
			}
		}
		for k := range got.Upstream {
			if _, ok := ref.Upstream[k]; !ok {
				diffSet["extra"] = true
			}
		}
		var diff []string
		for d := range diffSet {
			diff = append(diff, d)
		}
		sort.Strings(diff)
		// A stuck run is reported by same_terminal_state; only
		// report the map when both runs terminated, or when the
		// interrupted run contradicts the reference.
		if got.Resolved == ref.Resolved {
			verifCCViolation(vc, "upstream_equal", fmt.Sprintf(
				"upstream-differs:%s:%s", strings.Join(diff, "+"),
				tag), fmt.Sprintf("upstream resolutions %v, "+
				"uninterrupted run had %v", got.Upstream,
				ref.Upstream), wit)
		}
	}

	vc.Count("oracle_resolved_when_done_evals", 1)
	if len(got.ResolvedBad) > 0 {
		verifCCViolation(vc, "resolved_only_when_done", fmt.Sprintf(
			"resolved-early:%s:%s", verifC13BadClass(got.ResolvedBad[0]),
			tag),
			fmt.Sprintf("channel marked fully resolved while %v",
				got.ResolvedBad), wit)
	}

	vc.Count("oracle_no_resolver_lost_evals", 1)
	if len(got.Lost) > 0 {
		verifCCViolation(vc, "no_resolver_lost", fmt.Sprintf(
			"resolver-lost:%s:%s", got.Lost[0], tag), fmt.Sprintf(
			"durable unresolved contracts without a live resolver "+
				"after restart: %v", got.Lost), wit)
	}

	if got.Resolved == ref.Resolved {
		vc.Count("oracle_contracts_evals", 1)
		if !verifC13Eq(ref.Reports, got.Reports) {
			verifCCViolation(vc, "same_contracts_resolved", fmt.Sprintf(
				"reports-differ:%s", tag), fmt.Sprintf(
				"resolver reports %v, uninterrupted run had %v",
				got.Reports, ref.Reports), wit)
		}
		if !verifC13MapEq(ref.Finals, got.Finals) {
			verifCCViolation(vc, "same_contracts_resolved", fmt.Sprintf(
				"final-outcomes-differ:%s", tag), fmt.Sprintf(
				"final outcomes of received HTLCs %v, "+
					"uninterrupted run had %v", got.Finals,
				ref.Finals), wit)
		}
	}
	if !verifC13Eq(ref.AnchorRep, got.AnchorRep) {
		vc.Count("diag_anchor_report_differs", 1)
	}
	for _, d := range got.Diags {
		vc.Diag("driver", d)
	}
}

func TestVerifC13(t *testing.T) {
	vc := verifStart(t, "C13", "restart")
	defer vc.Finish()

	dir := verifCCScratch(t)
	dbn := 0
	nextDB := func() string {
		dbn++
		return verifCCDBPath(dir, dbn)
	}

	total := vc.N(320, 24000)
	for i := 0; i < total; i++ {
		if !vc.Mine(i) {
			continue
		}
		r := vc.Rng(i)
		s := verifC13Gen(r)
		vc.Case(i, s)

		ref := verifC13Run(t, nextDB(), &s, nil)
		vc.Count("scenarios", 1)
		vc.Count("uninterrupted_writes", int64(ref.Writes))
		vc.Max("writes_per_scenario", int64(ref.Writes))

		// The uninterrupted run itself must be sane, otherwise the
		// comparison is vacuous.
		if !ref.Resolved {
			vc.Count("reference_not_resolved", 1)
			vc.Diag("reference_not_resolved", fmt.Sprintf(
				"case %d: %+v", i, ref))
			vc.CaseDone(i)
			continue
		}
		vc.Count("oracle_resolved_when_done_evals", 1)
		if len(ref.ResolvedBad) > 0 {
			verifCCViolation(vc, "resolved_only_when_done", fmt.Sprintf(
				"resolved-early:%s:kind=%s:stop-after=",
				verifC13BadClass(ref.ResolvedBad[0]), s.Kind),
				fmt.Sprintf(
				"uninterrupted run: channel marked fully "+
					"resolved while %v", ref.ResolvedBad),
				map[string]any{"scenario": s, "run": ref})
		}
		for k, v := range ref.Upstream {
			if len(v) > 1 {
				verifCCViolation(vc, "upstream_function",
					"contradictory-upstream:kind="+s.Kind+
						":stop-after=", fmt.Sprintf(
						"uninterrupted: %s -> %v", k, v),
					map[string]any{"scenario": s, "run": ref})
			}
		}

		for _, d := range ref.Diags {
			vc.Diag("uninterrupted", d)
		}

		kinds := map[string]bool{}
		for k := 1; k <= ref.Writes; k++ {
			stops := []int{k}
			got := verifC13Run(t, nextDB(), &s, stops)
			vc.Count("stop_runs", 1)
			if got.Restarts == 0 {
				vc.Count("stop_not_reached", 1)
			}
			for _, sk := range got.StopKinds {
				kinds[sk] = true
				vc.Sig(fmt.Sprintf("%s|%s|n%d", s.Kind, sk,
					len(s.Htlcs)))
			}
			verifC13Judge(vc, &s, ref, got, stops)
		}

		// Thorough: two stops.
		if vc.Thorough() {
			for j := 0; j < ref.Writes; j++ {
				k1 := 1 + r.Intn(ref.Writes)
				k2 := 1 + r.Intn(6)
				stops := []int{k1, k2}
				got := verifC13Run(t, nextDB(), &s, stops)
				vc.Count("double_stop_runs", 1)
				if got.Restarts >= 2 {
					vc.Count("double_stop_reached", 1)
				}
				verifC13Judge(vc, &s, ref, got, stops)
			}
		}
		if i%37 == 0 {
			vc.Sample(map[string]any{"scenario": s,
				"uninterrupted": ref})
		}
		vc.CaseDone(i)
	}
}
