package contractcourt

// C04, chain-watcher path ("using only what the node has persisted it
// RECOGNISES THE STATE FROM THE BROADCAST TRANSACTION and builds a justice
// transaction").
//
// In lnd the recognition is done by the chainWatcher goroutine
// (closeObserver -> handleCommitSpend -> newChainSet -> handleKnownRemoteState
// -> handlePossibleBreach -> lnwallet.NewBreachRetribution ->
// dispatchContractBreach -> cfg.contractBreach). The watcher owns an
// *OpenChannel instance that was decoded from the database when the node
// started (ChainArbitrator.Start -> FetchAllChannels); it is NOT the instance
// the link's LightningChannel keeps advancing. The rest of the C04 unit
// (c04_test.go) judges retributions built on a state that is reloaded after
// the history; this file runs the REAL, STARTED watcher over an instance that
// is as stale as the one a running node has:
//
//   - at the start of the case and at every reconnect (= restart of both
//     parties: the engine reloads both LightningChannels from disk) a few
//     OpenChannel instances per party are decoded from that party's LIVE
//     database and a chain watcher is created and started on each of them
//     (mock notifier for the funding-outpoint spend, the party's signer,
//     lnwallet.GetStateNumHint, recording contractBreach callback, a
//     subscription to all four close event streams; alternately in the
//     single-confirmation mode of the package's own tests and in the
//     production multi-confirmation mode, where the spend is first tracked as
//     pending and handled when the confirmation notification fires);
//   - the history goes on (the watchers idle, as in a running node);
//   - at the end, for a sample of <= 4 revoked heights per victim (the newest
//     revoked one, the heights around the moment the instance was loaded, one
//     revoked before the load, PRNG fill) the cheater's recorded revoked
//     commitment is delivered to one watcher as the spend of the funding
//     outpoint. Oracle state_recognised: the watcher hands a BreachRetribution
//     for exactly that height and txid to contractBreach - not an error, not a
//     remote/local unilateral or cooperative close, not the data-loss wait,
//     not nothing. The retribution it dispatched is then judged by the same
//     recorded-outputs and script-interpreter oracles as the directly built
//     ones (checkRecorded, justiceAll).
//   - negative control: the cheater's CURRENT commitment through another
//     watcher must come out as a remote unilateral close and never as a breach
//     (else t.Fatalf: the breach observable would not discriminate).
//
// Synchronisation without sleeping: the spend is put into the notifier's
// buffered channel, then two blockbeats are pushed through the watcher's
// BeatConsumer. closeObserver is a single goroutine, so when the second beat
// has been processed the iteration that consumed the spend - including
// handleCommitSpend and every dispatch - has returned (multi-confirmation mode:
// two beats, the confirmation, two more beats). Only a watcher that does
// not come back (the data-loss wait of handleUnknownRemoteState, recognised
// through its log line, or the generous deadline) is handled by time.

import (
	"fmt"
	"strings"
	"sync"
	"time"

	"github.com/btcsuite/btcd/address/v2"
	"github.com/btcsuite/btcd/wire/v2"
	"github.com/btcsuite/btclog/v2"
	"github.com/lightningnetwork/lnd/chainio"
	"github.com/lightningnetwork/lnd/chainntnfs"
	"github.com/lightningnetwork/lnd/channeldb"
	"github.com/lightningnetwork/lnd/fn/v2"
	lnmock "github.com/lightningnetwork/lnd/lntest/mock"
	"github.com/lightningnetwork/lnd/lnwallet"
)

const (
	// watchers (each on its own decoded instance) per party and load:
	// <= 4 revoked heights + the negative control.
	verifC04CwPerParty = 5

	// generous watchdog for one asynchronous dispatch.
	verifC04CwDeadline = 30 * time.Second
)

// verifC04LogSink receives the contractcourt ("CNCT") log lines while a spend
// is being delivered; handleCommitSpend's error is only logged by
// closeObserver, this is where it is read.
type verifC04LogSink struct {
	mu    sync.Mutex
	on    bool
	lines []string
}

func (s *verifC04LogSink) Write(p []byte) (int, error) {
	s.mu.Lock()
	if s.on && len(s.lines) < 40 {
		l := strings.TrimSpace(string(p))
		if len(l) > 400 {
			l = l[:400] + "..."
		}
		s.lines = append(s.lines, l)
	}
	s.mu.Unlock()
	return len(p), nil
}

func (s *verifC04LogSink) start() {
	s.mu.Lock()
	s.on, s.lines = true, nil
	s.mu.Unlock()
}

func (s *verifC04LogSink) snapshot() []string {
	s.mu.Lock()
	defer s.mu.Unlock()
	return append([]string(nil), s.lines...)
}

func (s *verifC04LogSink) stop() []string {
	s.mu.Lock()
	defer s.mu.Unlock()
	s.on = false
	return append([]string(nil), s.lines...)
}

var (
	verifC04CwSink   = &verifC04LogSink{}
	verifC04CwLogger btclog.Logger
)

// verifC04CwInstallLog routes the package logger of the chain watcher into
// the sink (level Off outside a delivery window). Returns the restore func.
func verifC04CwInstallLog() func() {
	old := log
	verifC04CwLogger = btclog.NewSLogger(btclog.NewDefaultHandler(
		verifC04CwSink, btclog.WithNoTimestamp(),
	))
	verifC04CwLogger.SetLevel(btclog.LevelOff)
	log = verifC04CwLogger
	return func() { log = old }
}

// verifC04Watch is one started chain watcher over one instance of a party's
// channel state, decoded from that party's live database at load time.
type verifC04Watch struct {
	w        *chainWatcher
	ntfr     *lnmock.ChainNotifier
	sub      *ChainEventSubscription
	loadedAt uint64 // RemoteCommitment.CommitHeight of the instance at load
	stopped  bool

	// multiConf: the production mode (confirmations scaled with the
	// capacity): the spend is first tracked as pending and handled when the
	// confirmation notification fires. Otherwise the single-confirmation
	// mode of the package's own tests (handled on spend detection).
	multiConf bool

	mu       sync.Mutex
	breaches []*lnwallet.BreachRetribution
}

func (wt *verifC04Watch) stop() {
	if wt.stopped {
		return
	}
	wt.stopped = true
	wt.sub.Cancel()
	_ = wt.w.Stop()
}

// cwLoad is "node start" for both parties: the watchers of the previous load
// are stopped and new ones are started on freshly decoded instances.
func (c *verifC04Case) cwLoad() {
	c.cwStopAll()
	for i := 0; i < 2; i++ {
		for k := 0; k < verifC04CwPerParty; k++ {
			chans, err := c.e.DB(i).ChannelStateDB().FetchAllChannels()
			if err != nil || len(chans) != 1 {
				c.t.Fatalf("C04 chain watcher: FetchAllChannels of party %d: n=%d err=%v",
					i, len(chans), err)
			}
			wt := &verifC04Watch{
				ntfr: &lnmock.ChainNotifier{
					SpendChan: make(chan *chainntnfs.SpendDetail, 1),
					EpochChan: make(chan *chainntnfs.BlockEpoch),
					ConfChan:  make(chan *chainntnfs.TxConfirmation, 1),
				},
				loadedAt:  chans[0].RemoteCommitment.CommitHeight,
				multiConf: (k+c.idx)%2 == 1,
			}
			confs := fn.Some(uint32(1))
			if wt.multiConf {
				confs = fn.None[uint32]()
			}
			wt.w, err = newChainWatcher(chainWatcherConfig{
				chanState:           chans[0],
				notifier:            wt.ntfr,
				signer:              c.e.Signer(i),
				extractStateNumHint: lnwallet.GetStateNumHint,
				isOurAddr:           func(address.Address) bool { return false },
				chanCloseConfs:      confs,
				contractBreach: func(r *lnwallet.BreachRetribution) error {
					wt.mu.Lock()
					wt.breaches = append(wt.breaches, r)
					wt.mu.Unlock()
					return nil
				},
			})
			if err != nil {
				c.t.Fatalf("C04 chain watcher: newChainWatcher of party %d: %v", i, err)
			}
			wt.sub = wt.w.SubscribeChannelEvents()
			if err := wt.w.Start(); err != nil {
				c.t.Fatalf("C04 chain watcher: Start: %v", err)
			}
			c.cw[i] = append(c.cw[i], wt)
			c.vc.Count("cw_watchers_started", 1)
		}
	}
	c.vc.Count("cw_loads", 1)
}

func (c *verifC04Case) cwStopAll() {
	for i := 0; i < 2; i++ {
		for _, wt := range c.cw[i] {
			wt.stop()
		}
		c.cw[i] = nil
	}
}

// cwTake hands out one not yet used watcher of the party.
func (c *verifC04Case) cwTake(party int) *verifC04Watch {
	if len(c.cw[party]) == 0 {
		return nil
	}
	wt := c.cw[party][0]
	c.cw[party] = c.cw[party][1:]
	return wt
}

// verifC04CwOutcome is everything the watcher did with one spend.
type verifC04CwOutcome struct {
	breaches []*lnwallet.BreachRetribution // contractBreach callback
	breachEv *BreachCloseInfo
	remote   *RemoteUnilateralCloseInfo
	local    *LocalUnilateralCloseInfo
	coop     *CooperativeCloseInfo
	returned bool // the closeObserver iteration that took the spend returned
	dlpWait  bool // the watcher sits in the data-loss commit point wait
	logs     []string
	dur      time.Duration
}

func (o *verifC04CwOutcome) errLines() []string {
	var out []string
	for _, l := range o.logs {
		if strings.Contains(l, "[ERR]") || strings.Contains(l, "[CRT]") {
			out = append(out, l)
		}
	}
	return out
}

func (o *verifC04CwOutcome) String() string {
	return fmt.Sprintf("breach retributions handed to contractBreach=%d, breach event=%v, "+
		"remote unilateral close event=%v, local unilateral close event=%v, cooperative close "+
		"event=%v, handler returned=%v, data-loss wait=%v, took %v\nwatcher log:\n  %s",
		len(o.breaches), o.breachEv != nil, o.remote != nil, o.local != nil, o.coop != nil,
		o.returned, o.dlpWait, o.dur, strings.Join(o.logs, "\n  "))
}

// cwDeliver delivers tx as the spend of the funding outpoint to the started
// watcher, waits until the watcher is done with it, stops the watcher and
// reports what it dispatched.
func (c *verifC04Case) cwDeliver(wt *verifC04Watch, tx *wire.MsgTx) *verifC04CwOutcome {
	out := &verifC04CwOutcome{}
	txid := tx.TxHash()
	fundingOp := wt.w.cfg.chanState.FundingOutpoint
	spend := &chainntnfs.SpendDetail{
		SpentOutPoint: &fundingOp, SpenderTxHash: &txid, SpendingTx: tx,
		SpenderInputIndex: 0, SpendingHeight: verifC04BreachHeight,
	}

	verifC04CwSink.start()
	verifC04CwLogger.SetLevel(btclog.LevelInfo)
	begin := time.Now()

	select {
	case wt.ntfr.SpendChan <- spend:
	default:
		c.t.Fatalf("C04 chain watcher: spend channel of an unused watcher is full")
	}
	done := make(chan struct{})
	go func() {
		defer close(done)
		height := int32(verifC04BreachHeight)
		beats := func() {
			for k := 0; k < 2; k++ {
				_ = wt.w.ProcessBlock(chainio.NewBeat(chainntnfs.BlockEpoch{
					Height: height,
				}))
				height++
			}
		}
		// after these the spend has been taken: handled (single
		// confirmation) or tracked as pending with a confirmation
		// registration (multi confirmation).
		beats()
		if wt.multiConf {
			select {
			case wt.ntfr.ConfChan <- &chainntnfs.TxConfirmation{
				BlockHeight: uint32(height), Tx: tx,
			}:
			default:
			}
			// after these the confirmation has been handled.
			beats()
		}
	}()

	deadline := time.NewTimer(verifC04CwDeadline)
	defer deadline.Stop()
	tick := time.NewTicker(2 * time.Millisecond)
	defer tick.Stop()
wait:
	for {
		select {
		case <-done:
			out.returned = true
			break wait
		case <-tick.C:
			// handleUnknownRemoteState of a non-tweakless channel
			// never returns: it polls for the data-loss commit
			// point and says so.
			for _, l := range verifC04CwSink.snapshot() {
				if strings.Contains(l, "Unable to retrieve commitment point") {
					out.dlpWait = true
					break wait
				}
			}
		case <-deadline.C:
			break wait
		}
	}
	out.dur = time.Since(begin)

	// Stop first: it ends a watcher that did not return (quit), and after it
	// nothing is written any more.
	wt.stop()
	<-done
	verifC04CwLogger.SetLevel(btclog.LevelOff)
	out.logs = verifC04CwSink.stop()

	wt.mu.Lock()
	out.breaches = append(out.breaches, wt.breaches...)
	wt.mu.Unlock()
	select {
	case out.breachEv = <-wt.sub.ContractBreach:
	default:
	}
	select {
	case out.remote = <-wt.sub.RemoteUnilateralClosure:
	default:
	}
	select {
	case out.local = <-wt.sub.LocalUnilateralClosure:
	default:
	}
	select {
	case out.coop = <-wt.sub.CooperativeClosure:
	default:
	}

	if wt.multiConf {
		c.vc.Count("cw_multi_conf_deliveries", 1)
	} else {
		c.vc.Count("cw_single_conf_deliveries", 1)
	}
	if out.returned {
		us := out.dur.Microseconds()
		c.vc.Max("cw_dispatch_us", us)
		switch {
		case us < 10_000:
			c.vc.Count("cw_dispatch_lt_10ms", 1)
		case us < 100_000:
			c.vc.Count("cw_dispatch_lt_100ms", 1)
		case us < 1_000_000:
			c.vc.Count("cw_dispatch_lt_1s", 1)
		default:
			c.vc.Count("cw_dispatch_ge_1s", 1)
		}
	}
	return out
}

// cwSample picks <= 4 of the revoked heights: the newest, the two around the
// load of the watcher's instance, one revoked before the load, PRNG fill.
func verifC04CwSample(r *lnwallet.VerifRng, heights []uint64, loadedAt uint64, n int) []uint64 {
	var (
		out  []uint64
		seen = map[uint64]bool{}
		has  = map[uint64]bool{}
	)
	for _, h := range heights {
		has[h] = true
	}
	add := func(h uint64) {
		if has[h] && !seen[h] && len(out) < n {
			seen[h] = true
			out = append(out, h)
		}
	}
	if len(heights) == 0 {
		return nil
	}
	add(heights[len(heights)-1])
	// the commitment that was current when the instance was loaded: the
	// first one whose revocation the instance has not seen.
	add(loadedAt)
	// the newest one it has seen.
	if loadedAt >= 1 {
		add(loadedAt - 1)
	}
	var before []uint64
	for _, h := range heights {
		if h < loadedAt && !seen[h] {
			before = append(before, h)
		}
	}
	if len(before) > 0 {
		add(before[r.Intn(len(before))])
	}
	for tries := 0; len(out) < n && tries < 4*n; tries++ {
		add(heights[r.Intn(len(heights))])
	}
	return out
}

// cwChecks: the victim's started, stale chain watchers against the cheater's
// revoked commitments. st/db are the reloaded copy of the victim's database
// (the "persisted data" reference the direct path of c04_test.go uses).
func (c *verifC04Case) cwChecks(victim int, db *channeldb.DB, st *channeldb.OpenChannel,
	heights []uint64, held map[uint64]*wire.MsgTx) {

	cheater := 1 - victim
	if len(c.cw[victim]) == 0 {
		return
	}
	// own PRNG stream of the case: the stream of c04_test.go is not touched.
	r := c.vc.Rng(c.idx).Fork(fmt.Sprintf("c04cw-%d", victim))
	loadedAt := c.cw[victim][0].loadedAt
	cheaterOpener := c.e.IsOpener(cheater)

	for _, h := range verifC04CwSample(r, heights, loadedAt, verifC04CwPerParty-1) {
		if c.failed {
			return
		}
		revokedTx := held[h]
		txid := revokedTx.TxHash()
		afterLoad := h >= loadedAt
		base := fmt.Sprintf("victim=%d cheater=%d height=%d type=%s noAmt=%v via=started-chain-watcher "+
			"(instance loaded when the peer's unrevoked height was %d)", victim, cheater, h,
			c.p.TypeName, c.noAmt, loadedAt)

		// Reference: everything needed is persisted - the direct path on
		// the reloaded state builds the retribution. (Its failure is
		// judged by c04_test.go, not here.)
		_, derr := lnwallet.NewBreachRetribution(st, h, verifC04BreachHeight, revokedTx,
			fn.None[lnwallet.AuxLeafStore](), fn.None[lnwallet.AuxContractResolver]())
		if derr != nil {
			c.vc.Diag("cw_direct_path_failed", fmt.Sprintf("%s: %v", base, derr))
			continue
		}

		wt := c.cwTake(victim)
		if wt == nil {
			return
		}
		var o *verifC04CwOutcome
		if c.vc.Guard("state_recognised", "cw-panic/"+c.p.TypeName, base, func() {
			o = c.cwDeliver(wt, revokedTx)
		}) {
			c.failed = true
			return
		}
		c.vc.Count("oracle_cw_state_recognised_evals", 1)
		if afterLoad {
			c.vc.Count("cw_heights_revoked_after_load", 1)
		} else {
			c.vc.Count("cw_heights_revoked_before_load", 1)
		}
		when := "before-load"
		if afterLoad {
			when = "after-load"
		}

		noBreach := func(how string) {
			c.viol("state_recognised", "cw-"+how+"/"+when+"/"+c.p.TypeName,
				fmt.Sprintf("%s: the revoked commitment %v was broadcast; the revocation log entry and the "+
					"revocation secret of that height are persisted (NewBreachRetribution on the reloaded "+
					"state succeeds), but the victim's running chain watcher did not dispatch a breach: %s\n%v\nrevoked=%s",
					base, txid, how, o, verifC04TxHex(revokedTx)))
		}
		switch {
		case len(o.breaches) == 0 && o.remote != nil:
			noBreach("dispatched-as-remote-unilateral-close")
			continue
		case len(o.breaches) == 0 && o.local != nil:
			noBreach("dispatched-as-local-unilateral-close")
			continue
		case len(o.breaches) == 0 && o.coop != nil:
			noBreach("dispatched-as-cooperative-close")
			continue
		case len(o.breaches) == 0 && o.dlpWait:
			noBreach("treated-as-unknown-state-data-loss-wait")
			continue
		case len(o.breaches) == 0 && o.returned && len(o.errLines()) > 0:
			noBreach("error-no-dispatch")
			continue
		case len(o.breaches) == 0 && o.returned:
			noBreach("ignored")
			continue
		case len(o.breaches) == 0 && len(o.errLines()) > 0:
			// did not come back within the deadline, but said why.
			noBreach("error-no-dispatch-within-deadline")
			continue
		case len(o.breaches) == 0:
			c.t.Fatalf("C04 chain watcher: no dispatch, no logged error and no return within %v "+
				"(inconclusive): %s\n%v", verifC04CwDeadline, base, o)
		}
		br := o.breaches[0]
		if len(o.breaches) > 1 {
			c.vc.Diag("cw_more_than_one_breach_dispatch", base)
		}
		if br.RevokedStateNum != h || br.BreachTxHash != txid {
			c.viol("state_recognised", "cw-wrong-state/"+when+"/"+c.p.TypeName,
				fmt.Sprintf("%s: the running chain watcher dispatched a breach of state %d / tx %v for the "+
					"broadcast of revoked state %d / tx %v\n%v", base, br.RevokedStateNum, br.BreachTxHash,
					h, txid, o))
			continue
		}
		if o.breachEv == nil {
			c.vc.Diag("cw_breach_callback_without_breach_event", base)
		}
		c.vc.Count("cw_breach_dispatched", 1)

		// The retribution the running watcher dispatched, under the
		// oracles of the directly built ones.
		viaStore := r.Chance(1, 3)
		ctx := fmt.Sprintf("%s store=%v", base, viaStore)
		c.vc.Count("oracle_cw_retribution_evals", 1)
		if !c.checkRecorded(ctx, st, br, revokedTx) {
			continue
		}
		c.justiceAll(ctx, victim, db, st, br, revokedTx, viaStore)
		if c.failed {
			return
		}
		if n := len(br.HtlcRetributions); n > 0 {
			c.vc.Count("cw_states_with_htlc_outputs", 1)
			c.vc.Sig(fmt.Sprintf("%s|%v|%d|cw|%v|%v", c.p.TypeName, cheaterOpener, verifC04Bucket(n),
				afterLoad, c.noAmt))
		}
	}

	// Negative control: the cheater's CURRENT (not revoked) commitment must
	// come out of the same observation as a remote unilateral close.
	cur := st.RemoteCommitment.CommitHeight
	curTx := held[cur]
	if curTx == nil || cur == 0 {
		return
	}
	wt := c.cwTake(victim)
	if wt == nil {
		return
	}
	base := fmt.Sprintf("victim=%d cheater=%d current height=%d type=%s", victim, cheater, cur, c.p.TypeName)
	var o *verifC04CwOutcome
	if c.vc.Guard("state_recognised", "cw-control-panic/"+c.p.TypeName, base, func() {
		o = c.cwDeliver(wt, curTx)
	}) {
		c.failed = true
		return
	}
	switch {
	case len(o.breaches) > 0 || o.breachEv != nil:
		c.t.Fatalf("C04 chain watcher negative control: the peer's CURRENT commitment was dispatched as a "+
			"breach; the breach observable does not discriminate: %s\n%v", base, o)
	case o.remote != nil:
		c.vc.Count("cw_negctl_evals", 1)
	default:
		// not this property's subject (C05), and not a usable control.
		c.vc.Diag("cw_control_not_a_remote_close", fmt.Sprintf("%s\n%v", base, o))
	}
}
