package contractcourt

// C04, chain-watcher path ("using only what the node has persisted it
// RECOGNISES THE STATE FROM THE BROADCAST TRANSACTION and builds a justice
// transaction").
//
// In lnd the recognition is done by the chainWatcher goroutine
// (closeObserver -> handleCommitSpend -> newChainSet -> handleKnownRemoteState
// -> handlePossibleBreach -> lnwallet.NewBreachRetribution ->
// dispatchContractBreach -> cfg.contractBreach). The watcher owns an
// *OpenChannel instance that was decoded from the database when the node
// started (ChainArbitrator.Start -> FetchAllChannels); it is NOT the instance
// the link's LightningChannel keeps advancing. The rest of the C04 unit
// (c04_test.go) judges retributions built on a state that is reloaded after
// the history; this file runs the REAL, STARTED watcher over an instance that
// is as stale as the one a running node has:
//
//   - at the start of the case and at every reconnect (= restart of both
//     parties: the engine reloads both LightningChannels from disk) a few
//     OpenChannel instances per party are decoded from that party's LIVE
//     database and a chain watcher is created and started on each of them
//     (mock notifier for the funding-outpoint spend, the party's signer,
//     lnwallet.GetStateNumHint, recording contractBreach callback, a
//     subscription to all four close event streams; alternately in the
//     single-confirmation mode of the package's own tests and in the
//     production multi-confirmation mode, where the spend is first tracked as
//     pending and handled when the confirmation notification fires);
//   - the history goes on (the watchers idle, as in a running node);
//   - at the end, for a sample of <= 4 revoked heights per victim (the newest
//     revoked one, the heights around the moment the instance was loaded, one
//     revoked before the load, PRNG fill) the cheater's recorded revoked
//     commitment is delivered to one watcher as the spend of the funding
//     outpoint. Oracle state_recognised: the watcher hands a BreachRetribution
//     for exactly that height and txid to contractBreach - not an error, not a
//     remote/local unilateral or cooperative close, not the data-loss wait,
//     not nothing. The retribution it dispatched is then judged by the same
//     recorded-outputs and script-interpreter oracles as the directly built
//     ones (checkRecorded, justiceAll).
//   - negative control: the cheater's CURRENT commitment through another
//     watcher must come out as a remote unilateral close and never as a breach
//     (else t.Fatalf: the breach observable would not discriminate).
//
// Synchronisation without sleeping: the spend is put into the notifier's
// buffered channel, then two blockbeats are pushed through the watcher's
// BeatConsumer. closeObserver is a single goroutine, so when the second beat
// has been processed the iteration that consumed the spend - including
// handleCommitSpend and every dispatch - has returned (multi-confirmation mode:
// two beats, the confirmation, two more beats). Only a watcher that does
// not come back (the data-loss wait of handleUnknownRemoteState, recognised
// through its log line, or the generous deadline) is handled by time.

import (
	"fmt"

	"github.com/btcsuite/btcd/wire/v2"
	"github.com/lightningnetwork/lnd/channeldb"
	"github.com/lightningnetwork/lnd/fn/v2"
	"github.com/lightningnetwork/lnd/lnwallet"
)

const (
	// watchers (each on its own decoded instance) per party and load:
	// <= 4 revoked heights + the negative control.
	verifC04CwPerParty = 5
)

// cwLoad is "node start" for both parties: the watchers of the previous load
// are stopped and new ones are started on freshly decoded instances.
func (c *verifC04Case) cwLoad() {
	c.cwStopAll()
	for i := 0; i < 2; i++ {
		for k := 0; k < verifC04CwPerParty; k++ {
			chans, err := c.e.DB(i).ChannelStateDB().FetchAllChannels()
			if err != nil || len(chans) != 1 {
				c.t.Fatalf("C04 chain watcher: FetchAllChannels of party %d: n=%d err=%v",
					i, len(chans), err)
			}
			wt := verifCwNewWatch(c.t, chans[0], c.e.Signer(i), (k+c.idx)%2 == 1)
			c.cw[i] = append(c.cw[i], wt)
			c.vc.Count("cw_watchers_started", 1)
		}
	}
	c.vc.Count("cw_loads", 1)
}

func (c *verifC04Case) cwStopAll() {
	for i := 0; i < 2; i++ {
		for _, wt := range c.cw[i] {
			wt.stop()
		}
		c.cw[i] = nil
	}
}

// cwTake hands out one not yet used watcher of the party.
func (c *verifC04Case) cwTake(party int) *verifCwWatch {
	if len(c.cw[party]) == 0 {
		return nil
	}
	wt := c.cw[party][0]
	c.cw[party] = c.cw[party][1:]
	return wt
}

// cwSample picks <= 4 of the revoked heights: the newest, the two around the
// load of the watcher's instance, one revoked before the load, PRNG fill.
func verifC04CwSample(r *lnwallet.VerifRng, heights []uint64, loadedAt uint64, n int) []uint64 {
	var (
		out  []uint64
		seen = map[uint64]bool{}
		has  = map[uint64]bool{}
	)
	for _, h := range heights {
		has[h] = true
	}
	add := func(h uint64) {
		if has[h] && !seen[h] && len(out) < n {
			seen[h] = true
			out = append(out, h)
		}
	}
	if len(heights) == 0 {
		return nil
	}
	add(heights[len(heights)-1])
	// the commitment that was current when the instance was loaded: the
	// first one whose revocation the instance has not seen.
	add(loadedAt)
	// the newest one it has seen.
	if loadedAt >= 1 {
		add(loadedAt - 1)
	}
	var before []uint64
	for _, h := range heights {
		if h < loadedAt && !seen[h] {
			before = append(before, h)
		}
	}
	if len(before) > 0 {
		add(before[r.Intn(len(before))])
	}
	for tries := 0; len(out) < n && tries < 4*n; tries++ {
		add(heights[r.Intn(len(heights))])
	}
	return out
}

// cwChecks: the victim's started, stale chain watchers against the cheater's
// revoked commitments. st/db are the reloaded copy of the victim's database
// (the "persisted data" reference the direct path of c04_test.go uses).
func (c *verifC04Case) cwChecks(victim int, db *channeldb.DB, st *channeldb.OpenChannel,
	heights []uint64, held map[uint64]*wire.MsgTx) {

	cheater := 1 - victim
	if len(c.cw[victim]) == 0 {
		return
	}
	// own PRNG stream of the case: the stream of c04_test.go is not touched.
	r := c.vc.Rng(c.idx).Fork(fmt.Sprintf("c04cw-%d", victim))
	loadedAt := c.cw[victim][0].loadedAt
	cheaterOpener := c.e.IsOpener(cheater)

	for _, h := range verifC04CwSample(r, heights, loadedAt, verifC04CwPerParty-1) {
		if c.failed {
			return
		}
		revokedTx := held[h]
		txid := revokedTx.TxHash()
		afterLoad := h >= loadedAt
		base := fmt.Sprintf("victim=%d cheater=%d height=%d type=%s noAmt=%v via=started-chain-watcher "+
			"(instance loaded when the peer's unrevoked height was %d)", victim, cheater, h,
			c.p.TypeName, c.noAmt, loadedAt)

		// Reference: everything needed is persisted - the direct path on
		// the reloaded state builds the retribution. (Its failure is
		// judged by c04_test.go, not here.)
		_, derr := lnwallet.NewBreachRetribution(st, h, verifC04BreachHeight, revokedTx,
			fn.None[lnwallet.AuxLeafStore](), fn.None[lnwallet.AuxContractResolver]())
		if derr != nil {
			c.vc.Diag("cw_direct_path_failed", fmt.Sprintf("%s: %v", base, derr))
			continue
		}

		wt := c.cwTake(victim)
		if wt == nil {
			return
		}
		var o *verifCwOutcome
		if c.vc.Guard("state_recognised", "cw-panic/"+c.p.TypeName, base, func() {
			o = verifCwDeliver(c.t, c.vc, wt, revokedTx, verifC04BreachHeight)
		}) {
			c.failed = true
			return
		}
		c.vc.Count("oracle_cw_state_recognised_evals", 1)
		if afterLoad {
			c.vc.Count("cw_heights_revoked_after_load", 1)
		} else {
			c.vc.Count("cw_heights_revoked_before_load", 1)
		}
		when := "before-load"
		if afterLoad {
			when = "after-load"
		}

		noBreach := func(how string) {
			c.viol("state_recognised", "cw-"+how+"/"+when+"/"+c.p.TypeName,
				fmt.Sprintf("%s: the revoked commitment %v was broadcast; the revocation log entry and the "+
					"revocation secret of that height are persisted (NewBreachRetribution on the reloaded "+
					"state succeeds), but the victim's running chain watcher did not dispatch a breach: %s\n%v\nrevoked=%s",
					base, txid, how, o, verifC04TxHex(revokedTx)))
		}
		switch {
		case len(o.breaches) == 0 && o.remote != nil:
			noBreach("dispatched-as-remote-unilateral-close")
			continue
		case len(o.breaches) == 0 && o.local != nil:
			noBreach("dispatched-as-local-unilateral-close")
			continue
		case len(o.breaches) == 0 && o.coop != nil:
			noBreach("dispatched-as-cooperative-close")
			continue
		case len(o.breaches) == 0 && o.panicked != "":
			noBreach("watcher-panicked")
			continue
		case len(o.breaches) == 0 && o.dlpWait:
			noBreach("treated-as-unknown-state-data-loss-wait")
			continue
		case len(o.breaches) == 0 && o.returned && len(o.errLines()) > 0:
			noBreach("error-no-dispatch")
			continue
		case len(o.breaches) == 0 && o.returned:
			noBreach("ignored")
			continue
		case len(o.breaches) == 0 && len(o.errLines()) > 0:
			// did not come back within the deadline, but said why.
			noBreach("error-no-dispatch-within-deadline")
			continue
		case len(o.breaches) == 0:
			c.t.Fatalf("C04 chain watcher: no dispatch, no logged error and no return within %v "+
				"(inconclusive): %s\n%v", verifCwDeadline, base, o)
		}
		br := o.breaches[0]
		if len(o.breaches) > 1 {
			c.vc.Diag("cw_more_than_one_breach_dispatch", base)
		}
		if br.RevokedStateNum != h || br.BreachTxHash != txid {
			c.viol("state_recognised", "cw-wrong-state/"+when+"/"+c.p.TypeName,
				fmt.Sprintf("%s: the running chain watcher dispatched a breach of state %d / tx %v for the "+
					"broadcast of revoked state %d / tx %v\n%v", base, br.RevokedStateNum, br.BreachTxHash,
					h, txid, o))
			continue
		}
		if o.breachEv == nil {
			c.vc.Diag("cw_breach_callback_without_breach_event", base)
		}
		c.vc.Count("cw_breach_dispatched", 1)

		// The retribution the running watcher dispatched, under the
		// oracles of the directly built ones.
		viaStore := r.Chance(1, 3)
		ctx := fmt.Sprintf("%s store=%v", base, viaStore)
		c.vc.Count("oracle_cw_retribution_evals", 1)
		if !c.checkRecorded(ctx, st, br, revokedTx) {
			continue
		}
		c.justiceAll(ctx, victim, db, st, br, revokedTx, viaStore)
		if c.failed {
			return
		}
		if n := len(br.HtlcRetributions); n > 0 {
			c.vc.Count("cw_states_with_htlc_outputs", 1)
			c.vc.Sig(fmt.Sprintf("%s|%v|%d|cw|%v|%v", c.p.TypeName, cheaterOpener, verifC04Bucket(n),
				afterLoad, c.noAmt))
		}
	}

	// Negative control: the cheater's CURRENT (not revoked) commitment must
	// come out of the same observation as a remote unilateral close.
	cur := st.RemoteCommitment.CommitHeight
	curTx := held[cur]
	if curTx == nil || cur == 0 {
		return
	}
	wt := c.cwTake(victim)
	if wt == nil {
		return
	}
	base := fmt.Sprintf("victim=%d cheater=%d current height=%d type=%s", victim, cheater, cur, c.p.TypeName)
	var o *verifCwOutcome
	if c.vc.Guard("state_recognised", "cw-control-panic/"+c.p.TypeName, base, func() {
		o = verifCwDeliver(c.t, c.vc, wt, curTx, verifC04BreachHeight)
	}) {
		c.failed = true
		return
	}
	switch {
	case len(o.breaches) > 0 || o.breachEv != nil:
		c.t.Fatalf("C04 chain watcher negative control: the peer's CURRENT commitment was dispatched as a "+
			"breach; the breach observable does not discriminate: %s\n%v", base, o)
	case o.remote != nil:
		c.vc.Count("cw_negctl_evals", 1)
	default:
		// not this property's subject (C05), and not a usable control.
		c.vc.Diag("cw_control_not_a_remote_close", fmt.Sprintf("%s\n%v", base, o))
	}
}
