package contractcourt

// C04 monitor: every revoked counterparty commitment can be fully punished
// from persisted data (DESIGN.md §3 C04; engines E1 + E3).
//
// An E1 history (two real LightningChannel machines over real bbolt
// channeldbs, PRNG asynchronous schedule, reconnects) is run. Then, for each
// party as victim V and the other as cheater C, for every height h of C that V
// has a revocation for, working ONLY from a freshly reloaded copy of V's
// database:
//
//  1. the state hint decoded from the real revoked transaction (the fully
//     signed commitment C held at h, recorded by the engine before C revoked
//     it) is h, and V's REAL chain watcher (newChainWatcher on the reloaded
//     state; newChainSet, extractStateNumHint with its own obfuscator,
//     handleKnownLocalState, handleKnownRemoteState -> handlePossibleBreach
//     -> dispatchContractBreach) hands exactly one retribution for state h
//     and that transaction to the breach arbitrator;
//  2. lnwallet.NewBreachRetribution succeeds with and without the breach
//     transaction supplied (and with/without amount data in the revocation
//     log);
//  3. the recorded outpoints / scripts / amounts equal the real outputs of the
//     revoked transaction and cover every output of it except the anchors,
//     each exactly once;
//  4. the REAL newRetributionInfo (+ RetributionStore round trip) and
//     BreachArbitrator.createJusticeTx build all justice variants and btcd's
//     script interpreter accepts EVERY input of every variant against the
//     real outputs of the revoked transaction;
//  5. if C first advances HTLCs with its own signed second-level transactions
//     (obtained from a ForceClose on a fork of C while h was still its current
//     height), updateBreachInfo/convertToSecondLevelRevoke re-targets the
//     outputs and the interpreter accepts the second-level justice inputs
//     against the real second-level outputs.
//
//  6. (c04cw_test.go) the victim's STARTED chain watchers, each on its own
//     channel state instance decoded from the live database at the victim's
//     last (re)start - stale with respect to everything revoked since, as in
//     a running node - are fed a sample of the revoked commitments as the
//     spend of the funding outpoint and must dispatch the breach; the
//     retribution they dispatch is judged as in 3 and 4.
//
// Negative control: the same pipeline with the revocation secret of another
// height must be rejected by the interpreter, otherwise the run is
// inconclusive.

import (
	"bytes"
	"crypto/sha256"
	"encoding/hex"
	"errors"
	"fmt"
	"reflect"
	"sort"
	"testing"
	"unsafe"

	"github.com/btcsuite/btcd/btcec/v2"
	"github.com/btcsuite/btcd/chainhash/v2"
	"github.com/btcsuite/btcd/txscript/v2"
	"github.com/btcsuite/btcd/wire/v2"
	"github.com/lightningnetwork/lnd/chainntnfs"
	"github.com/lightningnetwork/lnd/channeldb"
	"github.com/lightningnetwork/lnd/fn/v2"
	"github.com/lightningnetwork/lnd/input"
	lnmock "github.com/lightningnetwork/lnd/lntest/mock"
	"github.com/lightningnetwork/lnd/lnwallet"
	"github.com/lightningnetwork/lnd/lnwallet/chainfee"
)

const verifC04BreachHeight = 500

// verifC04Snap is what the cheater could publish for one of its commitments:
// the commitment itself and its own fully signed second-level transactions.
type verifC04Snap struct {
	Height  uint64
	CloseTx *wire.MsgTx
	Second  []verifC04Second
}

type verifC04Second struct {
	Tx       *wire.MsgTx // spends HtlcOut of the commitment with input 0
	HtlcOut  uint32
	Incoming bool // incoming for the cheater (success tx)
	// what the cheater needs to re-sign its own half when it aggregates
	// several second-level spends into one transaction (anchor channels)
	SignDetails *input.SignDetails
	Preimage    [32]byte
}

type verifC04Case struct {
	t      *testing.T
	vc     *lnwallet.VerifCtx
	r      *lnwallet.VerifRng
	e      *lnwallet.VerifE1
	p      lnwallet.VerifE1Params
	noAmt  bool
	snaps  [2]map[uint64]*verifC04Snap
	failed bool // structural failure: stop the case
	seen   map[string]bool
	nViol  int

	// statistics of the case
	nStates, nHtlcStates, nSecond int

	// started chain watchers over instances decoded at the last load of each
	// party (c04cw_test.go).
	idx int
	cw  [2][]*verifCwWatch
}

func verifC04TxHex(tx *wire.MsgTx) string {
	var b bytes.Buffer
	if err := tx.Serialize(&b); err != nil {
		return "serialize-error:" + err.Error()
	}
	return hex.EncodeToString(b.Bytes())
}

// verifC04Emitted bounds the number of emitted violations per fingerprint in
// one process, so that one recurring fingerprint cannot exhaust the runtime's
// per-process violation cap and hide a different one.
var verifC04Emitted = map[string]int{}

// viol records a violation. The same (oracle, key) is reported once per case;
// the case goes on with the remaining, independent evaluations.
func (c *verifC04Case) viol(oracle, key, detail string) {
	c.nViol++
	fp := oracle + "|" + key
	if c.seen[fp] {
		return
	}
	c.seen[fp] = true
	verifC04Emitted[fp]++
	if verifC04Emitted[fp] > 3 {
		c.vc.Count("violations_not_emitted_same_fingerprint", 1)
		return
	}
	tr := c.e.Trace()
	if len(tr) > 250 {
		tr = tr[len(tr)-250:]
	}
	c.vc.Violation(oracle, key, detail, map[string]any{"params": c.p,
		"noAmt": c.noAmt, "trace": tr})
}

// verifC04Obfuscator derives the state hint obfuscator exactly as
// newChainWatcher does, from the victim's persisted channel state.
func verifC04Obfuscator(st *channeldb.OpenChannel) [lnwallet.StateHintSize]byte {
	if st.IsInitiator {
		return lnwallet.DeriveStateHintObfuscator(
			st.LocalChanCfg.PaymentBasePoint.PubKey,
			st.RemoteChanCfg.PaymentBasePoint.PubKey,
		)
	}
	return lnwallet.DeriveStateHintObfuscator(
		st.RemoteChanCfg.PaymentBasePoint.PubKey,
		st.LocalChanCfg.PaymentBasePoint.PubKey,
	)
}

// verifC04AnchorScripts: the two BOLT-3 anchor output scripts of a
// non-taproot anchor channel, derived here from the funding keys.
func verifC04AnchorScripts(st *channeldb.OpenChannel) [][]byte {
	var out [][]byte
	for _, k := range []*btcec.PublicKey{st.LocalChanCfg.MultiSigKey.PubKey,
		st.RemoteChanCfg.MultiSigKey.PubKey} {

		ws := []byte{33}
		ws = append(ws, k.SerializeCompressed()...)
		ws = append(ws, txscript.OP_CHECKSIG, txscript.OP_IFDUP, txscript.OP_NOTIF,
			txscript.OP_16, txscript.OP_CHECKSEQUENCEVERIFY, txscript.OP_ENDIF)
		h := sha256.Sum256(ws)
		out = append(out, append([]byte{txscript.OP_0, 32}, h[:]...))
	}
	return out
}

func verifC04Bucket(n int) int {
	switch {
	case n == 0:
		return 0
	case n == 1:
		return 1
	case n <= 3:
		return 2
	case n <= 7:
		return 3
	}
	return 4
}

// newArbiter builds a BreachArbitrator the way breach_arbitrator_test.go does,
// with the victim's signer; only createJusticeTx is used (never started).
func (c *verifC04Case) newArbiter(victim int, store RetributionStorer) *BreachArbitrator {
	sweepScript := append([]byte{txscript.OP_1, 32}, bytes.Repeat([]byte{0x42}, 32)...)
	return NewBreachArbitrator(&BreachConfig{
		CloseLink: func(_ *wire.OutPoint, _ ChannelCloseType) {},
		Estimator: chainfee.NewStaticEstimator(chainfee.FeePerKwFloor, 0),
		GenSweepScript: func() fn.Result[lnwallet.AddrWithKey] {
			return fn.Ok(lnwallet.AddrWithKey{DeliveryAddress: sweepScript})
		},
		Signer: c.e.Signer(victim),
		PublishTransaction: func(_ *wire.MsgTx, _ string) error {
			return nil
		},
		Store: store,
	})
}

// snapshot records, for each party whose current commitment carries HTLC
// outputs, what it could publish later: ForceClose() on a fork (DB copy) of
// the party, so the schedule itself is not disturbed.
func (c *verifC04Case) snapshot() {
	for i := 0; i < 2; i++ {
		st := c.e.Channel(i).State()
		h := st.LocalCommitment.CommitHeight
		if h == 0 || c.snaps[i][h] != nil {
			continue
		}
		nOut := 0
		for _, ht := range st.LocalCommitment.Htlcs {
			if ht.OutputIndex >= 0 {
				nOut++
			}
		}
		if nOut == 0 {
			continue
		}
		fk := c.e.Fork(i, "reload_error")
		if fk == nil {
			c.failed = true
			return
		}
		sum, err := fk.Channel().ForceClose()
		if err != nil {
			// judged by C05, not here.
			c.vc.Diag("cheater_forceclose_error", err.Error())
			fk.Close()
			continue
		}
		snap := &verifC04Snap{Height: h, CloseTx: sum.CloseTx}
		hashOf := map[int32][32]byte{}
		for _, ht := range fk.State().LocalCommitment.Htlcs {
			if ht.OutputIndex >= 0 {
				hashOf[ht.OutputIndex] = ht.RHash
			}
		}
		pre := map[[32]byte][32]byte{}
		for _, hi := range c.e.Htlcs() {
			pre[hi.Hash] = hi.Preimage
		}
		sum.ContractResolutions.WhenSome(func(res lnwallet.ContractResolutions) {
			if res.HtlcResolutions == nil {
				return
			}
			for _, o := range res.HtlcResolutions.OutgoingHTLCs {
				if o.SignedTimeoutTx == nil {
					continue
				}
				tx := o.SignedTimeoutTx.Copy()
				snap.Second = append(snap.Second, verifC04Second{Tx: tx,
					HtlcOut: tx.TxIn[0].PreviousOutPoint.Index, SignDetails: o.SignDetails})
			}
			for _, in := range res.HtlcResolutions.IncomingHTLCs {
				if in.SignedSuccessTx == nil {
					continue
				}
				tx := in.SignedSuccessTx.Copy()
				idx := tx.TxIn[0].PreviousOutPoint.Index
				p, ok := pre[hashOf[int32(idx)]]
				if !ok {
					continue
				}
				// as htlcIncomingContestResolver does.
				w := tx.TxIn[0].Witness
				if txscript.IsPayToTaproot(tx.TxOut[0].PkScript) {
					if len(w) < 3 {
						continue
					}
					w[2] = p[:]
				} else {
					if len(w) < 4 {
						continue
					}
					w[3] = p[:]
				}
				snap.Second = append(snap.Second, verifC04Second{Tx: tx,
					HtlcOut: idx, Incoming: true, SignDetails: in.SignDetails, Preimage: p})
			}
		})
		fk.Close()
		sort.Slice(snap.Second, func(a, b int) bool {
			return snap.Second[a].HtlcOut < snap.Second[b].HtlcOut
		})
		c.snaps[i][h] = snap
		c.vc.Count("cheater_snapshots", 1)
	}
}

type verifC04Variant struct {
	name string
	jt   *justiceTxCtx
}

// verifC04Variants enumerates every justice transaction createJusticeTx
// produced, whatever the variant fields are called (read through reflection
// so that a variant added to justiceTxVariants is judged as well).
func verifC04Variants(txs *justiceTxVariants) []verifC04Variant {
	var out []verifC04Variant
	v := reflect.ValueOf(txs).Elem()
	for i := 0; i < v.NumField(); i++ {
		f := v.Field(i)
		f = reflect.NewAt(f.Type(), unsafe.Pointer(f.UnsafeAddr())).Elem()
		name := v.Type().Field(i).Name
		switch x := f.Interface().(type) {
		case *justiceTxCtx:
			if x != nil {
				out = append(out, verifC04Variant{name, x})
			}
		case []*justiceTxCtx:
			for k, y := range x {
				if y != nil {
					out = append(out, verifC04Variant{fmt.Sprintf("%s[%d]", name, k), y})
				}
			}
		}
	}
	return out
}

// execVariants runs the interpreter on every input of every variant and
// checks that every breached output is an input of at least one of them.
func (c *verifC04Case) execVariants(ctx string, txs *justiceTxVariants,
	outs []breachedOutput, prev map[wire.OutPoint]*wire.TxOut,
	revokedTx *wire.MsgTx) bool {

	ok := true
	spent := map[wire.OutPoint]bool{}
	for _, v := range verifC04Variants(txs) {
		c.vc.Count("justice_txs", 1)
		if !c.execJustice(ctx+" variant="+v.name, v.jt, prev, revokedTx) {
			ok = false
		}
		for _, in := range v.jt.justiceTx.TxIn {
			spent[in.PreviousOutPoint] = true
		}
	}
	for i := range outs {
		if !spent[outs[i].outpoint] {
			c.viol("punish_complete", fmt.Sprintf("in-no-justice-tx/%v/%s", outs[i].witnessType,
				c.p.TypeName),
				fmt.Sprintf("%s: breached output %v (%v, %d sat) is an input of none of the justice "+
					"transactions built", ctx, outs[i].outpoint, outs[i].witnessType, outs[i].amt))
			ok = false
		}
	}
	if txs.spendAll == nil || len(txs.spendAll.justiceTx.TxIn) != len(outs) {
		c.vc.Diag("spendAll_not_all_outputs", ctx)
	}
	return ok
}

// execJustice runs the script interpreter on every input of one justice
// transaction against the REAL previous outputs. ok=false after a violation.
func (c *verifC04Case) execJustice(ctx string, jt *justiceTxCtx,
	prev map[wire.OutPoint]*wire.TxOut, revokedTx *wire.MsgTx) bool {

	tx := jt.justiceTx
	if len(jt.inputs) != len(tx.TxIn) {
		c.viol("justice_witness_valid", "input-count/"+c.p.TypeName,
			fmt.Sprintf("%s: %d inputs requested, %d in tx", ctx, len(jt.inputs), len(tx.TxIn)))
		return false
	}
	fetcher := txscript.NewMultiPrevOutFetcher(nil)
	for i, in := range tx.TxIn {
		out, ok := prev[in.PreviousOutPoint]
		if !ok {
			c.viol("justice_witness_valid", fmt.Sprintf("unknown-prevout/%v/%s",
				jt.inputs[i].WitnessType(), c.p.TypeName),
				fmt.Sprintf("%s: justice input %d spends %v which is not an output of the "+
					"revoked transaction %v (nor of an advanced second-level tx)\nrevoked=%s\njustice=%s",
					ctx, i, in.PreviousOutPoint, revokedTx.TxHash(), verifC04TxHex(revokedTx),
					verifC04TxHex(tx)))
			return false
		}
		fetcher.AddPrevOut(in.PreviousOutPoint, out)
	}
	ok := true
	for i, in := range tx.TxIn {
		out := prev[in.PreviousOutPoint]
		c.vc.Count("oracle_justice_inputs", 1)
		switch jt.inputs[i].WitnessType() {
		case input.HtlcSecondLevelRevoke, input.TaprootHtlcSecondLevelRevoke:
			c.vc.Count("oracle_second_level_inputs", 1)
		}
		err := lnwallet.VerifExec(out.PkScript, out.Value, tx, i, fetcher)
		if err != nil {
			ok = false
			wt := jt.inputs[i].WitnessType()
			c.viol("justice_witness_valid", fmt.Sprintf("%v/%s", wt, c.p.TypeName),
				fmt.Sprintf("%s: script interpreter rejects justice input %d (%v, outpoint %v, "+
					"value %d, sequence %d, locktime %d): %v\nprev pkScript=%x\nrevoked=%s\njustice=%s",
					ctx, i, wt, in.PreviousOutPoint, out.Value, in.Sequence, tx.LockTime, err,
					out.PkScript, verifC04TxHex(revokedTx), verifC04TxHex(tx)))
		}
	}
	return ok
}

// storeRoundTrip persists the retribution in a real RetributionStore on the
// victim's (forked) database and reads it back, as a restart of the breach
// arbitrator would.
func (c *verifC04Case) storeRoundTrip(ctx string, db *channeldb.DB,
	ret *retributionInfo) *retributionInfo {

	rs := NewRetributionStore(db)
	if err := rs.Add(ret); err != nil {
		c.viol("retribution_persisted", "store-add/"+c.p.TypeName,
			fmt.Sprintf("%s: RetributionStore.Add: %v", ctx, err))
		return nil
	}
	var got *retributionInfo
	err := rs.ForAll(func(r *retributionInfo) error {
		if r.chanPoint == ret.chanPoint {
			got = r
		}
		return nil
	}, func() { got = nil })
	if err != nil || got == nil {
		c.viol("retribution_persisted", "store-load/"+c.p.TypeName,
			fmt.Sprintf("%s: RetributionStore.ForAll: err=%v found=%v", ctx, err, got != nil))
		return nil
	}
	if err := rs.Remove(&ret.chanPoint); err != nil {
		c.viol("retribution_persisted", "store-remove/"+c.p.TypeName,
			fmt.Sprintf("%s: RetributionStore.Remove: %v", ctx, err))
		return nil
	}
	return got
}

// checkRecorded: oracle 3 (recorded indexes / scripts / amounts and
// completeness). Returns the number of HTLC outputs and whether both
// directions are present.
func (c *verifC04Case) checkRecorded(ctx string, st *channeldb.OpenChannel,
	br *lnwallet.BreachRetribution, revokedTx *wire.MsgTx) bool {

	c.vc.Count("oracle_recorded_outputs_evals", 1)
	txid := revokedTx.TxHash()
	if br.BreachTxHash != txid {
		c.viol("state_recognised", "breach-txhash/"+c.p.TypeName,
			fmt.Sprintf("%s: retribution names commitment %v, the revoked transaction is %v "+
				"(the chain watcher would not treat the spend as a breach)", ctx, br.BreachTxHash, txid))
		return false
	}
	covered := map[uint32]string{}
	one := func(what string, op wire.OutPoint, sd *input.SignDescriptor) bool {
		if op.Hash != txid {
			c.viol("recorded_outputs", what+"-hash/"+c.p.TypeName,
				fmt.Sprintf("%s: %s outpoint %v does not point into the revoked tx %v", ctx, what, op, txid))
			return false
		}
		if int(op.Index) >= len(revokedTx.TxOut) {
			c.viol("recorded_outputs", what+"-index-range/"+c.p.TypeName,
				fmt.Sprintf("%s: %s output index %d, revoked tx has %d outputs\nrevoked=%s",
					ctx, what, op.Index, len(revokedTx.TxOut), verifC04TxHex(revokedTx)))
			return false
		}
		real := revokedTx.TxOut[op.Index]
		if !bytes.Equal(real.PkScript, sd.Output.PkScript) {
			c.viol("recorded_outputs", what+"-script/"+c.p.TypeName,
				fmt.Sprintf("%s: %s recorded at output %d with pkScript %x, the revoked tx has %x there\nrevoked=%s",
					ctx, what, op.Index, sd.Output.PkScript, real.PkScript, verifC04TxHex(revokedTx)))
			return false
		}
		if real.Value != sd.Output.Value {
			c.viol("recorded_outputs", what+"-amount/"+c.p.TypeName,
				fmt.Sprintf("%s: %s recorded at output %d with %d sat, the revoked tx pays %d sat there\nrevoked=%s",
					ctx, what, op.Index, sd.Output.Value, real.Value, verifC04TxHex(revokedTx)))
			return false
		}
		if prevWhat, dup := covered[op.Index]; dup {
			c.viol("recorded_outputs", "duplicate-index/"+c.p.TypeName,
				fmt.Sprintf("%s: output %d is recorded twice (%s and %s)", ctx, op.Index, prevWhat, what))
			return false
		}
		covered[op.Index] = what
		return true
	}
	if br.LocalOutputSignDesc != nil {
		if !one("to-remote(ours)", br.LocalOutpoint, br.LocalOutputSignDesc) {
			return false
		}
	}
	if br.RemoteOutputSignDesc != nil {
		if !one("to-local(theirs)", br.RemoteOutpoint, br.RemoteOutputSignDesc) {
			return false
		}
	}
	for k := range br.HtlcRetributions {
		hr := &br.HtlcRetributions[k]
		what := "htlc-offered-by-us"
		if hr.IsIncoming {
			what = "htlc-offered-by-them"
		}
		if !one(what, hr.OutPoint, &hr.SignDesc) {
			return false
		}
	}
	// completeness: every output except the (at most two) anchors.
	var anchors [][]byte
	if st.ChanType.HasAnchors() && !st.ChanType.IsTaproot() {
		anchors = verifC04AnchorScripts(st)
	}
	nAnchor := 0
	for idx, out := range revokedTx.TxOut {
		if _, ok := covered[uint32(idx)]; ok {
			continue
		}
		isAnchor := false
		if st.ChanType.HasAnchors() && out.Value == int64(lnwallet.AnchorSize) {
			if st.ChanType.IsTaproot() {
				isAnchor = txscript.IsPayToTaproot(out.PkScript)
			} else {
				for _, a := range anchors {
					if bytes.Equal(a, out.PkScript) {
						isAnchor = true
					}
				}
			}
		}
		if isAnchor && nAnchor < 2 {
			nAnchor++
			continue
		}
		c.viol("punish_complete", "uncovered-output/"+c.p.TypeName,
			fmt.Sprintf("%s: output %d (%d sat, pkScript %x) of the revoked tx is claimed by no "+
				"retribution entry (recorded: %v)\nrevoked=%s", ctx, idx, out.Value, out.PkScript,
				covered, verifC04TxHex(revokedTx)))
		return false
	}
	return true
}

// justiceAll: oracle 4 on one retribution.
func (c *verifC04Case) justiceAll(ctx string, victim int, db *channeldb.DB,
	st *channeldb.OpenChannel, br *lnwallet.BreachRetribution,
	revokedTx *wire.MsgTx, viaStore bool) bool {

	chanPoint := st.FundingOutpoint
	var ret *retributionInfo
	if c.vc.Guard("justice_build", "newRetributionInfo-panic/"+c.p.TypeName, ctx, func() {
		ret = newRetributionInfo(&chanPoint, br)
	}) {
		c.failed = true
		return false
	}
	if viaStore {
		c.vc.Count("store_roundtrips", 1)
		if ret = c.storeRoundTrip(ctx, db, ret); ret == nil {
			return false
		}
	}
	brar := c.newArbiter(victim, nil)
	var (
		txs *justiceTxVariants
		err error
	)
	if c.vc.Guard("justice_build", "createJusticeTx-panic/"+c.p.TypeName, ctx, func() {
		txs, err = brar.createJusticeTx(ret.breachedOutputs)
	}) {
		c.failed = true
		return false
	}
	if err != nil || txs == nil {
		c.viol("justice_build", "createJusticeTx/"+c.p.TypeName,
			fmt.Sprintf("%s: createJusticeTx over %d breached outputs failed: %v\nrevoked=%s",
				ctx, len(ret.breachedOutputs), err, verifC04TxHex(revokedTx)))
		return false
	}
	prev := map[wire.OutPoint]*wire.TxOut{}
	txid := revokedTx.TxHash()
	for i, o := range revokedTx.TxOut {
		prev[wire.OutPoint{Hash: txid, Index: uint32(i)}] = o
	}
	return c.execVariants(ctx, txs, ret.breachedOutputs, prev, revokedTx)
}

// negativeControl: the pipeline of oracle 4 with the revocation secret of a
// different height must be rejected by the interpreter.
func (c *verifC04Case) negativeControl(victim int, st *channeldb.OpenChannel,
	br *lnwallet.BreachRetribution, revokedTx *wire.MsgTx, otherHeight uint64) {

	sec, err := st.RevocationStore.LookUp(otherHeight)
	if err != nil {
		return
	}
	wrong, _ := btcec.PrivKeyFromBytes(sec[:])
	cp := *br
	if br.RemoteOutputSignDesc != nil {
		sd := *br.RemoteOutputSignDesc
		sd.DoubleTweak = wrong
		cp.RemoteOutputSignDesc = &sd
	}
	cp.HtlcRetributions = append([]lnwallet.HtlcRetribution(nil), br.HtlcRetributions...)
	for k := range cp.HtlcRetributions {
		cp.HtlcRetributions[k].SignDesc.DoubleTweak = wrong
	}
	if cp.RemoteOutputSignDesc == nil && len(cp.HtlcRetributions) == 0 {
		return
	}
	chanPoint := st.FundingOutpoint
	ret := newRetributionInfo(&chanPoint, &cp)
	brar := c.newArbiter(victim, nil)
	txid := revokedTx.TxHash()
	fetcher := txscript.NewMultiPrevOutFetcher(nil)
	for i, o := range revokedTx.TxOut {
		fetcher.AddPrevOut(wire.OutPoint{Hash: txid, Index: uint32(i)}, o)
	}
	for i := range ret.breachedOutputs {
		// only the inputs that are signed with the revocation key.
		if ret.breachedOutputs[i].signDesc.DoubleTweak == nil {
			continue
		}
		// one input per transaction so that each is judged on its own.
		jt, err := brar.createSweepTx(&ret.breachedOutputs[i])
		if err != nil || jt == nil {
			// signing with a mismatching key may already be refused.
			c.vc.Count("negctl_refused_at_signing", 1)
			continue
		}
		op := jt.justiceTx.TxIn[0].PreviousOutPoint
		if int(op.Index) >= len(revokedTx.TxOut) {
			continue
		}
		out := revokedTx.TxOut[op.Index]
		c.vc.Count("negctl_evals", 1)
		if err := lnwallet.VerifExec(out.PkScript, out.Value, jt.justiceTx, 0, fetcher); err == nil {
			c.t.Fatalf("C04 negative control: interpreter ACCEPTED a %v justice input signed with the "+
				"revocation secret of height %d for the commitment of another height; oracle is vacuous",
				ret.breachedOutputs[i].witnessType, otherHeight)
		}
	}
}

// secondLevel: oracle 5 for one revoked state with a snapshot.
func (c *verifC04Case) secondLevel(ctx string, victim int, db *channeldb.DB,
	st *channeldb.OpenChannel, br *lnwallet.BreachRetribution,
	revokedTx *wire.MsgTx, snap *verifC04Snap, viaStore bool) bool {

	txid := revokedTx.TxHash()
	if snap.CloseTx.TxHash() != txid {
		c.vc.Diag("snapshot_tx_differs_from_held", ctx)
		return true
	}
	prev := map[wire.OutPoint]*wire.TxOut{}
	for i, o := range revokedTx.TxOut {
		prev[wire.OutPoint{Hash: txid, Index: uint32(i)}] = o
	}
	// The cheater's own second-level transactions must be real spends of
	// the HTLC outputs (precondition; their validity is C05's subject).
	var adv []verifC04Second
	for _, s := range snap.Second {
		if int(s.HtlcOut) >= len(revokedTx.TxOut) {
			continue
		}
		out := revokedTx.TxOut[s.HtlcOut]
		if err := lnwallet.VerifExec(out.PkScript, out.Value, s.Tx, 0, nil); err != nil {
			c.vc.Diag("cheater_second_level_invalid", fmt.Sprintf("%s: %v", ctx, err))
			continue
		}
		// the cheater advances a PRNG subset (at least one).
		if len(adv) == 0 || c.r.Chance(2, 3) {
			adv = append(adv, s)
		}
	}
	if len(adv) == 0 {
		return true
	}
	chanPoint := st.FundingOutpoint
	ret := newRetributionInfo(&chanPoint, br)
	if viaStore {
		if ret = c.storeRoundTrip(ctx, db, ret); ret == nil {
			return false
		}
	}
	// How the cheater broadcasts: one transaction per HTLC, or - where the
	// second-level signatures are SINGLE|ANYONECANPAY (anchor and taproot
	// channels) - several HTLCs of one lock time advanced by ONE
	// aggregated transaction (input i pays output i), as lnd's own sweeper
	// does. An aggregate is used only if the script interpreter accepts
	// every one of its inputs (precondition, not a verdict).
	type advSpend struct {
		s   verifC04Second
		tx  *wire.MsgTx
		idx uint32
	}
	var advs []advSpend
	for _, s := range adv {
		advs = append(advs, advSpend{s: s, tx: s.Tx, idx: 0})
	}
	if len(adv) >= 2 && st.ChanType.HasAnchors() && c.r.Chance(2, 3) {
		byLock := map[uint32][]int{}
		var locks []uint32
		for i, s := range adv {
			if len(s.Tx.TxIn) != 1 || len(s.Tx.TxOut) != 1 || s.SignDetails == nil {
				continue
			}
			if _, ok := byLock[s.Tx.LockTime]; !ok {
				locks = append(locks, s.Tx.LockTime)
			}
			byLock[s.Tx.LockTime] = append(byLock[s.Tx.LockTime], i)
		}
		for _, lt := range locks {
			members := byLock[lt]
			if len(members) < 2 {
				continue
			}
			// PRNG order of the members inside the aggregate
			for i := len(members) - 1; i > 0; i-- {
				j := c.r.Intn(i + 1)
				members[i], members[j] = members[j], members[i]
			}
			agg := wire.NewMsgTx(adv[members[0]].Tx.Version)
			agg.LockTime = lt
			fetcher := txscript.NewMultiPrevOutFetcher(nil)
			for _, m := range members {
				in := *adv[m].Tx.TxIn[0]
				agg.AddTxIn(&in)
				out := *adv[m].Tx.TxOut[0]
				agg.AddTxOut(&out)
				fetcher.AddPrevOut(in.PreviousOutPoint, revokedTx.TxOut[adv[m].HtlcOut])
			}
			valid := true
			// The peer's (victim's) signature is SINGLE|ANYONECANPAY and
			// stays; the cheater signs its own half anew over the
			// aggregate (SIGHASH_ALL), with lnd's own witness builders.
			hc := txscript.NewTxSigHashes(agg, fetcher)
			for i, m := range members {
				sd := adv[m].SignDetails.SignDesc
				sd.SigHashes = hc
				sd.InputIndex = i
				sd.PrevOutputFetcher = fetcher
				var (
					w   wire.TxWitness
					err error
				)
				if st.ChanType.IsTaproot() {
					// taproot second-level witness: [peer sig, own
					// sig, (preimage,) script, control block] - only
					// the own signature (element 1) changes.
					var sig input.Signature
					sig, err = c.e.Signer(1-victim).SignOutputRaw(agg, &sd)
					if err == nil {
						w = append(wire.TxWitness{}, adv[m].Tx.TxIn[0].Witness...)
						raw := sig.Serialize()
						if sd.HashType != txscript.SigHashDefault {
							raw = append(raw, byte(sd.HashType))
						}
						if len(w) < 4 {
							err = fmt.Errorf("unexpected taproot second-level witness of %d elements", len(w))
						} else {
							w[1] = raw
						}
					}
				} else if adv[m].Incoming {
					w, err = input.ReceiverHtlcSpendRedeem(adv[m].SignDetails.PeerSig,
						adv[m].SignDetails.SigHashType, adv[m].Preimage[:],
						c.e.Signer(1-victim), &sd, agg)
				} else {
					w, err = input.SenderHtlcSpendTimeout(adv[m].SignDetails.PeerSig,
						adv[m].SignDetails.SigHashType, c.e.Signer(1-victim), &sd, agg)
				}
				if err != nil {
					valid = false
					c.vc.Diag("cheater_aggregate_sign_error", fmt.Sprintf("%s %s: %v", ctx, c.p.TypeName, err))
					break
				}
				agg.TxIn[i].Witness = w
			}
			for i, m := range members {
				if !valid {
					break
				}
				o := revokedTx.TxOut[adv[m].HtlcOut]
				if err := lnwallet.VerifExec(o.PkScript, o.Value, agg, i, fetcher); err != nil {
					valid = false
					c.vc.Diag("cheater_aggregate_invalid", fmt.Sprintf("%s %s: %v", ctx, c.p.TypeName, err))
					break
				}
			}
			if !valid {
				continue
			}
			c.vc.Count("second_level_aggregates", 1)
			if st.ChanType.IsTaproot() {
				c.vc.Count("second_level_aggregates_taproot", 1)
			}
			c.vc.Count("second_level_aggregated_htlcs", int64(len(members)))
			for i, m := range members {
				advs[m].tx, advs[m].idx = agg, uint32(i)
			}
		}
	}
	var spends []spend
	seenTx := map[chainhash.Hash]bool{}
	for _, a := range advs {
		s := a.s
		op := wire.OutPoint{Hash: txid, Index: s.HtlcOut}
		found := -1
		for i := range ret.breachedOutputs {
			if ret.breachedOutputs[i].outpoint == op {
				found = i
			}
		}
		if found < 0 {
			c.viol("punish_complete", "second-level-htlc-unrecorded/"+c.p.TypeName,
				fmt.Sprintf("%s: HTLC output %v advanced by the cheater is not among the breached outputs",
					ctx, op))
			return false
		}
		h := a.tx.TxHash()
		spends = append(spends, spend{index: found, detail: &chainntnfs.SpendDetail{
			SpentOutPoint: &op, SpenderTxHash: &h, SpendingTx: a.tx,
			SpenderInputIndex: a.idx, SpendingHeight: verifC04BreachHeight + 1,
		}})
		if !seenTx[h] {
			seenTx[h] = true
			for i, o := range a.tx.TxOut {
				prev[wire.OutPoint{Hash: h, Index: uint32(i)}] = o
			}
		}
	}
	if c.vc.Guard("justice_build", "updateBreachInfo-panic/"+c.p.TypeName, ctx, func() {
		updateBreachInfo(ret, spends)
	}) {
		c.failed = true
		return false
	}
	// Every advanced HTLC must now be pursued on ITS second-level output
	// (the output the cheater's input pays: same index as the input) and no
	// longer on the (spent) commitment output; no two breached outputs may
	// pursue the same outpoint.
	pursued := map[wire.OutPoint]int{}
	for i := range ret.breachedOutputs {
		pursued[ret.breachedOutputs[i].outpoint]++
	}
	for _, a := range advs {
		s := a.s
		want := wire.OutPoint{Hash: a.tx.TxHash(), Index: a.idx}
		spent := wire.OutPoint{Hash: txid, Index: s.HtlcOut}
		gotWant, gotSpent := pursued[want] == 1, pursued[spent] > 0
		c.vc.Count("oracle_second_level_converted_evals", 1)
		if !gotWant || gotSpent {
			agg := ""
			if len(a.tx.TxIn) > 1 {
				agg = "/aggregated"
			}
			c.viol("second_level_converted", fmt.Sprintf("incoming=%v/%s%s", !s.Incoming, c.p.TypeName, agg),
				fmt.Sprintf("%s: after the cheater's second-level tx %v (input %d of %d) spent HTLC output %v the breached "+
					"outputs pursue second-level output %v %d times (want once), still the spent commitment output: %v",
					ctx, a.tx.TxHash(), a.idx, len(a.tx.TxIn), spent, want, pursued[want], gotSpent))
			return false
		}
	}
	brar := c.newArbiter(victim, nil)
	var (
		txs *justiceTxVariants
		err error
	)
	if c.vc.Guard("justice_build", "createJusticeTx-panic/"+c.p.TypeName, ctx, func() {
		txs, err = brar.createJusticeTx(ret.breachedOutputs)
	}) {
		c.failed = true
		return false
	}
	if err != nil || txs == nil {
		c.viol("justice_build", "createJusticeTx-second-level/"+c.p.TypeName,
			fmt.Sprintf("%s: createJusticeTx after second-level conversion failed: %v", ctx, err))
		return false
	}
	c.nSecond += len(adv)
	return c.execVariants(ctx+" after-second-level", txs, ret.breachedOutputs, prev, revokedTx)
}

// breachChecks runs oracles 1-5 with party `victim` as the victim.
func (c *verifC04Case) breachChecks(victim int) {
	cheater := 1 - victim
	fv := c.e.Fork(victim, "reload_error")
	if fv == nil {
		c.failed = true
		return
	}
	defer fv.Close()
	st := fv.State()
	obf := verifC04Obfuscator(st)
	held := c.e.HeldTxs(cheater)

	// The REAL chain watcher of the victim (never started: its handlers
	// are called directly with the spend of the funding output). It
	// decodes the state hint, tells the breach apart from the known
	// commitments and hands the retribution to the contractBreach callback.
	var dispatched []*lnwallet.BreachRetribution
	watcher, err := newChainWatcher(chainWatcherConfig{
		chanState: st,
		notifier: &lnmock.ChainNotifier{
			SpendChan: make(chan *chainntnfs.SpendDetail, 1),
			EpochChan: make(chan *chainntnfs.BlockEpoch),
			ConfChan:  make(chan *chainntnfs.TxConfirmation, 1),
		},
		signer:              c.e.Signer(victim),
		extractStateNumHint: lnwallet.GetStateNumHint,
		chanCloseConfs:      fn.Some(uint32(1)),
		contractBreach: func(r *lnwallet.BreachRetribution) error {
			dispatched = append(dispatched, r)
			return nil
		},
	})
	if err != nil {
		c.t.Fatalf("C04: newChainWatcher on the victim's reloaded state: %v", err)
	}
	// heights the victim holds a revocation for: everything below the
	// persisted remote tail.
	revokedBelow := st.RemoteCommitment.CommitHeight
	var heights []uint64
	for h := uint64(1); h < revokedBelow; h++ {
		if held[h] == nil {
			c.vc.Diag("revoked_height_without_recorded_tx", fmt.Sprint(h))
			continue
		}
		heights = append(heights, h)
	}
	cheaterOpener := c.e.IsOpener(cheater)
	for hi, h := range heights {
		if c.failed {
			return
		}
		revokedTx := held[h]
		c.nStates++
		base := fmt.Sprintf("victim=%d cheater=%d height=%d type=%s noAmt=%v", victim, cheater, h,
			c.p.TypeName, c.noAmt)

		// oracle 1: state hint.
		c.vc.Count("oracle_state_hint_evals", 1)
		if got := lnwallet.GetStateNumHint(revokedTx, obf); got != h {
			c.viol("state_recognised", "state-hint/"+c.p.TypeName,
				fmt.Sprintf("%s: state hint of the revoked tx decodes to %d\nrevoked=%s", base, got,
					verifC04TxHex(revokedTx)))
			continue
		}

		// oracle 1 through the real chain watcher: the spend of the
		// funding output by the revoked tx must be dispatched as a
		// breach of exactly this state.
		var brWatcher *lnwallet.BreachRetribution
		{
			txid := revokedTx.TxHash()
			fundingOp := st.FundingOutpoint
			dispatched = dispatched[:0]
			var (
				werr              error
				asLocal, asRemote bool
			)
			c.vc.Count("oracle_watcher_dispatch_evals", 1)
			// The steps of chainWatcher.handleCommitSpend up to the
			// point where a breach is dispatched, in its order, with
			// its own functions and its own obfuscator. (The method
			// itself is not called: for an unrecognised state it
			// ends in the data-loss wait loop, which never returns.)
			if c.vc.Guard("state_recognised", "watcher-panic/"+c.p.TypeName, base, func() {
				spendDetail := &chainntnfs.SpendDetail{
					SpentOutPoint: &fundingOp, SpenderTxHash: &txid, SpendingTx: revokedTx,
					SpenderInputIndex: 0, SpendingHeight: verifC04BreachHeight,
				}
				var cs *chainSet
				cs, werr = newChainSet(watcher.cfg.chanState)
				if werr != nil {
					return
				}
				num := watcher.cfg.extractStateNumHint(revokedTx, watcher.stateHintObfuscator)
				asLocal, werr = watcher.handleKnownLocalState(spendDetail, num, cs)
				if werr != nil || asLocal {
					return
				}
				asRemote, werr = watcher.handleKnownRemoteState(spendDetail, num, cs)
			}) {
				c.failed = true
				return
			}
			switch {
			case werr != nil || asLocal || !asRemote || len(dispatched) != 1:
				c.viol("state_recognised", "watcher-no-breach-dispatch/"+c.p.TypeName,
					fmt.Sprintf("%s: chain watcher on the revoked tx: err=%v, taken for our own "+
						"commitment=%v, recognised as a remote state=%v, breach retributions handed "+
						"off=%d (want 1)\nrevoked=%s", base, werr, asLocal, asRemote,
						len(dispatched), verifC04TxHex(revokedTx)))
			case dispatched[0].RevokedStateNum != h || dispatched[0].BreachTxHash != txid:
				c.viol("state_recognised", "watcher-wrong-state/"+c.p.TypeName,
					fmt.Sprintf("%s: chain watcher dispatched a breach of state %d / tx %v for the "+
						"revoked tx %v", base, dispatched[0].RevokedStateNum,
						dispatched[0].BreachTxHash, txid))
			default:
				brWatcher = dispatched[0]
			}
		}

		viaStore := c.r.Chance(1, 3)
		var brWithTx *lnwallet.BreachRetribution
		for _, withTx := range []bool{true, false} {
			ctx := fmt.Sprintf("%s spendTx=%v store=%v", base, withTx, viaStore)
			var spendTx *wire.MsgTx
			if withTx {
				spendTx = revokedTx
			}
			var (
				br  *lnwallet.BreachRetribution
				err error
			)
			c.vc.Count("oracle_retribution_evals", 1)
			if withTx && brWatcher != nil {
				// the retribution the chain watcher itself built
				// from (state, hint, spend tx).
				br = brWatcher
			} else if c.vc.Guard("retribution_build", "NewBreachRetribution-panic/"+c.p.TypeName, ctx, func() {
				br, err = lnwallet.NewBreachRetribution(st, h, verifC04BreachHeight, spendTx,
					fn.None[lnwallet.AuxLeafStore](), fn.None[lnwallet.AuxContractResolver]())
			}) {
				c.failed = true
				return
			}
			if err != nil {
				if !withTx && c.noAmt && errors.Is(err, lnwallet.ErrRevLogDataMissing) {
					// documented outcome: no amount data stored
					// and no breach tx supplied.
					c.vc.Count("noamt_nil_spend_data_missing", 1)
					continue
				}
				c.viol("retribution_build", fmt.Sprintf("spendTx=%v/%s", withTx, c.p.TypeName),
					fmt.Sprintf("%s: NewBreachRetribution failed: %v\nrevoked=%s", ctx, err,
						verifC04TxHex(revokedTx)))
				continue
			}
			if !c.checkRecorded(ctx, st, br, revokedTx) {
				continue
			}
			c.justiceAll(ctx, victim, fv.DB(), st, br, revokedTx, viaStore)
			if c.failed {
				return
			}
			if withTx {
				brWithTx = br
			}
			nIn, nOut := 0, 0
			for k := range br.HtlcRetributions {
				if br.HtlcRetributions[k].IsIncoming {
					nIn++
				} else {
					nOut++
				}
			}
			if nIn+nOut > 0 {
				if withTx {
					c.nHtlcStates++
				}
				c.vc.Sig(fmt.Sprintf("%s|%v|%d|%v|%v|%v|0", c.p.TypeName, cheaterOpener,
					verifC04Bucket(nIn+nOut), nIn > 0 && nOut > 0, withTx, c.noAmt))
			}
		}
		if brWithTx == nil {
			continue
		}

		// oracle 5: the cheater advances HTLCs first.
		if snap := c.snaps[cheater][h]; snap != nil && len(snap.Second) > 0 {
			// second-level conversion mutates the sign descriptors the
			// retribution points to: use a fresh one.
			br2, err := lnwallet.NewBreachRetribution(st, h, verifC04BreachHeight, revokedTx,
				fn.None[lnwallet.AuxLeafStore](), fn.None[lnwallet.AuxContractResolver]())
			if err == nil {
				before := c.nSecond
				ctx := fmt.Sprintf("%s second-level store=%v", base, viaStore)
				c.secondLevel(ctx, victim, fv.DB(), st, br2, revokedTx, snap, viaStore)
				if c.failed {
					return
				}
				if c.nSecond > before {
					c.vc.Count("second_level_states", 1)
					c.vc.Sig(fmt.Sprintf("%s|%v|%d|2nd|%v", c.p.TypeName, cheaterOpener,
						verifC04Bucket(len(br2.HtlcRetributions)), viaStore))
				}
			}
		}

		// negative control on a few states per victim.
		if len(heights) >= 2 && (hi == len(heights)-1 || hi == len(heights)/2) {
			other := heights[0]
			if other == h {
				other = heights[1]
			}
			c.negativeControl(victim, st, brWithTx, revokedTx, other)
		}
	}
	if c.failed {
		return
	}

	// The same question put to the victim's STARTED chain watchers, whose
	// channel state instances were decoded at the last load (c04cw_test.go).
	c.cwChecks(victim, fv.DB(), st, heights, held)
}

func verifC04RunCase(t *testing.T, vc *lnwallet.VerifCtx, i int) {
	r := vc.Rng(i)
	p := lnwallet.VerifE1GenParams(r)
	nActions := 30 + r.Intn(31)
	noAmt := r.Chance(1, 3)
	vc.Case(i, map[string]any{"params": p, "actions": nActions, "noAmt": noAmt})
	defer vc.CaseDone(i)

	e, err := lnwallet.VerifE1NewOpts(vc, r, p, channeldb.OptionNoRevLogAmtData(noAmt))
	if err != nil {
		vc.Count("setup_skipped", 1)
		return
	}
	defer e.Close()
	// the C01/C03 exactness oracles are not this property's subject.
	e.SetOracles(map[string]bool{})

	c := &verifC04Case{t: t, vc: vc, r: r, e: e, p: p, noAmt: noAmt, seen: map[string]bool{}, idx: i}
	c.snaps[0] = map[uint64]*verifC04Snap{}
	c.snaps[1] = map[uint64]*verifC04Snap{}
	if noAmt {
		vc.Count("noamt_cases", 1)
	}
	// "node start": each party's chain watchers get their own instances.
	defer c.cwStopAll()
	c.cwLoad()

	reconnects := 0
	for a := 0; a < nActions && !e.Ended() && !c.failed; a++ {
		if e.Step(true) == "noop" {
			continue
		}
		if e.Ended() {
			break
		}
		if r.Chance(1, 6) {
			c.snapshot()
		}
		if r.Chance(1, 25) {
			if !e.Reconnect("c04-reconnect") {
				break
			}
			reconnects++
			// both parties were reloaded from disk: so are their
			// chain watchers.
			c.cwLoad()
		}
	}
	if !e.Ended() && !c.failed {
		e.Drain(true)
	}
	if !e.Ended() && !c.failed {
		// a snapshot of the quiescent state, then more traffic so that
		// this state gets revoked too.
		c.snapshot()
		for a := 0; a < 12 && !e.Ended(); a++ {
			e.Step(false)
		}
		if !e.Ended() {
			e.Drain(true)
		}
	}
	vc.Count("reconnects", int64(reconnects))
	if e.ConstraintTerminated() {
		vc.Count("constraint_terminated", 1)
	}
	if c.failed || (e.Ended() && !e.ConstraintTerminated()) {
		// an engine-level violation has been recorded.
		return
	}

	for victim := 0; victim < 2 && !c.failed; victim++ {
		c.breachChecks(victim)
	}
	if c.nViol > 0 {
		vc.Count("cases_with_violation", 1)
	}
	vc.Count("revoked_states", int64(c.nStates))
	vc.Count("revoked_states_with_htlc_outputs", int64(c.nHtlcStates))
	if c.nHtlcStates > 0 {
		vc.Count("nontrivial", 1)
	}
	if i%37 == 0 {
		vc.Sample(map[string]any{"case": i, "params": p, "noAmt": noAmt,
			"reconnects": reconnects, "revoked_states": c.nStates,
			"revoked_states_with_htlc_outputs": c.nHtlcStates,
			"second_level_htlcs":               c.nSecond, "end": e.EndReason()})
	}
}

func TestVerifC04(t *testing.T) {
	vc := lnwallet.VerifStart(t, "C04", "breach")
	defer vc.Finish()
	defer verifCwInstallLog()()
	total := vc.N(320, 12000)
	for i := 0; i < total; i++ {
		if !vc.Mine(i) {
			continue
		}
		verifC04RunCase(t, vc, i)
	}
}
