package contractcourt

// C05, chain-watcher path of the contractcourt unit.
//
// In lnd the close summaries the resolvers work from are not built by the
// caller of ForceClose: when a commitment confirms, the channel's chainWatcher
// (closeObserver -> handleCommitSpend -> newChainSet -> handleKnownLocalState /
// handleKnownRemoteState -> dispatchLocalForceClose / dispatchRemoteForceClose
// -> lnwallet.NewLocalForceCloseSummary / NewUnilateralCloseSummary) builds
// them on ITS OWN *OpenChannel instance, decoded from the database when the
// node started, and hands them to the channel arbitrator through its
// subscription. That instance is not the one the link's LightningChannel
// advances.
//
// Here: whenever a schedule has (re)loaded both parties from disk (creation,
// restart, disconnect: lnwallet.VerifC05SetOnLoad) a few instances per party are
// decoded from that party's LIVE database and kept. At a check point, after the
// directly built summary of a close kind has been judged (c05cc_test.go), a
// REAL chain watcher is created and started on one of those (by now stale)
// instances (cw_common_test.go), the confirmed commitment - the party's own
// ForceClose()d commitment, the peer's current or the peer's pending
// not-yet-revoked commitment - is delivered to it as the spend of the funding
// outpoint, and the LocalUnilateralCloseInfo / RemoteUnilateralCloseInfo it
// dispatches is judged by the SAME resolver + script-interpreter oracles as
// the directly built one (localJudge / remoteJudge), plus completeness: every
// HTLC that has an output on the confirmed commitment (persisted state) has a
// resolution for that output.
//
// Oracle close_dispatched: a confirmed commitment for which the direct path
// succeeds must come out of the watcher as a close of that kind - not as a
// logged error, not as another kind of close, not as a breach, not as nothing.
//
// The watcher only reads the live database on these paths (single-confirmation
// mode; no MarkBorked / close height writes), so the schedule goes on
// undisturbed. The discriminating power of the observation is counted
// (cw_negctl_*): our own commitment never produces a remote close event and
// the peer's never a local one; a watcher that neither dispatches, logs an
// error nor returns within the watchdog is inconclusive (t.Fatalf).

import (
	"fmt"
	"testing"

	"github.com/btcsuite/btcd/wire/v2"
	"github.com/lightningnetwork/lnd/channeldb"
	"github.com/lightningnetwork/lnd/lnwallet"
)

// instances per party and load: two check points x three close kinds.
const verifC05cwPerParty = 6

type verifC05cwInst struct {
	st *channeldb.OpenChannel
	// heights of the instance when it was decoded (the watcher refreshes the
	// instance in place).
	localAt, remoteAt uint64
}

// verifC05cwPool: the instances decoded at the last load of the running case.
var verifC05cwPool struct {
	e    *lnwallet.VerifE1
	inst [2][]*verifC05cwInst
}

// verifC05cwLoad is "node start" of both parties.
func verifC05cwLoad(t *testing.T, vc *lnwallet.VerifCtx, e *lnwallet.VerifE1) {
	verifC05cwPool.e = e
	for i := 0; i < 2; i++ {
		verifC05cwPool.inst[i] = nil
		for k := 0; k < verifC05cwPerParty; k++ {
			chans, err := e.DB(i).ChannelStateDB().FetchAllChannels()
			if err != nil || len(chans) != 1 {
				t.Fatalf("C05 chain watcher: FetchAllChannels of party %d: n=%d err=%v",
					i, len(chans), err)
			}
			verifC05cwPool.inst[i] = append(verifC05cwPool.inst[i], &verifC05cwInst{
				st:       chans[0],
				localAt:  chans[0].LocalCommitment.CommitHeight,
				remoteAt: chans[0].RemoteCommitment.CommitHeight,
			})
		}
	}
	vc.Count("cw_loads", 1)
}

// cwDispatch starts a chain watcher on one of the party's stale instances and
// delivers tx as the spend of the funding outpoint. nil: no instance left.
func (c *verifC05ccRun) cwDispatch(kind string, tx *wire.MsgTx) (*verifCwOutcome, *verifC05cwInst) {
	if verifC05cwPool.e != c.e || len(verifC05cwPool.inst[c.who]) == 0 {
		c.vc.Count("cw_no_instance_left", 1)
		return nil, nil
	}
	in := verifC05cwPool.inst[c.who][0]
	verifC05cwPool.inst[c.who] = verifC05cwPool.inst[c.who][1:]

	wt := verifCwNewWatch(c.t, in.st, c.signer, false)
	var o *verifCwOutcome
	if c.vc.Guard("close_dispatched", c.key("cw-"+kind)+":panic", nil, func() {
		o = verifCwDeliver(c.t, c.vc, wt, tx, lnwallet.VerifC05Height)
	}) {
		wt.stop()
		c.e.Viol("close_dispatched", c.key("cw-"+kind)+":panic", "chain watcher delivery panicked")
		return nil, nil
	}
	c.vc.Count("oracle_cw_close_dispatched", 1)
	return o, in
}

// cwNotDispatched reports the verdict for a confirmation the watcher did not
// turn into the expected close event.
func (c *verifC05ccRun) cwNotDispatched(kind string, tx *wire.MsgTx, o *verifCwOutcome,
	in *verifC05cwInst) {

	how := "ignored"
	switch {
	case len(o.breaches) > 0 || o.breachEv != nil:
		how = "dispatched-as-breach"
	case o.local != nil:
		how = "dispatched-as-local-unilateral-close"
	case o.remote != nil:
		how = "dispatched-as-remote-unilateral-close"
	case o.coop != nil:
		how = "dispatched-as-cooperative-close"
	case o.panicked != "":
		how = "watcher-panicked"
	case o.dlpWait:
		how = "treated-as-unknown-state-data-loss-wait"
	case len(o.errLines()) > 0:
		how = "error-no-dispatch"
	case !o.returned:
		c.t.Fatalf("C05 chain watcher: no dispatch, no logged error and no return within %v "+
			"(inconclusive): %s\n%v", verifCwDeadline, kind, o)
	}
	c.e.Viol("close_dispatched", c.key("cw-"+kind)+":"+how,
		fmt.Sprintf("%s commitment %v confirmed; the summary built directly on the reloaded state is "+
			"fine, but the party's running chain watcher (channel state instance decoded when our/their "+
			"height was %d/%d) did not dispatch it as a %s close: %s\n%v\ntx %s", kind, tx.TxHash(),
			in.localAt, in.remoteAt, kind, how, o, lnwallet.VerifC05TxHex(tx)))
}

// cwComplete: every HTLC with an output on the confirmed commitment (as
// persisted) has a resolution for exactly that output, in the list of its
// direction.
func (c *verifC05ccRun) cwComplete(kind string, htlcs []channeldb.HTLC,
	res *lnwallet.HtlcResolutions, in *verifC05cwInst) bool {

	c.vc.Count("oracle_cw_resolutions_complete", 1)
	have := map[uint32]bool{}
	haveIn := map[uint32]bool{}
	if res != nil {
		for k := range res.OutgoingHTLCs {
			have[res.OutgoingHTLCs[k].HtlcPoint().Index] = true
		}
		for k := range res.IncomingHTLCs {
			haveIn[res.IncomingHTLCs[k].HtlcPoint().Index] = true
		}
	}
	for idx, h := range verifC05ccByOutput(htlcs) {
		if (h.Incoming && haveIn[idx]) || (!h.Incoming && have[idx]) {
			continue
		}
		dir := "offered"
		if h.Incoming {
			dir = "received"
		}
		c.e.Viol("cw_resolutions_complete", c.key("cw-"+kind)+":"+dir,
			fmt.Sprintf("%s close dispatched by the running chain watcher (channel state instance decoded "+
				"when our/their height was %d/%d): %s htlc %d (%v) has output %d on the confirmed "+
				"commitment but the dispatched summary carries no resolution for it (resolutions: "+
				"offered %v, received %v)", kind, in.localAt, in.remoteAt, dir, h.HtlcIndex, h.Amt, idx,
				have, haveIn))
		return false
	}
	return true
}

// cwLocal: our own force-closed commitment confirms.
func (c *verifC05ccRun) cwLocal(closeTx *wire.MsgTx, direct lnwallet.ContractResolutions) {
	if c.e.Ended() {
		return
	}
	o, in := c.cwDispatch("local", closeTx)
	if o == nil {
		return
	}
	if in.localAt != c.st.LocalCommitment.CommitHeight {
		c.vc.Count("cw_stale_local", 1)
	}
	if o.local == nil || o.local.LocalForceCloseSummary == nil ||
		o.local.LocalForceCloseSummary.ContractResolutions.IsNone() {

		c.cwNotDispatched("local", closeTx, o, in)
		return
	}
	if o.remote == nil && o.breachEv == nil && len(o.breaches) == 0 && o.coop == nil {
		c.vc.Count("cw_negctl_local_only_local_event", 1)
	} else {
		c.vc.Diag("cw_local_close_with_other_events", o.String())
	}
	res := o.local.LocalForceCloseSummary.ContractResolutions.UnsafeFromSome()
	if (res.CommitResolution == nil) != (direct.CommitResolution == nil) {
		c.vc.Diag("cw_commit_resolution_differs", "local")
	}
	if !c.cwComplete("local", c.st.LocalCommitment.Htlcs, res.HtlcResolutions, in) {
		return
	}
	c.localJudge("cw-local", res)
}

// cwRemote: the peer's current / pending commitment confirms.
func (c *verifC05ccRun) cwRemote(kind string, peerTx *wire.MsgTx,
	direct *lnwallet.UnilateralCloseSummary, rc channeldb.ChannelCommitment) {

	if c.e.Ended() {
		return
	}
	o, in := c.cwDispatch(kind, peerTx)
	if o == nil {
		return
	}
	if in.remoteAt != rc.CommitHeight {
		c.vc.Count("cw_stale_remote", 1)
	}
	if o.remote == nil || o.remote.UnilateralCloseSummary == nil {
		c.cwNotDispatched(kind, peerTx, o, in)
		return
	}
	if o.local == nil && o.breachEv == nil && len(o.breaches) == 0 && o.coop == nil {
		c.vc.Count("cw_negctl_remote_only_remote_event", 1)
	} else {
		c.vc.Diag("cw_remote_close_with_other_events", o.String())
	}
	sum := o.remote.UnilateralCloseSummary
	if (sum.CommitResolution == nil) != (direct.CommitResolution == nil) {
		c.vc.Diag("cw_commit_resolution_differs", kind)
	}
	if !c.cwComplete(kind, rc.Htlcs, sum.HtlcResolutions, in) {
		return
	}
	c.remoteJudge("cw-"+kind, sum, rc)
}
