package contractcourt

// C05, contractcourt unit: the resolutions produced by the real
// lnwallet.ForceClose / lnwallet.NewUnilateralCloseSummary on forks of E1
// schedules (same schedule driver as the lnwallet unit) are handed to the REAL
// commitSweepResolver / anchorResolver / htlcTimeoutResolver /
// htlcSuccessResolver. Their Launch() offers input.Input objects to a
// recording sweeper; every such input is turned into a sweep transaction the
// way sweep/txgenerator.go does, signed through the input's own
// CraftInputScript with the party's signer, and executed by btcd's script
// interpreter against the output of the really confirmed transaction
// (commitment / re-signed second-level transaction). A wrong arm of
// decideWitnessType, hasCLTV, makeSweepInput or of a resolver's Launch switch
// therefore shows up as a rejected spend (or as a missing input).
//
// Not covered here: the legacy (pre-anchor) second-level path, which goes
// through the utxo nursery instead of the sweeper (counted as
// legacy_second_level_to_nursery).

import (
	"fmt"
	"testing"

	"github.com/btcsuite/btcd/chainhash/v2"
	"github.com/btcsuite/btcd/wire/v2"
	"github.com/lightningnetwork/lnd/chainntnfs"
	"github.com/lightningnetwork/lnd/channeldb"
	"github.com/lightningnetwork/lnd/fn/v2"
	"github.com/lightningnetwork/lnd/input"
	"github.com/lightningnetwork/lnd/kvdb"
	"github.com/lightningnetwork/lnd/lntest/mock"
	"github.com/lightningnetwork/lnd/lnwallet"
	"github.com/lightningnetwork/lnd/lnwallet/chainfee"
	"github.com/lightningnetwork/lnd/sweep"
)

// verifC05ccSweeper records what the resolvers offer.
type verifC05ccSweeper struct {
	inputs []input.Input
}

func (s *verifC05ccSweeper) SweepInput(in input.Input, _ sweep.Params) (
	chan sweep.Result, error) {

	s.inputs = append(s.inputs, in)
	return make(chan sweep.Result, 1), nil
}

func (s *verifC05ccSweeper) RelayFeePerKW() chainfee.SatPerKWeight { return 253 }

func (s *verifC05ccSweeper) UpdateParams(wire.OutPoint, sweep.Params) (
	chan sweep.Result, error) {

	return make(chan sweep.Result, 1), nil
}

var _ UtxoSweeper = (*verifC05ccSweeper)(nil)

type verifC05ccRun struct {
	t  *testing.T
	vc *lnwallet.VerifCtx
	e  *lnwallet.VerifE1

	who         int
	st          *channeldb.OpenChannel
	signer      input.Signer
	afterReload bool

	sw       *verifC05ccSweeper
	notifier *mock.ChainNotifier
	cfg      ResolverConfig

	// really "confirmed" transactions by txid
	confirmed map[chainhash.Hash]*wire.MsgTx
	nOut, nIn int
}

func (c *verifC05ccRun) key(kind string) string {
	return c.e.Params().TypeName + ":" + kind
}

func (c *verifC05ccRun) setup(who int, fk *lnwallet.VerifForkHandle, afterReload bool) {
	c.who = who
	c.st = fk.State()
	c.signer = c.e.Signer(who)
	c.afterReload = afterReload
	c.sw = &verifC05ccSweeper{}
	c.notifier = &mock.ChainNotifier{
		EpochChan: make(chan *chainntnfs.BlockEpoch, 1),
		SpendChan: make(chan *chainntnfs.SpendDetail, 1),
		ConfChan:  make(chan *chainntnfs.TxConfirmation, 1),
	}
	c.cfg = ResolverConfig{
		ChannelArbitratorConfig: ChannelArbitratorConfig{
			ChanPoint:   c.st.FundingOutpoint,
			ShortChanID: c.st.ShortChanID(),
			ChainArbitratorConfig: ChainArbitratorConfig{
				Notifier:  c.notifier,
				Sweeper:   c.sw,
				PublishTx: func(*wire.MsgTx, string) error { return nil },
				IncubateOutputs: func(wire.OutPoint,
					fn.Option[lnwallet.OutgoingHtlcResolution],
					fn.Option[lnwallet.IncomingHtlcResolution],
					uint32, fn.Option[int32], ...IncubateOption) error {

					return nil
				},
				Budget: *DefaultBudgetConfig(),
			},
			PutResolverReport: func(kvdb.RwTx, *channeldb.ResolverReport) error {
				return nil
			},
		},
		Checkpoint: func(ContractResolver, ...*channeldb.ResolverReport) error {
			return nil
		},
	}
	c.confirmed = map[chainhash.Hash]*wire.MsgTx{}
	c.nOut, c.nIn = 0, 0
}

// launch supplements and launches a real resolver and returns the inputs it
// offered to the sweeper.
func (c *verifC05ccRun) launch(kind, what string, r ContractResolver) ([]input.Input, bool) {
	c.sw.inputs = nil
	r.SupplementState(c.st)
	var err error
	if c.vc.Guard("resolver_launch_error", c.key(kind)+":panic:"+what, nil, func() {
		err = r.Launch()
	}) {
		c.e.Viol("resolver_launch_error", c.key(kind)+":panic:"+what, "Launch panicked")
		return nil, false
	}
	if err != nil {
		c.e.Viol("resolver_launch_error", c.key(kind)+":"+what,
			fmt.Sprintf("%s: %T.Launch() for %s failed: %v", kind, r, what, err))
		return nil, false
	}
	return c.sw.inputs, true
}

func (c *verifC05ccRun) one(kind, what string, r ContractResolver) (input.Input, bool) {
	ins, ok := c.launch(kind, what, r)
	if !ok {
		return nil, false
	}
	if len(ins) != 1 {
		c.e.Viol("resolver_launch_error", c.key(kind)+":inputs:"+what,
			fmt.Sprintf("%s: %T.Launch() for %s offered %d inputs to the sweeper, expected 1", kind, r, what, len(ins)))
		return nil, false
	}
	return ins[0], true
}

// spend verifies one input handed to the sweeper. Returns the sweep tx.
func (c *verifC05ccRun) spend(oracle, kind, what string, inp input.Input) (*wire.MsgTx, bool) {
	c.vc.Count("oracle_"+oracle, 1)
	op := inp.OutPoint()
	ptx := c.confirmed[op.Hash]
	if ptx == nil || int(op.Index) >= len(ptx.TxOut) {
		c.e.Viol(oracle, c.key(kind)+":outpoint",
			fmt.Sprintf("%s: input for %s (witness type %v) spends %v which is not an output of a confirmed transaction", kind, what, inp.WitnessType(), op))
		return nil, false
	}
	prev := ptx.TxOut[op.Index]
	opt := lnwallet.VerifC05SpendOpt{Wallet: inp.RequiredTxOut() != nil}
	tx, craftErr, execErr := lnwallet.VerifC05Spend(c.signer, inp, prev, opt)
	if craftErr != nil {
		c.e.Viol(oracle, c.key(kind)+":craft",
			fmt.Sprintf("%s: the input the resolver offered for %s (witness type %v) cannot produce its input script: %v",
				kind, what, inp.WitnessType(), craftErr))
		return nil, false
	}
	if execErr != nil {
		c.e.Viol(oracle, c.key(kind),
			fmt.Sprintf("%s: script interpreter rejects the spend of %s built from the resolver's input (witness type %v, sequence %d, locktime %d, prevout value %d pkScript %x): %v; tx %s",
				kind, what, inp.WitnessType(), tx.TxIn[0].Sequence, tx.LockTime, prev.Value,
				prev.PkScript, execErr, lnwallet.VerifC05TxHex(tx)))
		return nil, false
	}
	return tx, true
}

// negative control: the same input one block too early / with a locktime one
// below the required one must be rejected.
func (c *verifC05ccRun) negative(name string, inp input.Input, seqMinus1, lockMinus1 bool) {
	op := inp.OutPoint()
	prev := c.confirmed[op.Hash].TxOut[op.Index]
	opt := lnwallet.VerifC05SpendOpt{Wallet: inp.RequiredTxOut() != nil}
	if seqMinus1 {
		if inp.BlocksToMaturity() == 0 {
			return
		}
		s := inp.BlocksToMaturity() - 1
		opt.Seq = &s
	}
	if lockMinus1 {
		lt, ok := inp.RequiredLockTime()
		if !ok || lt == 0 {
			return
		}
		lt--
		opt.Lock = &lt
	}
	c.vc.Count("negctl_"+name, 1)
	tx, craftErr, execErr := lnwallet.VerifC05Spend(c.signer, inp, prev, opt)
	if craftErr != nil {
		c.t.Fatalf("C05cc negative control %s could not be built: %v", name, craftErr)
	}
	if execErr == nil {
		c.t.Fatalf("C05cc negative control %s was ACCEPTED (oracle vacuous): %s\n%v",
			name, lnwallet.VerifC05TxHex(tx), c.e.VerifC05TraceTail(12))
	}
}

func verifC05ccByOutput(htlcs []channeldb.HTLC) map[uint32]*channeldb.HTLC {
	m := map[uint32]*channeldb.HTLC{}
	for k := range htlcs {
		if htlcs[k].OutputIndex >= 0 {
			m[uint32(htlcs[k].OutputIndex)] = &htlcs[k]
		}
	}
	return m
}

// commitAndAnchor runs the commitSweepResolver and the anchorResolver.
func (c *verifC05ccRun) commitAndAnchor(kind string, cr *lnwallet.CommitOutputResolution,
	ar *lnwallet.AnchorResolution) bool {

	if cr != nil {
		r := newCommitSweepResolver(*cr, lnwallet.VerifC05Height, c.st.FundingOutpoint, c.cfg)
		inp, ok := c.one(kind, "commit output", r)
		if !ok {
			return false
		}
		if _, ok := c.spend("resolver_commit_sweep_valid", kind, "our commitment output", inp); !ok {
			return false
		}
		c.negative("commit_csv_minus_1", inp, true, false)
	}
	if ar != nil {
		r := newAnchorResolver(ar.AnchorSignDescriptor, ar.CommitAnchor,
			lnwallet.VerifC05Height, c.st.FundingOutpoint, c.cfg)
		inp, ok := c.one(kind, "anchor", r)
		if !ok {
			return false
		}
		if _, ok := c.spend("resolver_anchor_sweep_valid", kind, "our anchor", inp); !ok {
			return false
		}
	}
	return true
}

// secondStage feeds the confirmed second-level transaction to a fresh
// resolver in the outputIncubating state and verifies the input it offers
// for the second-level output.
func (c *verifC05ccRun) secondStage(kind, what string, r ContractResolver,
	htlcOp wire.OutPoint, agg *wire.MsgTx) bool {

	h := agg.TxHash()
	c.confirmed[h] = agg
	c.notifier.SpendChan <- &chainntnfs.SpendDetail{
		SpentOutPoint:     &htlcOp,
		SpenderTxHash:     &h,
		SpendingTx:        agg,
		SpenderInputIndex: 0,
		SpendingHeight:    lnwallet.VerifC05Height + 3,
	}
	inp, ok := c.one(kind, what+" (second-level output)", r)
	// drain in case the resolver did not consume the notification.
	select {
	case <-c.notifier.SpendChan:
	default:
	}
	if !ok {
		return false
	}
	if inp.OutPoint() != (wire.OutPoint{Hash: h, Index: 0}) {
		c.e.Viol("resolver_second_level_output_valid", c.key(kind)+":outpoint",
			fmt.Sprintf("%s: resolver offers %v for the second-level output of %s, confirmed output is %v:0",
				kind, inp.OutPoint(), what, h))
		return false
	}
	if _, ok := c.spend("resolver_second_level_output_valid", kind,
		"the second-level output of "+what, inp); !ok {
		return false
	}
	c.negative("second_level_csv_minus_1", inp, true, false)
	return true
}

func (c *verifC05ccRun) localClose(fk *lnwallet.VerifForkHandle) {
	e := c.e
	kind := "local"
	if c.st.LocalCommitment.CommitHeight == 0 {
		c.vc.Count("skipped_height0", 1)
		return
	}
	c.vc.Count("local_closes", 1)
	sum, err := fk.Channel().ForceClose()
	if err != nil {
		e.Viol("force_close_error", c.key(kind), fmt.Sprintf("ForceClose: %v", err))
		return
	}
	if sum.ContractResolutions.IsNone() {
		e.Viol("force_close_error", c.key(kind)+":no-resolutions", "no contract resolutions")
		return
	}
	closeTx := sum.CloseTx
	c.confirmed[closeTx.TxHash()] = closeTx
	res := sum.ContractResolutions.UnsafeFromSome()
	if !c.localJudge(kind, res) {
		return
	}
	// the same confirmation, dispatched by the party's started chain watcher
	// on its own (stale) channel state instance (c05cw_test.go).
	c.cwLocal(closeTx, res)
}

// localJudge runs the real resolvers over the resolutions of a confirmed local
// commitment (built directly or dispatched by the chain watcher) and judges
// every input they offer. True when the close was judged to the end.
func (c *verifC05ccRun) localJudge(kind string, res lnwallet.ContractResolutions) bool {
	e := c.e
	byOut := verifC05ccByOutput(c.st.LocalCommitment.Htlcs)
	ct := c.st.ChanType

	if !c.commitAndAnchor(kind, res.CommitResolution, res.AnchorResolution) {
		return false
	}
	if res.HtlcResolutions == nil {
		c.note(kind)
		return true
	}
	for k := range res.HtlcResolutions.OutgoingHTLCs {
		or := res.HtlcResolutions.OutgoingHTLCs[k]
		hp := or.HtlcPoint()
		h := byOut[hp.Index]
		if h == nil || h.Incoming {
			e.Viol("resolver_htlc_timeout_valid", c.key(kind)+":wrong-output",
				fmt.Sprintf("outgoing resolution for output %d has no offered HTLC", hp.Index))
			return false
		}
		what := fmt.Sprintf("offered htlc %d", h.HtlcIndex)
		r := newTimeoutResolver(or, lnwallet.VerifC05Height, *h, ct, c.cfg)
		if or.SignDetails == nil {
			ins, ok := c.launch(kind, what, r)
			if !ok {
				return false
			}
			if len(ins) != 0 {
				e.Viol("resolver_launch_error", c.key(kind)+":legacy-inputs",
					"legacy timeout resolver offered inputs to the sweeper")
				return false
			}
			c.vc.Count("legacy_second_level_to_nursery", 1)
			c.nOut++
			continue
		}
		inp, ok := c.one(kind, what, r)
		if !ok {
			return false
		}
		agg, ok := c.spend("resolver_htlc_timeout_valid", kind,
			what+" through the re-signed HTLC-timeout tx", inp)
		if !ok {
			return false
		}
		if lh, ok := e.VerifC05Ledger(c.who, h); ok && agg.LockTime != lh.Expiry {
			e.Viol("htlc_tx_locktime", c.key(kind)+":resolver",
				fmt.Sprintf("re-signed HTLC-timeout tx for %s has locktime %d, HTLC expiry %d", what, agg.LockTime, lh.Expiry))
			return false
		}
		c.negative("timeout_tx_locktime_minus_1", inp, false, true)
		r2 := newTimeoutResolver(or, lnwallet.VerifC05Height, *h, ct, c.cfg)
		r2.outputIncubating = true
		if !c.secondStage(kind, what, r2, hp, agg) {
			return false
		}
		c.nOut++
	}
	for k := range res.HtlcResolutions.IncomingHTLCs {
		ir := res.HtlcResolutions.IncomingHTLCs[k]
		hp := ir.HtlcPoint()
		h := byOut[hp.Index]
		if h == nil || !h.Incoming {
			e.Viol("resolver_htlc_success_valid", c.key(kind)+":wrong-output",
				fmt.Sprintf("incoming resolution for output %d has no received HTLC", hp.Index))
			return false
		}
		lh, ok := e.VerifC05Ledger(c.who, h)
		if !ok {
			c.vc.Diag("ledger_miss", fmt.Sprintf("%s htlc %d", kind, h.HtlcIndex))
			continue
		}
		// htlcIncomingContestResolver.applyPreimage
		ir.Preimage = lh.Preimage
		what := fmt.Sprintf("received htlc %d", h.HtlcIndex)
		r := newSuccessResolver(ir, lnwallet.VerifC05Height, *h, ct, c.cfg)
		if ir.SignDetails == nil {
			ins, ok := c.launch(kind, what, r)
			if !ok {
				return false
			}
			if len(ins) != 0 {
				e.Viol("resolver_launch_error", c.key(kind)+":legacy-inputs",
					"legacy success resolver offered inputs to the sweeper")
				return false
			}
			c.vc.Count("legacy_second_level_to_nursery", 1)
			c.nIn++
			continue
		}
		inp, ok := c.one(kind, what, r)
		if !ok {
			return false
		}
		agg, ok := c.spend("resolver_htlc_success_valid", kind,
			what+" through the re-signed HTLC-success tx", inp)
		if !ok {
			return false
		}
		r2 := newSuccessResolver(ir, lnwallet.VerifC05Height, *h, ct, c.cfg)
		r2.outputIncubating = true
		if !c.secondStage(kind, what, r2, hp, agg) {
			return false
		}
		c.nIn++
	}
	c.note(kind)
	return true
}

func (c *verifC05ccRun) remoteClose(pending bool) {
	e := c.e
	st := c.st
	kind := "remote-current"
	if pending {
		kind = "remote-pending"
	}
	// as chain_watcher.newChainSet
	_, remoteCommit, err := st.LatestCommitments()
	if err != nil {
		e.Viol("remote_close_error", c.key(kind)+":LatestCommitments", err.Error())
		return
	}
	tip, err := st.RemoteCommitChainTip()
	if err != nil && err != channeldb.ErrNoPendingCommit {
		e.Viol("remote_close_error", c.key(kind)+":RemoteCommitChainTip", err.Error())
		return
	}
	if _, err := st.RemoteRevocationStore(); err != nil {
		e.Viol("remote_close_error", c.key(kind)+":RemoteRevocationStore", err.Error())
		return
	}
	rc := *remoteCommit
	commitPoint := st.RemoteCurrentRevocation
	if pending {
		if tip == nil {
			return
		}
		rc = tip.Commitment
		commitPoint = st.RemoteNextRevocation
	}
	if rc.CommitHeight == 0 {
		c.vc.Count("skipped_height0", 1)
		return
	}
	peerTx := e.HeldTxs(1 - c.who)[rc.CommitHeight]
	if peerTx == nil {
		c.vc.Count("remote_not_held_by_peer", 1)
		return
	}
	if commitPoint == nil || rc.CommitTx == nil || rc.CommitTx.TxHash() != peerTx.TxHash() {
		c.vc.Diag("peer_tx_not_recognised", kind)
		return
	}
	c.vc.Count("remote_closes", 1)
	txid := peerTx.TxHash()
	c.confirmed[txid] = peerTx
	sum, err := lnwallet.NewUnilateralCloseSummary(st, c.signer, &chainntnfs.SpendDetail{
		SpentOutPoint:  &st.FundingOutpoint,
		SpenderTxHash:  &txid,
		SpendingTx:     peerTx,
		SpendingHeight: lnwallet.VerifC05Height,
	}, rc, commitPoint, fn.None[lnwallet.AuxLeafStore](), fn.None[lnwallet.AuxContractResolver]())
	if err != nil {
		e.Viol("remote_close_error", c.key(kind), fmt.Sprintf("NewUnilateralCloseSummary: %v", err))
		return
	}
	if !c.remoteJudge(kind, sum, rc) {
		return
	}
	// the same confirmation, dispatched by the party's started chain watcher
	// on its own (stale) channel state instance (c05cw_test.go).
	c.cwRemote(kind, peerTx, sum, rc)
}

// remoteJudge: as localJudge for a confirmed commitment of the peer.
func (c *verifC05ccRun) remoteJudge(kind string, sum *lnwallet.UnilateralCloseSummary,
	rc channeldb.ChannelCommitment) bool {

	e := c.e
	st := c.st
	byOut := verifC05ccByOutput(rc.Htlcs)
	ct := st.ChanType
	if !c.commitAndAnchor(kind, sum.CommitResolution, sum.AnchorResolution) {
		return false
	}
	if sum.HtlcResolutions == nil {
		c.note(kind)
		return true
	}
	for k := range sum.HtlcResolutions.OutgoingHTLCs {
		or := sum.HtlcResolutions.OutgoingHTLCs[k]
		hp := or.HtlcPoint()
		h := byOut[hp.Index]
		if h == nil || h.Incoming {
			e.Viol("resolver_htlc_timeout_valid", c.key(kind)+":wrong-output",
				fmt.Sprintf("outgoing resolution for output %d has no offered HTLC", hp.Index))
			return false
		}
		what := fmt.Sprintf("offered htlc %d", h.HtlcIndex)
		r := newTimeoutResolver(or, lnwallet.VerifC05Height, *h, ct, c.cfg)
		inp, ok := c.one(kind, what, r)
		if !ok {
			return false
		}
		tx, ok := c.spend("resolver_htlc_timeout_valid", kind, what+" after its expiry", inp)
		if !ok {
			return false
		}
		if lh, ok := e.VerifC05Ledger(c.who, h); ok && tx.LockTime != lh.Expiry {
			e.Viol("htlc_tx_locktime", c.key(kind)+":resolver",
				fmt.Sprintf("timeout sweep of %s has locktime %d, HTLC expiry %d", what, tx.LockTime, lh.Expiry))
			return false
		}
		c.negative("remote_timeout_locktime_minus_1", inp, false, true)
		c.nOut++
	}
	for k := range sum.HtlcResolutions.IncomingHTLCs {
		ir := sum.HtlcResolutions.IncomingHTLCs[k]
		hp := ir.HtlcPoint()
		h := byOut[hp.Index]
		if h == nil || !h.Incoming {
			e.Viol("resolver_htlc_success_valid", c.key(kind)+":wrong-output",
				fmt.Sprintf("incoming resolution for output %d has no received HTLC", hp.Index))
			return false
		}
		lh, ok := e.VerifC05Ledger(c.who, h)
		if !ok {
			c.vc.Diag("ledger_miss", fmt.Sprintf("%s htlc %d", kind, h.HtlcIndex))
			continue
		}
		ir.Preimage = lh.Preimage
		what := fmt.Sprintf("received htlc %d", h.HtlcIndex)
		r := newSuccessResolver(ir, lnwallet.VerifC05Height, *h, ct, c.cfg)
		inp, ok := c.one(kind, what, r)
		if !ok {
			return false
		}
		if _, ok := c.spend("resolver_htlc_success_valid", kind, what+" with its preimage", inp); !ok {
			return false
		}
		c.nIn++
	}
	c.note(kind)
	return true
}

func (c *verifC05ccRun) note(kind string) {
	e := c.e
	if e.Ended() {
		return
	}
	c.vc.Count("closes_checked", 1)
	nOut, nIn := c.nOut, c.nIn
	c.nOut, c.nIn = 0, 0
	if nOut+nIn == 0 {
		return
	}
	c.vc.Count("nontrivial", 1)
	c.vc.Count("nontrivial_"+kind, 1)
	if c.afterReload {
		c.vc.Count("nontrivial_after_reload", 1)
	}
	c.vc.Sig(lnwallet.VerifJoin(e.Params().TypeName, e.IsOpener(c.who), kind,
		lnwallet.VerifBucket(nOut), lnwallet.VerifBucket(nIn), e.VerifC05Faults() > 0))
}

func TestVerifC05CC(t *testing.T) {
	vc := lnwallet.VerifStart(t, "C05", "resolvers")
	defer vc.Finish()
	defer verifCwInstallLog()()
	lnwallet.VerifC05SetOnLoad(func(e *lnwallet.VerifE1) { verifC05cwLoad(t, vc, e) })
	defer lnwallet.VerifC05SetOnLoad(nil)
	total := vc.N(200, 5000)
	for i := 0; i < total; i++ {
		if !vc.Mine(i) {
			continue
		}
		lnwallet.VerifC05Schedule(vc, i, func(e *lnwallet.VerifE1, who int,
			fk *lnwallet.VerifForkHandle, afterReload bool) {

			run := &verifC05ccRun{t: t, vc: vc, e: e}
			run.setup(who, fk, afterReload)
			run.remoteClose(false)
			if !e.Ended() {
				run.remoteClose(true)
			}
			if !e.Ended() {
				run.localClose(fk)
			}
		})
	}
}
