package lnwire

// C10 monitor (lnwire part): HISTORY INDEPENDENCE of the well-formed round
// trip.
//
// Every other oracle of this harness judges one round trip in isolation and
// only ever makes DECODES fail. State hidden between calls of the codec
// (package-level sync.Pool buffers, cached scratch slices, reused
// bytes.Buffer / reader objects, tables mutated by a failing path) is only
// visible when the call that is judged is preceded by OTHER calls, above all by
// encodes that the encoder has to refuse part-way. So, before the round trip of
// a well-formed value (boundary values of c10wf_test.go, field-domain values of
// c10fd_test.go, generated values of c10_test.go) a PRNG-chosen sequence of 0-3
// DISTURBANCES runs in the same goroutine (and for 1 value in 24 another 2-4
// goroutines run disturbances concurrently with the round trip, sync.Pool being
// per-P):
//
//   - illenc: the real encoder is handed an ILL-FORMED VALUE that it must
//     refuse (catalogue verifC10HistIlls, built by reading the lnwire encoders:
//     unsupported / nil net.Addr, onion address of an unknown length or with a
//     bad base32 host, nil public keys / feature vectors where the encoder
//     returns an error, short channel ids that do not fit 3+3 bytes, outpoint
//     index > 65535, unknown short-id encoding, timestamp / scid count mismatch,
//     custom records below the custom range or colliding with the extra data,
//     extra data that is no TLV stream, node_announcement_2 alias / tor
//     records the record encoder refuses, blobs / lists / extensions beyond
//     their uint16 length prefix resp. 65535 bytes, failure packets > 256
//     bytes; the ill element FIRST, in the MIDDLE and LAST of its list so that
//     bytes were already produced). The value goes through Message.Encode
//     directly (to see how many bytes had been produced at the refusal),
//     through DataToSign where the message has one, and through WriteMessage /
//     EncodeFailureMessage / EncodeFailure.
//   - baddec: a failing decode of hostile bytes (a valid encoding of the same
//     or of another target truncated at a PRNG offset, with a bad length, a
//     broken address list, a truncated zlib stream).
//   - oklarge: a successful encode + decode of ANOTHER large well-formed value
//     (50..65 KB), which leaves pooled buffers full.
//
// Then the existing oracles judge the well-formed value as before
// (wellformed_roundtrip, lossless_*), and in addition
//
//   - history_independent ["Every well-formed message value encodes to at most
//     65535 bytes and decodes back to an equal value" + the canonical
//     re-encoding: the encoding is a function of the VALUE]: the bytes the
//     encoder produced for the value BEFORE the disturbances (computed once,
//     first thing) and the bytes it produces AFTER them must be identical. It
//     needs no model. Keys "<target>|bytes-differ|<class>" and, for the values
//     with concurrent disturbers, "<target>|bytes-differ-after-concurrent|
//     <class>" (a further encode after the disturbers have finished).
//     An encode that is refused once and accepted once is a diagnostic
//     (hist_refusal_flipped; for values within the limits the existing
//     encode-refused-within-limits clause judges the refusal).
//
// The same dimension in the other direction (histMid): for one evaluated value
// in three, 1-2 OTHER decodes (another valid encoding of the same target, hostile
// bytes for it, a large value of another type) run BETWEEN the decode of the
// value's own encoding and the judgement of the decoded value by the existing
// oracles (value-differs / reencode-differs): a decoded value has to own its
// memory, a decoder that leaves pooled / package-level scratch space aliased
// into the returned message shows up there.
//
// Disturbances are counted by kind (hist_illenc_refused, hist_baddec_rejected,
// hist_oklarge_ok, ...); a catalogue entry the encoder does NOT refuse or on
// which it panics is a diagnostic (hist_illenc_accepted / hist_illenc_panic:
// the statement bounds the decoders), never a verdict.

import (
	"bytes"
	"compress/zlib"
	"fmt"
	"net"
	"os"
	"strings"
	"sync"

	"github.com/btcsuite/btcd/btcec/v2"
	"github.com/lightningnetwork/lnd/tlv"
	"github.com/lightningnetwork/lnd/tor"
)

// ------------------------------------------------------------------ catalogue of ill-formed values

// verifC10Ill is one class of ill-formed values of one target.
type verifC10Ill struct {
	Kind  int // as verifC10Target.Kind
	Msg   MessageType
	Code  FailCode
	Name  string
	Build func(r *verifRng) any // nil = the base generator failed
}

func (e verifC10Ill) target() verifC10Target {
	return verifC10Target{Name: "ill/" + e.Name, Kind: e.Kind, Msg: e.Msg, Code: e.Code}
}

var verifC10HistPositions = []string{"first", "middle", "last"}

// verifC10HistPlaceAddr puts bad at the given position of good (len >= 2).
func verifC10HistPlaceAddr(r *verifRng, good []net.Addr, bad net.Addr, pos string) []net.Addr {
	k := 0
	switch pos {
	case "middle":
		k = 1 + r.Intn(len(good)-1)
	case "last":
		k = len(good)
	}
	out := make([]net.Addr, 0, len(good)+1)
	out = append(out, good[:k]...)
	out = append(out, bad)
	return append(out, good[k:]...)
}

// verifC10HistGoodAddrs: 2..6 well-formed addresses; now and then a list of
// 20..60 KB so that the scratch space of the encoder is well filled when it
// meets the ill-formed one.
func verifC10HistGoodAddrs(r *verifRng) []net.Addr {
	if r.Chance(1, 8) {
		return verifC10AddrFill(r, 20000+r.Intn(40000), "mixed", false, false)
	}
	n := 2 + r.Intn(5)
	out := make([]net.Addr, 0, n)
	for i := 0; i < n; i++ {
		var a net.Addr
		if r.Chance(1, 8) {
			a, _ = verifC10Addr(r, "dns", 1+r.Intn(255))
		} else {
			a, _ = verifC10Addr(r, verifC10SmallAddrKinds[r.Intn(4)], 0)
		}
		out = append(out, a)
	}
	return out
}

// verifC10HistBadBase32 is a base32 host of n characters with one character
// outside Tor's alphabet (a-z2-7).
func verifC10HistBadBase32(r *verifRng, n int) string {
	const alpha = "abcdefghijklmnopqrstuvwxyz234567"
	b := make([]byte, n)
	for i := range b {
		b[i] = alpha[r.Intn(len(alpha))]
	}
	b[r.Intn(n)] = "0189!_A@"[r.Intn(8)] // never '=': a trailing pad character can be legal base32
	return string(b)
}

var verifC10HistBadAddrs = []struct {
	name string
	mk   func(r *verifRng) net.Addr
}{
	{"onion-unknown-length", func(r *verifRng) net.Addr {
		// neither 22 (v2) nor 62 (v3) characters
		n := []int{0, 1, 5, 11, 15, 17, 40, 55, 57, 64, 100}[r.Intn(11)]
		return &tor.OnionAddr{OnionService: strings.Repeat("a", n) + tor.OnionSuffix, Port: r.Intn(65536)}
	}},
	{"onion-v3-bad-base32", func(r *verifRng) net.Addr {
		return &tor.OnionAddr{OnionService: verifC10HistBadBase32(r, tor.V3Len-tor.OnionSuffixLen) + tor.OnionSuffix,
			Port: r.Intn(65536)}
	}},
	{"onion-v2-bad-base32", func(r *verifRng) net.Addr {
		return &tor.OnionAddr{OnionService: verifC10HistBadBase32(r, tor.V2Len-tor.OnionSuffixLen) + tor.OnionSuffix,
			Port: r.Intn(65536)}
	}},
	{"onion-nil", func(r *verifRng) net.Addr { return (*tor.OnionAddr)(nil) }},
	{"tcp-nil", func(r *verifRng) net.Addr { return (*net.TCPAddr)(nil) }},
	{"dns-nil", func(r *verifRng) net.Addr { return (*DNSAddress)(nil) }},
	{"opaque-nil", func(r *verifRng) net.Addr { return (*OpaqueAddrs)(nil) }},
	{"addr-nil-interface", func(r *verifRng) net.Addr { return nil }},
	{"addr-udp", func(r *verifRng) net.Addr { return &net.UDPAddr{IP: net.IP(r.Bytes(4)), Port: r.Intn(65536)} }},
	{"addr-unix", func(r *verifRng) net.Addr { return &net.UnixAddr{Name: "/run/lnd.sock", Net: "unix"} }},
	{"addr-ip", func(r *verifRng) net.Addr { return &net.IPAddr{IP: net.IP(r.Bytes(16))} }},
}

// verifC10HistScids: n ascending ids (block heights 10 apart); the id at index
// bad (if >= 0) gets a tx index that does not fit 3 bytes (the list stays
// sorted: the excess bit lands in the block height part of the sort key).
func verifC10HistScids(r *verifRng, n, bad int) []ShortChannelID {
	out := make([]ShortChannelID, n)
	h := uint32(1000 + r.Intn(100000))
	for i := range out {
		out[i] = ShortChannelID{BlockHeight: h + uint32(10*i), TxIndex: uint32(r.Intn(1 << 20)),
			TxPosition: uint16(r.U64())}
		if i == bad {
			out[i].TxIndex = 1<<24 + uint32(r.Intn(1<<20))
		}
	}
	return out
}

func verifC10HistPosIndex(r *verifRng, n int, pos string) int {
	switch pos {
	case "first":
		return 0
	case "last":
		return n - 1
	}
	return 1 + r.Intn(n-2)
}

var (
	verifC10HistIllsOnce sync.Once
	verifC10HistIllList  []verifC10Ill
	verifC10HistIllByTg  map[string][]int // "<kind>/<msg or code>" -> indices
)

func verifC10HistTgKey(kind int, mt MessageType, code FailCode) string {
	if kind == 0 {
		return fmt.Sprintf("0/%d", mt)
	}
	return fmt.Sprintf("%d/%d", kind, code)
}

// verifC10HistIlls returns the catalogue (built once; the builders draw all
// content from the PRNG they are given).
func verifC10HistIlls() []verifC10Ill {
	verifC10HistIllsOnce.Do(func() {
		verifC10HistIllList = verifC10HistBuildIlls()
		verifC10HistIllByTg = map[string][]int{}
		for i, e := range verifC10HistIllList {
			k := verifC10HistTgKey(e.Kind, e.Msg, e.Code)
			verifC10HistIllByTg[k] = append(verifC10HistIllByTg[k], i)
		}
	})
	return verifC10HistIllList
}

func verifC10HistBuildIlls() []verifC10Ill {
	var out []verifC10Ill
	msg := func(mt MessageType, name string, build func(r *verifRng) any) {
		out = append(out, verifC10Ill{Kind: 0, Msg: mt, Name: name, Build: build})
	}
	base := func(r *verifRng, mt MessageType) Message {
		m, err := verifC10RapidMsg(mt, int(r.U64()>>2))
		if err != nil {
			return nil
		}
		return m
	}
	over := func(r *verifRng) int { return 65536 + r.Intn(6000) } // beyond a uint16 prefix
	badTLV := func(r *verifRng) []byte {
		return [][]byte{{0x01}, {0x03, 0x00, 0x01, 0x00}, {0x05, 0x04, 0xaa}, {0xfd, 0x00, 0x05, 0x00},
			{0x07, 0xfd, 0x00, 0x01, 0xbb}}[r.Intn(5)]
	}

	// ---- node_announcement: the address list (WriteNetAddrs) and the rest
	for _, ba := range verifC10HistBadAddrs {
		for _, pos := range verifC10HistPositions {
			ba, pos := ba, pos
			msg(MsgNodeAnnouncement, "node_announcement:"+ba.name+"-"+pos, func(r *verifRng) any {
				m, ok := base(r, MsgNodeAnnouncement).(*NodeAnnouncement1)
				if !ok {
					return nil
				}
				m.Addresses = verifC10HistPlaceAddr(r, verifC10HistGoodAddrs(r), ba.mk(r), pos)
				return m
			})
		}
	}
	msg(MsgNodeAnnouncement, "node_announcement:features-nil", func(r *verifRng) any {
		m, ok := base(r, MsgNodeAnnouncement).(*NodeAnnouncement1)
		if !ok {
			return nil
		}
		m.Features = nil
		return m
	})
	msg(MsgNodeAnnouncement, "node_announcement:addrs-beyond-65535", func(r *verifRng) any {
		m, ok := base(r, MsgNodeAnnouncement).(*NodeAnnouncement1)
		if !ok {
			return nil
		}
		m.Addresses = nil
		for tot := 0; tot < 66000; tot += 19 {
			a, _ := verifC10Addr(r, "ipv6", 0)
			m.Addresses = append(m.Addresses, a)
		}
		return m
	})

	// ---- nil feature vectors / public keys where the encoder returns an error
	msg(MsgInit, "init:global-features-nil", func(r *verifRng) any {
		return &Init{GlobalFeatures: nil, Features: verifC10FV(r, r.Intn(20))}
	})
	msg(MsgInit, "init:features-nil", func(r *verifRng) any {
		return &Init{GlobalFeatures: verifC10FV(r, 1+r.Intn(300)), Features: nil}
	})
	msg(MsgChannelAnnouncement, "channel_announcement:features-nil", func(r *verifRng) any {
		m, ok := base(r, MsgChannelAnnouncement).(*ChannelAnnouncement1)
		if !ok {
			return nil
		}
		m.Features = nil
		return m
	})
	keyNames := []string{"funding-key", "revocation-point", "payment-point", "delayed-payment-point",
		"htlc-point", "first-commitment-point"}
	for i, kn := range keyNames {
		i, kn := i, kn
		msg(MsgOpenChannel, "open_channel:"+kn+"-nil", func(r *verifRng) any {
			m, ok := base(r, MsgOpenChannel).(*OpenChannel)
			if !ok {
				return nil
			}
			*[]**btcec.PublicKey{&m.FundingKey, &m.RevocationPoint, &m.PaymentPoint,
				&m.DelayedPaymentPoint, &m.HtlcPoint, &m.FirstCommitmentPoint}[i] = nil
			return m
		})
		msg(MsgAcceptChannel, "accept_channel:"+kn+"-nil", func(r *verifRng) any {
			m, ok := base(r, MsgAcceptChannel).(*AcceptChannel)
			if !ok {
				return nil
			}
			*[]**btcec.PublicKey{&m.FundingKey, &m.RevocationPoint, &m.PaymentPoint,
				&m.DelayedPaymentPoint, &m.HtlcPoint, &m.FirstCommitmentPoint}[i] = nil
			return m
		})
	}
	msg(MsgChannelReady, "channel_ready:next-point-nil", func(r *verifRng) any {
		m, ok := base(r, MsgChannelReady).(*ChannelReady)
		if !ok {
			return nil
		}
		m.NextPerCommitmentPoint = nil
		return m
	})
	msg(MsgRevokeAndAck, "revoke_and_ack:next-revocation-key-nil", func(r *verifRng) any {
		m, ok := base(r, MsgRevokeAndAck).(*RevokeAndAck)
		if !ok {
			return nil
		}
		m.NextRevocationKey = nil
		return m
	})
	msg(MsgOnionMessage, "onion_message:path-key-nil", func(r *verifRng) any {
		return &OnionMessage{PathKey: nil, OnionBlob: r.Bytes(r.Intn(2000))}
	})

	// ---- fields that do not fit their wire representation
	scidOver := func(r *verifRng, s *ShortChannelID, which string) {
		if which == "height" {
			s.BlockHeight = 1<<24 + uint32(r.Intn(1<<20))
		} else {
			s.TxIndex = 1<<24 + uint32(r.Intn(1<<20))
		}
	}
	for _, which := range []string{"height", "txindex"} {
		which := which
		msg(MsgChannelAnnouncement, "channel_announcement:scid-"+which+"-over-24-bits", func(r *verifRng) any {
			m, ok := base(r, MsgChannelAnnouncement).(*ChannelAnnouncement1)
			if !ok {
				return nil
			}
			scidOver(r, &m.ShortChannelID, which)
			return m
		})
		msg(MsgChannelUpdate, "channel_update:scid-"+which+"-over-24-bits", func(r *verifRng) any {
			m, ok := base(r, MsgChannelUpdate).(*ChannelUpdate1)
			if !ok {
				return nil
			}
			scidOver(r, &m.ShortChannelID, which)
			return m
		})
		msg(MsgAnnounceSignatures, "announcement_signatures:scid-"+which+"-over-24-bits", func(r *verifRng) any {
			m, ok := base(r, MsgAnnounceSignatures).(*AnnounceSignatures1)
			if !ok {
				return nil
			}
			scidOver(r, &m.ShortChannelID, which)
			return m
		})
	}
	msg(MsgFundingCreated, "funding_created:outpoint-index-over-65535", func(r *verifRng) any {
		m, ok := base(r, MsgFundingCreated).(*FundingCreated)
		if !ok {
			return nil
		}
		m.FundingPoint.Index = []uint32{65536, 65537, 1 << 31, ^uint32(0)}[r.Intn(4)]
		return m
	})

	// ---- short channel id lists
	for _, mt := range []MessageType{MsgQueryShortChanIDs, MsgReplyChannelRange} {
		mt := mt
		name := "query_short_channel_ids"
		if mt == MsgReplyChannelRange {
			name = "reply_channel_range"
		}
		mk := func(r *verifRng, enc QueryEncoding, ids []ShortChannelID, ts Timestamps) any {
			if mt == MsgQueryShortChanIDs {
				q := &QueryShortChanIDs{EncodingType: enc, ShortChanIDs: ids}
				copy(q.ChainHash[:], r.Bytes(32))
				return q
			}
			q := &ReplyChannelRange{FirstBlockHeight: uint32(r.U64()), NumBlocks: uint32(r.U64()),
				Complete: uint8(r.Intn(2)), EncodingType: enc, ShortChanIDs: ids, Timestamps: ts}
			copy(q.ChainHash[:], r.Bytes(32))
			return q
		}
		msg(mt, name+":encoding-unknown", func(r *verifRng) any {
			return mk(r, QueryEncoding(2+r.Intn(254)), verifC10HistScids(r, 1+r.Intn(50), -1), nil)
		})
		for _, enc := range []QueryEncoding{EncodingSortedPlain, EncodingSortedZlib} {
			en := map[QueryEncoding]string{EncodingSortedPlain: "plain", EncodingSortedZlib: "zlib"}[enc]
			for _, pos := range verifC10HistPositions {
				enc, pos := enc, pos
				msg(mt, name+":scid-txindex-over-24-bits-"+en+"-"+pos, func(r *verifRng) any {
					n := 3 + r.Intn(40)
					if r.Chance(1, 8) {
						n = 1000 + r.Intn(5000)
					}
					return mk(r, enc, verifC10HistScids(r, n, verifC10HistPosIndex(r, n, pos)), nil)
				})
			}
		}
		msg(mt, name+":scids-beyond-65535", func(r *verifRng) any {
			return mk(r, EncodingSortedPlain, verifC10HistScids(r, 8192+r.Intn(500), -1), nil)
		})
	}
	msg(MsgReplyChannelRange, "reply_channel_range:timestamps-count-mismatch", func(r *verifRng) any {
		n := 1 + r.Intn(30)
		ts := make(Timestamps, n+1+r.Intn(3))
		q := &ReplyChannelRange{EncodingType: EncodingSortedPlain, ShortChanIDs: verifC10HistScids(r, n, -1),
			Timestamps: ts}
		copy(q.ChainHash[:], r.Bytes(32))
		return q
	})
	msg(MsgReplyChannelRange, "reply_channel_range:timestamps-duplicate-scid", func(r *verifRng) any {
		n := 2 + r.Intn(30)
		ids := verifC10HistScids(r, n, -1)
		ids[r.Intn(n-1)] = ids[n-1]
		q := &ReplyChannelRange{EncodingType: EncodingSortedPlain, ShortChanIDs: ids, Timestamps: make(Timestamps, n)}
		copy(q.ChainHash[:], r.Bytes(32))
		return q
	})

	// ---- MergeAndEncode messages: custom records / extra data
	type merge struct {
		mt   MessageType
		name string
		set  func(m Message, cr CustomRecords, e []byte) bool
	}
	for _, mg := range []merge{
		{MsgInit, "init", func(m Message, cr CustomRecords, e []byte) bool {
			x, ok := m.(*Init)
			if ok {
				x.CustomRecords, x.ExtraData = cr, e
			}
			return ok
		}},
		{MsgShutdown, "shutdown", func(m Message, cr CustomRecords, e []byte) bool {
			x, ok := m.(*Shutdown)
			if ok {
				x.CustomRecords, x.ExtraData = cr, e
			}
			return ok
		}},
		{MsgUpdateAddHTLC, "update_add_htlc", func(m Message, cr CustomRecords, e []byte) bool {
			x, ok := m.(*UpdateAddHTLC)
			if ok {
				x.CustomRecords, x.ExtraData = cr, e
			}
			return ok
		}},
		{MsgUpdateFulfillHTLC, "update_fulfill_htlc", func(m Message, cr CustomRecords, e []byte) bool {
			x, ok := m.(*UpdateFulfillHTLC)
			if ok {
				x.CustomRecords, x.ExtraData = cr, e
			}
			return ok
		}},
		{MsgCommitSig, "commitment_signed", func(m Message, cr CustomRecords, e []byte) bool {
			x, ok := m.(*CommitSig)
			if ok {
				x.CustomRecords, x.ExtraData = cr, e
			}
			return ok
		}},
	} {
		mg := mg
		with := func(name string, f func(r *verifRng) (CustomRecords, []byte)) {
			msg(mg.mt, mg.name+":"+name, func(r *verifRng) any {
				m := base(r, mg.mt)
				if m == nil {
					return nil
				}
				cr, e := f(r)
				if !mg.set(m, cr, e) {
					return nil
				}
				return m
			})
		}
		with("custom-record-below-custom-range", func(r *verifRng) (CustomRecords, []byte) {
			cr := CustomRecords{uint64(70001 + 2*r.Intn(1000)): r.Bytes(r.Intn(40))}
			cr[uint64(200+r.Intn(65000))] = r.Bytes(r.Intn(40))
			return cr, nil
		})
		with("custom-record-collides-with-extra-data", func(r *verifRng) (CustomRecords, []byte) {
			t := uint64(70001 + 2*r.Intn(1000))
			return CustomRecords{t: r.Bytes(r.Intn(40)), t + 2: r.Bytes(3)}, verifC10Rec(t, r.Bytes(r.Intn(40)))
		})
		with("extra-data-not-tlv", func(r *verifRng) (CustomRecords, []byte) {
			return nil, badTLV(r)
		})
	}
	msg(MsgCommitSig, "commitment_signed:htlc-sigs-beyond-65535", func(r *verifRng) any {
		sigs := make([]Sig, 1023+r.Intn(200))
		for i := range sigs {
			sigs[i] = verifC10RandSig(r)
		}
		return &CommitSig{ChanID: verifC10ChanID(r), CommitSig: verifC10RandSig(r), HtlcSigs: sigs}
	})

	// ---- byte blobs beyond their uint16 length prefix / the message limit
	msg(MsgPing, "ping:padding-beyond-65535", func(r *verifRng) any {
		return &Ping{NumPongBytes: uint16(r.U64()), PaddingBytes: r.Bytes(over(r))}
	})
	msg(MsgPong, "pong:bytes-beyond-65535", func(r *verifRng) any { return &Pong{PongBytes: r.Bytes(over(r))} })
	msg(MsgError, "error:data-beyond-65535", func(r *verifRng) any {
		return &Error{ChanID: verifC10ChanID(r), Data: r.Bytes(over(r))}
	})
	msg(MsgWarning, "warning:data-beyond-65535", func(r *verifRng) any {
		return &Warning{ChanID: verifC10ChanID(r), Data: r.Bytes(over(r))}
	})
	msg(MsgUpdateFailHTLC, "update_fail_htlc:reason-beyond-65535", func(r *verifRng) any {
		return &UpdateFailHTLC{ChanID: verifC10ChanID(r), ID: r.U64(), Reason: r.Bytes(over(r))}
	})
	msg(MsgOnionMessage, "onion_message:blob-beyond-65535", func(r *verifRng) any {
		return NewOnionMessage(verifC10PubKey(r), r.Bytes(over(r)))
	})
	msg(CustomTypeStart, "custom:data-beyond-65535", func(r *verifRng) any {
		return &Custom{Type: CustomTypeStart, Data: r.Bytes(over(r))}
	})
	msg(MsgShutdown, "shutdown:address-beyond-65535", func(r *verifRng) any {
		return &Shutdown{ChannelID: verifC10ChanID(r), Address: r.Bytes(over(r))}
	})
	for _, which := range []string{"closer", "closee"} {
		which := which
		msg(MsgClosingComplete, "closing_complete:"+which+"-script-beyond-65535", func(r *verifRng) any {
			m, ok := base(r, MsgClosingComplete).(*ClosingComplete)
			if !ok {
				return nil
			}
			if which == "closer" {
				m.CloserScript = r.Bytes(over(r))
			} else {
				m.CloseeScript = r.Bytes(over(r))
			}
			return m
		})
		msg(MsgClosingSig, "closing_sig:"+which+"-script-beyond-65535", func(r *verifRng) any {
			m, ok := base(r, MsgClosingSig).(*ClosingSig)
			if !ok {
				return nil
			}
			if which == "closer" {
				m.CloserScript = r.Bytes(over(r))
			} else {
				m.CloseeScript = r.Bytes(over(r))
			}
			return m
		})
	}
	// extension beyond the message limit (messages that keep it verbatim)
	ext := func(mt MessageType, name string, set func(r *verifRng, m Message, e []byte) bool) {
		msg(mt, name+":extension-beyond-65535", func(r *verifRng) any {
			m := base(r, mt)
			if m == nil {
				return nil
			}
			e := verifC10Rec(uint64(101+2*r.Intn(50)), r.Bytes(over(r)))
			if !set(r, m, e) {
				return nil
			}
			return m
		})
	}
	ext(MsgStfu, "stfu", func(r *verifRng, m Message, e []byte) bool {
		x, ok := m.(*Stfu)
		if ok {
			x.ExtraData = e
		}
		return ok
	})
	ext(MsgUpdateFee, "update_fee", func(r *verifRng, m Message, e []byte) bool {
		x, ok := m.(*UpdateFee)
		if ok {
			x.ExtraData = e
		}
		return ok
	})
	ext(MsgKickoffSig, "kickoff_sig", func(r *verifRng, m Message, e []byte) bool {
		x, ok := m.(*KickoffSig)
		if ok {
			x.ExtraData = e
		}
		return ok
	})
	ext(MsgUpdateFailMalformedHTLC, "update_fail_malformed_htlc", func(r *verifRng, m Message, e []byte) bool {
		x, ok := m.(*UpdateFailMalformedHTLC)
		if ok {
			x.ExtraData = e
		}
		return ok
	})
	ext(MsgAnnounceSignatures, "announcement_signatures", func(r *verifRng, m Message, e []byte) bool {
		x, ok := m.(*AnnounceSignatures1)
		if ok {
			x.ExtraOpaqueData = e
		}
		return ok
	})
	ext(MsgReplyShortChanIDsEnd, "reply_short_channel_ids_end", func(r *verifRng, m Message, e []byte) bool {
		x, ok := m.(*ReplyShortChanIDsEnd)
		if ok {
			x.ExtraData = e
		}
		return ok
	})
	ext(MsgChannelAnnouncement, "channel_announcement", func(r *verifRng, m Message, e []byte) bool {
		x, ok := m.(*ChannelAnnouncement1)
		if ok {
			x.ExtraOpaqueData = e
		}
		return ok
	})
	ext(MsgNodeAnnouncement, "node_announcement", func(r *verifRng, m Message, e []byte) bool {
		x, ok := m.(*NodeAnnouncement1)
		if ok {
			x.ExtraOpaqueData = e
		}
		return ok
	})
	ext(MsgDynAck, "dyn_ack", func(r *verifRng, m Message, e []byte) bool {
		x, ok := m.(*DynAck)
		if ok {
			x.ExtraData = e
		}
		return ok
	})
	ext(MsgDynReject, "dyn_reject", func(r *verifRng, m Message, e []byte) bool {
		x, ok := m.(*DynReject)
		if ok {
			x.ExtraData = e
		}
		return ok
	})

	// ---- gossip 1.75 (pure TLV) messages
	for _, mt := range []MessageType{MsgChannelAnnouncement2, MsgNodeAnnouncement2, MsgChannelUpdate2,
		MsgAnnounceSignatures2} {

		mt := mt
		name := map[MessageType]string{MsgChannelAnnouncement2: "channel_announcement_2",
			MsgNodeAnnouncement2: "node_announcement_2", MsgChannelUpdate2: "channel_update_2",
			MsgAnnounceSignatures2: "announcement_signatures_2"}[mt]
		msg(mt, name+":extra-signed-field-beyond-65535", func(r *verifRng) any {
			m := base(r, mt)
			f := ExtraSignedFields{uint64(1000000001 + 2*r.Intn(1000)): r.Bytes(over(r))}
			switch x := m.(type) {
			case *AnnounceSignatures2:
				x.ExtraSignedFields = f
			case *ChannelAnnouncement2:
				x.ExtraSignedFields = f
			case *NodeAnnouncement2:
				x.ExtraSignedFields = f
			case *ChannelUpdate2:
				x.ExtraSignedFields = f
			default:
				return nil
			}
			return m
		})
	}
	na2 := func(name string, mod func(r *verifRng, m *NodeAnnouncement2)) {
		msg(MsgNodeAnnouncement2, "node_announcement_2:"+name, func(r *verifRng) any {
			m, ok := base(r, MsgNodeAnnouncement2).(*NodeAnnouncement2)
			if !ok {
				return nil
			}
			mod(r, m)
			return m
		})
	}
	alias := func(m *NodeAnnouncement2, a []byte) {
		rec := tlv.ZeroRecordT[tlv.TlvType3, NodeAlias2]()
		rec.Val = NodeAlias2(a)
		m.Alias = tlv.SomeRecordT(rec)
	}
	na2("alias-empty", func(r *verifRng, m *NodeAnnouncement2) { alias(m, []byte{}) })
	na2("alias-over-32", func(r *verifRng, m *NodeAnnouncement2) { alias(m, []byte(verifC10Hostname(r, 33+r.Intn(40)))) })
	na2("alias-not-utf8", func(r *verifRng, m *NodeAnnouncement2) {
		a := []byte(verifC10Hostname(r, 2+r.Intn(30)))
		a[r.Intn(len(a))] = 0xff
		alias(m, a)
	})
	for _, pos := range verifC10HistPositions {
		pos := pos
		na2("torv3-bad-base32-"+pos, func(r *verifRng, m *NodeAnnouncement2) {
			n := 3 + r.Intn(6)
			bad := verifC10HistPosIndex(r, n, pos)
			rec := tlv.ZeroRecordT[tlv.TlvType9, TorV3Addrs]()
			rec.Val = make(TorV3Addrs, n)
			for i := range rec.Val {
				a, _ := verifC10Addr(r, "torv3", 0)
				rec.Val[i] = a.(*tor.OnionAddr)
				if i == bad {
					rec.Val[i].OnionService = verifC10HistBadBase32(r, tor.V3Len-tor.OnionSuffixLen) + tor.OnionSuffix
				}
			}
			m.TorV3Addrs = tlv.SomeRecordT(rec)
		})
	}
	na2("ipv4-addrs-beyond-65535", func(r *verifRng, m *NodeAnnouncement2) {
		rec := tlv.ZeroRecordT[tlv.TlvType5, IPV4Addrs]()
		rec.Val = make(IPV4Addrs, 10923+r.Intn(300))
		for i := range rec.Val {
			rec.Val[i] = &net.TCPAddr{IP: net.IP{10, byte(i >> 16), byte(i >> 8), byte(i)}, Port: 1 + i%65535}
		}
		m.IPV4Addrs = tlv.SomeRecordT(rec)
	})

	// ---- onion failures (message and packet form)
	updateCodes := []FailCode{CodeTemporaryChannelFailure, CodeAmountBelowMinimum, CodeFeeInsufficient,
		CodeIncorrectCltvExpiry, CodeExpiryTooSoon, CodeChannelDisabled}
	for _, kind := range []int{1, 2} {
		for _, code := range updateCodes {
			kind, code := kind, code
			form := map[int]string{1: "fail", 2: "failpkt"}[kind]
			out = append(out, verifC10Ill{Kind: kind, Code: code,
				Name: fmt.Sprintf("%s%d:update-scid-over-24-bits", form, code),
				Build: func(r *verifRng) any {
					f, err := verifC10GenFailure(r, code)
					if err != nil {
						return nil
					}
					var u *ChannelUpdate1
					switch x := f.(type) {
					case *FailTemporaryChannelFailure:
						if x.Update == nil {
							if x.Update, err = verifC10GenUpdate(r); err != nil {
								return nil
							}
						}
						u = x.Update
					case *FailAmountBelowMinimum:
						u = &x.Update
					case *FailFeeInsufficient:
						u = &x.Update
					case *FailIncorrectCltvExpiry:
						u = &x.Update
					case *FailExpiryTooSoon:
						u = &x.Update
					case *FailChannelDisabled:
						u = &x.Update
					default:
						return nil
					}
					scidOver(r, &u.ShortChannelID, []string{"height", "txindex"}[r.Intn(2)])
					return f
				}})
		}
	}
	out = append(out, verifC10Ill{Kind: 2, Code: CodeIncorrectOrUnknownPaymentDetails,
		Name: fmt.Sprintf("failpkt%d:message-over-256", CodeIncorrectOrUnknownPaymentDetails),
		Build: func(r *verifRng) any {
			f := NewFailIncorrectDetails(MilliSatoshi(r.U64()), uint32(r.U64()))
			e, ok := verifC10ExtExact(r, 243+r.Intn(2000))
			if !ok {
				return nil
			}
			f.extraOpaqueData = e
			return f
		}})
	return out
}

// ------------------------------------------------------------------ large well-formed values

// verifC10HistLarge builds another well-formed value whose encoding is large
// (tens of KB), with its target.
func verifC10HistLarge(r *verifRng) (verifC10Target, string, any) {
	big := func() int { return 50000 + r.Intn(15000) }
	tgOf := func(m Message) verifC10Target {
		return verifC10Target{Name: fmt.Sprintf("large/msg%d", m.MsgType()), Kind: 0, Msg: m.MsgType()}
	}
	var m Message
	name := ""
	switch r.Intn(14) {
	case 0:
		m, name = &Ping{NumPongBytes: uint16(r.U64()), PaddingBytes: r.Bytes(big())}, "ping"
	case 1:
		m, name = &Pong{PongBytes: r.Bytes(big())}, "pong"
	case 2:
		m, name = &Error{ChanID: verifC10ChanID(r), Data: r.Bytes(big())}, "error"
	case 3:
		m, name = &Warning{ChanID: verifC10ChanID(r), Data: r.Bytes(big())}, "warning"
	case 4:
		if x, err := verifC10RapidMsg(MsgNodeAnnouncement, int(r.U64()>>2)); err == nil {
			na := x.(*NodeAnnouncement1)
			na.Features, na.ExtraOpaqueData = NewRawFeatureVector(), []byte{}
			na.Addresses = verifC10AddrFill(r, 30000+r.Intn(35000), "mixed", false, false)
			m, name = na, "node_announcement"
		}
	case 5:
		sigs := make([]Sig, 800+r.Intn(200))
		for i := range sigs {
			sigs[i] = verifC10RandSig(r)
		}
		m, name = &CommitSig{ChanID: verifC10ChanID(r), CommitSig: verifC10RandSig(r), HtlcSigs: sigs}, "commitment_signed"
	case 6:
		m, name = &UpdateFailHTLC{ChanID: verifC10ChanID(r), ID: r.U64(), Reason: r.Bytes(big())}, "update_fail_htlc"
	case 7:
		m, name = &Custom{Type: CustomTypeStart, Data: r.Bytes(big())}, "custom"
	case 8:
		m, name = NewInitMessage(verifC10FV(r, 8192), verifC10FV(r, 8192)), "init"
	case 9:
		q := &QueryShortChanIDs{EncodingType: EncodingSortedPlain, ShortChanIDs: verifC10HistScids(r, 6000+r.Intn(2000), -1)}
		copy(q.ChainHash[:], r.Bytes(32))
		m, name = q, "query_short_channel_ids"
	case 10:
		q := &ReplyChannelRange{EncodingType: EncodingSortedZlib, ShortChanIDs: verifC10HistScids(r, 2000+r.Intn(2000), -1)}
		copy(q.ChainHash[:], r.Bytes(32))
		m, name = q, "reply_channel_range-zlib"
	case 11:
		m, name = NewOnionMessage(verifC10PubKey(r), r.Bytes(big())), "onion_message"
	case 12:
		if e, ok := verifC10ExtExact(r, big()); ok {
			m, name = &Stfu{ChanID: verifC10ChanID(r), Initiator: r.Bool(), ExtraData: e}, "stfu-extension"
		}
	default:
		f := NewFailIncorrectDetails(MilliSatoshi(r.U64()), uint32(r.U64()))
		if e, ok := verifC10ExtExact(r, 1000+r.Intn(30000)); ok {
			f.extraOpaqueData = e
			return verifC10Target{Name: "large/fail", Kind: 1, Code: CodeIncorrectOrUnknownPaymentDetails},
				"incorrect_details-tlv", f
		}
	}
	if m == nil {
		m, name = &Pong{PongBytes: r.Bytes(big())}, "pong"
	}
	return tgOf(m), name, m
}

// ------------------------------------------------------------------ disturbances

type verifC10Dist struct {
	Kind string // illenc | baddec | okdec | oklarge
	Name string
	Tg   verifC10Target
	V    any    // illenc / oklarge
	B    []byte // baddec
}

var verifC10HistDecClasses = []string{"trunc", "trunc", "trunc", "len16", "bigsize", "insdel", "addrs", "zlib-trunc"}

// verifC10HistHostile builds hostile bytes for target t from a valid encoding
// of it.
func verifC10HistHostile(r *verifRng, t verifC10Target) (string, []byte) {
	class := verifC10HistDecClasses[r.Intn(len(verifC10HistDecClasses))]
	if class == "zlib-trunc" {
		// a zlib short-id list whose compressed stream ends early
		ids := verifC10HistScids(r, 20+r.Intn(200), -1)
		var z bytes.Buffer
		zw := zlib.NewWriter(&z)
		zw.Write(verifC10ScidBytes(ids))
		zw.Close()
		comp := z.Bytes()
		comp = comp[:2+r.Intn(len(comp)-2)]
		b := []byte{byte(MsgQueryShortChanIDs >> 8), byte(MsgQueryShortChanIDs & 0xff)}
		b = append(b, r.Bytes(32)...)
		b = append(b, byte((len(comp)+1)>>8), byte(len(comp)+1), byte(EncodingSortedZlib))
		return class, append(b, comp...)
	}
	v, err := t.genValid(r)
	if err != nil {
		return class, t.header()
	}
	var b0 []byte
	func() {
		defer func() { recover() }()
		b0, _, _ = t.encode(v)
	}()
	if len(b0) == 0 {
		return class, t.header()
	}
	return class, verifC10Mutate(r, t, b0, b0, class)
}

// histPlan draws n disturbances for a value of target tg.
func (h *verifC10H) histPlan(r *verifRng, tg verifC10Target, n int) []verifC10Dist {
	ills := verifC10HistIlls()
	var plan []verifC10Dist
	for k := 0; k < n; k++ {
		switch c := r.Intn(8); {
		case c < 4:
			// an ill-formed value: of the target's own type when the
			// catalogue has one (half of the time), else of any type
			idx := r.Intn(len(ills))
			if own := verifC10HistIllByTg[verifC10HistTgKey(tg.Kind, tg.Msg, tg.Code)]; len(own) > 0 && r.Bool() {
				idx = own[r.Intn(len(own))]
			}
			e := ills[idx]
			var v any
			func() {
				defer func() { recover() }()
				v = e.Build(r)
			}()
			if v == nil {
				h.vc.Count("hist_illenc_build_failed", 1)
				continue
			}
			plan = append(plan, verifC10Dist{Kind: "illenc", Name: e.Name, Tg: e.target(), V: v})
		case c < 6:
			t := tg
			if r.Bool() && len(h.tgs) > 0 {
				t = h.tgs[r.Intn(len(h.tgs))]
			}
			class, b := verifC10HistHostile(r, t)
			plan = append(plan, verifC10Dist{Kind: "baddec", Name: class, Tg: t, B: b})
		default:
			t, name, v := verifC10HistLarge(r)
			plan = append(plan, verifC10Dist{Kind: "oklarge", Name: name, Tg: t, V: v})
		}
	}
	return plan
}

var (
	verifC10HistSeenMu sync.Mutex
	verifC10HistSeen   = map[string]bool{}
)

// verifC10HistFirst reports whether key is new in this process.
func verifC10HistFirst(key string) bool {
	verifC10HistSeenMu.Lock()
	defer verifC10HistSeenMu.Unlock()
	if verifC10HistSeen[key] {
		return false
	}
	verifC10HistSeen[key] = true
	return true
}

// verifC10HistRun executes one disturbance against the real codec. It is safe
// to call from several goroutines (each disturbance owns its value). The
// returned tag describes what happened ("illenc:<class>:refused", ...).
func verifC10HistRun(vc *verifCtx, d *verifC10Dist) (tag string) {
	switch d.Kind {
	case "illenc":
		vc.Count("hist_illenc", 1)
		defer func() {
			if p := recover(); p != nil {
				// the statement bounds the decoders; an encoder panic on
				// an ill-formed value is recorded, not judged
				vc.Count("hist_illenc_panic", 1)
				vc.Count("hist_illenc_panic:"+d.Name, 1)
				vc.Diag("hist_illenc_panic", fmt.Sprintf("%s: %v", d.Name, p))
				tag = "illenc:" + d.Name + ":panic"
			}
		}()
		var (
			buf bytes.Buffer
			err error
		)
		switch d.Tg.Kind {
		case 0:
			m := d.V.(Message)
			// the message's own Encode, as WriteMessage calls it: how many
			// bytes had been produced when the value was refused?
			var raw bytes.Buffer
			if e := m.Encode(&raw, 0); e != nil {
				vc.Count("hist_illenc_refused_by_encode", 1)
				if raw.Len() > 0 {
					vc.Count("hist_illenc_refused_partway", 1)
				}
			}
			if ds, ok := d.V.(interface{ DataToSign() ([]byte, error) }); ok {
				vc.Count("hist_illenc_datatosign", 1)
				if _, e := ds.DataToSign(); e != nil {
					vc.Count("hist_illenc_datatosign_refused", 1)
				}
			}
			_, err = WriteMessage(&buf, m, 0)
		case 1:
			err = EncodeFailureMessage(&buf, d.V.(FailureMessage), 0)
			if err != nil && buf.Len() > 0 {
				vc.Count("hist_illenc_refused_partway", 1)
			}
		default:
			err = EncodeFailure(&buf, d.V.(FailureMessage), 0)
		}
		if err == nil {
			vc.Count("hist_illenc_accepted", 1)
			vc.Count("hist_illenc_accepted:"+d.Name, 1)
			vc.Diag("hist_illenc_accepted", d.Name+": the encoder did not refuse this catalogue entry")
			return "illenc:" + d.Name + ":accepted"
		}
		vc.Count("hist_illenc_refused", 1)
		if verifC10HistFirst("ill|" + d.Name) {
			vc.Count("hist_illenc_classes_refused", 1)
		}
		vc.Sig(verifJoin("hist", "ill", d.Name))
		return "illenc:" + d.Name + ":refused"
	case "okdec":
		vc.Count("hist_okdec", 1)
		var err error
		if vc.Guard("no_panic", d.Tg.Name+"|decode", map[string]any{"target": d.Tg.Name,
			"class": "hist-" + d.Name, "len": len(d.B), "bytes": verifHex(d.B[:min(len(d.B), 2048)])}, func() {
			_, err = d.Tg.decode(d.B)
		}) {
			return "okdec:" + d.Name + ":panic"
		}
		vc.Count("decodes", 1)
		if err != nil {
			vc.Count("rejected", 1)
			return "okdec:" + d.Name + ":rejected"
		}
		vc.Count("accepted", 1)
		vc.Count("hist_okdec_accepted", 1)
		return "okdec:" + d.Name + ":accepted"
	case "baddec":
		vc.Count("hist_baddec", 1)
		var err error
		hx := verifHex(d.B[:min(len(d.B), 2048)])
		if vc.Guard("no_panic", d.Tg.Name+"|decode", map[string]any{"target": d.Tg.Name,
			"class": "hist-" + d.Name, "len": len(d.B), "bytes": hx}, func() {
			_, err = d.Tg.decode(d.B)
		}) {
			return "baddec:" + d.Name + ":panic"
		}
		vc.Count("decodes", 1)
		if err != nil {
			vc.Count("rejected", 1)
			vc.Count("hist_baddec_rejected", 1)
			return "baddec:" + d.Name + ":rejected"
		}
		vc.Count("accepted", 1)
		vc.Count("hist_baddec_accepted", 1)
		return "baddec:" + d.Name + ":accepted"
	default:
		vc.Count("hist_oklarge", 1)
		ok := false
		func() {
			defer func() {
				if p := recover(); p != nil {
					vc.Diag("hist_oklarge_panic", fmt.Sprintf("%s: %v", d.Name, p))
				}
			}()
			b, err := d.Tg.encodeRaw(d.V)
			if err != nil {
				vc.Diag("hist_oklarge_refused", fmt.Sprintf("%s: %v", d.Name, err))
				return
			}
			vc.Max("hist_oklarge_len", int64(len(b)))
			if _, err := d.Tg.decode(b); err != nil {
				vc.Diag("hist_oklarge_rejected", fmt.Sprintf("%s: %v", d.Name, err))
				return
			}
			ok = true
		}()
		if !ok {
			vc.Count("hist_oklarge_failed", 1)
			return "oklarge:" + d.Name + ":failed"
		}
		vc.Count("hist_oklarge_ok", 1)
		return "oklarge:" + d.Name + ":ok"
	}
}

// ------------------------------------------------------------------ oracle

// verifC10HistOn: VERIF_C10_NOHIST=1 switches the history dimension off (used
// only to show that a mutant is invisible without it, see RESULTS.md; the run
// then fails the hist_* floors and is inconclusive at best).
func verifC10HistOn() bool { return os.Getenv("VERIF_C10_NOHIST") == "" }

// verifC10HistPre is the state of one history evaluation.
type verifC10HistPre struct {
	enc          func() ([]byte, error)
	fresh        []byte
	freshRefused bool
	tags         []string
	illRefused   int
	conc         int
	wg           sync.WaitGroup
}

// histBefore encodes the value once (the FRESH encoding), then runs the
// disturbances. enc must run the real encoder on the value under test and
// return a buffer of its own. nil = history dimension off (race unit) or the
// fresh encode panicked (judged by the caller's own oracle).
func (h *verifC10H) histBefore(tg verifC10Target, enc func() ([]byte, error)) *verifC10HistPre {
	if h.hr == nil {
		return nil
	}
	vc, r := h.vc, h.hr
	pre := &verifC10HistPre{enc: enc}
	var err error
	panicked := false
	func() {
		defer func() {
			if recover() != nil {
				panicked = true
			}
		}()
		pre.fresh, err = enc()
	}()
	if panicked {
		vc.Count("hist_fresh_panic", 1)
		return nil
	}
	pre.freshRefused = err != nil
	vc.Count("hist_values", 1)
	if verifC10HistFirst("note") {
		vc.Note("hist_catalogue", fmt.Sprintf("%d classes of ill-formed values (%d targets), %d hostile-decode classes, 14 large well-formed builders",
			len(verifC10HistIlls()), len(verifC10HistIllByTg), len(verifC10HistDecClasses)-2))
	}
	n := r.Intn(4)
	plan := h.histPlan(r, tg, n)
	for i := range plan {
		t := verifC10HistRun(vc, &plan[i])
		pre.tags = append(pre.tags, t)
		if strings.HasPrefix(t, "illenc:") && strings.HasSuffix(t, ":refused") {
			pre.illRefused++
		}
	}
	if len(plan) > 0 {
		vc.Count("hist_values_disturbed", 1)
	}
	if r.Chance(1, 24) {
		// disturbers in other goroutines, running while the value under test
		// makes its round trip
		g := 2 + r.Intn(3)
		pre.conc = g
		vc.Count("hist_values_concurrent", 1)
		for k := 0; k < g; k++ {
			gp := h.histPlan(r, tg, 2+r.Intn(4))
			pre.tags = append(pre.tags, fmt.Sprintf("goroutine-%d:%d-disturbances", k, len(gp)))
			vc.Count("hist_concurrent_disturbances", int64(len(gp)))
			pre.wg.Add(1)
			go func(gp []verifC10Dist) {
				defer pre.wg.Done()
				for i := range gp {
					verifC10HistRun(vc, &gp[i])
				}
			}(gp)
		}
	}
	return pre
}

// histMid runs 1-2 other decodes between the decode of the value's own
// encoding and the judgement of the decoded value (one evaluated value in
// three).
func (h *verifC10H) histMid(pre *verifC10HistPre, tg verifC10Target, wit map[string]any) {
	if pre == nil {
		return
	}
	r := h.hr
	if r.Chance(1, 3) {
		h.vc.Count("hist_mid_values", 1)
		for k := 1 + r.Intn(2); k > 0; k-- {
			var d verifC10Dist
			switch r.Intn(4) {
			case 0, 1:
				// another valid encoding of the same target
				d = verifC10Dist{Kind: "okdec", Name: "same-target", Tg: tg, B: tg.header()}
				if v, err := tg.genValid(r); err == nil {
					func() {
						defer func() { recover() }()
						if b, _, e := tg.encode(v); e == nil && len(b) > 0 {
							d.B = b
						}
					}()
				}
			case 2:
				class, b := verifC10HistHostile(r, tg)
				d = verifC10Dist{Kind: "baddec", Name: class, Tg: tg, B: b}
			default:
				t, name, v := verifC10HistLarge(r)
				d = verifC10Dist{Kind: "oklarge", Name: name, Tg: t, V: v}
			}
			pre.tags = append(pre.tags, "mid-"+verifC10HistRun(h.vc, &d))
			h.vc.Count("hist_mid_disturbances", 1)
		}
	}
	if wit != nil && len(pre.tags) > 0 {
		wit["disturbances"] = append([]string{}, pre.tags...)
	}
}

func (h *verifC10H) histReport(pre *verifC10HistPre, tg verifC10Target, what, class string, after []byte, diagOnly bool) {
	vc := h.vc
	d := 0
	for d < len(pre.fresh) && d < len(after) && pre.fresh[d] == after[d] {
		d++
	}
	detail := fmt.Sprintf("the same value encodes to %d bytes before and to %d bytes after the disturbances %v "+
		"(first difference at %d)", len(pre.fresh), len(after), pre.tags, d)
	if diagOnly {
		vc.Diag("wf_diagonly_history_"+what, tg.Name+"|"+class+": "+detail)
		return
	}
	key := tg.Name + "|" + what + "|" + class
	if h.attrib != nil {
		h.attrib["hist\x00"+key]++
		if h.attrib["hist\x00"+key] > 1 {
			vc.Count("suppressed_repeat_violations", 1)
			return
		}
	}
	h.viol("history_independent", key, detail, map[string]any{"target": tg.Name, "class": class,
		"disturbances": pre.tags, "concurrent_goroutines": pre.conc,
		"fresh_len": len(pre.fresh), "fresh": verifHex(pre.fresh[:min(len(pre.fresh), 2048)]),
		"after_len": len(after), "after": verifHex(after[:min(len(after), 2048)]), "first_difference": d,
		"note": "value and disturbances regenerate deterministically from (seed, case)"})
}

// histAfter judges the encoding b0 produced after the disturbances.
func (h *verifC10H) histAfter(pre *verifC10HistPre, tg verifC10Target, class string, b0 []byte, refused, diagOnly bool) {
	if pre == nil {
		return
	}
	vc := h.vc
	vc.Count("history_independent_evals", 1)
	if len(pre.tags) > 0 {
		vc.Count("history_independent_evals_disturbed", 1)
	}
	if pre.illRefused > 0 {
		vc.Count("history_independent_evals_after_refused_encode", 1)
	}
	if pre.conc > 0 {
		vc.Count("history_independent_evals_concurrent", 1)
	}
	if refused != pre.freshRefused {
		vc.Count("hist_refusal_flipped", 1)
		vc.Diag("hist_refusal_flipped", fmt.Sprintf("%s|%s: refused before=%v after=%v, disturbances %v",
			tg.Name, class, pre.freshRefused, refused, pre.tags))
		return
	}
	if refused {
		vc.Count("hist_both_refused", 1)
		return
	}
	if !bytes.Equal(pre.fresh, b0) {
		h.histReport(pre, tg, "bytes-differ", class, b0, diagOnly)
		return
	}
	vc.Count("history_independent_ok", 1)
}

// histFinish joins the concurrent disturbers and judges one more encoding of
// the value, made after they have finished.
func (h *verifC10H) histFinish(pre *verifC10HistPre, tg verifC10Target, class string, diagOnly bool) {
	if pre == nil || pre.conc == 0 {
		return
	}
	pre.wg.Wait()
	if pre.freshRefused {
		return
	}
	var (
		b   []byte
		err error
	)
	panicked := false
	func() {
		defer func() {
			if recover() != nil {
				panicked = true
			}
		}()
		b, err = pre.enc()
	}()
	if panicked || err != nil {
		h.vc.Count("hist_post_concurrent_encode_failed", 1)
		return
	}
	h.vc.Count("history_independent_post_concurrent_evals", 1)
	if !bytes.Equal(pre.fresh, b) {
		h.histReport(pre, tg, "bytes-differ-after-concurrent", class, b, diagOnly)
	}
}
