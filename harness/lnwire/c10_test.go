package lnwire

// C10 monitor (lnwire part): wire codecs are total, canonical and lossless.
//
// Verdict-bearing oracles (each traced to the C10 statement):
//
//   - no_panic: decoding arbitrary bytes as any message type / onion failure
//     never panics (recoverable panics through Guard; process-fatal errors
//     through the driver: every batch is pre-logged with vc.Case).
//   - alloc_bound: one decode of a <= 65535-byte input allocates <= 64 MiB
//     (the statement's "65 KB message bound", judged only when grossly
//     exceeded; the measured maximum is reported as max:alloc_per_decode).
//   - fixpoint_reencode / fixpoint_redecode / fixpoint_bytes: an accepted
//     input b yields m1; b1 = encode(m1) must succeed, decode(b1) must
//     succeed, and encode(decode(b1)) == b1 byte for byte.
//   - reencode_decodes_equal (c10fd_test.go): in the same chain m2 =
//     decode(b1) must EQUAL m1 ["yields a message whose re-encoding decodes to
//     an equal message"]; m1 is taken from an independent second decode of b
//     because the real Encode methods rewrite ExtraData of their receiver.
//     key "<decoded msg>|<first differing field path>". Evaluated on every
//     accepted input incl. the extension mutants (classes ext-*, among them
//     ext-valdom / ext-insknown: one extension record at a boundary VALUE,
//     resp. a record the encoder elides at its default inserted with boundary
//     values).
//   - lossless_encode / lossless_size / lossless_decode / lossless_bytes /
//     lossless_value: a
//     generated message value v encodes to b0 with len(b0) <= 65535, b0
//     decodes, re-encodes to b0 and the decoded value equals v (nil == empty
//     for slices and maps; covers ExtraData / CustomRecords / unknown
//     records).
//
//   - wellformed_roundtrip (c10fd_test.go): field-domain values: ONE scalar
//     leaf of a generated value at a boundary value; keys
//     "<target>|value-differs|fd:<leaf>", "...|reencode-differs|fd:<leaf>",
//     "...|encoded-over-65535|fd:<leaf>".
//
//   - wellformed_roundtrip (c10wf_test.go): harness-built well-formed values
//     with one variable-length field at a boundary length; keys
//     "<target>|own-encoding-rejected|<class>", "...|reencode-differs|...",
//     "...|value-differs|...", "...|encode-refused-within-limits|...",
//     "...|encoded-over-65535|...".
//
//   - history_independent (c10hist_test.go): before the round trip of a
//     well-formed value (all three kinds above) 0-3 disturbances run - refused
//     encodes of catalogued ill-formed values, failing decodes, large encodes;
//     for 1 value in 24 also concurrently from 2-4 goroutines - and the bytes
//     the encoder produces afterwards must equal the bytes it produced before;
//     keys "<target>|bytes-differ|<class>",
//     "<target>|bytes-differ-after-concurrent|<class>". For one value in three
//     other decodes also run between the decode and the judgement of the
//     decoded value.
//
//   - ext_accept_implies_canonical: the TLV extension E of a valid encoding
//     F||E is mutated in isolation; if ReadMessage accepts F||E' then an
//     independent BOLT-1 walker (strictly increasing types, minimal BigSize
//     type and length, each length within the remaining bytes, stream fully
//     consumed) must accept E'. key = decoded message type + violated rule
//     ["A TLV stream is accepted exactly when it is canonical", applied to the
//     extension stream of lnwire messages]. Diagnostic only for the message
//     types listed in verifC10OpaqueExt (extension kept as opaque bytes).
//
//   - unknown_records_preserved: accepted message, canonical extension, and the
//     re-encoded extension equals the input with exactly the records of types
//     the encoder never emits for that message removed (all other records
//     byte-identical) => key "<msg>|unknown-records-dropped-on-reencode"
//     ["decodes back to an equal value with unknown records ... preserved"].
//     Any other re-encoding difference stays in the diagnostic below.
//
// Diagnostics: ext_reencode_reproduces_input (accepted + canonical extension
// must re-encode to the input; NOT silent on the pinned tree: typed-record
// messages drop unknown extension records), extdiff_typed_copy_only (ExtraData of a
// typed-record message differs only in the raw copy of typed records), fd_own_encoding_rejected,
// fd_encode_panic, lossless_strict_deepequal, alloc > 4 MiB, generator failures.

import (
	"bytes"
	"compress/zlib"
	"encoding/binary"
	"fmt"
	"io"
	"net"
	"reflect"
	"runtime"
	"runtime/metrics"
	"sort"
	"strings"
	"sync"
	"testing"

	"pgregory.net/rapid"
)

// ------------------------------------------------------------------ targets

type verifC10Target struct {
	Name string
	Kind int // 0 = wire message, 1 = onion failure message, 2 = onion failure packet
	Msg  MessageType
	Code FailCode
}

func verifC10Targets() []verifC10Target {
	var ts []verifC10Target
	add := func(mt MessageType) {
		m, err := makeEmptyMessage(mt)
		if err != nil {
			return
		}
		ts = append(ts, verifC10Target{
			Name: fmt.Sprintf("msg%d/%T", mt, m), Kind: 0, Msg: mt,
		})
	}
	for mt := 0; mt < int(MsgEnd); mt++ {
		add(MessageType(mt))
	}
	for _, mt := range []MessageType{CustomTypeStart, 40001, 65535} {
		add(mt)
	}
	for code := 0; code <= 0xffff; code++ {
		f, err := makeEmptyOnionError(FailCode(code))
		if err != nil {
			continue
		}
		ts = append(ts, verifC10Target{
			Name: fmt.Sprintf("fail%d/%T", code, f), Kind: 1, Code: FailCode(code),
		})
		ts = append(ts, verifC10Target{
			Name: fmt.Sprintf("failpkt%d/%T", code, f), Kind: 2, Code: FailCode(code),
		})
	}
	return ts
}

func (tg verifC10Target) header() []byte {
	var h [2]byte
	if tg.Kind == 0 {
		binary.BigEndian.PutUint16(h[:], uint16(tg.Msg))
	} else {
		binary.BigEndian.PutUint16(h[:], uint16(tg.Code))
	}
	return h[:]
}

// decode runs the REAL decoder of the target on b.
func (tg verifC10Target) decode(b []byte) (any, error) {
	switch tg.Kind {
	case 0:
		return ReadMessage(bytes.NewReader(b), 0)
	case 1:
		return DecodeFailureMessage(bytes.NewReader(b), 0)
	default:
		return DecodeFailure(bytes.NewReader(b), 0)
	}
}

// encode runs the REAL encoder. tooLong is set when the onion packet
// encoder refused a failure message longer than the fixed 256-byte packet
// body, which lnd documents as legitimate.
func (tg verifC10Target) encode(m any) (b []byte, tooLong bool, err error) {
	var buf bytes.Buffer
	switch tg.Kind {
	case 0:
		_, err = WriteMessage(&buf, m.(Message), 0)
		if err != nil {
			var raw bytes.Buffer
			if e2 := m.(Message).Encode(&raw, 0); e2 == nil && raw.Len() > MaxMsgBody {
				err = fmt.Errorf("%w [%s]", err, verifC10Grows)
			}
		}
	case 1:
		err = EncodeFailureMessage(&buf, m.(FailureMessage), 0)
	default:
		err = EncodeFailure(&buf, m.(FailureMessage), 0)
		if err != nil {
			var inner bytes.Buffer
			if e2 := EncodeFailureMessage(&inner, m.(FailureMessage), 0); e2 == nil &&
				inner.Len() > FailureMessageLength {

				return nil, true, err
			}
		}
	}
	return buf.Bytes(), false, err
}

// verifC10Grows marks a re-encoding that fails only because the decoded
// value encodes to more than MaxMsgBody bytes.
const verifC10Grows = "grows-beyond-max-payload"

// verifC10Actual names the message actually decoded (header-mutated inputs
// dispatch to another type than the target's).
func verifC10Actual(tg verifC10Target, m any) string {
	if msg, ok := m.(Message); ok && tg.Kind == 0 {
		return fmt.Sprintf("msg%d/%T", msg.MsgType(), msg)
	}
	return tg.Name
}

// ------------------------------------------------------------------ valid values

// verifC10RapidMsg draws one message from lnwire's own rapid generator,
// deterministically from seed.
func verifC10RapidMsg(mt MessageType, seed int) (msg Message, err error) {
	defer func() {
		if r := recover(); r != nil {
			err = fmt.Errorf("generator panic: %v", r)
		}
	}()
	m, err := makeEmptyMessage(mt)
	if err != nil {
		return nil, err
	}
	tm, ok := m.(TestMessage)
	if !ok {
		return nil, fmt.Errorf("%T has no RandTestMessage", m)
	}
	g := rapid.Custom(func(t *rapid.T) Message { return tm.RandTestMessage(t) })
	msg = g.Example(seed)
	if c, ok := msg.(*Custom); ok {
		c.Type = mt
	}
	return msg, nil
}

func verifC10GenUpdate(r *verifRng) (*ChannelUpdate1, error) {
	m, err := verifC10RapidMsg(MsgChannelUpdate, int(r.U64()>>2))
	if err != nil {
		return nil, err
	}
	return m.(*ChannelUpdate1), nil
}

// verifC10GenFailure builds a well-formed failure value of the given code.
func verifC10GenFailure(r *verifRng, code FailCode) (FailureMessage, error) {
	f, err := makeEmptyOnionError(code)
	if err != nil {
		return nil, err
	}
	var sha [32]byte
	copy(sha[:], r.Bytes(32))
	amt := MilliSatoshi(r.U64() >> uint(r.Intn(64)))
	upd := func() (ChannelUpdate1, error) {
		u, err := verifC10GenUpdate(r)
		if err != nil {
			return ChannelUpdate1{}, err
		}
		return *u, nil
	}
	switch v := f.(type) {
	case *FailIncorrectDetails:
		v.amount = amt
		v.height = uint32(r.U64())
		v.extraOpaqueData = []byte{}
		if r.Bool() {
			v.extraOpaqueData = verifC10TLVStream(r, 1+r.Intn(3), 60)
		}
	case *FailInvalidOnionVersion:
		v.OnionSHA256 = sha
	case *FailInvalidOnionHmac:
		v.OnionSHA256 = sha
	case *FailInvalidOnionKey:
		v.OnionSHA256 = sha
	case *FailInvalidBlinding:
		v.OnionSHA256 = sha
	case *FailTemporaryChannelFailure:
		if r.Chance(3, 4) {
			u, err := verifC10GenUpdate(r)
			if err != nil {
				return nil, err
			}
			v.Update = u
		}
	case *FailAmountBelowMinimum:
		v.HtlcMsat = amt
		if v.Update, err = upd(); err != nil {
			return nil, err
		}
	case *FailFeeInsufficient:
		v.HtlcMsat = amt
		if v.Update, err = upd(); err != nil {
			return nil, err
		}
	case *FailIncorrectCltvExpiry:
		v.CltvExpiry = uint32(r.U64())
		if v.Update, err = upd(); err != nil {
			return nil, err
		}
	case *FailExpiryTooSoon:
		if v.Update, err = upd(); err != nil {
			return nil, err
		}
	case *FailChannelDisabled:
		v.Flags = uint16(r.U64())
		if v.Update, err = upd(); err != nil {
			return nil, err
		}
	case *FailFinalIncorrectCltvExpiry:
		v.CltvExpiry = uint32(r.U64())
	case *FailFinalIncorrectHtlcAmount:
		v.IncomingHTLCAmount = amt
	case *InvalidOnionPayload:
		v.Type = r.U64() >> uint(r.Intn(64))
		v.Offset = uint16(r.U64())
	}
	return f, nil
}

func (tg verifC10Target) genValid(r *verifRng) (any, error) {
	if tg.Kind == 0 {
		return verifC10RapidMsg(tg.Msg, int(r.U64()>>2))
	}
	return verifC10GenFailure(r, tg.Code)
}

// ------------------------------------------------------------------ helpers

func verifC10BigSize(v uint64) []byte {
	switch {
	case v < 0xfd:
		return []byte{byte(v)}
	case v <= 0xffff:
		return []byte{0xfd, byte(v >> 8), byte(v)}
	case v <= 0xffffffff:
		return []byte{0xfe, byte(v >> 24), byte(v >> 16), byte(v >> 8), byte(v)}
	default:
		b := make([]byte, 9)
		b[0] = 0xff
		binary.BigEndian.PutUint64(b[1:], v)
		return b
	}
}

// verifC10TLVStream builds a canonical TLV stream of n records with types in
// ranges likely to lie above / inside the known types of lnwire messages.
func verifC10TLVStream(r *verifRng, n, maxLen int) []byte {
	types := map[uint64]bool{}
	for i := 0; i < n; i++ {
		var t uint64
		switch r.Intn(5) {
		case 0:
			t = r.U64n(20)
		case 1:
			t = 100 + r.U64n(400)
		case 2:
			t = 65536 + r.U64n(4000)
		case 3:
			t = 1<<32 + r.U64n(1<<20)
		default:
			t = 1001 + 2*r.U64n(1000)
		}
		types[t] = true
	}
	var ts []uint64
	for t := range types {
		ts = append(ts, t)
	}
	sort.Slice(ts, func(i, j int) bool { return ts[i] < ts[j] })
	var out []byte
	for _, t := range ts {
		v := r.Bytes(r.Intn(maxLen + 1))
		out = append(out, verifC10BigSize(t)...)
		out = append(out, verifC10BigSize(uint64(len(v)))...)
		out = append(out, v...)
	}
	return out
}

var verifC10AllocSample = []metrics.Sample{{Name: "/gc/heap/allocs:bytes"}}

func verifC10Alloc() uint64 {
	metrics.Read(verifC10AllocSample)
	return verifC10AllocSample[0].Value.Uint64()
}

// verifC10Eq is structural equality with nil == empty for slices and maps
// (a representation difference that is invisible on the wire). It reads
// unexported fields too. The returned string is the path of the first
// difference.
func verifC10Eq(a, b reflect.Value, path string, depth int) (bool, string) {
	if depth > 64 {
		return true, ""
	}
	if !a.IsValid() || !b.IsValid() {
		return a.IsValid() == b.IsValid(), path + ":validity"
	}
	if a.Type() != b.Type() {
		return false, path + ":type " + a.Type().String() + "!=" + b.Type().String()
	}
	switch a.Kind() {
	case reflect.Ptr, reflect.Interface:
		if a.IsNil() || b.IsNil() {
			return a.IsNil() == b.IsNil(), path + ":nil"
		}
		return verifC10Eq(a.Elem(), b.Elem(), path, depth+1)
	case reflect.Slice:
		if a.Len() == 0 && b.Len() == 0 {
			return true, ""
		}
		if a.Type() == reflect.TypeOf(net.IP{}) {
			// 4-byte and 16-byte forms of one IPv4 address
			if net.IP(a.Bytes()).Equal(net.IP(b.Bytes())) {
				return true, ""
			}
		}
		if a.Len() != b.Len() {
			return false, fmt.Sprintf("%s:len %d!=%d", path, a.Len(), b.Len())
		}
		for i := 0; i < a.Len(); i++ {
			if ok, p := verifC10Eq(a.Index(i), b.Index(i),
				fmt.Sprintf("%s[%d]", path, i), depth+1); !ok {

				return false, p
			}
		}
		return true, ""
	case reflect.Array:
		for i := 0; i < a.Len(); i++ {
			if ok, p := verifC10Eq(a.Index(i), b.Index(i),
				fmt.Sprintf("%s[%d]", path, i), depth+1); !ok {

				return false, p
			}
		}
		return true, ""
	case reflect.Map:
		if a.Len() == 0 && b.Len() == 0 {
			return true, ""
		}
		if a.Len() != b.Len() {
			return false, fmt.Sprintf("%s:maplen %d!=%d", path, a.Len(), b.Len())
		}
		for _, k := range a.MapKeys() {
			bv := b.MapIndex(k)
			if !bv.IsValid() {
				return false, fmt.Sprintf("%s:key %v missing", path, k)
			}
			if ok, p := verifC10Eq(a.MapIndex(k), bv,
				fmt.Sprintf("%s[%v]", path, k), depth+1); !ok {

				return false, p
			}
		}
		return true, ""
	case reflect.Struct:
		for i := 0; i < a.NumField(); i++ {
			if ok, p := verifC10Eq(a.Field(i), b.Field(i),
				path+"."+a.Type().Field(i).Name, depth+1); !ok {

				return false, p
			}
		}
		return true, ""
	case reflect.Func:
		return a.IsNil() == b.IsNil(), path + ":func"
	case reflect.Bool:
		return a.Bool() == b.Bool(), path
	case reflect.Int, reflect.Int8, reflect.Int16, reflect.Int32, reflect.Int64:
		return a.Int() == b.Int(), path
	case reflect.Uint, reflect.Uint8, reflect.Uint16, reflect.Uint32, reflect.Uint64,
		reflect.Uintptr:

		return a.Uint() == b.Uint(), path
	case reflect.Float32, reflect.Float64:
		return a.Float() == b.Float(), path
	case reflect.Complex64, reflect.Complex128:
		return a.Complex() == b.Complex(), path
	case reflect.String:
		return a.String() == b.String(), path
	}
	return true, ""
}

// ------------------------------------------------------------------ mutators

var verifC10Classes = []string{"flip", "byteset", "trunc", "ext-rand", "ext-tlv", "len16",
	"bigsize", "splice", "insdel", "pad-big", "hdr", "zlib", "addrs"}

// verifC10Mutate derives one hostile input from the valid encoding b0
// (other: a second valid encoding, possibly of another type). All outputs
// are <= 65535 bytes. Except for class "hdr" the 2-byte type / code header
// is preserved.
func verifC10Mutate(r *verifRng, tg verifC10Target, b0, other []byte, class string) []byte {
	hdr := 2
	if tg.Kind == 2 {
		hdr = 0 // packet: [len][code|payload][padlen][pad], all of it is fair game
	}
	b := append([]byte{}, b0...)
	body := func() int {
		if len(b) <= hdr {
			return -1
		}
		return hdr + r.Intn(len(b)-hdr)
	}
	clamp := func(x []byte) []byte {
		if len(x) > 65535 {
			return x[:65535]
		}
		return x
	}
	switch class {
	case "flip":
		n := 1 + r.Intn(4)
		for i := 0; i < n; i++ {
			if p := body(); p >= 0 {
				b[p] ^= 1 << uint(r.Intn(8))
			}
		}
	case "byteset":
		n := 1 + r.Intn(3)
		for i := 0; i < n; i++ {
			if p := body(); p >= 0 {
				if r.Bool() {
					b[p] = []byte{0, 1, 2, 3, 0x7f, 0x80, 0xfc, 0xfd, 0xfe, 0xff}[r.Intn(10)]
				} else {
					b[p] = byte(r.Intn(256))
				}
			}
		}
	case "trunc":
		if len(b) > hdr {
			b = b[:hdr+r.Intn(len(b)-hdr)]
		}
	case "ext-rand":
		b = append(b, r.Bytes(1+r.Intn(40))...)
	case "ext-tlv":
		b = append(b, verifC10TLVStream(r, 1+r.Intn(4), 40)...)
		if r.Chance(1, 6) {
			// non-canonical tail: repeat the last record type
			b = append(b, verifC10BigSize(1)...)
			b = append(b, 0)
			b = append(b, verifC10BigSize(1)...)
			b = append(b, 0)
		}
	case "len16":
		if len(b) >= hdr+2 {
			p := hdr + r.Intn(len(b)-hdr-1)
			rem := len(b) - p - 2
			var v int
			switch r.Intn(6) {
			case 0:
				v = 0xffff
			case 1:
				v = 0
			case 2:
				v = rem
			case 3:
				v = rem + 1
			case 4:
				v = rem - 1
			default:
				v = int(binary.BigEndian.Uint16(b[p:])) + []int{1, -1, 8, 256}[r.Intn(4)]
			}
			binary.BigEndian.PutUint16(b[p:], uint16(v))
		}
	case "bigsize":
		if p := body(); p >= 0 {
			// re-encode the byte at p as a wider (non-minimal) or
			// inflated BigSize
			v := uint64(b[p])
			var enc []byte
			switch r.Intn(5) {
			case 0:
				enc = []byte{0xfd, 0, byte(v)}
			case 1:
				enc = []byte{0xfe, 0, 0, 0, byte(v)}
			case 2:
				enc = append([]byte{0xff}, r.Bytes(8)...)
			case 3:
				enc = []byte{0xfd, 0xff, 0xff}
			default:
				enc = []byte{0xfe, 0x7f, 0xff, 0xff, 0xff}
			}
			b = append(b[:p:p], append(enc, b0[p+1:]...)...)
		}
	case "splice":
		if len(other) > 2 && len(b) > hdr {
			i := hdr + r.Intn(len(b)-hdr+1)
			j := r.Intn(len(other))
			b = append(b[:i:i], other[j:]...)
		}
	case "insdel":
		if len(b) > hdr {
			p := hdr + r.Intn(len(b)-hdr)
			if r.Bool() {
				ins := r.Bytes(1 + r.Intn(8))
				b = append(b[:p:p], append(ins, b0[p:]...)...)
			} else {
				q := p + 1 + r.Intn(8)
				if q > len(b) {
					q = len(b)
				}
				b = append(b[:p:p], b0[q:]...)
			}
		}
	case "pad-big":
		total := []int{65533, 65534, 65535, 40000, 65535}[r.Intn(5)]
		if len(b) < total-20 {
			switch r.Intn(3) {
			case 0:
				b = append(b, make([]byte, total-len(b))...)
			case 1:
				b = append(b, r.Bytes(total-len(b))...)
			default:
				// one odd high-typed TLV record filling the rest
				t := verifC10BigSize(1<<32 + 1 + 2*r.U64n(1000))
				room := total - len(b) - len(t) - 3
				b = append(b, t...)
				b = append(b, verifC10BigSize(uint64(room))...)
				b = append(b, r.Bytes(room)...)
			}
		}
	case "hdr":
		if len(b) >= 2 {
			switch r.Intn(3) {
			case 0:
				copy(b[:2], r.Bytes(2))
			case 1:
				b[1] ^= 1 << uint(r.Intn(8))
			default:
				binary.BigEndian.PutUint16(b[:2], uint16(r.Intn(int(MsgEnd)+4)))
			}
		}
	case "zlib":
		return clamp(verifC10ZlibInput(r, tg, b))
	case "addrs":
		return clamp(verifC10AddrsInput(r, tg, b))
	}
	return clamp(b)
}

// verifC10AddrsInput replaces the address section of a node_announcement
// with a harness-built descriptor list covering every address type (ipv4,
// ipv6, tor v2/v3, dns, padding, unknown), well-formed and not. lnwire's own
// generator never emits dns / opaque / padding descriptors. Other targets
// get the descriptor list appended.
func verifC10AddrsInput(r *verifRng, tg verifC10Target, b0 []byte) []byte {
	var list []byte
	port := func() []byte { return r.Bytes(2) }
	n := r.Intn(6)
	for i := 0; i < n; i++ {
		switch r.Intn(9) {
		case 0:
			list = append(list, 1)
			list = append(list, r.Bytes(4)...)
			list = append(list, port()...)
		case 1:
			list = append(list, 2)
			ip := r.Bytes(16)
			if r.Bool() { // v4-mapped
				copy(ip, []byte{0, 0, 0, 0, 0, 0, 0, 0, 0, 0, 0xff, 0xff})
			}
			list = append(list, ip...)
			list = append(list, port()...)
		case 2:
			list = append(list, 3)
			list = append(list, r.Bytes(10)...)
			list = append(list, port()...)
		case 3:
			list = append(list, 4)
			list = append(list, r.Bytes(35)...)
			list = append(list, port()...)
		case 4, 5:
			hl := []int{0, 1, 2, 10, 63, 64, 127, 128, 251, 252, 253, 254, 255}[r.Intn(13)]
			host := make([]byte, hl)
			const ok = "abcdefghijklmnopqrstuvwxyzABCDEFGHIJKLMNOPQRSTUVWXYZ0123456789-."
			for j := range host {
				host[j] = ok[r.Intn(len(ok))]
				if r.Chance(1, 200) {
					host[j] = byte(r.Intn(256))
				}
			}
			list = append(list, 5, byte(hl))
			list = append(list, host...)
			p := port()
			if r.Chance(1, 10) {
				p = []byte{0, 0}
			}
			list = append(list, p...)
		case 6:
			list = append(list, 0) // padding descriptor
		case 7:
			list = append(list, byte(6+r.Intn(250)))
			list = append(list, r.Bytes(r.Intn(20))...)
		default:
			list = append(list, byte(1+r.Intn(5)))
			list = append(list, r.Bytes(r.Intn(8))...) // short
		}
	}
	if tg.Kind != 0 || tg.Msg != MsgNodeAnnouncement || len(b0) < 2+64+2 {
		return append(append([]byte{}, b0...), list...)
	}
	flen := int(binary.BigEndian.Uint16(b0[2+64:]))
	off := 2 + 64 + 2 + flen + 4 + 33 + 3 + 32
	if len(b0) < off+2 {
		return append(append([]byte{}, b0...), list...)
	}
	oldLen := int(binary.BigEndian.Uint16(b0[off:]))
	if len(b0) < off+2+oldLen {
		return append(append([]byte{}, b0...), list...)
	}
	out := append([]byte{}, b0[:off]...)
	declared := len(list)
	if r.Chance(1, 10) {
		declared += r.Intn(3) - 1
	}
	out = append(out, byte(declared>>8), byte(declared))
	out = append(out, list...)
	return append(out, b0[off+2+oldLen:]...)
}

// verifC10ZlibInput builds zlib-encoded short-channel-id payloads (sorted,
// unsorted, partial, oversized) for the two messages that accept them; for
// other targets it degrades to an append of a zlib blob.
func verifC10ZlibInput(r *verifRng, tg verifC10Target, b0 []byte) []byte {
	n := []int{0, 1, 2, 100, 1000, 8000, 99999, 100000, 100001, 150000}[r.Intn(10)]
	raw := make([]byte, 0, n*8+4)
	var cur uint64
	for i := 0; i < n; i++ {
		cur += 1 + r.U64n(3)
		if n <= 1000 && r.Chance(1, 200) {
			cur -= 2 // unsorted / duplicate
		}
		var e [8]byte
		binary.BigEndian.PutUint64(e[:], cur)
		raw = append(raw, e[:]...)
	}
	if r.Chance(1, 8) {
		raw = append(raw, r.Bytes(1+r.Intn(7))...) // partial trailing id
	}
	var z bytes.Buffer
	zw := zlib.NewWriter(&z)
	zw.Write(raw)
	zw.Close()
	comp := z.Bytes()
	if r.Chance(1, 10) && len(comp) > 4 {
		comp = comp[:len(comp)-1-r.Intn(4)] // truncated stream (no checksum)
	}
	if len(comp)+1 > 65000 {
		comp = comp[:65000]
	}
	var out []byte
	out = append(out, tg.header()...)
	chain := r.Bytes(32)
	lenb := []byte{byte((len(comp) + 1) >> 8), byte(len(comp) + 1)}
	switch {
	case tg.Kind == 0 && tg.Msg == MsgQueryShortChanIDs && r.Chance(1, 5):
		// encoded_short_ids of length 0 (not even the encoding byte),
		// filled up to a PRNG total with one unknown TLV record.
		out = append(out, chain...)
		out = append(out, 0, 0)
		total := []int{65535, 65534, 65533, 200, 41}[r.Intn(5)]
		if room := total - len(out) - 4; room >= 0xfd {
			out = append(out, 0x65, 0xfd, byte(room>>8), byte(room))
			out = append(out, r.Bytes(room)...)
		}
		return out
	case tg.Kind == 0 && tg.Msg == MsgQueryShortChanIDs:
		out = append(out, chain...)
		out = append(out, lenb...)
		out = append(out, 1)
		out = append(out, comp...)
	case tg.Kind == 0 && tg.Msg == MsgReplyChannelRange:
		out = append(out, chain...)
		out = append(out, r.Bytes(8)...)
		out = append(out, byte(r.Intn(2)))
		out = append(out, lenb...)
		out = append(out, 1)
		out = append(out, comp...)
	default:
		out = append(append([]byte{}, b0...), comp...)
	}
	if r.Chance(1, 3) {
		out = append(out, verifC10TLVStream(r, 1+r.Intn(2), 30)...)
	}
	return out
}

// ------------------------------------------------------------------ oracle

type verifC10H struct {
	vc     *verifCtx
	i      int
	attrib map[string]int
	// history dimension (c10hist_test.go): PRNG stream of the disturbances of
	// this case (nil = off) and the targets hostile decodes are drawn from
	hr  *verifRng
	tgs []verifC10Target
}

// viol reports a violation, at most 3 times per (oracle, key) and shard: the
// shared runtime keeps only the first 50 violations of a shard and the driver
// de-duplicates by (oracle, key) anyway, so repeats of one fingerprint (e.g. a
// known finding) must not crowd out a new one.
func (h *verifC10H) viol(oracle, key, detail string, wit any) {
	if h.attrib == nil {
		h.vc.Violation(oracle, key, detail, wit)
		return
	}
	k := oracle + "\x00" + key
	h.attrib[k]++
	limit := 3
	if strings.HasSuffix(key, "|unknown-records-dropped-on-reencode") {
		// the known class KF-C10-6: one report per message type and shard
		limit = 1
	}
	if h.attrib[k] > limit {
		h.vc.Count("suppressed_repeat_violations", 1)
		return
	}
	h.vc.Violation(oracle, key, detail, wit)
}

func (h *verifC10H) witness(tg verifC10Target, class string, b []byte) map[string]any {
	hx := verifHex(b)
	if len(hx) > 4096 {
		hx = hx[:4096] + "..."
	}
	return map[string]any{"target": tg.Name, "class": class, "len": len(b), "bytes": hx,
		"note": "inputs regenerate deterministically from (seed, case); replay logs each input before decoding it"}
}

// checkBytes runs the totality + fixpoint oracles on one hostile input.
func (h *verifC10H) checkBytes(tg verifC10Target, class string, b []byte, measure bool) (accepted bool, enc []byte) {
	vc := h.vc
	if vc.Only >= 0 {
		vc.emit(map[string]any{"t": "case", "i": h.i, "input": h.witness(tg, class, b)})
	}
	var (
		m1  any
		err error
	)
	var a0 uint64
	if measure {
		a0 = verifC10Alloc()
	}
	if vc.Guard("no_panic", tg.Name+"|decode", h.witness(tg, class, b), func() {
		m1, err = tg.decode(b)
	}) {
		return false, nil
	}
	if measure {
		d := int64(verifC10Alloc() - a0)
		vc.Max("alloc_per_decode", d)
		vc.Count("alloc_evals", 1)
		if d > 64<<20 {
			h.viol("alloc_bound", tg.Name, fmt.Sprintf(
				"%d bytes allocated while decoding a %d-byte input", d, len(b)),
				h.witness(tg, class, b))
		} else if d > 4<<20 {
			vc.Diag("alloc_over_4MiB", fmt.Sprintf("%s %s: %d bytes for a %d-byte input",
				tg.Name, class, d, len(b)))
		}
	}
	vc.Count("decodes", 1)
	if err != nil {
		vc.Count("rejected", 1)
		vc.Sig(verifJoin(tg.Name, class, "rej"))
		return false, nil
	}
	vc.Count("accepted", 1)
	vc.Sig(verifJoin(tg.Name, class, "acc"))
	return true, h.fixpoint(tg, class, b, m1)
}

// fixpoint runs the fixpoint oracles on the accepted input b (decoded to m1):
// b1 = encode(m1), m2 = decode(b1), b2 = encode(m2); b1 == b2 and m1 == m2.
// m1 is handed to the real encoder, which may rewrite its ExtraData, so the
// value comparison uses an independent second decode of b. Returns b1 (nil
// when the re-encoding failed).
func (h *verifC10H) fixpoint(tg verifC10Target, class string, b []byte, m1 any) []byte {
	vc := h.vc
	vc.Count("fixpoint_evals", 1)
	var (
		b1, b2  []byte
		m1ref   any
		m2      any
		tooLong bool
		err     error
	)
	if vc.Guard("no_panic", tg.Name+"|decode", h.witness(tg, class, b), func() {
		m1ref, err = tg.decode(b)
	}) {
		return nil
	}
	if err != nil {
		// the decoder accepted b a moment ago
		h.viol("fixpoint_redecode", verifC10Actual(tg, m1)+"|second-decode-of-input-fails", fmt.Sprintf(
			"the same input was accepted and then rejected: %v", err), h.witness(tg, class, b))
		return nil
	}
	if vc.Guard("no_panic", tg.Name+"|reencode", h.witness(tg, class, b), func() {
		b1, tooLong, err = tg.encode(m1)
	}) {
		return nil
	}
	if tooLong {
		vc.Count("failpkt_over_256", 1)
		return nil
	}
	actual := verifC10Actual(tg, m1)
	if err != nil {
		key := actual
		if strings.Contains(err.Error(), verifC10Grows) {
			key += "|" + verifC10Grows
		}
		h.viol("fixpoint_reencode", key, fmt.Sprintf(
			"decode accepted the input but the decoded message does not encode: %v", err),
			h.witness(tg, class, b))
		return nil
	}
	if vc.Guard("no_panic", tg.Name+"|redecode", h.witness(tg, class, b), func() {
		m2, err = tg.decode(b1)
	}) {
		return b1
	}
	if err != nil {
		h.viol("fixpoint_redecode", actual, fmt.Sprintf(
			"b->m1->b1: decode(b1) failed: %v; b1=%s", err, verifHex(b1[:min(len(b1), 512)])),
			h.witness(tg, class, b))
		return b1
	}
	// m1 == m2, judged before m2 is handed to the encoder
	vc.Count("reencode_decodes_equal_evals", 1)
	var res verifC10DiffRes
	verifC10Diff(reflect.ValueOf(m1ref), reflect.ValueOf(m2), nil, "", 0, &res)
	if vc.Guard("no_panic", tg.Name+"|reencode2", h.witness(tg, class, b), func() {
		b2, _, err = tg.encode(m2)
	}) {
		return b1
	}
	if err != nil || !bytes.Equal(b1, b2) {
		d := 0
		for d < len(b1) && d < len(b2) && b1[d] == b2[d] {
			d++
		}
		h.viol("fixpoint_bytes", actual, fmt.Sprintf(
			"b1 != b2 (err=%v) len(b1)=%d len(b2)=%d first difference at %d; b1=%s b2=%s",
			err, len(b1), len(b2), d, verifHex(b1[:min(len(b1), 400)]),
			verifHex(b2[:min(len(b2), 400)])), h.witness(tg, class, b))
		return b1
	}
	if h.attrib == nil {
		// race unit (concurrent callers, no per-shard throttle): the value
		// oracle is evaluated by the lnwire unit on the same inputs
		return b1
	}
	if len(res.Paths) > 0 || len(res.Ext) > 0 {
		wit := h.witness(tg, class, b)
		wit["reencoding"] = verifHex(b1[:min(len(b1), 2048)])
		if h.judgeDiff("reencode_decodes_equal", func(what string) string { return actual + "|" + what },
			&res, "b->m1->b1->m2 ("+class+")", wit) {

			vc.Count("reencode_decodes_equal_extdiag_only", 1)
		}
	}
	return b1
}

// checkLossless runs the generated-value oracle.
func (h *verifC10H) checkLossless(tg verifC10Target, v any) (b0 []byte, ok bool) {
	vc := h.vc
	var (
		err     error
		tooLong bool
		m       any
		b1      []byte
	)
	wit := map[string]any{"target": tg.Name, "class": "valid",
		"note": "value regenerates deterministically from (seed, case)"}
	// history dimension: the fresh encoding, then the disturbances
	pre := h.histBefore(tg, func() ([]byte, error) {
		b, _, e := tg.encode(v)
		return b, e
	})
	defer h.histFinish(pre, tg, "valid", false)
	if vc.Guard("no_panic", tg.Name+"|encode-valid", wit, func() {
		b0, tooLong, err = tg.encode(v)
	}) {
		return nil, false
	}
	h.histAfter(pre, tg, "valid", b0, err != nil || tooLong, false)
	if tooLong {
		vc.Count("failpkt_over_256", 1)
		return nil, false
	}
	if err != nil {
		// "Every well-formed message value encodes to at most 65535
		// bytes": lnwire's own generators only build well-formed
		// values (its TestLightningWireProtocol requires the same).
		h.viol("lossless_encode", tg.Name, fmt.Sprintf(
			"a generated well-formed value does not encode: %v\n%+v", err, v), wit)
		return nil, false
	}
	wit["bytes"] = verifHex(b0[:min(len(b0), 2048)])
	wit["len"] = len(b0)
	vc.Count("lossless_evals", 1)
	if len(b0) > 65535 {
		h.viol("lossless_size", tg.Name, fmt.Sprintf("encoded %d bytes", len(b0)), wit)
	}
	if vc.Guard("no_panic", tg.Name+"|decode-valid", wit, func() {
		m, err = tg.decode(b0)
	}) {
		return b0, false
	}
	if err != nil {
		h.viol("lossless_decode", tg.Name, fmt.Sprintf(
			"a generated value encodes but its encoding does not decode: %v", err), wit)
		return b0, false
	}
	h.histMid(pre, tg, wit) // other decodes before the decoded value is judged
	b1, _, err = tg.encode(m)
	if err != nil || !bytes.Equal(b0, b1) {
		h.viol("lossless_bytes", tg.Name, fmt.Sprintf(
			"v->b0->m->b1 with b0 != b1 (err=%v); b1=%s", err,
			verifHex(b1[:min(len(b1), 2048)])), wit)
		return b0, false
	}
	if ok, p := verifC10Eq(reflect.ValueOf(v), reflect.ValueOf(m), "", 0); !ok {
		h.viol("lossless_value", tg.Name+"|"+p, fmt.Sprintf(
			"decoded value differs from the generated one at %s\nwant %+v\ngot  %+v", p, v, m), wit)
		return b0, false
	}
	if !reflect.DeepEqual(v, m) {
		vc.Diag("lossless_strict_deepequal", tg.Name)
	}
	return b0, true
}

// ------------------------------------------------------------------ extension mutants

// verifC10ExtRec is one record of a TLV extension as seen by the reference
// walker (offsets relative to the extension start).
type verifC10ExtRec struct {
	T      uint64
	Off    int // start of the type
	LenOff int // start of the length BigSize
	ValOff int // start of the value
	End    int // end of the value
}

func verifC10WalkBigSize(b []byte) (v uint64, n int, ok bool) {
	if len(b) == 0 {
		return 0, 0, false
	}
	be := func(p []byte) (x uint64) {
		for _, c := range p {
			x = x<<8 | uint64(c)
		}
		return
	}
	switch d := b[0]; {
	case d < 0xfd:
		return uint64(d), 1, true
	case d == 0xfd:
		if len(b) < 3 {
			return 0, 0, false
		}
		v = be(b[1:3])
		return v, 3, v >= 0xfd
	case d == 0xfe:
		if len(b) < 5 {
			return 0, 0, false
		}
		v = be(b[1:5])
		return v, 5, v >= 0x10000
	default:
		if len(b) < 9 {
			return 0, 0, false
		}
		v = be(b[1:9])
		return v, 9, v >= 0x100000000
	}
}

// verifC10WalkTLV is the independent reference walker of BOLT-1 TLV streams:
// strictly increasing types, minimal BigSize for type and length, each length
// within the remaining bytes, stream fully consumed. rule names the first
// violated rule.
func verifC10WalkTLV(e []byte) (recs []verifC10ExtRec, ok bool, rule string) {
	pos := 0
	var last uint64
	for pos < len(e) {
		t, n, good := verifC10WalkBigSize(e[pos:])
		if !good {
			return recs, false, "type-bigsize"
		}
		if len(recs) > 0 && t <= last {
			return recs, false, "order"
		}
		rec := verifC10ExtRec{T: t, Off: pos, LenOff: pos + n}
		l, m, good := verifC10WalkBigSize(e[pos+n:])
		if !good {
			return recs, false, "len-bigsize"
		}
		rec.ValOff = pos + n + m
		if l > uint64(len(e)-rec.ValOff) {
			return recs, false, "len-beyond-end"
		}
		rec.End = rec.ValOff + int(l)
		recs = append(recs, rec)
		pos = rec.End
		last = t
	}
	return recs, true, ""
}

// verifC10BoundaryReader finds where a real Decode starts slurping the TLV
// extension: the offset of the first Read issued from inside io.ReadAll
// (ExtraOpaqueData.Decode). Used only on valid encodings to build the
// workload; it is not part of any oracle.
type verifC10BoundaryReader struct {
	b        []byte
	off      int
	boundary int
}

func (r *verifC10BoundaryReader) Read(p []byte) (int, error) {
	if r.boundary < 0 {
		pcs := make([]uintptr, 24)
		n := runtime.Callers(2, pcs)
		frames := runtime.CallersFrames(pcs[:n])
		for {
			f, more := frames.Next()
			if f.Function == "io.ReadAll" {
				r.boundary = r.off
				break
			}
			if !more {
				break
			}
		}
	}
	if r.off >= len(r.b) {
		return 0, io.EOF
	}
	n := copy(p, r.b[r.off:])
	r.off += n
	return n, nil
}

// verifC10ExtBoundary returns the offset of the TLV extension of the valid
// encoding b0 (fixed part F = b0[:off], extension E = b0[off:]) or -1 when the
// message has no trailing extension read or E is not a canonical stream.
func verifC10ExtBoundary(b0 []byte) int {
	br := &verifC10BoundaryReader{b: b0, boundary: -1}
	if _, err := ReadMessage(br, 0); err != nil || br.boundary < 2 {
		return -1
	}
	if _, ok, _ := verifC10WalkTLV(b0[br.boundary:]); !ok {
		return -1
	}
	return br.boundary
}

func verifC10BigSizeWide(v uint64, r *verifRng) []byte {
	switch {
	case v < 0xfd:
		return [][]byte{{0xfd, 0, byte(v)}, {0xfe, 0, 0, 0, byte(v)},
			{0xff, 0, 0, 0, 0, 0, 0, 0, byte(v)}}[r.Intn(3)]
	case v <= 0xffff:
		return []byte{0xfe, 0, 0, byte(v >> 8), byte(v)}
	case v <= 0xffffffff:
		return []byte{0xff, 0, 0, 0, 0, byte(v >> 24), byte(v >> 16), byte(v >> 8), byte(v)}
	}
	return verifC10BigSize(v)
}

// verifC10ExtMutants derives hostile extensions from the canonical extension
// e (records recs). Only the extension is touched.
func verifC10ExtMutants(r *verifRng, e []byte, recs []verifC10ExtRec) (out [][]byte, classes []string) {
	add := func(class string, x []byte) {
		out = append(out, x)
		classes = append(classes, "ext-"+class)
	}
	cat := func(parts ...[]byte) []byte {
		var x []byte
		for _, p := range parts {
			x = append(x, p...)
		}
		return x
	}
	for i, rc := range recs {
		if len(recs) > 6 && !r.Chance(6, len(recs)) {
			continue
		}
		l := uint64(rc.End - rc.ValOff)
		pre, typ, val, post := e[:rc.Off], e[rc.Off:rc.LenOff], e[rc.ValOff:rc.End], e[rc.End:]
		// declared length of record i: -1, +1, 0, large, non-minimal
		for _, nl := range []uint64{l - 1, l + 1, 0, l + 4, 8, 0xfc, 0xfd, 65535, 65536, 1 << 32} {
			if nl == l || (l == 0 && nl == l-1) {
				continue
			}
			add("len", cat(pre, typ, verifC10BigSize(nl), val, post))
		}
		add("len-nonminimal", cat(pre, typ, verifC10BigSizeWide(l, r), val, post))
		add("type-nonminimal", cat(pre, verifC10BigSizeWide(rc.T, r), e[rc.LenOff:]))
		// duplicate record i
		add("dup", cat(e[:rc.End], e[rc.Off:rc.End], post))
		// truncate inside record i
		if rc.End > rc.Off+1 {
			add("trunc", append([]byte{}, e[:rc.Off+1+r.Intn(rc.End-rc.Off-1)]...))
		}
		// swap with the next record
		if i+1 < len(recs) {
			nx := recs[i+1]
			add("swap", cat(pre, e[nx.Off:nx.End], e[rc.Off:rc.End], e[nx.End:]))
		}
		// value mutation with the framing intact (stays canonical)
		if len(val) > 0 {
			v2 := append([]byte{}, val...)
			v2[r.Intn(len(v2))] ^= 1 << uint(r.Intn(8))
			add("value", cat(pre, typ, e[rc.LenOff:rc.ValOff], v2, post))
		}
	}
	last := recs[len(recs)-1]
	// append a record with a lower / equal type
	for _, t := range []uint64{0, last.T, last.T - 1, recs[0].T} {
		if t > last.T {
			continue
		}
		v := r.Bytes(r.Intn(4))
		add("lower-type", cat(e, verifC10BigSize(t), verifC10BigSize(uint64(len(v))), v))
	}
	// append a well-formed higher unknown odd record (stays canonical)
	{
		t := (last.T + 1 + r.U64n(50)) | 1
		if t > last.T {
			v := r.Bytes(r.Intn(6))
			add("higher-type", cat(e, verifC10BigSize(t), verifC10BigSize(uint64(len(v))), v))
		}
	}
	// dangling bytes
	add("dangling", cat(e, []byte{byte(1 + r.Intn(250))}))
	return out, classes
}

// verifC10OpaqueExt lists the message types whose Decode on the pinned tree
// keeps the trailing extension as opaque bytes without parsing it as a TLV
// stream (measured with the duplicate-record probe on HEAD 9270a21). For
// these ext_accept_implies_canonical is recorded as a diagnostic.
var verifC10OpaqueExt = map[MessageType]bool{
	MsgStfu: true, MsgDynReject: true, MsgUpdateFailHTLC: true, MsgUpdateFee: true,
	MsgUpdateFailMalformedHTLC: true, MsgAnnounceSignatures: true,
	MsgQueryShortChanIDs: true, MsgReplyShortChanIDsEnd: true, MsgKickoffSig: true,
}

// verifC10BigSizeRecs lists, per message, the typed extension records that the
// pinned tree decodes through tlv.DBigSize (BigSizeT / MilliSatoshi records).
// It is used ONLY to attribute an ext_accept_implies_canonical mismatch to the
// already recorded finding KF-C10-1 (tlv.DBigSize ignores the declared record
// length); the verdict itself never depends on it.
var verifC10BigSizeRecs = map[MessageType]map[uint64]bool{
	MsgDynPropose:     {0: true, 2: true, 4: true, 6: true},
	MsgDynCommit:      {0: true, 2: true, 4: true, 6: true},
	MsgChannelUpdate2: {12: true, 14: true},
}

// verifC10ZeroRecs: typed records decoded by lnwire's booleanDecoder, which
// accepts a declared length of 1 without consuming the value byte (KF-C10-5).
// Attribution only.
var verifC10ZeroRecs = map[MessageType]map[uint64]bool{
	MsgChannelUpdate2: {8: true},
}

// verifC10WalkLenientBigSize is the reference walker with the KF-C10-1 model:
// the listed record types consume exactly one minimal BigSize whatever their
// declared length says.
//
// zero lists record types modelled as "declared length 0 or 1, no value byte
// consumed" (lnwire.TrueBoolean's decoder on the pinned tree, finding
// KF-C10-5); pass nil to model KF-C10-1 alone.
func verifC10WalkLenientBigSize(e []byte, big, zero map[uint64]bool) bool {
	pos := 0
	var last uint64
	first := true
	for pos < len(e) {
		t, n, ok := verifC10WalkBigSize(e[pos:])
		if !ok || (!first && t <= last) {
			return false
		}
		pos += n
		l, m, ok := verifC10WalkBigSize(e[pos:])
		if !ok || l > 65535 {
			return false
		}
		pos += m
		if zero[t] {
			if l > 1 {
				return false
			}
		} else if big[t] {
			_, k, ok := verifC10WalkBigSize(e[pos:])
			if !ok {
				return false
			}
			pos += k
		} else {
			if l > uint64(len(e)-pos) {
				return false
			}
			pos += int(l)
		}
		last, first = t, false
	}
	return true
}

// verifC10RecordsDropped reports whether out is in with one or more whole
// records removed (everything else byte-identical).
func verifC10RecordsDropped(in, out []byte) (bool, []uint64) {
	ri, ok1, _ := verifC10WalkTLV(in)
	ro, ok2, _ := verifC10WalkTLV(out)
	if !ok1 || !ok2 || len(ro) >= len(ri) {
		return false, nil
	}
	var dropped []uint64
	j := 0
	for _, rc := range ri {
		if j < len(ro) && bytes.Equal(in[rc.Off:rc.End], out[ro[j].Off:ro[j].End]) {
			j++
			continue
		}
		dropped = append(dropped, rc.T)
	}
	return j == len(ro), dropped
}

// verifC10KnownExtTypes collects, per message type, the record types that the
// REAL encoder has emitted for generated valid values in this shard (typed
// fields of the message). A record type outside this set that lnd accepts in
// the extension is an unknown record for that message.
var verifC10KnownExtTypes = map[MessageType]map[uint64]bool{}

// checkExt runs the extension oracles on F||E' for every mutant E'.
func (h *verifC10H) checkExt(r *verifRng, tg verifC10Target, b0 []byte) {
	vc := h.vc
	off := verifC10ExtBoundary(b0)
	if off < 0 {
		vc.Count("ext_no_boundary", 1)
		return
	}
	f, e := b0[:off], b0[off:]
	recs, _, _ := verifC10WalkTLV(e)
	if verifC10KnownExtTypes[tg.Msg] == nil {
		verifC10KnownExtTypes[tg.Msg] = map[uint64]bool{}
	}
	for _, rc := range recs {
		verifC10KnownExtTypes[tg.Msg][rc.T] = true
	}
	if len(recs) == 0 {
		vc.Count("ext_empty", 1)
		// still probe an extension made of harness records only
		e = verifC10TLVStream(r, 1+r.Intn(3), 20)
		recs, _, _ = verifC10WalkTLV(e)
		if len(recs) == 0 {
			return
		}
	}
	vc.Count("ext_values", 1)
	muts, classes := verifC10ExtMutants(r, e, recs)
	{
		// value-domain mutants draw from a copy of the stream (the case
		// stream of the older classes is left untouched)
		rc := *r
		m2, c2 := verifC10ExtValueMutants(rc.Fork("ext-valdom"), tg.Msg, e, recs)
		muts, classes = append(muts, m2...), append(classes, c2...)
		vc.Count("ext_valdom_mutants", int64(len(m2)))
	}
	for i, e2 := range muts {
		b := append(append([]byte{}, f...), e2...)
		if len(b) > 65535 {
			continue
		}
		class := classes[i]
		var (
			m1  any
			err error
		)
		if vc.Only >= 0 {
			vc.emit(map[string]any{"t": "case", "i": h.i, "input": h.witness(tg, class, b)})
		}
		if vc.Guard("no_panic", tg.Name+"|decode", h.witness(tg, class, b), func() {
			m1, err = tg.decode(b)
		}) {
			continue
		}
		vc.Count("decodes", 1)
		vc.Count("ext_decodes", 1)
		_, canon, rule := verifC10WalkTLV(e2)
		if err != nil {
			vc.Count("rejected", 1)
			vc.Sig(verifJoin(tg.Name, class, "rej"))
			continue
		}
		vc.Count("accepted", 1)
		vc.Sig(verifJoin(tg.Name, class, "acc"))
		actual := verifC10Actual(tg, m1)
		// the accepted extension mutant also goes through the fixpoint
		// oracles (b1 == b2, m1 == m2)
		vc.Count("ext_fixpoint_evals", 1)
		if strings.HasPrefix(class, "ext-valdom") || strings.HasPrefix(class, "ext-insknown") {
			vc.Count("ext_valdom_accepted", 1)
		}
		h.fixpoint(tg, class, b, m1)
		vc.Count("ext_accept_implies_canonical_evals", 1)
		if !canon {
			wit := h.witness(tg, class, b)
			wit["extension_offset"] = off
			wit["extension"] = verifHex(e2[:min(len(e2), 1024)])
			detail := fmt.Sprintf("ReadMessage accepted F||E although the reference walker rejects the "+
				"extension E (rule %s); E=%s", rule, verifHex(e2[:min(len(e2), 256)]))
			switch {
			case verifC10OpaqueExt[tg.Msg]:
				vc.Count("ext_opaque_not_validated:"+actual, 1)
				vc.Diag("ext_opaque_not_validated", actual+"|"+rule)
			case verifC10ZeroRecs[tg.Msg] != nil &&
				!verifC10WalkLenientBigSize(e2, verifC10BigSizeRecs[tg.Msg], nil) &&
				verifC10WalkLenientBigSize(e2, verifC10BigSizeRecs[tg.Msg],
					verifC10ZeroRecs[tg.Msg]):

				// attributed to KF-C10-5 (needs the TrueBoolean model)
				key := actual + "|TrueBoolean-declared-length-not-consumed"
				vc.Count("attributed:"+key, 1)
				h.attrib[key]++
				if h.attrib[key] <= 2 {
					h.viol("ext_accept_implies_canonical", key, detail, wit)
				}
			case verifC10BigSizeRecs[tg.Msg] != nil &&
				verifC10WalkLenientBigSize(e2, verifC10BigSizeRecs[tg.Msg], nil):

				// attributed to KF-C10-1; reported a few times per
				// shard only (the runtime keeps 50 violations)
				key := actual + "|DBigSize-ignores-record-length"
				vc.Count("attributed:"+key, 1)
				h.attrib[key]++
				if h.attrib[key] <= 2 {
					h.viol("ext_accept_implies_canonical", key, detail, wit)
				}
			default:
				h.viol("ext_accept_implies_canonical", actual+"|"+rule, detail, wit)
			}
			continue
		}
		// accepted and canonical: decode-then-encode should reproduce it
		vc.Count("ext_reencode_evals", 1)
		vc.Count("unknown_records_preserved_evals", 1)
		b1, _, err := tg.encode(m1)
		if err != nil || !bytes.Equal(b1, b) {
			wit := h.witness(tg, class, b)
			wit["extension_offset"] = off
			kind := "other"
			if err == nil && len(b1) >= off && bytes.Equal(b1[:off], f) {
				if ok, dropped := verifC10RecordsDropped(e2, b1[off:]); ok {
					kind = "unknown-records-dropped"
					for _, t := range dropped {
						if verifC10KnownExtTypes[tg.Msg][t] {
							kind = "known-record-dropped"
						}
					}
				}
			}
			if kind == "unknown-records-dropped" {
				// "...decodes back to an equal value with unknown
				// records and trailing extension data preserved":
				// the extension was canonical, the message was
				// accepted, every record of a type the encoder
				// itself emits is byte-identical, and exactly the
				// unknown-type records are gone.
				wit := h.witness(tg, class, b)
				wit["extension_offset"] = off
				wit["extension"] = verifHex(e2[:min(len(e2), 1024)])
				wit["reencoded_extension"] = verifHex(b1[off:min(len(b1), off+1024)])
				h.viol("unknown_records_preserved", actual+"|unknown-records-dropped-on-reencode",
					fmt.Sprintf("accepted F||E with canonical E=%s; re-encoded extension=%s: the "+
						"unknown records are gone", verifHex(e2[:min(len(e2), 256)]),
						verifHex(b1[off:min(len(b1), off+256)])), wit)
			}
			vc.Count("ext_reencode_diff:"+actual+"|"+kind, 1)
			vc.Diag("ext_reencode_reproduces_input:"+kind, actual+"|"+class+": "+fmt.Sprintf(
				"accepted, extension canonical per the reference, but re-encoding differs (err=%v): "+
					"in E=%s out=%s", err, verifHex(e2[:min(len(e2), 256)]),
				verifHex(b1[min(off, len(b1)):min(len(b1), off+256)])))
			_ = wit
		}
	}
}

// verifC10RawLens are the raw-bytes lengths of the design (body lengths; the
// 2-byte header is added on top where it fits in 65535).
var verifC10RawLens = []int{0, 1, 2, 3, 4, 5, 6, 7, 8, 9, 10, 12, 16, 20, 24, 31, 32, 33, 34,
	40, 48, 63, 64, 65, 100, 128, 256, 257, 65531, 65532, 65533}

func (h *verifC10H) runCase(r *verifRng, tg verifC10Target, tgs []verifC10Target, nValid, nMut int) {
	vc := h.vc
	{
		// the disturbances of the history dimension draw from a stream forked
		// off a COPY of the case stream (the inputs of the older parts are
		// unchanged)
		rc := *r
		h.hr, h.tgs = rc.Fork("hist"), tgs
		if !verifC10HistOn() {
			h.hr = nil
		}
	}
	var valids [][]byte
	for k := 0; k < nValid; k++ {
		v, err := tg.genValid(r.Fork("valid"))
		if err != nil {
			vc.Diag("generator_failed", fmt.Sprintf("%s: %v", tg.Name, err))
			continue
		}
		b0, ok := h.checkLossless(tg, v)
		if b0 == nil || !ok {
			continue
		}
		valids = append(valids, b0)
		if tg.Kind == 0 {
			verifC10NoteKnownExt(tg.Msg, b0)
		}
		// The valid encoding itself also goes through the byte
		// oracle (its fixpoint must be itself).
		acc, b1 := h.checkBytes(tg, "valid", b0, true)
		if acc && b1 != nil && !bytes.Equal(b1, b0) && tg.Kind != 2 {
			h.viol("lossless_bytes", tg.Name, "valid encoding is not its own fixpoint",
				h.witness(tg, "valid", b0))
		}
	}
	// A second valid encoding of some other target for splices.
	var other []byte
	if ov, err := tgs[r.Intn(len(tgs))].genValid(r.Fork("other")); err == nil {
		var buf bytes.Buffer
		switch x := ov.(type) {
		case Message:
			if _, err := WriteMessage(&buf, x, 0); err == nil {
				other = buf.Bytes()
			}
		case FailureMessage:
			if err := EncodeFailureMessage(&buf, x, 0); err == nil {
				other = buf.Bytes()
			}
		}
	}
	for _, b0 := range valids {
		for k := 0; k < nMut; k++ {
			class := verifC10Classes[r.Intn(len(verifC10Classes))]
			if (class == "pad-big" || class == "zlib") && !r.Chance(1, 4) {
				class = "flip"
			}
			if class == "addrs" && !(tg.Kind == 0 && tg.Msg == MsgNodeAnnouncement) &&
				!r.Chance(1, 4) {

				class = "byteset"
			}
			if tg.Kind == 0 && tg.Msg == MsgNodeAnnouncement && r.Chance(1, 4) {
				class = "addrs"
			}
			if tg.Kind == 0 && (tg.Msg == MsgQueryShortChanIDs ||
				tg.Msg == MsgReplyChannelRange) && r.Chance(1, 4) {

				class = "zlib"
			}
			oth := other
			if r.Bool() && len(valids) > 1 {
				oth = valids[r.Intn(len(valids))]
			}
			b := verifC10Mutate(r, tg, b0, oth, class)
			// second-order mutation now and then
			if r.Chance(1, 5) {
				class2 := verifC10Classes[r.Intn(6)]
				b = verifC10Mutate(r, tg, b, oth, class2)
				class = class + "+" + class2
			}
			h.checkBytes(tg, class, b, true)
		}
	}
	// Extension mutants: only the TLV extension of each valid encoding is
	// mutated (wire messages only).
	if tg.Kind == 0 {
		for _, b0 := range valids {
			h.checkExt(r, tg, b0)
		}
	}
	// Truncation at every offset (covers every field boundary) of one valid
	// encoding.
	if len(valids) > 0 {
		b0 := valids[r.Intn(len(valids))]
		step := 1
		if len(b0) > 600 {
			step = len(b0) / 300
		}
		for n := 0; n < len(b0); n += step {
			h.checkBytes(tg, "prefix", b0[:n], false)
		}
	}
	// Raw PRNG bytes.
	for k := 0; k < 6; k++ {
		n := verifC10RawLens[r.Intn(len(verifC10RawLens))]
		if n > 1000 && !r.Chance(1, 6) {
			n = r.Intn(80)
		}
		body := r.Bytes(n)
		if r.Chance(1, 3) {
			for i := range body {
				if r.Chance(3, 4) {
					body[i] &= 0x03
				}
			}
		}
		var b []byte
		if tg.Kind == 2 {
			b = body
		} else {
			b = append(append([]byte{}, tg.header()...), body...)
		}
		h.checkBytes(tg, "raw", b, true)
	}
	// Well-formed boundary values (c10wf_test.go): every variable-length
	// field of the target at its boundary lengths. Runs last so that the
	// PRNG stream of the parts above is unchanged.
	wr := r.Fork("wf")
	var table []string
	for _, wf := range verifC10WFValues(wr, tg, vc) {
		out := h.checkWellformed(tg, wf)
		table = append(table, wf.Class+"="+out)
	}
	if h.i < len(tgs) && len(table) > 0 {
		// first visit of the target: record what was generated
		vc.Note("wf:"+tg.Name, strings.Join(table, " "))
	}
	// Field-domain values (c10fd_test.go): one scalar leaf of a generated
	// value at a time at its boundary values.
	h.runFieldDomain(r.Fork("fd"), tg)
}

func TestVerifC10(t *testing.T) {
	vc := verifStart(t, "C10", "lnwire")
	defer vc.Finish()
	tgs := verifC10Targets()
	vc.Note("targets", fmt.Sprint(len(tgs)))
	nmsg := 0
	for _, tg := range tgs {
		if tg.Kind == 0 {
			nmsg++
		}
	}
	vc.Note("message_types", fmt.Sprint(nmsg))

	verifC10Prepass(tgs)
	attrib := map[string]int{}
	rounds := vc.N(12, 400) // every target is visited this many times
	nValid, nMut := 4, 40
	total := rounds * len(tgs)
	for i := 0; i < total; i++ {
		if !vc.Mine(i) {
			continue
		}
		tg := tgs[i%len(tgs)]
		r := vc.Rng(i)
		vc.Case(i, map[string]any{"target": tg.Name, "valid_values": nValid,
			"mutants_per_value": nMut,
			"regen":             "inputs regenerate deterministically from (seed, case); replay this case to log each input"})
		h := &verifC10H{vc: vc, i: i, attrib: attrib}
		h.runCase(r, tg, tgs, nValid, nMut)
		if i < len(tgs) && i%17 == 0 {
			vc.Sample(map[string]any{"case": i, "target": tg.Name})
		}
		vc.CaseDone(i)
	}
}

// TestVerifC10Race: the same inputs decoded by 8 goroutines at once under
// the race detector / checkptr (shared package-level buffers or pools would
// show up as data races attributed by the driver, or as a broken fixpoint).
func TestVerifC10Race(t *testing.T) {
	vc := verifStart(t, "C10", "lnwire_race")
	defer vc.Finish()
	tgs := verifC10Targets()
	verifC10Prepass(tgs)
	rounds := vc.N(1, 6)
	total := rounds * len(tgs)
	for i := 0; i < total; i++ {
		if !vc.Mine(i) {
			continue
		}
		tg := tgs[i%len(tgs)]
		r := vc.Rng(i)
		vc.Case(i, map[string]any{"target": tg.Name, "goroutines": 8})
		type in struct {
			class string
			b     []byte
		}
		var ins []in
		for k := 0; k < 3; k++ {
			v, err := tg.genValid(r.Fork("valid"))
			if err != nil {
				continue
			}
			b0, _, err := tg.encode(v)
			if err != nil {
				continue
			}
			ins = append(ins, in{"valid", b0})
			for j := 0; j < 30; j++ {
				class := verifC10Classes[r.Intn(len(verifC10Classes))]
				if class == "pad-big" && !r.Chance(1, 8) {
					class = "flip"
				}
				ins = append(ins, in{class, verifC10Mutate(r, tg, b0, b0, class)})
			}
		}
		results := make([][]string, 8)
		var wg sync.WaitGroup
		for g := 0; g < 8; g++ {
			wg.Add(1)
			go func(g int) {
				defer wg.Done()
				h := &verifC10H{vc: vc, i: i}
				for _, x := range ins {
					acc, b1 := h.checkBytes(tg, x.class, x.b, false)
					results[g] = append(results[g], fmt.Sprint(acc, len(b1), verifHashStr(string(b1))))
				}
			}(g)
		}
		wg.Wait()
		for g := 1; g < 8; g++ {
			if !reflect.DeepEqual(results[0], results[g]) {
				vc.Diag("concurrent_results_differ", tg.Name)
			}
		}
		vc.Count("concurrent_batches", 1)
		vc.CaseDone(i)
	}
}
