package lnwire

// C10 monitor (lnwire part), well-formed boundary values.
//
// lnwire's own rapid generators (used by the lossless_* oracles in
// c10_test.go) draw the length of every variable-length field from a small
// "typical" range: at most 5 ipv4/ipv6 addresses and never a dns / onion /
// opaque address, feature bits <= 100, <= 20 signatures, reasons of 32..300
// bytes, <= 5 extension records of 4..64 bytes. This file adds harness-owned
// generators that put ONE variable-length field (group) of a well-formed
// message value at a boundary length (0, 1, the BigSize / uint8 / uint16
// representation boundaries, the documented field limit, and the largest
// length for which the whole message still fits into 65535 bytes), every
// other field being drawn by lnwire's generator.
//
// Oracle wellformed_roundtrip ("Every well-formed message value encodes to at
// most 65535 bytes and decodes back to an equal value with unknown records and
// trailing extension data preserved"), keys "<target>|<what>|<class>":
//
//   - encode-refused-within-limits: the real encoder refuses the value
//     although the harness's own size computation (fixed BOLT layout + the
//     bytes it put into the boundary field) says the body is <= 65533 bytes
//     and no documented field limit is exceeded. A refusal is accepted ONLY
//     when that computation says the body exceeds 65533 bytes (65535 with the
//     type), resp. 256 bytes for an onion failure packet; such values are
//     generated on purpose ("over-by-1") and counted as
//     wf_encode_refused_oversize.
//   - encoded-over-65535: the encoder emitted more than 65535 bytes.
//   - own-encoding-rejected: the bytes produced by the message's own encoder
//     are rejected by the message's own decoder.
//   - reencode-differs: value -> b0 -> m -> b1 with b0 != b1.
//   - value-differs: the decoded value is not equal to the generated one
//     (nil == empty for slices / maps, 4- and 16-byte forms of one IPv4
//     address are equal).
//
// Values whose well-formedness is debatable (two dns addresses in one
// node_announcement, which BOLT-7 forbids; a 1-byte extension, which is not a
// TLV stream) are run through the same steps but only produce diagnostics
// (diag:wf_diagonly_*).
//
// diag:wf_size_model_mismatch: the encoder accepted the value but the body
// length differs from the harness's computation (harness model check, never a
// verdict).

import (
	"bytes"
	"compress/zlib"
	"fmt"
	"net"
	"reflect"

	"github.com/btcsuite/btcd/btcec/v2"
	"github.com/btcsuite/btcd/chainhash/v2"
	"github.com/lightningnetwork/lnd/tlv"
	"github.com/lightningnetwork/lnd/tor"
)

// verifC10MaxBody is the largest message body (bytes after the 2-byte type)
// of a 65535-byte lightning message.
const verifC10MaxBody = 65535 - 2

// verifC10MaxFailPkt is the fixed size of the failure message inside an onion
// failure packet (BOLT-4).
const verifC10MaxFailPkt = 256

// verifC10WF is one boundary value.
type verifC10WF struct {
	V        any
	Group    string // counter group (wf_<group>)
	Class    string // "<field>:<boundary>", part of the violation key
	Body     int    // harness-computed body length; -1 = far from any limit (a refusal is never acceptable)
	DiagOnly bool   // debatable well-formedness: diagnostics only
}

// ------------------------------------------------------------------ field generators

var verifC10FVLens = []int{0, 1, 2, 13, 252, 253, 255, 256, 257, 8191, 8192}

// verifC10FV builds a raw feature vector whose serialisation is exactly
// nbytes long (8192 bytes = feature bit 65535, the largest FeatureBit).
func verifC10FV(r *verifRng, nbytes int) *RawFeatureVector {
	fv := NewRawFeatureVector()
	if nbytes == 0 {
		return fv
	}
	fv.Set(FeatureBit(8*(nbytes-1) + r.Intn(8)))
	for k := r.Intn(10); k > 0; k-- {
		fv.Set(FeatureBit(r.Intn(8 * nbytes)))
	}
	return fv
}

func verifC10PubKey(r *verifRng) *btcec.PublicKey {
	_, pub := btcec.PrivKeyFromBytes(r.Bytes(32))
	return pub
}

func verifC10Nonce(r *verifRng) Musig2Nonce {
	var n Musig2Nonce
	copy(n[:33], verifC10PubKey(r).SerializeCompressed())
	copy(n[33:], verifC10PubKey(r).SerializeCompressed())
	return n
}

func verifC10RandSig(r *verifRng) Sig {
	var s Sig
	copy(s.bytes[:], r.Bytes(64))
	return s
}

func verifC10ChanID(r *verifRng) ChannelID {
	var c ChannelID
	copy(c[:], r.Bytes(32))
	return c
}

func verifC10RecLen(t uint64, l int) int {
	return len(verifC10BigSize(t)) + len(verifC10BigSize(uint64(l))) + l
}

func verifC10Rec(t uint64, v []byte) []byte {
	out := append([]byte{}, verifC10BigSize(t)...)
	out = append(out, verifC10BigSize(uint64(len(v)))...)
	return append(out, v...)
}

// verifC10ExtExact builds a canonical TLV stream of exactly n bytes made of
// 1..3 records of unknown odd types in [101, 251] (1-byte BigSize; the last
// record sometimes has a 3-byte type in [253, 65535], never 55555). n == 1 is
// impossible (ok = false).
func verifC10ExtExact(r *verifRng, n int) (ext []byte, ok bool) {
	if n == 0 {
		return []byte{}, true
	}
	if n == 1 {
		return nil, false
	}
	t := uint64(101 + 2*r.Intn(20))
	next := func() uint64 {
		cur := t
		t += 2 * uint64(1+r.Intn(10))
		return cur
	}
	rem := n
	// leading small records
	for k := r.Intn(3); k > 0 && rem > 600; k-- {
		v := r.Bytes(r.Intn(40))
		ext = append(ext, verifC10Rec(next(), v)...)
		rem -= 2 + len(v)
	}
	lastType := next()
	ts := 1
	if rem > 300 && r.Chance(1, 3) {
		lastType = []uint64{253, 255, 1001, 40001, 65535}[r.Intn(5)]
		ts = 3
	}
	// value length L of the last record: ts + lenSize(L) + L == rem
	switch {
	case rem-ts-1 >= 0 && rem-ts-1 <= 252:
		ext = append(ext, verifC10Rec(lastType, r.Bytes(rem-ts-1))...)
	case rem-ts-3 >= 253:
		ext = append(ext, verifC10Rec(lastType, r.Bytes(rem-ts-3))...)
	default:
		// rem-ts is 254 or 255: not reachable with one record; put an
		// empty 2-byte record in front
		if ts != 1 {
			lastType, ts = next(), 1
		}
		first := lastType
		lastType = next()
		ext = append(ext, verifC10Rec(first, nil)...)
		ext = append(ext, verifC10Rec(lastType, r.Bytes(rem-2-ts-1))...)
	}
	if len(ext) != n {
		return nil, false
	}
	return ext, true
}

// verifC10ExtLens: total lengths of the extra opaque data of a message whose
// other fields occupy `fixed` bytes.
func verifC10ExtLens(fixed int) []int {
	room := verifC10MaxBody - fixed
	return []int{0, 2, 3, 4, 254, 255, 256, 257, 1000, room - 1, room, room + 1}
}

func verifC10LenClass(field string, n, fixed int) string {
	room := verifC10MaxBody - fixed
	switch n {
	case room - 1:
		return field + ":body-65532"
	case room:
		return field + ":body-65533"
	case room + 1:
		return field + ":body-65534-over"
	}
	return fmt.Sprintf("%s:len-%d", field, n)
}

// verifC10UTF8 builds a valid UTF-8 string of exactly n bytes out of 1-, 2-, 3-
// and 4-byte runes.
func verifC10UTF8(r *verifRng, n int) []byte {
	var out []byte
	for len(out) < n {
		sz := 1 + r.Intn(min(4, n-len(out)))
		var c rune
		switch sz {
		case 1:
			c = rune(0x20 + r.Intn(0x5f))
		case 2:
			c = rune(0x80 + r.Intn(0x780))
		case 3:
			c = rune(0x800 + r.Intn(0xd000))
		default:
			c = rune(0x10000 + r.Intn(0x100000))
		}
		out = append(out, string(c)...)
	}
	return out
}

func verifC10Hostname(r *verifRng, n int) string {
	const alnum = "abcdefghijklmnopqrstuvwxyzABCDEFGHIJKLMNOPQRSTUVWXYZ0123456789"
	b := make([]byte, n)
	label, hyphen := 0, false
	for i := range b {
		inner := label >= 1 && i < n-1 && !hyphen
		switch {
		case inner && (label >= 63 || r.Chance(1, 12)):
			b[i], label = '.', 0
		case inner && label < 62 && r.Chance(1, 20):
			b[i], hyphen = '-', true
			label++
		default:
			b[i], hyphen = alnum[r.Intn(len(alnum))], false
			label++
		}
	}
	return string(b)
}

// verifC10Addr builds one well-formed address of the given kind together with
// its encoded size (descriptor byte included).
func verifC10Addr(r *verifRng, kind string, n int) (net.Addr, int) {
	switch kind {
	case "ipv4":
		return &net.TCPAddr{IP: net.IP(r.Bytes(4)), Port: r.Intn(65536)}, 7
	case "ipv6":
		ip := r.Bytes(16)
		ip[0] = 0x20 // never an IPv4-mapped address
		return &net.TCPAddr{IP: net.IP(ip), Port: r.Intn(65536)}, 19
	case "torv2":
		return &tor.OnionAddr{
			OnionService: tor.Base32Encoding.EncodeToString(r.Bytes(10)) + tor.OnionSuffix,
			Port:         r.Intn(65536),
		}, 13
	case "torv3":
		return &tor.OnionAddr{
			OnionService: tor.Base32Encoding.EncodeToString(r.Bytes(35)) + tor.OnionSuffix,
			Port:         r.Intn(65536),
		}, 38
	case "dns": // n = hostname length
		return &DNSAddress{Hostname: verifC10Hostname(r, n), Port: uint16(1 + r.Intn(65535))}, 4 + n
	default: // "opaque": n = payload length incl. the unknown descriptor byte
		p := r.Bytes(n)
		p[0] = byte(6 + r.Intn(250))
		return &OpaqueAddrs{Payload: p}, n
	}
}

var verifC10SmallAddrKinds = []string{"ipv4", "ipv6", "torv2", "torv3"}

// verifC10AddrFill builds an address list whose encoding (without the 2-byte
// section length) is exactly total bytes: addresses of the primary kind
// ("mixed" = any of ipv4/ipv6/torv2/torv3), then exactly one dns address (or,
// with opaqueTail, one trailing unknown-type address) taking the remainder.
// multiDNS uses 255-byte dns hostnames as the primary kind (BOLT-7 allows one).
func verifC10AddrFill(r *verifRng, total int, primary string, opaqueTail, multiDNS bool) []net.Addr {
	var addrs []net.Addr
	rem := total
	pick := func() string {
		if primary == "mixed" {
			return verifC10SmallAddrKinds[r.Intn(4)]
		}
		return primary
	}
	for rem > 600 {
		var (
			a  net.Addr
			sz int
		)
		if multiDNS {
			a, sz = verifC10Addr(r, "dns", 255)
		} else {
			a, sz = verifC10Addr(r, pick(), 0)
		}
		addrs = append(addrs, a)
		rem -= sz
	}
	if opaqueTail {
		for rem > 300 {
			a, sz := verifC10Addr(r, "ipv4", 0)
			addrs = append(addrs, a)
			rem -= sz
		}
		a, _ := verifC10Addr(r, "opaque", rem)
		return append(addrs, a)
	}
	for rem > 259 {
		// leave at least 5 bytes for the final dns address
		k := verifC10SmallAddrKinds[r.Intn(4)]
		a, sz := verifC10Addr(r, k, 0)
		if rem-sz < 5 {
			a, sz = verifC10Addr(r, "ipv4", 0)
		}
		addrs = append(addrs, a)
		rem -= sz
	}
	d, _ := verifC10Addr(r, "dns", rem-4)
	pos := len(addrs)
	if !multiDNS && len(addrs) > 0 {
		pos = r.Intn(len(addrs) + 1)
	}
	addrs = append(addrs, nil)
	copy(addrs[pos+1:], addrs[pos:])
	addrs[pos] = d
	return addrs
}

// verifC10Scids builds n strictly increasing short channel ids. regular:
// constant step (best case for zlib). edges: the first id is 0 and the last the
// largest representable id.
func verifC10Scids(r *verifRng, n int, regular, edges bool) []ShortChannelID {
	if n == 0 {
		return nil
	}
	out := make([]ShortChannelID, n)
	cur := r.U64n(1 << 40)
	if edges {
		cur = 0
	}
	for i := range out {
		out[i] = NewShortChanIDFromInt(cur)
		if regular {
			cur++
		} else {
			cur += 1 + r.U64n(1<<20)
		}
	}
	if edges && n > 1 {
		out[n-1] = NewShortChanIDFromInt(^uint64(0))
	}
	return out
}

func verifC10ScidBytes(ids []ShortChannelID) []byte {
	raw := make([]byte, 0, 8*len(ids))
	for _, id := range ids {
		v := id.ToUint64()
		raw = append(raw, byte(v>>56), byte(v>>48), byte(v>>40), byte(v>>32),
			byte(v>>24), byte(v>>16), byte(v>>8), byte(v))
	}
	return raw
}

// verifC10ZlibLen is the harness's own computation of the size of the
// zlib-compressed id list (stdlib compress/zlib at its default level, which is
// what BOLT-7 implementations interoperate on); 0 ids encode as no payload.
func verifC10ZlibLen(ids []ShortChannelID) int {
	if len(ids) == 0 {
		return 0
	}
	var z bytes.Buffer
	zw := zlib.NewWriter(&z)
	zw.Write(verifC10ScidBytes(ids))
	zw.Close()
	return z.Len()
}

// verifC10CustomRecs builds custom records (types >= 65536, 5-byte BigSize
// type unless noted) whose TLV encoding is exactly total bytes (total == 0: no
// records). ok = false when total is not reachable.
func verifC10CustomRecs(r *verifRng, total int) (CustomRecords, bool) {
	if total == 0 {
		return nil, true
	}
	cr := CustomRecords{}
	t := uint64(65537 + 2*r.Intn(1000))
	rem := total
	for k := r.Intn(3); k > 0 && rem > 700; k-- {
		v := r.Bytes(r.Intn(60))
		cr[t] = v
		rem -= 5 + 1 + len(v)
		t += 2 * uint64(1+r.Intn(100))
	}
	switch {
	case rem-6 >= 0 && rem-6 <= 252:
		cr[t] = r.Bytes(rem - 6)
	case rem-8 >= 253:
		cr[t] = r.Bytes(rem - 8)
	default:
		return nil, false
	}
	return cr, true
}

func verifC10CustomRecsLen(cr CustomRecords) int {
	n := 0
	for t, v := range cr {
		n += verifC10RecLen(t, len(v))
	}
	return n
}

// ------------------------------------------------------------------ per-message boundary values

type verifC10WFBuilder struct {
	r   *verifRng
	tg  verifC10Target
	out []verifC10WF
	vc  *verifCtx
}

func (b *verifC10WFBuilder) add(group, class string, v any, body int) {
	b.out = append(b.out, verifC10WF{V: v, Group: group, Class: class, Body: body})
}

func (b *verifC10WFBuilder) addDiag(group, class string, v any, body int) {
	b.out = append(b.out, verifC10WF{V: v, Group: group, Class: class, Body: body, DiagOnly: true})
}

// base draws a fresh well-formed value of the target's type from lnwire's own
// generator.
func (b *verifC10WFBuilder) base() Message {
	m, err := verifC10RapidMsg(b.tg.Msg, int(b.r.U64()>>2))
	if err != nil {
		b.vc.Diag("generator_failed", fmt.Sprintf("%s: %v", b.tg.Name, err))
		return nil
	}
	return m
}

// ext adds the extra-opaque-data boundary values of a message whose other
// fields occupy fixed bytes; set installs the extension into a fresh value.
func (b *verifC10WFBuilder) ext(fixed int, opaque bool, set func(ext []byte) Message) {
	for _, n := range verifC10ExtLens(fixed) {
		e, ok := verifC10ExtExact(b.r, n)
		if !ok {
			continue
		}
		if m := set(e); m != nil {
			g := "ext"
			if n > 60000 {
				g = "ext_nearlimit"
			}
			b.add(g, verifC10LenClass("extra", n, fixed), m, fixed+n)
		}
	}
	if opaque {
		// one raw byte: not a TLV stream, kept verbatim by the
		// messages that treat the extension as opaque bytes
		if m := set([]byte{byte(1 + b.r.Intn(250))}); m != nil {
			b.addDiag("ext", "extra:raw-1-byte", m, fixed+1)
		}
	}
}

// customRecords adds the custom-record (+ extra data) boundary values of a
// MergeAndEncode message whose other fields occupy fixed bytes.
func (b *verifC10WFBuilder) customRecords(fixed int, set func(cr CustomRecords, ext []byte) Message) {
	r := b.r
	room := verifC10MaxBody - fixed
	put := func(group, class string, cr CustomRecords, ext []byte) {
		if m := set(cr, ext); m != nil {
			b.add(group, class, m, fixed+verifC10CustomRecsLen(cr)+len(ext))
		}
	}
	put("custom_records", "custom:none", nil, nil)
	for _, l := range []int{0, 1, 252, 253, 1000} {
		put("custom_records", fmt.Sprintf("custom:1-record-len-%d", l),
			CustomRecords{uint64(65537 + 2*r.Intn(500)): r.Bytes(l)}, nil)
	}
	// type boundaries: smallest custom type, last 5-byte type, first and
	// last 9-byte type
	for _, t := range []uint64{65536, 1<<32 - 1, 1 << 32, ^uint64(0)} {
		put("custom_records", fmt.Sprintf("custom:type-%d", t), CustomRecords{t: r.Bytes(r.Intn(40))}, nil)
	}
	many := CustomRecords{}
	for i := 0; i < 500; i++ {
		many[uint64(65536+r.Intn(1<<20))] = r.Bytes(r.Intn(8))
	}
	put("custom_records", "custom:500-records", many, nil)
	for _, d := range []int{-1, 0, 1} {
		cr, ok := verifC10CustomRecs(r, room+d)
		if !ok {
			continue
		}
		put("custom_records_nearlimit", verifC10LenClass("custom", room+d, fixed), cr, nil)
	}
	// unknown records below the custom range next to custom records, up
	// to the limit
	for _, d := range []int{-1, 0, 1} {
		e, ok := verifC10ExtExact(r, 30000)
		cr, ok2 := verifC10CustomRecs(r, room+d-30000)
		if ok && ok2 {
			put("custom_records_nearlimit", verifC10LenClass("extra+custom", room+d, fixed), cr, e)
		}
	}
	for _, n := range []int{2, 3, 257} {
		if e, ok := verifC10ExtExact(r, n); ok {
			put("ext", fmt.Sprintf("extra:len-%d", n), nil, e)
		}
	}
}

func verifC10WFValues(r *verifRng, tg verifC10Target, vc *verifCtx) []verifC10WF {
	b := &verifC10WFBuilder{r: r, tg: tg, vc: vc}
	if tg.Kind != 0 {
		b.failure()
		return b.out
	}
	dataLens := func(fixed int) []int {
		room := verifC10MaxBody - fixed
		return []int{0, 1, 2, 255, 256, room - 1, room, room + 1}
	}
	switch tg.Msg {
	case MsgWarning:
		for _, n := range dataLens(34) {
			b.add("data", verifC10LenClass("data", n, 34),
				&Warning{ChanID: verifC10ChanID(r), Data: r.Bytes(n)}, 34+n)
		}
	case MsgError:
		for _, n := range dataLens(34) {
			b.add("data", verifC10LenClass("data", n, 34),
				&Error{ChanID: verifC10ChanID(r), Data: r.Bytes(n)}, 34+n)
		}
	case MsgPing:
		for _, n := range dataLens(4) {
			b.add("padding", verifC10LenClass("padding", n, 4),
				&Ping{NumPongBytes: []uint16{0, 1, 65531, 65535, uint16(r.U64())}[r.Intn(5)],
					PaddingBytes: r.Bytes(n)}, 4+n)
		}
	case MsgPong:
		for _, n := range dataLens(2) {
			b.add("padding", verifC10LenClass("pong", n, 2), &Pong{PongBytes: r.Bytes(n)}, 2+n)
		}
	case MsgStfu:
		b.ext(33, true, func(e []byte) Message {
			return &Stfu{ChanID: verifC10ChanID(r), Initiator: r.Bool(), ExtraData: e}
		})
	case MsgInit:
		for _, n := range verifC10FVLens {
			b.add("features", fmt.Sprintf("global-features:bytes-%d", n),
				NewInitMessage(verifC10FV(r, n), verifC10FV(r, r.Intn(3))), -1)
			b.add("features", fmt.Sprintf("features:bytes-%d", n),
				NewInitMessage(verifC10FV(r, r.Intn(3)), verifC10FV(r, n)), -1)
		}
		b.customRecords(4, func(cr CustomRecords, e []byte) Message {
			m := NewInitMessage(NewRawFeatureVector(), NewRawFeatureVector())
			m.CustomRecords, m.ExtraData = cr, e
			return m
		})
	case MsgOpenChannel, MsgAcceptChannel:
		for _, n := range []int{0, 1, 22, 33, 34} {
			m := b.base()
			switch x := m.(type) {
			case *OpenChannel:
				x.UpfrontShutdownScript = r.Bytes(n)
			case *AcceptChannel:
				x.UpfrontShutdownScript = r.Bytes(n)
			default:
				continue
			}
			b.add("script", fmt.Sprintf("upfront-shutdown-script:len-%d", n), m, -1)
		}
		for _, n := range verifC10FVLens {
			ct := ChannelType(*verifC10FV(r, n))
			m := b.base()
			switch x := m.(type) {
			case *OpenChannel:
				x.ChannelType = &ct
			case *AcceptChannel:
				x.ChannelType = &ct
			default:
				continue
			}
			b.add("features", fmt.Sprintf("channel-type:bytes-%d", n), m, -1)
		}
	case MsgShutdown:
		for _, n := range []int{0, 1, 22, 33, 34} {
			if m, ok := b.base().(*Shutdown); ok {
				m.Address = r.Bytes(n)
				b.add("script", fmt.Sprintf("address:len-%d", n), m, -1)
			}
		}
		b.customRecords(34+22, func(cr CustomRecords, e []byte) Message {
			return &Shutdown{ChannelID: verifC10ChanID(r), Address: r.Bytes(22),
				CustomRecords: cr, ExtraData: e}
		})
	case MsgClosingComplete, MsgClosingSig:
		for _, n := range []int{0, 1, 22, 33, 34} {
			for _, which := range []string{"closer", "closee"} {
				m := b.base()
				switch x := m.(type) {
				case *ClosingComplete:
					// the other script: a fixed mid-range length
					x.CloserScript, x.CloseeScript = r.Bytes(22), r.Bytes(22)
					if which == "closer" {
						x.CloserScript = r.Bytes(n)
					} else {
						x.CloseeScript = r.Bytes(n)
					}
				case *ClosingSig:
					x.CloserScript, x.CloseeScript = r.Bytes(22), r.Bytes(22)
					if which == "closer" {
						x.CloserScript = r.Bytes(n)
					} else {
						x.CloseeScript = r.Bytes(n)
					}
				default:
					continue
				}
				b.add("script", fmt.Sprintf("%s-script:len-%d", which, n), m, -1)
			}
		}
	case MsgDynPropose, MsgDynCommit:
		for _, n := range verifC10FVLens {
			m := b.base()
			switch x := m.(type) {
			case *DynPropose:
				rec := x.ChannelType.Zero()
				rec.Val = ChannelType(*verifC10FV(r, n))
				x.ChannelType = tlv.SomeRecordT(rec)
			case *DynCommit:
				rec := x.ChannelType.Zero()
				rec.Val = ChannelType(*verifC10FV(r, n))
				x.ChannelType = tlv.SomeRecordT(rec)
			default:
				continue
			}
			b.add("features", fmt.Sprintf("channel-type:bytes-%d", n), m, -1)
		}
		if tg.Msg == MsgDynPropose {
			b.ext(32, false, func(e []byte) Message {
				return &DynPropose{ChanID: verifC10ChanID(r), ExtraData: e}
			})
		} else {
			b.ext(96, false, func(e []byte) Message {
				id := verifC10ChanID(r)
				return &DynCommit{DynPropose: DynPropose{ChanID: id},
					DynAck: DynAck{ChanID: id, Sig: verifC10RandSig(r)}, ExtraData: e}
			})
		}
	case MsgDynAck:
		b.ext(96, false, func(e []byte) Message {
			return &DynAck{ChanID: verifC10ChanID(r), Sig: verifC10RandSig(r), ExtraData: e}
		})
	case MsgDynReject:
		for _, n := range verifC10FVLens {
			b.add("features", fmt.Sprintf("update-rejections:bytes-%d", n),
				&DynReject{ChanID: verifC10ChanID(r), UpdateRejections: *verifC10FV(r, n)}, 34+n)
		}
		b.ext(34, true, func(e []byte) Message {
			return &DynReject{ChanID: verifC10ChanID(r), UpdateRejections: *NewRawFeatureVector(),
				ExtraData: e}
		})
	case MsgUpdateAddHTLC:
		b.customRecords(1450, func(cr CustomRecords, e []byte) Message {
			m, ok := b.base().(*UpdateAddHTLC)
			if !ok {
				return nil
			}
			m.BlindingPoint = BlindingPointRecord{}
			m.CustomRecords, m.ExtraData = cr, e
			return m
		})
	case MsgUpdateFulfillHTLC:
		b.customRecords(72, func(cr CustomRecords, e []byte) Message {
			m := &UpdateFulfillHTLC{ChanID: verifC10ChanID(r), ID: r.U64(), CustomRecords: cr, ExtraData: e}
			copy(m.PaymentPreimage[:], r.Bytes(32))
			return m
		})
	case MsgUpdateFailHTLC:
		for _, n := range append(dataLens(42), 292) {
			b.add("reason", verifC10LenClass("reason", n, 42),
				&UpdateFailHTLC{ChanID: verifC10ChanID(r), ID: r.U64(), Reason: r.Bytes(n)}, 42+n)
		}
		b.ext(42+292, true, func(e []byte) Message {
			return &UpdateFailHTLC{ChanID: verifC10ChanID(r), ID: r.U64(), Reason: r.Bytes(292), ExtraData: e}
		})
	case MsgUpdateFailMalformedHTLC:
		b.ext(74, true, func(e []byte) Message {
			m, ok := b.base().(*UpdateFailMalformedHTLC)
			if !ok {
				return nil
			}
			m.ExtraData = e
			return m
		})
	case MsgUpdateFee:
		b.ext(36, true, func(e []byte) Message {
			return &UpdateFee{ChanID: verifC10ChanID(r), FeePerKw: uint32(r.U64()), ExtraData: e}
		})
	case MsgKickoffSig:
		b.ext(96, true, func(e []byte) Message {
			return &KickoffSig{ChanID: verifC10ChanID(r), Signature: verifC10RandSig(r), ExtraData: e}
		})
	case MsgAnnounceSignatures:
		b.ext(168, true, func(e []byte) Message {
			m, ok := b.base().(*AnnounceSignatures1)
			if !ok {
				return nil
			}
			m.ExtraOpaqueData = e
			return m
		})
	case MsgReplyShortChanIDsEnd:
		b.ext(33, true, func(e []byte) Message {
			m, ok := b.base().(*ReplyShortChanIDsEnd)
			if !ok {
				return nil
			}
			m.ExtraData = e
			return m
		})
	case MsgCommitSig:
		// 32 + 64 + 2 + 64n; 483 = BOLT-2 max_accepted_htlcs, 1022 = the
		// largest count that fits
		for _, n := range []int{0, 1, 2, 483, 484, 966, 1021, 1022, 1023} {
			sigs := make([]Sig, n)
			for i := range sigs {
				sigs[i] = verifC10RandSig(r)
			}
			cl := fmt.Sprintf("htlc-sigs:n-%d", n)
			if n == 1023 {
				cl += "-over"
			}
			b.add("sigs", cl, &CommitSig{ChanID: verifC10ChanID(r), CommitSig: verifC10RandSig(r),
				HtlcSigs: sigs}, 98+64*n)
		}
		b.customRecords(98+64*3, func(cr CustomRecords, e []byte) Message {
			return &CommitSig{ChanID: verifC10ChanID(r), CommitSig: verifC10RandSig(r),
				HtlcSigs:      []Sig{verifC10RandSig(r), verifC10RandSig(r), verifC10RandSig(r)},
				CustomRecords: cr, ExtraData: e}
		})
	case MsgRevokeAndAck, MsgChannelReestablish:
		for _, n := range []int{0, 1, 2, 15, 16} {
			nonces := make(map[chainhash.Hash]Musig2Nonce, n)
			for len(nonces) < n {
				var h chainhash.Hash
				copy(h[:], r.Bytes(32))
				nonces[h] = verifC10Nonce(r)
			}
			m := b.base()
			switch x := m.(type) {
			case *RevokeAndAck:
				x.LocalNonces = SomeLocalNonces(LocalNoncesData{NoncesMap: nonces})
			case *ChannelReestablish:
				x.LocalNonces = SomeLocalNonces(LocalNoncesData{NoncesMap: nonces})
			default:
				continue
			}
			b.add("nonces", fmt.Sprintf("local-nonces:n-%d", n), m, -1)
		}
	case MsgChannelAnnouncement:
		for _, n := range verifC10FVLens {
			if m, ok := b.base().(*ChannelAnnouncement1); ok {
				m.Features = verifC10FV(r, n)
				b.add("features", fmt.Sprintf("features:bytes-%d", n), m, -1)
			}
		}
		b.ext(430, false, func(e []byte) Message {
			m, ok := b.base().(*ChannelAnnouncement1)
			if !ok {
				return nil
			}
			m.Features, m.ExtraOpaqueData = NewRawFeatureVector(), e
			return m
		})
	case MsgNodeAnnouncement:
		b.nodeAnn1()
	case MsgQueryChannelRange:
		for _, n := range verifC10FVLens {
			if m, ok := b.base().(*QueryChannelRange); ok {
				qo := QueryOptions(*verifC10FV(r, n))
				m.QueryOptions = &qo
				b.add("features", fmt.Sprintf("query-options:bytes-%d", n), m, -1)
			}
		}
	case MsgQueryShortChanIDs, MsgReplyChannelRange:
		b.scids()
	case MsgChannelAnnouncement2, MsgNodeAnnouncement2, MsgChannelUpdate2, MsgAnnounceSignatures2:
		b.pureTLV()
	case MsgOnionMessage:
		for _, n := range append(dataLens(35), 1366) {
			b.add("blob", verifC10LenClass("onion-blob", n, 35),
				NewOnionMessage(verifC10PubKey(r), r.Bytes(n)), 35+n)
		}
	default:
		if tg.Msg >= CustomTypeStart {
			for _, n := range dataLens(0) {
				b.add("blob", verifC10LenClass("custom-data", n, 0),
					&Custom{Type: tg.Msg, Data: r.Bytes(n)}, n)
			}
		}
	}
	return b.out
}

func (b *verifC10WFBuilder) nodeAnn1() {
	r := b.r
	mk := func() *NodeAnnouncement1 {
		m, _ := b.base().(*NodeAnnouncement1)
		return m
	}
	for _, n := range verifC10FVLens {
		if m := mk(); m != nil {
			m.Features = verifC10FV(r, n)
			b.add("features", fmt.Sprintf("features:bytes-%d", n), m, -1)
		}
	}
	for _, n := range []int{0, 1, 31, 32} {
		if m := mk(); m != nil {
			// the decoder requires the 32 alias bytes to be valid UTF-8
			m.Alias = NodeAlias{}
			copy(m.Alias[:], verifC10UTF8(r, n))
			v := []uint8{0, 255, uint8(r.U64())}
			m.RGBColor.R, m.RGBColor.G, m.RGBColor.B = v[r.Intn(3)], v[r.Intn(3)], v[r.Intn(3)]
			b.add("alias", fmt.Sprintf("alias:used-%d", n), m, -1)
		}
	}
	// fixed part with an empty feature vector and no extension:
	// 64 + 2 + 4 + 33 + 3 + 32 + 2
	const fixed = 140
	set := func(class, group string, addrs []net.Addr, alen int, diag bool) {
		m := mk()
		if m == nil {
			return
		}
		m.Features, m.Addresses, m.ExtraOpaqueData = NewRawFeatureVector(), addrs, []byte{}
		if diag {
			b.addDiag(group, class, m, fixed+alen)
		} else {
			b.add(group, class, m, fixed+alen)
		}
	}
	list := func(spec ...any) ([]net.Addr, int) { // kind [, n] ...
		var (
			as  []net.Addr
			tot int
		)
		for i := 0; i < len(spec); i++ {
			kind, n := spec[i].(string), 0
			if i+1 < len(spec) {
				if v, ok := spec[i+1].(int); ok {
					n = v
					i++
				}
			}
			a, sz := verifC10Addr(r, kind, n)
			as = append(as, a)
			tot += sz
		}
		return as, tot
	}
	set("addrs:none", "addrs", nil, 0, false)
	for _, k := range verifC10SmallAddrKinds {
		as, n := list(k)
		set("addrs:one-"+k, "addrs", as, n, false)
	}
	for _, n := range []int{1, 2, 20} {
		as, tot := list("ipv4", "opaque", n)
		set(fmt.Sprintf("addrs:opaque-tail-%d", n), "addrs", as, tot, false)
	}
	{
		as, tot := list("ipv4", "ipv6", "torv2", "torv3", "dns", 1+r.Intn(255), "ipv6", "ipv4", "opaque", 1+r.Intn(30))
		set("addrs:all-kinds", "addrs", as, tot, false)
	}
	for _, hl := range []int{1, 2, 63, 64, 127, 128, 251, 252, 253, 254, 255} {
		as, tot := list("dns", hl)
		set(fmt.Sprintf("addrs:dns-%d-only", hl), "addrs_dns", as, tot, false)
		as, tot = list("dns", hl, "ipv4", "torv3")
		set(fmt.Sprintf("addrs:dns-%d-first", hl), "addrs_dns", as, tot, false)
		as, tot = list("ipv6", "dns", hl, "torv2")
		set(fmt.Sprintf("addrs:dns-%d-middle", hl), "addrs_dns", as, tot, false)
		as, tot = list("ipv4", "ipv6", "dns", hl)
		set(fmt.Sprintf("addrs:dns-%d-last", hl), "addrs_dns", as, tot, false)
		as, tot = list("dns", hl, "dns", hl)
		set(fmt.Sprintf("addrs:dns-%d-twice", hl), "addrs_dns", as, tot, true)
	}
	// as many addresses as fit: the address section takes all the room
	room := verifC10MaxBody - fixed
	for _, p := range []string{"ipv4", "ipv6", "torv2", "torv3", "mixed"} {
		set("addrs:maxfit-"+p, "addrs_maxfit", verifC10AddrFill(r, room, p, false, false), room, false)
	}
	set("addrs:maxfit-mixed-opaque-tail", "addrs_maxfit", verifC10AddrFill(r, room, "mixed", true, false), room, false)
	set("addrs:maxfit-minus-1", "addrs_maxfit", verifC10AddrFill(r, room-1, "mixed", false, false), room-1, false)
	set("addrs:over-by-1", "addrs_maxfit", verifC10AddrFill(r, room+1, "mixed", false, false), room+1, false)
	set("addrs:maxfit-dns255-many", "addrs_maxfit", verifC10AddrFill(r, room, "", false, true), room, true)

	b.ext(fixed, false, func(e []byte) Message {
		m := mk()
		if m == nil {
			return nil
		}
		m.Features, m.Addresses, m.ExtraOpaqueData = NewRawFeatureVector(), nil, e
		return m
	})
}

func (b *verifC10WFBuilder) scids() {
	r := b.r
	// query_short_channel_ids: 32 + len(2) + encoding(1) + payload
	// reply_channel_range:     32 + 4 + 4 + 1 + len(2) + encoding(1) + payload
	fixed := 35
	if b.tg.Msg == MsgReplyChannelRange {
		fixed = 44
	}
	var chain chainhash.Hash
	mk := func(enc QueryEncoding, ids []ShortChannelID, ts Timestamps, e []byte) Message {
		copy(chain[:], r.Bytes(32))
		if b.tg.Msg == MsgQueryShortChanIDs {
			return &QueryShortChanIDs{ChainHash: chain, EncodingType: enc, ShortChanIDs: ids, ExtraData: e}
		}
		return &ReplyChannelRange{ChainHash: chain, FirstBlockHeight: uint32(r.U64()),
			NumBlocks: uint32(r.U64()), Complete: uint8(r.Intn(2)), EncodingType: enc,
			ShortChanIDs: ids, Timestamps: ts}
	}
	maxPlain := (verifC10MaxBody - fixed) / 8
	for _, n := range []int{0, 1, 2, 3, 1000, maxPlain - 1, maxPlain, maxPlain + 1} {
		cl := fmt.Sprintf("scids-plain:n-%d", n)
		switch n {
		case maxPlain:
			cl = "scids-plain:n-maxfit"
		case maxPlain + 1:
			cl = "scids-plain:n-maxfit+1-over"
		}
		b.add("scids_plain", cl, mk(EncodingSortedPlain, verifC10Scids(r, n, r.Bool(), n == 3 || n == maxPlain), nil, nil),
			fixed+8*n)
	}
	// zlib: the compressed size is computed by the harness itself
	zl := func(class string, ids []ShortChannelID) {
		b.add("scids_zlib", class, mk(EncodingSortedZlib, ids, nil, nil), fixed+verifC10ZlibLen(ids))
	}
	for _, n := range []int{0, 1, 2, 3, 1000, maxPlain + 1, 20000} {
		zl(fmt.Sprintf("scids-zlib:n-%d", n), verifC10Scids(r, n, n > 3 && r.Bool(), n == 3))
	}
	// the decoder's documented limit of 100000 ids, and the largest regular
	// list whose compressed form still fits (bisection on the harness's own
	// compressor)
	zl("scids-zlib:n-100000-regular", verifC10Scids(r, 100000, true, false))
	{
		start := r.U64n(1 << 40)
		seq := func(n int) []ShortChannelID {
			out := make([]ShortChannelID, n)
			for i := range out {
				out[i] = NewShortChanIDFromInt(start + uint64(i))
			}
			return out
		}
		lo, hi := 1000, 100000 // invariant: lo fits
		if fixed+verifC10ZlibLen(seq(hi)) <= verifC10MaxBody {
			lo = hi
		}
		for lo+1 < hi {
			mid := (lo + hi) / 2
			if fixed+verifC10ZlibLen(seq(mid)) <= verifC10MaxBody {
				lo = mid
			} else {
				hi = mid
			}
		}
		zl("scids-zlib:n-maxfit", seq(lo))
		if lo < 100000 {
			zl("scids-zlib:n-maxfit+1", seq(lo+1))
		}
	}
	if b.tg.Msg == MsgQueryShortChanIDs {
		b.ext(fixed+16, true, func(e []byte) Message {
			return mk(EncodingSortedPlain, verifC10Scids(r, 2, false, false), nil, e)
		})
		return
	}
	// reply_channel_range timestamps: one pair per id, TLV record type 1
	// with a leading encoding byte: 1 + bigsize(1+8n) + 1 + 8n
	tsRec := func(n int) int { return verifC10RecLen(1, 1+8*n) }
	maxTS := 0
	for n := 1; fixed+8*n+tsRec(n) <= verifC10MaxBody; n++ {
		maxTS = n
	}
	for _, n := range []int{1, 2, 31, 32, 1000, maxTS - 1, maxTS, maxTS + 1} {
		ts := make(Timestamps, n)
		for i := range ts {
			ts[i] = ChanUpdateTimestamps{Timestamp1: uint32(r.U64()), Timestamp2: uint32(r.U64())}
		}
		cl := fmt.Sprintf("timestamps:n-%d", n)
		switch n {
		case maxTS:
			cl = "timestamps:n-maxfit"
		case maxTS + 1:
			cl = "timestamps:n-maxfit+1-over"
		}
		b.add("timestamps", cl, mk(EncodingSortedPlain, verifC10Scids(r, n, false, false), ts, nil),
			fixed+8*n+tsRec(n))
	}
}

// pureTLV: the gossip 1.75 messages (all fields are TLV records).
func (b *verifC10WFBuilder) pureTLV() {
	r := b.r
	// extra signed fields: unknown records in the signed ranges (< 160 and
	// [1e9, 3e9)), which the decoders keep in ExtraSignedFields.
	extra := func(total int) (ExtraSignedFields, bool) {
		f := ExtraSignedFields{}
		if total == 0 {
			return f, true
		}
		t := uint64(1000000001 + 2*r.Intn(1000))
		rem := total
		if rem > 700 && r.Bool() {
			// one low signed-range record (1-byte type, unknown to all
			// four messages)
			v := r.Bytes(r.Intn(30))
			f[uint64(101+2*r.Intn(25))] = v
			rem -= 2 + len(v)
		}
		switch {
		case rem-6 >= 0 && rem-6 <= 252:
			f[t] = r.Bytes(rem - 6)
		case rem-8 >= 253:
			f[t] = r.Bytes(rem - 8)
		default:
			return nil, false
		}
		return f, true
	}
	flen := func(f ExtraSignedFields) int {
		n := 0
		for t, v := range f {
			n += verifC10RecLen(t, len(v))
		}
		return n
	}
	var fixed int
	var mkMin func() Message // all optional records absent, empty features
	switch b.tg.Msg {
	case MsgAnnounceSignatures2:
		fixed = 34 + 10 + 34
		mkMin = func() Message {
			m, ok := b.base().(*AnnounceSignatures2)
			if !ok {
				return nil
			}
			return m
		}
	case MsgChannelAnnouncement2:
		fixed = 34 + 2 + 10 + 10 + 35 + 35 + 36 + 66
		mkMin = func() Message {
			m, ok := b.base().(*ChannelAnnouncement2)
			if !ok {
				return nil
			}
			m.Features.Val = *NewRawFeatureVector()
			m.BitcoinKey1 = tlv.OptionalRecordT[tlv.TlvType12, [33]byte]{}
			m.BitcoinKey2 = tlv.OptionalRecordT[tlv.TlvType14, [33]byte]{}
			m.MerkleRootHash = tlv.OptionalRecordT[tlv.TlvType16, [32]byte]{}
			return m
		}
	case MsgNodeAnnouncement2:
		fixed = 2 + 6 + 35 + 66
		mkMin = func() Message {
			m, ok := b.base().(*NodeAnnouncement2)
			if !ok {
				return nil
			}
			m.Features.Val = *NewRawFeatureVector()
			m.Color = tlv.OptionalRecordT[tlv.TlvType1, Color]{}
			m.Alias = tlv.OptionalRecordT[tlv.TlvType3, NodeAlias2]{}
			m.IPV4Addrs = tlv.OptionalRecordT[tlv.TlvType5, IPV4Addrs]{}
			m.IPV6Addrs = tlv.OptionalRecordT[tlv.TlvType7, IPV6Addrs]{}
			m.TorV3Addrs = tlv.OptionalRecordT[tlv.TlvType9, TorV3Addrs]{}
			m.DNSHostName = tlv.OptionalRecordT[tlv.TlvType11, DNSAddress]{}
			return m
		}
	case MsgChannelUpdate2:
		// chain hash, scid, block height, htlc_maximum_msat, signature; the
		// other records are omitted by the encoder at their default values
		fixed = 34 + 10 + 6 + 3 + 66
		mkMin = func() Message {
			m, ok := b.base().(*ChannelUpdate2)
			if !ok {
				return nil
			}
			m.DisabledFlags.Val, m.CLTVExpiryDelta.Val = 0, 80
			m.HTLCMinimumMsat.Val, m.HTLCMaximumMsat.Val = 1, 2
			m.FeeBaseMsat.Val, m.FeeProportionalMillionths.Val = 1000, 1
			m.SecondPeer = tlv.OptionalRecordT[tlv.TlvType8, TrueBoolean]{}
			m.InboundFee = tlv.OptionalRecordT[tlv.TlvType55555, Fee]{}
			return m
		}
	}
	setExtra := func(m Message, f ExtraSignedFields) {
		switch x := m.(type) {
		case *AnnounceSignatures2:
			x.ExtraSignedFields = f
		case *ChannelAnnouncement2:
			x.ExtraSignedFields = f
		case *NodeAnnouncement2:
			x.ExtraSignedFields = f
		case *ChannelUpdate2:
			x.ExtraSignedFields = f
		}
	}
	room := verifC10MaxBody - fixed
	for _, n := range []int{0, 6, 7, 258, 259, 261, 1000, room - 1, room, room + 1} {
		f, ok := extra(n)
		m := mkMin()
		if !ok || m == nil {
			continue
		}
		setExtra(m, f)
		g := "ext"
		if n > 60000 {
			g = "ext_nearlimit"
		}
		b.add(g, verifC10LenClass("extra-signed-fields", n, fixed), m, fixed+flen(f))
	}
	// feature vectors (channel_announcement_2, node_announcement_2)
	for _, n := range verifC10FVLens {
		m := mkMin()
		switch x := m.(type) {
		case *ChannelAnnouncement2:
			x.Features.Val = *verifC10FV(r, n)
		case *NodeAnnouncement2:
			x.Features.Val = *verifC10FV(r, n)
		default:
			continue
		}
		setExtra(m, ExtraSignedFields{})
		b.add("features", fmt.Sprintf("features:bytes-%d", n), m, fixed-2+verifC10RecLen(0, n))
	}
	if b.tg.Msg != MsgNodeAnnouncement2 {
		return
	}
	na := func() *NodeAnnouncement2 {
		m, _ := mkMin().(*NodeAnnouncement2)
		if m != nil {
			m.ExtraSignedFields = ExtraSignedFields{}
		}
		return m
	}
	for _, n := range []int{1, 2, 31, 32} {
		if m := na(); m != nil {
			rec := tlv.ZeroRecordT[tlv.TlvType3, NodeAlias2]()
			rec.Val = NodeAlias2(verifC10Hostname(r, n))
			m.Alias = tlv.SomeRecordT(rec)
			b.add("alias", fmt.Sprintf("alias2:len-%d", n), m, fixed+verifC10RecLen(3, n))
		}
	}
	for _, hl := range []int{1, 2, 63, 64, 127, 128, 251, 252, 253, 254, 255} {
		if m := na(); m != nil {
			rec := tlv.ZeroRecordT[tlv.TlvType11, DNSAddress]()
			rec.Val = DNSAddress{Hostname: verifC10Hostname(r, hl), Port: uint16(1 + r.Intn(65535))}
			m.DNSHostName = tlv.SomeRecordT(rec)
			b.add("addrs_dns", fmt.Sprintf("na2-dns:hostlen-%d", hl), m, fixed+verifC10RecLen(11, hl+2))
		}
	}
	counts := func(entry int, typ uint64) []int {
		mx := 0
		for n := 1; fixed+verifC10RecLen(typ, entry*n) <= verifC10MaxBody; n++ {
			mx = n
		}
		return []int{0, 1, 2, 3, 252 / entry, 252/entry + 1, mx, mx + 1}
	}
	ncl := func(field string, n int, ns []int) string {
		switch n {
		case ns[len(ns)-2]:
			return field + ":n=maxfit"
		case ns[len(ns)-1]:
			return field + ":n=maxfit+1-over"
		}
		return fmt.Sprintf("%s:n=%d", field, n)
	}
	ns := counts(6, 5)
	for _, n := range ns {
		if m := na(); m != nil {
			rec := tlv.ZeroRecordT[tlv.TlvType5, IPV4Addrs]()
			rec.Val = make(IPV4Addrs, n)
			for i := range rec.Val {
				a, _ := verifC10Addr(r, "ipv4", 0)
				rec.Val[i] = a.(*net.TCPAddr)
			}
			m.IPV4Addrs = tlv.SomeRecordT(rec)
			b.add("na2_addrs", ncl("na2-ipv4", n, ns), m, fixed+verifC10RecLen(5, 6*n))
		}
	}
	ns = counts(18, 7)
	for _, n := range ns {
		if m := na(); m != nil {
			rec := tlv.ZeroRecordT[tlv.TlvType7, IPV6Addrs]()
			rec.Val = make(IPV6Addrs, n)
			for i := range rec.Val {
				a, _ := verifC10Addr(r, "ipv6", 0)
				rec.Val[i] = a.(*net.TCPAddr)
			}
			m.IPV6Addrs = tlv.SomeRecordT(rec)
			b.add("na2_addrs", ncl("na2-ipv6", n, ns), m, fixed+verifC10RecLen(7, 18*n))
		}
	}
	ns = counts(37, 9)
	for _, n := range ns {
		if m := na(); m != nil {
			rec := tlv.ZeroRecordT[tlv.TlvType9, TorV3Addrs]()
			rec.Val = make(TorV3Addrs, n)
			for i := range rec.Val {
				a, _ := verifC10Addr(r, "torv3", 0)
				rec.Val[i] = a.(*tor.OnionAddr)
			}
			m.TorV3Addrs = tlv.SomeRecordT(rec)
			b.add("na2_addrs", ncl("na2-torv3", n, ns), m, fixed+verifC10RecLen(9, 37*n))
		}
	}
}

// failure: onion failure messages; the variable-length fields of a failure
// value are the TLV tail of incorrect_or_unknown_payment_details (2 code + 8
// amount + 4 height + tail; the packet form holds 256 bytes) and the BigSize
// type of invalid_onion_payload. (The channel_update carried by the UPDATE
// failures has no free variable-length field: its extension is rebuilt from
// the typed inbound-fee record by Encode.)
func (b *verifC10WFBuilder) failure() {
	r := b.r
	if b.tg.Code == CodeInvalidOnionPayload {
		// invalid_onion_payload: BigSize type + u16 offset
		for _, v := range []uint64{0, 0xfc, 0xfd, 0xffff, 0x10000, 0xffffffff, 0x100000000, ^uint64(0)} {
			b.add("bigsize", fmt.Sprintf("payload-type:bigsize-%#x", v),
				NewInvalidOnionPayload(v, uint16(r.U64())), 2+len(verifC10BigSize(v))+2)
		}
		return
	}
	if b.tg.Code != CodeIncorrectOrUnknownPaymentDetails {
		return
	}
	for _, n := range []int{0, 2, 3, 241, 242, 243, 1000} {
		e, ok := verifC10ExtExact(r, n)
		if !ok {
			continue
		}
		f := NewFailIncorrectDetails(MilliSatoshi(r.U64()), uint32(r.U64()))
		f.extraOpaqueData = e
		cl := fmt.Sprintf("failure-tlv:len-%d", n)
		if b.tg.Kind == 2 && 14+n > verifC10MaxFailPkt {
			cl += "-over"
		}
		b.add("ext", cl, f, 14+n)
	}
}

// ------------------------------------------------------------------ oracle

func (tg verifC10Target) encodeRaw(m any) ([]byte, error) {
	var buf bytes.Buffer
	var err error
	switch tg.Kind {
	case 0:
		_, err = WriteMessage(&buf, m.(Message), 0)
	case 1:
		err = EncodeFailureMessage(&buf, m.(FailureMessage), 0)
	default:
		err = EncodeFailure(&buf, m.(FailureMessage), 0)
	}
	return buf.Bytes(), err
}

// checkWellformed runs the wellformed_roundtrip oracle on one boundary value.
//
// outcome: "ok", "refused-oversize" (expected refusal), "VIOLATION:<what>",
// "diag:<what>" or "panic".
func (h *verifC10H) checkWellformed(tg verifC10Target, wf verifC10WF) (outcome string) {
	vc := h.vc
	vc.Count("wf_values", 1)
	vc.Count("wf_"+wf.Group, 1)
	wit := map[string]any{"target": tg.Name, "class": "wf:" + wf.Class, "model_body_len": wf.Body,
		"note": "value regenerates deterministically from (seed, case)"}
	report := func(what, detail string) string {
		if wf.DiagOnly {
			vc.Count("wf_diagonly_failures", 1)
			vc.Diag("wf_diagonly_"+what, tg.Name+"|"+wf.Class+": "+detail)
			return "diag:" + what
		}
		// one report per key and shard (the driver de-duplicates by key
		// and the runtime keeps only 50 violations per shard)
		key := tg.Name + "|" + what + "|" + wf.Class
		if h.attrib != nil {
			h.attrib["wf\x00"+key]++
			if h.attrib["wf\x00"+key] > 1 {
				vc.Count("suppressed_repeat_violations", 1)
				return "VIOLATION:" + what
			}
		}
		h.viol("wellformed_roundtrip", key, detail, wit)
		return "VIOLATION:" + what
	}
	limit := 0 // 0 = the form has no size limit (bare failure message)
	switch tg.Kind {
	case 0:
		limit = verifC10MaxBody
	case 2:
		limit = verifC10MaxFailPkt
	}
	expectRefuse := wf.Body >= 0 && limit > 0 && wf.Body > limit
	var (
		b0, b1 []byte
		err    error
		m      any
	)
	// history dimension (c10hist_test.go): the fresh encoding of the value,
	// then the disturbances; the encoding below is the one made after them
	pre := h.histBefore(tg, func() ([]byte, error) { return tg.encodeRaw(wf.V) })
	defer h.histFinish(pre, tg, "wf:"+wf.Class, wf.DiagOnly)
	if vc.Guard("no_panic", tg.Name+"|encode-wf|"+wf.Class, wit, func() {
		b0, err = tg.encodeRaw(wf.V)
	}) {
		return "panic"
	}
	h.histAfter(pre, tg, "wf:"+wf.Class, b0, err != nil, wf.DiagOnly)
	if err != nil {
		if expectRefuse {
			// "encodes to at most 65535 bytes": the only acceptable
			// reason for a refusal
			vc.Count("wf_encode_refused_oversize", 1)
			vc.Sig(verifJoin(tg.Name, "wf", wf.Class, "refused"))
			return "refused-oversize"
		}
		return report("encode-refused-within-limits", fmt.Sprintf(
			"the encoder refuses a well-formed value whose body is %d bytes by the harness's own "+
				"computation (limit %d): %v", wf.Body, limit, err))
	}
	wit["len"] = len(b0)
	wit["bytes"] = verifHex(b0[:min(len(b0), 4096)])
	if vc.Only >= 0 {
		vc.emit(map[string]any{"t": "case", "i": h.i, "input": wit})
	}
	body := len(b0) - 2 // without the message type
	switch tg.Kind {
	case 1:
		body = len(b0) // the model of a failure message includes its code
	case 2:
		body = -1 // the packet is always 2 + 256 + 2 bytes
	}
	vc.Count("wellformed_roundtrip_evals", 1)
	if len(b0) > 65535 {
		return report("encoded-over-65535", fmt.Sprintf("encoded %d bytes", len(b0)))
	}
	if expectRefuse || (wf.Body >= 0 && body >= 0 && body != wf.Body) {
		vc.Count("wf_size_model_mismatch", 1)
		vc.Diag("wf_size_model_mismatch", fmt.Sprintf("%s|%s: harness model %d, encoder %d (packet: %v)",
			tg.Name, wf.Class, wf.Body, body, tg.Kind == 2))
	}
	if vc.Guard("no_panic", tg.Name+"|decode-wf|"+wf.Class, wit, func() {
		m, err = tg.decode(b0)
	}) {
		return "panic"
	}
	if err != nil {
		return report("own-encoding-rejected", fmt.Sprintf(
			"the value encodes (%d bytes) but the message's own decoder rejects these bytes: %v",
			len(b0), err))
	}
	h.histMid(pre, tg, wit) // other decodes before the decoded value is judged
	if vc.Guard("no_panic", tg.Name+"|reencode-wf|"+wf.Class, wit, func() {
		b1, err = tg.encodeRaw(m)
	}) {
		return "panic"
	}
	if err != nil || !bytes.Equal(b0, b1) {
		d := 0
		for d < len(b0) && d < len(b1) && b0[d] == b1[d] {
			d++
		}
		wit["reencoded"] = verifHex(b1[:min(len(b1), 4096)])
		return report("reencode-differs", fmt.Sprintf(
			"v->b0->m->b1 with b0 != b1 (err=%v) len(b0)=%d len(b1)=%d first difference at %d",
			err, len(b0), len(b1), d))
	}
	if ok, p := verifC10Eq(reflect.ValueOf(wf.V), reflect.ValueOf(m), "", 0); !ok {
		return report("value-differs", fmt.Sprintf("decoded value differs from the generated one at %s", p))
	}
	vc.Count("wf_roundtrip_ok", 1)
	if len(b0) >= 65534 {
		vc.Count("wf_roundtrip_ok_at_limit", 1)
	}
	vc.Sig(verifJoin(tg.Name, "wf", wf.Class, "ok"))
	return "ok"
}

