package lnwire

// C10 monitor (lnwire part): value-level oracles.
//
//  1. reencode_decodes_equal (decode side). For an accepted input b the chain
//     b -> m1 -> b1 -> m2 is judged not only by b1 == b2 but also by m1 == m2
//     ["... or yields a message whose re-encoding decodes to an equal
//     message"]. m1 is compared through an INDEPENDENT second decode of b (the
//     real Encode methods overwrite ExtraData of their receiver, so the encoded
//     object itself is no longer the decoded value). Equality is the
//     normalising structural equality verifC10Diff below.
//
//  2. field-domain generator (well-formed side). A generated well-formed
//     value of every message type / onion failure is walked by reflection and
//     ONE scalar leaf at a time (bool, (u)int8..64 incl. named enum-like
//     types, elements of fixed-size byte arrays; also inside tlv.RecordT /
//     OptionalRecordT / fn.Option / BigSizeT wrappers and unexported fields) is
//     set to boundary values (0,1,2,3, single bits, max, max-1, PRNG). Oracle
//     wellformed_roundtrip ["Every well-formed message value encodes to at most
//     65535 bytes and decodes back to an equal value ..."], keys
//     "<target>|encoded-over-65535|fd:<leaf>", "...|reencode-differs|fd:<leaf>",
//     "...|value-differs|fd:<leaf>". The decoded value is compared with a
//     PRISTINE copy of the value (regenerated, never handed to Encode).
//     An encoder refusal is not a violation; an encoder panic and a decoder
//     rejection of the encoder's own output are diagnostics (whether such a
//     value is "well-formed" is not decidable from the statement); a decoder
//     panic is no_panic.
//
// ExtraOpaqueData fields are compared record-wise (reference walker): a
// record that is missing after the (re-)encode and whose type the real encoder
// never emits for that message is the known class KF-C10-6 and is reported as
// unknown_records_preserved "<msg>|unknown-records-dropped-on-reencode"; an
// unknown record that is altered is a violation; differences confined to
// record types the encoder emits itself are the raw copy of typed fields
// (judged through the typed fields) and are diagnostics.
//
// Normalisations of the equality / narrowings of the generator are listed in
// selftest/mutants/C10/RESULTS.md ("field-domain generator: normalisations").

import (
	"bytes"
	"fmt"
	"net"
	"reflect"
	"regexp"
	"sort"
	"strings"
	"unsafe"
)

// ------------------------------------------------------------------ normalising equality

var verifC10ExtType = reflect.TypeOf(ExtraOpaqueData{})

type verifC10ExtDiff struct {
	Path  string
	Owner reflect.Type // struct that holds the ExtraOpaqueData field
	A, B  []byte
}

type verifC10DiffRes struct {
	Paths []string // typed differences (first few)
	Ext   []verifC10ExtDiff
}

func (d *verifC10DiffRes) add(p string) {
	if len(d.Paths) < 6 {
		d.Paths = append(d.Paths, p)
	}
}

// verifC10Diff collects the differences between a and b: nil == empty for
// slices and maps, 4- and 16-byte forms of one IPv4 address are equal,
// ExtraOpaqueData fields are set aside for the record-wise comparison. It reads
// unexported fields.
func verifC10Diff(a, b reflect.Value, owner reflect.Type, path string, depth int, res *verifC10DiffRes) {
	if depth > 64 || len(res.Paths) >= 6 {
		return
	}
	if !a.IsValid() || !b.IsValid() {
		if a.IsValid() != b.IsValid() {
			res.add(path + ":validity")
		}
		return
	}
	if a.Type() != b.Type() {
		res.add(path + ":type " + a.Type().String() + "!=" + b.Type().String())
		return
	}
	switch a.Kind() {
	case reflect.Ptr, reflect.Interface:
		if a.IsNil() || b.IsNil() {
			if a.IsNil() != b.IsNil() {
				res.add(path + ":nil")
			}
			return
		}
		verifC10Diff(a.Elem(), b.Elem(), owner, path, depth+1, res)
	case reflect.Slice:
		if a.Type() == verifC10ExtType {
			if !bytes.Equal(a.Bytes(), b.Bytes()) {
				res.Ext = append(res.Ext, verifC10ExtDiff{Path: path, Owner: owner,
					A: append([]byte{}, a.Bytes()...), B: append([]byte{}, b.Bytes()...)})
			}
			return
		}
		if a.Len() == 0 && b.Len() == 0 {
			return
		}
		if a.Type() == reflect.TypeOf(net.IP{}) && net.IP(a.Bytes()).Equal(net.IP(b.Bytes())) {
			return
		}
		if a.Len() != b.Len() {
			res.add(fmt.Sprintf("%s:len %d!=%d", path, a.Len(), b.Len()))
			return
		}
		if a.Type().Elem().Kind() == reflect.Uint8 {
			if !bytes.Equal(a.Bytes(), b.Bytes()) {
				res.add(path + ":bytes")
			}
			return
		}
		for i := 0; i < a.Len(); i++ {
			verifC10Diff(a.Index(i), b.Index(i), owner, fmt.Sprintf("%s[%d]", path, i), depth+1, res)
		}
	case reflect.Array:
		for i := 0; i < a.Len(); i++ {
			verifC10Diff(a.Index(i), b.Index(i), owner, fmt.Sprintf("%s[%d]", path, i), depth+1, res)
		}
	case reflect.Map:
		if a.Len() == 0 && b.Len() == 0 {
			return
		}
		if a.Len() != b.Len() {
			res.add(fmt.Sprintf("%s:maplen %d!=%d", path, a.Len(), b.Len()))
			return
		}
		for _, k := range a.MapKeys() {
			bv := b.MapIndex(k)
			if !bv.IsValid() {
				res.add(fmt.Sprintf("%s:key %v missing", path, k))
				return
			}
			verifC10Diff(a.MapIndex(k), bv, owner, fmt.Sprintf("%s[%v]", path, k), depth+1, res)
		}
	case reflect.Struct:
		for i := 0; i < a.NumField(); i++ {
			verifC10Diff(a.Field(i), b.Field(i), a.Type(), path+"."+a.Type().Field(i).Name, depth+1, res)
		}
	case reflect.Func:
		if a.IsNil() != b.IsNil() {
			res.add(path + ":func")
		}
	case reflect.Bool:
		if a.Bool() != b.Bool() {
			res.add(path)
		}
	case reflect.Int, reflect.Int8, reflect.Int16, reflect.Int32, reflect.Int64:
		if a.Int() != b.Int() {
			res.add(path)
		}
	case reflect.Uint, reflect.Uint8, reflect.Uint16, reflect.Uint32, reflect.Uint64, reflect.Uintptr:
		if a.Uint() != b.Uint() {
			res.add(path)
		}
	case reflect.Float32, reflect.Float64:
		if a.Float() != b.Float() {
			res.add(path)
		}
	case reflect.String:
		if a.String() != b.String() {
			res.add(path)
		}
	}
}

var verifC10IdxRe = regexp.MustCompile(`\[[^\]]*\]`)

// verifC10NormPath removes slice / map indices from a difference path so that
// it can serve as a stable key.
func verifC10NormPath(p string) string {
	p = verifC10IdxRe.ReplaceAllString(p, "[]")
	if i := strings.Index(p, ":"); i >= 0 {
		// ":len 3!=2" -> ":len"
		q := p[i:]
		if j := strings.Index(q, " "); j >= 0 {
			q = q[:j]
		}
		p = p[:i] + q
	}
	return p
}

// ------------------------------------------------------------------ extension records the encoder emits

// verifC10KnownExtVals: per message type, one sample value of every extension
// record type the REAL encoder has emitted for generated valid values (typed
// fields of the message). Filled together with verifC10KnownExtTypes.
var verifC10KnownExtVals = map[MessageType]map[uint64][]byte{}

// verifC10OwnerMsg maps the Go struct type of a message to its message type.
var verifC10OwnerMsg = map[reflect.Type]MessageType{}

// verifC10NoteKnownExt records the extension record types of the valid
// encoding b0 (emitted by the real encoder).
func verifC10NoteKnownExt(mt MessageType, b0 []byte) {
	off := verifC10ExtBoundary(b0)
	if off < 0 {
		return
	}
	recs, _, _ := verifC10WalkTLV(b0[off:])
	if verifC10KnownExtTypes[mt] == nil {
		verifC10KnownExtTypes[mt] = map[uint64]bool{}
	}
	if verifC10KnownExtVals[mt] == nil {
		verifC10KnownExtVals[mt] = map[uint64][]byte{}
	}
	e := b0[off:]
	for _, rc := range recs {
		verifC10KnownExtTypes[mt][rc.T] = true
		if _, ok := verifC10KnownExtVals[mt][rc.T]; !ok {
			verifC10KnownExtVals[mt][rc.T] = append([]byte{}, e[rc.ValOff:rc.End]...)
		}
	}
}

var verifC10PrepassDone bool

// verifC10PrepassExtVals is the state of verifC10KnownExtVals at the end of the
// prepass; the ext-insknown mutants draw from it only, so that the inputs of a
// case do not depend on the cases run before it (replay).
var verifC10PrepassExtVals = map[MessageType]map[uint64][]byte{}

// verifC10Prepass fills the known-record tables from a fixed set of generated
// values of every message type, so that the classification of an extension
// difference does not depend on which cases a shard (or a replay) has run.
func verifC10Prepass(tgs []verifC10Target) {
	if verifC10PrepassDone {
		return
	}
	verifC10PrepassDone = true
	for _, tg := range tgs {
		if tg.Kind != 0 {
			continue
		}
		if m, err := makeEmptyMessage(tg.Msg); err == nil {
			if t := reflect.TypeOf(m); t.Kind() == reflect.Ptr {
				if _, dup := verifC10OwnerMsg[t.Elem()]; !dup {
					verifC10OwnerMsg[t.Elem()] = tg.Msg
				}
			}
		}
		for k := 0; k < 32; k++ {
			v, err := verifC10RapidMsg(tg.Msg, 7000+k)
			if err != nil {
				break
			}
			func() {
				defer func() { recover() }()
				if b0, _, err := tg.encode(v); err == nil {
					verifC10NoteKnownExt(tg.Msg, b0)
				}
			}()
		}
	}
	for mt, m := range verifC10KnownExtVals {
		verifC10PrepassExtVals[mt] = map[uint64][]byte{}
		for t, v := range m {
			verifC10PrepassExtVals[mt][t] = v
		}
	}
}

// verifC10DroppingMsgs: the message types recorded in KF-C10-6 whose Encode
// rebuilds ExtraData from the typed records it knows (EncodeMessageExtraData /
// PackRecords), measured on the pinned tree. ONLY for these a lost unknown
// record is reported under the known-finding key; for every other owner of an
// ExtraOpaqueData field any difference of the bytes is a fresh verdict.
var verifC10DroppingMsgs = map[MessageType]bool{
	MsgOpenChannel: true, MsgAcceptChannel: true, MsgFundingCreated: true, MsgFundingSigned: true,
	MsgChannelReady: true, MsgClosingSigned: true, MsgClosingComplete: true, MsgClosingSig: true,
	MsgRevokeAndAck: true, MsgChannelReestablish: true, MsgChannelUpdate: true,
	MsgQueryChannelRange: true, MsgReplyChannelRange: true, MsgGossipTimestampRange: true,
}

// verifC10ExtRecDiff compares two extension byte strings record-wise (reference
// walker): record types only in a, only in b, in both with different values.
// walkable is false when either side is no canonical TLV stream.
func verifC10ExtRecDiff(a, b []byte) (aOnly, bOnly, differ []uint64, walkable bool) {
	ra, oka, _ := verifC10WalkTLV(a)
	rb, okb, _ := verifC10WalkTLV(b)
	if !oka || !okb {
		return nil, nil, nil, false
	}
	ma, mb := map[uint64][]byte{}, map[uint64][]byte{}
	for _, rc := range ra {
		ma[rc.T] = a[rc.ValOff:rc.End]
	}
	for _, rc := range rb {
		mb[rc.T] = b[rc.ValOff:rc.End]
	}
	for t, va := range ma {
		if vb, ok := mb[t]; !ok {
			aOnly = append(aOnly, t)
		} else if !bytes.Equal(va, vb) {
			differ = append(differ, t)
		}
	}
	for t := range mb {
		if _, ok := ma[t]; !ok {
			bOnly = append(bOnly, t)
		}
	}
	for _, l := range [][]uint64{aOnly, bOnly, differ} {
		sort.Slice(l, func(i, j int) bool { return l[i] < l[j] })
	}
	return aOnly, bOnly, differ, true
}

// judgeDiff turns a comparison result into reports. oracle/keyOf name the
// verdict for typed differences. It returns true when nothing verdict-bearing
// was found.
//
// ExtraOpaqueData differences:
//   - owner is one of verifC10DroppingMsgs (its Encode rewrites ExtraData from
//     the typed records, so the after-side holds typed records only): records
//     missing afterwards whose type the encoder never emits for that message
//     are the known class KF-C10-6 -> unknown_records_preserved
//     "<owner msg>|unknown-records-dropped-on-reencode"; every other record
//     difference is the raw copy of a typed field (judged through the typed
//     field itself) -> diagnostic.
//   - any other owner keeps the bytes verbatim: every difference is a verdict
//     of the calling oracle, key "<...>|<path>:extension-differs".
func (h *verifC10H) judgeDiff(oracle string, keyOf func(what string) string,
	res *verifC10DiffRes, ctx string, wit map[string]any) bool {

	vc := h.vc
	clean := true
	if len(res.Paths) > 0 {
		clean = false
		h.viol(oracle, keyOf(verifC10NormPath(res.Paths[0])), fmt.Sprintf(
			"%s: values differ at %s", ctx, strings.Join(res.Paths, ", ")), wit)
	}
	for _, ed := range res.Ext {
		ownerName, dropping := "?", false
		var known map[uint64]bool
		if ed.Owner != nil {
			ownerName = ed.Owner.Name()
			if mt, ok := verifC10OwnerMsg[ed.Owner]; ok {
				ownerName = fmt.Sprintf("msg%d/*lnwire.%s", mt, ed.Owner.Name())
				dropping = verifC10DroppingMsgs[mt]
				known = verifC10KnownExtTypes[mt]
			}
		}
		aOnly, bOnly, differ, walkable := verifC10ExtRecDiff(ed.A, ed.B)
		det := fmt.Sprintf("%s%s: record types only before %v, only after %v, changed %v (walkable=%v): before=%s after=%s",
			ownerName, ed.Path, aOnly, bOnly, differ, walkable,
			verifHex(ed.A[:min(len(ed.A), 256)]), verifHex(ed.B[:min(len(ed.B), 256)]))
		if !dropping {
			clean = false
			vc.Count("extdiff:verbatim-owner-differs", 1)
			h.viol(oracle, keyOf(verifC10NormPath(ed.Path)+":extension-differs"), ctx+": "+det, wit)
			continue
		}
		var lost []uint64
		for _, t := range aOnly {
			if !known[t] {
				lost = append(lost, t)
			}
		}
		if len(lost) > 0 {
			clean = false
			vc.Count("extdiff:unknown-dropped", 1)
			w2 := map[string]any{}
			for k, v := range wit {
				w2[k] = v
			}
			w2["extension"] = verifHex(ed.A[:min(len(ed.A), 1024)])
			w2["reencoded_extension"] = verifHex(ed.B[:min(len(ed.B), 1024)])
			h.viol("unknown_records_preserved", ownerName+"|unknown-records-dropped-on-reencode",
				fmt.Sprintf("%s: unknown records %v lost: %s", ctx, lost, det), w2)
			continue
		}
		vc.Count("extdiff:typed-copy-only", 1)
		vc.Diag("extdiff_typed_copy_only", ctx+": "+det)
	}
	return clean
}

// ------------------------------------------------------------------ field-domain generator

type verifC10Leaf struct {
	Path  string
	V     reflect.Value // settable
	Width int           // bits carried by the wire (0 = the Go type's width)
}

// verifC10FDSkip: leaves that are not free fields of a well-formed value
// ("<struct type>.<field>"), see RESULTS.md.
var verifC10FDSkip = map[string]string{
	"Sig.sigType":              "not carried by the wire format (set by the decoder per message)",
	"Custom.Type":              "the message-type discriminator; custom types are separate targets",
	"QueryShortChanIDs.noSort": "test-only switch of the encoder, not carried by the wire format",
	"ReplyChannelRange.noSort": "test-only switch of the encoder, not carried by the wire format",
	"Color.A":                  "node_announcement_2 colour is RGB on the wire, alpha is not carried",
}

// verifC10FDWidth: leaves whose wire representation is narrower than the Go
// type; the generator stays inside the wire domain.
var verifC10FDWidth = map[string]int{
	"ShortChannelID.BlockHeight": 24, // BOLT-7 short_channel_id: 3 + 3 + 2 bytes
	"ShortChannelID.TxIndex":     24,
}

func verifC10Settable(f reflect.Value) reflect.Value {
	if f.CanSet() {
		return f
	}
	if !f.CanAddr() {
		return reflect.Value{}
	}
	return reflect.NewAt(f.Type(), unsafe.Pointer(f.UnsafeAddr())).Elem()
}

func verifC10OwnPkg(t reflect.Type) bool {
	p := t.PkgPath()
	return strings.HasSuffix(p, "lightningnetwork/lnd/lnwire") || strings.HasSuffix(p, "lightningnetwork/lnd/tlv") ||
		strings.Contains(p, "lightningnetwork/lnd/fn")
}

// verifC10Leaves enumerates the scalar leaves of v in a deterministic order.
func verifC10Leaves(v reflect.Value, path string, depth int, out *[]verifC10Leaf) {
	if depth > 24 || !v.IsValid() {
		return
	}
	switch v.Kind() {
	case reflect.Ptr:
		if v.IsNil() {
			return
		}
		verifC10Leaves(v.Elem(), path, depth+1, out)
	case reflect.Interface:
		if v.IsNil() {
			return
		}
		if e := v.Elem(); e.Kind() == reflect.Ptr && !e.IsNil() {
			verifC10Leaves(e.Elem(), path, depth+1, out)
		}
	case reflect.Struct:
		t := v.Type()
		if !verifC10OwnPkg(t) {
			return // foreign structure (public key, net.TCPAddr, ...)
		}
		if strings.HasPrefix(t.Name(), "Option[") && t.NumField() == 2 {
			// fn.Option{isSome, some}: presence is structure, not a scalar
			is := v.Field(0)
			if is.Kind() == reflect.Bool && is.Bool() {
				verifC10Leaves(verifC10Settable(v.Field(1)), path, depth+1, out)
			}
			return
		}
		name := t.Name()
		if i := strings.Index(name, "["); i >= 0 {
			name = name[:i]
		}
		for i := 0; i < v.NumField(); i++ {
			fn := t.Field(i).Name
			if _, skip := verifC10FDSkip[name+"."+fn]; skip {
				continue
			}
			f := verifC10Settable(v.Field(i))
			if !f.IsValid() {
				continue
			}
			n0 := len(*out)
			verifC10Leaves(f, path+"."+fn, depth+1, out)
			if w, ok := verifC10FDWidth[name+"."+fn]; ok && len(*out) == n0+1 {
				(*out)[n0].Width = w
			}
		}
	case reflect.Slice:
		if v.Type().Elem().Kind() == reflect.Uint8 || v.Len() == 0 {
			return // variable-length byte content: c10wf_test.go
		}
		idx := []int{0}
		if v.Len() > 1 {
			idx = append(idx, v.Len()-1)
		}
		for _, i := range idx {
			verifC10Leaves(v.Index(i), fmt.Sprintf("%s[%d]", path, i), depth+1, out)
		}
	case reflect.Array:
		n := v.Len()
		if n == 0 {
			return
		}
		var idx []int
		if n <= 4 || v.Type().Elem().Kind() != reflect.Uint8 {
			for i := 0; i < n && i < 4; i++ {
				idx = append(idx, i)
			}
		} else {
			idx = []int{0, int(verifHashStr(path) % uint64(n)), n - 1}
			sort.Ints(idx)
		}
		last := -1
		for _, i := range idx {
			if i == last {
				continue
			}
			last = i
			verifC10Leaves(v.Index(i), fmt.Sprintf("%s[%d]", path, i), depth+1, out)
		}
	case reflect.Bool, reflect.Int, reflect.Int8, reflect.Int16, reflect.Int32, reflect.Int64,
		reflect.Uint, reflect.Uint8, reflect.Uint16, reflect.Uint32, reflect.Uint64:

		if v.CanSet() {
			*out = append(*out, verifC10Leaf{Path: path, V: v})
		}
	}
}

// verifC10FDVals returns the boundary bit patterns for a leaf of the given
// width (inArray: element of a byte array, reduced list).
func verifC10FDVals(fr *verifRng, kind reflect.Kind, width int, inArray, thorough bool) []uint64 {
	if kind == reflect.Bool {
		return []uint64{0, 1}
	}
	max := ^uint64(0) >> uint(64-width)
	if inArray {
		return []uint64{0, 1, 0x80, 0xff, fr.U64() & max}
	}
	vals := []uint64{0, 1, 2, 3, max, max - 1, max >> 1, (max >> 1) + 1}
	if width <= 16 {
		for i := 0; i < width; i++ {
			vals = append(vals, 1<<uint(i))
		}
	} else {
		n := 8
		if thorough {
			n = 16
		}
		for k := 0; k < n; k++ {
			vals = append(vals, 1<<uint(fr.Intn(width)))
		}
	}
	for k := 0; k < 2; k++ {
		vals = append(vals, (fr.U64()>>uint(fr.Intn(width)))&max)
	}
	seen := map[uint64]bool{}
	out := vals[:0]
	for _, x := range vals {
		if !seen[x] {
			seen[x] = true
			out = append(out, x)
		}
	}
	return out
}

func verifC10LeafWidth(v reflect.Value) int {
	switch v.Kind() {
	case reflect.Bool:
		return 1
	case reflect.Int, reflect.Uint:
		return 64
	}
	return v.Type().Bits()
}

func verifC10LeafSet(v reflect.Value, bits uint64) {
	switch v.Kind() {
	case reflect.Bool:
		v.SetBool(bits != 0)
	case reflect.Int, reflect.Int8, reflect.Int16, reflect.Int32, reflect.Int64:
		w := uint(verifC10LeafWidth(v))
		v.SetInt(int64(bits<<(64-w)) >> (64 - w)) // sign-extend
	default:
		v.SetUint(bits)
	}
}

func verifC10LeafString(v reflect.Value) string {
	switch v.Kind() {
	case reflect.Bool:
		return fmt.Sprint(v.Bool())
	case reflect.Int, reflect.Int8, reflect.Int16, reflect.Int32, reflect.Int64:
		return fmt.Sprint(v.Int())
	}
	return fmt.Sprintf("%#x", v.Uint())
}

// verifC10FDCanon enforces the cross-field constraints of a well-formed value
// that the wire format cannot express otherwise (the harness's own code, the
// real codec is not consulted); see RESULTS.md.
func verifC10FDCanon(v any) {
	upd := func(u *ChannelUpdate1) {
		// BOLT-7: htlc_maximum_msat is present iff message_flags bit 0
		if u != nil && u.MessageFlags&1 == 0 {
			u.HtlcMaximumMsat = 0
		}
	}
	sortIDs := func(ids []ShortChannelID, ts Timestamps) {
		// BOLT-7: encoded_short_ids are in ascending order; a timestamp pair
		// belongs to its id
		idx := make([]int, len(ids))
		for i := range idx {
			idx[i] = i
		}
		sort.SliceStable(idx, func(i, j int) bool { return ids[idx[i]].ToUint64() < ids[idx[j]].ToUint64() })
		ids2 := make([]ShortChannelID, len(ids))
		for i, k := range idx {
			ids2[i] = ids[k]
		}
		if len(ts) == len(ids) {
			ts2 := make(Timestamps, len(ts))
			for i, k := range idx {
				ts2[i] = ts[k]
			}
			copy(ts, ts2)
		}
		copy(ids, ids2)
	}
	switch x := v.(type) {
	case *ChannelUpdate1:
		upd(x)
	case *QueryShortChanIDs:
		if !x.noSort {
			sortIDs(x.ShortChanIDs, nil)
		}
	case *ReplyChannelRange:
		if !x.noSort {
			sortIDs(x.ShortChanIDs, x.Timestamps)
		}
	case *DynCommit:
		// one channel_id on the wire for both embedded parts
		x.DynAck.ChanID = x.DynPropose.ChanID
	case *FailTemporaryChannelFailure:
		upd(x.Update)
	case *FailAmountBelowMinimum:
		upd(&x.Update)
	case *FailFeeInsufficient:
		upd(&x.Update)
	case *FailIncorrectCltvExpiry:
		upd(&x.Update)
	case *FailExpiryTooSoon:
		upd(&x.Update)
	case *FailChannelDisabled:
		upd(&x.Update)
	}
}

// runFieldDomain is the field-domain workload of one visit of target tg.
func (h *verifC10H) runFieldDomain(fr *verifRng, tg verifC10Target) {
	vc := h.vc
	var gen func() any
	if tg.Kind == 0 {
		seed := int(fr.U64() >> 2)
		gen = func() any {
			m, err := verifC10RapidMsg(tg.Msg, seed)
			if err != nil {
				return nil
			}
			return m
		}
	} else {
		base := *fr.Fork("failure")
		gen = func() any {
			rr := base
			f, err := verifC10GenFailure(&rr, tg.Code)
			if err != nil {
				return nil
			}
			return f
		}
	}
	root := func(v any) reflect.Value { return reflect.ValueOf(v) }
	ref0 := gen()
	if ref0 == nil {
		vc.Diag("generator_failed", tg.Name+": field-domain base value")
		return
	}
	// the unmodified value against its pristine copy
	if enc := gen(); enc != nil {
		idRef := gen()
		verifC10FDCanon(enc)
		verifC10FDCanon(idRef)
		h.checkFD(tg, "identity", "", enc, idRef)
	}
	var leaves0 []verifC10Leaf
	verifC10Leaves(root(ref0), "", 0, &leaves0)
	vc.Count("fd_leaves_seen", int64(len(leaves0)))
	if len(leaves0) == 0 {
		return
	}
	maxLeaves := 20
	if vc.Thorough() {
		maxLeaves = 32
	}
	pick := make([]int, len(leaves0))
	for i := range pick {
		pick[i] = i
	}
	if len(pick) > maxLeaves {
		for i := 0; i < maxLeaves; i++ {
			j := i + fr.Intn(len(pick)-i)
			pick[i], pick[j] = pick[j], pick[i]
		}
		pick = pick[:maxLeaves]
		sort.Ints(pick)
	}
	for _, li := range pick {
		leaf0 := leaves0[li]
		inArray := strings.HasSuffix(leaf0.Path, "]") && leaf0.V.Kind() == reflect.Uint8
		width := verifC10LeafWidth(leaf0.V)
		if leaf0.Width > 0 {
			width = leaf0.Width
		}
		vals := verifC10FDVals(fr, leaf0.V.Kind(), width, inArray, vc.Thorough())
		vc.Count("fd_leaves", 1)
		for _, bits := range vals {
			// two fresh equal values: enc goes to the real encoder, ref is
			// never encoded (verifC10FDCanon may reorder / rewrite both, so
			// neither is reused for the next value)
			enc, ref := gen(), gen()
			if enc == nil || ref == nil {
				return
			}
			var le, lr []verifC10Leaf
			verifC10Leaves(root(enc), "", 0, &le)
			verifC10Leaves(root(ref), "", 0, &lr)
			if len(le) != len(leaves0) || len(lr) != len(leaves0) || lr[li].Path != leaf0.Path ||
				le[li].Path != leaf0.Path {

				vc.Diag("fd_enumeration_unstable", tg.Name)
				return
			}
			verifC10LeafSet(lr[li].V, bits)
			verifC10LeafSet(le[li].V, bits)
			val := verifC10LeafString(lr[li].V)
			verifC10FDCanon(enc)
			verifC10FDCanon(ref)
			h.checkFD(tg, verifC10NormPath(leaf0.Path), val, enc, ref)
		}
	}
}

// checkFD runs wellformed_roundtrip on one field-domain value: enc is handed
// to the real encoder, ref is an equal value that is never encoded.
func (h *verifC10H) checkFD(tg verifC10Target, leaf, val string, enc, ref any) {
	vc := h.vc
	vc.Count("fd_values", 1)
	class := "fd:" + leaf
	wit := map[string]any{"target": tg.Name, "class": class, "leaf_value": val,
		"note": "value regenerates deterministically from (seed, case)"}
	keyOf := func(what string) string { return tg.Name + "|" + what + "|" + class }
	report := func(what, detail string) {
		key := keyOf(what)
		if h.attrib != nil {
			h.attrib["fd\x00"+key]++
			if h.attrib["fd\x00"+key] > 1 {
				vc.Count("suppressed_repeat_violations", 1)
				return
			}
		}
		h.viol("wellformed_roundtrip", key, detail, wit)
	}
	var (
		b0, b1  []byte
		err     error
		tooLong bool
		m       any
	)
	panicked := func(fn func()) (p any) {
		defer func() { p = recover() }()
		fn()
		return nil
	}
	// history dimension (c10hist_test.go): the fresh encoding of the value,
	// then the disturbances; the encoding below is the one made after them
	// (the unmodified value and one field-domain value in three)
	var pre *verifC10HistPre
	if h.hr != nil && (leaf == "identity" || h.hr.Chance(1, 3)) {
		pre = h.histBefore(tg, func() ([]byte, error) {
			b, _, e := tg.encode(enc)
			return b, e
		})
	}
	defer h.histFinish(pre, tg, class, false)
	if p := panicked(func() { b0, tooLong, err = tg.encode(enc) }); p != nil {
		// the statement bounds the DECODERS; an encoder panic on an unusual
		// value is recorded, not judged
		vc.Count("fd_encode_panic", 1)
		vc.Diag("fd_encode_panic", fmt.Sprintf("%s %s=%s: %v", tg.Name, leaf, val, p))
		return
	}
	h.histAfter(pre, tg, class, b0, err != nil || tooLong, false)
	if tooLong {
		vc.Count("failpkt_over_256", 1)
		return
	}
	if err != nil {
		vc.Count("fd_encode_refused", 1)
		vc.Sig(verifJoin(tg.Name, "fd", leaf, "refused"))
		return
	}
	wit["len"] = len(b0)
	wit["bytes"] = verifHex(b0[:min(len(b0), 2048)])
	if vc.Only >= 0 {
		vc.emit(map[string]any{"t": "case", "i": h.i, "input": wit})
	}
	vc.Count("fd_roundtrip_evals", 1)
	if len(b0) > 65535 {
		report("encoded-over-65535", fmt.Sprintf("%s=%s: encoded %d bytes", leaf, val, len(b0)))
		return
	}
	if tg.Kind == 0 && leaf == "identity" {
		verifC10NoteKnownExt(tg.Msg, b0)
	}
	if vc.Guard("no_panic", tg.Name+"|decode-fd|"+leaf, wit, func() {
		m, err = tg.decode(b0)
	}) {
		return
	}
	vc.Count("decodes", 1)
	if err != nil {
		vc.Count("rejected", 1)
		vc.Count("fd_own_encoding_rejected", 1)
		vc.Count("fd_own_encoding_rejected:"+tg.Name+"|"+leaf, 1)
		vc.Diag("fd_own_encoding_rejected", fmt.Sprintf("%s %s=%s: %v", tg.Name, leaf, val, err))
		vc.Sig(verifJoin(tg.Name, "fd", leaf, "rejected"))
		return
	}
	vc.Count("accepted", 1)
	h.histMid(pre, tg, wit) // other decodes before the decoded value is judged
	// compare before the decoded value is handed to Encode (which may
	// rewrite its ExtraData)
	var res verifC10DiffRes
	verifC10Diff(reflect.ValueOf(ref), reflect.ValueOf(m), nil, "", 0, &res)
	if p := panicked(func() { b1, _, err = tg.encode(m) }); p != nil {
		h.viol("no_panic", tg.Name+"|reencode-fd|"+leaf, fmt.Sprintf("panic: %v", p), wit)
		return
	}
	ctx := fmt.Sprintf("field-domain value %s=%s", leaf, val)
	typed := len(res.Paths) > 0
	if typed {
		// "decodes back to an equal value": reported through the per-key
		// throttle of this oracle
		report("value-differs", fmt.Sprintf("%s: the decoded value differs from the encoded one at %s",
			ctx, strings.Join(res.Paths, ", ")))
		res.Paths = nil
	} else if err != nil || !bytes.Equal(b0, b1) {
		// equal values, different encodings (same clause as c10wf_test.go)
		d := 0
		for d < len(b0) && d < len(b1) && b0[d] == b1[d] {
			d++
		}
		wit["reencoded"] = verifHex(b1[:min(len(b1), 2048)])
		report("reencode-differs", fmt.Sprintf(
			"%s=%s: v->b0->m->b1 with b0 != b1 (err=%v) len(b0)=%d len(b1)=%d first difference at %d",
			leaf, val, err, len(b0), len(b1), d))
		return
	}
	clean := h.judgeDiff("wellformed_roundtrip", func(what string) string {
		return keyOf("value-differs:" + what)
	}, &res, ctx, wit)
	if !typed {
		// every field but the (separately judged) extension bytes came back
		vc.Count("fd_typed_fields_equal", 1)
		vc.Sig(verifJoin(tg.Name, "fd", leaf, "ok"))
		if clean {
			vc.Count("fd_roundtrip_ok", 1)
		}
	}
}

// ------------------------------------------------------------------ extension value-domain mutants

// verifC10ExtValueMutants derives extensions in which ONE record carries a
// boundary value: (a) an existing record of 1..8 value bytes, (b) a record type
// the encoder emits for this message but which is absent from e (the encoder
// elides it at its default), inserted at its sorted position. The framing
// stays canonical. fr must not be the case stream (the caller forks a copy).
func verifC10ExtValueMutants(fr *verifRng, mt MessageType, e []byte, recs []verifC10ExtRec) (out [][]byte, classes []string) {
	be := func(bits uint64, n int) []byte {
		v := make([]byte, n)
		for i := n - 1; i >= 0; i-- {
			v[i] = byte(bits)
			bits >>= 8
		}
		return v
	}
	dom := func(n int) [][]byte {
		var vs [][]byte
		for _, bits := range verifC10FDVals(fr, reflect.Uint64, 8*n, false, false) {
			vs = append(vs, be(bits, n))
		}
		// one-byte records get the whole list (every single bit); wider
		// ones a sample of 12
		if n > 1 && len(vs) > 12 {
			for i := 0; i < 12; i++ {
				j := i + fr.Intn(len(vs)-i)
				vs[i], vs[j] = vs[j], vs[i]
			}
			vs = vs[:12]
		}
		return vs
	}
	present := map[uint64]bool{}
	for _, rc := range recs {
		present[rc.T] = true
		n := rc.End - rc.ValOff
		if n < 1 || n > 8 {
			continue
		}
		for _, v := range dom(n) {
			if bytes.Equal(v, e[rc.ValOff:rc.End]) {
				continue
			}
			x := append([]byte{}, e[:rc.ValOff]...)
			x = append(x, v...)
			x = append(x, e[rc.End:]...)
			out = append(out, x)
			classes = append(classes, "ext-valdom")
		}
	}
	var absent []uint64
	for t := range verifC10PrepassExtVals[mt] {
		if !present[t] {
			absent = append(absent, t)
		}
	}
	sort.Slice(absent, func(i, j int) bool { return absent[i] < absent[j] })
	if len(absent) > 4 {
		for i := 0; i < 4; i++ {
			j := i + fr.Intn(len(absent)-i)
			absent[i], absent[j] = absent[j], absent[i]
		}
		absent = absent[:4]
	}
	for _, t := range absent {
		sample := verifC10PrepassExtVals[mt][t]
		vals := [][]byte{sample}
		if n := len(sample); n >= 1 && n <= 8 {
			vals = append(vals, dom(n)...)
		}
		pos := len(e)
		for _, rc := range recs {
			if rc.T > t {
				pos = rc.Off
				break
			}
		}
		for _, v := range vals {
			x := append([]byte{}, e[:pos]...)
			x = append(x, verifC10Rec(t, v)...)
			x = append(x, e[pos:]...)
			out = append(out, x)
			classes = append(classes, "ext-insknown")
		}
	}
	return out, classes
}
