package routing

// C19 monitor: every route the pathfinder returns (findPath + newRoute composed
// exactly as ChannelRouter.FindRoute does, and a slice through the real
// paymentSession.RequestRoute) is re-judged hop by hop against the harness's
// OWN description of the generated channel graph, with exact math/big
// arithmetic. A "no route" answer is never judged.

import (
	"context"
	"encoding/hex"
	"fmt"
	"math"
	"math/big"
	"strings"
	"testing"

	"github.com/btcsuite/btcd/btcec/v2"
	"github.com/btcsuite/btcd/btcutil/v2"
	sphinx "github.com/lightningnetwork/lightning-onion"
	"github.com/lightningnetwork/lnd/fn/v2"
	graphdb "github.com/lightningnetwork/lnd/graph/db"
	"github.com/lightningnetwork/lnd/htlcswitch"
	"github.com/lightningnetwork/lnd/lntypes"
	"github.com/lightningnetwork/lnd/lnwire"
	paymentsdb "github.com/lightningnetwork/lnd/payments/db"
	"github.com/lightningnetwork/lnd/record"
	"github.com/lightningnetwork/lnd/routing/route"
	"github.com/lightningnetwork/lnd/zpay32"
)

// ---------------------------------------------------------------------------
// Generated graph description (the oracle's ground truth).
// ---------------------------------------------------------------------------

// verifC19Pol is the policy one channel end announces: the outbound
// parameters apply to HTLCs this end forwards OUT over the channel, the
// inbound fee to HTLCs ARRIVING at this end over the channel.
type verifC19Pol struct {
	Exists   bool
	Disabled bool
	Delta    uint16
	Min      uint64
	Max      uint64 // 0 = no max_htlc announced
	Base     uint64
	Rate     uint64
	InBase   int32
	InRate   int32
}

type verifC19Chan struct {
	ID     uint64
	A, B   int
	CapSat uint64
	PA, PB verifC19Pol
}

type verifC19Graph struct {
	N     int
	Ref   uint64
	Cache bool
	Chans []verifC19Chan
}

// verifC19Hint is one private hop hint From -> To (node references: >=0 graph
// node index, <0 private node number -k).
type verifC19Hint struct {
	From, To int
	ChanID   uint64
	Base     uint32
	Rate     uint32
	Delta    uint16
}

// verifC19Blind describes one blinded payment path.
type verifC19Blind struct {
	Intro     int
	NumHops   int // blinded hops including the introduction node
	KeyBase   int
	CipherLen []int
	Base      uint32
	Rate      uint32
	Delta     uint16
	Min, Max  uint64
}

type verifC19Query struct {
	Mode        string // "findroute" | "session"
	Kind        string // "plain" | "hints" | "blinded"
	Self        int    // -100 = a vertex that is not part of the graph
	Source      int
	Target      int // graph index, or <0 private node
	Amt         uint64
	Height      uint32
	FinalDelta  uint16
	FeeLimit    uint64
	CltvLimit   uint32 // RestrictParams level (excluding final delta)
	OutChans    []uint64
	LastHop     int // -1000 none
	IgnNodes    []int
	IgnPairs    [][2]int
	BwMode      int // 0 real bandwidthManager over mock links, 1 mock hints, 2 none
	Bw          map[uint64]uint64
	Inelig      []uint64
	BwMissing   []uint64
	ProbMode    int
	ProbSalt    uint64
	MinProb     float64
	AttemptCost uint64
	AttemptPPM  int64
	TimePref    float64
	RecLen      int
	MetaLen     int
	PayAddr     bool
	Hints       [][]verifC19Hint
	Blind       []verifC19Blind
}

const verifC19NoLastHop = -1000
const verifC19AbsentSelf = -100

// verifC19Edge is one directed edge of the oracle's table.
type verifC19Edge struct {
	ChanID   uint64
	From, To route.Vertex
	Kind     string // graph | hint | blindagg | blindinner
	Disabled bool
	CapMsat  uint64 // 0 = unknown
	Min, Max uint64
	HasMax   bool
	Base     uint64
	Rate     uint64
	Delta    uint16
	// inbound fee the To node charges for arrivals over this channel.
	ToInBase, ToInRate int32
	Parallel           int // number of graph channels between the same pair
	LowestParallel     bool
	BlindIdx           int
}

type verifC19EdgeKey struct {
	ChanID   uint64
	From, To route.Vertex
}

type verifC19HopOut struct {
	Pub      string
	ChanID   uint64
	Amt      uint64
	TimeLock uint32
	Blinded  bool
}

type verifC19RouteOut struct {
	TotalAmount   uint64
	TotalTimeLock uint32
	Source        string
	Hops          []verifC19HopOut
}

type verifC19Witness struct {
	Graph     verifC19Graph
	Nodes     []string
	Query     verifC19Query
	FeeLimit  uint64
	CltvLimit uint32
	Tight     string
	Route     verifC19RouteOut
}

// ---------------------------------------------------------------------------
// Generators
// ---------------------------------------------------------------------------

func verifC19PickU(r *verifRng, v ...uint64) uint64 { return v[r.Intn(len(v))] }

func verifC19GenPol(r *verifRng, ref, capMsat uint64) verifC19Pol {
	var p verifC19Pol
	p.Exists = !r.Chance(1, 14)
	p.Disabled = r.Chance(1, 9)
	switch r.Intn(8) {
	case 0:
		p.Delta = 0
	case 1:
		p.Delta = 1
	case 2:
		p.Delta = 18
	case 3:
		p.Delta = 40
	case 4:
		p.Delta = 144
	case 5:
		p.Delta = uint16(r.Intn(2017))
	default:
		p.Delta = uint16(r.Intn(100))
	}
	// min htlc: mostly low, a third near the reference amount.
	switch r.Intn(12) {
	case 0:
		p.Min = ref
	case 1:
		p.Min = ref + 1
	case 2:
		if ref > 0 {
			p.Min = ref - 1
		}
	case 3:
		p.Min = ref + r.U64n(ref/50+3)
	case 4:
		p.Min = r.U64n(ref + 1)
	case 5:
		p.Min = 1000
	case 6:
		p.Min = 1
	default:
		p.Min = 0
	}
	switch r.Intn(12) {
	case 0, 1:
		p.Max = 0
	case 2, 3, 4:
		p.Max = capMsat
	case 5:
		p.Max = ref
	case 6:
		p.Max = ref + 1
	case 7:
		if ref > 1 {
			p.Max = ref - 1
		}
	case 8, 9:
		p.Max = ref + r.U64n(ref/20+5)
	default:
		p.Max = ref + r.U64n(capMsat+1)
	}
	switch r.Intn(6) {
	case 0, 1:
		p.Base = 0
	case 2:
		p.Base = 1
	case 3:
		p.Base = 1000
	case 4:
		p.Base = r.U64n(5000)
	default:
		p.Base = r.U64n(100000)
	}
	switch r.Intn(8) {
	case 0, 1:
		p.Rate = 0
	case 2:
		p.Rate = 1
	case 3:
		p.Rate = 100
	case 4, 5:
		p.Rate = r.U64n(3000)
	case 6:
		p.Rate = r.U64n(100000)
	default:
		if r.Chance(1, 4) {
			p.Rate = 1000000
		} else {
			p.Rate = r.U64n(20000)
		}
	}
	switch r.Intn(9) {
	case 0, 1, 2, 3:
		// no inbound fee
	case 4:
		p.InBase = -int32(r.Intn(1000))
		p.InRate = -int32(r.Intn(2000))
	case 5:
		// negative, far larger than any outbound fee (clamping).
		p.InBase = -int32(5000 + r.Intn(200000))
		p.InRate = -int32(r.Intn(300000))
	case 6:
		p.InBase = int32(r.Intn(5000))
		p.InRate = int32(r.Intn(50000))
	case 7:
		p.InBase = int32(r.Intn(4001)) - 2000
		p.InRate = int32(r.Intn(20001)) - 10000
	default:
		// just around the outbound fee of a typical policy.
		p.InBase = -int32(r.Intn(1100))
		p.InRate = -int32(r.Intn(3100))
	}
	return p
}

func verifC19GenGraph(r *verifRng) verifC19Graph {
	var g verifC19Graph
	g.N = 3 + r.Intn(5)
	m := 3 + r.Intn(10)
	if m < g.N-1 {
		m = g.N - 1
	}
	g.Cache = r.Bool()
	g.Ref = verifC19PickU(r, 1000, 20000, 100000, 1000000, 25000000,
		400000000)
	if r.Bool() {
		g.Ref += r.U64n(g.Ref/2 + 1)
	}
	refSat := (g.Ref + 999) / 1000
	for k := 0; k < m; k++ {
		var a, b int
		switch {
		case k < g.N-1:
			a, b = k+1, r.Intn(k+1)
		case r.Chance(2, 5):
			c := g.Chans[r.Intn(len(g.Chans))]
			a, b = c.A, c.B
		default:
			a = r.Intn(g.N)
			b = r.Intn(g.N - 1)
			if b >= a {
				b++
			}
		}
		if r.Bool() {
			a, b = b, a
		}
		var capSat uint64
		switch r.Intn(8) {
		case 0:
			capSat = refSat
		case 1:
			capSat = refSat + 1
		case 2:
			capSat = refSat + refSat/50 + 1
		case 3:
			capSat = 2 * refSat
		case 4:
			capSat = 10*refSat + r.U64n(1000)
		case 5:
			capSat = 16777215
		default:
			capSat = refSat + r.U64n(100*refSat)
		}
		if capSat == 0 {
			capSat = 1
		}
		c := verifC19Chan{ID: uint64(101 + k), A: a, B: b, CapSat: capSat}
		c.PA = verifC19GenPol(r, g.Ref, capSat*1000)
		c.PB = verifC19GenPol(r, g.Ref, capSat*1000)
		g.Chans = append(g.Chans, c)
	}
	return g
}

func (g *verifC19Graph) verifChansOf(n int) []verifC19Chan {
	var out []verifC19Chan
	for _, c := range g.Chans {
		if c.A == n || c.B == n {
			out = append(out, c)
		}
	}
	return out
}

func verifC19GenQuery(r *verifRng, g *verifC19Graph) verifC19Query {
	var q verifC19Query
	q.LastHop = verifC19NoLastHop
	q.Mode = "findroute"
	if r.Chance(1, 6) {
		q.Mode = "session"
	}
	q.Kind = "plain"
	switch r.Intn(10) {
	case 0:
		q.Kind = "hints"
	case 1:
		q.Kind = "blinded"
		// RequestRoute pads the final delta but newRoute takes the
		// blinded set's own final delta: keep blinded queries on the
		// FindRoute composition.
		q.Mode = "findroute"
	}
	q.Source = r.Intn(g.N)
	q.Self = q.Source
	if q.Mode == "findroute" && r.Chance(1, 8) {
		q.Self = verifC19AbsentSelf
	}
	q.Target = r.Intn(g.N - 1)
	if q.Target >= q.Source {
		q.Target++
	}
	if q.Kind == "plain" && q.Self == q.Source && r.Chance(1, 8) {
		q.Target = q.Source // self-payment over a cycle
	}

	// amount: biased to every boundary the graph offers.
	cands := []uint64{g.Ref, g.Ref, g.Ref, g.Ref + 1, g.Ref - 1}
	for _, c := range g.Chans {
		cands = append(cands, c.CapSat*1000, c.CapSat*1000-1,
			c.CapSat*1000+1)
		for _, p := range []verifC19Pol{c.PA, c.PB} {
			cands = append(cands, p.Min, p.Min+1, p.Max, p.Max+1)
			if p.Min > 0 {
				cands = append(cands, p.Min-1)
			}
			if p.Max > 0 {
				cands = append(cands, p.Max-1)
			}
		}
	}
	if r.Chance(3, 5) {
		q.Amt = cands[r.Intn(5)]
	} else {
		q.Amt = cands[r.Intn(len(cands))]
	}
	if r.Chance(1, 12) {
		q.Amt = 1 + r.U64n(g.Ref+1)
	}
	if q.Amt == 0 || q.Amt > 1<<50 {
		q.Amt = g.Ref
	}

	q.Height = 1 + uint32(r.Intn(900000))
	q.FinalDelta = uint16(verifC19PickU(r, 1, 9, 18, 40, 80, 144))
	q.FeeLimit = uint64(math.MaxUint32)
	switch r.Intn(8) {
	case 0:
		q.FeeLimit = q.Amt
	case 1:
		q.FeeLimit = r.U64n(q.Amt/10 + 2000)
	case 2:
		q.FeeLimit = 0
	}
	q.CltvLimit = math.MaxUint32
	switch r.Intn(8) {
	case 0:
		q.CltvLimit = 2016
	case 1:
		q.CltvLimit = uint32(r.Intn(400))
	case 2:
		q.CltvLimit = 1008
	}

	// bandwidth of the local channels.
	q.Bw = map[uint64]uint64{}
	q.BwMode = 0
	switch r.Intn(10) {
	case 0, 1:
		q.BwMode = 1
	case 2:
		q.BwMode = 2
	}
	if q.Self == verifC19AbsentSelf {
		q.BwMode = 2
	}
	local := g.verifChansOf(q.Source)
	for _, c := range local {
		capM := c.CapSat * 1000
		var bw uint64
		switch r.Intn(10) {
		case 0, 1, 2:
			bw = capM
		case 3:
			bw = q.Amt
		case 4:
			bw = q.Amt - 1
		case 5:
			bw = q.Amt + 1
		case 6:
			bw = q.Amt + r.U64n(q.Amt/20+10)
		case 7:
			bw = 0
		default:
			bw = r.U64n(capM + 1)
		}
		q.Bw[c.ID] = bw
		own := c.PA
		if c.B == q.Source {
			own = c.PB
		}
		// A locally disabled direction normally goes together with an
		// ineligible link (that is why lnd trusts the link state and
		// not the flag); a small slice stays inconsistent (diagnostic).
		if own.Disabled && !r.Chance(1, 6) || r.Chance(1, 15) {
			q.Inelig = append(q.Inelig, c.ID)
		}
		if q.BwMode == 1 && r.Chance(1, 5) {
			q.BwMissing = append(q.BwMissing, c.ID)
		}
	}

	// restrictions
	if len(local) > 0 && r.Chance(1, 5) {
		n := 1 + r.Intn(2)
		for k := 0; k < n; k++ {
			q.OutChans = append(q.OutChans,
				local[r.Intn(len(local))].ID)
		}
		if r.Chance(1, 6) {
			q.OutChans = append(q.OutChans,
				g.Chans[r.Intn(len(g.Chans))].ID)
		}
	}
	if q.Kind != "blinded" && r.Chance(1, 6) {
		q.LastHop = r.Intn(g.N)
		if q.Target >= 0 && r.Chance(2, 3) {
			nb := g.verifChansOf(q.Target)
			if len(nb) > 0 {
				c := nb[r.Intn(len(nb))]
				q.LastHop = c.A + c.B - q.Target
			}
		}
	}
	if r.Chance(1, 6) {
		n := 1 + r.Intn(2)
		for k := 0; k < n; k++ {
			x := r.Intn(g.N)
			if x != q.Source && x != q.Target {
				q.IgnNodes = append(q.IgnNodes, x)
			}
		}
	}
	if r.Chance(1, 6) {
		n := 1 + r.Intn(3)
		for k := 0; k < n; k++ {
			c := g.Chans[r.Intn(len(g.Chans))]
			if r.Bool() {
				q.IgnPairs = append(q.IgnPairs, [2]int{c.A, c.B})
			} else {
				q.IgnPairs = append(q.IgnPairs, [2]int{c.B, c.A})
			}
		}
	}

	q.ProbMode = r.Intn(4)
	q.ProbSalt = r.U64()
	q.MinProb = []float64{0, 0, 0.01, 0.3}[r.Intn(4)]
	q.AttemptCost = verifC19PickU(r, 0, 0, 100000, 1000)
	q.AttemptPPM = int64(verifC19PickU(r, 0, 0, 1000))
	q.TimePref = []float64{0, 0, 0, -1, 1, 0.5}[r.Intn(6)]

	// destination payload extras, sized so that the 1300 byte onion limit
	// binds at different hop counts.
	if r.Chance(1, 4) {
		k := r.Intn(6)
		size := 1300 - 75 - 58*k + r.Intn(31) - 15
		if r.Bool() {
			q.RecLen = size
		} else {
			q.MetaLen = size
		}
	} else if r.Chance(1, 6) {
		q.RecLen = r.Intn(200)
		q.MetaLen = r.Intn(200)
	}
	q.PayAddr = r.Chance(1, 3)
	if q.Kind == "blinded" {
		q.PayAddr = false
		q.MetaLen = 0
		q.RecLen = 0
	}

	switch q.Kind {
	case "hints":
		nh := 1 + r.Intn(2)
		privTarget := r.Bool()
		if privTarget {
			q.Target = -1
		}
		for h := 0; h < nh; h++ {
			from := r.Intn(g.N)
			if from == q.Target {
				from = (from + 1) % g.N
			}
			mk := func(f, t int, id uint64) verifC19Hint {
				return verifC19Hint{
					From: f, To: t, ChanID: id,
					Base:  uint32(verifC19PickU(r, 0, 1, 1000, r.U64n(5000))),
					Rate:  uint32(verifC19PickU(r, 0, 1, 100, r.U64n(20000))),
					Delta: uint16(verifC19PickU(r, 0, 1, 18, 40, 144)),
				}
			}
			if r.Chance(1, 3) {
				// two chained hints through a private node.
				mid := -(2 + h)
				q.Hints = append(q.Hints, []verifC19Hint{
					mk(from, mid, uint64(900+2*h)),
					mk(mid, q.Target, uint64(901+2*h)),
				})
			} else {
				q.Hints = append(q.Hints, []verifC19Hint{
					mk(from, q.Target, uint64(900+2*h)),
				})
			}
		}
	case "blinded":
		q.Target = -1
		np := 1 + r.Intn(2)
		for b := 0; b < np; b++ {
			intro := r.Intn(g.N - 1)
			if intro >= q.Source {
				intro++
			}
			bl := verifC19Blind{
				Intro:   intro,
				NumHops: 1 + r.Intn(3),
				KeyBase: 50 + 10*b,
				Base:    uint32(verifC19PickU(r, 0, 1, 1000, r.U64n(20000))),
				Rate:    uint32(verifC19PickU(r, 0, 1, 100, r.U64n(20000))),
				Delta:   uint16(verifC19PickU(r, 1, 18, 40, 144, 400)),
			}
			if np == 2 {
				// a set with an intro-only path collapses to that
				// path; keep multi-path sets multi-hop.
				bl.NumHops = 2 + r.Intn(2)
			}
			switch r.Intn(6) {
			case 0:
				bl.Min = q.Amt
			case 1:
				bl.Min = q.Amt + 1
			case 2:
				bl.Min = q.Amt - 1
			}
			bl.Max = q.Amt + r.U64n(q.Amt+1)
			switch r.Intn(6) {
			case 0:
				bl.Max = q.Amt
			case 1:
				bl.Max = q.Amt - 1
			case 2:
				bl.Max = q.Amt + 1
			}
			if bl.Max < bl.Min {
				bl.Max = bl.Min
			}
			for k := 0; k < bl.NumHops; k++ {
				n := 20 + r.Intn(80)
				if r.Chance(1, 5) {
					n = 200 + r.Intn(300)
				}
				bl.CipherLen = append(bl.CipherLen, n)
			}
			q.Blind = append(q.Blind, bl)
		}
		// blinded payments carry their final delta inside the path.
		q.FinalDelta = 0
	}
	return q
}

// ---------------------------------------------------------------------------
// Oracle arithmetic (exact, math/big).
// ---------------------------------------------------------------------------

func verifC19Big(u uint64) *big.Int { return new(big.Int).SetUint64(u) }

// verifC19NodeFeeOK evaluates the C09 forwarding rule for one node: in >= out
// and in-out >= outFee + inFee(out+outFee), where a negative sum is floored
// at zero by the first clause.
func verifC19NodeFeeOK(in, out uint64, base, rate uint64, inBase,
	inRate int32) (bool, string) {

	million := big.NewInt(1000000)
	bin, bout := verifC19Big(in), verifC19Big(out)
	if bin.Cmp(bout) < 0 {
		return false, fmt.Sprintf("in %d < out %d", in, out)
	}
	outFee := new(big.Int).Mul(bout, verifC19Big(rate))
	outFee.Quo(outFee, million)
	outFee.Add(outFee, verifC19Big(base))
	ir := int64(inRate)
	if ir > 10000000 {
		ir = 10000000
	}
	if ir < -10000000 {
		ir = -10000000
	}
	basis := new(big.Int).Add(bout, outFee)
	prop := new(big.Int).Mul(basis, big.NewInt(ir))
	prop.Quo(prop, million) // truncates toward zero
	inFee := new(big.Int).Add(prop, big.NewInt(int64(inBase)))
	expected := new(big.Int).Add(inFee, outFee)
	actual := new(big.Int).Sub(bin, bout)
	if actual.Cmp(expected) < 0 {
		return false, fmt.Sprintf("fee left %s < demanded %s "+
			"(outFee %s, inFee %s)", actual, expected, outFee, inFee)
	}
	return true, ""
}

// ---------------------------------------------------------------------------
// Fixture
// ---------------------------------------------------------------------------

type verifC19Fixture struct {
	g     *verifC19Graph
	inst  *testGraphInstance
	verts []route.Vertex
	edges map[verifC19EdgeKey]*verifC19Edge
}

func verifC19PrivKey(n int) (*btcec.PrivateKey, *btcec.PublicKey) {
	var b [32]byte
	b[0] = 0x7f
	b[30] = byte(n >> 8)
	b[31] = byte(n)
	return btcec.PrivKeyFromBytes(b[:])
}

func (f *verifC19Fixture) vertexOf(ref int) route.Vertex {
	if ref >= 0 {
		return f.verts[ref]
	}
	if ref == verifC19AbsentSelf {
		_, pub := verifC19PrivKey(999)
		return route.NewVertex(pub)
	}
	_, pub := verifC19PrivKey(-ref)
	return route.NewVertex(pub)
}

func verifC19TestPol(p verifC19Pol, feats *lnwire.FeatureVector) *testChannelPolicy {
	if !p.Exists {
		return nil
	}
	return &testChannelPolicy{
		Expiry:             p.Delta,
		MinHTLC:            lnwire.MilliSatoshi(p.Min),
		MaxHTLC:            lnwire.MilliSatoshi(p.Max),
		FeeBaseMsat:        lnwire.MilliSatoshi(p.Base),
		FeeRate:            lnwire.MilliSatoshi(p.Rate),
		InboundFeeBaseMsat: int64(p.InBase),
		InboundFeeRate:     int64(p.InRate),
		Disabled:           p.Disabled,
		Features:           feats,
	}
}

func verifC19Build(t *testing.T, g *verifC19Graph) *verifC19Fixture {
	feats := lnwire.NewFeatureVector(
		lnwire.NewRawFeatureVector(
			lnwire.TLVOnionPayloadRequired,
			lnwire.PaymentAddrOptional,
		), lnwire.Features,
	)
	var tcs []*testChannel
	for _, c := range g.Chans {
		tcs = append(tcs, &testChannel{
			Capacity:  btcutil.Amount(c.CapSat),
			ChannelID: c.ID,
			Node1: &testChannelEnd{
				Alias:             fmt.Sprintf("n%d", c.A),
				testChannelPolicy: verifC19TestPol(c.PA, feats),
			},
			Node2: &testChannelEnd{
				Alias:             fmt.Sprintf("n%d", c.B),
				testChannelPolicy: verifC19TestPol(c.PB, feats),
			},
		})
	}
	inst, err := createTestGraphFromChannels(
		t, g.Cache, tcs, "n0", lnwire.TLVOnionPayloadRequired,
		lnwire.PaymentAddrOptional,
	)
	if err != nil {
		t.Fatalf("verif C19: graph creation failed: %v", err)
	}
	f := &verifC19Fixture{g: g, inst: inst,
		edges: map[verifC19EdgeKey]*verifC19Edge{}}
	for k := 0; k < g.N; k++ {
		v, ok := inst.aliasMap[fmt.Sprintf("n%d", k)]
		if !ok {
			t.Fatalf("verif C19: node n%d missing", k)
		}
		f.verts = append(f.verts, v)
	}
	// oracle edge table from MY description.
	type pair struct{ a, b int }
	par := map[pair][]uint64{}
	for _, c := range g.Chans {
		a, b := c.A, c.B
		if a > b {
			a, b = b, a
		}
		par[pair{a, b}] = append(par[pair{a, b}], c.ID)
	}
	for _, c := range g.Chans {
		a, b := c.A, c.B
		if a > b {
			a, b = b, a
		}
		ids := par[pair{a, b}]
		lowest := true
		for _, id := range ids {
			if id < c.ID {
				lowest = false
			}
		}
		add := func(from, to int, out, toPol verifC19Pol) {
			if !out.Exists {
				return
			}
			e := &verifC19Edge{
				ChanID: c.ID, From: f.verts[from], To: f.verts[to],
				Kind: "graph", Disabled: out.Disabled,
				CapMsat: c.CapSat * 1000, Min: out.Min,
				Max: out.Max, HasMax: out.Max != 0,
				Base: out.Base, Rate: out.Rate, Delta: out.Delta,
				Parallel: len(ids), LowestParallel: lowest,
			}
			if toPol.Exists {
				e.ToInBase, e.ToInRate = toPol.InBase, toPol.InRate
			}
			f.edges[verifC19EdgeKey{c.ID, e.From, e.To}] = e
		}
		add(c.A, c.B, c.PA, c.PB)
		add(c.B, c.A, c.PB, c.PA)
	}
	return f
}

// verifC19MC is the MissionControlQuerier handed to the real payment session.
type verifC19MC struct {
	prob func(route.Vertex, route.Vertex, lnwire.MilliSatoshi,
		btcutil.Amount) float64
}

func (m *verifC19MC) ReportPaymentFail(uint64, *route.Route, *int,
	lnwire.FailureMessage) (*paymentsdb.FailureReason, error) {

	return nil, nil
}

func (m *verifC19MC) ReportPaymentSuccess(uint64, *route.Route) error {
	return nil
}

func (m *verifC19MC) GetProbability(a, b route.Vertex,
	amt lnwire.MilliSatoshi, c btcutil.Amount) float64 {

	return m.prob(a, b, amt, c)
}

// verifC19Prepared holds everything derived from a query that lnd needs.
type verifC19Prepared struct {
	self, source, target route.Vertex
	hintEdges            map[route.Vertex][]AdditionalEdge
	routeHints           [][]zpay32.HopHint
	blindSet             *BlindedPaymentPathSet
	blindPubs            [][]route.Vertex // per path: intro, b1, b2..
	destFeatures         *lnwire.FeatureVector
	records              record.CustomSet
	metadata             []byte
	payAddr              fn.Option[[32]byte]
	finalDelta           uint16
	prob                 func(route.Vertex, route.Vertex,
		lnwire.MilliSatoshi, btcutil.Amount) float64
	lastHop  *route.Vertex
	ignNodes map[route.Vertex]bool
	ignPairs map[[2]route.Vertex]bool
	links    map[lnwire.ShortChannelID]htlcswitch.ChannelLink
	mockBw   *mockBandwidthHints
	// edges of this query: graph edges plus hint/blinded edges.
	edges map[verifC19EdgeKey]*verifC19Edge
}

func (f *verifC19Fixture) prepare(q *verifC19Query) (*verifC19Prepared, error) {
	p := &verifC19Prepared{
		self:     f.vertexOf(q.Self),
		source:   f.vertexOf(q.Source),
		target:   f.vertexOf(q.Target),
		ignNodes: map[route.Vertex]bool{},
		ignPairs: map[[2]route.Vertex]bool{},
		edges:    map[verifC19EdgeKey]*verifC19Edge{},
	}
	for k, e := range f.edges {
		p.edges[k] = e
	}
	p.finalDelta = q.FinalDelta
	if q.LastHop != verifC19NoLastHop {
		v := f.vertexOf(q.LastHop)
		p.lastHop = &v
	}
	for _, n := range q.IgnNodes {
		p.ignNodes[f.verts[n]] = true
	}
	for _, pr := range q.IgnPairs {
		p.ignPairs[[2]route.Vertex{f.verts[pr[0]], f.verts[pr[1]]}] = true
	}
	salt := q.ProbSalt
	mode := q.ProbMode
	// The ignore sets are folded into the probability source exactly as
	// routerrpc does for QueryRoutes.
	p.prob = func(from, to route.Vertex, _ lnwire.MilliSatoshi,
		_ btcutil.Amount) float64 {

		if p.ignNodes[from] {
			return 0
		}
		if p.ignPairs[[2]route.Vertex{from, to}] {
			return 0
		}
		if mode == 0 {
			return 1
		}
		h := verifMix(salt ^ verifHashStr(string(from[:])+string(to[:])))
		switch mode {
		case 1:
			return []float64{1, 0.95, 0.6, 0.3}[h%4]
		case 2:
			return []float64{1, 0.9, 0.5, 0.05, 0.6}[h%5]
		default:
			return []float64{0.6, 0.6, 0.95, 0.2}[h%4]
		}
	}

	// bandwidth
	switch q.BwMode {
	case 0:
		p.links = map[lnwire.ShortChannelID]htlcswitch.ChannelLink{}
		inel := map[uint64]bool{}
		for _, id := range q.Inelig {
			inel[id] = true
		}
		for id, bw := range q.Bw {
			p.links[lnwire.NewShortChanIDFromInt(id)] = &mockLink{
				bandwidth:  lnwire.MilliSatoshi(bw),
				ineligible: inel[id],
			}
		}
	case 1:
		p.mockBw = &mockBandwidthHints{
			hints: map[uint64]lnwire.MilliSatoshi{},
		}
		for id, bw := range verifC19Hints(q) {
			p.mockBw.hints[id] = lnwire.MilliSatoshi(bw)
		}
	default:
		p.mockBw = &mockBandwidthHints{}
	}

	if q.RecLen > 0 {
		p.records = record.CustomSet{
			record.CustomTypeStart + 5: make([]byte, q.RecLen),
		}
	}
	if q.MetaLen > 0 {
		p.metadata = make([]byte, q.MetaLen)
	}
	tlvPay := lnwire.NewFeatureVector(
		lnwire.NewRawFeatureVector(
			lnwire.TLVOnionPayloadRequired,
			lnwire.PaymentAddrOptional,
		), lnwire.Features,
	)
	if q.PayAddr {
		p.payAddr = fn.Some([32]byte{7, 7, 7})
		p.destFeatures = tlvPay
	}

	switch q.Kind {
	case "hints":
		p.destFeatures = tlvPay
		for _, chain := range q.Hints {
			var hh []zpay32.HopHint
			for _, h := range chain {
				fv := f.vertexOf(h.From)
				pub, err := btcec.ParsePubKey(fv[:])
				if err != nil {
					return nil, err
				}
				hh = append(hh, zpay32.HopHint{
					NodeID:                    pub,
					ChannelID:                 h.ChanID,
					FeeBaseMSat:               h.Base,
					FeeProportionalMillionths: h.Rate,
					CLTVExpiryDelta:           h.Delta,
				})
				e := &verifC19Edge{
					ChanID: h.ChanID, From: fv,
					To: f.vertexOf(h.To), Kind: "hint",
					Base: uint64(h.Base), Rate: uint64(h.Rate),
					Delta: h.Delta,
				}
				p.edges[verifC19EdgeKey{h.ChanID, e.From, e.To}] = e
			}
			p.routeHints = append(p.routeHints, hh)
		}
		edges, err := RouteHintsToEdges(p.routeHints, p.target)
		if err != nil {
			return nil, err
		}
		p.hintEdges = edges

	case "blinded":
		var pays []*BlindedPayment
		for bi, b := range q.Blind {
			_, bp := verifC19PrivKey(b.KeyBase + 9)
			introV := f.verts[b.Intro]
			introPub, err := btcec.ParsePubKey(introV[:])
			if err != nil {
				return nil, err
			}
			path := &sphinx.BlindedPath{
				IntroductionPoint: introPub,
				BlindingPoint:     bp,
			}
			pubs := []route.Vertex{introV}
			for k := 0; k < b.NumHops; k++ {
				_, hp := verifC19PrivKey(b.KeyBase + k)
				ct := make([]byte, b.CipherLen[k])
				for x := range ct {
					ct[x] = byte(x + k)
				}
				path.BlindedHops = append(path.BlindedHops,
					&sphinx.BlindedHopInfo{
						BlindedNodePub: hp,
						CipherText:     ct,
					})
				if k > 0 {
					pubs = append(pubs, route.NewVertex(hp))
				}
			}
			pay := &BlindedPayment{
				BlindedPath:         path,
				BaseFee:             b.Base,
				ProportionalFeeRate: b.Rate,
				CltvExpiryDelta:     b.Delta,
				HtlcMinimum:         b.Min,
				HtlcMaximum:         b.Max,
			}
			if err := pay.Validate(); err != nil {
				return nil, err
			}
			pays = append(pays, pay)
			p.blindPubs = append(p.blindPubs, pubs)
			for k := 0; k+1 < len(pubs); k++ {
				e := &verifC19Edge{From: pubs[k], To: pubs[k+1],
					Kind: "blindinner", BlindIdx: bi}
				if k == 0 {
					e.Kind = "blindagg"
					e.Base, e.Rate = uint64(b.Base), uint64(b.Rate)
					e.Delta = b.Delta
					e.Min, e.Max, e.HasMax = b.Min, b.Max, true
				}
				p.edges[verifC19EdgeKey{0, e.From, e.To}] = e
			}
		}
		set, err := NewBlindedPaymentPathSet(pays)
		if err != nil {
			return nil, err
		}
		p.blindSet = set
		p.target = route.NewVertex(set.TargetPubKey())
		p.finalDelta = set.FinalCLTVDelta()
		if fv := set.Features(); fv != nil {
			p.destFeatures = fv.Clone()
		}
	}
	return p, nil
}

// verifC19Hints returns the bandwidth hint per local channel that the oracle
// holds lnd to (the harness's own configuration): ineligible links report 0,
// missing entries are absent.
func verifC19Hints(q *verifC19Query) map[uint64]uint64 {
	out := map[uint64]uint64{}
	if q.BwMode == 2 {
		return out
	}
	for id, bw := range q.Bw {
		out[id] = bw
	}
	for _, id := range q.Inelig {
		if _, ok := out[id]; ok {
			out[id] = 0
		}
	}
	if q.BwMode == 1 {
		for _, id := range q.BwMissing {
			delete(out, id)
		}
	}
	return out
}

// run executes one pathfinding request with the given limits.
func (f *verifC19Fixture) run(q *verifC19Query, p *verifC19Prepared,
	feeLimit uint64, cltvLimit uint32) (*route.Route, error) {

	cfg := PathFindingConfig{
		AttemptCost:    lnwire.MilliSatoshi(q.AttemptCost),
		AttemptCostPPM: q.AttemptPPM,
		MinProbability: q.MinProb,
	}
	lastHop := p.lastHop
	getHints := func(g Graph) (bandwidthHints, error) {
		if p.mockBw != nil {
			return p.mockBw, nil
		}
		return newBandwidthManager(
			g, p.self,
			func(id lnwire.ShortChannelID) (htlcswitch.ChannelLink,
				error) {

				l, ok := p.links[id]
				if !ok {
					return nil, fmt.Errorf("no link %v", id)
				}
				return l, nil
			},
			fn.None[[]byte](),
			fn.None[htlcswitch.AuxTrafficShaper](),
		)
	}

	if q.Mode == "session" {
		hash := lntypes.Hash{1, 2, 3}
		pay := &LightningPayment{
			Target:             p.target,
			Amount:             lnwire.MilliSatoshi(q.Amt),
			FeeLimit:           lnwire.MilliSatoshi(feeLimit),
			CltvLimit:          verifC19UserCltv(q, p, cltvLimit),
			paymentHash:        &hash,
			FinalCLTVDelta:     q.FinalDelta,
			RouteHints:         p.routeHints,
			BlindedPathSet:     p.blindSet,
			OutgoingChannelIDs: q.OutChans,
			LastHop:            lastHop,
			DestFeatures:       p.destFeatures,
			PaymentAddr:        p.payAddr,
			DestCustomRecords:  p.records,
			MaxParts:           1,
			TimePref:           q.TimePref,
			Metadata:           p.metadata,
		}
		if p.blindSet != nil {
			pay.FinalCLTVDelta = p.finalDelta
		}
		sess, err := newPaymentSession(
			pay, p.self, getHints, f.inst.v1Graph,
			&verifC19MC{prob: p.prob}, cfg,
		)
		if err != nil {
			return nil, err
		}
		return sess.RequestRoute(
			lnwire.MilliSatoshi(q.Amt),
			lnwire.MilliSatoshi(feeLimit), 0, q.Height, nil,
		)
	}

	// FindRoute composition (routing/router.go FindRoute).
	restr := &RestrictParams{
		ProbabilitySource:     p.prob,
		FeeLimit:              lnwire.MilliSatoshi(feeLimit),
		OutgoingChannelIDs:    q.OutChans,
		LastHop:               lastHop,
		CltvLimit:             cltvLimit,
		DestCustomRecords:     p.records,
		DestFeatures:          p.destFeatures,
		PaymentAddr:           p.payAddr,
		Metadata:              p.metadata,
		BlindedPaymentPathSet: p.blindSet,
	}
	var (
		req *RouteRequest
		err error
	)
	if p.blindSet != nil {
		req, err = NewRouteRequest(
			p.source, nil, lnwire.MilliSatoshi(q.Amt), q.TimePref,
			restr, nil, nil, p.blindSet, 0,
		)
	} else {
		tgt := p.target
		req, err = NewRouteRequest(
			p.source, &tgt, lnwire.MilliSatoshi(q.Amt), q.TimePref,
			restr, p.records, p.hintEdges, nil, q.FinalDelta,
		)
	}
	if err != nil {
		return nil, err
	}
	finalHtlcExpiry := int32(q.Height) + int32(req.FinalExpiry)
	var path []*unifiedEdge
	err = f.inst.v1Graph.GraphSession(context.Background(),
		func(g graphdb.NodeTraverser) error {
			bh, err := getHints(g)
			if err != nil {
				return err
			}
			path, _, err = findPath(
				&graphParams{
					additionalEdges: req.RouteHints,
					bandwidthHints:  bh,
					graph:           g,
				},
				req.Restrictions, &cfg, p.self, req.Source,
				req.Target, req.Amount, req.TimePreference,
				finalHtlcExpiry,
			)
			return err
		}, func() { path = nil })
	if err != nil {
		return nil, err
	}
	return newRoute(
		req.Source, path, q.Height,
		finalHopParams{
			amt:         req.Amount,
			totalAmt:    req.Amount,
			cltvDelta:   req.FinalExpiry,
			records:     req.CustomRecords,
			paymentAddr: p.payAddr,
			metadata:    p.metadata,
		}, req.BlindedPathSet,
	)
}

// verifC19EffFinal is the final CLTV delta lnd puts on the last hop.
func verifC19EffFinal(q *verifC19Query, p *verifC19Prepared) uint32 {
	d := uint32(p.finalDelta)
	if q.Mode == "session" {
		d += uint32(BlockPadding)
	}
	return d
}

// verifC19UserCltv converts the path-level limit (excluding the final delta)
// into the payment-level limit the session takes.
func verifC19UserCltv(q *verifC19Query, p *verifC19Prepared,
	cltvLimit uint32) uint32 {

	u := uint64(cltvLimit) + uint64(verifC19EffFinal(q, p))
	if u > math.MaxUint32 {
		return math.MaxUint32
	}
	return uint32(u)
}

// ---------------------------------------------------------------------------
// The oracle
// ---------------------------------------------------------------------------

type verifC19Finding struct {
	oracle, key, detail string
}

type verifC19Judgement struct {
	findings []verifC19Finding
	diags    []verifC19Finding
	evals    map[string]int64
	// signature parts
	hops        int
	usesInbound bool
	clamped     bool
	parallel    string
	restr       string
	payloadSize int
}

func (j *verifC19Judgement) bad(oracle, key, detail string) {
	j.findings = append(j.findings, verifC19Finding{oracle, key, detail})
}

func (j *verifC19Judgement) diag(name, detail string) {
	j.diags = append(j.diags, verifC19Finding{name, "", detail})
}

func verifC19Short(v route.Vertex) string { return hex.EncodeToString(v[:4]) }

func verifC19Judge(q *verifC19Query, p *verifC19Prepared, rt *route.Route,
	feeLimit uint64, cltvLimit uint32) *verifC19Judgement {

	j := &verifC19Judgement{evals: map[string]int64{}, parallel: "p0"}
	n := len(rt.Hops)
	j.hops = n
	if n == 0 {
		j.bad("connectivity", "empty-route", "route without hops")
		return j
	}
	hints := verifC19Hints(q)
	effFinal := verifC19EffFinal(q, p)

	// locate the blinded tail, if any: index of the introduction hop.
	intro := -1
	var blind *verifC19Blind
	var blindPubs []route.Vertex
	if p.blindSet != nil {
		for i, h := range rt.Hops {
			if h.EncryptedData != nil || h.BlindingPoint != nil {
				intro = i
				break
			}
		}
		if intro < 0 {
			j.bad("connectivity", "blinded-no-intro",
				"route to a blinded path carries no blinded hop")
			return j
		}
		// which offered path is it?
		for bi := range q.Blind {
			pubs := p.blindPubs[bi]
			if pubs[0] != rt.Hops[intro].PubKeyBytes {
				continue
			}
			if n-intro != len(pubs) {
				continue
			}
			ok := true
			for k := 1; k < len(pubs); k++ {
				if rt.Hops[intro+k].PubKeyBytes != pubs[k] {
					ok = false
				}
			}
			if ok {
				blind = &q.Blind[bi]
				blindPubs = pubs
				break
			}
		}
		j.evals["oracle_connectivity_evals"]++
		if blind == nil {
			j.bad("connectivity", "blinded-tail-not-offered",
				"hops after the introduction node match none of "+
					"the offered blinded paths")
			return j
		}
	}
	_ = blindPubs
	clearEnd := n // hops [0,clearEnd) arrive over clear channels
	if intro >= 0 {
		clearEnd = intro + 1
	}

	// amount carried over the channel of hop i, expiry of that HTLC.
	amtOver := func(i int) uint64 {
		if i == 0 {
			return uint64(rt.TotalAmount)
		}
		return uint64(rt.Hops[i-1].AmtToForward)
	}
	expOver := func(i int) uint32 {
		if i == 0 {
			return rt.TotalTimeLock
		}
		return rt.Hops[i-1].OutgoingTimeLock
	}

	// 1. connectivity + 2. per-hop amount range.
	cur := p.source
	if rt.SourcePubKey != p.source {
		j.bad("connectivity", "wrong-source", "route source differs")
	}
	edgesUsed := make([]*verifC19Edge, n)
	for i, h := range rt.Hops {
		e := p.edges[verifC19EdgeKey{h.ChannelID, cur, h.PubKeyBytes}]
		j.evals["oracle_connectivity_evals"]++
		if e == nil {
			j.bad("connectivity", "no-such-direction",
				fmt.Sprintf("hop %d: no channel %d from %s to %s in "+
					"the generated graph", i, h.ChannelID,
					verifC19Short(cur),
					verifC19Short(h.PubKeyBytes)))
			return j
		}
		edgesUsed[i] = e
		if e.Disabled {
			local := i == 0 && p.source == p.self
			if local {
				// lnd deliberately ignores the disabled flag of
				// local channels and trusts the link state
				// (bandwidth hint) instead; diagnostic only.
				j.diag("local_disabled_direction_used",
					fmt.Sprintf("chan %d", h.ChannelID))
			} else {
				j.bad("connectivity", "disabled-direction",
					fmt.Sprintf("hop %d uses disabled direction "+
						"of channel %d", i, h.ChannelID))
			}
		}
		if e.Parallel > 1 {
			if e.LowestParallel {
				j.parallel = "pL"
			} else {
				j.parallel = "pH"
			}
		}
		if i < clearEnd {
			a := amtOver(i)
			j.evals["oracle_amount_range_evals"]++
			if e.Kind == "graph" {
				if a < e.Min {
					j.bad("amount_range", "below-min",
						fmt.Sprintf("hop %d: %d msat over chan %d "+
							"< min_htlc %d", i, a, e.ChanID,
							e.Min))
				}
				if e.HasMax && a > e.Max {
					key := "above-max"
					if i == n-1 {
						key = "above-max-last-hop"
					}
					j.bad("amount_range", key,
						fmt.Sprintf("hop %d: %d msat over chan %d "+
							"> max_htlc %d", i, a, e.ChanID,
							e.Max))
				}
				if e.CapMsat > 0 && a > e.CapMsat {
					j.bad("amount_range", "above-capacity",
						fmt.Sprintf("hop %d: %d msat over chan %d "+
							"> capacity %d", i, a, e.ChanID,
							e.CapMsat))
				}
			}
			if i == 0 && p.source == p.self {
				if bw, ok := hints[h.ChannelID]; ok {
					j.evals["oracle_bandwidth_evals"]++
					if a > bw {
						j.bad("amount_range",
							"above-local-bandwidth",
							fmt.Sprintf("first hop: %d msat "+
								"over chan %d > bandwidth "+
								"hint %d", a, e.ChanID, bw))
					}
				}
			}
		}
		cur = h.PubKeyBytes
	}
	wantEnd := p.target
	if p.blindSet != nil && len(blindPubs) > 1 {
		wantEnd = blindPubs[len(blindPubs)-1]
	}
	if cur != wantEnd {
		j.bad("connectivity", "wrong-destination",
			"route does not end at the target")
	}

	// 3. every forwarding node: exact C09 rule + expiry gap.
	for i := 0; i+1 < n && i < clearEnd; i++ {
		eIn, eOut := edgesUsed[i], edgesUsed[i+1]
		in := amtOver(i)
		out := uint64(rt.Hops[i].AmtToForward)
		outExp := rt.Hops[i].OutgoingTimeLock
		if i == intro {
			// introduction node: the aggregate blinded relay
			// parameters apply to the final amount / expiry.
			out = q.Amt
			outExp = q.Height + effFinal
		}
		j.evals["oracle_forwarding_fee_evals"]++
		if eIn.ToInBase != 0 || eIn.ToInRate != 0 {
			j.usesInbound = true
		}
		ok, why := verifC19NodeFeeOK(in, out, eOut.Base, eOut.Rate,
			eIn.ToInBase, eIn.ToInRate)
		if !ok {
			key := "fee-below-policy"
			if i == intro {
				key = "fee-below-blinded-aggregate"
			}
			j.bad("forwarding_fee", key,
				fmt.Sprintf("node %s (hop %d): in %d out %d over "+
					"chan %d->%d: %s", verifC19Short(eIn.To), i,
					in, out, eIn.ChanID, eOut.ChanID, why))
		}
		// did the zero floor bind?
		if eIn.ToInBase < 0 || eIn.ToInRate < 0 {
			if in == out && (eOut.Base > 0 || eOut.Rate > 0) {
				j.clamped = true
			}
		}
		j.evals["oracle_expiry_gap_evals"]++
		inExp := expOver(i)
		if inExp < outExp ||
			uint64(inExp)-uint64(outExp) < uint64(eOut.Delta) {

			key := "gap-below-delta"
			if i == intro {
				key = "gap-below-blinded-aggregate"
			}
			j.bad("expiry_gap", key,
				fmt.Sprintf("node %s (hop %d): incoming expiry %d, "+
					"outgoing %d, time-lock delta %d of chan %d",
					verifC19Short(eIn.To), i, inExp, outExp,
					eOut.Delta, eOut.ChanID))
		}
	}

	// blinded aggregate htlc range.
	if blind != nil && len(blindPubs) > 1 {
		j.evals["oracle_blinded_range_evals"]++
		if q.Amt < blind.Min {
			j.bad("blinded_htlc_range", "below-blinded-htlc-minimum",
				fmt.Sprintf("amount %d < htlc_minimum %d of the "+
					"blinded path", q.Amt, blind.Min))
		}
		if blind.Max == 0 && q.Amt > 0 {
			// htlc_maximum 0 = not specified (lnd's convention for
			// max_htlc everywhere else); not judged.
			j.diag("blinded_htlc_maximum_unspecified", "max=0")
		} else if q.Amt > blind.Max {
			j.bad("blinded_htlc_range", "above-blinded-htlc-maximum",
				fmt.Sprintf("amount %d > htlc_maximum %d of the "+
					"blinded path", q.Amt, blind.Max))
		}
	}

	// 4. totals.
	last := rt.Hops[n-1]
	j.evals["oracle_totals_evals"]++
	if uint64(last.AmtToForward) != q.Amt ||
		uint64(rt.ReceiverAmt()) != q.Amt {

		j.bad("totals", "receiver-amount",
			fmt.Sprintf("ReceiverAmt %d / last hop %d != amt %d",
				rt.ReceiverAmt(), last.AmtToForward, q.Amt))
	}
	if uint64(rt.TotalAmount) < q.Amt {
		j.bad("totals", "total-below-amount", "TotalAmount < amt")
	} else {
		fees := uint64(rt.TotalAmount) - q.Amt
		if uint64(rt.TotalFees()) != fees {
			j.bad("totals", "total-fees",
				fmt.Sprintf("TotalFees() %d != TotalAmount-amt %d",
					rt.TotalFees(), fees))
		}
		sum := new(big.Int)
		for i := range rt.Hops {
			sum.Add(sum, verifC19Big(uint64(rt.HopFee(i))))
		}
		if sum.Cmp(verifC19Big(fees)) != 0 {
			j.bad("totals", "hop-fees-sum",
				fmt.Sprintf("sum of HopFee %s != total fees %d", sum,
					fees))
		}
		// limits
		j.evals["oracle_fee_limit_evals"]++
		if fees > feeLimit {
			j.bad("fee_limit", "total-fees-above-limit",
				fmt.Sprintf("total fees %d > fee limit %d", fees,
					feeLimit))
		}
	}
	// amounts / expiries never increase along the clear part, and the
	// final hop is handed at least what its payload announces.
	for i := 0; i < clearEnd; i++ {
		if i == intro && intro != n-1 {
			continue
		}
		if amtOver(i) < uint64(rt.Hops[i].AmtToForward) {
			j.bad("totals", "amount-increases",
				fmt.Sprintf("hop %d forwards more than it receives",
					i))
		}
		if expOver(i) < rt.Hops[i].OutgoingTimeLock {
			j.bad("totals", "expiry-increases",
				fmt.Sprintf("hop %d: outgoing expiry above incoming",
					i))
		}
	}
	wantFinal := uint64(q.Height) + uint64(effFinal)
	if uint64(last.OutgoingTimeLock) < wantFinal {
		j.bad("totals", "final-expiry-below-height-plus-final-delta",
			fmt.Sprintf("last hop expiry %d < height %d + final delta "+
				"%d", last.OutgoingTimeLock, q.Height, effFinal))
	} else if uint64(last.OutgoingTimeLock) != wantFinal {
		j.diag("final_expiry_not_exact", fmt.Sprintf("%d vs %d",
			last.OutgoingTimeLock, wantFinal))
	}
	// TotalTimeLock must be the final expiry plus the sum of the
	// forwarding nodes' gaps (checked above per node) -- equivalently the
	// first HTLC's expiry; here: at least height+final+sum(deltas).
	need := wantFinal
	for i := 0; i+1 < n && i < clearEnd; i++ {
		need += uint64(edgesUsed[i+1].Delta)
	}
	if uint64(rt.TotalTimeLock) < need {
		j.bad("totals", "total-timelock-below-sum",
			fmt.Sprintf("TotalTimeLock %d < height+final+sum(deltas) "+
				"%d", rt.TotalTimeLock, need))
	}

	// 5. CLTV limit. Reading (lnd's own, RestrictParams.CltvLimit doc and
	// RequestRoute/QueryRoutes): the limit handed to findPath EXCLUDES the
	// final CLTV delta, i.e. TotalTimeLock - height - finalDelta <= limit
	// <=> TotalTimeLock - height <= payment-level limit.
	j.evals["oracle_cltv_limit_evals"]++
	span := int64(rt.TotalTimeLock) - int64(q.Height) - int64(effFinal)
	if span > int64(cltvLimit) {
		j.bad("cltv_limit", "total-timelock-above-limit",
			fmt.Sprintf("TotalTimeLock %d - height %d - final %d = %d "+
				"> cltv limit %d", rt.TotalTimeLock, q.Height,
				effFinal, span, cltvLimit))
	}

	// 6. restrictions.
	var rk []string
	if len(q.OutChans) > 0 {
		rk = append(rk, "out")
		j.evals["oracle_restrictions_evals"]++
		ok := false
		for _, id := range q.OutChans {
			if id == rt.Hops[0].ChannelID {
				ok = true
			}
		}
		if !ok {
			if p.source != p.self {
				// lnd applies the restriction to SELF's channels
				// only; with source != self (a what-if
				// QueryRoutes with a source pubkey) the first hop
				// is unrestricted. The statement's restrictions are
				// those of the node's own payments (first hop =
				// local channel with a bandwidth hint), so this
				// class is reported as a diagnostic only.
				j.diag("outgoing_channel_source_not_self",
					fmt.Sprintf("first hop channel %d not in "+
						"the outgoing set %v", rt.Hops[0].ChannelID,
						q.OutChans))
			} else {
				j.bad("restrictions", "outgoing-channel",
					fmt.Sprintf("first hop channel %d not in "+
						"the outgoing set %v", rt.Hops[0].ChannelID,
						q.OutChans))
			}
		}
	}
	if q.LastHop != verifC19NoLastHop {
		rk = append(rk, "last")
		j.evals["oracle_restrictions_evals"]++
		prev := p.source
		if n >= 2 {
			prev = rt.Hops[n-2].PubKeyBytes
		}
		want := *p.lastHop
		if prev != want {
			j.bad("restrictions", "last-hop",
				fmt.Sprintf("node before the destination is %s, "+
					"restriction says %s", verifC19Short(prev),
					verifC19Short(want)))
		}
	}
	if len(p.ignNodes) > 0 {
		rk = append(rk, "ign")
		j.evals["oracle_restrictions_evals"]++
		for i := 0; i+1 < n; i++ {
			if p.ignNodes[rt.Hops[i].PubKeyBytes] {
				j.bad("restrictions", "ignored-node",
					fmt.Sprintf("hop %d forwards through ignored "+
						"node %s", i,
						verifC19Short(rt.Hops[i].PubKeyBytes)))
			}
		}
	}
	if len(p.ignPairs) > 0 {
		rk = append(rk, "pair")
		j.evals["oracle_restrictions_evals"]++
		c := p.source
		for i, h := range rt.Hops {
			if p.ignPairs[[2]route.Vertex{c, h.PubKeyBytes}] {
				j.bad("restrictions", "ignored-pair",
					fmt.Sprintf("hop %d uses ignored pair %s->%s",
						i, verifC19Short(c),
						verifC19Short(h.PubKeyBytes)))
			}
			c = h.PubKeyBytes
		}
	}
	j.restr = strings.Join(rk, "+")

	// 7. onion payload fits (as payments/db generateSphinxPacket does).
	j.evals["oracle_onion_fits_evals"]++
	sp, err := rt.ToSphinxPath()
	if err != nil {
		j.bad("onion_fits", "to-sphinx-path-error",
			fmt.Sprintf("ToSphinxPath: %v", err))
	} else {
		j.payloadSize = sp.TotalPayloadSize()
		if j.payloadSize > 1300 {
			j.bad("onion_fits", "payload-above-1300",
				fmt.Sprintf("total onion payload %d bytes > 1300",
					j.payloadSize))
		}
		if n > 27 {
			j.bad("onion_fits", "too-many-hops", "more than 27 hops")
		}
	}
	return j
}

func verifC19MkRouteOut(rt *route.Route) verifC19RouteOut {
	out := verifC19RouteOut{
		TotalAmount:   uint64(rt.TotalAmount),
		TotalTimeLock: rt.TotalTimeLock,
		Source:        hex.EncodeToString(rt.SourcePubKey[:]),
	}
	for _, h := range rt.Hops {
		out.Hops = append(out.Hops, verifC19HopOut{
			Pub:      hex.EncodeToString(h.PubKeyBytes[:]),
			ChanID:   h.ChannelID,
			Amt:      uint64(h.AmtToForward),
			TimeLock: h.OutgoingTimeLock,
			Blinded:  h.EncryptedData != nil,
		})
	}
	return out
}

// ---------------------------------------------------------------------------
// Driver
// ---------------------------------------------------------------------------

func verifC19IsNoRoute(err error) bool {
	switch err {
	case errNoPathFound, errInsufficientBalance, errNoPaymentAddr,
		errNoTlvPayload, errUnknownRequiredFeature,
		errMissingDependentFeature:

		return true
	}
	return false
}

var verifC19Emitted = map[string]int{}

func verifC19Case(t *testing.T, vc *verifCtx, idx int) {
	r := vc.Rng(idx)
	g := verifC19GenGraph(r.Fork("graph"))
	nq := 8
	if vc.Only >= 0 {
		vc.Case(idx, g)
	}
	vc.Count("cases", 1)
	vc.mu.Lock()
	vc.curCase = idx
	vc.mu.Unlock()
	f := verifC19Build(t, &g)
	var nodes []string
	for _, v := range f.verts {
		nodes = append(nodes, hex.EncodeToString(v[:]))
	}

	for qi := 0; qi < nq; qi++ {
		qr := r.Fork(fmt.Sprintf("q%d", qi))
		q := verifC19GenQuery(qr, &g)
		p, err := f.prepare(&q)
		if err != nil {
			vc.Count("prepare_errors", 1)
			vc.Diag("prepare_error", err.Error())
			continue
		}
		vc.Count("queries", 1)

		exec := func(tight string, feeLimit uint64,
			cltvLimit uint32) *route.Route {

			var (
				rt   *route.Route
				rerr error
			)
			func() {
				defer func() {
					if rec := recover(); rec != nil {
						rerr = fmt.Errorf("panic: %v", rec)
						vc.Diag("panic_in_pathfinding",
							fmt.Sprintf("%v graph=%+v query=%+v",
								rec, g, q))
					}
				}()
				rt, rerr = f.run(&q, p, feeLimit, cltvLimit)
			}()
			vc.Count("findpath_calls", 1)
			if rerr != nil {
				if verifC19IsNoRoute(rerr) {
					vc.Count("no_route", 1)
				} else {
					vc.Count("other_errors", 1)
					vc.Diag("other_error", rerr.Error())
				}
				return nil
			}
			vc.Count("routes_judged", 1)
			j := verifC19Judge(&q, p, rt, feeLimit, cltvLimit)
			for k, v := range j.evals {
				vc.Count(k, v)
			}
			for _, d := range j.diags {
				vc.Diag(d.oracle, d.detail)
			}
			vc.Max("hops", int64(j.hops))
			vc.Max("payload_bytes", int64(j.payloadSize))
			if len(j.findings) > 0 {
				w := verifC19Witness{Graph: g, Nodes: nodes, Query: q,
					FeeLimit: feeLimit, CltvLimit: cltvLimit,
					Tight: tight, Route: verifC19MkRouteOut(rt)}
				seen := map[string]bool{}
				for _, fd := range j.findings {
					k := fd.oracle + "/" + fd.key
					if seen[k] {
						continue
					}
					seen[k] = true
					vc.Count("rejected:"+k, 1)
					// a few witnesses per fingerprint and shard
					// are enough; do not let one class exhaust
					// the runtime's global violation cap.
					verifC19Emitted[k]++
					if verifC19Emitted[k] > 3 {
						continue
					}
					vc.Violation(fd.oracle, fd.key, fd.detail, w)
				}
			}
			if j.hops >= 2 {
				vc.Count("routes_multi_hop", 1)
				selfpay := q.Target == q.Source
				vc.Sig(fmt.Sprintf("h%d|i%v|c%v|%s|r:%s|%s|%s|sp%v|%s",
					j.hops, j.usesInbound, j.clamped, tight,
					j.restr, j.parallel, q.Kind, selfpay, q.Mode))
				if j.usesInbound {
					vc.Count("routes_with_inbound_fee", 1)
				}
				if j.clamped {
					vc.Count("routes_inbound_clamped", 1)
				}
				if j.parallel != "p0" {
					vc.Count("routes_parallel_choice", 1)
				}
				if selfpay {
					vc.Count("routes_self_payment", 1)
				}
				if q.Kind == "blinded" {
					vc.Count("routes_blinded", 1)
				}
				if q.Kind == "hints" {
					vc.Count("routes_with_hints", 1)
				}
				if j.restr != "" {
					vc.Count("routes_restricted", 1)
				}
				if tight != "base" {
					vc.Count("routes_tight_limit", 1)
				}
				if q.Mode == "session" {
					vc.Count("routes_via_payment_session", 1)
				}
				if q.Self == verifC19AbsentSelf {
					vc.Count("routes_source_not_self", 1)
				}
				if j.payloadSize > 1200 {
					vc.Count("routes_payload_near_limit", 1)
				}
			}
			if idx%400 == 0 && qi == 0 && tight == "base" {
				vc.Sample(map[string]any{"graph": g, "query": q,
					"route": verifC19MkRouteOut(rt)})
			}
			return rt
		}

		rt0 := exec("base", q.FeeLimit, q.CltvLimit)
		if rt0 == nil {
			continue
		}
		// tight limits: limit = optimum and optimum-1.
		fees0 := uint64(rt0.TotalAmount) - q.Amt
		if uint64(rt0.TotalAmount) >= q.Amt {
			if rt := exec("fee=", fees0, q.CltvLimit); rt == nil {
				vc.Count("tight_equal_limit_no_route", 1)
			}
			if fees0 > 0 {
				exec("fee-1", fees0-1, q.CltvLimit)
			}
		}
		span0 := int64(rt0.TotalTimeLock) - int64(q.Height) -
			int64(verifC19EffFinal(&q, p))
		if span0 >= 0 && span0 <= math.MaxUint32 {
			if rt := exec("cltv=", q.FeeLimit, uint32(span0)); rt == nil {
				vc.Count("tight_equal_limit_no_route", 1)
			}
			// the session subtracts final delta from the payment
			// level limit; a path level limit of 0 stays valid.
			if span0 > 0 {
				exec("cltv-1", q.FeeLimit, uint32(span0-1))
			}
		}
	}
	if vc.Only >= 0 {
		vc.CaseDone(idx)
	}
}

func TestVerifC19(t *testing.T) {
	vc := verifStart(t, "C19", "routes")
	defer vc.Finish()
	total := vc.N(2000, 100000)
	for i := 0; i < total; i++ {
		if !vc.Mine(i) {
			continue
		}
		i := i
		t.Run(fmt.Sprintf("g%d", i), func(st *testing.T) {
			verifC19Case(st, vc, i)
		})
	}
}
