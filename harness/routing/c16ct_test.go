package routing

// C16 monitor (concurrent part): 2-4 goroutines drive the real
// routing.ControlTower (the documented per-hash serialisation point) on top of
// a real KVStore (bbolt, real batching backend) or SQLStore (SQLite), plus
// direct store DeletePayment(hash, failedHtlcsOnly) and the bulk
// DeletePayments(failedOnly, failedHtlcsOnly) as the RPC server does. Histories
// are recorded at the client boundary (call stamp before, return stamp after,
// one monotonic counter) and checked with porcupine against a sequential model
// written from the documented rules, partitioned by payment hash (the bulk
// delete is one sub-operation per hash with the call's stamps).
//
// Transaction interposer: the kvdb.Backend given to NewKVStore and the
// BatchedSQLQueries executor given to NewSQLStore are wrapped. Driven by a
// table drawn from the case PRNG, a client goroutine yields / sleeps a few
// hundred microseconds before a database transaction begins and, after one
// has committed, may be held until another client has committed a write (soft
// cap 0.3-14 ms, extended up to 25 ms while another client's write transaction
// is under way). Delays only, never errors, never inside a transaction. This
// spreads the transactions of a store / tower call that uses more than one
// (check and act in different critical sections) so that other clients' calls
// land between them; how often that was observed is counted
// (interleaved_between_tx) and has a floor.
//
// A read-only transaction (kvdb View / read-only ExecTx) is a boundary too:
// after it the client is mostly held (table afterRO) until another client's
// write has committed, so a call that checks in a read-only transaction and
// writes in a later one meets that write in between.
//
// Direct store slice: the "race" profile (a quarter of the histories; one
// hash, RegisterAttempt released together with the operation that flips its
// admissibility) and an eighth of the other histories call the paymentsdb.DB
// methods themselves, without the tower's per-hash mutex. The documented
// caller contract is kept: PaymentControl.RegisterAttempt must be serialised
// per hash by the caller (harness mutex around direct RegisterAttempt only);
// no other method pair is documented as needing serialisation. The MPPayment
// a direct RegisterAttempt / SettleAttempt / FailAttempt / Fail returns is
// part of the output checked by the model.
//
//   verdict-bearing
//     linearizability        porcupine says Illegal for a history
//     conc_succeeded_absorbing  (no init/delete in the concurrent phase) a call
//                            returned a record reporting Succeeded and a call
//                            that started later returned another status
//     conc_conservation      (no init/delete in the concurrent phase) amounts
//                            of admitted, not successfully failed attempts
//                            exceed the payment value; or the final record does
//     conc_attempt_after_terminal  (same restriction) an attempt was admitted
//                            by a call that started after a SettleAttempt or
//                            FailPayment call had returned successfully
//     conc_final_status      final record: status is not the documented
//                            function of its attempts / failed with a settled
//                            attempt
//     conc_status_function   same two checks on every record a fetch returned
//                            during the concurrent phase (key <backend>:fetched)
//     conc_inflight_status   an attempt was admitted and no settle / fail of it
//                            ever succeeded, yet the final reported status of
//                            its hash is not in-flight ("status is exactly the
//                            documented function of the attempts")
//     conc_reinit_inflight   ... and a final InitPayment of that hash was
//                            admitted ("refuses to re-initiate a payment hash
//                            that is ... in flight")
//     race_detector          (driver) -race reports attributed to anchored files
//   inconclusive / diagnostic
//     porcupine Unknown (timeout) is counted as lin_unknown, never a violation
//     db_busy answers are modelled as "no effect" and counted; a db_busy
//     answer of the two-step tower InitPayment is ambiguous: such a history
//     is skipped (lin_skipped_ambiguous)
//     conc_delall_count      DeletePayments count outside [0, #hashes] or
//                            non-zero with failedHtlcsOnly (diagnostic)

import (
	"context"
	"database/sql"
	"errors"
	"fmt"
	"os"
	"path/filepath"
	"runtime"
	"sort"
	"strings"
	"sync"
	"sync/atomic"
	"testing"
	"time"

	"github.com/anishathalye/porcupine"
	"github.com/btcsuite/btcd/btcec/v2"
	"github.com/lightningnetwork/lnd/kvdb"
	"github.com/lightningnetwork/lnd/lntypes"
	"github.com/lightningnetwork/lnd/lnwire"
	paymentsdb "github.com/lightningnetwork/lnd/payments/db"
	"github.com/lightningnetwork/lnd/record"
	"github.com/lightningnetwork/lnd/routing/route"
	"github.com/lightningnetwork/lnd/sqldb"
)

// ---------------------------------------------------------------------------
// Sequential model (per payment hash).
// ---------------------------------------------------------------------------

const (
	verifC16CNone      = 0
	verifC16CInitiated = 1
	verifC16CInFlight  = 2
	verifC16CSucceeded = 3
	verifC16CFailed    = 4
)

var verifC16CName = [...]string{"none", "initiated", "inflight", "succeeded",
	"failed"}

// Truth table of payment_status.go; index inflight<<3|settled<<2|
// htlcFailed<<1|paymentFailed.
var verifC16CTruth = [16]int{
	verifC16CInitiated, verifC16CFailed, verifC16CInFlight, verifC16CFailed,
	verifC16CSucceeded, verifC16CSucceeded, verifC16CSucceeded,
	verifC16CSucceeded,
	verifC16CInFlight, verifC16CInFlight, verifC16CInFlight, verifC16CInFlight,
	verifC16CInFlight, verifC16CInFlight, verifC16CInFlight, verifC16CInFlight,
}

func verifC16CB(b bool) int {
	if b {
		return 1
	}
	return 0
}

type verifC16CAtt struct {
	ID      uint64
	Amt     uint64
	Plain   bool
	Settled bool
	Failed  bool
}

type verifC16CState struct {
	Exists bool
	Value  uint64
	Reason int // -1 none
	Atts   []verifC16CAtt
}

func (s verifC16CState) key() string {
	var sb strings.Builder
	fmt.Fprintf(&sb, "%v/%d/%d", s.Exists, s.Value, s.Reason)
	for _, a := range s.Atts {
		fmt.Fprintf(&sb, "|%d:%d:%v:%v:%v", a.ID, a.Amt, a.Plain, a.Settled,
			a.Failed)
	}
	return sb.String()
}

func (s verifC16CState) status() int {
	if !s.Exists {
		return verifC16CNone
	}
	var i, st, f bool
	for _, a := range s.Atts {
		switch {
		case a.Failed:
			f = true
		case a.Settled:
			st = true
		default:
			i = true
		}
	}
	return verifC16CTruth[verifC16CB(i)<<3|verifC16CB(st)<<2|verifC16CB(f)<<1|
		verifC16CB(s.Reason >= 0)]
}

func (s verifC16CState) sent() uint64 {
	var x uint64
	for _, a := range s.Atts {
		if !a.Failed {
			x += a.Amt
		}
	}
	return x
}

func (s verifC16CState) proj() string {
	if !s.Exists {
		return "notinit"
	}
	var sb strings.Builder
	fmt.Fprintf(&sb, "%s v=%d rem=%d fr=%d", verifC16CName[s.status()],
		s.Value, s.Value-s.sent(), s.Reason)
	for _, a := range s.Atts {
		fmt.Fprintf(&sb, " {%d a=%d s=%v f=%v}", a.ID, a.Amt, a.Settled,
			a.Failed)
	}
	return sb.String()
}

type verifC16CIn struct {
	K      string `json:"k"`
	H      int    `json:"h"`
	ID     uint64 `json:"id,omitempty"`
	Amt    uint64 `json:"amt,omitempty"`
	Plain  bool   `json:"plain,omitempty"`
	Val    uint64 `json:"val,omitempty"`
	Reason byte   `json:"reason,omitempty"`
	// FO / HO: failedOnly / failedHtlcsOnly of DeletePayment(s). H is -1
	// for the bulk call in the recorded history.
	FO bool `json:"fo,omitempty"`
	HO bool `json:"ho,omitempty"`
}

type verifC16COut struct {
	Class string `json:"class"` // ok | refused | db_busy | vanished
	Proj  string `json:"proj,omitempty"`
	Err   string `json:"err,omitempty"`
	N     int    `json:"n,omitempty"`    // DeletePayments count
	Self  string `json:"self,omitempty"` // fetched record fails its own status function
}

// verifC16CStep is the sequential specification: it returns whether the
// observed output is possible in state s and the successor state.
func verifC16CStep(s verifC16CState, in verifC16CIn, out verifC16COut) (bool,
	verifC16CState) {

	if out.Class == "db_busy" {
		// The transaction was rolled back: no effect.
		return true, s
	}
	st := s.status()
	n := s
	n.Atts = append([]verifC16CAtt(nil), s.Atts...)
	refused := func() (bool, verifC16CState) {
		return out.Class == "refused", s
	}
	okOut := out.Class == "ok"
	// The store methods return the record as of their own transaction
	// (recorded for direct store calls only; the tower does not hand it
	// out): it must be the state right after the operation.
	retOK := func(after verifC16CState) bool {
		return out.Proj == "" || out.Proj == after.proj()
	}
	find := func(id uint64) int {
		for i, a := range n.Atts {
			if a.ID == id {
				return i
			}
		}
		return -1
	}
	switch in.K {
	case "init":
		if st == verifC16CInitiated || st == verifC16CInFlight ||
			st == verifC16CSucceeded {

			return refused()
		}
		n = verifC16CState{Exists: true, Value: in.Val, Reason: -1}
		// ControlTower.InitPayment = store InitPayment + a separate
		// FetchPayment; a concurrent delete in between makes the call
		// answer "not initiated" although the payment was created.
		return okOut || out.Class == "vanished", n

	case "reg":
		switch st {
		case verifC16CNone, verifC16CSucceeded, verifC16CFailed:
			return refused()
		}
		if st == verifC16CInFlight {
			for _, a := range n.Atts {
				if a.Settled && !a.Failed {
					return refused()
				}
			}
			if n.Reason >= 0 {
				return refused()
			}
		}
		for _, a := range n.Atts {
			if a.Failed || a.Settled {
				continue
			}
			if a.Plain != in.Plain {
				return refused()
			}
		}
		if in.Plain && in.Amt != n.Value {
			return refused()
		}
		if n.sent()+in.Amt > n.Value {
			return refused()
		}
		if find(in.ID) >= 0 {
			return refused()
		}
		n.Atts = append(n.Atts, verifC16CAtt{ID: in.ID, Amt: in.Amt,
			Plain: in.Plain})
		sort.Slice(n.Atts, func(i, j int) bool {
			return n.Atts[i].ID < n.Atts[j].ID
		})
		return okOut && retOK(n), n

	case "settle", "failatt":
		if st != verifC16CInitiated && st != verifC16CInFlight {
			return refused()
		}
		i := find(in.ID)
		if i < 0 || n.Atts[i].Failed || n.Atts[i].Settled {
			return refused()
		}
		if in.K == "settle" {
			n.Atts[i].Settled = true
		} else {
			n.Atts[i].Failed = true
		}
		return okOut && retOK(n), n

	case "failpay":
		if st == verifC16CNone {
			return refused()
		}
		n.Reason = int(in.Reason)
		return okOut && retOK(n), n

	case "delall":
		// DeletePayments never refuses: payments that are not
		// removable (or not failed with failedOnly) are skipped.
		if st == verifC16CNone || st == verifC16CInFlight ||
			(in.FO && st != verifC16CFailed) {

			return okOut, s
		}
		if !in.HO {
			return okOut, verifC16CState{Reason: -1}
		}
		var keep []verifC16CAtt
		for _, a := range n.Atts {
			if !a.Failed {
				keep = append(keep, a)
			}
		}
		n.Atts = keep
		return okOut, n

	case "del", "delfa":
		if st == verifC16CNone || st == verifC16CInFlight {
			return refused()
		}
		if in.K == "del" && !in.HO {
			return okOut, verifC16CState{Reason: -1}
		}
		var keep []verifC16CAtt
		for _, a := range n.Atts {
			if !a.Failed {
				keep = append(keep, a)
			}
		}
		n.Atts = keep
		return okOut, n

	case "fetch":
		if st == verifC16CNone {
			return refused()
		}
		return okOut && out.Proj == s.proj(), s
	}
	return false, s
}

var verifC16CModel = porcupine.Model{
	Partition: func(history []porcupine.Operation) [][]porcupine.Operation {
		m := map[int][]porcupine.Operation{}
		var keys []int
		for _, op := range history {
			h := op.Input.(verifC16CIn).H
			if _, ok := m[h]; !ok {
				keys = append(keys, h)
			}
			m[h] = append(m[h], op)
		}
		sort.Ints(keys)
		out := make([][]porcupine.Operation, 0, len(keys))
		for _, k := range keys {
			out = append(out, m[k])
		}
		return out
	},
	Init: func() interface{} { return verifC16CState{Reason: -1} },
	Step: func(state, input, output interface{}) (bool, interface{}) {
		ok, n := verifC16CStep(state.(verifC16CState),
			input.(verifC16CIn), output.(verifC16COut))
		return ok, n
	},
	Equal: func(a, b interface{}) bool {
		return a.(verifC16CState).key() == b.(verifC16CState).key()
	},
	DescribeOperation: func(in, out interface{}) string {
		return fmt.Sprintf("%+v -> %+v", in, out)
	},
	DescribeState: func(s interface{}) string {
		return s.(verifC16CState).proj()
	},
}

// ---------------------------------------------------------------------------
// Real system.
// ---------------------------------------------------------------------------

// ---------------------------------------------------------------------------
// Transaction interposer (delays only).
// ---------------------------------------------------------------------------

// verifC16CTx is one database transaction as seen at the executor boundary:
// Begin is drawn right before the real executor is entered, End right after
// it returned (both from one monotonic counter).
type verifC16CTx struct {
	Client int   `json:"client"`
	Call   int64 `json:"call"`
	Begin  int64 `json:"begin"`
	End    int64 `json:"end"`
	RO     bool  `json:"ro,omitempty"`
	OK     bool  `json:"ok"`
}

type verifC16CClient struct {
	id   int
	call atomic.Int64
}

// Pause actions of the plan table.
const (
	verifC16CPNone = iota
	verifC16CPYield
	verifC16CPSleep
	verifC16CPHold
)

type verifC16CPause struct {
	kind int
	us   int
}

type verifC16CSched struct {
	on      atomic.Bool
	seq     atomic.Int64
	commits atomic.Int64 // committed write transactions of all clients
	running atomic.Int64 // client goroutines that still have calls to make
	holding atomic.Int64 // client goroutines inside a hold
	writers atomic.Int64 // write transactions of clients under way
	holds   atomic.Int64 // holds taken
	holdsOK atomic.Int64 // holds ended by another client's commit
	roHolds atomic.Int64 // holds taken after a read-only transaction
	roOK    atomic.Int64 // ... ended by another client's commit
	planIdx atomic.Int64
	before  []verifC16CPause
	after   []verifC16CPause
	// afterRO is used instead of after when the transaction that just
	// returned was read-only: a call that checks in a read-only
	// transaction and writes in a later one has its boundary there, so the
	// client is mostly held until another client's write has committed.
	afterRO []verifC16CPause
	clients sync.Map // goroutine id -> *verifC16CClient
	mu      sync.Mutex
	txs     []verifC16CTx
}

func verifC16CGoid() uint64 {
	var buf [64]byte
	n := runtime.Stack(buf[:], false)
	var id uint64
	for _, ch := range buf[len("goroutine "):n] {
		if ch < '0' || ch > '9' {
			break
		}
		id = id*10 + uint64(ch-'0')
	}
	return id
}

// arm draws the pause tables of one case from its PRNG.
func (s *verifC16CSched) arm(r *verifRng) {
	const n = 64
	s.before = make([]verifC16CPause, n)
	s.after = make([]verifC16CPause, n)
	for i := 0; i < n; i++ {
		switch w := r.Intn(100); {
		case w < 45:
		case w < 70:
			s.before[i] = verifC16CPause{kind: verifC16CPYield}
		default:
			s.before[i] = verifC16CPause{kind: verifC16CPSleep,
				us: 20 + r.Intn(280)}
		}
		switch w := r.Intn(100); {
		case w < 30:
		case w < 40:
			s.after[i] = verifC16CPause{kind: verifC16CPYield}
		case w < 50:
			s.after[i] = verifC16CPause{kind: verifC16CPSleep,
				us: 20 + r.Intn(280)}
		case w < 75:
			s.after[i] = verifC16CPause{kind: verifC16CPHold,
				us: 300 + r.Intn(1700)}
		default:
			// Long enough for a bbolt write batch of another
			// client (MaxBatchDelay 10ms) to be committed.
			s.after[i] = verifC16CPause{kind: verifC16CPHold,
				us: 2000 + r.Intn(12000)}
		}
	}
	// Separate stream: the tables above stay what they were.
	rr := r.Fork("afterro")
	s.afterRO = make([]verifC16CPause, n)
	for i := 0; i < n; i++ {
		switch w := rr.Intn(100); {
		case w < 12:
		case w < 20:
			s.afterRO[i] = verifC16CPause{kind: verifC16CPYield}
		case w < 40:
			s.afterRO[i] = verifC16CPause{kind: verifC16CPHold,
				us: 300 + rr.Intn(1700)}
		default:
			s.afterRO[i] = verifC16CPause{kind: verifC16CPHold,
				us: 2000 + rr.Intn(12000)}
		}
	}
	s.mu.Lock()
	s.txs = nil
	s.mu.Unlock()
	s.roHolds.Store(0)
	s.roOK.Store(0)
	s.planIdx.Store(0)
	s.running.Store(0)
	s.holding.Store(0)
	s.writers.Store(0)
	s.holds.Store(0)
	s.holdsOK.Store(0)
	s.on.Store(true)
}

func (s *verifC16CSched) disarm() []verifC16CTx {
	s.on.Store(false)
	s.mu.Lock()
	defer s.mu.Unlock()
	txs := s.txs
	s.txs = nil
	return txs
}

func (s *verifC16CSched) pause(p verifC16CPause, afterRO bool) {
	switch p.kind {
	case verifC16CPYield:
		runtime.Gosched()
	case verifC16CPSleep:
		time.Sleep(time.Duration(p.us) * time.Microsecond)
	case verifC16CPHold:
		// Wait until another client has committed a write, at most
		// p.us microseconds.
		// p.us microseconds, and only while some other client is
		// still running and not itself held.
		// While another client's write transaction is under way (a
		// bbolt write batch takes MaxBatchDelay = 10ms) the hold is
		// extended up to a hard cap.
		c0 := s.commits.Load()
		t0 := time.Now()
		soft := t0.Add(time.Duration(p.us) * time.Microsecond)
		hard := t0.Add(25 * time.Millisecond)
		s.holding.Add(1)
		for s.commits.Load() == c0 {
			now := time.Now()
			if now.After(hard) {
				break
			}
			if s.writers.Load() == 0 && (now.After(soft) ||
				s.running.Load() <= s.holding.Load()) {

				break
			}
			time.Sleep(30 * time.Microsecond)
		}
		s.holding.Add(-1)
		s.holds.Add(1)
		if s.commits.Load() != c0 {
			s.holdsOK.Add(1)
		}
		if afterRO {
			s.roHolds.Add(1)
			if s.commits.Load() != c0 {
				s.roOK.Add(1)
			}
		}
	}
}

// around runs one database transaction of a client call: pause, transaction,
// pause. Calls from goroutines that are not registered clients (sequential
// phases, bbolt's own goroutines) pass straight through.
func (s *verifC16CSched) around(ro bool, run func() error) error {
	if !s.on.Load() {
		return run()
	}
	v, ok := s.clients.Load(verifC16CGoid())
	if !ok {
		return run()
	}
	cl := v.(*verifC16CClient)
	i := int(s.planIdx.Add(1))
	s.pause(s.before[i%len(s.before)], false)
	if !ro {
		s.writers.Add(1)
	}
	begin := s.seq.Add(1)
	err := run()
	if !ro {
		if err == nil {
			s.commits.Add(1)
		}
		s.writers.Add(-1)
	}
	end := s.seq.Add(1)
	s.mu.Lock()
	s.txs = append(s.txs, verifC16CTx{Client: cl.id, Call: cl.call.Load(),
		Begin: begin, End: end, RO: ro, OK: err == nil})
	s.mu.Unlock()
	if ro {
		// Boundary between a read-only transaction and whatever the
		// same call does next (possibly a write transaction).
		s.pause(s.afterRO[i%len(s.afterRO)], true)
	} else {
		s.pause(s.after[i%len(s.after)], false)
	}
	return err
}

// verifC16CGaps counts, over the calls that used more than one transaction,
// the gaps between two consecutive transactions of one call, and how many of
// them contain a complete successful write transaction of another client.
func verifC16CGaps(txs []verifC16CTx) (multiCalls, gaps, interleaved int) {
	type ck struct {
		client int
		call   int64
	}
	by := map[ck][]verifC16CTx{}
	for _, t := range txs {
		k := ck{t.Client, t.Call}
		by[k] = append(by[k], t)
	}
	for k, l := range by {
		if len(l) < 2 {
			continue
		}
		multiCalls++
		sort.Slice(l, func(i, j int) bool { return l[i].Begin < l[j].Begin })
		for i := 0; i+1 < len(l); i++ {
			gaps++
			for _, o := range txs {
				if o.Client != k.client && !o.RO && o.OK &&
					o.Begin > l[i].End && o.End < l[i+1].Begin {

					interleaved++
					break
				}
			}
		}
	}
	return multiCalls, gaps, interleaved
}

// verifC16CKV wraps the kvdb backend of the KVStore.
type verifC16CKV struct {
	kvdb.Backend
	s *verifC16CSched
}

func (w *verifC16CKV) View(f func(tx kvdb.RTx) error, reset func()) error {
	return w.s.around(true, func() error { return w.Backend.View(f, reset) })
}

func (w *verifC16CKV) Update(f func(tx kvdb.RwTx) error, reset func()) error {
	return w.s.around(false, func() error {
		return w.Backend.Update(f, reset)
	})
}

// Batch keeps the wrapper a walletdb.BatchDB so that kvdb.Batch still uses
// the real batching of the bolt backend.
func (w *verifC16CKV) Batch(f func(tx kvdb.RwTx) error) error {
	return w.s.around(false, func() error { return kvdb.Batch(w.Backend, f) })
}

// verifC16CSQL wraps the transaction executor of the SQLStore.
type verifC16CSQL struct {
	paymentsdb.BatchedSQLQueries
	s *verifC16CSched
}

func (w *verifC16CSQL) ExecTx(ctx context.Context, opts sqldb.TxOptions,
	body func(paymentsdb.SQLQueries) error, reset func()) error {

	return w.s.around(opts.ReadOnly(), func() error {
		return w.BatchedSQLQueries.ExecTx(ctx, opts, body, reset)
	})
}

type verifC16CStores struct {
	sched   *verifC16CSched
	db      paymentsdb.DB
	tower   ControlTower
	backend string
	closers []func()
	cases   int
}

func (s *verifC16CStores) Close() {
	for i := len(s.closers) - 1; i >= 0; i-- {
		s.closers[i]()
	}
	s.closers = nil
}

func verifC16CScratch() string {
	if st, err := os.Stat("/dev/shm"); err == nil && st.IsDir() {
		return "/dev/shm"
	}
	if s := os.Getenv("VERIF_SCRATCH"); s != "" {
		return s
	}
	return os.TempDir()
}

func verifC16COpen(t testing.TB, backend string) *verifC16CStores {
	dir, err := os.MkdirTemp(verifC16CScratch(), "verif-c16ct-")
	if err != nil {
		t.Fatalf("scratch: %v", err)
	}
	s := &verifC16CStores{backend: backend, sched: &verifC16CSched{}}
	s.closers = append(s.closers, func() { os.RemoveAll(dir) })
	switch backend {
	case "kv":
		be, err := kvdb.GetBoltBackend(&kvdb.BoltBackendConfig{
			DBPath: dir, DBFileName: "kv.db", NoFreelistSync: true,
			DBTimeout: kvdb.DefaultDBTimeout,
		})
		if err != nil {
			s.Close()
			t.Fatalf("bolt: %v", err)
		}
		s.closers = append(s.closers, func() { be.Close() })
		kv, err := paymentsdb.NewKVStore(&verifC16CKV{Backend: be, s: s.sched})
		if err != nil {
			s.Close()
			t.Fatalf("kvstore: %v", err)
		}
		s.db = kv
	default:
		sdb, err := sqldb.NewSqliteStore(&sqldb.SqliteConfig{},
			filepath.Join(dir, "sql.db"))
		if err != nil {
			s.Close()
			t.Fatalf("sqlite: %v", err)
		}
		s.closers = append(s.closers, func() { sdb.DB.Close() })
		err = sdb.ApplyAllMigrations(context.Background(),
			sqldb.GetMigrations())
		if err != nil {
			s.Close()
			t.Fatalf("migrations: %v", err)
		}
		base := sdb.BaseDB
		ex := sqldb.NewTransactionExecutor(base,
			func(tx *sql.Tx) paymentsdb.SQLQueries {
				return base.WithTx(tx)
			})
		sq, err := paymentsdb.NewSQLStore(&paymentsdb.SQLStoreConfig{
			QueryCfg: sqldb.DefaultSQLiteConfig()},
			&verifC16CSQL{BatchedSQLQueries: ex, s: s.sched})
		if err != nil {
			s.Close()
			t.Fatalf("sqlstore: %v", err)
		}
		s.db = sq
	}
	s.tower = NewControlTower(s.db)
	return s
}

var verifC16CVertex = func() route.Vertex {
	var v route.Vertex
	_, pub := btcec.PrivKeyFromBytes([]byte{0x01, 0x02, 0x03, 0x04, 0x05, 0x06,
		0x07, 0x08, 0x09, 0x0a, 0x0b, 0x0c, 0x0d, 0x0e, 0x0f, 0x10, 0x11,
		0x12, 0x13, 0x14, 0x15, 0x16, 0x17, 0x18, 0x19, 0x1a, 0x1b, 0x1c,
		0x1d, 0x1e, 0x1f, 0x20})
	copy(v[:], pub.SerializeCompressed())
	return v
}()

var verifC16CTime = time.Unix(1700000000, 0)

func verifC16CAttempt(in verifC16CIn, h lntypes.Hash, total uint64,
	keySeed uint64) (*paymentsdb.HTLCAttemptInfo, error) {

	hop := &route.Hop{
		PubKeyBytes:      verifC16CVertex,
		ChannelID:        7,
		OutgoingTimeLock: 90,
		AmtToForward:     lnwire.MilliSatoshi(in.Amt),
	}
	if !in.Plain {
		hop.MPP = record.NewMPP(lnwire.MilliSatoshi(total), [32]byte{4})
	}
	rt := route.Route{
		TotalTimeLock: 100,
		TotalAmount:   lnwire.MilliSatoshi(in.Amt),
		SourcePubKey:  verifC16CVertex,
		Hops:          []*route.Hop{hop},
	}
	var kb [32]byte
	x := keySeed
	for i := 0; i < 32; i += 8 {
		x = verifMix(x + 0x7654321)
		for j := 0; j < 8; j++ {
			kb[i+j] = byte(x >> (8 * j))
		}
	}
	kb[0] = 0x01 | (kb[0] & 0x3f)
	priv, _ := btcec.PrivKeyFromBytes(kb[:])
	hh := h
	a, err := paymentsdb.NewHtlcAttempt(in.ID, priv, rt,
		verifC16CTime.Add(time.Duration(in.ID%100000)*time.Second), &hh)
	if err != nil {
		return nil, err
	}
	return &a.HTLCAttemptInfo, nil
}

func verifC16CClass(err error) string {
	switch {
	case err == nil:
		return "ok"
	case sqldb.IsSerializationError(err),
		strings.Contains(err.Error(), "SQLITE_BUSY"),
		strings.Contains(err.Error(), "database is locked"),
		strings.Contains(err.Error(), "retries exceeded"):

		return "db_busy"
	}
	return "refused"
}

func verifC16CProject(p *paymentsdb.MPPayment) string {
	if p == nil || p.Info == nil || p.State == nil {
		return "<nil>"
	}
	st := verifC16CNone
	switch p.Status {
	case paymentsdb.StatusInitiated:
		st = verifC16CInitiated
	case paymentsdb.StatusInFlight:
		st = verifC16CInFlight
	case paymentsdb.StatusSucceeded:
		st = verifC16CSucceeded
	case paymentsdb.StatusFailed:
		st = verifC16CFailed
	}
	reason := -1
	if p.FailureReason != nil {
		reason = int(*p.FailureReason)
	}
	type att struct {
		id, amt uint64
		s, f    bool
	}
	var atts []att
	for _, a := range p.HTLCs {
		atts = append(atts, att{a.AttemptID, uint64(a.Route.ReceiverAmt()),
			a.Settle != nil, a.Failure != nil})
	}
	sort.Slice(atts, func(i, j int) bool { return atts[i].id < atts[j].id })
	var sb strings.Builder
	fmt.Fprintf(&sb, "%s v=%d rem=%d fr=%d", verifC16CName[st],
		uint64(p.Info.Value), uint64(p.State.RemainingAmt), reason)
	for _, a := range atts {
		fmt.Fprintf(&sb, " {%d a=%d s=%v f=%v}", a.id, a.amt, a.s, a.f)
	}
	return sb.String()
}

// verifC16CSelfCheck evaluates, on one returned record and without the model,
// the two clauses of the statement that speak about a reported payment: the
// settled plus in-flight attempt amounts stay within the payment amount, and
// the status is the documented function of the attempts and failure reason.
func verifC16CSelfCheck(p *paymentsdb.MPPayment) (kind, detail string) {
	if p == nil || p.Info == nil {
		return "", ""
	}
	var sent uint64
	var i, s, f bool
	for _, a := range p.HTLCs {
		switch {
		case a.Failure != nil:
			f = true
		case a.Settle != nil:
			s = true
			sent += uint64(a.Route.ReceiverAmt())
		default:
			i = true
			sent += uint64(a.Route.ReceiverAmt())
		}
	}
	if sent > uint64(p.Info.Value) {
		return "conservation", fmt.Sprintf("settled+in-flight %d exceed "+
			"value %d", sent, uint64(p.Info.Value))
	}
	want := verifC16CTruth[verifC16CB(i)<<3|verifC16CB(s)<<2|
		verifC16CB(f)<<1|verifC16CB(p.FailureReason != nil)]
	got := map[paymentsdb.PaymentStatus]int{
		paymentsdb.StatusInitiated: verifC16CInitiated,
		paymentsdb.StatusInFlight:  verifC16CInFlight,
		paymentsdb.StatusSucceeded: verifC16CSucceeded,
		paymentsdb.StatusFailed:    verifC16CFailed}[p.Status]
	if want != got {
		return "status", fmt.Sprintf("record reports %s, documented "+
			"function of its attempts gives %s", verifC16CName[got],
			verifC16CName[want])
	}
	return "", ""
}

type verifC16CRec struct {
	Client int          `json:"client"`
	In     verifC16CIn  `json:"in"`
	Out    verifC16COut `json:"out"`
	Call   int64        `json:"call"`
	Ret    int64        `json:"ret"`
}

type verifC16CCase struct {
	st     *verifC16CStores
	hashes []lntypes.Hash
	value  uint64
	atts   map[uint64]*paymentsdb.HTLCAttemptInfo
	clock  atomic.Int64
	mu     sync.Mutex
	recs   []verifC16CRec
	cls    map[int]*verifC16CClient
	// direct: the clients call the paymentsdb.DB methods themselves
	// instead of going through the ControlTower (whose per-hash mutex
	// serialises RegisterAttempt / SettleAttempt / FailAttempt /
	// FailPayment / InitPayment). The documented caller contract of the
	// store (PaymentControl.RegisterAttempt: "Callers MUST serialize calls
	// to RegisterAttempt for the same payment hash") is kept by regMu: at
	// most one RegisterAttempt per hash is in progress at any time. No
	// other method pair is documented as needing caller serialisation
	// (Fail: "allows concurrent calls ... without synchronization").
	direct bool
	regMu  []sync.Mutex
}

// ret records the MPPayment a direct store call returned.
func (c *verifC16CCase) ret(out *verifC16COut, p *paymentsdb.MPPayment,
	err error) {

	if err != nil || p == nil {
		return
	}
	out.Proj = verifC16CProject(p)
	if k, d := verifC16CSelfCheck(p); k != "" {
		out.Self = k + ": " + d
	}
}

func (c *verifC16CCase) exec(client int, in verifC16CIn) verifC16COut {
	ctx := context.Background()
	var h lntypes.Hash
	if in.H >= 0 {
		h = c.hashes[in.H]
	}
	var (
		err error
		out verifC16COut
	)
	call := c.clock.Add(1)
	if cl := c.cls[client]; cl != nil {
		cl.call.Store(call)
	}
	db := c.st.db
	switch {
	case !c.direct:
	case in.K == "init":
		err = db.InitPayment(ctx, h, &paymentsdb.PaymentCreationInfo{
			PaymentIdentifier: h, Value: lnwire.MilliSatoshi(in.Val),
			CreationTime: verifC16CTime, PaymentRequest: []byte("verif"),
		})
	case in.K == "reg":
		var p *paymentsdb.MPPayment
		c.regMu[in.H].Lock()
		p, err = db.RegisterAttempt(ctx, h, c.atts[in.ID])
		c.regMu[in.H].Unlock()
		c.ret(&out, p, err)
	case in.K == "settle":
		var p *paymentsdb.MPPayment
		p, err = db.SettleAttempt(ctx, h, in.ID,
			&paymentsdb.HTLCSettleInfo{Preimage: lntypes.Preimage{7},
				SettleTime: verifC16CTime})
		c.ret(&out, p, err)
	case in.K == "failatt":
		var p *paymentsdb.MPPayment
		p, err = db.FailAttempt(ctx, h, in.ID,
			&paymentsdb.HTLCFailInfo{Reason: paymentsdb.HTLCFailInternal,
				FailTime: verifC16CTime})
		c.ret(&out, p, err)
	case in.K == "failpay":
		var p *paymentsdb.MPPayment
		p, err = db.Fail(ctx, h, paymentsdb.FailureReason(in.Reason))
		c.ret(&out, p, err)
	case in.K == "delfa":
		err = db.DeleteFailedAttempts(ctx, h)
	case in.K == "fetch":
		var p *paymentsdb.MPPayment
		p, err = db.FetchPayment(ctx, h)
		c.ret(&out, p, err)
	}
	direct := c.direct && in.K != "del" && in.K != "delall"
	switch {
	case direct:
	case in.K == "init":
		err = c.st.tower.InitPayment(ctx, h, &paymentsdb.PaymentCreationInfo{
			PaymentIdentifier: h, Value: lnwire.MilliSatoshi(in.Val),
			CreationTime: verifC16CTime, PaymentRequest: []byte("verif"),
		})
	case in.K == "reg":
		err = c.st.tower.RegisterAttempt(ctx, h, c.atts[in.ID])
	case in.K == "settle":
		_, err = c.st.tower.SettleAttempt(ctx, h, in.ID,
			&paymentsdb.HTLCSettleInfo{Preimage: lntypes.Preimage{7},
				SettleTime: verifC16CTime})
	case in.K == "failatt":
		_, err = c.st.tower.FailAttempt(ctx, h, in.ID,
			&paymentsdb.HTLCFailInfo{Reason: paymentsdb.HTLCFailInternal,
				FailTime: verifC16CTime})
	case in.K == "failpay":
		err = c.st.tower.FailPayment(ctx, h,
			paymentsdb.FailureReason(in.Reason))
	case in.K == "del":
		// As the RPC server does: straight on the store.
		err = c.st.db.DeletePayment(ctx, h, in.HO)
	case in.K == "delall":
		out.N, err = c.st.db.DeletePayments(ctx, in.FO, in.HO)
	case in.K == "delfa":
		err = c.st.tower.DeleteFailedAttempts(ctx, h)
	case in.K == "fetch":
		var p paymentsdb.DBMPPayment
		p, err = c.st.tower.FetchPayment(ctx, h)
		if err == nil {
			mp, _ := p.(*paymentsdb.MPPayment)
			out.Proj = verifC16CProject(mp)
			if k, d := verifC16CSelfCheck(mp); k != "" {
				out.Self = k + ": " + d
			}
		}
	}
	ret := c.clock.Add(1)
	out.Class = verifC16CClass(err)
	if in.K == "init" && err != nil &&
		errors.Is(err, paymentsdb.ErrPaymentNotInitiated) {

		out.Class = "vanished"
	}
	if err != nil {
		out.Err = err.Error()
		if len(out.Err) > 160 {
			out.Err = out.Err[:160]
		}
	}
	c.mu.Lock()
	c.recs = append(c.recs, verifC16CRec{Client: client, In: in, Out: out,
		Call: call, Ret: ret})
	c.mu.Unlock()
	return out
}

// verifC16CGen produces the per-client op lists of one case. In the "contend"
// profile every payment starts freshly initiated (at most one failed attempt)
// and the first operation of every client - all clients are released together
// - is drawn from the operations that are admissible in that state, so that
// store-level deletes / initiations race tower registrations at once.
func verifC16CGen(r *verifRng, base uint64, nh int, value uint64,
	contend bool) (pre []verifC16CIn, clients [][]verifC16CIn) {

	nextID := base
	var regIDs [][]uint64 = make([][]uint64, nh)
	amounts := func() uint64 {
		switch r.Intn(8) {
		case 0:
			return value
		case 1, 2:
			return value / 2
		case 3:
			return value/2 + 1
		case 4:
			return value / 4
		case 5:
			return value/3 + 1
		case 6:
			return 1
		default:
			return value - value/4
		}
	}
	mkReg := func(h int) verifC16CIn {
		nextID++
		in := verifC16CIn{K: "reg", H: h, ID: nextID, Amt: amounts()}
		if r.Chance(1, 12) {
			in.Plain = true
			in.Amt = value
		}
		regIDs[h] = append(regIDs[h], in.ID)
		return in
	}
	mkDelAll := func() verifC16CIn {
		in := verifC16CIn{K: "delall", H: -1}
		switch w := r.Intn(10); {
		case w < 5:
		case w < 7:
			in.FO = true
		case w < 9:
			in.HO = true
		default:
			in.FO, in.HO = true, true
		}
		return in
	}
	// Start state of the contend profile: 0 initiated, 1 unknown, 2 failed.
	cstate := 0
	if contend {
		switch w := r.Intn(100); {
		case w < 60:
		case w < 75:
			cstate = 1
		default:
			cstate = 2
		}
	}
	for h := 0; h < nh; h++ {
		switch {
		case contend && cstate == 1:
		case contend:
			pre = append(pre, verifC16CIn{K: "init", H: h, Val: value})
			if r.Chance(1, 3) {
				in := mkReg(h)
				in.Amt = value / 4
				in.Plain = false
				pre = append(pre, in)
				if cstate == 2 || r.Chance(3, 4) {
					pre = append(pre, verifC16CIn{K: "failatt", H: h,
						ID: in.ID})
				}
			}
			if cstate == 2 {
				pre = append(pre, verifC16CIn{K: "failpay", H: h,
					Reason: byte(r.Intn(6))})
			}
		case r.Chance(5, 6):
			pre = append(pre, verifC16CIn{K: "init", H: h, Val: value})
			for k := r.Intn(3); k > 0; k-- {
				in := mkReg(h)
				in.Amt = value / 4
				in.Plain = false
				pre = append(pre, in)
			}
		}
	}
	nc := 2 + r.Intn(3)
	clients = make([][]verifC16CIn, nc)
	for c := 0; c < nc; c++ {
		n := 3 + r.Intn(4)
		if contend {
			n = 2 + r.Intn(3)
		}
		clients[c] = make([]verifC16CIn, n)
		for i := 0; i < n; i++ {
			h := r.Intn(nh)
			w := r.Intn(100)
			var in verifC16CIn
			switch {
			case contend && i == 0 && cstate != 0:
				switch {
				case w < 45:
					in = verifC16CIn{K: "init", H: h, Val: value}
				case w < 60:
					in = mkReg(h)
				case w < 75:
					in = mkDelAll()
				case w < 83:
					in = verifC16CIn{K: "del", H: h}
				case w < 88:
					in = verifC16CIn{K: "failpay", H: h,
						Reason: byte(r.Intn(6))}
				case w < 93:
					in = verifC16CIn{K: "delfa", H: h}
				default:
					in = verifC16CIn{K: "fetch", H: h}
				}
			case contend && i == 0:
				switch {
				case w < 45:
					in = mkReg(h)
				case w < 65:
					in = mkDelAll()
				case w < 73:
					in = verifC16CIn{K: "del", H: h}
				case w < 75:
					in = verifC16CIn{K: "del", H: h, HO: true}
				case w < 81:
					in = verifC16CIn{K: "init", H: h, Val: value}
				case w < 89:
					in = verifC16CIn{K: "failpay", H: h,
						Reason: byte(r.Intn(6))}
				case w < 93:
					in = verifC16CIn{K: "delfa", H: h}
				default:
					in = verifC16CIn{K: "fetch", H: h}
				}
			case w < 32:
				in = mkReg(h)
			case w < 46:
				in = verifC16CIn{K: "settle", H: h}
			case w < 60:
				in = verifC16CIn{K: "failatt", H: h}
			case w < 67:
				in = verifC16CIn{K: "failpay", H: h,
					Reason: byte(r.Intn(6))}
			case w < 76:
				in = verifC16CIn{K: "fetch", H: h}
			case w < 84:
				in = verifC16CIn{K: "init", H: h, Val: value}
			case w < 88:
				in = verifC16CIn{K: "del", H: h}
			case w < 90:
				in = verifC16CIn{K: "del", H: h, HO: true}
			case w < 93:
				in = verifC16CIn{K: "delfa", H: h}
			default:
				in = mkDelAll()
			}
			clients[c][i] = in
		}
	}
	for c := range clients {
		for i := range clients[c] {
			in := &clients[c][i]
			if in.K != "settle" && in.K != "failatt" {
				continue
			}
			ids := regIDs[in.H]
			if len(ids) == 0 || r.Chance(1, 20) {
				in.ID = base + 60 // never registered
				continue
			}
			in.ID = ids[r.Intn(len(ids))]
		}
	}
	return pre, clients
}

// verifC16CGenRace produces the "race" profile: one payment hash, driven on
// the store itself (direct). The first operation of client 0 is a
// RegisterAttempt, the first operation of client 1 - both are released together
// - is the operation it races with on that hash, with amounts and start state
// such that the registration is admissible before and inadmissible after the
// other operation (settle of the other shard, payment-level failure, delete)
// or the other way round (fail of the other shard, re-initiation). Whatever
// the store makes of it, the outcome has to be one of the two serial orders.
func verifC16CGenRace(r *verifRng, base, value uint64) (pre []verifC16CIn,
	clients [][]verifC16CIn, kind string) {

	nextID := base
	var ids []uint64
	reg := func(amt uint64) verifC16CIn {
		nextID++
		ids = append(ids, nextID)
		return verifC16CIn{K: "reg", H: 0, ID: nextID, Amt: amt}
	}
	small := func() uint64 {
		if r.Bool() {
			return value / 4
		}
		return value / 2
	}
	pre = append(pre, verifC16CIn{K: "init", H: 0, Val: value})
	failedShard := func() {
		a := reg(value / 4)
		pre = append(pre, a, verifC16CIn{K: "failatt", H: 0, ID: a.ID})
	}
	var x, y verifC16CIn
	switch w := r.Intn(100); {
	case w < 40:
		// The only other in-flight shard settles.
		kind = "settle"
		if r.Chance(1, 4) {
			failedShard()
		}
		a := reg(value / 2)
		pre = append(pre, a)
		x, y = reg(small()), verifC16CIn{K: "settle", H: 0, ID: a.ID}
	case w < 72:
		// The payment is failed (with or without a shard in flight).
		kind = "failpay"
		if r.Chance(1, 4) {
			failedShard()
		}
		if r.Chance(2, 3) {
			pre = append(pre, reg(value/2))
		}
		x, y = reg(small()), verifC16CIn{K: "failpay", H: 0,
			Reason: byte(r.Intn(6))}
	case w < 82:
		// The other shard fails: too much before, fits afterwards.
		kind = "failatt"
		a := reg(value / 2)
		pre = append(pre, a)
		x, y = reg(value-value/4), verifC16CIn{K: "failatt", H: 0, ID: a.ID}
	case w < 91:
		// An initiated payment without live shards is deleted.
		kind = "del"
		if r.Chance(1, 3) {
			failedShard()
		}
		x = reg(small())
		if r.Bool() {
			y = verifC16CIn{K: "del", H: 0}
		} else {
			y = verifC16CIn{K: "delall", H: -1}
		}
	default:
		// A failed payment is initiated again.
		kind = "init"
		failedShard()
		pre = append(pre, verifC16CIn{K: "failpay", H: 0,
			Reason: byte(r.Intn(6))})
		x, y = reg(small()), verifC16CIn{K: "init", H: 0, Val: value}
	}
	extra := func() verifC16CIn {
		switch w := r.Intn(100); {
		case w < 38:
			return verifC16CIn{K: "fetch", H: 0}
		case w < 56:
			in := reg(value / 4)
			if r.Chance(1, 4) {
				in.Amt = 1
			}
			return in
		case w < 68:
			return verifC16CIn{K: "settle", H: 0}
		case w < 80:
			return verifC16CIn{K: "failatt", H: 0}
		case w < 88:
			return verifC16CIn{K: "failpay", H: 0, Reason: byte(r.Intn(6))}
		case w < 93:
			return verifC16CIn{K: "delfa", H: 0}
		case w < 97:
			return verifC16CIn{K: "init", H: 0, Val: value}
		default:
			return verifC16CIn{K: "del", H: 0}
		}
	}
	nc := 2 + r.Intn(3)
	clients = make([][]verifC16CIn, nc)
	clients[0] = []verifC16CIn{x}
	clients[1] = []verifC16CIn{y}
	for c := 0; c < nc; c++ {
		n := r.Intn(3)
		if c >= 2 {
			n = 1 + r.Intn(3)
		}
		for ; n > 0; n-- {
			clients[c] = append(clients[c], extra())
		}
	}
	for c := range clients {
		for i := range clients[c] {
			in := &clients[c][i]
			if (in.K == "settle" || in.K == "failatt") && in.ID == 0 {
				in.ID = ids[r.Intn(len(ids))]
			}
		}
	}
	return pre, clients, kind
}

func verifC16COverlaps(recs []verifC16CRec) int {
	n := 0
	for i := range recs {
		for j := i + 1; j < len(recs); j++ {
			a, b := recs[i], recs[j]
			sameHash := a.In.H == b.In.H || a.In.H < 0 || b.In.H < 0
			if sameHash && a.Client != b.Client &&
				a.Call < b.Ret && b.Call < a.Ret {

				n++
			}
		}
	}
	return n
}

func verifC16CRunCase(t *testing.T, vc *verifCtx, st *verifC16CStores,
	rng *verifRng, idx int) (dirty bool) {

	// Profiles: a quarter of the histories is the "race" profile (one hash,
	// RegisterAttempt against the operation that changes its admissibility,
	// on the store itself); an eighth of the others drives the store
	// directly with the general operation mix.
	race := rng.Chance(1, 4)
	direct := race || rng.Chance(1, 8)
	nh := 1
	if rng.Chance(1, 4) {
		nh = 2
	}
	contend := rng.Chance(1, 3)
	if race {
		nh, contend = 1, false
	}
	value := uint64(1000)
	if rng.Chance(1, 5) {
		value = 4 + rng.U64n(8)
	}
	c := &verifC16CCase{st: st, value: value,
		atts: map[uint64]*paymentsdb.HTLCAttemptInfo{},
		cls:  map[int]*verifC16CClient{}, direct: direct,
		regMu: make([]sync.Mutex, nh)}
	for h := 0; h < nh; h++ {
		var hh lntypes.Hash
		copy(hh[:], rng.Bytes(32))
		c.hashes = append(c.hashes, hh)
	}
	base := uint64(idx+1) * 128
	var (
		pre      []verifC16CIn
		clients  [][]verifC16CIn
		raceKind string
	)
	if race {
		pre, clients, raceKind = verifC16CGenRace(rng, base, value)
	} else {
		pre, clients = verifC16CGen(rng, base, nh, value, contend)
	}
	all := append([]verifC16CIn(nil), pre...)
	for _, cl := range clients {
		all = append(all, cl...)
	}
	for _, in := range all {
		if in.K != "reg" {
			continue
		}
		a, err := verifC16CAttempt(in, c.hashes[in.H], value,
			uint64(idx)<<16|in.ID&0xffff)
		if err != nil {
			t.Fatalf("attempt: %v", err)
		}
		c.atts[in.ID] = a
	}

	for _, in := range pre {
		c.exec(0, in)
	}
	preLen := len(c.recs)

	for ci := range clients {
		c.cls[ci+1] = &verifC16CClient{id: ci + 1}
	}
	st.sched.arm(rng.Fork("sched"))
	st.sched.running.Store(int64(len(clients)))
	start := make(chan struct{})
	var wg sync.WaitGroup
	for ci := range clients {
		wg.Add(1)
		go func(ci int) {
			defer wg.Done()
			gid := verifC16CGoid()
			st.sched.clients.Store(gid, c.cls[ci+1])
			defer st.sched.clients.Delete(gid)
			defer st.sched.running.Add(-1)
			<-start
			for _, in := range clients[ci] {
				c.exec(ci+1, in)
			}
		}(ci)
	}
	close(start)
	done := make(chan struct{})
	go func() { wg.Wait(); close(done) }()
	select {
	case <-done:
	case <-time.After(5 * time.Minute):
		t.Fatalf("verif: concurrent clients did not finish (watchdog)")
	}
	txlog := st.sched.disarm()
	concLen := len(c.recs)
	finalProj := make([]verifC16COut, nh)
	for h := 0; h < nh; h++ {
		finalProj[h] = c.exec(0, verifC16CIn{K: "fetch", H: h})
	}

	// Attempts that were admitted and that no settle / fail call may have
	// resolved: nothing can take them out of flight, so their payment
	// stays in flight whatever else was called.
	unresolved := make([][]uint64, nh)
	{
		maybeResolved := map[uint64]bool{}
		for _, r := range c.recs {
			if (r.In.K == "settle" || r.In.K == "failatt") &&
				r.Out.Class != "refused" {

				maybeResolved[r.In.ID] = true
			}
		}
		for _, r := range c.recs {
			if r.In.K == "reg" && r.Out.Class == "ok" &&
				!maybeResolved[r.In.ID] {

				unresolved[r.In.H] = append(unresolved[r.In.H], r.In.ID)
			}
		}
	}
	probe := make([]*verifC16COut, nh)
	for h := 0; h < nh; h++ {
		if len(unresolved[h]) == 0 {
			continue
		}
		o := c.exec(0, verifC16CIn{K: "init", H: h, Val: value})
		probe[h] = &o
	}

	recs := append([]verifC16CRec(nil), c.recs...)
	sort.Slice(recs, func(i, j int) bool { return recs[i].Call < recs[j].Call })
	witness := map[string]any{"case": idx, "backend": st.backend,
		"value": value, "contend": contend, "direct": direct,
		"race": raceKind, "history": recs, "txlog": txlog}

	vc.Count("histories", 1)
	vc.Count("history_ops", int64(len(recs)))
	busy := 0
	for _, r := range recs {
		if r.Out.Class == "db_busy" {
			busy++
		}
		if r.Out.Class == "vanished" {
			vc.Count("init_vanished", 1)
		}
	}
	if busy > 0 {
		vc.Count("db_busy_answers", int64(busy))
	}
	ov := verifC16COverlaps(recs[preLen:concLen])
	if ov > 0 {
		vc.Count("histories_with_overlap", 1)
		vc.Count("overlapping_pairs", int64(ov))
	}

	// What the interposer observed.
	{
		multi, gaps, inter := verifC16CGaps(txlog)
		vc.Count("tx_observed", int64(len(txlog)))
		vc.Count("calls_multi_tx", int64(multi))
		vc.Count("multi_tx_gaps", int64(gaps))
		vc.Count("gaps_interleaved", int64(inter))
		vc.Count("holds_after_tx", st.sched.holds.Load())
		vc.Count("holds_released_by_commit", st.sched.holdsOK.Load())
		vc.Count("holds_after_ro_tx", st.sched.roHolds.Load())
		vc.Count("holds_after_ro_released_by_commit", st.sched.roOK.Load())
		if direct {
			vc.Count("histories_direct", 1)
			vc.Count("histories_direct_"+st.backend, 1)
		}
		for _, r := range recs[preLen:concLen] {
			if r.In.K != "fetch" && r.Out.Proj != "" {
				vc.Count("eval_returned_record", 1)
			}
		}
		if race {
			vc.Count("histories_race", 1)
			vc.Count("histories_race_"+st.backend, 1)
			vc.Count("race_kind_"+raceKind, 1)
			// First operations of client 1 (the registration) and
			// client 2 (its opponent).
			var x, y *verifC16CRec
			for i := preLen; i < concLen; i++ {
				r := &recs[i]
				if r.Client == 1 && x == nil {
					x = r
				}
				if r.Client == 2 && y == nil {
					y = r
				}
			}
			if x != nil && y != nil && x.Call < y.Ret && y.Call < x.Ret {
				vc.Count("race_pair_overlapped", 1)
				vc.Count("race_pair_overlapped_"+st.backend, 1)
			}
		}
		if inter > 0 {
			vc.Count("interleaved_between_tx", 1)
			vc.Count("interleaved_between_tx_"+st.backend, 1)
		}
		if contend {
			vc.Count("histories_contend", 1)
		}
		nDelAll, delAllOv := 0, 0
		for _, r := range recs[preLen:concLen] {
			if r.In.K != "delall" {
				continue
			}
			nDelAll++
			vc.Count("delall_calls", 1)
			if r.Out.Class == "ok" && r.Out.N > 0 {
				vc.Count("delall_deleted_some", 1)
			}
			if r.Out.Class == "ok" && (r.Out.N < 0 || r.Out.N > nh ||
				(r.In.HO && r.Out.N != 0)) {

				vc.Diag("conc_delall_count", fmt.Sprintf("case %d: %+v -> %d",
					idx, r.In, r.Out.N))
			}
			for _, o := range recs[preLen:concLen] {
				if o.Client != r.Client && o.In.K == "reg" &&
					o.Call < r.Ret && r.Call < o.Ret {

					delAllOv++
					break
				}
			}
		}
		if nDelAll > 0 {
			vc.Count("histories_with_delall", 1)
			vc.Count("histories_with_delall_"+st.backend, 1)
		}
		if delAllOv > 0 {
			vc.Count("histories_delall_overlaps_reg", 1)
		}
	}

	// (1) linearizability. The bulk delete acts on every hash: one
	// sub-operation per hash with the stamps of the call.
	ambiguous := false
	ops := make([]porcupine.Operation, 0, len(recs)+4)
	for _, r := range recs {
		if r.In.K == "init" && r.Out.Class == "db_busy" {
			ambiguous = true
		}
		if r.In.K == "delall" {
			for h := 0; h < nh; h++ {
				in := r.In
				in.H = h
				ops = append(ops, porcupine.Operation{ClientId: r.Client,
					Input: in, Call: r.Call, Output: r.Out, Return: r.Ret})
			}
			continue
		}
		ops = append(ops, porcupine.Operation{ClientId: r.Client, Input: r.In,
			Call: r.Call, Output: r.Out, Return: r.Ret})
	}
	res := porcupine.Unknown
	if ambiguous {
		vc.Count("lin_skipped_ambiguous", 1)
	} else {
		res, _ = porcupine.CheckOperationsVerbose(verifC16CModel, ops,
			20*time.Second)
		vc.Count("eval_linearizability", 1)
	}
	switch res {
	case porcupine.Ok:
		vc.Count("lin_ok", 1)
	case porcupine.Unknown:
		if !ambiguous {
			vc.Count("lin_unknown", 1)
			vc.Diag("porcupine_timeout", fmt.Sprintf("case %d", idx))
		}
	case porcupine.Illegal:
		vc.Violation("linearizability", st.backend,
			"client-boundary history is not linearizable against the "+
				"sequential payment-store model", witness)
		dirty = true
	}

	// (2) model-free checks, meaningful when no payment was (re)created or
	// deleted during the concurrent phase.
	stable := true
	for _, r := range recs[preLen:concLen] {
		switch {
		case r.In.K == "init" && r.Out.Class != "refused",
			r.In.K == "del" && !r.In.HO && r.Out.Class != "refused",
			r.In.K == "delall" && !r.In.HO &&
				(r.Out.Class != "ok" || r.Out.N != 0):

			stable = false
		}
	}
	if stable {
		vc.Count("eval_conc_invariants", 1)
		for h := 0; h < nh; h++ {
			var live uint64
			exists := false
			failed := map[uint64]bool{}
			var firstTerminalRet int64 = -1
			for _, r := range recs {
				if r.In.H != h || r.Out.Class != "ok" {
					continue
				}
				switch r.In.K {
				case "init":
					exists = true
				case "failatt":
					failed[r.In.ID] = true
				case "settle", "failpay":
					if firstTerminalRet < 0 || r.Ret < firstTerminalRet {
						firstTerminalRet = r.Ret
					}
				}
			}
			for _, r := range recs {
				if r.In.H != h || r.In.K != "reg" || r.Out.Class != "ok" {
					continue
				}
				if !failed[r.In.ID] {
					live += r.In.Amt
				}
				if firstTerminalRet >= 0 && r.Call > firstTerminalRet {
					vc.Violation("conc_attempt_after_terminal", st.backend,
						fmt.Sprintf("attempt %d admitted by a call that "+
							"started after a settle / payment failure "+
							"had returned", r.In.ID), witness)
					dirty = true
				}
			}
			// "a succeeded payment never changes status": once a
			// call has returned a record reporting Succeeded, no
			// call that starts later may return another status
			// (no payment was created or deleted in this history).
			var succRet int64 = -1
			for _, r := range recs {
				if r.In.H == h && r.Out.Class == "ok" &&
					strings.HasPrefix(r.Out.Proj, "succeeded ") &&
					(succRet < 0 || r.Ret < succRet) {

					succRet = r.Ret
				}
			}
			if succRet >= 0 {
				vc.Count("eval_succeeded_absorbing", 1)
			}
			for _, r := range recs {
				if succRet < 0 || r.In.H != h || r.Call < succRet ||
					r.Out.Class != "ok" || r.Out.Proj == "" ||
					strings.HasPrefix(r.Out.Proj, "succeeded ") {

					continue
				}
				vc.Violation("conc_succeeded_absorbing", st.backend,
					fmt.Sprintf("a record reporting Succeeded had been "+
						"returned, a later %s call returned %q",
						r.In.K, r.Out.Proj), witness)
				dirty = true
				break
			}
			if exists && live > value {
				vc.Violation("conc_conservation", st.backend+":admitted",
					fmt.Sprintf("admitted, not failed attempt amounts %d "+
						"exceed the payment value %d", live, value), witness)
				dirty = true
			}
		}
	}

	// (2b) every record a fetch returned while the clients were running.
	for _, r := range recs[preLen:concLen] {
		if r.Out.Class != "ok" || (r.In.K != "fetch" && r.Out.Proj == "") {
			continue
		}
		if r.In.K != "fetch" {
			// Record returned by a direct store call.
			if r.Out.Self != "" {
				vc.Violation("conc_status_function",
					st.backend+":returned", r.In.K+" returned record: "+
						r.Out.Self, witness)
				dirty = true
			}
			continue
		}
		vc.Count("eval_fetched_record", 1)
		if r.Out.Self != "" {
			vc.Violation("conc_status_function", st.backend+":fetched",
				"fetched record: "+r.Out.Self, witness)
			dirty = true
		}
	}

	// (2c) admitted and never resolved attempts keep their hash in flight
	// and not re-initiable.
	for h := 0; h < nh; h++ {
		if len(unresolved[h]) == 0 {
			continue
		}
		vc.Count("eval_inflight_kept", 1)
		if finalProj[h].Class == "refused" || (finalProj[h].Class == "ok" &&
			!strings.HasPrefix(finalProj[h].Proj, "inflight ")) {

			vc.Violation("conc_inflight_status", st.backend,
				fmt.Sprintf("attempts %v were admitted and never settled "+
					"or failed, the final reported state is %q (%s)",
					unresolved[h], finalProj[h].Proj, finalProj[h].Err),
				witness)
			dirty = true
		}
		if probe[h] != nil && (probe[h].Class == "ok" ||
			probe[h].Class == "vanished") {

			vc.Violation("conc_reinit_inflight", st.backend,
				fmt.Sprintf("InitPayment admitted although attempts %v "+
					"were admitted and never settled or failed",
					unresolved[h]), witness)
			dirty = true
		}
	}

	// (3) final record.
	for h := 0; h < nh; h++ {
		p, err := st.db.FetchPayment(context.Background(), c.hashes[h])
		if err != nil {
			continue
		}
		vc.Count("eval_final_record", 1)
		var sent uint64
		var i, s, f bool
		for _, a := range p.HTLCs {
			switch {
			case a.Failure != nil:
				f = true
			case a.Settle != nil:
				s = true
				sent += uint64(a.Route.ReceiverAmt())
			default:
				i = true
				sent += uint64(a.Route.ReceiverAmt())
			}
		}
		if sent > uint64(p.Info.Value) {
			vc.Violation("conc_conservation", st.backend+":record",
				fmt.Sprintf("final record: settled+in-flight %d exceed "+
					"value %d", sent, uint64(p.Info.Value)), witness)
			dirty = true
		}
		want := verifC16CTruth[verifC16CB(i)<<3|verifC16CB(s)<<2|
			verifC16CB(f)<<1|verifC16CB(p.FailureReason != nil)]
		got := map[paymentsdb.PaymentStatus]int{
			paymentsdb.StatusInitiated: verifC16CInitiated,
			paymentsdb.StatusInFlight:  verifC16CInFlight,
			paymentsdb.StatusSucceeded: verifC16CSucceeded,
			paymentsdb.StatusFailed:    verifC16CFailed}[p.Status]
		if want != got {
			vc.Violation("conc_final_status", st.backend,
				fmt.Sprintf("final record reports %s, documented function "+
					"of its attempts gives %s", verifC16CName[got],
					verifC16CName[want]), witness)
			dirty = true
		}
	}

	if ov > 0 {
		var toks []string
		for _, r := range recs[preLen:concLen] {
			k := r.In.K
			if k == "delall" || k == "del" {
				k += fmt.Sprintf("%d%d", verifC16CB(r.In.FO),
					verifC16CB(r.In.HO))
			}
			toks = append(toks, k+":"+r.Out.Class)
		}
		sort.Strings(toks)
		vc.Sig(fmt.Sprintf("%s|%d|%v%s|%s", st.backend, len(clients), direct,
			raceKind, strings.Join(toks, ",")))
	}
	if idx%97 == 0 {
		vc.Sample(witness)
	}

	// Cleanup: drive to a terminal state and delete (not judged).
	ctx := context.Background()
	for h := 0; h < nh; h++ {
		p, err := st.db.FetchPayment(ctx, c.hashes[h])
		if err != nil {
			continue
		}
		for _, a := range p.InFlightHTLCs() {
			_, err := st.db.FailAttempt(ctx, c.hashes[h], a.AttemptID,
				&paymentsdb.HTLCFailInfo{Reason: paymentsdb.HTLCFailInternal,
					FailTime: verifC16CTime})
			if err != nil {
				dirty = true
			}
		}
		if _, err := st.db.Fail(ctx, c.hashes[h],
			paymentsdb.FailureReasonError); err != nil {

			dirty = true
		}
		if err := st.db.DeletePayment(ctx, c.hashes[h], false); err != nil {
			dirty = true
		}
	}
	return dirty
}

func TestVerifC16CT(t *testing.T) {
	vc := verifStart(t, "C16", "tower")
	defer vc.Finish()

	total := vc.N(1600, 24000)
	stores := map[string]*verifC16CStores{}
	defer func() {
		for _, s := range stores {
			s.Close()
		}
	}()
	for i := 0; i < total; i++ {
		if !vc.Mine(i) {
			continue
		}
		reps := 1
		if vc.Only >= 0 {
			// Replay of a concurrent case: the schedule is the Go
			// runtime's, so re-run the workload a fixed number of
			// times.
			reps = 50
			vc.Case(i, map[string]any{"reps": reps})
		} else {
			vc.Count("cases", 1)
			vc.mu.Lock()
			vc.curCase = i
			vc.mu.Unlock()
		}
		for rep := 0; rep < reps; rep++ {
			rng := vc.Rng(i)
			backend := "kv"
			if rng.Bool() {
				backend = "sql"
			}
			st := stores[backend]
			if st != nil && st.cases >= 200 {
				st.Close()
				st = nil
			}
			if st == nil {
				st = verifC16COpen(t, backend)
				stores[backend] = st
			}
			st.cases++
			vc.Count("cases_"+backend, 1)
			// Attempt ids must stay unique inside one store across
			// repetitions of the same case.
			if verifC16CRunCase(t, vc, st, rng, i+rep*total) {
				st.Close()
				delete(stores, backend)
			}
		}
		if vc.Only >= 0 {
			vc.CaseDone(i)
		}
	}
}
