package routing

// C16 monitor (concurrent part): 2-4 goroutines drive the real
// routing.ControlTower (the documented per-hash serialisation point) on top of
// a real KVStore (bbolt, real batching backend) or SQLStore (SQLite), plus
// direct store DeletePayment as the RPC server does. Histories are recorded at
// the client boundary (call stamp before, return stamp after, one monotonic
// counter) and checked with porcupine against a sequential model written from
// the documented rules, partitioned by payment hash.
//
//   verdict-bearing
//     linearizability        porcupine says Illegal for a history
//     conc_conservation      (no init/delete in the concurrent phase) amounts
//                            of admitted, not successfully failed attempts
//                            exceed the payment value; or the final record does
//     conc_attempt_after_terminal  (same restriction) an attempt was admitted
//                            by a call that started after a SettleAttempt or
//                            FailPayment call had returned successfully
//     conc_final_status      final record: status is not the documented
//                            function of its attempts / failed with a settled
//                            attempt
//     race_detector          (driver) -race reports attributed to anchored files
//   inconclusive / diagnostic
//     porcupine Unknown (timeout) is counted as lin_unknown, never a violation
//     db_busy answers are modelled as "no effect" and counted

import (
	"context"
	"database/sql"
	"errors"
	"fmt"
	"os"
	"path/filepath"
	"sort"
	"strings"
	"sync"
	"sync/atomic"
	"testing"
	"time"

	"github.com/anishathalye/porcupine"
	"github.com/btcsuite/btcd/btcec/v2"
	"github.com/lightningnetwork/lnd/kvdb"
	"github.com/lightningnetwork/lnd/lntypes"
	"github.com/lightningnetwork/lnd/lnwire"
	paymentsdb "github.com/lightningnetwork/lnd/payments/db"
	"github.com/lightningnetwork/lnd/record"
	"github.com/lightningnetwork/lnd/routing/route"
	"github.com/lightningnetwork/lnd/sqldb"
)

// ---------------------------------------------------------------------------
// Sequential model (per payment hash).
// ---------------------------------------------------------------------------

const (
	verifC16CNone      = 0
	verifC16CInitiated = 1
	verifC16CInFlight  = 2
	verifC16CSucceeded = 3
	verifC16CFailed    = 4
)

var verifC16CName = [...]string{"none", "initiated", "inflight", "succeeded",
	"failed"}

// Truth table of payment_status.go; index inflight<<3|settled<<2|
// htlcFailed<<1|paymentFailed.
var verifC16CTruth = [16]int{
	verifC16CInitiated, verifC16CFailed, verifC16CInFlight, verifC16CFailed,
	verifC16CSucceeded, verifC16CSucceeded, verifC16CSucceeded,
	verifC16CSucceeded,
	verifC16CInFlight, verifC16CInFlight, verifC16CInFlight, verifC16CInFlight,
	verifC16CInFlight, verifC16CInFlight, verifC16CInFlight, verifC16CInFlight,
}

func verifC16CB(b bool) int {
	if b {
		return 1
	}
	return 0
}

type verifC16CAtt struct {
	ID      uint64
	Amt     uint64
	Plain   bool
	Settled bool
	Failed  bool
}

type verifC16CState struct {
	Exists bool
	Value  uint64
	Reason int // -1 none
	Atts   []verifC16CAtt
}

func (s verifC16CState) key() string {
	var sb strings.Builder
	fmt.Fprintf(&sb, "%v/%d/%d", s.Exists, s.Value, s.Reason)
	for _, a := range s.Atts {
		fmt.Fprintf(&sb, "|%d:%d:%v:%v:%v", a.ID, a.Amt, a.Plain, a.Settled,
			a.Failed)
	}
	return sb.String()
}

func (s verifC16CState) status() int {
	if !s.Exists {
		return verifC16CNone
	}
	var i, st, f bool
	for _, a := range s.Atts {
		switch {
		case a.Failed:
			f = true
		case a.Settled:
			st = true
		default:
			i = true
		}
	}
	return verifC16CTruth[verifC16CB(i)<<3|verifC16CB(st)<<2|verifC16CB(f)<<1|
		verifC16CB(s.Reason >= 0)]
}

func (s verifC16CState) sent() uint64 {
	var x uint64
	for _, a := range s.Atts {
		if !a.Failed {
			x += a.Amt
		}
	}
	return x
}

func (s verifC16CState) proj() string {
	if !s.Exists {
		return "notinit"
	}
	var sb strings.Builder
	fmt.Fprintf(&sb, "%s v=%d rem=%d fr=%d", verifC16CName[s.status()],
		s.Value, s.Value-s.sent(), s.Reason)
	for _, a := range s.Atts {
		fmt.Fprintf(&sb, " {%d a=%d s=%v f=%v}", a.ID, a.Amt, a.Settled,
			a.Failed)
	}
	return sb.String()
}

type verifC16CIn struct {
	K      string `json:"k"`
	H      int    `json:"h"`
	ID     uint64 `json:"id,omitempty"`
	Amt    uint64 `json:"amt,omitempty"`
	Plain  bool   `json:"plain,omitempty"`
	Val    uint64 `json:"val,omitempty"`
	Reason byte   `json:"reason,omitempty"`
}

type verifC16COut struct {
	Class string `json:"class"` // ok | refused | db_busy | vanished
	Proj  string `json:"proj,omitempty"`
	Err   string `json:"err,omitempty"`
}

// verifC16CStep is the sequential specification: it returns whether the
// observed output is possible in state s and the successor state.
func verifC16CStep(s verifC16CState, in verifC16CIn, out verifC16COut) (bool,
	verifC16CState) {

	if out.Class == "db_busy" {
		// The transaction was rolled back: no effect.
		return true, s
	}
	st := s.status()
	n := s
	n.Atts = append([]verifC16CAtt(nil), s.Atts...)
	refused := func() (bool, verifC16CState) {
		return out.Class == "refused", s
	}
	okOut := out.Class == "ok"
	find := func(id uint64) int {
		for i, a := range n.Atts {
			if a.ID == id {
				return i
			}
		}
		return -1
	}
	switch in.K {
	case "init":
		if st == verifC16CInitiated || st == verifC16CInFlight ||
			st == verifC16CSucceeded {

			return refused()
		}
		n = verifC16CState{Exists: true, Value: in.Val, Reason: -1}
		// ControlTower.InitPayment = store InitPayment + a separate
		// FetchPayment; a concurrent delete in between makes the call
		// answer "not initiated" although the payment was created.
		return okOut || out.Class == "vanished", n

	case "reg":
		switch st {
		case verifC16CNone, verifC16CSucceeded, verifC16CFailed:
			return refused()
		}
		if st == verifC16CInFlight {
			for _, a := range n.Atts {
				if a.Settled && !a.Failed {
					return refused()
				}
			}
			if n.Reason >= 0 {
				return refused()
			}
		}
		for _, a := range n.Atts {
			if a.Failed || a.Settled {
				continue
			}
			if a.Plain != in.Plain {
				return refused()
			}
		}
		if in.Plain && in.Amt != n.Value {
			return refused()
		}
		if n.sent()+in.Amt > n.Value {
			return refused()
		}
		if find(in.ID) >= 0 {
			return refused()
		}
		n.Atts = append(n.Atts, verifC16CAtt{ID: in.ID, Amt: in.Amt,
			Plain: in.Plain})
		sort.Slice(n.Atts, func(i, j int) bool {
			return n.Atts[i].ID < n.Atts[j].ID
		})
		return okOut, n

	case "settle", "failatt":
		if st != verifC16CInitiated && st != verifC16CInFlight {
			return refused()
		}
		i := find(in.ID)
		if i < 0 || n.Atts[i].Failed || n.Atts[i].Settled {
			return refused()
		}
		if in.K == "settle" {
			n.Atts[i].Settled = true
		} else {
			n.Atts[i].Failed = true
		}
		return okOut, n

	case "failpay":
		if st == verifC16CNone {
			return refused()
		}
		n.Reason = int(in.Reason)
		return okOut, n

	case "del", "delfa":
		if st == verifC16CNone || st == verifC16CInFlight {
			return refused()
		}
		if in.K == "del" {
			return okOut, verifC16CState{Reason: -1}
		}
		var keep []verifC16CAtt
		for _, a := range n.Atts {
			if !a.Failed {
				keep = append(keep, a)
			}
		}
		n.Atts = keep
		return okOut, n

	case "fetch":
		if st == verifC16CNone {
			return refused()
		}
		return okOut && out.Proj == s.proj(), s
	}
	return false, s
}

var verifC16CModel = porcupine.Model{
	Partition: func(history []porcupine.Operation) [][]porcupine.Operation {
		m := map[int][]porcupine.Operation{}
		var keys []int
		for _, op := range history {
			h := op.Input.(verifC16CIn).H
			if _, ok := m[h]; !ok {
				keys = append(keys, h)
			}
			m[h] = append(m[h], op)
		}
		sort.Ints(keys)
		out := make([][]porcupine.Operation, 0, len(keys))
		for _, k := range keys {
			out = append(out, m[k])
		}
		return out
	},
	Init: func() interface{} { return verifC16CState{Reason: -1} },
	Step: func(state, input, output interface{}) (bool, interface{}) {
		ok, n := verifC16CStep(state.(verifC16CState),
			input.(verifC16CIn), output.(verifC16COut))
		return ok, n
	},
	Equal: func(a, b interface{}) bool {
		return a.(verifC16CState).key() == b.(verifC16CState).key()
	},
	DescribeOperation: func(in, out interface{}) string {
		return fmt.Sprintf("%+v -> %+v", in, out)
	},
	DescribeState: func(s interface{}) string {
		return s.(verifC16CState).proj()
	},
}

// ---------------------------------------------------------------------------
// Real system.
// ---------------------------------------------------------------------------

type verifC16CStores struct {
	db      paymentsdb.DB
	tower   ControlTower
	backend string
	closers []func()
	cases   int
}

func (s *verifC16CStores) Close() {
	for i := len(s.closers) - 1; i >= 0; i-- {
		s.closers[i]()
	}
	s.closers = nil
}

func verifC16CScratch() string {
	if st, err := os.Stat("/dev/shm"); err == nil && st.IsDir() {
		return "/dev/shm"
	}
	if s := os.Getenv("VERIF_SCRATCH"); s != "" {
		return s
	}
	return os.TempDir()
}

func verifC16COpen(t testing.TB, backend string) *verifC16CStores {
	dir, err := os.MkdirTemp(verifC16CScratch(), "verif-c16ct-")
	if err != nil {
		t.Fatalf("scratch: %v", err)
	}
	s := &verifC16CStores{backend: backend}
	s.closers = append(s.closers, func() { os.RemoveAll(dir) })
	switch backend {
	case "kv":
		be, err := kvdb.GetBoltBackend(&kvdb.BoltBackendConfig{
			DBPath: dir, DBFileName: "kv.db", NoFreelistSync: true,
			DBTimeout: kvdb.DefaultDBTimeout,
		})
		if err != nil {
			s.Close()
			t.Fatalf("bolt: %v", err)
		}
		s.closers = append(s.closers, func() { be.Close() })
		kv, err := paymentsdb.NewKVStore(be)
		if err != nil {
			s.Close()
			t.Fatalf("kvstore: %v", err)
		}
		s.db = kv
	default:
		sdb, err := sqldb.NewSqliteStore(&sqldb.SqliteConfig{},
			filepath.Join(dir, "sql.db"))
		if err != nil {
			s.Close()
			t.Fatalf("sqlite: %v", err)
		}
		s.closers = append(s.closers, func() { sdb.DB.Close() })
		err = sdb.ApplyAllMigrations(context.Background(),
			sqldb.GetMigrations())
		if err != nil {
			s.Close()
			t.Fatalf("migrations: %v", err)
		}
		base := sdb.BaseDB
		ex := sqldb.NewTransactionExecutor(base,
			func(tx *sql.Tx) paymentsdb.SQLQueries {
				return base.WithTx(tx)
			})
		sq, err := paymentsdb.NewSQLStore(&paymentsdb.SQLStoreConfig{
			QueryCfg: sqldb.DefaultSQLiteConfig()}, ex)
		if err != nil {
			s.Close()
			t.Fatalf("sqlstore: %v", err)
		}
		s.db = sq
	}
	s.tower = NewControlTower(s.db)
	return s
}

var verifC16CVertex = func() route.Vertex {
	var v route.Vertex
	_, pub := btcec.PrivKeyFromBytes([]byte{0x01, 0x02, 0x03, 0x04, 0x05, 0x06,
		0x07, 0x08, 0x09, 0x0a, 0x0b, 0x0c, 0x0d, 0x0e, 0x0f, 0x10, 0x11,
		0x12, 0x13, 0x14, 0x15, 0x16, 0x17, 0x18, 0x19, 0x1a, 0x1b, 0x1c,
		0x1d, 0x1e, 0x1f, 0x20})
	copy(v[:], pub.SerializeCompressed())
	return v
}()

var verifC16CTime = time.Unix(1700000000, 0)

func verifC16CAttempt(in verifC16CIn, h lntypes.Hash, total uint64,
	keySeed uint64) (*paymentsdb.HTLCAttemptInfo, error) {

	hop := &route.Hop{
		PubKeyBytes:      verifC16CVertex,
		ChannelID:        7,
		OutgoingTimeLock: 90,
		AmtToForward:     lnwire.MilliSatoshi(in.Amt),
	}
	if !in.Plain {
		hop.MPP = record.NewMPP(lnwire.MilliSatoshi(total), [32]byte{4})
	}
	rt := route.Route{
		TotalTimeLock: 100,
		TotalAmount:   lnwire.MilliSatoshi(in.Amt),
		SourcePubKey:  verifC16CVertex,
		Hops:          []*route.Hop{hop},
	}
	var kb [32]byte
	x := keySeed
	for i := 0; i < 32; i += 8 {
		x = verifMix(x + 0x7654321)
		for j := 0; j < 8; j++ {
			kb[i+j] = byte(x >> (8 * j))
		}
	}
	kb[0] = 0x01 | (kb[0] & 0x3f)
	priv, _ := btcec.PrivKeyFromBytes(kb[:])
	hh := h
	a, err := paymentsdb.NewHtlcAttempt(in.ID, priv, rt,
		verifC16CTime.Add(time.Duration(in.ID%100000)*time.Second), &hh)
	if err != nil {
		return nil, err
	}
	return &a.HTLCAttemptInfo, nil
}

func verifC16CClass(err error) string {
	switch {
	case err == nil:
		return "ok"
	case sqldb.IsSerializationError(err),
		strings.Contains(err.Error(), "SQLITE_BUSY"),
		strings.Contains(err.Error(), "database is locked"),
		strings.Contains(err.Error(), "retries exceeded"):

		return "db_busy"
	}
	return "refused"
}

func verifC16CProject(p *paymentsdb.MPPayment) string {
	if p == nil || p.Info == nil || p.State == nil {
		return "<nil>"
	}
	st := verifC16CNone
	switch p.Status {
	case paymentsdb.StatusInitiated:
		st = verifC16CInitiated
	case paymentsdb.StatusInFlight:
		st = verifC16CInFlight
	case paymentsdb.StatusSucceeded:
		st = verifC16CSucceeded
	case paymentsdb.StatusFailed:
		st = verifC16CFailed
	}
	reason := -1
	if p.FailureReason != nil {
		reason = int(*p.FailureReason)
	}
	type att struct {
		id, amt uint64
		s, f    bool
	}
	var atts []att
	for _, a := range p.HTLCs {
		atts = append(atts, att{a.AttemptID, uint64(a.Route.ReceiverAmt()),
			a.Settle != nil, a.Failure != nil})
	}
	sort.Slice(atts, func(i, j int) bool { return atts[i].id < atts[j].id })
	var sb strings.Builder
	fmt.Fprintf(&sb, "%s v=%d rem=%d fr=%d", verifC16CName[st],
		uint64(p.Info.Value), uint64(p.State.RemainingAmt), reason)
	for _, a := range atts {
		fmt.Fprintf(&sb, " {%d a=%d s=%v f=%v}", a.id, a.amt, a.s, a.f)
	}
	return sb.String()
}

type verifC16CRec struct {
	Client int          `json:"client"`
	In     verifC16CIn  `json:"in"`
	Out    verifC16COut `json:"out"`
	Call   int64        `json:"call"`
	Ret    int64        `json:"ret"`
}

type verifC16CCase struct {
	st     *verifC16CStores
	hashes []lntypes.Hash
	value  uint64
	atts   map[uint64]*paymentsdb.HTLCAttemptInfo
	clock  atomic.Int64
	mu     sync.Mutex
	recs   []verifC16CRec
}

func (c *verifC16CCase) exec(client int, in verifC16CIn) verifC16COut {
	ctx := context.Background()
	h := c.hashes[in.H]
	var (
		err error
		out verifC16COut
	)
	call := c.clock.Add(1)
	switch in.K {
	case "init":
		err = c.st.tower.InitPayment(ctx, h, &paymentsdb.PaymentCreationInfo{
			PaymentIdentifier: h, Value: lnwire.MilliSatoshi(in.Val),
			CreationTime: verifC16CTime, PaymentRequest: []byte("verif"),
		})
	case "reg":
		err = c.st.tower.RegisterAttempt(ctx, h, c.atts[in.ID])
	case "settle":
		_, err = c.st.tower.SettleAttempt(ctx, h, in.ID,
			&paymentsdb.HTLCSettleInfo{Preimage: lntypes.Preimage{7},
				SettleTime: verifC16CTime})
	case "failatt":
		_, err = c.st.tower.FailAttempt(ctx, h, in.ID,
			&paymentsdb.HTLCFailInfo{Reason: paymentsdb.HTLCFailInternal,
				FailTime: verifC16CTime})
	case "failpay":
		err = c.st.tower.FailPayment(ctx, h,
			paymentsdb.FailureReason(in.Reason))
	case "del":
		// As the RPC server does: straight on the store.
		err = c.st.db.DeletePayment(ctx, h, false)
	case "delfa":
		err = c.st.tower.DeleteFailedAttempts(ctx, h)
	case "fetch":
		var p paymentsdb.DBMPPayment
		p, err = c.st.tower.FetchPayment(ctx, h)
		if err == nil {
			mp, _ := p.(*paymentsdb.MPPayment)
			out.Proj = verifC16CProject(mp)
		}
	}
	ret := c.clock.Add(1)
	out.Class = verifC16CClass(err)
	if in.K == "init" && err != nil &&
		errors.Is(err, paymentsdb.ErrPaymentNotInitiated) {

		out.Class = "vanished"
	}
	if err != nil {
		out.Err = err.Error()
		if len(out.Err) > 160 {
			out.Err = out.Err[:160]
		}
	}
	c.mu.Lock()
	c.recs = append(c.recs, verifC16CRec{Client: client, In: in, Out: out,
		Call: call, Ret: ret})
	c.mu.Unlock()
	return out
}

// verifC16CGen produces the per-client op lists of one case.
func verifC16CGen(r *verifRng, base uint64, nh int, value uint64) (pre []verifC16CIn,
	clients [][]verifC16CIn) {

	nextID := base
	var regIDs [][]uint64 = make([][]uint64, nh)
	amounts := func() uint64 {
		switch r.Intn(8) {
		case 0:
			return value
		case 1, 2:
			return value / 2
		case 3:
			return value/2 + 1
		case 4:
			return value / 4
		case 5:
			return value/3 + 1
		case 6:
			return 1
		default:
			return value - value/4
		}
	}
	mkReg := func(h int) verifC16CIn {
		nextID++
		in := verifC16CIn{K: "reg", H: h, ID: nextID, Amt: amounts()}
		if r.Chance(1, 12) {
			in.Plain = true
			in.Amt = value
		}
		regIDs[h] = append(regIDs[h], in.ID)
		return in
	}
	for h := 0; h < nh; h++ {
		if r.Chance(5, 6) {
			pre = append(pre, verifC16CIn{K: "init", H: h, Val: value})
			for k := r.Intn(3); k > 0; k-- {
				in := mkReg(h)
				in.Amt = value / 4
				in.Plain = false
				pre = append(pre, in)
			}
		}
	}
	nc := 2 + r.Intn(3)
	// Registrations are planned first so that settles/fails can target
	// attempts of other clients.
	type slot struct{ c, i int }
	clients = make([][]verifC16CIn, nc)
	for c := 0; c < nc; c++ {
		n := 3 + r.Intn(4)
		clients[c] = make([]verifC16CIn, n)
		for i := 0; i < n; i++ {
			h := r.Intn(nh)
			w := r.Intn(100)
			var in verifC16CIn
			switch {
			case w < 36:
				in = mkReg(h)
			case w < 52:
				in = verifC16CIn{K: "settle", H: h}
			case w < 68:
				in = verifC16CIn{K: "failatt", H: h}
			case w < 75:
				in = verifC16CIn{K: "failpay", H: h,
					Reason: byte(r.Intn(6))}
			case w < 86:
				in = verifC16CIn{K: "fetch", H: h}
			case w < 92:
				in = verifC16CIn{K: "init", H: h, Val: value}
			case w < 96:
				in = verifC16CIn{K: "del", H: h}
			default:
				in = verifC16CIn{K: "delfa", H: h}
			}
			clients[c][i] = in
		}
	}
	for c := range clients {
		for i := range clients[c] {
			in := &clients[c][i]
			if in.K != "settle" && in.K != "failatt" {
				continue
			}
			ids := regIDs[in.H]
			if len(ids) == 0 || r.Chance(1, 20) {
				in.ID = base + 60 // never registered
				continue
			}
			in.ID = ids[r.Intn(len(ids))]
		}
	}
	return pre, clients
}

func verifC16COverlaps(recs []verifC16CRec) int {
	n := 0
	for i := range recs {
		for j := i + 1; j < len(recs); j++ {
			a, b := recs[i], recs[j]
			if a.In.H == b.In.H && a.Client != b.Client &&
				a.Call < b.Ret && b.Call < a.Ret {

				n++
			}
		}
	}
	return n
}

func verifC16CRunCase(t *testing.T, vc *verifCtx, st *verifC16CStores,
	rng *verifRng, idx int) (dirty bool) {

	nh := 1
	if rng.Chance(1, 4) {
		nh = 2
	}
	value := uint64(1000)
	if rng.Chance(1, 5) {
		value = 4 + rng.U64n(8)
	}
	c := &verifC16CCase{st: st, value: value,
		atts: map[uint64]*paymentsdb.HTLCAttemptInfo{}}
	for h := 0; h < nh; h++ {
		var hh lntypes.Hash
		copy(hh[:], rng.Bytes(32))
		c.hashes = append(c.hashes, hh)
	}
	base := uint64(idx+1) * 128
	pre, clients := verifC16CGen(rng, base, nh, value)
	all := append([]verifC16CIn(nil), pre...)
	for _, cl := range clients {
		all = append(all, cl...)
	}
	for _, in := range all {
		if in.K != "reg" {
			continue
		}
		a, err := verifC16CAttempt(in, c.hashes[in.H], value,
			uint64(idx)<<16|in.ID&0xffff)
		if err != nil {
			t.Fatalf("attempt: %v", err)
		}
		c.atts[in.ID] = a
	}

	for _, in := range pre {
		c.exec(0, in)
	}
	preLen := len(c.recs)

	start := make(chan struct{})
	var wg sync.WaitGroup
	for ci := range clients {
		wg.Add(1)
		go func(ci int) {
			defer wg.Done()
			<-start
			for _, in := range clients[ci] {
				c.exec(ci+1, in)
			}
		}(ci)
	}
	close(start)
	done := make(chan struct{})
	go func() { wg.Wait(); close(done) }()
	select {
	case <-done:
	case <-time.After(5 * time.Minute):
		t.Fatalf("verif: concurrent clients did not finish (watchdog)")
	}
	concLen := len(c.recs)
	for h := 0; h < nh; h++ {
		c.exec(0, verifC16CIn{K: "fetch", H: h})
	}

	recs := append([]verifC16CRec(nil), c.recs...)
	sort.Slice(recs, func(i, j int) bool { return recs[i].Call < recs[j].Call })
	witness := map[string]any{"case": idx, "backend": st.backend,
		"value": value, "history": recs}

	vc.Count("histories", 1)
	vc.Count("history_ops", int64(len(recs)))
	busy := 0
	for _, r := range recs {
		if r.Out.Class == "db_busy" {
			busy++
		}
		if r.Out.Class == "vanished" {
			vc.Count("init_vanished", 1)
		}
	}
	if busy > 0 {
		vc.Count("db_busy_answers", int64(busy))
	}
	ov := verifC16COverlaps(recs[preLen:concLen])
	if ov > 0 {
		vc.Count("histories_with_overlap", 1)
		vc.Count("overlapping_pairs", int64(ov))
	}

	// (1) linearizability.
	ops := make([]porcupine.Operation, len(recs))
	for i, r := range recs {
		ops[i] = porcupine.Operation{ClientId: r.Client, Input: r.In,
			Call: r.Call, Output: r.Out, Return: r.Ret}
	}
	res, _ := porcupine.CheckOperationsVerbose(verifC16CModel, ops,
		20*time.Second)
	vc.Count("eval_linearizability", 1)
	switch res {
	case porcupine.Ok:
		vc.Count("lin_ok", 1)
	case porcupine.Unknown:
		vc.Count("lin_unknown", 1)
		vc.Diag("porcupine_timeout", fmt.Sprintf("case %d", idx))
	case porcupine.Illegal:
		vc.Violation("linearizability", st.backend,
			"client-boundary history is not linearizable against the "+
				"sequential payment-store model", witness)
		dirty = true
	}

	// (2) model-free checks, meaningful when no payment was (re)created or
	// deleted during the concurrent phase.
	stable := true
	for _, r := range recs[preLen:concLen] {
		if (r.In.K == "init" || r.In.K == "del") && r.Out.Class != "refused" {
			stable = false
		}
	}
	if stable {
		vc.Count("eval_conc_invariants", 1)
		for h := 0; h < nh; h++ {
			var live uint64
			exists := false
			failed := map[uint64]bool{}
			var firstTerminalRet int64 = -1
			for _, r := range recs {
				if r.In.H != h || r.Out.Class != "ok" {
					continue
				}
				switch r.In.K {
				case "init":
					exists = true
				case "failatt":
					failed[r.In.ID] = true
				case "settle", "failpay":
					if firstTerminalRet < 0 || r.Ret < firstTerminalRet {
						firstTerminalRet = r.Ret
					}
				}
			}
			for _, r := range recs {
				if r.In.H != h || r.In.K != "reg" || r.Out.Class != "ok" {
					continue
				}
				if !failed[r.In.ID] {
					live += r.In.Amt
				}
				if firstTerminalRet >= 0 && r.Call > firstTerminalRet {
					vc.Violation("conc_attempt_after_terminal", st.backend,
						fmt.Sprintf("attempt %d admitted by a call that "+
							"started after a settle / payment failure "+
							"had returned", r.In.ID), witness)
					dirty = true
				}
			}
			if exists && live > value {
				vc.Violation("conc_conservation", st.backend+":admitted",
					fmt.Sprintf("admitted, not failed attempt amounts %d "+
						"exceed the payment value %d", live, value), witness)
				dirty = true
			}
		}
	}

	// (3) final record.
	for h := 0; h < nh; h++ {
		p, err := st.db.FetchPayment(context.Background(), c.hashes[h])
		if err != nil {
			continue
		}
		vc.Count("eval_final_record", 1)
		var sent uint64
		var i, s, f bool
		for _, a := range p.HTLCs {
			switch {
			case a.Failure != nil:
				f = true
			case a.Settle != nil:
				s = true
				sent += uint64(a.Route.ReceiverAmt())
			default:
				i = true
				sent += uint64(a.Route.ReceiverAmt())
			}
		}
		if sent > uint64(p.Info.Value) {
			vc.Violation("conc_conservation", st.backend+":record",
				fmt.Sprintf("final record: settled+in-flight %d exceed "+
					"value %d", sent, uint64(p.Info.Value)), witness)
			dirty = true
		}
		want := verifC16CTruth[verifC16CB(i)<<3|verifC16CB(s)<<2|
			verifC16CB(f)<<1|verifC16CB(p.FailureReason != nil)]
		got := map[paymentsdb.PaymentStatus]int{
			paymentsdb.StatusInitiated: verifC16CInitiated,
			paymentsdb.StatusInFlight:  verifC16CInFlight,
			paymentsdb.StatusSucceeded: verifC16CSucceeded,
			paymentsdb.StatusFailed:    verifC16CFailed}[p.Status]
		if want != got {
			vc.Violation("conc_final_status", st.backend,
				fmt.Sprintf("final record reports %s, documented function "+
					"of its attempts gives %s", verifC16CName[got],
					verifC16CName[want]), witness)
			dirty = true
		}
	}

	if ov > 0 {
		var toks []string
		for _, r := range recs[preLen:concLen] {
			toks = append(toks, r.In.K+":"+r.Out.Class)
		}
		sort.Strings(toks)
		vc.Sig(fmt.Sprintf("%s|%d|%s", st.backend, len(clients),
			strings.Join(toks, ",")))
	}
	if idx%97 == 0 {
		vc.Sample(witness)
	}

	// Cleanup: drive to a terminal state and delete (not judged).
	ctx := context.Background()
	for h := 0; h < nh; h++ {
		p, err := st.db.FetchPayment(ctx, c.hashes[h])
		if err != nil {
			continue
		}
		for _, a := range p.InFlightHTLCs() {
			_, err := st.db.FailAttempt(ctx, c.hashes[h], a.AttemptID,
				&paymentsdb.HTLCFailInfo{Reason: paymentsdb.HTLCFailInternal,
					FailTime: verifC16CTime})
			if err != nil {
				dirty = true
			}
		}
		if _, err := st.db.Fail(ctx, c.hashes[h],
			paymentsdb.FailureReasonError); err != nil {

			dirty = true
		}
		if err := st.db.DeletePayment(ctx, c.hashes[h], false); err != nil {
			dirty = true
		}
	}
	return dirty
}

func TestVerifC16CT(t *testing.T) {
	vc := verifStart(t, "C16", "tower")
	defer vc.Finish()

	total := vc.N(1600, 24000)
	stores := map[string]*verifC16CStores{}
	defer func() {
		for _, s := range stores {
			s.Close()
		}
	}()
	for i := 0; i < total; i++ {
		if !vc.Mine(i) {
			continue
		}
		reps := 1
		if vc.Only >= 0 {
			// Replay of a concurrent case: the schedule is the Go
			// runtime's, so re-run the workload a fixed number of
			// times.
			reps = 50
			vc.Case(i, map[string]any{"reps": reps})
		} else {
			vc.Count("cases", 1)
			vc.mu.Lock()
			vc.curCase = i
			vc.mu.Unlock()
		}
		for rep := 0; rep < reps; rep++ {
			rng := vc.Rng(i)
			backend := "kv"
			if rng.Bool() {
				backend = "sql"
			}
			st := stores[backend]
			if st != nil && st.cases >= 200 {
				st.Close()
				st = nil
			}
			if st == nil {
				st = verifC16COpen(t, backend)
				stores[backend] = st
			}
			st.cases++
			vc.Count("cases_"+backend, 1)
			// Attempt ids must stay unique inside one store across
			// repetitions of the same case.
			if verifC16CRunCase(t, vc, st, rng, i+rep*total) {
				st.Close()
				delete(stores, backend)
			}
		}
		if vc.Only >= 0 {
			vc.CaseDone(i)
		}
	}
}
